#!/usr/bin/env python3
"""Regenerates MANIFEST.json from props.json + properties.jsonl (kept in one place so the
manifest is always valid and complete)."""
import json, os
ROOT = os.path.dirname(os.path.abspath(__file__))
props = {fn[:-5]: json.load(open(os.path.join(ROOT, "props.d", fn))) for fn in sorted(os.listdir(os.path.join(ROOT, "props.d"))) if fn.endswith(".json")}
allp = [json.loads(l) for l in open(os.path.join(ROOT, "properties.jsonl")) if l.strip()]
baseline = json.load(open("/root/.vp/BASELINE.json"))["cmd"] if os.path.exists("/root/.vp/BASELINE.json") else ""
hooks_commits = []
try:
    import subprocess
    out = subprocess.run(["git", "-C", "/repo", "log", "--format=%H %s"], capture_output=True, text=True).stdout
    hooks_commits = [l.split()[0] for l in out.splitlines() if " verif hooks" in l]
except Exception:
    pass
checks = []
for p in allp:
    pid = p["id"]
    if pid not in props or props[pid].get("disabled"):
        continue
    c = props[pid]
    checks.append({
        "property_id": pid,
        "quick_cmd": "./check %s quick" % pid,
        "thorough_cmd": "./check %s thorough" % pid,
        "evidence_file": "/verif/evidence/%s.json" % pid,
        "replay_cmd_template": "./check %s --replay {path}" % pid,
        "engine": "lean4-proof+correspondence",
        "level_claimed": {"category": "proof", "text": c["level_text"], "design_ref": c.get("design_ref", "DESIGN.md section 4 / " + pid)},
        "level_note": c["level_note"],
        "technique": c.get("technique", "Lean 4 theorems over a hand-written executable model tied to the Go code by regenerated facts and a differential correspondence check"),
    })
na = [{"property_id": p["id"], "reason": props.get(p["id"], {}).get("na_reason", "check not built yet (work in progress; see DESIGN.md section 7 for the build order)")}
      for p in allp if p["id"] not in props or props[p["id"]].get("disabled")]
m = {
    "version": 1,
    "setup_cmd": "./check --setup",
    "hooks": {"guard": "verif", "enable": "go build -tags \"verif verif_cNN\" (files /repo/verif_hooks*.go: shared hooks //go:build verif, per-property hooks //go:build verif && verif_cNN; each check builds its own harness binary with its own tag pair)",
              "baseline_off_cmd": baseline, "source_commits": hooks_commits, "add_only": True},
    "engines": [{"name": "lean4-proof+correspondence", "path": "/verif/check",
                 "serves_properties": [c["property_id"] for c in checks],
                 "kind_free_text": "Lean 4 models + theorems (lean/), Go fact extractor and differential harness (harness/), Python driver (check)"}],
    "checks": checks,
    "notes": "Known findings: /verif/known_findings.d/<id>.json (committed, never written at run time). Every check regenerates lean/XlModel/Generated/Facts.lean from /repo, rebuilds the property's theorems, audits axioms, builds the Go harness against /repo with -tags verif, runs direct oracles and the model-vs-implementation transcript diff.",
    "not_applicable": na,
}
json.dump(m, open(os.path.join(ROOT, "MANIFEST.json"), "w"), indent=1)
print("MANIFEST.json: %d checks, %d not_applicable" % (len(checks), len(na)))
