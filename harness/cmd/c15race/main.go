// c15race: stress driver for property C15, built with the race detector
// (`go build -race -tags verif`) by the vh C15 runner.
//
// It runs seeded scenarios: N goroutines issue a mix of the functions that are
// documented as concurrency safe against one *excelize.File; afterwards the
// final workbook is observed sequentially and compared with what SOME sequential
// order of the same calls could have produced.  Race reports are printed by the
// Go runtime on stderr; the scenario markers printed here (also on stderr) let
// the caller attribute each report to a scenario.
//
//	c15race -seed S -tier quick|thorough -out result.json [-only k] [-images dir]
package main

import (
	"bytes"
	"encoding/json"
	"flag"
	"fmt"
	"image"
	"image/color"
	_ "image/gif"
	_ "image/jpeg"
	"image/png"
	"os"
	"path/filepath"
	"runtime"
	"sort"
	"strconv"
	"strings"
	"sync"
	"sync/atomic"
	"time"

	xl "github.com/xuri/excelize/v2"
)

// ---- splitmix64 (same generator as the vh harness) ----
type rng struct{ s uint64 }

func newRng(seed uint64) *rng { return &rng{s: seed*0x9E3779B97F4A7C15 + 0x1234567} }
func (r *rng) u64() uint64 {
	r.s += 0x9E3779B97F4A7C15
	z := r.s
	z = (z ^ (z >> 30)) * 0xBF58476D1CE4E5B9
	z = (z ^ (z >> 27)) * 0x94D049BB133111EB
	return z ^ (z >> 31)
}
func (r *rng) intn(n int) int {
	if n <= 0 {
		return 0
	}
	return int(r.u64() % uint64(n))
}
func (r *rng) chance(p int) bool { return r.intn(100) < p }

// ---- operations ----
type op struct {
	Fn    string // API function (as documented) exercised by this op
	Kind  string
	Sheet string
	Cell  string // cell / column name
	Cell2 string
	Val   interface{} `json:"-"`
	VDesc string      // payload class
	ID    int         // unique id of a write (0 = not a tracked write)
	Key   string      // state key written ("c|Sheet1|B2", "w|Sheet1|C", "s|Sheet1|B2" ...)
	Obs   string      // observation this write produces when it is the last one
	Style int         // style pool index / style id (-1: Spec)
	Spec  *xl.Style   `json:"-"` // a style nobody else asks for (NewStyle must append)
	Row   []interface{} `json:"-"`
	RowID []int
	Img   string
	Want  string // getval in a read-only scenario: the value every read must return
}

type fail struct {
	Sig  string `json:"sig"`
	What string `json:"what"`
}

type linCase struct {
	Progs [][][2]int `json:"progs"` // per goroutine: (key index, write id)
	Final [][2]int   `json:"final"` // (key index, id of the write whose value is there)
}

type result struct {
	Idx        int            `json:"idx"`
	Name       string         `json:"name"`
	Seed       uint64         `json:"seed"`
	Goroutines int            `json:"goroutines"`
	Procs      int            `json:"procs"`
	Ops        int            `json:"ops"`
	Fns        map[string]int `json:"fns"`
	Payloads   map[string]int `json:"payloads"`
	Fails      []fail         `json:"fails"`
	Lin        *linCase       `json:"lin,omitempty"`
	Keys       int            `json:"keys"`
	KeyNames   []string       `json:"key_names"`
	Sheets     []string       `json:"sheets"`
	Pics       []string       `json:"pics,omitempty"` // "goroutine:index sheet!cell image" for every AddPicture, in program order
	SharedKeys int            `json:"shared_keys"`
	Millis     int64          `json:"millis"`
}

var imgDir string

// style pool: specs requested through NewStyle
func stylePool() []*xl.Style {
	dp := 3
	return []*xl.Style{
		{NumFmt: 2},
		{NumFmt: 4},
		{NumFmt: 10},
		{NumFmt: 14},
		{NumFmt: 22},
		{NumFmt: 49},
		{Font: &xl.Font{Bold: true, Size: 12, Family: "Arial", Color: "FF0000"}},
		{Font: &xl.Font{Italic: true, Size: 9, Family: "Calibri"}},
		{Fill: xl.Fill{Type: "pattern", Pattern: 1, Color: []string{"00FF00"}}},
		{Fill: xl.Fill{Type: "pattern", Pattern: 1, Color: []string{"0000FF"}}, NumFmt: 3},
		{Border: []xl.Border{{Type: "left", Color: "0000FF", Style: 2}, {Type: "top", Color: "00FF00", Style: 1}}},
		{Alignment: &xl.Alignment{Horizontal: "center", WrapText: true}},
		{Protection: &xl.Protection{Hidden: true, Locked: true}},
		{CustomNumFmt: strPtr("0.000\"u\"")},
		{CustomNumFmt: strPtr("[$-409]yyyy\\-mm\\-dd")},
		{NumFmt: 2, DecimalPlaces: &dp},
		{Font: &xl.Font{Underline: "single", Size: 14}, NumFmt: 9},
		{Fill: xl.Fill{Type: "gradient", Color: []string{"FFFFFF", "E0EBF5"}, Shading: 1}},
	}
}

func strPtr(s string) *string { return &s }

func styleJSON(st *xl.Style) string {
	b, _ := json.Marshal(st)
	return string(b)
}

// reference observation of one cell write: perform it alone on a scratch file
func refObs(v interface{}) string {
	f := xl.NewFile()
	defer f.Close()
	if err := f.SetCellValue("Sheet1", "A1", v); err != nil {
		return "ERR:" + err.Error()
	}
	s, _ := f.GetCellValue("Sheet1", "A1", xl.Options{RawCellValue: true})
	return s
}

// canonNum: a formatted read (GetCellValue without RawCellValue, Rows/Cols iterators) rewrites a
// stored number of more than 15 significant digits to 15 digits (sequentially too: property C04);
// a sequential order that places such a read after the write explains the shorter text, so
// numbers are compared at 15 significant digits.
func canonNum(s string) string {
	if len(s) < 16 {
		return s
	}
	v, err := strconv.ParseFloat(s, 64)
	if err != nil {
		return s
	}
	return strconv.FormatFloat(v, 'G', 15, 64)
}

func cellName(k int) string {
	n, _ := xl.CoordinatesToCellName(1+k%6, 1+k/6)
	return n
}

type gen struct {
	r      *rng
	nextID int
	uniq   int
}

func (g *gen) id() int { g.nextID++; return g.nextID }

// payload draws a value of one of the classes the property names; every payload is unique
// within the scenario (so that the final value identifies its writer), except bool/nil.
func (g *gen) payload(unique bool) (interface{}, string) {
	g.uniq++
	u := g.uniq
	k := g.r.intn(14)
	if unique && (k == 9 || k == 10 || k == 11 || k == 13) {
		k = g.r.intn(9) // two-valued / repeated payloads only on cells with a single writer
	}
	switch k {
	case 0:
		return 1000 + u, "int"
	case 1:
		return int64(-5000 - u), "int64"
	case 2:
		return uint32(70000 + u), "uint32"
	case 3:
		return float64(u) + 0.25, "float64"
	case 4:
		return float32(u) + 0.5, "float32"
	case 5:
		return fmt.Sprintf("str-%d-%s", u, strings.Repeat("x", g.r.intn(12))), "string-new" // grows the shared-string table
	case 6:
		return []byte(fmt.Sprintf("bytes-%d", u)), "bytes"
	case 7:
		return time.Date(2001+u%20, time.Month(1+u%12), 1+u%28, u%24, u%60, u%60, 0, time.UTC).AddDate(0, 0, u*37), "time"
	case 8:
		return time.Duration(u)*time.Second + time.Duration(u%7)*time.Hour, "duration"
	case 9:
		return u%2 == 0, "bool"
	case 10:
		return nil, "nil"
	case 11:
		return fmt.Sprintf("rep-%d", u%3), "string-repeated" // already-present shared strings (after first use)
	case 12:
		return fmt.Sprintf(" lead-%d ", u), "string-space"
	default:
		return uint8(u % 250), "uint8"
	}
}

type scenario struct {
	name   string
	g      int
	procs  int
	sheets []string
	progs  [][]op
	prep   func(f *xl.File) error
	reopen bool
	opts   xl.Options // options for the reopened workbook
	// lockstep: all goroutines start their i-th operation together (maximal overlap of one
	// operation kind; every program has the same length)
	lockstep bool
}

// uniquePNG writes a small PNG nobody else uses into the private temp dir and returns its path.
func uniquePNG(seed uint64, t, i int) string {
	img := image.NewRGBA(image.Rect(0, 0, 6, 6))
	for x := 0; x < 6; x++ {
		for y := 0; y < 6; y++ {
			img.Set(x, y, color.RGBA{R: uint8(10 + t), G: uint8(i), B: uint8(seed), A: 255})
		}
	}
	var buf bytes.Buffer
	_ = png.Encode(&buf, img)
	p := filepath.Join(os.TempDir(), fmt.Sprintf("c15-%d-%d-%d.png", seed, t, i))
	_ = os.WriteFile(p, buf.Bytes(), 0o644)
	return p
}

func spillText(sheet string, k int) string {
	return fmt.Sprintf("%s-string-%d-%s", sheet, k, strings.Repeat("s", 30))
}

func imgPath(name string) string {
	if filepath.IsAbs(name) {
		return name
	}
	return filepath.Join(imgDir, name)
}

func pickSheet(r *rng, sheets []string) string { return sheets[r.intn(len(sheets))] }

// buildScenario generates the per-goroutine programs of one scenario.
func buildScenario(kind string, r *rng, tier string) *scenario {
	g := &gen{r: r}
	sc := &scenario{name: kind}
	gs := []int{2, 2, 3, 4, 5, 8, 8, 16, 32}
	sc.g = gs[r.intn(len(gs))]
	ps := []int{2, 4, 8, 16}
	sc.procs = ps[r.intn(len(ps))]
	sc.sheets = []string{"Sheet1"}
	if r.chance(50) || kind == "formulas" || kind == "pictures" {
		sc.sheets = append(sc.sheets, "Data2")
	}
	nops := 12 + r.intn(30)
	if tier == "thorough" {
		nops = 20 + r.intn(80)
	}
	if sc.g >= 16 {
		nops = nops/2 + 4
	}
	if strings.HasPrefix(kind, "w-") {
		sc.g = 3 + r.intn(5)
		nops = 40
		sc.procs = 8
	}
	if kind == "w-ctypes" {
		sc.g, nops = 8, 3
		sc.sheets = []string{"Sheet1", "Data2"}
	}
	if kind == "w-row" {
		sc.g, nops = 4, 1
		sc.sheets = []string{"Sheet1"}
	}
	if kind == "w-rels" {
		sc.sheets = []string{"Sheet1", "R2", "R3", "R4", "R5", "R6"}
		sc.g, nops, sc.procs, sc.lockstep = 8, 6, 8, true
	}
	if kind == "w-first" {
		sc.sheets = []string{"Sheet1", "F2", "F3", "F4", "F5", "F6"}
		sc.g, nops, sc.procs, sc.lockstep = 8+r.intn(5), 2*len(sc.sheets), 8, true
	}
	if kind == "spill" {
		sc.g, nops, sc.procs, sc.lockstep = 4+r.intn(5), 60, 8, true
		sc.sheets = []string{"Sheet1", "Data2"}
	}
	if kind == "w-media" {
		sc.g, nops, sc.procs, sc.lockstep = 8+r.intn(5), 10, 8, true
		sc.sheets = []string{"Sheet1"}
		for t := 1; t < sc.g; t++ {
			sc.sheets = append(sc.sheets, fmt.Sprintf("Pic%d", t+1))
		}
	}
	if kind == "w-sst" {
		// every goroutine has its own worksheet; lock-step rounds in which each writes a string nobody wrote before
		sc.g, nops, sc.procs, sc.lockstep = 8+r.intn(5), 24, 8, true
		sc.sheets = []string{"Sheet1"}
		for t := 1; t < sc.g; t++ {
			sc.sheets = append(sc.sheets, fmt.Sprintf("Str%d", t+1))
		}
	}
	if kind == "sheetrow" {
		if sc.g < 6 {
			sc.g = 6
		}
		sc.procs = 8
		if nops < 24 {
			nops = 24
		}
	}
	if kind == "mix" && tier != "thorough" {
		nops = nops/2 + 4
	}
	shared := 2 + r.intn(5) // contended cells
	pool := stylePool()
	imgs := []string{"excel.png", "excel.jpg", "excel.gif", "chart.png"}
	sc.progs = make([][]op, sc.g)
	for t := 0; t < sc.g; t++ {
		var prog []op
		dvN := 0
		for i := 0; i < nops; i++ {
			sheet := pickSheet(r, sc.sheets)
			// cell choice: shared block (cells 0..shared-1), or private block of this goroutine
			var ck int
			private := !r.chance(40)
			if private {
				ck = 60 + t*12 + r.intn(12)
			} else {
				ck = r.intn(shared)
			}
			cell := cellName(ck)
			w := r.intn(100)
			var kindSel string
			force := "" // payload class forced by a witness
			switch kind {
			case "w-rels": // witness: first use of the relationship parts of a reopened sheet that has pictures
				sheet = sc.sheets[i%len(sc.sheets)]
				private = true
				if t%2 == 0 {
					kindSel = "addpic"
				} else {
					kindSel = "getpic"
				}
			case "w-first": // witness: FIRST call on a not yet parsed worksheet, by every documented function
				k := i / 2
				sheet = sc.sheets[k%len(sc.sheets)]
				private = true
				ck = 60 + t*12 + r.intn(12)
				cell = cellName(ck)
				kindSel = "setval" // odd rounds: one distinct-cell write per goroutine on the sheet just touched
				if i%2 == 0 {
					switch sel := firstTouch[(t+k*sc.g)%len(firstTouch)]; sel {
					case "settime":
						kindSel, force = "setval", "time"
					case "setdur":
						kindSel, force = "setval", "duration"
					default:
						kindSel = sel
					}
				}
			case "cells":
				kindSel = pickW(w, "setval", 62, "typed", 10, "getval", 14, "getstyle", 6, "sheetrow", 8)
			case "styles":
				kindSel = pickW(w, "newstyle", 25, "setstyle", 25, "getval", 25, "getstyle", 5, "setval", 20)
			case "cols":
				kindSel = pickW(w, "colw", 22, "getcolw", 8, "colvis", 12, "getcolvis", 6, "colstyle", 12, "getcolstyle", 6, "setval", 24, "newstyle", 10)
			case "dviter":
				kindSel = pickW(w, "dvadd", 22, "dvdel", 10, "rows", 12, "cols", 8, "setval", 40, "getval", 8)
			case "pictures":
				kindSel = pickW(w, "addpic", 25, "getpic", 20, "setval", 45, "getval", 10)
			case "reopen":
				if i == 0 {
					kindSel = []string{"dvadd", "colvis", "setval", "setval", "colw", "getval"}[t%6]
				} else {
					kindSel = pickW(w, "dvadd", 15, "colvis", 10, "setval", 60, "getval", 15)
				}
			case "sheetrow":
				kindSel = pickW(w, "sheetrow", 70, "setval", 20, "getval", 10)
			case "formulas":
				kindSel = pickW(w, "setval", 85, "getval", 15)
			case "w-time": // witness: time values from several goroutines (setCellTimeFunc)
				kindSel = "setval"
			case "w-fmt": // witness: formatted reads of styled cells while the style sheet grows
				kindSel = pickW(w, "getval", 60, "newstyle", 40)
			case "w-setstyle": // witness: SetCellStyle's range check while the style sheet grows
				kindSel = pickW(w, "setstyle", 50, "newstyle", 50)
			case "w-colstyle": // witness: SetColStyle while rows are being added
				kindSel = pickW(w, "colstyle", 40, "setval", 60)
			case "w-row": // witness: one long SetSheetRow per goroutine on the same row, started together
				kindSel = "sheetrow"
			case "spill": // witness: read-only; shared strings spilled to a temp file (UnzipXMLSizeLimit)
				kindSel = "getval"
			case "w-media": // witness: every goroutine adds images nobody else has to its own, prepared sheet
				kindSel = "addpic"
			case "w-sst": // witness: NEW shared strings from every goroutine, each on its own worksheet (setSharedString: append + index)
				sheet = sc.sheets[t%len(sc.sheets)]
				private = true
				ck = i // one fresh cell per round; the final-state oracle reads every one of them back
				cell = cellName(ck)
				kindSel, force = "setval", "newstr"
			case "w-ctypes": // witness: first AddPicture calls on a reopened workbook (lazy content-types decode)
				kindSel = "addpic"
			case "w-getpic": // witness: GetPictures while the first picture of the sheet is added
				kindSel = pickW(w, "addpic", 40, "getpic", 60)
			default: // mix
				kindSel = pickW(w, "setval", 30, "typed", 5, "getval", 8, "getstyle", 3, "newstyle", 8, "setstyle", 8,
					"colw", 5, "colvis", 4, "colstyle", 4, "getcolw", 3, "dvadd", 5, "dvdel", 3, "rows", 4, "cols", 3, "sheetrow", 4, "addpic", 2, "getpic", 1)
			}
			switch kindSel {
			case "setval":
				if kind == "formulas" {
					ck = r.intn(24) // the pre-populated formula block
					cell = cellName(ck)
					private = false
				}
				v, d := g.payload(!private)
				if force == "duration" {
					g.uniq++
					v, d = time.Duration(g.uniq)*time.Second+time.Duration(g.uniq%7)*time.Hour, "duration"
				}
				if force == "newstr" {
					g.uniq++
					v, d = fmt.Sprintf("sst-%d-%d-%d", t, i, g.uniq), "string-new"
				}
				if kind == "w-time" || force == "time" {
					g.uniq++
					u := g.uniq
					v, d = time.Date(2001+u%20, time.Month(1+u%12), 1+u%28, u%24, u%60, u%60, 0, time.UTC).AddDate(0, 0, u*37), "time"
				}
				if kind == "w-colstyle" {
					cell = cellName(ck + 6*i) // keep adding rows
				}
				prog = append(prog, op{Fn: "SetCellValue", Kind: "setval", Sheet: sheet, Cell: cell, Val: v, VDesc: d, ID: g.id(),
					Key: "c|" + sheet + "|" + cell, Obs: refObs(v)})
			case "typed":
				g.uniq++
				u := g.uniq
				var o op
				switch r.intn(5) {
				case 0:
					o = op{Fn: "SetCellInt", Val: int64(900000 + u), VDesc: "typed-int"}
				case 1:
					o = op{Fn: "SetCellStr", Val: fmt.Sprintf("typed-%d", u), VDesc: "typed-str"}
				case 2:
					o = op{Fn: "SetCellFloat", Val: float64(u) + 0.125, VDesc: "typed-float"}
				case 3:
					o = op{Fn: "SetCellUint", Val: uint64(800000 + u), VDesc: "typed-uint"}
				default:
					o = op{Fn: "SetCellDefault", Val: strconv.Itoa(700000 + u), VDesc: "typed-default"}
				}
				o.Kind, o.Sheet, o.Cell, o.ID, o.Key = "typed", sheet, cell, g.id(), "c|"+sheet+"|"+cell
				switch v := o.Val.(type) {
				case int64:
					o.Obs = strconv.FormatInt(v, 10)
				case uint64:
					o.Obs = strconv.FormatUint(v, 10)
				case float64:
					o.Obs = strconv.FormatFloat(v, 'f', -1, 64)
				case string:
					o.Obs = v
				}
				prog = append(prog, o)
			case "getval":
				if kind == "spill" {
					k := r.intn(300)
					sh := sc.sheets[t%len(sc.sheets)]
					prog = append(prog, op{Fn: "GetCellValue", Kind: "getval", Sheet: sh, Cell: cellName(k), Want: spillText(sh, k)})
					break
				}
				prog = append(prog, op{Fn: "GetCellValue", Kind: "getval", Sheet: sheet, Cell: cell})
			case "getstyle":
				prog = append(prog, op{Fn: "GetCellStyle", Kind: "getstyle", Sheet: sheet, Cell: cell})
			case "newstyle":
				if r.chance(50) {
					g.uniq++
					prog = append(prog, op{Fn: "NewStyle", Kind: "newstyle", Style: -1,
						Spec: &xl.Style{Font: &xl.Font{Size: 8 + float64(g.uniq%400)*0.25, Bold: g.uniq%2 == 0, Family: "Arial"}, NumFmt: []int{0, 1, 2, 3, 4, 9, 10, 11, 14, 22}[g.uniq%10]}})
				} else {
					prog = append(prog, op{Fn: "NewStyle", Kind: "newstyle", Style: r.intn(len(pool))})
				}
			case "setstyle":
				// style cells live in their own block (rows 40..): column by sharing class
				if t >= len(pool) {
					private = true
				}
				sk := r.intn(4)
				if private {
					sk = 8 + t*4 + r.intn(4)
				}
				c, _ := xl.CoordinatesToCellName(7+sk%2, 1+sk/2) // columns G, H
				st := r.intn(len(pool))
				if !private {
					st = t % len(pool) // on a contended key every goroutine writes its own value
				}
				prog = append(prog, op{Fn: "SetCellStyle", Kind: "setstyle", Sheet: sheet, Cell: c, Style: st, ID: g.id(), Key: "s|" + sheet + "|" + c})
			case "colw":
				col := colFor(r, t, private, 0)
				g.uniq++
				wd := 10 + float64(g.uniq)*0.125
				prog = append(prog, op{Fn: "SetColWidth", Kind: "colw", Sheet: sheet, Cell: col, Val: wd, ID: g.id(), Key: "w|" + sheet + "|" + col,
					Obs: strconv.FormatFloat(wd, 'f', -1, 64)})
			case "getcolw":
				prog = append(prog, op{Fn: "GetColWidth", Kind: "getcolw", Sheet: sheet, Cell: colFor(r, t, private, 0)})
			case "colvis":
				col := colFor(r, t, true, 1) // visibility is two-valued: private columns only
				vis := r.chance(50)
				prog = append(prog, op{Fn: "SetColVisible", Kind: "colvis", Sheet: sheet, Cell: col, Val: vis, ID: g.id(), Key: "v|" + sheet + "|" + col,
					Obs: strconv.FormatBool(vis)})
			case "getcolvis":
				prog = append(prog, op{Fn: "GetColVisible", Kind: "getcolvis", Sheet: sheet, Cell: colFor(r, t, true, 1)})
			case "colstyle":
				if t >= len(pool) {
					private = true
				}
				col := colFor(r, t, private, 2)
				st := r.intn(len(pool))
				if !private {
					st = t % len(pool)
				}
				prog = append(prog, op{Fn: "SetColStyle", Kind: "colstyle", Sheet: sheet, Cell: col, Style: st, ID: g.id(), Key: "y|" + sheet + "|" + col})
			case "getcolstyle":
				prog = append(prog, op{Fn: "GetColStyle", Kind: "getcolstyle", Sheet: sheet, Cell: colFor(r, t, private, 2)})
			case "dvadd":
				dvN++
				// own area of this goroutine: column block far right, unique rows
				c1, _ := xl.CoordinatesToCellName(120+t, dvN*3)
				c2, _ := xl.CoordinatesToCellName(120+t, dvN*3+1)
				prog = append(prog, op{Fn: "AddDataValidation", Kind: "dvadd", Sheet: sheet, Cell: c1 + ":" + c2, Key: "d|" + sheet + "|" + c1 + ":" + c2})
			case "dvdel":
				// delete one of the validations this goroutine added earlier (if any)
				var mine []op
				for _, o := range prog {
					if o.Kind == "dvadd" {
						mine = append(mine, o)
					}
				}
				if len(mine) > 0 {
					o := mine[r.intn(len(mine))]
					prog = append(prog, op{Fn: "DeleteDataValidation", Kind: "dvdel", Sheet: o.Sheet, Cell: o.Cell, Key: o.Key})
				}
			case "rows":
				prog = append(prog, op{Fn: "Rows", Kind: "rows", Sheet: sheet})
			case "cols":
				prog = append(prog, op{Fn: "Cols", Kind: "cols", Sheet: sheet})
			case "sheetrow":
				// rows of 4..24 cells; contended rows start at the same cell
				n := 4 + r.intn(20)
				if kind == "sheetrow" {
					n = 60
				}
				if kind == "w-row" {
					n = 1200
				}
				row0 := 92 + t
				if !private || kind == "sheetrow" || kind == "w-row" {
					row0 = 91
				}
				o := op{Fn: "SetSheetRow", Kind: "sheetrow", Sheet: sheet, Cell: "B" + strconv.Itoa(row0)}
				for j := 0; j < n; j++ {
					g.uniq++
					o.Row = append(o.Row, 3000000+g.uniq)
					o.RowID = append(o.RowID, g.id())
				}
				prog = append(prog, o)
			case "addpic":
				pk := t*6 + r.intn(6)
				c := cellName(pk)
				img := imgs[(t+i)%len(imgs)]
				if kind == "w-rels" {
					c = cellName(12 + t*6 + i%6)
					img = uniquePNG(r.s, t, i)
				}
				if kind == "w-media" {
					sheet = sc.sheets[t%len(sc.sheets)]
					c = cellName(6 + i) // one cell per round
					img = uniquePNG(r.s, t, i)
				}
				prog = append(prog, op{Fn: "AddPicture", Kind: "addpic", Sheet: sheet, Cell: c, Img: img, Key: "p|" + sheet + "|" + c})
			case "getpic":
				prog = append(prog, op{Fn: "GetPictures", Kind: "getpic", Sheet: sheet, Cell: cellName(t*6 + r.intn(6))})
			}
		}
		sc.progs[t] = prog
	}
	switch kind {
	case "styles", "w-fmt":
		sc.prep = func(f *xl.File) error {
			// numeric cells carrying number formats: GetCellValue has to look the format up
			for k := 0; k < 8; k++ {
				id, err := f.NewStyle(pool[k%6])
				if err != nil {
					return err
				}
				for _, sh := range sc.sheets {
					c := cellName(k)
					if err := f.SetCellValue(sh, c, 1234.5678+float64(k)); err != nil {
						return err
					}
					if err := f.SetCellStyle(sh, c, c, id); err != nil {
						return err
					}
				}
			}
			return nil
		}
	case "formulas":
		sc.prep = func(f *xl.File) error {
			for _, sh := range sc.sheets {
				for k := 0; k < 24; k++ {
					if err := f.SetCellFormula(sh, cellName(k), fmt.Sprintf("=SUM(%d,1)", k)); err != nil {
						return err
					}
				}
			}
			return nil
		}
	case "w-media":
		sc.prep = func(f *xl.File) error {
			// every sheet gets its drawing part up front: the concurrent phase only competes for media names
			for _, sh := range sc.sheets {
				if err := f.AddPicture(sh, "A1", imgPath("excel.png"), nil); err != nil {
					return err
				}
			}
			return nil
		}
	case "w-rels":
		sc.reopen = true
		sc.prep = func(f *xl.File) error {
			// every sheet already has a drawing with pictures (and so sheet and drawing relationship parts)
			for _, sh := range sc.sheets {
				for k := 0; k < 6; k++ {
					// many different images: a relationship part that takes a while to decode
					if err := f.AddPicture(sh, cellName(300+k), uniquePNG(r.s, 100+k%50, k), nil); err != nil {
						return err
					}
				}
			}
			return nil
		}
	case "w-first":
		sc.reopen = true
		sc.prep = func(f *xl.File) error {
			// enough content for the first parse of a sheet to take a while
			for _, sh := range sc.sheets {
				for k := 0; k < 1200; k++ {
					n, _ := xl.CoordinatesToCellName(160+k%8, 200+k/8)
					if err := f.SetCellValue(sh, n, k); err != nil {
						return err
					}
				}
			}
			return nil
		}
	case "spill":
		sc.reopen = true
		sc.opts = xl.Options{UnzipXMLSizeLimit: 2048}
		sc.prep = func(f *xl.File) error {
			for _, sh := range sc.sheets {
				for k := 0; k < 300; k++ {
					if err := f.SetCellValue(sh, cellName(k), spillText(sh, k)); err != nil {
						return err
					}
				}
			}
			return nil
		}
	case "w-ctypes":
		sc.reopen = true
	case "reopen":
		sc.reopen = true
		sc.prep = func(f *xl.File) error {
			for _, sh := range sc.sheets {
				for k := 0; k < 3000; k++ {
					n, _ := xl.CoordinatesToCellName(160+k%8, 200+k/8)
					if err := f.SetCellValue(sh, n, k); err != nil {
						return err
					}
				}
			}
			return nil
		}
	}
	return sc
}

func colFor(r *rng, t int, private bool, group int) string {
	// three disjoint column groups (width / visibility / style): 3 contended columns + one per goroutine
	base := 10 + group*36
	n := base + r.intn(3)
	if private {
		n = base + 3 + t
	}
	s, _ := xl.ColumnNumberToName(n)
	return s
}

func pickW(w int, kv ...interface{}) string {
	acc := 0
	for i := 0; i+1 < len(kv); i += 2 {
		acc += kv[i+1].(int)
		if w < acc {
			return kv[i].(string)
		}
	}
	return kv[0].(string)
}

// round barrier for lockstep scenarios
type roundBarrier struct {
	mu   sync.Mutex
	n    int
	cnt  map[int]int
	gate map[int]chan struct{}
}

func newBarrier(n int) *roundBarrier {
	return &roundBarrier{n: n, cnt: map[int]int{}, gate: map[int]chan struct{}{}}
}

func (b *roundBarrier) wait(round int) {
	b.mu.Lock()
	if b.gate[round] == nil {
		b.gate[round] = make(chan struct{})
	}
	g := b.gate[round]
	b.cnt[round]++
	if b.cnt[round] == b.n {
		close(g)
	}
	b.mu.Unlock()
	<-g
}

// ---- execution ----
type opResult struct {
	err   string
	panic string
	wrong string // a read returned this instead of op.Want
	id    int // NewStyle result
}

func runOp(f *xl.File, o *op, styleIDs []int) (res opResult) {
	defer func() {
		if p := recover(); p != nil {
			res.panic = fmt.Sprint(p)
		}
	}()
	var err error
	switch o.Kind {
	case "setval":
		err = f.SetCellValue(o.Sheet, o.Cell, o.Val)
	case "typed":
		switch v := o.Val.(type) {
		case int64:
			err = f.SetCellInt(o.Sheet, o.Cell, v)
		case uint64:
			err = f.SetCellUint(o.Sheet, o.Cell, v)
		case float64:
			err = f.SetCellFloat(o.Sheet, o.Cell, v, -1, 64)
		case string:
			if o.Fn == "SetCellDefault" {
				err = f.SetCellDefault(o.Sheet, o.Cell, v)
			} else {
				err = f.SetCellStr(o.Sheet, o.Cell, v)
			}
		}
	case "getval":
		var v string
		v, err = f.GetCellValue(o.Sheet, o.Cell)
		if err == nil && o.Want != "" && v != o.Want {
			res.wrong = v
		}
	case "getstyle":
		_, err = f.GetCellStyle(o.Sheet, o.Cell)
	case "newstyle":
		if o.Spec != nil {
			res.id, err = f.NewStyle(o.Spec)
		} else {
			res.id, err = f.NewStyle(stylePool()[o.Style])
		}
	case "setstyle":
		err = f.SetCellStyle(o.Sheet, o.Cell, o.Cell, styleIDs[o.Style])
	case "colw":
		err = f.SetColWidth(o.Sheet, o.Cell, o.Cell, o.Val.(float64))
	case "getcolw":
		_, err = f.GetColWidth(o.Sheet, o.Cell)
	case "colvis":
		err = f.SetColVisible(o.Sheet, o.Cell, o.Val.(bool))
	case "getcolvis":
		_, err = f.GetColVisible(o.Sheet, o.Cell)
	case "colstyle":
		err = f.SetColStyle(o.Sheet, o.Cell, styleIDs[o.Style])
	case "getcolstyle":
		_, err = f.GetColStyle(o.Sheet, o.Cell)
	case "dvadd":
		dv := xl.NewDataValidation(true)
		dv.Sqref = o.Cell
		_ = dv.SetRange(1, 100, xl.DataValidationTypeWhole, xl.DataValidationOperatorBetween)
		err = f.AddDataValidation(o.Sheet, dv)
	case "dvdel":
		err = f.DeleteDataValidation(o.Sheet, o.Cell)
	case "rows":
		var rows *xl.Rows
		rows, err = f.Rows(o.Sheet)
		if err == nil {
			n := 0
			for rows.Next() && n < 400 {
				if _, e := rows.Columns(); e != nil {
					err = e
					break
				}
				n++
			}
			if e := rows.Close(); e != nil && err == nil {
				err = e
			}
		}
	case "cols":
		var cols *xl.Cols
		cols, err = f.Cols(o.Sheet)
		if err == nil {
			n := 0
			for cols.Next() && n < 12 {
				if _, e := cols.Rows(); e != nil {
					err = e
					break
				}
				n++
			}
		}
	case "sheetrow":
		row := o.Row
		err = f.SetSheetRow(o.Sheet, o.Cell, &row)
	case "addpic":
		err = f.AddPicture(o.Sheet, o.Cell, imgPath(o.Img), nil)
	case "getpic":
		_, err = f.GetPictures(o.Sheet, o.Cell)
	}
	if err != nil {
		res.err = err.Error()
	}
	return
}

func runScenario(idx int, kind string, seed uint64, tier string) *result {
	r := newRng(seed)
	sc := buildScenario(kind, r, tier)
	res := &result{Idx: idx, Name: kind, Seed: seed, Goroutines: sc.g, Procs: sc.procs, Fns: map[string]int{}, Payloads: map[string]int{}, Sheets: sc.sheets}
	for t := range sc.progs {
		for i, o := range sc.progs[t] {
			if o.Kind == "addpic" {
				res.Pics = append(res.Pics, fmt.Sprintf("%d:%d %s!%s %s", t, i, o.Sheet, o.Cell, o.Img))
			}
		}
	}
	addFail := func(sig, what string) {
		if len(res.Fails) < 40 {
			res.Fails = append(res.Fails, fail{sig, what})
		}
	}
	t0 := time.Now()
	f := xl.NewFile()
	for _, sh := range sc.sheets[1:] {
		if _, err := f.NewSheet(sh); err != nil {
			addFail("setup", err.Error())
		}
	}
	// the style ids used by SetCellStyle / SetColStyle are created up front (sequentially)
	pool := stylePool()
	styleIDs := make([]int, len(pool))
	for i, st := range pool {
		id, err := f.NewStyle(st)
		if err != nil {
			addFail("setup", "NewStyle: "+err.Error())
		}
		styleIDs[i] = id
		beat()
	}
	if sc.prep != nil {
		if err := sc.prep(f); err != nil {
			addFail("setup", err.Error())
		}
	}
	if sc.reopen {
		var buf bytes.Buffer
		if err := f.Write(&buf); err != nil {
			addFail("setup", err.Error())
		}
		f.Close()
		g, err := xl.OpenReader(bytes.NewReader(buf.Bytes()), sc.opts)
		if err != nil {
			addFail("setup", err.Error())
			return res
		}
		f = g
	}
	defer f.Close()
	// reference style descriptions (what each pool entry looks like when read back)
	refStyle := make([]string, len(pool))
	{
		sf := xl.NewFile()
		for i, st := range pool {
			id, _ := sf.NewStyle(st)
			got, _ := sf.GetStyle(id)
			refStyle[i] = styleJSON(got)
		}
		sf.Close()
	}

	old := runtime.GOMAXPROCS(sc.procs)
	results := make([][]opResult, sc.g)
	var progress int64
	var wg sync.WaitGroup
	start := make(chan struct{})
	barrier := newBarrier(sc.g)
	for t := 0; t < sc.g; t++ {
		wg.Add(1)
		results[t] = make([]opResult, len(sc.progs[t]))
		go func(t int) {
			defer wg.Done()
			pr := newRng(seed*1000003 + uint64(t))
			<-start
			for i := range sc.progs[t] {
				if sc.lockstep {
					barrier.wait(i)
				}
				switch pr.intn(6) {
				case 0:
					runtime.Gosched()
				case 1:
					for k := 0; k < pr.intn(200); k++ {
						_ = k
					}
				}
				results[t][i] = runOp(f, &sc.progs[t][i], styleIDs)
				atomic.AddInt64(&progress, 1)
				beat()
			}
		}(t)
	}
	close(start)
	done := make(chan struct{})
	go func() { wg.Wait(); close(done) }()
	// deadlock watchdog. A deadlock is not inferred from elapsed time alone: when no operation has
	// completed for 20 s the goroutine dump is inspected, and only if EVERY goroutine that is
	// still inside an operation waits in sync.Mutex.Lock is the scenario declared deadlocked (a
	// slow operation on a loaded machine keeps at least one goroutine runnable). A stall of
	// 15 minutes with a runnable goroutine is reported separately (never seen).
	last, lastT := int64(-1), time.Now()
wait:
	for {
		select {
		case <-done:
			break wait
		case <-time.After(500 * time.Millisecond):
			if p := atomic.LoadInt64(&progress); p != last {
				last, lastT = p, time.Now()
			} else if time.Since(lastT) > 20*time.Second {
				dump := stackDump()
				workers, blocked := inLock(dump, "main.runOp(")
				stalled := time.Since(lastT) > 15*time.Minute
				if (workers > 0 && blocked == workers) || stalled {
					sig, why := "deadlock", "every goroutine still inside an operation waits in Mutex.Lock"
					if blocked != workers {
						sig, why = "stall", "goroutines are runnable but nothing completes"
					}
					addFail(sig, fmt.Sprintf("scenario %s seed %d: no operation completed for %d s, %s (%d of %d operations done, %d goroutines inside an operation, %d of them blocked in Mutex.Lock)",
						kind, seed, int(time.Since(lastT).Seconds()), why, p, totalOps(sc), workers, blocked))
					_ = os.WriteFile(filepath.Join(os.TempDir(), fmt.Sprintf("c15-deadlock-%d.txt", idx)), []byte(dump), 0o644)
					res.Millis = time.Since(t0).Milliseconds()
					runtime.GOMAXPROCS(old)
					return res
				}
			}
		}
	}
	runtime.GOMAXPROCS(old)

	// ---- oracles (sequential from here on) ----
	type wr struct {
		t, i int
		o    *op
	}
	lastBy := map[string]map[int]wr{} // key -> goroutine -> its last write
	allBy := map[string][]wr{}
	dvExpect := map[string]map[string]bool{}
	picExpect := map[string]string{}
	for t := range sc.progs {
		for i := range sc.progs[t] {
			o := &sc.progs[t][i]
			rs := results[t][i]
			res.Ops++
			res.Fns[o.Fn]++
			if o.VDesc != "" {
				res.Payloads[o.VDesc]++
			}
			if kind == "spill" && (rs.err != "" || rs.panic != "" || rs.wrong != "") {
				// read-only scenario: the only shared mutable state the readers touch is the lazily
				// built index of the spilled shared-string table
				addFail("spill:GetCellValue-wrong-result", fmt.Sprintf("GetCellValue(%s,%s) on a workbook whose shared strings are spilled to a temp file: want %q, got %q (error %q, panic %q)", o.Sheet, o.Cell, o.Want, rs.wrong, rs.err, rs.panic))
				continue
			}
			if rs.panic != "" {
				addFail("panic:"+o.Fn, fmt.Sprintf("%s(%s,%s) panicked: %s", o.Fn, o.Sheet, o.Cell, rs.panic))
				continue
			}
			if rs.err != "" {
				addFail("error:"+o.Fn, fmt.Sprintf("%s(%s,%s) returned error: %s", o.Fn, o.Sheet, o.Cell, rs.err))
				continue
			}
			switch o.Kind {
			case "setval", "typed", "colw", "colvis", "setstyle", "colstyle":
				if lastBy[o.Key] == nil {
					lastBy[o.Key] = map[int]wr{}
				}
				lastBy[o.Key][t] = wr{t, i, o}
				allBy[o.Key] = append(allBy[o.Key], wr{t, i, o})
			case "sheetrow":
				col0, row0, _ := xl.CellNameToCoordinates(o.Cell)
				for j := range o.Row {
					c, _ := xl.CoordinatesToCellName(col0+j, row0)
					key := "c|" + o.Sheet + "|" + c
					oo := &op{Fn: "SetSheetRow", Kind: "setval", Sheet: o.Sheet, Cell: c, ID: o.RowID[j], Key: key, Obs: strconv.Itoa(o.Row[j].(int))}
					if lastBy[key] == nil {
						lastBy[key] = map[int]wr{}
					}
					lastBy[key][t] = wr{t, i, oo}
					allBy[key] = append(allBy[key], wr{t, i, oo})
				}
			case "newstyle":
				want := ""
				if o.Spec != nil {
					sf := xl.NewFile()
					id, _ := sf.NewStyle(o.Spec)
					st, _ := sf.GetStyle(id)
					want = styleJSON(st)
					sf.Close()
				} else {
					want = refStyle[o.Style]
				}
				got, err := f.GetStyle(rs.id)
				if err != nil || styleJSON(got) != want {
					addFail("style:id-denotes-other-style", fmt.Sprintf("NewStyle returned id %d which reads back as %s, requested %s", rs.id, styleJSON(got), want))
				}
			case "dvadd":
				if dvExpect[o.Sheet] == nil {
					dvExpect[o.Sheet] = map[string]bool{}
				}
				dvExpect[o.Sheet][o.Cell] = true
			case "dvdel":
				delete(dvExpect[o.Sheet], o.Cell)
			case "addpic":
				picExpect[o.Key] = o.Img
			}
		}
	}
	// every written key must hold the last write of one of its writers
	keys := make([]string, 0, len(lastBy))
	for k := range lastBy {
		keys = append(keys, k)
	}
	sort.Strings(keys)
	keyIdx := map[string]int{}
	for i, k := range keys {
		keyIdx[k] = i
	}
	// value ids: two writes that leave the same observation on a key are the same value
	expOf := func(o *op) string {
		if strings.HasPrefix(o.Key, "s|") || strings.HasPrefix(o.Key, "y|") {
			return strconv.Itoa(styleIDs[o.Style])
		}
		return canonNum(o.Obs)
	}
	vids := map[string]int{}
	vid := func(key, exp string) int {
		k := key + "\x00" + exp
		if _, ok := vids[k]; !ok {
			vids[k] = len(vids) + 1
		}
		return vids[k]
	}
	lin := &linCase{Progs: make([][][2]int, sc.g)}
	for t := range sc.progs {
		for i := range sc.progs[t] {
			o := &sc.progs[t][i]
			if results[t][i].err != "" || results[t][i].panic != "" {
				continue
			}
			switch o.Kind {
			case "setval", "typed", "colw", "colvis", "setstyle", "colstyle":
				lin.Progs[t] = append(lin.Progs[t], [2]int{keyIdx[o.Key], vid(o.Key, expOf(o))})
			case "sheetrow":
				col0, row0, _ := xl.CellNameToCoordinates(o.Cell)
				for j := range o.Row {
					c, _ := xl.CoordinatesToCellName(col0+j, row0)
					key := "c|" + o.Sheet + "|" + c
					lin.Progs[t] = append(lin.Progs[t], [2]int{keyIdx[key], vid(key, strconv.Itoa(o.Row[j].(int)))})
				}
			}
		}
	}
	res.Keys = len(keys)
	res.KeyNames = keys
	for _, k := range keys {
		beat()
		p := strings.SplitN(k, "|", 3)
		var obs string
		var err error
		switch p[0] {
		case "c":
			obs, err = f.GetCellValue(p[1], p[2], xl.Options{RawCellValue: true})
		case "w":
			var wv float64
			wv, err = f.GetColWidth(p[1], p[2])
			obs = strconv.FormatFloat(wv, 'f', -1, 64)
		case "v":
			var vb bool
			vb, err = f.GetColVisible(p[1], p[2])
			obs = strconv.FormatBool(vb)
		case "s":
			var id int
			id, err = f.GetCellStyle(p[1], p[2])
			obs = strconv.Itoa(id)
		case "y":
			var id int
			id, err = f.GetColStyle(p[1], p[2])
			obs = strconv.Itoa(id)
		}
		if err != nil {
			addFail("observe", k+": "+err.Error())
			continue
		}
		if len(lastBy[k]) > 1 {
			res.SharedKeys++
		}
		// candidates: last write of each goroutine that wrote this key
		ts := make([]int, 0, len(lastBy[k]))
		for t := range lastBy[k] {
			ts = append(ts, t)
		}
		sort.Ints(ts)
		winner := -1
		var cands []string
		for _, t := range ts {
			w := lastBy[k][t]
			exp := w.o.Obs
			if p[0] == "s" || p[0] == "y" {
				exp = strconv.Itoa(styleIDs[w.o.Style])
			}
			cands = append(cands, exp)
			if canonNum(exp) == canonNum(obs) && winner < 0 {
				winner = w.o.ID
			}
		}
		if winner < 0 {
			sig := "lin:value-of-no-last-write"
			stale := false
			for _, w := range allBy[k] {
				exp := w.o.Obs
				if p[0] == "s" || p[0] == "y" {
					exp = strconv.Itoa(styleIDs[w.o.Style])
				}
				if canonNum(exp) == canonNum(obs) {
					stale = true
				}
			}
			if len(ts) == 1 {
				sig = "lin:distinct-key-write-lost"
			} else if stale {
				sig = "lin:stale-write-wins"
			}
			addFail(sig+":"+p[0], fmt.Sprintf("%s holds %q; last writes of its %d writer(s): %q", k, obs, len(ts), cands))
			continue
		}
		lin.Final = append(lin.Final, [2]int{keyIdx[k], vid(k, canonNum(obs))})
		// a time / duration value must come with a date or time number format
		if p[0] == "c" {
			for _, t := range ts {
				w := lastBy[k][t]
				if w.o.ID == winner && (w.o.VDesc == "time" || w.o.VDesc == "duration") && obs != "" {
					id, _ := f.GetCellStyle(p[1], p[2])
					st, e := f.GetStyle(id)
					if e != nil || st == nil || (st.NumFmt == 0 && st.CustomNumFmt == nil) {
						addFail("time:number-format-missing", fmt.Sprintf("%s holds %s value %q but its style %d has no number format", k, w.o.VDesc, obs, id))
					}
				}
			}
		}
	}
	res.Lin = lin
	// SetSheetRow atomicity: a contended row must come from ONE call
	if true {
		type rowKey struct{ sheet, cell string }
		seen := map[rowKey][]*op{}
		for t := range sc.progs {
			for i := range sc.progs[t] {
				o := &sc.progs[t][i]
				if o.Kind == "sheetrow" && results[t][i].err == "" && results[t][i].panic == "" {
					seen[rowKey{o.Sheet, o.Cell}] = append(seen[rowKey{o.Sheet, o.Cell}], o)
				}
			}
		}
		for rk, ops := range seen {
			if len(ops) < 2 {
				continue
			}
			minLen := len(ops[0].Row)
			for _, o := range ops {
				if len(o.Row) < minLen {
					minLen = len(o.Row)
				}
			}
			col0, row0, _ := xl.CellNameToCoordinates(rk.cell)
			owners := map[int]bool{}
			for j := 0; j < minLen; j++ {
				c, _ := xl.CoordinatesToCellName(col0+j, row0)
				v, _ := f.GetCellValue(rk.sheet, c, xl.Options{RawCellValue: true})
				for oi, o := range ops {
					if strconv.Itoa(o.Row[j].(int)) == v {
						owners[oi] = true
					}
				}
			}
			if len(owners) > 1 {
				addFail("lin:SetSheetRow-torn", fmt.Sprintf("row %s!%s (first %d cells) mixes values of %d different SetSheetRow calls", rk.sheet, rk.cell, minLen, len(owners)))
			}
		}
	}
	// data validations: exactly the added-and-not-deleted ranges
	for _, sh := range sc.sheets {
		if dvExpect[sh] == nil {
			continue
		}
		dvs, err := f.GetDataValidations(sh)
		if err != nil {
			addFail("observe", "GetDataValidations: "+err.Error())
			continue
		}
		got := map[string]int{}
		for _, dv := range dvs {
			for _, part := range strings.Fields(dv.Sqref) {
				got[part]++
			}
		}
		for want := range dvExpect[sh] {
			if got[want] != 1 {
				addFail("lin:datavalidation-lost", fmt.Sprintf("%s: data validation %s added (and not deleted) but present %d times", sh, want, got[want]))
			}
			delete(got, want)
		}
		for extra := range got {
			addFail("lin:datavalidation-unexpected", fmt.Sprintf("%s: data validation %s present but not expected", sh, extra))
		}
	}
	// pictures: every added picture is where it was put, with its own bytes
	pkeys := make([]string, 0, len(picExpect))
	for k := range picExpect {
		pkeys = append(pkeys, k)
	}
	sort.Strings(pkeys)
	for _, k := range pkeys {
		p := strings.SplitN(k, "|", 3)
		want, _ := os.ReadFile(imgPath(picExpect[k]))
		pics, err := f.GetPictures(p[1], p[2])
		ok := false
		for _, pc := range pics {
			if bytes.Equal(pc.File, want) {
				ok = true
			}
		}
		if err != nil || !ok {
			sig := "lin:picture-replaced"
			if len(pics) == 0 {
				sig = "lin:picture-lost"
			}
			addFail(sig, fmt.Sprintf("%s: picture %s added there; GetPictures returns %d pictures, none with its content (err=%v)", k, picExpect[k], len(pics), err))
		}
	}
	// the workbook must still be a savable, re-openable package holding the same cells
	var buf bytes.Buffer
	func() {
		defer func() {
			if p := recover(); p != nil {
				addFail("panic:Write", fmt.Sprint(p))
			}
		}()
		if err := f.Write(&buf); err != nil {
			addFail("save", err.Error())
			return
		}
		g, err := xl.OpenReader(bytes.NewReader(buf.Bytes()))
		if err != nil {
			addFail("save:reopen", err.Error())
			return
		}
		defer g.Close()
		n := 0
		for _, k := range keys {
			p := strings.SplitN(k, "|", 3)
			if p[0] != "c" || n > 200 {
				continue
			}
			n++
			a, _ := f.GetCellValue(p[1], p[2], xl.Options{RawCellValue: true})
			b, _ := g.GetCellValue(p[1], p[2], xl.Options{RawCellValue: true})
			if a != b {
				addFail("save:cell-differs", fmt.Sprintf("%s: %q in memory, %q after save and reopen", k, a, b))
			}
		}
	}()
	res.Millis = time.Since(t0).Milliseconds()
	return res
}

// process-wide watchdog: a deadlock can also strike in the sequential set-up or observation
// phase of a scenario (a mutex left locked by an earlier call); if nothing beats for 60 s AND the
// main goroutine waits in Mutex.Lock, the results so far plus a deadlock failure for the current
// scenario are written and the process ends.
var (
	lastBeat   int64
	curIdx     int64 = -1
	resultsMu  sync.Mutex
	allResults []*result
)

func beat() { atomic.StoreInt64(&lastBeat, time.Now().UnixNano()) }

func stackDump() string {
	buf := make([]byte, 4<<20)
	return string(buf[:runtime.Stack(buf, true)])
}

// inLock counts the goroutines whose stack contains marker, and how many of them wait in
// sync.Mutex.Lock.
func inLock(dump, marker string) (n, blocked int) {
	for _, g := range strings.Split(dump, "\n\n") {
		if !strings.Contains(g, marker) {
			continue
		}
		n++
		if strings.Contains(g, "sync.(*Mutex).Lock(") || strings.Contains(g, "sync.(*Mutex).lockSlow(") {
			blocked++
		}
	}
	return
}

func totalOps(sc *scenario) int {
	n := 0
	for _, p := range sc.progs {
		n += len(p)
	}
	return n
}

func watchdog(out string) {
	for {
		time.Sleep(time.Second)
		idle := time.Duration(time.Now().UnixNano() - atomic.LoadInt64(&lastBeat))
		if idle < 60*time.Second {
			continue
		}
		// the sequential phases run on the main goroutine: deadlocked only if it waits for a mutex
		dump := stackDump()
		_, blocked := inLock(dump, "main.main()")
		if blocked == 0 && idle < 20*time.Minute {
			continue
		}
		sig, why := "deadlock", "the main goroutine waits in Mutex.Lock: a mutex was left locked"
		if blocked == 0 {
			sig, why = "stall", "the main goroutine is runnable but makes no progress"
		}
		k := int(atomic.LoadInt64(&curIdx))
		resultsMu.Lock()
		allResults = append(allResults, &result{Idx: k, Name: "watchdog", Fails: []fail{{sig,
			fmt.Sprintf("scenario %d made no progress for %d s in a sequential phase; %s", k, int(idle.Seconds()), why)}}})
		b, _ := json.Marshal(allResults)
		resultsMu.Unlock()
		fmt.Fprintf(os.Stderr, "@@ABORT watchdog in scenario %d\n", k)
		if out != "" {
			_ = os.WriteFile(out, b, 0o644)
		}
		os.Exit(0)
	}
}

var kinds = []string{"cells", "styles", "cols", "dviter", "pictures", "reopen", "sheetrow", "formulas", "mix"}

// firstTouch: what a goroutine's first call on an unparsed worksheet can be (witness w-first)
var firstTouch = []string{"setstyle", "setval", "settime", "getval", "addpic", "colstyle", "colw", "colvis", "dvadd",
	"getstyle", "getcolw", "rows", "cols", "getpic", "sheetrow", "typed", "setdur", "getcolvis", "getcolstyle"}

// witness scenarios run first on every run: each hammers one pair of functions for which the
// model predicts (or predicted, before a fix) unsynchronised access
var witnessKinds = []string{"w-time", "w-fmt", "w-setstyle", "w-colstyle", "formulas", "reopen", "w-getpic", "w-row", "w-ctypes", "w-media", "spill", "w-first", "w-rels", "w-sst"}

func main() {
	seed := flag.Uint64("seed", 1, "")
	tier := flag.String("tier", "quick", "")
	out := flag.String("out", "", "")
	only := flag.Int("only", -1, "run only scenario k")
	n := flag.Int("n", 0, "number of scenarios (0 = tier default)")
	flag.StringVar(&imgDir, "images", "", "directory with test images")
	flag.Parse()
	total := *n
	if total == 0 {
		total = 58
		if *tier == "thorough" {
			total = 400
		}
	}
	var results []*result
	beat()
	go watchdog(*out)
	for k := 0; k < total; k++ {
		if *only >= 0 && k != *only {
			continue
		}
		kind := kinds[k%len(kinds)]
		if k < 2*len(witnessKinds) {
			kind = witnessKinds[k%len(witnessKinds)]
		}
		s := *seed*7919 + uint64(k)*104729
		fmt.Fprintf(os.Stderr, "@@SCENARIO %d %s %d\n", k, kind, s)
		atomic.StoreInt64(&curIdx, int64(k))
		beat()
		res := runScenario(k, kind, s, *tier)
		beat()
		resultsMu.Lock()
		allResults = append(allResults, res)
		resultsMu.Unlock()
		fmt.Fprintf(os.Stderr, "@@END %d\n", k)
		results = append(results, res)
		dead := false
		for _, f := range res.Fails {
			if f.Sig == "deadlock" || f.Sig == "stall" {
				dead = true
			}
		}
		if dead {
			// the blocked goroutines (and the mutexes they hold) stay behind: later scenarios would
			// only time out one by one; the deadlock itself is the result
			fmt.Fprintf(os.Stderr, "@@ABORT after deadlock in scenario %d\n", k)
			break
		}
	}
	b, _ := json.Marshal(results)
	if *out == "" {
		os.Stdout.Write(b)
	} else if err := os.WriteFile(*out, b, 0o644); err != nil {
		fmt.Fprintln(os.Stderr, err)
		os.Exit(3)
	}
}
