package main

// Facts for C01 (save/open preserves observables): the tokens of the string
// escaping path (lib.go bstr*, cell.go trimCellValue) and of the save-time
// trim (sheet.go trimRow/trimCell, cell.go hasValue, rows.go hasAttr) that the
// Lean models XlModel.Bstr and XlModel.Grid are defined over.

import (
	"bytes"
	"fmt"
	"go/ast"
	"go/token"
	"sort"
	"strings"
)

func c01regex(name string) (string, bool) {
	e := constExpr(name)
	call, ok := e.(*ast.CallExpr)
	if !ok || len(call.Args) != 1 {
		return "", false
	}
	lit, ok := call.Args[0].(*ast.BasicLit)
	if !ok || lit.Kind != token.STRING {
		return "", false
	}
	return unq(lit.Value), true
}

// c01selectors lists the field names x.F mentioned in a function body, in source order, without duplicates.
func c01selectors(fd *ast.FuncDecl, recv string) []string {
	var out []string
	seen := map[string]bool{}
	ast.Inspect(fd.Body, func(n ast.Node) bool {
		if se, ok := n.(*ast.SelectorExpr); ok {
			if id, ok := se.X.(*ast.Ident); ok && id.Name == recv && !seen[se.Sel.Name] {
				seen[se.Sel.Name] = true
				out = append(out, se.Sel.Name)
			}
		}
		return true
	})
	return out
}

func c01natList(xs []string) string { return "[" + strings.Join(xs, ", ") + "]" }

func c01strList(xs []string) string {
	q := make([]string, len(xs))
	for i, x := range xs {
		q[i] = leanStr(x)
	}
	return "[" + strings.Join(q, ", ") + "]"
}

func c01intLit(e ast.Expr) (string, bool) {
	v, ok := evalConst(e, 0)
	if !ok {
		return "", false
	}
	return v.ExactString(), true
}

func init() {
	addSection("C01", func(w *bytes.Buffer) {
		w.WriteString("/-! string escaping path: lib.go bstrExp/bstrEscapeExp/bstrMarshal/bstrIllegalChar, cell.go trimCellValue -/\n")
		for _, n := range []string{"bstrExp", "bstrEscapeExp"} {
			p, ok := c01regex(n)
			if !ok {
				fail("regexp variable %s = regexp.MustCompile(<literal>)", n)
				continue
			}
			fmt.Fprintf(w, "def %s : String := %s\n", n, leanStr(p))
		}
		// whitespace table of trimCellValue
		if fd := funcDecl("", "trimCellValue"); fd == nil {
			fail("func trimCellValue")
		} else {
			var ws []string
			ast.Inspect(fd.Body, func(n ast.Node) bool {
				if cl, ok := n.(*ast.CompositeLit); ok {
					if at, ok := cl.Type.(*ast.ArrayType); ok {
						if id, ok := at.Elt.(*ast.Ident); ok && id.Name == "byte" {
							for _, e := range cl.Elts {
								if v, ok := c01intLit(e); ok {
									ws = append(ws, v)
								}
							}
						}
					}
				}
				return true
			})
			if len(ws) == 0 {
				fail("trimCellValue: []byte{...} whitespace table")
			}
			fmt.Fprintf(w, "def preserveBytes : List Nat := %s\n", c01natList(ws))
			// the value handed to the XML encoder goes through bstrMarshal
			calls := false
			ast.Inspect(fd.Body, func(n ast.Node) bool {
				if c, ok := n.(*ast.CallExpr); ok {
					if id, ok := c.Fun.(*ast.Ident); ok && id.Name == "bstrMarshal" {
						calls = true
					}
				}
				return true
			})
			fmt.Fprintf(w, "def trimCellValueMarshals : Bool := %v\n", calls)
		}
		// bstrMarshal: the literal that replaces an underscore
		if fd := funcDecl("", "bstrMarshal"); fd == nil {
			fail("func bstrMarshal")
		} else {
			var lits []string
			ast.Inspect(fd.Body, func(n ast.Node) bool {
				if bl, ok := n.(*ast.BasicLit); ok && bl.Kind == token.STRING {
					lits = append(lits, unq(bl.Value))
				}
				return true
			})
			fmt.Fprintf(w, "def marshalLiterals : List String := %s\n", c01strList(lits))
		}
		// bstrIllegalChar: r < B && r != e1 ... || r == x1 || r == x2
		if fd := funcDecl("", "bstrIllegalChar"); fd == nil {
			fail("func bstrIllegalChar")
		} else {
			var below, except, extra []string
			ast.Inspect(fd.Body, func(n ast.Node) bool {
				be, ok := n.(*ast.BinaryExpr)
				if !ok {
					return true
				}
				id, ok := be.X.(*ast.Ident)
				if !ok || id.Name != "r" {
					return true
				}
				v, ok := c01intLit(be.Y)
				if !ok {
					return true
				}
				switch be.Op {
				case token.LSS:
					below = append(below, v)
				case token.NEQ:
					except = append(except, v)
				case token.EQL:
					extra = append(extra, v)
				}
				return true
			})
			if len(below) != 1 {
				fail("bstrIllegalChar: exactly one `r < bound`")
				below = []string{"0"}
			}
			fmt.Fprintf(w, "def illegalBelow : Nat := %s\n", below[0])
			fmt.Fprintf(w, "def illegalExcept : List Nat := %s\n", c01natList(except))
			fmt.Fprintf(w, "def illegalExtra : List Nat := %s\n", c01natList(extra))
		}
		// setSharedString stores what trimCellValue returns
		if fd := funcDecl("File", "setSharedString"); fd == nil {
			fail("func (*File) setSharedString")
		} else {
			stores := false
			ast.Inspect(fd.Body, func(n ast.Node) bool {
				as, ok := n.(*ast.AssignStmt)
				if !ok || len(as.Lhs) != 2 || len(as.Rhs) != 1 {
					return true
				}
				c, ok := as.Rhs[0].(*ast.CallExpr)
				if !ok {
					return true
				}
				if id, ok := c.Fun.(*ast.Ident); ok && id.Name == "trimCellValue" && src(as.Lhs[0]) == "t.Val" {
					stores = true
				}
				return true
			})
			fmt.Fprintf(w, "def sharedStringStoresEscaped : Bool := %v\n", stores)
		}

		w.WriteString("\n/-! save-time trim: cell.go hasValue, rows.go hasAttr, sheet.go trimRow -/\n")
		if fd := funcDecl("xlsxC", "hasValue"); fd == nil {
			fail("func (*xlsxC) hasValue")
		} else {
			fmt.Fprintf(w, "def hasValueFields : List String := %s\n", c01strList(c01selectors(fd, "c")))
		}
		if fd := funcDecl("xlsxRow", "hasAttr"); fd == nil {
			fail("func (*xlsxRow) hasAttr")
		} else {
			fs := c01selectors(fd, "r")
			sort.Strings(fs)
			fmt.Fprintf(w, "def hasAttrFields : List String := %s\n", c01strList(fs))
		}
		// trimRow: is the slot counter advanced only for kept rows (upstream) or for every row?
		if fd := funcDecl("", "trimRow"); fd == nil {
			fail("func trimRow")
		} else {
			inside, outside := 0, 0
			ast.Inspect(fd.Body, func(n ast.Node) bool {
				rs, ok := n.(*ast.RangeStmt)
				if !ok {
					return true
				}
				for _, st := range rs.Body.List {
					switch x := st.(type) {
					case *ast.IncDecStmt:
						if src(x.X) == "i" {
							outside++
						}
					case *ast.IfStmt:
						ast.Inspect(x.Body, func(m ast.Node) bool {
							if id, ok := m.(*ast.IncDecStmt); ok && src(id.X) == "i" {
								inside++
							}
							return true
						})
					}
				}
				return false
			})
			if inside+outside != 1 {
				fail("trimRow: exactly one `i++` in the range loop")
			}
			fmt.Fprintf(w, "def trimRowDropsEmptyRows : Bool := %v\n", inside == 1)
		}
		// mergeExpandedCols: the fields compared (keys of the xlsxCol{...} literal handed to DeepEqual)
		if fd := funcDecl("File", "mergeExpandedCols"); fd == nil {
			fail("func (*File) mergeExpandedCols")
		} else {
			var keys []string
			maxFromMin := false
			ast.Inspect(fd.Body, func(n ast.Node) bool {
				switch x := n.(type) {
				case *ast.CompositeLit:
					if id, ok := x.Type.(*ast.Ident); ok && id.Name == "xlsxCol" && len(keys) == 0 {
						for _, e := range x.Elts {
							if kv, ok := e.(*ast.KeyValueExpr); ok {
								keys = append(keys, src(kv.Key))
							}
						}
					}
				case *ast.AssignStmt:
					if len(x.Lhs) == 1 && len(x.Rhs) == 1 && src(x.Lhs[0]) == "column.Max" && strings.HasSuffix(src(x.Rhs[0]), "[i-1].Min") {
						maxFromMin = true
					}
				}
				return true
			})
			if len(keys) == 0 {
				fail("mergeExpandedCols: reflect.DeepEqual(xlsxCol{...}, next) comparison literal")
			}
			sort.Strings(keys)
			fmt.Fprintf(w, "def mergeColsFields : List String := %s\n", c01strList(keys))
			fmt.Fprintf(w, "def mergeColsMaxFromLastMin : Bool := %v\n", maxFromMin)
		}
		// namespaceStrictToTransitional: is the Strict->Transitional replacement applied to the whole part
		// (which rewrites user text) or only to attribute values selected inside start tags?
		if fd := funcDecl("", "namespaceStrictToTransitional"); fd == nil {
			fail("func namespaceStrictToTransitional")
		} else {
			whole := false
			var attrs []string
			ast.Inspect(fd.Body, func(n ast.Node) bool {
				switch x := n.(type) {
				case *ast.AssignStmt:
					if len(x.Lhs) == 1 && len(x.Rhs) == 1 && src(x.Lhs[0]) == "content" && strings.HasPrefix(src(x.Rhs[0]), "bytesReplace(content,") {
						whole = true
					}
				case *ast.BinaryExpr:
					if x.Op == token.EQL && src(x.X) == "name" {
						if bl, ok := x.Y.(*ast.BasicLit); ok {
							attrs = append(attrs, unq(bl.Value))
						}
					}
				case *ast.CallExpr:
					if src(x.Fun) == "strings.HasPrefix" && len(x.Args) == 2 && src(x.Args[0]) == "name" {
						if bl, ok := x.Args[1].(*ast.BasicLit); ok {
							attrs = append(attrs, unq(bl.Value)+"*")
						}
					}
				}
				return true
			})
			sort.Strings(attrs)
			fmt.Fprintf(w, "def nsRewriteWholePart : Bool := %v\n", whole)
			fmt.Fprintf(w, "def nsRewriteAttrs : List String := %s\n", c01strList(attrs))
		}
		w.WriteString("\n")
	})
}
