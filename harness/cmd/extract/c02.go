package main

// Facts the C02 model (lean/XlModel/Save.lean) is defined over or proves
// obligations about: which fields hasValue/hasAttr test, the call skeleton of
// workSheetWriter (trim in place, marshal, evict iff checked, re-densify what
// stays cached), trimRow's slot discipline, and the guards of the slot
// arithmetic in prepareSheetXML / fillColumns / checkRow / getCellStringFunc.

import (
	"bytes"
	"fmt"
	"go/ast"
	"go/token"
	"strings"
)

// c02OrLeaves flattens a || b || c.
func c02OrLeaves(e ast.Expr) []ast.Expr {
	if p, ok := e.(*ast.ParenExpr); ok {
		return c02OrLeaves(p.X)
	}
	if b, ok := e.(*ast.BinaryExpr); ok && b.Op == token.LOR {
		return append(c02OrLeaves(b.X), c02OrLeaves(b.Y)...)
	}
	return []ast.Expr{e}
}

// c02FieldTests returns the receiver fields tested by a `return a || b || …`
// predicate whose disjuncts are `recv.F != zero` or `recv.F`.
func c02FieldTests(recv, name string) ([]string, bool) {
	fd := funcDecl(recv, name)
	if fd == nil || fd.Body == nil || len(fd.Body.List) != 1 {
		return nil, false
	}
	ret, ok := fd.Body.List[0].(*ast.ReturnStmt)
	if !ok || len(ret.Results) != 1 {
		return nil, false
	}
	var out []string
	for _, leaf := range c02OrLeaves(ret.Results[0]) {
		var sel *ast.SelectorExpr
		switch x := leaf.(type) {
		case *ast.BinaryExpr:
			if x.Op != token.NEQ {
				return nil, false
			}
			s, ok := x.X.(*ast.SelectorExpr)
			if !ok {
				return nil, false
			}
			switch z := x.Y.(type) {
			case *ast.BasicLit:
				if z.Value != "0" && z.Value != `""` {
					return nil, false
				}
			case *ast.Ident:
				if z.Name != "nil" {
					return nil, false
				}
			default:
				return nil, false
			}
			sel = s
		case *ast.SelectorExpr:
			sel = x
		default:
			return nil, false
		}
		out = append(out, sel.Sel.Name)
	}
	return out, true
}

func c02LeanList(xs []string) string {
	q := make([]string, len(xs))
	for i, x := range xs {
		q[i] = leanStr(x)
	}
	return "[" + strings.Join(q, ", ") + "]"
}

// c02CallName renders the callee of a call expression as dotted text.
func c02CallName(c *ast.CallExpr) string {
	var render func(e ast.Expr) string
	render = func(e ast.Expr) string {
		switch x := e.(type) {
		case *ast.Ident:
			return x.Name
		case *ast.SelectorExpr:
			return render(x.X) + "." + x.Sel.Name
		case *ast.CallExpr:
			return render(x.Fun) + "()"
		case *ast.TypeAssertExpr:
			return render(x.X)
		case *ast.ParenExpr:
			return render(x.X)
		}
		return "?"
	}
	return render(c.Fun)
}

var c02Interesting = map[string]bool{
	"f.mergeOverlapCells": true, "f.mergeExpandedCols": true, "trimRow": true,
	"encoder.Encode": true, "f.saveFileList": true, "f.checked.Load": true,
	"f.Sheet.Delete": true, "f.checked.Delete": true, "sheet.checkRow": true,
	"sheet.checkSheet": true, "f.Sheet.Store": true, "f.checked.Store": true,
	"ws.checkSheet": true, "ws.checkRow": true, "f.Sheet.Load": true, "f.workSheetReader": true,
	"f.Pkg.Delete": true, "f.Relationships.Delete": true, "f.Relationships.Store": true, "f.relsReader": true,
}

func c02Skeleton(n ast.Node) []string {
	var out []string
	ast.Inspect(n, func(x ast.Node) bool {
		if c, ok := x.(*ast.CallExpr); ok {
			if name := c02CallName(c); c02Interesting[name] {
				out = append(out, name)
			}
		}
		return true
	})
	return out
}

func c02HasCall(n ast.Node, name string) bool {
	if n == nil {
		return false
	}
	for _, s := range c02Skeleton(n) {
		if s == name {
			return true
		}
	}
	return false
}

// c02IfCond finds the first if-statement of fn whose condition text is one of
// the candidates' left operand … returns the source of the condition of the
// first `if` satisfying pred.
func c02FindIf(fd *ast.FuncDecl, pred func(*ast.IfStmt) bool) *ast.IfStmt {
	var res *ast.IfStmt
	if fd == nil || fd.Body == nil {
		return nil
	}
	// innermost match (smallest source span)
	ast.Inspect(fd.Body, func(x ast.Node) bool {
		if i, ok := x.(*ast.IfStmt); ok && pred(i) {
			if res == nil || i.End()-i.Pos() < res.End()-res.Pos() {
				res = i
			}
		}
		return true
	})
	return res
}

func c02Cond(w *bytes.Buffer, lean string, fd *ast.FuncDecl, what string, mentions ...string) {
	i := c02FindIf(fd, func(i *ast.IfStmt) bool {
		s := src(i.Cond)
		for _, m := range mentions {
			if !strings.Contains(s, m) {
				return false
			}
		}
		return true
	})
	if i == nil {
		fail("C02: %s: guard mentioning %v", what, mentions)
		fmt.Fprintf(w, "def %s : String := \"<missing>\"\n", lean)
		return
	}
	fmt.Fprintf(w, "def %s : String := %s\n", lean, leanStr(strings.Join(strings.Fields(src(i.Cond)), " ")))
}

// c02Expr renders a selector / index / call chain as dotted text.
func c02Expr(e ast.Expr) string {
	switch x := e.(type) {
	case *ast.Ident:
		return x.Name
	case *ast.SelectorExpr:
		return c02Expr(x.X) + "." + x.Sel.Name
	case *ast.IndexExpr:
		return c02Expr(x.X) + "[]"
	case *ast.CallExpr:
		return c02Expr(x.Fun) + "()"
	case *ast.TypeAssertExpr:
		return c02Expr(x.X)
	case *ast.ParenExpr:
		return c02Expr(x.X)
	case *ast.StarExpr:
		return c02Expr(x.X)
	}
	return "?"
}

// c02Clears lists, in source order, the state a function destroys: delete(m, k) on a
// selector, X.Delete(k) on File fields, and assignments of nil to a field.
func c02Clears(fd *ast.FuncDecl) []string {
	var out []string
	if fd == nil || fd.Body == nil {
		return out
	}
	ast.Inspect(fd.Body, func(n ast.Node) bool {
		switch x := n.(type) {
		case *ast.CallExpr:
			if id, ok := x.Fun.(*ast.Ident); ok && id.Name == "delete" && len(x.Args) == 2 {
				out = append(out, "delete "+c02Expr(x.Args[0]))
			}
			if sel, ok := x.Fun.(*ast.SelectorExpr); ok && sel.Sel.Name == "Delete" && strings.HasPrefix(c02Expr(sel.X), "f.") {
				out = append(out, c02Expr(sel.X)+".Delete")
			}
		case *ast.AssignStmt:
			if len(x.Lhs) == len(x.Rhs) {
				for i := range x.Lhs {
					if id, ok := x.Rhs[i].(*ast.Ident); ok && id.Name == "nil" {
						if l := c02Expr(x.Lhs[i]); strings.Contains(l, ".") {
							out = append(out, l+"=nil")
						}
					}
				}
			}
		}
		return true
	})
	return out
}

// c02AltPersisted: the writer builds X.AlternateContent only inside
// `if X.DecodeAlternateContent != nil { … }` (so that the element survives the clearing of
// the decode-only field and is written again by the next save).
func c02AltPersisted(fd *ast.FuncDecl) bool {
	if fd == nil || fd.Body == nil {
		return false
	}
	count := func(n ast.Node) int {
		c := 0
		ast.Inspect(n, func(m ast.Node) bool {
			if a, ok := m.(*ast.AssignStmt); ok {
				for _, l := range a.Lhs {
					if strings.HasSuffix(c02Expr(l), ".AlternateContent") {
						c++
					}
				}
			}
			return true
		})
		return c
	}
	total, inIf := count(fd.Body), 0
	ast.Inspect(fd.Body, func(m ast.Node) bool {
		if i, ok := m.(*ast.IfStmt); ok && strings.Contains(src(i.Cond), "DecodeAlternateContent != nil") {
			inIf += count(i.Body)
		}
		return true
	})
	return total >= 1 && total == inIf
}

// c02FindIfFirst: the first if-statement (source order) whose condition mentions all words.
func c02FindIfFirst(fd *ast.FuncDecl, words ...string) *ast.IfStmt {
	var res *ast.IfStmt
	if fd == nil || fd.Body == nil {
		return nil
	}
	ast.Inspect(fd.Body, func(n ast.Node) bool {
		if res != nil {
			return false
		}
		if i, ok := n.(*ast.IfStmt); ok {
			c := src(i.Cond)
			for _, wd := range words {
				if !strings.Contains(c, wd) {
					return true
				}
			}
			res = i
			return false
		}
		return true
	})
	return res
}

// c02WriterShape classifies a part writer: ("singleton", guard) for `if f.X != nil … { marshal, store }`,
// ("map", "f.X") for `for path, v := range f.X`, ("syncmap", "f.X") for `f.X.Range(func…)`,
// ("loader", "") for sharedStringsLoader (moves a spilled table back, renders nothing).
func c02WriterShape(fd *ast.FuncDecl) (string, string) {
	if fd == nil || fd.Body == nil {
		return "?", ""
	}
	if fd.Name.Name == "sharedStringsLoader" {
		return "loader", ""
	}
	stores := false
	ast.Inspect(fd.Body, func(n ast.Node) bool {
		if c, ok := n.(*ast.CallExpr); ok {
			if nm := c02Expr(c.Fun); nm == "f.saveFileList" || nm == "f.Pkg.Store" {
				stores = true
			}
		}
		return true
	})
	if !stores {
		return "?", ""
	}
	for _, st := range fd.Body.List {
		switch x := st.(type) {
		case *ast.RangeStmt:
			return "map", c02Expr(x.X)
		case *ast.ExprStmt:
			if c, ok := x.X.(*ast.CallExpr); ok {
				if sel, ok := c.Fun.(*ast.SelectorExpr); ok && sel.Sel.Name == "Range" {
					return "syncmap", c02Expr(sel.X)
				}
			}
		case *ast.IfStmt:
			if strings.Contains(src(x.Cond), "!= nil") && x.Else == nil {
				return "singleton", strings.Join(strings.Fields(src(x.Cond)), " ")
			}
		}
	}
	return "?", ""
}

func init() {
	addSection("C02", func(w *bytes.Buffer) {
		w.WriteString("/-! file.go writeToZip: the part writers in call order, and the File state each of them destroys -/\n")
		wz := funcDecl("File", "writeToZip")
		var writers []string
		if wz == nil {
			fail("C02: (*File).writeToZip")
		} else {
			ast.Inspect(wz.Body, func(n ast.Node) bool {
				if c, ok := n.(*ast.CallExpr); ok {
					if sel, ok := c.Fun.(*ast.SelectorExpr); ok && c02Expr(sel.X) == "f" &&
						(strings.HasSuffix(sel.Sel.Name, "Writer") || strings.HasSuffix(sel.Sel.Name, "Loader")) {
						writers = append(writers, sel.Sel.Name)
					}
				}
				return true
			})
		}
		fmt.Fprintf(w, "def saveWriters : List String := %s\n", c02LeanList(writers))
		w.WriteString("def writerClears : List (String × List String) := [")
		for i, name := range writers {
			if i > 0 {
				w.WriteString(",")
			}
			fd := funcDecl("File", name)
			if fd == nil {
				fail("C02: writer (*File).%s", name)
			}
			fmt.Fprintf(w, "\n  (%s, %s)", leanStr(name), c02LeanList(c02Clears(fd)))
		}
		w.WriteString("]\n")
		// shape of every writer: the loaded state it renders from and its guard
		var guards [][2]string
		w.WriteString("def writerShapes : List (String × String × String) := [")
		for i, name := range writers {
			if i > 0 {
				w.WriteString(",")
			}
			kind, subj := c02WriterShape(funcDecl("File", name))
			if kind == "?" {
				fail("C02: shape of writer (*File).%s", name)
			}
			if kind == "singleton" {
				guards = append(guards, [2]string{name, subj})
				subj = strings.SplitN(subj, " != nil", 2)[0]
			}
			fmt.Fprintf(w, "\n  (%s, %s, %s)", leanStr(name), leanStr(kind), leanStr(subj))
		}
		w.WriteString("]\n")
		w.WriteString("def writerGuards : List (String × String) := [")
		for i, gd := range guards {
			if i > 0 {
				w.WriteString(",")
			}
			fmt.Fprintf(w, "\n  (%s, %s)", leanStr(gd[0]), leanStr(gd[1]))
		}
		w.WriteString("]\n")
		// the readers of the singletons: decode the part only when nothing is loaded
		w.WriteString("def readerCaches : List (String × String) := [")
		for i, name := range []string{"calcChainReader", "contentTypesReader", "stylesReader", "sharedStringsReader",
			"workbookReader", "relsReader", "commentsReader"} {
			if i > 0 {
				w.WriteString(",")
			}
			cond := "<missing>"
			if fd := funcDecl("File", name); fd != nil {
				if is := c02FindIfFirst(fd, "nil"); is != nil {
					cond = strings.Join(strings.Fields(src(is.Cond)), " ")
				}
			}
			if cond == "<missing>" {
				fail("C02: cache test of reader (*File).%s", name)
			}
			fmt.Fprintf(w, "\n  (%s, %s)", leanStr(name), leanStr(cond))
		}
		w.WriteString("]\n")
		fmt.Fprintf(w, "def workbookAltPersisted : Bool := %v\n", c02AltPersisted(funcDecl("File", "workBookWriter")))
		fmt.Fprintf(w, "def worksheetAltPersisted : Bool := %v\n\n", c02AltPersisted(funcDecl("File", "workSheetWriter")))

		w.WriteString("/-! cell.go hasValue / rows.go hasAttr: fields tested -/\n")
		hv, ok := c02FieldTests("xlsxC", "hasValue")
		if !ok {
			fail("C02: (*xlsxC).hasValue is not a disjunction of field tests")
		}
		fmt.Fprintf(w, "def hasValueFields : List String := %s\n", c02LeanList(hv))
		ha, ok := c02FieldTests("xlsxRow", "hasAttr")
		if !ok {
			fail("C02: (*xlsxRow).hasAttr is not a disjunction of field tests")
		}
		fmt.Fprintf(w, "def hasAttrFields : List String := %s\n\n", c02LeanList(ha))

		w.WriteString("/-! sheet.go workSheetWriter: call skeleton; what happens to a worksheet that stays cached -/\n")
		wsw := funcDecl("File", "workSheetWriter")
		var skel []string
		evictGuarded, redensify := false, false
		if wsw == nil {
			fail("C02: (*File).workSheetWriter")
		} else {
			skel = c02Skeleton(wsw.Body)
			// the if-statement that evicts: its condition must be the result of f.checked.Load
			ev := c02FindIf(wsw, func(i *ast.IfStmt) bool { return c02HasCall(i.Body, "f.Sheet.Delete") })
			if ev == nil {
				fail("C02: workSheetWriter no longer evicts inside an if-statement")
			} else {
				if id, ok := ev.Cond.(*ast.Ident); ok && id.Name == "ok" && c02HasCall(ev.Body, "f.checked.Delete") {
					evictGuarded = true
				}
				if ev.Else != nil && c02HasCall(ev.Else, "sheet.checkRow") {
					redensify = true
				}
			}
		}
		fmt.Fprintf(w, "def workSheetWriterCalls : List String := %s\n", c02LeanList(skel))
		fmt.Fprintf(w, "def evictIffChecked : Bool := %v\n", evictGuarded)
		fmt.Fprintf(w, "def redensifyCached : Bool := %v\n\n", redensify)

		w.WriteString("/-! excelize.go workSheetReader: call skeleton -/\n")
		wsr := funcDecl("File", "workSheetReader")
		if wsr == nil {
			fail("C02: (*File).workSheetReader")
			fmt.Fprintf(w, "def workSheetReaderCalls : List String := []\n\n")
		} else {
			fmt.Fprintf(w, "def workSheetReaderCalls : List String := %s\n\n", c02LeanList(c02Skeleton(wsr.Body)))
		}

		w.WriteString("/-! sheet.go copySheet: loads source and target, then stores the copy in the cache -/\n")
		if cs := funcDecl("File", "copySheet"); cs == nil {
			fail("C02: (*File).copySheet")
			fmt.Fprintf(w, "def copySheetCalls : List String := []\n\n")
		} else {
			fmt.Fprintf(w, "def copySheetCalls : List String := %s\n\n", c02LeanList(c02Skeleton(cs.Body)))
		}

		w.WriteString("/-! sheet.go trimRow / trimCell: slot discipline -/\n")
		tr := funcDecl("", "trimRow")
		incrUncond := false
		if tr == nil {
			fail("C02: trimRow")
		} else {
			ast.Inspect(tr.Body, func(x ast.Node) bool {
				if rs, ok := x.(*ast.RangeStmt); ok {
					for _, st := range rs.Body.List {
						if inc, ok := st.(*ast.IncDecStmt); ok && inc.Tok == token.INC {
							if id, ok := inc.X.(*ast.Ident); ok && id.Name == "i" {
								incrUncond = true
							}
						}
					}
				}
				return true
			})
		}
		fmt.Fprintf(w, "def trimRowKeepsEverySlot : Bool := %v\n", incrUncond)
		c02Cond(w, "trimRowKeepCond", tr, "trimRow", "hasAttr")
		tc := funcDecl("", "trimCell")
		if tc == nil {
			fail("C02: trimCell")
		}
		c02Cond(w, "trimCellCopyCond", tc, "trimCell copy loop", "hasValue")
		w.WriteString("\n/-! guards of the slot arithmetic -/\n")
		c02Cond(w, "fillColumnsGuard", funcDecl("", "fillColumns"), "fillColumns", "cellCount")
		c02Cond(w, "prepareSheetXMLGuard", funcDecl("xlsxWorksheet", "prepareSheetXML"), "prepareSheetXML", "rowCount <")
		c02Cond(w, "checkRowGuard", funcDecl("xlsxWorksheet", "checkRow"), "checkRow", "colCount", "lastCol")
		c02Cond(w, "checkRowWidenGuard", funcDecl("xlsxWorksheet", "checkRow"), "checkRow", "colNum", "lastCol")
		c02Cond(w, "getCellLastRowGuard", funcDecl("File", "getCellStringFunc"), "getCellStringFunc", "lastRowNum")
		c02Cond(w, "getCellRowMatch", funcDecl("File", "getCellStringFunc"), "getCellStringFunc", "rowData.R")
		c02Cond(w, "getCellRefMatch", funcDecl("File", "getCellStringFunc"), "getCellStringFunc", "colData.R")
		c02Cond(w, "getRowVisibleGuard", funcDecl("File", "GetRowVisible"), "GetRowVisible", "len(ws.SheetData.Row)")
		// prepareCell returns the slot by index
		pc := funcDecl("xlsxWorksheet", "prepareCell")
		slot := "<missing>"
		if pc != nil && pc.Body != nil {
			if ret, ok := pc.Body.List[len(pc.Body.List)-1].(*ast.ReturnStmt); ok && len(ret.Results) > 0 {
				slot = strings.Join(strings.Fields(src(ret.Results[0])), " ")
			}
		}
		if slot == "<missing>" {
			fail("C02: prepareCell return")
		}
		fmt.Fprintf(w, "def prepareCellSlot : String := %s\n", leanStr(slot))
	})
}
