package main

// Facts for C03 (cell storage / merge rectangles). The Lean model
// XlModel.Grid is *defined over* these tables:
//   cellInRangeConds  comparisons of cell.go:cellInRange           -> Rect.contains
//   isOverlapConds    the interval comparisons of cell.go:isOverlap -> isOverlap
//   mergeCellBox      the min/max elements of merge.go:mergeCell    -> bbox
//   rowsGuardOp/colsGuardOp   densification guards of sheet.go:prepareSheetXML / fillColumns
//   setterSkel        per setter: calls prepareCell / prepareCellStyle / removeFormula, clears IS
//   type tags written by the setters and the cellTypes table read by GetCellType
// Everything is syntactic (go/ast).

import (
	"bytes"
	"fmt"
	"go/ast"
	"go/token"
	"sort"
	"strconv"
	"strings"
)

func c03IndexOf(e ast.Expr, base string) (int, bool) {
	ix, ok := e.(*ast.IndexExpr)
	if !ok {
		return 0, false
	}
	id, ok := ix.X.(*ast.Ident)
	if !ok || id.Name != base {
		return 0, false
	}
	lit, ok := ix.Index.(*ast.BasicLit)
	if !ok {
		return 0, false
	}
	n, err := strconv.Atoi(lit.Value)
	return n, err == nil
}

// c03Flatten splits a chain of binary op (&& or ||) into its leaves, left to right.
func c03Flatten(e ast.Expr, op token.Token) []ast.Expr {
	if p, ok := e.(*ast.ParenExpr); ok {
		return c03Flatten(p.X, op)
	}
	if b, ok := e.(*ast.BinaryExpr); ok && b.Op == op {
		return append(c03Flatten(b.X, op), c03Flatten(b.Y, op)...)
	}
	return []ast.Expr{e}
}

func c03Return(fd *ast.FuncDecl) ast.Expr {
	if fd == nil || fd.Body == nil {
		return nil
	}
	for _, st := range fd.Body.List {
		if r, ok := st.(*ast.ReturnStmt); ok && len(r.Results) == 1 {
			return r.Results[0]
		}
	}
	return nil
}

func c03Calls(fd *ast.FuncDecl, name string) bool {
	found := false
	ast.Inspect(fd.Body, func(n ast.Node) bool {
		if c, ok := n.(*ast.CallExpr); ok {
			switch fn := c.Fun.(type) {
			case *ast.SelectorExpr:
				if fn.Sel.Name == name {
					found = true
				}
			case *ast.Ident:
				if fn.Name == name {
					found = true
				}
			}
		}
		return true
	})
	return found
}

// c03AssignsNil: body contains an assignment whose lhs list includes sel (e.g. c.IS) and the matching rhs is nil.
func c03AssignsNil(fd *ast.FuncDecl, field string) bool {
	found := false
	ast.Inspect(fd.Body, func(n ast.Node) bool {
		as, ok := n.(*ast.AssignStmt)
		if !ok || len(as.Lhs) != len(as.Rhs) {
			return true
		}
		for i, l := range as.Lhs {
			if s, ok := l.(*ast.SelectorExpr); ok && s.Sel.Name == field {
				if id, ok := as.Rhs[i].(*ast.Ident); ok && id.Name == "nil" {
					found = true
				}
			}
		}
		return true
	})
	return found
}

// c03AssignedString: the string literal assigned to lhs named `lhs` (ident or selector .lhs) in fd.
func c03AssignedString(fd *ast.FuncDecl, lhs string) (string, bool) {
	res, ok := "", false
	ast.Inspect(fd.Body, func(n ast.Node) bool {
		as, isAs := n.(*ast.AssignStmt)
		if !isAs || len(as.Lhs) != len(as.Rhs) {
			return true
		}
		for i, l := range as.Lhs {
			name := ""
			switch x := l.(type) {
			case *ast.Ident:
				name = x.Name
			case *ast.SelectorExpr:
				name = x.Sel.Name
			}
			if name == lhs {
				if lit, isLit := as.Rhs[i].(*ast.BasicLit); isLit && lit.Kind == token.STRING && !ok {
					res, ok = unq(lit.Value), true
				}
			}
		}
		return true
	})
	return res, ok
}

func c03Bool(b bool) string {
	if b {
		return "true"
	}
	return "false"
}

func init() {
	addSection("C03", func(w *bytes.Buffer) {
		// 1. cellInRange
		w.WriteString("/-! cell.go:cellInRange — (index into cell, operator, index into ref) -/\n")
		w.WriteString("def cellInRangeConds : List (Nat × String × Nat) := [")
		if e := c03Return(funcDecl("", "cellInRange")); e == nil {
			fail("cellInRange: single return expression")
		} else {
			for i, leaf := range c03Flatten(e, token.LAND) {
				b, ok := leaf.(*ast.BinaryExpr)
				if !ok {
					fail("cellInRange: leaf %d is not a comparison", i)
					continue
				}
				a, ok1 := c03IndexOf(b.X, "cell")
				c, ok2 := c03IndexOf(b.Y, "ref")
				if !ok1 || !ok2 {
					fail("cellInRange: leaf %d is not cell[i] OP ref[j]", i)
					continue
				}
				if i > 0 {
					w.WriteString(", ")
				}
				fmt.Fprintf(w, "(%d, %s, %d)", a, leanStr(b.Op.String()), c)
			}
		}
		w.WriteString("]\n\n")

		// 2. isOverlap: a conjunction of comparisons between coordinates of the two rectangles
		w.WriteString("/-! cell.go:isOverlap — (rect of the lhs: 1|2, lhs index, operator, rhs index); the rhs is a coordinate of the other rect -/\n")
		w.WriteString("def isOverlapConds : List (Nat × Nat × String × Nat) := [")
		if e := c03Return(funcDecl("", "isOverlap")); e == nil {
			fail("isOverlap: single return expression")
		} else {
			for i, leaf := range c03Flatten(e, token.LAND) {
				okLeaf := false
				if b, ok := leaf.(*ast.BinaryExpr); ok {
					for k, bases := range [][2]string{{"rect1", "rect2"}, {"rect2", "rect1"}} {
						x, ok1 := c03IndexOf(b.X, bases[0])
						y, ok2 := c03IndexOf(b.Y, bases[1])
						if ok1 && ok2 {
							if i > 0 {
								w.WriteString(", ")
							}
							fmt.Fprintf(w, "(%d, %d, %s, %d)", k+1, x, leanStr(b.Op.String()), y)
							okLeaf = true
						}
					}
				}
				if !okLeaf {
					fail("isOverlap: leaf %d is not rectA[i] OP rectB[j]", i)
				}
			}
		}
		w.WriteString("]\n\n")

		// 3. mergeCell: rect := []int{min|max(rect1[i], rect2[i]), ...}
		w.WriteString("/-! merge.go:mergeCell — the elements of the bounding rectangle: (builtin, index) -/\n")
		w.WriteString("def mergeCellBox : List (String × Nat) := [")
		if fd := funcDecl("", "mergeCell"); fd == nil || fd.Body == nil {
			fail("mergeCell: function")
		} else {
			n := 0
			ast.Inspect(fd.Body, func(nd ast.Node) bool {
				cl, ok := nd.(*ast.CompositeLit)
				if !ok || n > 0 {
					return true
				}
				if at, ok := cl.Type.(*ast.ArrayType); !ok || at.Len != nil {
					return true
				}
				for _, el := range cl.Elts {
					call, ok := el.(*ast.CallExpr)
					if !ok || len(call.Args) != 2 {
						fail("mergeCell: element %d of the rectangle literal is not min/max(rect1[i], rect2[i])", n)
						continue
					}
					fn, ok0 := call.Fun.(*ast.Ident)
					a, ok1 := c03IndexOf(call.Args[0], "rect1")
					b, ok2 := c03IndexOf(call.Args[1], "rect2")
					if !ok0 || !ok1 || !ok2 || a != b || (fn.Name != "min" && fn.Name != "max") {
						fail("mergeCell: element %d of the rectangle literal is not min/max(rect1[i], rect2[i])", n)
						continue
					}
					if n > 0 {
						w.WriteString(", ")
					}
					fmt.Fprintf(w, "(%s, %d)", leanStr(fn.Name), a)
					n++
				}
				return false
			})
			if n == 0 {
				fail("mergeCell: bounding rectangle literal")
			}
		}
		w.WriteString("]\n\n")
		// 3b. the normalisation compares rectangles (isOverlap) and no longer allocates a cell matrix
		w.WriteString("/-! merge.go:flatMergedCells — calls isOverlap / mergeCell, allocates no matrix (no `make` of a slice of slices) -/\n")
		if fd := funcDecl("", "flatMergedCells"); fd == nil || fd.Body == nil {
			fail("flatMergedCells: function")
		} else {
			fmt.Fprintf(w, "def flatCallsIsOverlap : Bool := %s\ndef flatCallsMergeCell : Bool := %s\n", c03Bool(c03Calls(fd, "isOverlap")), c03Bool(c03Calls(fd, "mergeCell")))
		}
		matrix := false
		if fd := funcDecl("File", "mergeOverlapCells"); fd == nil || fd.Body == nil {
			fail("mergeOverlapCells: function")
		} else {
			matrix = c03Calls(fd, "make") || c03Calls(fd, "overlapRange")
		}
		fmt.Fprintf(w, "def normaliseAllocatesMatrix : Bool := %s\n\n", c03Bool(matrix))
		// 3c. does GetMergeCells normalise the worksheet's own list (argument `ws`) or a copy?
		w.WriteString("/-! merge.go:GetMergeCells — mergeOverlapCells is called on the worksheet itself (true) or on a copy (false) -/\n")
		inPlace, found := false, false
		if fd := funcDecl("File", "GetMergeCells"); fd != nil && fd.Body != nil {
			ast.Inspect(fd.Body, func(nd ast.Node) bool {
				if c, ok := nd.(*ast.CallExpr); ok && len(c.Args) == 1 {
					if sel, ok := c.Fun.(*ast.SelectorExpr); ok && sel.Sel.Name == "mergeOverlapCells" {
						found = true
						if id, ok := c.Args[0].(*ast.Ident); ok && id.Name == "ws" {
							inPlace = true
						}
					}
				}
				return true
			})
		}
		if !found {
			fail("GetMergeCells: call of mergeOverlapCells")
		}
		fmt.Fprintf(w, "def getMergeCellsInPlace : Bool := %s\n\n", c03Bool(inPlace))

		// 4. densification guards
		w.WriteString("/-! sheet.go: guards of the two densification loops (`rowCount OP row`, `cellCount OP col`) -/\n")
		// the guard is the first `if`/`for` condition `X OP <rhs>` of the function (robust against renaming
		// the counter or dropping the redundant `if` around the loop)
		guard := func(fn, recv, lhs, rhs, def string) {
			_ = lhs
			fd := funcDecl(recv, fn)
			op := ""
			if fd != nil && fd.Body != nil {
				ast.Inspect(fd.Body, func(n ast.Node) bool {
					var cond ast.Expr
					switch st := n.(type) {
					case *ast.IfStmt:
						cond = st.Cond
					case *ast.ForStmt:
						cond = st.Cond
					}
					if b, ok := cond.(*ast.BinaryExpr); ok && op == "" {
						if y, ok := b.Y.(*ast.Ident); ok && y.Name == rhs {
							switch b.Op {
							case token.LSS, token.LEQ, token.GTR, token.GEQ:
								op = b.Op.String()
							}
						}
					}
					return true
				})
			}
			if op == "" {
				fail("%s: guard `X OP %s`", fn, rhs)
				op = "?"
			}
			fmt.Fprintf(w, "def %s : String := %s\n", def, leanStr(op))
		}
		guard("prepareSheetXML", "xlsxWorksheet", "rowCount", "row", "rowsGuardOp")
		guard("fillColumns", "", "cellCount", "col", "colsGuardOp")
		w.WriteString("\n")

		// 5. setter skeletons
		w.WriteString("/-! cell.go setters: (name, calls prepareCell, calls prepareCellStyle, calls removeFormula, assigns IS = nil) -/\n")
		w.WriteString("def setterSkel : List (String × Bool × Bool × Bool × Bool) := [\n")
		setters := []string{"SetCellBool", "SetCellDefault", "SetCellFloat", "SetCellFormula", "SetCellInt", "SetCellRichText", "SetCellStr", "SetCellUint", "setCellTimeFunc"}
		sort.Strings(setters)
		for i, s := range setters {
			fd := funcDecl("File", s)
			if fd == nil || fd.Body == nil {
				fail("setter %s", s)
				continue
			}
			clearsIS := c03AssignsNil(fd, "IS")
			if s == "SetCellFloat" { // clears through (*xlsxC).setCellFloat
				if g := funcDecl("xlsxC", "setCellFloat"); g != nil && g.Body != nil {
					clearsIS = c03AssignsNil(g, "IS") && c03Calls(fd, "setCellFloat")
				}
			}
			sep := ","
			if i == len(setters)-1 {
				sep = ""
			}
			fmt.Fprintf(w, "  (%s, %s, %s, %s, %s)%s\n", leanStr(s), c03Bool(c03Calls(fd, "prepareCell")),
				c03Bool(c03Calls(fd, "prepareCellStyle")), c03Bool(c03Calls(fd, "removeFormula")), c03Bool(clearsIS), sep)
		}
		w.WriteString("]\n\n")
		// other callers of the redirect
		w.WriteString("/-! functions that call mergeCellsParser (the anchor redirect) -/\n")
		w.WriteString("def redirectCallers : List String := [")
		var callers []string
		for _, f := range files {
			for _, d := range f.Decls {
				if fd, ok := d.(*ast.FuncDecl); ok && fd.Body != nil && c03Calls(fd, "mergeCellsParser") {
					callers = append(callers, fd.Name.Name)
				}
			}
		}
		sort.Strings(callers)
		for i, c := range callers {
			if i > 0 {
				w.WriteString(", ")
			}
			w.WriteString(leanStr(c))
		}
		w.WriteString("]\n\n")

		// 6. type tags
		w.WriteString("/-! cell type tags written by the setters and the table GetCellType reads -/\n")
		tag := func(recv, fn, lhs, def string) {
			fd := funcDecl(recv, fn)
			if fd == nil || fd.Body == nil {
				fail("%s: function", fn)
				fmt.Fprintf(w, "def %s : String := \"?\"\n", def)
				return
			}
			v, ok := c03AssignedString(fd, lhs)
			if !ok {
				fail("%s: string literal assigned to %s", fn, lhs)
				v = "?"
			}
			fmt.Fprintf(w, "def %s : String := %s\n", def, leanStr(v))
		}
		tag("", "setCellBool", "t", "boolTag")
		tag("File", "setCellString", "t", "sstTag")
		tag("xlsxC", "setInlineStr", "T", "inlineTag")
		tag("File", "SetCellFormula", "T", "formulaTag")
		tag("File", "SetCellRichText", "T", "richTag")
		// countSharedFormula: the index of a new shared formula is (highest index in use) + 1
		shape := "other"
		if fd := funcDecl("xlsxWorksheet", "countSharedFormula"); fd == nil || fd.Body == nil {
			fail("countSharedFormula: function")
		} else {
			ast.Inspect(fd.Body, func(nd ast.Node) bool {
				ifs, ok := nd.(*ast.IfStmt)
				if !ok || len(ifs.Body.List) != 1 {
					return true
				}
				as, ok := ifs.Body.List[0].(*ast.AssignStmt)
				if !ok || len(as.Lhs) != 1 || len(as.Rhs) != 1 || as.Tok != token.ASSIGN {
					return true
				}
				lhs, ok := as.Lhs[0].(*ast.Ident)
				if !ok || lhs.Name != "count" {
					return true
				}
				// the condition ends in `<index>+1 > count` and the body assigns that same `<index> + 1`
				leaves := c03Flatten(ifs.Cond, token.LAND)
				last, ok := leaves[len(leaves)-1].(*ast.BinaryExpr)
				if ok && last.Op == token.GTR {
					if y, ok := last.Y.(*ast.Ident); ok && y.Name == "count" {
						norm := func(e ast.Expr) string { return strings.ReplaceAll(src(e), " ", "") }
						if norm(last.X) == norm(as.Rhs[0]) && strings.HasSuffix(norm(last.X), ".Si+1") {
							shape = "max+1"
						}
					}
				}
				return true
			})
		}
		fmt.Fprintf(w, "def countSharedFormulaShape : String := %s\n", leanStr(shape))
		// the types SetCellFormula treats specially when it leaves the old value behind as cached result
		w.WriteString("def formulaSwitchCases : List String := [")
		if fd := funcDecl("File", "SetCellFormula"); fd == nil || fd.Body == nil {
			fail("SetCellFormula: function")
		} else {
			n, seen := 0, false
			ast.Inspect(fd.Body, func(nd ast.Node) bool {
				sw, ok := nd.(*ast.SwitchStmt)
				if !ok || seen {
					return true
				}
				if sel, ok := sw.Tag.(*ast.SelectorExpr); !ok || sel.Sel.Name != "T" {
					return true
				}
				seen = true
				for _, st := range sw.Body.List {
					if cc, ok := st.(*ast.CaseClause); ok {
						for _, e := range cc.List {
							if lit, ok := e.(*ast.BasicLit); ok && lit.Kind == token.STRING {
								if n > 0 {
									w.WriteString(", ")
								}
								w.WriteString(leanStr(unq(lit.Value)))
								n++
							}
						}
					}
				}
				return false
			})
			if !seen {
				fail("SetCellFormula: switch on the cell type")
			}
		}
		w.WriteString("]\n")
		w.WriteString("def cellTypes : List (String × String) := [")
		if e := constExpr("cellTypes"); e == nil {
			fail("cellTypes table")
		} else if cl, ok := e.(*ast.CompositeLit); !ok {
			fail("cellTypes is not a composite literal")
		} else {
			var kv [][2]string
			for _, el := range cl.Elts {
				p, ok := el.(*ast.KeyValueExpr)
				if !ok {
					continue
				}
				k, ok1 := p.Key.(*ast.BasicLit)
				v, ok2 := p.Value.(*ast.Ident)
				if ok1 && ok2 {
					kv = append(kv, [2]string{unq(k.Value), v.Name})
				}
			}
			sort.Slice(kv, func(i, j int) bool { return kv[i][0] < kv[j][0] })
			for i, p := range kv {
				if i > 0 {
					w.WriteString(", ")
				}
				fmt.Fprintf(w, "(%s, %s)", leanStr(p[0]), leanStr(p[1]))
			}
		}
		w.WriteString("]\n")
	})
}
