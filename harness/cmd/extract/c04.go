package main

// C04 facts: the syntactic skeleton of the read paths that the Lean model
// XlModel.Readers is defined over.
//
//   appendSpaceStart            initial value of the loop variable of rows.go:appendSpace
//   rowsLiveUsesFormula         Rows.rowXMLHandler keeps a cell when `val != "" || colCell.F != nil`
//   rowsLiveCond                that condition, verbatim (whitespace-normalised)
//   getRowsKeepsNonEmpty        GetRows' `if len(row) > 0` guard, verbatim
//   getValueFromWritesCV        the default branch of cell.go:getValueFrom assigns to c.V
//   getCellStyleMaterialises    styles.go:GetCellStyle calls prepareSheetXML / prepareCell
//   materialisingGetters        exported Get* methods whose body calls prepareSheetXML / prepareCell
//   searchMustCompile           sheet.go:searchSheet calls regexp.MustCompile
//   searchTracksPositions       searchSheet keeps running row/column counters (`cellCol++`)
//   getters                     every exported method of *File whose name starts with Get, plus Rows, Cols, SearchSheet

import (
	"bytes"
	"fmt"
	"go/ast"
	"go/token"
	"sort"
	"strings"
)

func c04norm(s string) string { return strings.Join(strings.Fields(s), " ") }

func c04calls(n ast.Node, names ...string) bool {
	found := false
	ast.Inspect(n, func(x ast.Node) bool {
		if ce, ok := x.(*ast.CallExpr); ok {
			var nm string
			switch f := ce.Fun.(type) {
			case *ast.SelectorExpr:
				nm = f.Sel.Name
			case *ast.Ident:
				nm = f.Name
			}
			for _, want := range names {
				if nm == want {
					found = true
				}
			}
		}
		return true
	})
	return found
}

func c04bool(b bool) string {
	if b {
		return "true"
	}
	return "false"
}

func init() {
	addSection("C04", func(w *bytes.Buffer) {
		w.WriteString("/-! skeleton of the read paths (rows.go, col.go, cell.go, sheet.go, styles.go) -/\n")
		// appendSpace
		start := ""
		if fd := funcDecl("", "appendSpace"); fd != nil {
			ast.Inspect(fd, func(x ast.Node) bool {
				if fs, ok := x.(*ast.ForStmt); ok && fs.Init != nil {
					if as, ok := fs.Init.(*ast.AssignStmt); ok && len(as.Rhs) == 1 {
						if v, ok := evalConst(as.Rhs[0], 0); ok {
							start = v.ExactString()
						}
					}
				}
				return true
			})
		}
		if start == "" {
			fail("rows.go: appendSpace loop `for i := <const>; ...`")
			start = "0"
		}
		fmt.Fprintf(w, "def appendSpaceStart : Nat := %s\n", start)
		// rowXMLHandler live condition
		cond := ""
		if fd := funcDecl("Rows", "rowXMLHandler"); fd != nil {
			ast.Inspect(fd, func(x ast.Node) bool {
				if is, ok := x.(*ast.IfStmt); ok && is.Init != nil && c04calls(is.Init, "getValueFrom") {
					cond = c04norm(src(is.Cond))
				}
				return true
			})
		}
		if cond == "" {
			fail("rows.go: Rows.rowXMLHandler `if val, _ := colCell.getValueFrom(...); <cond>`")
		}
		fmt.Fprintf(w, "def rowsLiveCond : String := %s\n", leanStr(cond))
		fmt.Fprintf(w, "def rowsLiveUsesFormula : Bool := %s\n", c04bool(strings.Contains(cond, "colCell.F != nil")))
		// GetRows guard
		guard := ""
		ret := ""
		if fd := funcDecl("File", "GetRows"); fd != nil {
			ast.Inspect(fd, func(x ast.Node) bool {
				switch s := x.(type) {
				case *ast.IfStmt:
					if c := c04norm(src(s.Cond)); strings.HasPrefix(c, "len(row)") {
						guard = c
					}
				case *ast.ReturnStmt:
					if len(s.Results) == 2 {
						if c := c04norm(src(s.Results[0])); strings.HasPrefix(c, "results") {
							ret = c
						}
					}
				}
				return true
			})
		}
		if guard == "" || ret == "" {
			fail("rows.go: GetRows `if len(row) > 0` / `return results[:maxVal], ...`")
		}
		fmt.Fprintf(w, "def getRowsKeepsNonEmpty : String := %s\n", leanStr(guard))
		fmt.Fprintf(w, "def getRowsReturn : String := %s\n", leanStr(ret))
		// getValueFrom writes c.V
		writes, seen := false, false
		if fd := funcDecl("xlsxC", "getValueFrom"); fd != nil {
			seen = true
			ast.Inspect(fd, func(x ast.Node) bool {
				if as, ok := x.(*ast.AssignStmt); ok {
					for _, l := range as.Lhs {
						if c04norm(src(l)) == "c.V" {
							writes = true
						}
					}
				}
				return true
			})
		}
		if !seen {
			fail("cell.go: (*xlsxC).getValueFrom")
		}
		fmt.Fprintf(w, "def getValueFromWritesCV : Bool := %s\n", c04bool(writes))
		// getters
		var getters, mat []string
		for _, f := range files {
			for _, d := range f.Decls {
				fd, ok := d.(*ast.FuncDecl)
				if !ok || fd.Recv == nil || len(fd.Recv.List) != 1 || fd.Body == nil {
					continue
				}
				t := fd.Recv.List[0].Type
				if s, ok := t.(*ast.StarExpr); ok {
					t = s.X
				}
				if id, ok := t.(*ast.Ident); !ok || id.Name != "File" {
					continue
				}
				n := fd.Name.Name
				if !(strings.HasPrefix(n, "Get") || n == "Rows" || n == "Cols" || n == "SearchSheet") || !token.IsExported(n) {
					continue
				}
				getters = append(getters, n)
				if c04calls(fd.Body, "prepareSheetXML", "prepareCell") {
					mat = append(mat, n)
				}
			}
		}
		sort.Strings(getters)
		sort.Strings(mat)
		if len(getters) < 10 {
			fail("exported Get* methods of *File")
		}
		q := func(xs []string) string {
			o := make([]string, len(xs))
			for i, x := range xs {
				o[i] = leanStr(x)
			}
			return "[" + strings.Join(o, ", ") + "]"
		}
		fmt.Fprintf(w, "def getters : List String := %s\n", q(getters))
		fmt.Fprintf(w, "def getterSharedWrites : List String := %s\n", q(c04SharedWrites()))
		fmt.Fprintf(w, "def materialisingGetters : List String := %s\n", q(mat))
		gcs := false
		for _, m := range mat {
			if m == "GetCellStyle" {
				gcs = true
			}
		}
		fmt.Fprintf(w, "def getCellStyleMaterialises : Bool := %s\n", c04bool(gcs))
		// searchSheet
		mc, tp, ok := false, false, false
		if fd := funcDecl("File", "searchSheet"); fd != nil {
			ok = true
			mc = c04calls(fd, "MustCompile")
			ast.Inspect(fd, func(x ast.Node) bool {
				if s, isInc := x.(*ast.IncDecStmt); isInc && s.Tok == token.INC && c04norm(src(s.X)) == "cellCol" {
					tp = true
				}
				return true
			})
		}
		if !ok {
			fail("sheet.go: (*File).searchSheet")
		}
		// limits added to the loaders / iterators
		mentions := func(recv, name, what string) bool {
			fd := funcDecl(recv, name)
			return fd != nil && strings.Contains(src(fd), what)
		}
		if funcDecl("Rows", "Next") == nil || funcDecl("Rows", "Columns") == nil || funcDecl("xlsxWorksheet", "checkSheet") == nil || funcDecl("xlsxWorksheet", "checkRow") == nil {
			fail("rows.go/excelize.go: Rows.Next, Rows.Columns, checkSheet, checkRow")
		}
		fmt.Fprintf(w, "def rowsBoundByTotalRows : Bool := %s\n", c04bool(mentions("Rows", "Next", "rowNum > TotalRows") && mentions("Rows", "Columns", "rowNum > TotalRows")))
		if funcDecl("File", "GetMergeCells") == nil {
			fail("merge.go: (*File).GetMergeCells")
		}
		fmt.Fprintf(w, "def getMergeCellsInPlace : Bool := %s\n", c04bool(mentions("File", "GetMergeCells", "f.mergeOverlapCells(ws)")))
		// loadStringItems decodes every <si> into a fresh target declared inside the loop
		freshSI, seenLSI := false, false
		if fd := funcDecl("File", "loadStringItems"); fd != nil {
			seenLSI = true
			ast.Inspect(fd.Body, func(x ast.Node) bool {
				if is, ok := x.(*ast.IfStmt); ok && strings.Contains(c04norm(src(is.Cond)), `inElement == "si"`) {
					for _, st := range is.Body.List {
						if as, ok := st.(*ast.AssignStmt); ok && as.Tok == token.DEFINE && len(as.Lhs) == 1 && len(as.Rhs) == 1 {
							if _, ok := as.Rhs[0].(*ast.CompositeLit); ok && c04norm(src(as.Rhs[0])) == "xlsxSI{}" {
								freshSI = true
							}
						}
					}
				}
				return true
			})
		}
		if !seenLSI {
			fail("rows.go: (*File).loadStringItems")
		}
		fmt.Fprintf(w, "def sharedStringItemFresh : Bool := %s\n", c04bool(freshSI))
		if funcDecl("xlsxWorksheet", "checkSheetR0") == nil {
			fail("excelize.go: (*xlsxWorksheet).checkSheetR0")
		}
		fmt.Fprintf(w, "def r0RunningCol : Bool := %s\n", c04bool(mentions("xlsxWorksheet", "checkSheetR0", "col = prevCol + 1")))
		fmt.Fprintf(w, "def r0KeepsRowAttrs : Bool := %s\n", c04bool(mentions("xlsxWorksheet", "checkSheet", "*slot = r0Row")))
		// every function that renders a cell does it through getValueFrom
		var callers []string
		for _, f := range files {
			for _, d := range f.Decls {
				fd, ok := d.(*ast.FuncDecl)
				if !ok || fd.Body == nil || fd.Name.Name == "getValueFrom" {
					continue
				}
				if c04calls(fd.Body, "getValueFrom") {
					recv := ""
					if fd.Recv != nil && len(fd.Recv.List) == 1 {
						t := fd.Recv.List[0].Type
						if st, ok := t.(*ast.StarExpr); ok {
							t = st.X
						}
						if id, ok := t.(*ast.Ident); ok {
							recv = id.Name + "."
						}
					}
					callers = append(callers, recv+fd.Name.Name)
				}
			}
		}
		sort.Strings(callers)
		qs := make([]string, len(callers))
		for i, x := range callers {
			qs[i] = leanStr(x)
		}
		fmt.Fprintf(w, "def getValueFromCallers : List String := [%s]\n", strings.Join(qs, ", "))
		fmt.Fprintf(w, "def getRowsReturnsMaxRows : Bool := %s\n", c04bool(mentions("File", "GetRows", "err == ErrMaxRows") && mentions("File", "GetRows", "rows.Error()")))
		fmt.Fprintf(w, "def checkSheetBoundsRows : Bool := %s\n", c04bool(mentions("xlsxWorksheet", "checkSheet", "r.R > TotalRows")))
		fmt.Fprintf(w, "def checkRowSizesByGreatest : Bool := %s\n", c04bool(mentions("xlsxWorksheet", "checkRow", "colNum > lastCol")))
		fmt.Fprintf(w, "def searchMustCompile : Bool := %s\n", c04bool(mc))
		fmt.Fprintf(w, "def searchTracksPositions : Bool := %s\n", c04bool(tp))
	})
}

// c04SharedWrites lists, for every exported read function of *File, the assignments in its
// body whose target is a field / element reached from something that is not a fresh local
// object (named result, `var x T`, `x := T{...}`, `&T{...}`, `x := *p`, make, new): "Getter:lhs".
func c04SharedWrites() []string {
	var out []string
	for _, f := range files {
		for _, d := range f.Decls {
			fd, ok := d.(*ast.FuncDecl)
			if !ok || fd.Recv == nil || len(fd.Recv.List) != 1 || fd.Body == nil {
				continue
			}
			t := fd.Recv.List[0].Type
			if s, ok := t.(*ast.StarExpr); ok {
				t = s.X
			}
			if id, ok := t.(*ast.Ident); !ok || id.Name != "File" {
				continue
			}
			n := fd.Name.Name
			// the exported read functions and the unexported helper whose closure reads formulas
			if !((strings.HasPrefix(n, "Get") || n == "Rows" || n == "Cols" || n == "SearchSheet") && token.IsExported(n)) && n != "getCellFormula" {
				continue
			}
			fresh := map[string]bool{}
			if fd.Type.Results != nil {
				for _, r := range fd.Type.Results.List {
					for _, id := range r.Names {
						fresh[id.Name] = true
					}
				}
			}
			isFresh := func(e ast.Expr) bool {
				switch x := e.(type) {
				case *ast.CompositeLit:
					return true
				case *ast.StarExpr: // `x := *p` copies the pointee into a local value
					return true
				case *ast.UnaryExpr:
					_, ok := x.X.(*ast.CompositeLit)
					return ok && x.Op == token.AND
				case *ast.CallExpr:
					if id, ok := x.Fun.(*ast.Ident); ok && (id.Name == "make" || id.Name == "new") {
						return true
					}
				}
				return false
			}
			ast.Inspect(fd.Body, func(x ast.Node) bool {
				switch s := x.(type) {
				case *ast.DeclStmt:
					if gd, ok := s.Decl.(*ast.GenDecl); ok && gd.Tok == token.VAR {
						for _, sp := range gd.Specs {
							vs := sp.(*ast.ValueSpec)
							if len(vs.Values) == 0 {
								for _, id := range vs.Names {
									fresh[id.Name] = true
								}
							}
							for i, v := range vs.Values {
								if i < len(vs.Names) && isFresh(v) {
									fresh[vs.Names[i].Name] = true
								}
							}
						}
					}
				case *ast.AssignStmt:
					if s.Tok == token.DEFINE {
						for i, l := range s.Lhs {
							if id, ok := l.(*ast.Ident); ok && i < len(s.Rhs) && len(s.Lhs) == len(s.Rhs) && isFresh(s.Rhs[i]) {
								fresh[id.Name] = true
							}
						}
					}
				}
				return true
			})
			root := func(e ast.Expr) string {
				for {
					switch x := e.(type) {
					case *ast.SelectorExpr:
						e = x.X
					case *ast.IndexExpr:
						e = x.X
					case *ast.StarExpr:
						e = x.X
					case *ast.ParenExpr:
						e = x.X
					case *ast.Ident:
						return x.Name
					default:
						return "?"
					}
				}
			}
			note := func(l ast.Expr) {
				if _, ok := l.(*ast.Ident); ok {
					return
				}
				if fresh[root(l)] {
					return
				}
				out = append(out, n+":"+c04norm(src(l)))
			}
			ast.Inspect(fd.Body, func(x ast.Node) bool {
				switch s := x.(type) {
				case *ast.AssignStmt:
					for _, l := range s.Lhs {
						note(l)
					}
				case *ast.IncDecStmt:
					note(s.X)
				}
				return true
			})
		}
	}
	sort.Strings(out)
	return out
}
