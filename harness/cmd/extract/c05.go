package main

// C05 — facts the package-bookkeeping model (lean/XlModel/Pkg.lean, Impl) is
// defined over: relationship/content-type constants, the uniqPart table and
// id prefix of addRels, the partNames/contentTypes tables of
// addContentTypePart, the default-extension tables, the part-name pattern of
// NewSheet, the NewFile template (content types, workbook relationships,
// sheets, stored parts) and the shape of trimRow's slot counter.

import (
	"bytes"
	"encoding/xml"
	"fmt"
	"go/ast"
	"go/constant"
	"go/token"
	"sort"
	"strings"
)

// reflectTag returns the value of the xml key of a struct tag.
func reflectTag(tag string) string {
	const key = `xml:"`
	i := strings.Index(tag, key)
	if i < 0 {
		return ""
	}
	rest := tag[i+len(key):]
	if j := strings.Index(rest, `"`); j >= 0 {
		return rest[:j]
	}
	return ""
}

func c05StrConst(name string) (string, bool) {
	e := constExpr(name)
	if e == nil {
		return "", false
	}
	return c05StrExpr(e)
}

func c05StrExpr(e ast.Expr) (string, bool) {
	v, ok := evalConst(e, 0)
	if !ok || v.Kind() != constant.String {
		return "", false
	}
	return constant.StringVal(v), true
}

// c05Concat flattens a + b + c into operands.
func c05Concat(e ast.Expr) []ast.Expr {
	if b, ok := e.(*ast.BinaryExpr); ok && b.Op == token.ADD {
		return append(c05Concat(b.X), c05Concat(b.Y)...)
	}
	return []ast.Expr{e}
}

// c05Pattern reads  "prefix" + strconv.Itoa(x) + "suffix"  or a plain string.
func c05Pattern(e ast.Expr) (pre, suf string, indexed, ok bool) {
	ops := c05Concat(e)
	switch len(ops) {
	case 1:
		s, k := c05StrExpr(ops[0])
		return s, "", false, k
	case 3:
		p, k1 := c05StrExpr(ops[0])
		s, k2 := c05StrExpr(ops[2])
		call, k3 := ops[1].(*ast.CallExpr)
		if k1 && k2 && k3 && src(call.Fun) == "strconv.Itoa" {
			return p, s, true, true
		}
	}
	return "", "", false, false
}

func c05MapLit(fd *ast.FuncDecl, name string) *ast.CompositeLit {
	var res *ast.CompositeLit
	ast.Inspect(fd, func(n ast.Node) bool {
		switch x := n.(type) {
		case *ast.AssignStmt:
			for i, l := range x.Lhs {
				if id, ok := l.(*ast.Ident); ok && id.Name == name && i < len(x.Rhs) {
					if cl, ok := x.Rhs[i].(*ast.CompositeLit); ok {
						res = cl
					}
				}
			}
		case *ast.ValueSpec:
			for i, id := range x.Names {
				if id.Name == name && i < len(x.Values) {
					if cl, ok := x.Values[i].(*ast.CompositeLit); ok {
						res = cl
					}
				}
			}
		}
		return true
	})
	return res
}

func c05Pairs(w *bytes.Buffer, name string, ps [][2]string) {
	fmt.Fprintf(w, "def %s : List (String × String) := [", name)
	for i, p := range ps {
		if i > 0 {
			w.WriteString(",")
		}
		fmt.Fprintf(w, "\n  (%s, %s)", leanStr(p[0]), leanStr(p[1]))
	}
	w.WriteString("]\n")
}

func c05DefaultLit(fn string) (string, string, bool) {
	fd := funcDecl("File", fn)
	if fd == nil {
		return "", "", false
	}
	var ext, ct string
	found := false
	ast.Inspect(fd, func(n ast.Node) bool {
		cl, ok := n.(*ast.CompositeLit)
		if !ok || src(cl.Type) != "xlsxDefault" {
			return true
		}
		for _, el := range cl.Elts {
			kv, ok := el.(*ast.KeyValueExpr)
			if !ok {
				continue
			}
			s, ok := c05StrExpr(kv.Value)
			if !ok {
				continue
			}
			switch src(kv.Key) {
			case "Extension":
				ext = s
			case "ContentType":
				ct = s
			}
		}
		found = ext != "" && ct != ""
		return true
	})
	return ext, ct, found
}

func init() {
	addSection("C05", func(w *bytes.Buffer) {
		w.WriteString("/-! relationship / content-type constants -/\n")
		for _, c := range [][2]string{
			{"relWorksheet", "SourceRelationshipWorkSheet"},
			{"relSharedStrings", "SourceRelationshipSharedStrings"},
			{"ctWorksheet", "ContentTypeSpreadSheetMLWorksheet"},
			{"relDrawing", "SourceRelationshipDrawingML"},
			{"relTable", "SourceRelationshipTable"},
		} {
			v, ok := c05StrConst(c[1])
			if !ok {
				fail("string constant %s", c[1])
				v = ""
			}
			fmt.Fprintf(w, "def %s : String := %s\n", c[0], leanStr(v))
		}

		// addRels: id prefix and uniqPart
		prefix := ""
		var uniq [][2]string
		if fd := funcDecl("File", "addRels"); fd != nil {
			ast.Inspect(fd, func(n ast.Node) bool {
				call, ok := n.(*ast.CallExpr)
				if ok && prefix == "" && strings.HasSuffix(src(call.Fun), ".WriteString") && len(call.Args) == 1 {
					if s, ok := c05StrExpr(call.Args[0]); ok {
						prefix = s
					}
				}
				return true
			})
			if cl := c05MapLit(fd, "uniqPart"); cl != nil {
				for _, el := range cl.Elts {
					kv := el.(*ast.KeyValueExpr)
					k, ok1 := c05StrExpr(kv.Key)
					v, ok2 := c05StrExpr(kv.Value)
					if ok1 && ok2 {
						uniq = append(uniq, [2]string{k, v})
					}
				}
			} else {
				fail("addRels: uniqPart map literal")
			}
			// the loop must still compare Atoi(TrimPrefix(rel.ID, "rId")) against a running maximum
			body := src(fd.Body)
			if !strings.Contains(body, `strconv.Atoi(strings.TrimPrefix(rel.ID, "rId"))`) || !strings.Contains(body, "if ID > rID") || !strings.Contains(body, "rID++") {
				fail("addRels: max+1 allocation skeleton (Atoi(TrimPrefix(rel.ID, \"rId\")), if ID > rID, rID++)")
			}
		} else {
			fail("func (*File) addRels")
		}
		if prefix == "" {
			fail("addRels: ID.WriteString(\"rId\")")
		}
		fmt.Fprintf(w, "def ridPrefix : String := %s\n", leanStr(prefix))
		sort.Slice(uniq, func(i, j int) bool { return uniq[i][0] < uniq[j][0] })
		c05Pairs(w, "uniqParts", uniq)

		// addContentTypePart tables
		w.WriteString("\n/-! addContentTypePart: (kind, part prefix, part suffix, content type, indexed) -/\n")
		type kind struct {
			name, pre, suf, ct string
			indexed            bool
		}
		var kinds []kind
		var setters [][2]string
		if fd := funcDecl("File", "addContentTypePart"); fd != nil {
			pn, cts, st := c05MapLit(fd, "partNames"), c05MapLit(fd, "contentTypes"), c05MapLit(fd, "setContentType")
			if pn == nil || cts == nil || st == nil {
				fail("addContentTypePart: partNames / contentTypes / setContentType map literals")
			} else {
				ctOf := map[string]string{}
				for _, el := range cts.Elts {
					kv := el.(*ast.KeyValueExpr)
					k, _ := c05StrExpr(kv.Key)
					v, ok := c05StrExpr(kv.Value)
					if !ok {
						fail("addContentTypePart: content type of %s", k)
					}
					ctOf[k] = v
				}
				for _, el := range pn.Elts {
					kv := el.(*ast.KeyValueExpr)
					k, _ := c05StrExpr(kv.Key)
					pre, suf, idx, ok := c05Pattern(kv.Value)
					if !ok {
						fail("addContentTypePart: part name pattern of %s", k)
						continue
					}
					kinds = append(kinds, kind{k, pre, suf, ctOf[k], idx})
				}
				for _, el := range st.Elts {
					kv := el.(*ast.KeyValueExpr)
					k, _ := c05StrExpr(kv.Key)
					setters = append(setters, [2]string{k, strings.TrimPrefix(src(kv.Value), "f.")})
				}
			}
			body := src(fd.Body)
			if !strings.Contains(body, "if v.PartName == partNames[contentType]") {
				fail("addContentTypePart: existing-override guard `if v.PartName == partNames[contentType]`")
			}
		} else {
			fail("func (*File) addContentTypePart")
		}
		sort.Slice(kinds, func(i, j int) bool { return kinds[i].name < kinds[j].name })
		sort.Slice(setters, func(i, j int) bool { return setters[i][0] < setters[j][0] })
		w.WriteString("def ctPartKinds : List (String × String × String × String × Bool) := [")
		for i, k := range kinds {
			if i > 0 {
				w.WriteString(",")
			}
			fmt.Fprintf(w, "\n  (%s, %s, %s, %s, %v)", leanStr(k.name), leanStr(k.pre), leanStr(k.suf), leanStr(k.ct), k.indexed)
		}
		w.WriteString("]\n")
		c05Pairs(w, "ctKindSetters", setters)

		// default extensions
		var img [][2]string
		if fd := funcDecl("File", "setContentTypePartImageExtensions"); fd != nil {
			if cl := c05MapLit(fd, "imageTypes"); cl != nil {
				for _, el := range cl.Elts {
					kv := el.(*ast.KeyValueExpr)
					k, ok1 := c05StrExpr(kv.Key)
					v, ok2 := c05StrExpr(kv.Value)
					if ok1 && ok2 {
						img = append(img, [2]string{k, v})
					}
				}
			} else {
				fail("setContentTypePartImageExtensions: imageTypes map literal")
			}
		} else {
			fail("func (*File) setContentTypePartImageExtensions")
		}
		sort.Slice(img, func(i, j int) bool { return img[i][0] < img[j][0] })
		c05Pairs(w, "imageDefaults", img)
		for _, d := range [][2]string{{"vmlDefault", "setContentTypePartVMLExtensions"}, {"relsDefault", "setContentTypePartRelsExtensions"}} {
			ext, ct, ok := c05DefaultLit(d[1])
			if !ok {
				fail("%s: xlsxDefault literal", d[1])
			}
			fmt.Fprintf(w, "def %s : String × String := (%s, %s)\n", d[0], leanStr(ext), leanStr(ct))
		}

		// NewSheet: part name pattern and relationship target format
		pre, suf, relFmt := "", "", ""
		if fd := funcDecl("File", "NewSheet"); fd != nil {
			ast.Inspect(fd, func(n ast.Node) bool {
				call, ok := n.(*ast.CallExpr)
				if !ok {
					return true
				}
				switch src(call.Fun) {
				case "f.setContentTypes":
					if len(call.Args) == 2 {
						if p, s, idx, ok := c05Pattern(call.Args[0]); ok && idx {
							pre, suf = p, s
						}
					}
				case "fmt.Sprintf":
					if len(call.Args) == 2 {
						if s, ok := c05StrExpr(call.Args[0]); ok {
							relFmt = s
						}
					}
				}
				return true
			})
			body := src(fd.Body)
			if !strings.Contains(body, "if v.SheetID > sheetID") || !strings.Contains(body, "sheetID++") {
				fail("NewSheet: max+1 sheetID skeleton")
			}
			if !strings.Contains(body, "_, inPkg := f.Pkg.Load(sheetXMLPath)") || !strings.Contains(body, "_, inSheet := f.Sheet.Load(sheetXMLPath)") ||
				!strings.Contains(body, "if !inPkg && !inSheet {") {
				fail("NewSheet: loop skipping the ids whose worksheet part exists")
			}
		} else {
			fail("func (*File) NewSheet")
		}
		if pre == "" {
			fail("NewSheet: setContentTypes(\"/xl/worksheets/sheet\"+strconv.Itoa(sheetID)+\".xml\", …)")
		}
		fmt.Fprintf(w, "def newSheetPartPrefix : String := %s\ndef newSheetPartSuffix : String := %s\ndef newSheetRelFormat : String := %s\n",
			leanStr(pre), leanStr(suf), leanStr(relFmt))

		// copySheet: the copy takes the source's relationships minus drawing and table ones
		if fd := funcDecl("File", "copySheet"); fd != nil {
			body := src(fd.Body)
			if !strings.Contains(body, "rel.Type != SourceRelationshipDrawingML && rel.Type != SourceRelationshipTable") ||
				!strings.Contains(body, "f.relsReader(fromRels)") || !strings.Contains(body, "f.Relationships.Store(toRels, copied)") ||
				!strings.Contains(body, "f.deleteCalcChain(f.getSheetID(f.GetSheetName(to)), \"\")") {
				fail("copySheet: relationship copy skeleton (relsReader(fromRels), filter drawing/table, Store(toRels, copied))")
			}
		} else {
			fail("func (*File) copySheet")
		}
		// DeleteSheet: guards and cascade
		if fd := funcDecl("File", "DeleteSheet"); fd != nil {
			body := src(fd.Body)
			for _, pat := range []string{"f.SheetCount == 1 || idx == -1", "if !visible {", "f.deleteSheetFromWorkbookRels(v.ID)",
				"f.removeContentTypesPart(ContentTypeSpreadSheetMLWorksheet, target)", "f.deleteCalcChain(v.SheetID, \"\")", "f.SheetCount--"} {
				if !strings.Contains(body, pat) {
					fail("DeleteSheet: skeleton `%s`", pat)
				}
			}
		} else {
			fail("func (*File) DeleteSheet")
		}
		// deleteCalcChain: the filter expression, verbatim
		ccFilter := ""
		if fd := funcDecl("File", "deleteCalcChain"); fd != nil {
			ast.Inspect(fd, func(n ast.Node) bool {
				if fl, ok := n.(*ast.FuncLit); ok && ccFilter == "" && len(fl.Body.List) == 1 {
					if rs, ok := fl.Body.List[0].(*ast.ReturnStmt); ok && len(rs.Results) == 1 {
						ccFilter = strings.Join(strings.Fields(src(rs.Results[0])), " ")
					}
				}
				return true
			})
		}
		if ccFilter == "" {
			fail("deleteCalcChain: filter function literal")
		}
		if fd := funcDecl("File", "deleteCalcChain"); fd != nil && !strings.Contains(src(fd.Body), "rels.Relationships[k].Type == SourceRelationshipCalcChain") {
			fail("deleteCalcChain: removal of the workbook calcChain relationship with the part")
		}
		if fd := funcDecl("File", "deleteSlicerCache"); fd == nil || !strings.Contains(src(fd.Body), "f.deleteWorkbookRels(SourceRelationshipSlicerCache") ||
			!strings.Contains(src(fd.Body), "f.deleteWorkbookSlicerCache(rID)") {
			fail("deleteSlicerCache: removal of the workbook relationship and slicer cache entry")
		}
		fmt.Fprintf(w, "def deleteCalcChainFilter : String := %s\n", leanStr(ccFilter))
		// adjustCalcChain: entries AT the edit position move with their cells (`<=`)
		incl := "false"
		if fd := funcDecl("File", "adjustCalcChain"); fd != nil {
			body := src(fd.Body)
			if strings.Contains(body, "dir == rows && num <= rowNum") && strings.Contains(body, "dir == columns && num <= colNum") {
				incl = "true"
			}
			for _, pat := range []string{"if c.I != sheetID {", "offset == -1", "f.deleteCalcChain(c.I, c.R)", "adjustCellName(c.R, dir, colNum, rowNum, offset)"} {
				if !strings.Contains(body, pat) {
					fail("adjustCalcChain: skeleton `%s`", pat)
				}
			}
		} else {
			fail("func (*File) adjustCalcChain")
		}
		fmt.Fprintf(w, "def calcChainShiftInclusive : Bool := %s\n", incl)
		// AddPictureFromBytes reuses an image relationship with the same target inside one drawing;
		// DeletePicture skips the drawing's own relationships when it looks for other users
		reused := "false"
		if fd := funcDecl("File", "AddPictureFromBytes"); fd != nil {
			body := src(fd.Body)
			if strings.Contains(body, "rel.Type == SourceRelationshipImage && rel.Target == mediaStr") && strings.Contains(body, "if drawingRID == 0 {") {
				reused = "true"
			}
		} else {
			fail("func (*File) AddPictureFromBytes")
		}
		fmt.Fprintf(w, "def pictureRelReused : Bool := %s\n", reused)
		if fd := funcDecl("File", "DeletePicture"); fd != nil {
			body := src(fd.Body)
			for _, pat := range []string{"if k.(string) == drawingRels {", "if !used {", "f.deleteDrawingRels(drawingRels, rID)"} {
				if !strings.Contains(body, pat) {
					fail("DeletePicture: skeleton `%s`", pat)
				}
			}
		} else {
			fail("func (*File) DeletePicture")
		}
		// deletion policies of object kinds (reference-closure model)
		chartKeeps := "false"
		if fd := funcDecl("File", "DeleteChart"); fd != nil {
			body := src(fd.Body)
			if !strings.Contains(body, "Pkg.Delete") && !strings.Contains(body, "deleteDrawingRels") && !strings.Contains(body, "removeContentTypesPart") &&
				strings.Contains(body, "f.deleteDrawing(col, row, drawingXML, \"Chart\")") {
				chartKeeps = "true"
			}
		} else {
			fail("func (*File) DeleteChart")
		}
		fmt.Fprintf(w, "def deleteChartKeepsParts : Bool := %s\n", chartKeeps)
		if fd := funcDecl("File", "DeleteTable"); fd != nil {
			body := src(fd.Body)
			for _, pat := range []string{"f.Pkg.Delete(table.tableXML)", "f.removeContentTypesPart(ContentTypeSpreadSheetMLTable", "f.deleteSheetRelationships(sheet, tbl.RID)"} {
				if !strings.Contains(body, pat) {
					fail("DeleteTable: skeleton `%s`", pat)
				}
			}
		} else {
			fail("func (*File) DeleteTable")
		}
		// DeletePivotTable: the worksheet relationship goes, the pivot table part, its own
		// relationship and the cache part stay; the workbook relationship + <pivotCache> entry
		// go only when this pivot table was the last user of the cache
		pivotKeeps := "false"
		if fd := funcDecl("File", "DeletePivotTable"); fd != nil {
			body := src(fd.Body)
			for _, pat := range []string{"if pivotTableCaches[opt.pivotCacheXML] == 1 {", "err = f.deleteWorkbookPivotCache(opt)", "f.deleteSheetRelationships(sheet, v.ID)"} {
				if !strings.Contains(body, pat) {
					fail("DeletePivotTable: skeleton `%s`", pat)
				}
			}
			if !strings.Contains(body, "Pkg.Delete") && !strings.Contains(body, "removeContentTypesPart") {
				pivotKeeps = "true"
			}
		} else {
			fail("func (*File) DeletePivotTable")
		}
		if fd := funcDecl("File", "deleteWorkbookPivotCache"); fd != nil {
			body := src(fd.Body)
			for _, pat := range []string{"rID, err := f.deleteWorkbookRels(SourceRelationshipPivotCache,", "if pivotCache.RID == rID {",
				"wb.PivotCaches.PivotCache = append(wb.PivotCaches.PivotCache[:i], wb.PivotCaches.PivotCache[i+1:]...)"} {
				if !strings.Contains(body, pat) {
					fail("deleteWorkbookPivotCache: skeleton `%s`", pat)
				}
			}
			if strings.Contains(body, "Pkg.Delete") || strings.Contains(body, "removeContentTypesPart") {
				pivotKeeps = "false"
			}
		} else {
			fail("func (*File) deleteWorkbookPivotCache")
		}
		fmt.Fprintf(w, "def deletePivotKeepsParts : Bool := %s\n", pivotKeeps)
		// DeleteSlicer: deleteSlicer (extLst entry, slicer part, worksheet relationship — only when the
		// slicer part is left empty) then deleteSlicerCache (cache part, workbook relationship, every
		// slicerCache entry with that id — only when no other slicer uses the cache), in this order
		inOrder := func(fn string, pats ...string) bool {
			fd := funcDecl("File", fn)
			if fd == nil {
				fail("func (*File) %s", fn)
				return false
			}
			body := src(fd.Body)
			last := -1
			ordered := true
			for _, p := range pats {
				i := strings.Index(body, p)
				if i < 0 {
					fail("%s: skeleton `%s`", fn, p)
					return false
				}
				if i <= last {
					ordered = false
				}
				last = i
			}
			return ordered
		}
		slicerOrder := inOrder("DeleteSlicer", "_ = f.deleteSlicer(slicer)", "return f.deleteSlicerCache(sles, slicer)")
		slicerOrder = inOrder("deleteSlicer", "if len(slicers.Slicer) == 0 {", "if slicer.RID == opts.slicerSheetRID {",
			"decodeExtLst.Ext = append(decodeExtLst.Ext[:i], decodeExtLst.Ext[i+1:]...)", "f.Pkg.Delete(opts.slicerXML)",
			"f.removeContentTypesPart(ContentTypeSlicer, \"/\"+opts.slicerXML)", "f.deleteSheetRelationships(opts.slicerSheetName, opts.slicerSheetRID)") && slicerOrder
		slicerOrder = inOrder("deleteSlicerCache", "if slicer.Name != opts.Name && slicer.slicerCacheName == opts.slicerCacheName {", "return nil",
			"f.Pkg.Delete(opts.slicerCacheXML)", "f.deleteWorkbookRels(SourceRelationshipSlicerCache", "f.deleteWorkbookSlicerCache(rID)",
			"f.removeContentTypesPart(ContentTypeSlicerCache") && slicerOrder
		slicerOrder = inOrder("deleteWorkbookSlicerCache", "ext.Content = strings.ReplaceAll(ext.Content, entry, \"\")") && slicerOrder
		fmt.Fprintf(w, "def deleteSlicerOrder : Bool := %v\n", slicerOrder)
		// DeleteComment / DeleteFormControl: only a shape of the VML part (and comment entries) goes;
		// no part, relationship, Override or legacyDrawing reference is removed
		vmlKeeps := true
		for fn, pats := range map[string][]string{
			"DeleteComment":     {"return f.deleteFormControl(sheetRelationshipsDrawingVML, cell, true)"},
			"DeleteFormControl": {"return f.deleteFormControl(sheetRelationshipsDrawingVML, cell, false)"},
			"deleteFormControl": {"vml.Shape = append(vml.Shape[:i], vml.Shape[i+1:]...)", "f.VMLDrawing[drawingVML] = vml"},
		} {
			fd := funcDecl("File", fn)
			if fd == nil {
				fail("func (*File) %s", fn)
				vmlKeeps = false
				continue
			}
			body := src(fd.Body)
			for _, p := range pats {
				if !strings.Contains(body, p) {
					fail("%s: skeleton `%s`", fn, p)
				}
			}
			for _, p := range []string{"Pkg.Delete", "deleteSheetRelationships", "removeContentTypesPart", "LegacyDrawing = nil", "deleteWorkbookRels"} {
				if strings.Contains(body, p) {
					vmlKeeps = false
				}
			}
		}
		fmt.Fprintf(w, "def deleteVmlKeepsParts : Bool := %v\n", vmlKeeps)
		// the cell setters and the calculation chain
		sstFactsLate := func(fn string, pats ...string) {
			fd := funcDecl("File", fn)
			if fd == nil {
				fail("func (*File) %s", fn)
				return
			}
			body := src(fd.Body)
			for _, p := range pats {
				if !strings.Contains(body, p) {
					fail("%s: skeleton `%s`", fn, p)
				}
			}
		}
		sstFactsLate("removeFormula", "if c.F != nil && c.Vm == nil {", "f.deleteCalcChain(sheetID, c.R)", "c.F = nil")
		sstFactsLate("SetCellFormula", "if formula == \"\" {", "return f.deleteCalcChain(f.getSheetID(sheet), c.R)")
		// shared strings: how the index of a new item is computed
		sstFacts := func(fn string, pats ...string) {
			fd := funcDecl("File", fn)
			if fd == nil {
				fail("func (*File) %s", fn)
				return
			}
			body := src(fd.Body)
			for _, p := range pats {
				if !strings.Contains(body, p) {
					fail("%s: skeleton `%s`", fn, p)
				}
			}
		}
		sstFacts("setSharedString", "if i, ok := f.sharedStringsMap[t.Val]; ok {", "sst.SI = append(sst.SI, xlsxSI{T: &t})",
			"sst.Count = len(sst.SI)", "sst.UniqueCount = sst.Count", "f.sharedStringsMap[t.Val] = sst.UniqueCount - 1", "return sst.UniqueCount - 1, nil")
		sstFacts("SetCellRichText", "if reflect.DeepEqual(strItem, si) {", "c.T, c.V = \"s\", strconv.Itoa(idx)", "sst.SI = append(sst.SI, si)",
			"c.T, c.V = \"s\", strconv.Itoa(len(sst.SI)-1)")
		// element order of the worksheet / chartsheet writers = field order of the structs
		// (encoding/xml emits fields in declaration order; the stream writer copies fields by index)
		for _, t := range [][2]string{{"xlsxWorksheet", "wsFieldOrder"}, {"xlsxChartsheet", "csFieldOrder"}} {
			var names, slices []string
			found := false
			for _, f := range files {
				for _, d := range f.Decls {
					gd, ok := d.(*ast.GenDecl)
					if !ok || gd.Tok != token.TYPE {
						continue
					}
					for _, sp := range gd.Specs {
						ts := sp.(*ast.TypeSpec)
						st, ok := ts.Type.(*ast.StructType)
						if !ok || ts.Name.Name != t[0] {
							continue
						}
						found = true
						for _, fld := range st.Fields.List {
							if fld.Tag == nil || (len(fld.Names) == 1 && fld.Names[0].Name == "XMLName") {
								continue
							}
							tag := reflectTag(unq(fld.Tag.Value))
							name := strings.Split(tag, ",")[0]
							if name == "" || name == "-" || strings.Contains(tag, ",attr") || strings.Contains(tag, ",chardata") ||
								strings.Contains(tag, ",innerxml") || strings.Contains(name, " ") {
								continue
							}
							names = append(names, name)
							if _, isSlice := fld.Type.(*ast.ArrayType); isSlice {
								slices = append(slices, name)
							}
						}
					}
				}
			}
			if !found {
				fail("type %s struct", t[0])
			}
			fmt.Fprintf(w, "def %s : List String := [", t[1])
			for i, n := range names {
				if i > 0 {
					w.WriteString(", ")
				}
				w.WriteString(leanStr(n))
			}
			w.WriteString("]\n")
			fmt.Fprintf(w, "def %sSlices : List String := [", t[1])
			for i, n := range slices {
				if i > 0 {
					w.WriteString(", ")
				}
				w.WriteString(leanStr(n))
			}
			w.WriteString("]\n")
		}
		// trimRow: is the slot counter advanced for every row (true) or only for kept rows (false)?
		keeps := "false"
		if fd := funcDecl("", "trimRow"); fd != nil {
			found := false
			ast.Inspect(fd, func(n ast.Node) bool {
				rs, ok := n.(*ast.RangeStmt)
				if !ok {
					return true
				}
				for _, st := range rs.Body.List {
					if inc, ok := st.(*ast.IncDecStmt); ok && src(inc.X) == "i" {
						keeps = "true"
						found = true
					}
					if is, ok := st.(*ast.IfStmt); ok {
						for _, st2 := range is.Body.List {
							if inc, ok := st2.(*ast.IncDecStmt); ok && src(inc.X) == "i" {
								found = true
							}
						}
						if !strings.Contains(src(is.Cond), "len(row.C) != 0 || row.hasAttr()") {
							fail("trimRow: keep condition `len(row.C) != 0 || row.hasAttr()`")
						}
					}
				}
				return true
			})
			if !found {
				fail("trimRow: slot counter i++")
			}
		} else {
			fail("func trimRow")
		}
		fmt.Fprintf(w, "def trimRowKeepsEmptyRows : Bool := %s\n", keeps)

		// NewFile template
		w.WriteString("\n/-! the NewFile template -/\n")
		type ctT struct {
			Defaults []struct {
				Extension   string `xml:",attr"`
				ContentType string `xml:",attr"`
			} `xml:"Default"`
			Overrides []struct {
				PartName    string `xml:",attr"`
				ContentType string `xml:",attr"`
			} `xml:"Override"`
		}
		var ct ctT
		if s, ok := c05StrConst("templateContentTypes"); !ok || xml.Unmarshal([]byte(s), &ct) != nil {
			fail("templateContentTypes")
		}
		var ds, os [][2]string
		for _, d := range ct.Defaults {
			ds = append(ds, [2]string{d.Extension, d.ContentType})
		}
		for _, o := range ct.Overrides {
			os = append(os, [2]string{o.PartName, o.ContentType})
		}
		c05Pairs(w, "tplDefaults", ds)
		c05Pairs(w, "tplOverrides", os)
		type relsT struct {
			R []struct {
				ID         string `xml:"Id,attr"`
				Type       string `xml:",attr"`
				Target     string `xml:",attr"`
				TargetMode string `xml:",attr"`
			} `xml:"Relationship"`
		}
		var rels relsT
		if s, ok := c05StrConst("templateWorkbookRels"); !ok || xml.Unmarshal([]byte(s), &rels) != nil {
			fail("templateWorkbookRels")
		}
		w.WriteString("def tplWorkbookRels : List (String × String × String × String) := [")
		for i, r := range rels.R {
			if i > 0 {
				w.WriteString(",")
			}
			fmt.Fprintf(w, "\n  (%s, %s, %s, %s)", leanStr(r.ID), leanStr(r.Type), leanStr(r.Target), leanStr(r.TargetMode))
		}
		w.WriteString("]\n")
		type wbT struct {
			Sheets []struct {
				Name    string `xml:"name,attr"`
				SheetID int    `xml:"sheetId,attr"`
				ID      string `xml:"http://schemas.openxmlformats.org/officeDocument/2006/relationships id,attr"`
			} `xml:"sheets>sheet"`
		}
		var wb wbT
		if s, ok := c05StrConst("templateWorkbook"); !ok || xml.Unmarshal([]byte(s), &wb) != nil {
			fail("templateWorkbook")
		}
		w.WriteString("def tplSheets : List (String × Int × String) := [")
		for i, s := range wb.Sheets {
			if i > 0 {
				w.WriteString(",")
			}
			fmt.Fprintf(w, "\n  (%s, %d, %s)", leanStr(s.Name), s.SheetID, leanStr(s.ID))
		}
		w.WriteString("]\n")
		var parts []string
		if fd := funcDecl("", "NewFile"); fd != nil {
			ast.Inspect(fd, func(n ast.Node) bool {
				call, ok := n.(*ast.CallExpr)
				if ok && src(call.Fun) == "f.Pkg.Store" && len(call.Args) == 2 {
					if s, ok := c05StrExpr(call.Args[0]); ok {
						parts = append(parts, s)
					} else {
						fail("NewFile: path of %s", src(call))
					}
				}
				return true
			})
		} else {
			fail("func NewFile")
		}
		sort.Strings(parts)
		w.WriteString("def tplParts : List String := [")
		for i, p := range parts {
			if i > 0 {
				w.WriteString(", ")
			}
			w.WriteString(leanStr(p))
		}
		w.WriteString("]\n")
	})
}
