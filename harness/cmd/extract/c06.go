package main

// C06 facts: the ordered adjuster list of adjustHelperFunc, how RemoveCol
// decides which cell to drop, where the limit checks sit relative to the first
// mutation in adjustRowDimensions / adjustColDimensions, and the `if`
// conditions (guard skeletons) of the functions the Lean model transcribes.

import (
	"bytes"
	"fmt"
	"go/ast"
	"go/token"
	"strings"
)

func c06Norm(s string) string { return strings.Join(strings.Fields(s), " ") }

// c06Guards lists the source text of every `if` condition of a function, in source order.
func c06Guards(fd *ast.FuncDecl) []string {
	var out []string
	ast.Inspect(fd.Body, func(n ast.Node) bool {
		if is, ok := n.(*ast.IfStmt); ok {
			out = append(out, c06Norm(src(is.Cond)))
		}
		return true
	})
	return out
}

// c06ContainsReturnOf reports whether node contains `return <ident>`.
func c06ContainsReturnOf(n ast.Node, ident string) bool {
	found := false
	ast.Inspect(n, func(x ast.Node) bool {
		if rs, ok := x.(*ast.ReturnStmt); ok && len(rs.Results) == 1 {
			if id, ok := rs.Results[0].(*ast.Ident); ok && id.Name == ident {
				found = true
			}
		}
		return !found
	})
	return found
}

// c06IsSheetListLoop reports whether stmt is `for … range f.GetSheetList()`.
func c06IsSheetListLoop(s ast.Stmt) bool {
	rs, ok := s.(*ast.RangeStmt)
	return ok && strings.Contains(src(rs.X), "GetSheetList")
}

// c06CheckBeforePass: among the top-level statements of fn, the first statement
// containing `return <errIdent>` comes before the first loop over all sheets.
func c06CheckBeforePass(fd *ast.FuncDecl, errIdent string) (bool, bool) {
	chk, pass := -1, -1
	for i, s := range fd.Body.List {
		if chk < 0 && !c06IsSheetListLoop(s) && c06ContainsReturnOf(s, errIdent) {
			chk = i
		}
		if pass < 0 && c06IsSheetListLoop(s) {
			pass = i
		}
	}
	if chk < 0 || pass < 0 {
		return false, false
	}
	return chk < pass, true
}

func init() {
	addSection("C06", func(w *bytes.Buffer) {
		// 1. adjuster order
		w.WriteString("/-! adjust.go: the methods called by the entries of adjustHelperFunc, in order -/\n")
		var names []string
		if e := constExpr("adjustHelperFunc"); e == nil {
			fail("var adjustHelperFunc")
		} else if cl, ok := e.(*ast.CompositeLit); !ok {
			fail("adjustHelperFunc is not a composite literal")
		} else {
			for _, el := range cl.Elts {
				fl, ok := el.(*ast.FuncLit)
				name := ""
				if ok {
					ast.Inspect(fl.Body, func(n ast.Node) bool {
						if ce, ok := n.(*ast.CallExpr); ok && name == "" {
							if se, ok := ce.Fun.(*ast.SelectorExpr); ok {
								name = se.Sel.Name
							}
						}
						return name == ""
					})
				}
				if name == "" {
					fail("adjustHelperFunc entry without a method call")
				}
				names = append(names, leanStr(name))
			}
		}
		fmt.Fprintf(w, "def adjusters : List String := [%s]\n\n", strings.Join(names, ", "))

		// 1b. duplicate helper order
		w.WriteString("/-! rows.go: the methods called by the entries of duplicateHelperFunc, in order -/\n")
		var dnames []string
		if e := constExpr("duplicateHelperFunc"); e == nil {
			fail("var duplicateHelperFunc")
		} else if cl, ok := e.(*ast.CompositeLit); !ok {
			fail("duplicateHelperFunc is not a composite literal")
		} else {
			for _, el := range cl.Elts {
				name := ""
				if fl, ok := el.(*ast.FuncLit); ok {
					ast.Inspect(fl.Body, func(n ast.Node) bool {
						if ce, ok := n.(*ast.CallExpr); ok && name == "" {
							if se, ok := ce.Fun.(*ast.SelectorExpr); ok {
								name = se.Sel.Name
							}
						}
						return name == ""
					})
				}
				if name == "" {
					fail("duplicateHelperFunc entry without a method call")
				}
				dnames = append(dnames, leanStr(name))
			}
		}
		fmt.Fprintf(w, "def dupHelpers : List String := [%s]\n\n", strings.Join(dnames, ", "))

		// 2. RemoveCol: which comparison selects the cell to drop
		w.WriteString("/-! col.go RemoveCol: the test that selects the cell to drop in each row\n(cellColName = column letters of the stored reference, cellCol = its number,\ncol = the name as passed, num = its number) -/\n")
		body := "false"
		if fd := funcDecl("File", "RemoveCol"); fd == nil {
			fail("func (*File) RemoveCol")
		} else {
			kind := ""
			ast.Inspect(fd.Body, func(n ast.Node) bool {
				be, ok := n.(*ast.BinaryExpr)
				if !ok || be.Op != token.EQL || kind != "" {
					return true
				}
				x, y := c06Norm(src(be.X)), c06Norm(src(be.Y))
				switch {
				case (x == "colName" && y == "col") || (x == "col" && y == "colName"):
					kind = "name"
				case (x == "cellCol" && y == "num") || (x == "num" && y == "cellCol"):
					kind = "number"
				}
				return true
			})
			switch kind {
			case "name":
				body = "cellColName == col"
			case "number":
				body = "cellCol == num"
			default:
				fail("RemoveCol: neither `colName == col` nor `cellCol == num` found")
			}
		}
		fmt.Fprintf(w, "def removeColMatch (cellColName : List Char) (cellCol : Int) (col : List Char) (num : Int) : Bool :=\n  let _ := (cellColName, cellCol, col, num)\n  %s\n\n", body)

		// 3. limit check placement
		w.WriteString("/-! adjust.go: the limit check precedes the loop over all sheets (the first mutation) -/\n")
		for _, it := range []struct{ fn, errID, def string }{
			{"adjustRowDimensions", "ErrMaxRows", "rowLimitCheckFirst"},
			{"adjustColDimensions", "ErrColumnNumber", "colLimitCheckFirst"},
		} {
			fd := funcDecl("File", it.fn)
			if fd == nil {
				fail("func (*File) %s", it.fn)
				continue
			}
			before, ok := c06CheckBeforePass(fd, it.errID)
			if !ok {
				fail("%s: `return %s` / loop over GetSheetList not found at top level", it.fn, it.errID)
			}
			fmt.Fprintf(w, "def %s : Bool := %v\n", it.def, before)
		}
		// 3a. adjustHelper: the read-only range limit check is called before the dimension step
		w.WriteString("\n/-! adjust.go adjustHelper: checkAdjustRangeLimit is called before adjustRowDimensions/adjustColDimensions -/\n")
		rcf := false
		if fd := funcDecl("File", "adjustHelper"); fd == nil {
			fail("func (*File) adjustHelper")
		} else if funcDecl("File", "checkAdjustRangeLimit") == nil {
			fail("func (*File) checkAdjustRangeLimit")
		} else {
			chk, dim := token.NoPos, token.NoPos
			ast.Inspect(fd.Body, func(n ast.Node) bool {
				if ce, ok := n.(*ast.CallExpr); ok {
					if se, ok := ce.Fun.(*ast.SelectorExpr); ok {
						switch se.Sel.Name {
						case "checkAdjustRangeLimit":
							if chk == token.NoPos {
								chk = ce.Pos()
							}
						case "adjustRowDimensions", "adjustColDimensions":
							if dim == token.NoPos {
								dim = ce.Pos()
							}
						}
					}
				}
				return true
			})
			if chk == token.NoPos || dim == token.NoPos {
				fail("adjustHelper: call of checkAdjustRangeLimit / adjust*Dimensions not found")
			}
			rcf = chk != token.NoPos && dim != token.NoPos && chk < dim
		}
		fmt.Fprintf(w, "def rangeCheckFirst : Bool := %v\n", rcf)

		// 3b. adjustTable: which coordinate is compared with the removed row (0 = x1, 1 = y1)
		w.WriteString("\n/-! adjust.go adjustTable: index of the coordinate compared with the removed row (1 = y1, the header row) -/\n")
		hdr := -1
		if fd := funcDecl("File", "adjustTable"); fd == nil {
			fail("func (*File) adjustTable")
		} else {
			ast.Inspect(fd.Body, func(n ast.Node) bool {
				be, ok := n.(*ast.BinaryExpr)
				if ok && be.Op == token.EQL && c06Norm(src(be.X)) == "num" && strings.HasPrefix(c06Norm(src(be.Y)), "coordinates[") {
					fmt.Sscanf(c06Norm(src(be.Y)), "coordinates[%d]", &hdr)
				}
				return true
			})
			if hdr < 0 {
				fail("adjustTable: `num == coordinates[k]` not found")
			}
		}
		fmt.Fprintf(w, "def tableHeaderCoord : Int := %d\n", hdr)
		w.WriteString("\n")

		// 4. guard skeletons
		w.WriteString("/-! `if` conditions of the transcribed functions, in source order -/\n")
		for _, it := range []struct{ recv, fn string }{
			{"File", "InsertRows"}, {"File", "RemoveRow"}, {"File", "InsertCols"},
			{"File", "adjustHelper"}, {"File", "adjustRowDimensions"}, {"File", "adjustColDimensions"},
			{"File", "adjustCols"}, {"File", "adjustCellRef"}, {"File", "adjustMergeCells"},
			{"File", "adjustMergeCellsHelper"}, {"File", "adjustAutoFilter"}, {"File", "adjustAutoFilterHelper"},
			{"File", "adjustConditionalFormats"}, {"File", "adjustTable"}, {"File", "checkAdjustRangeLimit"}, {"File", "DuplicateRowTo"}, {"File", "duplicateMergeCells"},
		} {
			fd := funcDecl(it.recv, it.fn)
			if fd == nil {
				fail("func (*%s) %s", it.recv, it.fn)
				continue
			}
			var gs []string
			for _, g := range c06Guards(fd) {
				gs = append(gs, leanStr(g))
			}
			fmt.Fprintf(w, "def guards_%s : List String := [%s]\n", it.fn, strings.Join(gs, ",\n  "))
		}
		w.WriteString("\n")
	})
}
