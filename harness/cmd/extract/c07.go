package main

// C07 facts: the guard skeleton and the literal constants of the formula
// reference rewriter of adjust.go. The Lean model XlModel.FormulaRef is defined
// over the numeric constants; the normalised guard lists are compared with the
// guards the model transcribes (Props/C07.lean, `facts_*`), so that editing a
// comparison, a character class, a constant or the order of the branches in
// the Go source breaks a proof obligation.
//
// Normalisation: identifiers that are local names become `_` (renaming a local
// variable is not a change), except parameters/constants with a meaning in the
// model; character literals are printed as their code point.

import (
	"bytes"
	"fmt"
	"go/ast"
	"go/token"
	"strconv"
	"strings"
)

var c07Keep = map[string]bool{
	"columns": true, "rows": true, "TotalRows": true, "MaxColumns": true, "num": true, "offset": true,
	"abs": true, "keepRelative": true, "name": true, "dir": true, "sheet": true, "sheetN": true,
	"sheetName": true, "nil": true, "true": true, "false": true, "len": true,
	"efp": true, "strings": true, "strconv": true, "unicode": true,
}

func c07Norm(e ast.Node) string {
	switch x := e.(type) {
	case nil:
		return ""
	case *ast.Ident:
		if c07Keep[x.Name] {
			return x.Name
		}
		return "_"
	case *ast.BasicLit:
		if x.Kind == token.CHAR {
			if r, _, _, err := strconv.UnquoteChar(x.Value[1:len(x.Value)-1], '\''); err == nil {
				return strconv.Itoa(int(r))
			}
		}
		return x.Value
	case *ast.ParenExpr:
		return "(" + c07Norm(x.X) + ")"
	case *ast.UnaryExpr:
		return x.Op.String() + c07Norm(x.X)
	case *ast.BinaryExpr:
		return c07Norm(x.X) + x.Op.String() + c07Norm(x.Y)
	case *ast.SelectorExpr:
		return c07Norm(x.X) + "." + x.Sel.Name
	case *ast.CallExpr:
		var fn string
		if id, ok := x.Fun.(*ast.Ident); ok {
			fn = id.Name
		} else {
			fn = c07Norm(x.Fun)
		}
		args := make([]string, len(x.Args))
		for i, a := range x.Args {
			args[i] = c07Norm(a)
		}
		return fn + "(" + strings.Join(args, ",") + ")"
	case *ast.FuncLit:
		var rets []string
		ast.Inspect(x.Body, func(n ast.Node) bool {
			if r, ok := n.(*ast.ReturnStmt); ok {
				for _, v := range r.Results {
					rets = append(rets, c07Norm(v))
				}
			}
			return true
		})
		return "func{" + strings.Join(rets, ";") + "}"
	case *ast.AssignStmt:
		l := make([]string, len(x.Lhs))
		for i, a := range x.Lhs {
			l[i] = c07Norm(a)
		}
		r := make([]string, len(x.Rhs))
		for i, a := range x.Rhs {
			r[i] = c07Norm(a)
		}
		return strings.Join(l, ",") + x.Tok.String() + strings.Join(r, ",")
	case *ast.ExprStmt:
		return c07Norm(x.X)
	case *ast.IndexExpr:
		return c07Norm(x.X) + "[" + c07Norm(x.Index) + "]"
	}
	return "?" + strings.Join(strings.Fields(src(e)), "")
}

// c07Guards lists, in source order, every `if` guard (with its init statement)
// of a function, normalised.
func c07Guards(fd *ast.FuncDecl) []string {
	var out []string
	ast.Inspect(fd.Body, func(n ast.Node) bool {
		if s, ok := n.(*ast.IfStmt); ok {
			g := c07Norm(s.Cond)
			if s.Init != nil {
				g = c07Norm(s.Init) + ";" + g
			}
			out = append(out, g)
		}
		return true
	})
	return out
}

func c07List(w *bytes.Buffer, name string, xs []string) {
	fmt.Fprintf(w, "def %s : List String := [", name)
	for i, x := range xs {
		if i > 0 {
			w.WriteString(",")
		}
		w.WriteString("\n  " + leanStr(x))
	}
	w.WriteString("]\n\n")
}

// c07Chars returns the code points of the character literals of an expression in source order.
func c07Chars(e ast.Node) []int {
	var out []int
	ast.Inspect(e, func(n ast.Node) bool {
		if b, ok := n.(*ast.BasicLit); ok && b.Kind == token.CHAR {
			if r, _, _, err := strconv.UnquoteChar(b.Value[1:len(b.Value)-1], '\''); err == nil {
				out = append(out, int(r))
			}
		}
		return true
	})
	return out
}

func init() {
	addSection("C07", func(w *bytes.Buffer) {
		w.WriteString("/-! guard skeleton and literal constants of the formula-reference rewriter (adjust.go) -/\n\n")
		type fn struct{ recv, name, lean string }
		for _, f := range []fn{
			{"", "adjustFormulaColumnName", "guardsColumnName"},
			{"", "adjustFormulaRowNumber", "guardsRowNumber"},
			{"", "adjustFormulaOperandRef", "guardsOperandRef"},
			{"File", "adjustFormulaOperand", "guardsOperand"},
			{"File", "adjustFormulaRef", "guardsRef"},
			{"", "transformParenthesesToken", "guardsParen"},
			{"", "escapeSheetName", "guardsEscape"},
			{"", "needQuoteSheetName", "guardsNeedQuote"},
			{"", "arrayConstantTokens", "guardsArray"},
		} {
			fd := funcDecl(f.recv, f.name)
			if fd == nil {
				fail("function %s", f.name)
				c07List(w, f.lean, nil)
				continue
			}
			c07List(w, f.lean, c07Guards(fd))
		}
		// character classes of the operand automaton: the first three guards of the range loop
		var classes [][]int
		if fd := funcDecl("File", "adjustFormulaOperand"); fd != nil {
			ast.Inspect(fd.Body, func(n ast.Node) bool {
				if rs, ok := n.(*ast.RangeStmt); ok {
					for _, st := range rs.Body.List {
						if s, ok := st.(*ast.IfStmt); ok && s.Init == nil && len(c07Chars(s.Cond)) > 0 {
							classes = append(classes, c07Chars(s.Cond))
						}
					}
					return false
				}
				return true
			})
		}
		if len(classes) == 3 && len(classes[0]) == 1 && len(classes[1]) == 4 && len(classes[2]) == 2 {
			fmt.Fprintf(w, "def dollar : Nat := %d\n", classes[0][0])
			fmt.Fprintf(w, "def upperLo : Nat := %d\ndef upperHi : Nat := %d\n", classes[1][0], classes[1][1])
			fmt.Fprintf(w, "def lowerLo : Nat := %d\ndef lowerHi : Nat := %d\n", classes[1][2], classes[1][3])
			fmt.Fprintf(w, "def digitLo : Nat := %d\ndef digitHi : Nat := %d\n", classes[2][0], classes[2][1])
		} else {
			fail("adjustFormulaOperand: range loop with the three character-class guards ($, letters, digits)")
			w.WriteString("def dollar : Nat := 36\ndef upperLo : Nat := 65\ndef upperHi : Nat := 90\ndef lowerLo : Nat := 97\ndef lowerHi : Nat := 122\ndef digitLo : Nat := 48\ndef digitHi : Nat := 57\n")
		}
		// the sheet separator of strings.LastIndex(token.TValue, "!")
		sep := ""
		if fd := funcDecl("File", "adjustFormulaOperand"); fd != nil {
			ast.Inspect(fd, func(n ast.Node) bool {
				if x, ok := n.(*ast.CallExpr); ok && c07Norm(x.Fun) == "strings.LastIndex" && len(x.Args) == 2 {
					if b, ok := x.Args[1].(*ast.BasicLit); ok && b.Kind == token.STRING {
						sep = unq(b.Value)
					}
				}
				return true
			})
		}
		if len(sep) == 1 {
			fmt.Fprintf(w, "def sheetSep : Nat := %d\n", sep[0])
		} else {
			fail("adjustFormulaOperand: strings.LastIndex(token.TValue, \"!\")")
			w.WriteString("def sheetSep : Nat := 33\n")
		}
		// floor constants: `if X += offset; X < k { X = k' }`
		for _, f := range []fn{{"", "adjustFormulaColumnName", "col"}, {"", "adjustFormulaRowNumber", "row"}} {
			fd := funcDecl("", f.name)
			found := false
			if fd != nil {
				ast.Inspect(fd.Body, func(n ast.Node) bool {
					s, ok := n.(*ast.IfStmt)
					if !ok || found {
						return true
					}
					be, ok2 := s.Cond.(*ast.BinaryExpr)
					if !ok2 || be.Op != token.LSS || len(s.Body.List) != 1 {
						return true
					}
					set, ok3 := s.Body.List[0].(*ast.AssignStmt)
					lim, ok4 := be.Y.(*ast.BasicLit)
					if !ok3 || !ok4 || len(set.Rhs) != 1 {
						return true
					}
					to, ok5 := set.Rhs[0].(*ast.BasicLit)
					if !ok5 {
						return true
					}
					fmt.Fprintf(w, "def %sFloor : Int := %s\ndef %sFloorSet : Int := %s\n", f.lean, lim.Value, f.lean, to.Value)
					found = true
					return true
				})
			}
			if !found {
				fail("%s: `if x += offset; x < 1 { x = 1 }`", f.name)
				// keep the model compilable (the failure above already fails the check)
				fmt.Fprintf(w, "def %sFloor : Int := 1\ndef %sFloorSet : Int := 1\n", f.lean, f.lean)
			}
		}
		// text re-quoting: efp.QuoteDouble
		if v, ok := func() (string, bool) {
			fd := funcDecl("File", "adjustFormulaRef")
			if fd == nil {
				return "", false
			}
			s := src(fd.Body)
			if strings.Contains(s, `string(efp.QuoteDouble) + strings.ReplaceAll(token.TValue, "\"", "\"\"") + string(efp.QuoteDouble)`) {
				return "34", true
			}
			return "", false
		}(); ok {
			fmt.Fprintf(w, "def textQuote : Nat := %s\n", v)
		} else {
			fail("adjustFormulaRef: text operands re-quoted with efp.QuoteDouble and doubled embedded quotes")
			w.WriteString("def textQuote : Nat := 34\n")
		}
		// sheet-name quoting: "'" + strings.ReplaceAll(name, "'", "''") + "'"
		if fd := funcDecl("", "escapeSheetName"); fd != nil && strings.Contains(src(fd.Body), `"'" + strings.ReplaceAll(name, "'", "''") + "'"`) {
			fmt.Fprintf(w, "def sheetQuote : Nat := 39\n")
		} else {
			fail("escapeSheetName: quoting with single quotes and doubled embedded quotes")
			w.WriteString("def sheetQuote : Nat := 39\n")
		}
	})
}
