package main

// C08 facts: the operator tables and comparison skeleton of calc.go's
// shunting-yard evaluator. The Lean model XlModel/Calc.lean is *defined over*
// these, so an edit of the table / dispatch map / loop conditions in calc.go
// changes the model and breaks the proofs that depend on them.

import (
	"bytes"
	"fmt"
	"go/ast"
	"go/token"
	"sort"
	"strings"
)

func c08Bytes(s string) string {
	parts := make([]string, 0, len(s))
	for _, b := range []byte(s) {
		parts = append(parts, fmt.Sprintf("%d", b))
	}
	return "[" + strings.Join(parts, ", ") + "]"
}

func c08CmpLean(op token.Token) (string, bool) {
	switch op {
	case token.GTR:
		return "decide (a > b)", true
	case token.GEQ:
		return "decide (a ≥ b)", true
	case token.LSS:
		return "decide (a < b)", true
	case token.LEQ:
		return "decide (a ≤ b)", true
	case token.EQL:
		return "decide (a = b)", true
	case token.NEQ:
		return "decide (a ≠ b)", true
	}
	return "", false
}

// c08PriCmp finds `tokenPriority <op> topOptPriority`.
func c08PriCmp(e ast.Expr) (token.Token, bool) {
	be, ok := e.(*ast.BinaryExpr)
	if !ok {
		return 0, false
	}
	x, ok1 := be.X.(*ast.Ident)
	y, ok2 := be.Y.(*ast.Ident)
	if ok1 && ok2 && x.Name == "tokenPriority" && y.Name == "topOptPriority" {
		return be.Op, true
	}
	return 0, false
}

func init() {
	addSection("C08", func(w *bytes.Buffer) {
		w.WriteString("/-! calc.go: operator priority table, dispatch map, comparison skeleton, error codes -/\n")
		// tokenPriority map literal
		w.WriteString("def tokenPriority : List (List Nat × Nat) := [")
		if cl, ok := constExpr("tokenPriority").(*ast.CompositeLit); ok {
			for i, el := range cl.Elts {
				kv, ok := el.(*ast.KeyValueExpr)
				if !ok {
					fail("tokenPriority entry %d is not key:value", i)
					continue
				}
				k, ok1 := kv.Key.(*ast.BasicLit)
				v, ok2 := evalConst(kv.Value, 0)
				if !ok1 || !ok2 {
					fail("tokenPriority entry %d is not literal", i)
					continue
				}
				if i > 0 {
					w.WriteString(", ")
				}
				fmt.Fprintf(w, "(%s, %s)", c08Bytes(unq(k.Value)), v.ExactString())
			}
		} else {
			fail("tokenPriority map literal")
		}
		w.WriteString("]\n")
		// getPriority: the literal assigned for prefix minus and for '('
		pm, lp := "", ""
		if fd := funcDecl("", "getPriority"); fd != nil {
			for _, st := range fd.Body.List {
				is, ok := st.(*ast.IfStmt)
				if !ok || len(is.Body.List) != 1 {
					continue
				}
				as, ok := is.Body.List[0].(*ast.AssignStmt)
				if !ok || len(as.Rhs) != 1 {
					continue
				}
				v, ok := evalConst(as.Rhs[0], 0)
				if !ok {
					continue
				}
				cond := src(is.Cond)
				switch {
				case strings.Contains(cond, "TokenTypeOperatorPrefix") && strings.Contains(cond, `"-"`):
					pm = v.ExactString()
				case strings.Contains(cond, "isBeginParenthesesToken"):
					lp = v.ExactString()
				}
			}
		}
		if pm == "" || lp == "" {
			fail("getPriority: prefix-minus / begin-parentheses priority assignments")
			pm, lp = "0", "0"
		}
		fmt.Fprintf(w, "def prefixMinusPriority : Nat := %s\n", pm)
		fmt.Fprintf(w, "def beginParenPriority : Nat := %s\n", lp)
		// parseOperatorPrefixToken: push condition and loop condition
		push, loop := "", ""
		if fd := funcDecl("File", "parseOperatorPrefixToken"); fd != nil {
			for _, st := range fd.Body.List {
				switch s := st.(type) {
				case *ast.IfStmt:
					if op, ok := c08PriCmp(s.Cond); ok {
						push, _ = c08CmpLean(op)
					}
				case *ast.ForStmt:
					if op, ok := c08PriCmp(s.Cond); ok {
						loop, _ = c08CmpLean(op)
					}
				}
			}
		}
		if push == "" || loop == "" {
			fail("parseOperatorPrefixToken: `tokenPriority <cmp> topOptPriority` push / loop conditions")
			push, loop = "false", "false"
		}
		fmt.Fprintf(w, "def pushCmp (a b : Nat) : Bool := %s\n", push)
		fmt.Fprintf(w, "def loopCmp (a b : Nat) : Bool := %s\n", loop)
		// calculate: tokenCalcFunc map literal  symbol -> function name
		var syms, fns []string
		found := false
		if fd := funcDecl("", "calculate"); fd != nil {
			ast.Inspect(fd.Body, func(n ast.Node) bool {
				as, ok := n.(*ast.AssignStmt)
				if !ok || len(as.Lhs) != 1 || len(as.Rhs) != 1 {
					return true
				}
				id, ok := as.Lhs[0].(*ast.Ident)
				if !ok || id.Name != "tokenCalcFunc" {
					return true
				}
				cl, ok := as.Rhs[0].(*ast.CompositeLit)
				if !ok {
					return true
				}
				found = true
				for i, el := range cl.Elts {
					kv, ok := el.(*ast.KeyValueExpr)
					if !ok {
						fail("tokenCalcFunc entry %d", i)
						continue
					}
					k, ok1 := kv.Key.(*ast.BasicLit)
					v, ok2 := kv.Value.(*ast.Ident)
					if !ok1 || !ok2 {
						fail("tokenCalcFunc entry %d is not \"sym\": ident", i)
						continue
					}
					syms = append(syms, unq(k.Value))
					fns = append(fns, v.Name)
				}
				return false
			})
		}
		if !found {
			fail("calculate: tokenCalcFunc map literal")
		}
		uniq := map[string]bool{}
		var names []string
		for _, n := range fns {
			if !uniq[n] {
				uniq[n] = true
				names = append(names, n)
			}
		}
		sort.Strings(names)
		if len(names) == 0 {
			names = []string{"none"}
		}
		w.WriteString("inductive CalcFn where\n")
		for _, n := range names {
			fmt.Fprintf(w, "  | %s\n", n)
		}
		w.WriteString("  deriving DecidableEq, Repr\n")
		w.WriteString("def tokenCalcFunc : List (List Nat × CalcFn) := [")
		for i := range syms {
			if i > 0 {
				w.WriteString(", ")
			}
			fmt.Fprintf(w, "(%s, .%s)", c08Bytes(syms[i]), fns[i])
		}
		w.WriteString("]\n")
		// error codes
		for _, n := range []string{"formulaErrorDIV", "formulaErrorNAME", "formulaErrorNUM", "formulaErrorVALUE", "formulaErrorREF", "formulaErrorNA"} {
			e := constExpr(n)
			bl, ok := e.(*ast.BasicLit)
			if e == nil || !ok || bl.Kind != token.STRING {
				fail("string constant %s", n)
				fmt.Fprintf(w, "def %s : List Nat := []\n", n)
				continue
			}
			fmt.Fprintf(w, "def %s : List Nat := %s  -- %s\n", n, c08Bytes(unq(bl.Value)), unq(bl.Value))
		}
		// postfix percent divisor in parseToken: topOpd.Number / 100
		div := ""
		if fd := funcDecl("File", "parseToken"); fd != nil {
			ast.Inspect(fd.Body, func(n ast.Node) bool {
				be, ok := n.(*ast.BinaryExpr)
				if !ok || be.Op != token.QUO {
					return true
				}
				if sel, ok := be.X.(*ast.SelectorExpr); ok && sel.Sel.Name == "Number" {
					if v, ok := evalConst(be.Y, 0); ok {
						div = v.ExactString()
					}
				}
				return true
			})
		}
		if div == "" {
			fail("parseToken: postfix percent `topOpd.Number / <const>`")
			div = "0"
		}
		fmt.Fprintf(w, "def percentDivisor : Nat := %s\n", div)
		w.WriteString("\n")
	})
}
