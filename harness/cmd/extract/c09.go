package main

// C09 facts (calc.go): operator priority table, the operator dispatch key set
// of calculate, the priority of the prefix minus, the comparison and increment
// of the circular-reference cut-off in cellResolver, the number of unguarded
// stack type assertions per modelled function, the list of exported formula
// functions (methods of formulaFuncs) and the volatile ones (bodies that read
// the clock or a random source).

import (
	"bytes"
	"fmt"
	"go/ast"
	"go/token"
	"sort"
	"strconv"
	"strings"
)

func init() { addSection("C09", c09Facts) }

func c09StrList(w *bytes.Buffer, name string, xs []string) {
	fmt.Fprintf(w, "def %s : List String := [", name)
	for i, s := range xs {
		if i > 0 {
			w.WriteString(", ")
		}
		if i%8 == 0 {
			w.WriteString("\n  ")
		}
		w.WriteString(leanStr(s))
	}
	w.WriteString("]\n\n")
}

// c09MapLit returns the key/value expressions of a map composite literal.
func c09MapLit(e ast.Expr) ([][2]ast.Expr, bool) {
	cl, ok := e.(*ast.CompositeLit)
	if !ok {
		return nil, false
	}
	var out [][2]ast.Expr
	for _, el := range cl.Elts {
		kv, ok := el.(*ast.KeyValueExpr)
		if !ok {
			return nil, false
		}
		out = append(out, [2]ast.Expr{kv.Key, kv.Value})
	}
	return out, true
}

func c09IsFormulaFunc(fd *ast.FuncDecl) bool {
	if fd.Recv == nil || len(fd.Recv.List) != 1 {
		return false
	}
	t := fd.Recv.List[0].Type
	if s, ok := t.(*ast.StarExpr); ok {
		t = s.X
	}
	id, ok := t.(*ast.Ident)
	return ok && id.Name == "formulaFuncs"
}

// c09CountAsserts counts `X.Peek().(T)` / `X.Pop().(T)` type assertions in a body.
func c09CountAsserts(n ast.Node) int {
	c := 0
	ast.Inspect(n, func(x ast.Node) bool {
		ta, ok := x.(*ast.TypeAssertExpr)
		if !ok {
			return true
		}
		call, ok := ta.X.(*ast.CallExpr)
		if !ok {
			return true
		}
		sel, ok := call.Fun.(*ast.SelectorExpr)
		if ok && (sel.Sel.Name == "Peek" || sel.Sel.Name == "Pop") {
			c++
		}
		return true
	})
	return c
}

func c09Facts(w *bytes.Buffer) {
	calc := files["calc.go"]
	if calc == nil {
		fail("calc.go")
		return
	}
	// --- tokenPriority ----------------------------------------------------
	w.WriteString("/-! operator priorities (calc.go: tokenPriority, getPriority) -/\n")
	if kvs, ok := c09MapLit(constExpr("tokenPriority")); ok && len(kvs) > 0 {
		w.WriteString("def tokenPriority : List (String × Nat) := [")
		for i, kv := range kvs {
			k, ok1 := kv[0].(*ast.BasicLit)
			v, ok2 := evalConst(kv[1], 0)
			if !ok1 || !ok2 {
				fail("tokenPriority entry %d is not a literal", i)
				continue
			}
			if i > 0 {
				w.WriteString(", ")
			}
			fmt.Fprintf(w, "(%s, %s)", leanStr(unq(k.Value)), v.ExactString())
		}
		w.WriteString("]\n")
	} else {
		fail("var tokenPriority = map[string]int{...}")
		w.WriteString("def tokenPriority : List (String × Nat) := []\n")
	}
	// prefix-minus priority: the `pri = <int>` assignment in getPriority guarded by TokenTypeOperatorPrefix
	pm := ""
	if fd := funcDecl("", "getPriority"); fd != nil {
		ast.Inspect(fd.Body, func(x ast.Node) bool {
			is, ok := x.(*ast.IfStmt)
			if !ok || !strings.Contains(src(is.Cond), "TokenTypeOperatorPrefix") {
				return true
			}
			for _, st := range is.Body.List {
				if as, ok := st.(*ast.AssignStmt); ok && len(as.Rhs) == 1 {
					if v, ok := evalConst(as.Rhs[0], 0); ok {
						pm = v.ExactString()
					}
				}
			}
			return true
		})
	}
	if pm == "" {
		fail("getPriority: pri = <const> under the OperatorPrefix test")
		pm = "0"
	}
	fmt.Fprintf(w, "def prefixMinusPriority : Nat := %s\n\n", pm)
	// --- calculate: tokenCalcFunc key set ---------------------------------
	w.WriteString("/-! binary operators dispatched by calculate (calc.go: tokenCalcFunc) -/\n")
	var ops []string
	if fd := funcDecl("", "calculate"); fd != nil {
		ast.Inspect(fd.Body, func(x ast.Node) bool {
			as, ok := x.(*ast.AssignStmt)
			if !ok || len(as.Lhs) != 1 || len(as.Rhs) != 1 {
				return true
			}
			if id, ok := as.Lhs[0].(*ast.Ident); !ok || id.Name != "tokenCalcFunc" {
				return true
			}
			if kvs, ok := c09MapLit(as.Rhs[0]); ok {
				for _, kv := range kvs {
					if k, ok := kv[0].(*ast.BasicLit); ok {
						ops = append(ops, unq(k.Value))
					}
				}
			}
			return true
		})
	}
	if len(ops) == 0 {
		fail("calculate: tokenCalcFunc := map[string]func...{...}")
	}
	c09StrList(w, "calcOps", ops)
	// --- cut-off guard ------------------------------------------------------
	w.WriteString("/-! circular-reference cut-off (calc.go: cellResolver): `iterations[ref] <op> MaxCalcIterations`, then `iterations[ref]++` -/\n")
	op, inc, entryGuard := "", false, false
	if fd := funcDecl("File", "cellResolver"); fd != nil {
		ast.Inspect(fd.Body, func(x ast.Node) bool {
			switch n := x.(type) {
			case *ast.IfStmt:
				if be, ok := n.Cond.(*ast.BinaryExpr); ok {
					l, r := src(be.X), src(be.Y)
					if strings.Contains(l, "ctx.iterations[") && strings.Contains(r, "MaxCalcIterations") {
						op = be.Op.String()
						for _, st := range n.Body.List {
							if id, ok := st.(*ast.IncDecStmt); ok && id.Tok == token.INC && strings.Contains(src(id.X), "ctx.iterations[") {
								inc = true
							}
						}
					}
					if be.Op == token.NEQ && strings.Contains(l, "ctx.entry") {
						entryGuard = true
					}
				}
			}
			return true
		})
	}
	if op == "" {
		fail("cellResolver: if ctx.iterations[ref] <op> ...MaxCalcIterations")
	}
	if !inc {
		fail("cellResolver: ctx.iterations[ref]++ inside the cut-off branch")
	}
	if !entryGuard {
		fail("cellResolver: if ctx.entry != ref")
	}
	fmt.Fprintf(w, "def cutoffOp : String := %s\n", leanStr(op))
	fmt.Fprintf(w, "def cutoffIncrements : Bool := %v\n\n", inc)
	// --- the cut-off's state: every write to calcContext.iterations / iterationsCache in the package,
	// and the statements of the cut-off branch in order (the model's `bump; rec; setCache`) ----------
	w.WriteString("/-! every statement of the package (tests and verif hooks excluded) that writes `calcContext.iterations` or\n`calcContext.iterationsCache` (assignment, increment or decrement, delete or clear, composite-literal field), as `func: statement`, sorted;\nand the statements of cellResolver's cut-off branch in source order -/\n")
	var ctxWrites []string
	isCounter := func(t string) bool {
		return strings.Contains(t, ".iterations[") || strings.Contains(t, ".iterationsCache[") ||
			strings.HasSuffix(t, ".iterations") || strings.HasSuffix(t, ".iterationsCache")
	}
	oneLine := func(t string) string { return strings.Join(strings.Fields(t), " ") }
	for _, f := range files {
		for _, d := range f.Decls {
			fd, ok := d.(*ast.FuncDecl)
			if !ok || fd.Body == nil {
				continue
			}
			ast.Inspect(fd.Body, func(x ast.Node) bool {
				switch n := x.(type) {
				case *ast.AssignStmt:
					for _, l := range n.Lhs {
						if isCounter(src(l)) {
							ctxWrites = append(ctxWrites, fd.Name.Name+": "+oneLine(src(n)))
							break
						}
					}
				case *ast.IncDecStmt:
					if isCounter(src(n.X)) {
						ctxWrites = append(ctxWrites, fd.Name.Name+": "+oneLine(src(n)))
					}
				case *ast.CallExpr:
					if id, ok := n.Fun.(*ast.Ident); ok && (id.Name == "delete" || id.Name == "clear") && len(n.Args) > 0 && isCounter(src(n.Args[0])) {
						ctxWrites = append(ctxWrites, fd.Name.Name+": "+oneLine(src(n)))
					}
				case *ast.KeyValueExpr:
					if id, ok := n.Key.(*ast.Ident); ok && (id.Name == "iterations" || id.Name == "iterationsCache") {
						ctxWrites = append(ctxWrites, fd.Name.Name+": "+id.Name+": "+oneLine(src(n.Value)))
					}
				}
				return true
			})
		}
	}
	sort.Strings(ctxWrites)
	if len(ctxWrites) == 0 {
		fail("writes to calcContext.iterations / iterationsCache")
	}
	c09StrList(w, "ctxCounterWrites", ctxWrites)
	// every mention (selector expression) of the two fields: an alias such as `m := ctx.iterations` changes the count
	mentions := 0
	for _, f := range files {
		ast.Inspect(f, func(x ast.Node) bool {
			if se, ok := x.(*ast.SelectorExpr); ok && (se.Sel.Name == "iterations" || se.Sel.Name == "iterationsCache") {
				mentions++
			}
			return true
		})
	}
	fmt.Fprintf(w, "def ctxCounterMentions : Nat := %d\n\n", mentions)
	var branch, elseRet []string
	if fd := funcDecl("File", "cellResolver"); fd != nil {
		ast.Inspect(fd.Body, func(x ast.Node) bool {
			n, ok := x.(*ast.IfStmt)
			if !ok {
				return true
			}
			be, ok := n.Cond.(*ast.BinaryExpr)
			if !ok || !strings.Contains(src(be.X), "ctx.iterations[") || !strings.Contains(src(be.Y), "MaxCalcIterations") {
				return true
			}
			for _, st := range n.Body.List {
				branch = append(branch, oneLine(src(st)))
			}
			return false
		})
		// what the enclosing `if ctx.entry != ref` block does when the cut-off refuses: the statements after the inner if
		ast.Inspect(fd.Body, func(x ast.Node) bool {
			n, ok := x.(*ast.IfStmt)
			if !ok {
				return true
			}
			be, ok := n.Cond.(*ast.BinaryExpr)
			if !ok || be.Op != token.NEQ || !strings.Contains(src(be.X), "ctx.entry") {
				return true
			}
			for i, st := range n.Body.List {
				if i > 0 {
					elseRet = append(elseRet, oneLine(src(st)))
				}
			}
			return false
		})
	}
	if len(branch) == 0 || len(elseRet) == 0 {
		fail("cellResolver: statements of the cut-off branch / of the refusal path")
	}
	c09StrList(w, "cutoffBranch", branch)
	c09StrList(w, "cutoffRefused", elseRet)
	// how the key of the two maps is built: `ref := …` in cellResolver and `entry: …` in CalcCellValue
	// (the cut-off compares them, so both must be the same injective expression of sheet and cell)
	var keyExprs []string
	if fd := funcDecl("File", "cellResolver"); fd != nil {
		ast.Inspect(fd.Body, func(x ast.Node) bool {
			if as, ok := x.(*ast.AssignStmt); ok && len(as.Lhs) == 1 && len(as.Rhs) == 1 {
				if id, ok := as.Lhs[0].(*ast.Ident); ok && id.Name == "ref" {
					keyExprs = append(keyExprs, "cellResolver: ref "+as.Tok.String()+" "+oneLine(src(as.Rhs[0])))
				}
			}
			return true
		})
	}
	if fd := funcDecl("File", "CalcCellValue"); fd != nil {
		ast.Inspect(fd.Body, func(x ast.Node) bool {
			if kv, ok := x.(*ast.KeyValueExpr); ok {
				if id, ok := kv.Key.(*ast.Ident); ok && id.Name == "entry" {
					keyExprs = append(keyExprs, "CalcCellValue: entry: "+oneLine(src(kv.Value)))
				}
			}
			return true
		})
	}
	if len(keyExprs) < 2 {
		fail("cellResolver `ref :=` / CalcCellValue `entry:` key expressions")
	}
	c09StrList(w, "ctxKeyExprs", keyExprs)
	// --- lazy array-formula expansion (cell.go: getCellFormula) ---------------
	w.WriteString("/-! lazy expansion of array formulas (cell.go: getCellFormula): is `f.formulaChecked = true` placed before the `setArrayFormulaCells()` call (then a failed expansion is reported once only)? -/\n")
	assignIdx, callIdx := -1, -1
	if fd := funcDecl("File", "getCellFormula"); fd != nil {
		ast.Inspect(fd.Body, func(x ast.Node) bool {
			is, ok := x.(*ast.IfStmt)
			if !ok || !strings.Contains(src(is.Cond), "formulaChecked") {
				return true
			}
			for i, st := range is.Body.List {
				t := src(st)
				if as, ok := st.(*ast.AssignStmt); ok && strings.Contains(src(as.Lhs[0]), "formulaChecked") {
					assignIdx = i
				} else if strings.Contains(t, "setArrayFormulaCells()") {
					callIdx = i
				}
			}
			return false
		})
	}
	if assignIdx < 0 || callIdx < 0 {
		fail("getCellFormula: if transformed && !f.formulaChecked { ...setArrayFormulaCells()...; f.formulaChecked = true }")
	}
	fmt.Fprintf(w, "def flagSetBeforeExpansion : Bool := %v\n\n", assignIdx >= 0 && callIdx >= 0 && assignIdx < callIdx)
	// --- write set and callee set of the evaluator (purity frame) ------------
	w.WriteString("/-! purity frame: every assignment to a field / element (not a plain local) and every method called on the\nworkbook objects (receivers f, ws, x, fn.f) inside the evaluator's own functions -/\n")
	frameFns := [][2]string{{"File", "CalcCellValue"}, {"File", "calcCellValue"}, {"File", "evalInfixExp"}, {"File", "evalInfixExpFunc"},
		{"", "prepareEvalInfixExp"}, {"", "calculate"}, {"File", "parseOperatorPrefixToken"}, {"File", "parseToken"},
		{"File", "parseReference"}, {"", "parseRef"}, {"cellRange", "prepareCellRange"}, {"File", "cellResolver"},
		{"File", "rangeResolver"}, {"File", "getCellFormula"}, {"File", "setArrayFormulaCells"}, {"xlsxWorksheet", "setArrayFormula"},
		{"File", "getCellStringFunc"}}
	writes, calls := map[string]bool{}, map[string]bool{}
	rootIdent := func(e ast.Expr) string {
		for {
			switch x := e.(type) {
			case *ast.SelectorExpr:
				e = x.X
			case *ast.IndexExpr:
				e = x.X
			case *ast.StarExpr:
				e = x.X
			case *ast.ParenExpr:
				e = x.X
			case *ast.CallExpr:
				e = x.Fun
			case *ast.Ident:
				return x.Name
			default:
				return ""
			}
		}
	}
	for _, fn := range frameFns {
		fd := funcDecl(fn[0], fn[1])
		if fd == nil {
			fail("func %s (purity frame)", fn[1])
			continue
		}
		ast.Inspect(fd.Body, func(x ast.Node) bool {
			switch n := x.(type) {
			case *ast.AssignStmt:
				if n.Tok == token.DEFINE {
					return true
				}
				for _, l := range n.Lhs {
					switch l.(type) {
					case *ast.SelectorExpr, *ast.IndexExpr, *ast.StarExpr:
						writes[src(l)] = true
					}
				}
			case *ast.IncDecStmt:
				switch n.X.(type) {
				case *ast.SelectorExpr, *ast.IndexExpr, *ast.StarExpr:
					writes[src(n.X)] = true
				}
			case *ast.CallExpr:
				if sel, ok := n.Fun.(*ast.SelectorExpr); ok {
					switch rootIdent(sel.X) {
					case "f", "ws", "x", "fn":
						calls[src(sel.X)+"."+sel.Sel.Name] = true
					}
				}
			}
			return true
		})
	}
	var wl, cl []string
	for k := range writes {
		wl = append(wl, strings.Join(strings.Fields(k), ""))
	}
	for k := range calls {
		cl = append(cl, strings.Join(strings.Fields(k), ""))
	}
	sort.Strings(wl)
	sort.Strings(cl)
	c09StrList(w, "evalWrites", wl)
	c09StrList(w, "evalCalls", cl)
	// --- the function library's access to the workbook ----------------------------------------
	w.WriteString("/-! purity frame of the function library: inside the methods of `formulaFuncs` (receiver r), every use of the\nworkbook `r.f` as `f.X` (distinct, sorted), the number of uses of `r.f` that are not followed by a selector (the\nworkbook handed to something else), and every assignment whose target starts at the receiver or at a worksheet `ws` -/\n")
	libUses, libBare, libWrites, libMethods := map[string]bool{}, 0, []string{}, 0
	for _, f := range files {
		for _, d := range f.Decls {
			fd, ok := d.(*ast.FuncDecl)
			if !ok || fd.Body == nil || !c09IsFormulaFunc(fd) {
				continue
			}
			libMethods++
			recv := ""
			if len(fd.Recv.List[0].Names) == 1 {
				recv = fd.Recv.List[0].Names[0].Name
			}
			isWb := func(e ast.Expr) bool {
				se, ok := e.(*ast.SelectorExpr)
				if !ok || se.Sel.Name != "f" {
					return false
				}
				id, ok := se.X.(*ast.Ident)
				return ok && id.Name == recv
			}
			inner, outer := 0, 0
			root := func(e ast.Expr) string {
				for {
					switch x := e.(type) {
					case *ast.SelectorExpr:
						e = x.X
					case *ast.IndexExpr:
						e = x.X
					case *ast.StarExpr:
						e = x.X
					case *ast.ParenExpr:
						e = x.X
					case *ast.Ident:
						return x.Name
					default:
						return ""
					}
				}
			}
			ast.Inspect(fd.Body, func(x ast.Node) bool {
				switch n := x.(type) {
				case *ast.SelectorExpr:
					if isWb(n) {
						inner++
					} else if isWb(n.X) {
						outer++
						libUses["f."+n.Sel.Name] = true
					}
				case *ast.AssignStmt:
					if n.Tok != token.DEFINE {
						for _, l := range n.Lhs {
							if _, plain := l.(*ast.Ident); !plain && (root(l) == recv || root(l) == "ws") {
								libWrites = append(libWrites, fd.Name.Name+": "+src(l))
							}
						}
					}
				case *ast.IncDecStmt:
					if _, plain := n.X.(*ast.Ident); !plain && (root(n.X) == recv || root(n.X) == "ws") {
						libWrites = append(libWrites, fd.Name.Name+": "+src(n.X))
					}
				}
				return true
			})
			libBare += inner - outer
		}
	}
	if libMethods == 0 {
		fail("methods of formulaFuncs (library frame)")
	}
	var lu []string
	for k := range libUses {
		lu = append(lu, k)
	}
	sort.Strings(lu)
	sort.Strings(libWrites)
	c09StrList(w, "libWorkbookUses", lu)
	fmt.Fprintf(w, "def libWorkbookBare : Nat := %d\n\n", libBare)
	c09StrList(w, "libReceiverWrites", libWrites)
	// --- unguarded assertion sites ------------------------------------------
	w.WriteString("/-! number of `Peek().(T)` / `Pop().(T)` type assertions per modelled function -/\n")
	w.WriteString("def assertSites : List (String × Nat) := [")
	for i, fn := range [][2]string{{"File", "evalInfixExp"}, {"File", "evalInfixExpFunc"}, {"", "prepareEvalInfixExp"},
		{"", "calculate"}, {"File", "parseOperatorPrefixToken"}, {"File", "parseToken"}} {
		fd := funcDecl(fn[0], fn[1])
		n := 0
		if fd == nil {
			fail("func %s", fn[1])
		} else {
			n = c09CountAsserts(fd.Body)
		}
		if i > 0 {
			w.WriteString(", ")
		}
		fmt.Fprintf(w, "(%s, %d)", leanStr(fn[1]), n)
	}
	w.WriteString("]\n\n")
	// --- formula function list ----------------------------------------------
	type fnInfo struct {
		name  string
		calls map[string]bool
		vol   bool
	}
	infos := map[string]*fnInfo{}
	var exported []string
	for _, f := range files {
		for _, d := range f.Decls {
			fd, ok := d.(*ast.FuncDecl)
			if !ok || fd.Body == nil {
				continue
			}
			key := fd.Name.Name
			isFF := c09IsFormulaFunc(fd)
			if fd.Recv != nil && !isFF {
				continue // methods of other types are not followed
			}
			info := &fnInfo{name: key, calls: map[string]bool{}}
			parents := map[ast.Node]ast.Node{}
			var stack []ast.Node
			ast.Inspect(fd.Body, func(x ast.Node) bool {
				if x == nil {
					stack = stack[:len(stack)-1]
					return true
				}
				if len(stack) > 0 {
					parents[x] = stack[len(stack)-1]
				}
				stack = append(stack, x)
				switch n := x.(type) {
				case *ast.SelectorExpr:
					if id, ok := n.X.(*ast.Ident); ok {
						if id.Name == "rand" {
							info.vol = true
						}
						if id.Name == "time" && n.Sel.Name == "Now" {
							// time.Now().Location() only reads the zone: not volatile
							loc := false
							if call, ok := parents[n].(*ast.CallExpr); ok {
								if sel, ok := parents[call].(*ast.SelectorExpr); ok && sel.Sel.Name == "Location" {
									loc = true
								}
							}
							if !loc {
								info.vol = true
							}
						}
						if id.Name == "fn" {
							info.calls[n.Sel.Name] = true
						}
					}
				case *ast.CallExpr:
					if id, ok := n.Fun.(*ast.Ident); ok {
						info.calls[id.Name] = true
					}
				}
				return true
			})
			if old, dup := infos[key]; dup {
				for c := range old.calls {
					info.calls[c] = true
				}
				info.vol = info.vol || old.vol
			}
			infos[key] = info
			if isFF && ast.IsExported(key) && fd.Type.Params != nil && len(fd.Type.Params.List) == 1 &&
				src(fd.Type.Params.List[0].Type) == "*list.List" {
				exported = append(exported, key)
			}
		}
	}
	// transitive volatility
	for changed := true; changed; {
		changed = false
		for _, in := range infos {
			if in.vol {
				continue
			}
			for c := range in.calls {
				if o, ok := infos[c]; ok && o.vol {
					in.vol, changed = true, true
					break
				}
			}
		}
	}
	sort.Strings(exported)
	if len(exported) < 100 {
		fail("methods `func (fn *formulaFuncs) NAME(argsList *list.List) formulaArg` (found %d)", len(exported))
	}
	var names, vols []string
	for _, m := range exported {
		n := strings.ReplaceAll(m, "dot", ".")
		names = append(names, n)
		if infos[m].vol {
			vols = append(vols, n)
		}
	}
	w.WriteString("/-! exported formula functions (methods of formulaFuncs taking *list.List), Excel spelling -/\n")
	c09StrList(w, "formulaFuncs", names)
	w.WriteString("/-! formula functions whose body (transitively) reads the clock value or a random source -/\n")
	c09StrList(w, "volatileFuncs", vols)
	fmt.Fprintf(w, "def formulaFuncCount : Nat := %s\n", strconv.Itoa(len(names)))
}
