package main

// C10 facts: the token-type tables of numfmt.go that decide "supported vs fall
// back to the stored value", the built-in id -> code table, the AM/PM system
// language tags, and the integer literals of the functions whose thresholds the
// model transcribes (numberHandler, positiveHandler, dateTimeHandler,
// fractionHandler). nfp token-type constants are referred to by name in the
// source (`nfp.TokenTypeFraction`); the fact is the name with the
// TokenType/TokenSubType/TokenSection prefix removed, which is the constant's
// value in package nfp (the harness asserts that on every run).

import (
	"bytes"
	"fmt"
	"go/ast"
	"go/token"
	"sort"
	"strconv"
	"strings"
)

func c10nfpName(e ast.Expr) (string, bool) {
	s, ok := e.(*ast.SelectorExpr)
	if !ok {
		return "", false
	}
	if x, ok := s.X.(*ast.Ident); !ok || x.Name != "nfp" {
		return "", false
	}
	n := s.Sel.Name
	for _, p := range []string{"TokenSubType", "TokenType", "TokenSection"} {
		if strings.HasPrefix(n, p) {
			return strings.TrimPrefix(n, p), true
		}
	}
	return "", false
}

func c10typeList(w *bytes.Buffer, name string) {
	e := constExpr(name)
	cl, ok := e.(*ast.CompositeLit)
	if !ok {
		fail("token type table %s", name)
		fmt.Fprintf(w, "def %s : List String := []\n", name)
		return
	}
	var xs []string
	for _, el := range cl.Elts {
		n, ok := c10nfpName(el)
		if !ok {
			fail("element of %s is not an nfp constant: %s", name, src(el))
			continue
		}
		xs = append(xs, leanStr(n))
	}
	fmt.Fprintf(w, "def %s : List String := [%s]\n", name, strings.Join(xs, ", "))
}

// c10intLits lists the integer literals of a function body in source order.
func c10intLits(w *bytes.Buffer, recv, fn, leanName string) {
	fd := funcDecl(recv, fn)
	if fd == nil || fd.Body == nil {
		fail("function %s.%s", recv, fn)
		fmt.Fprintf(w, "def %s : List Nat := []\n", leanName)
		return
	}
	var xs []string
	ast.Inspect(fd.Body, func(n ast.Node) bool {
		if bl, ok := n.(*ast.BasicLit); ok && bl.Kind == token.INT {
			xs = append(xs, bl.Value)
		}
		return true
	})
	fmt.Fprintf(w, "def %s : List Nat := [%s]\n", leanName, strings.Join(xs, ", "))
}

// c10strLits lists the string literals of a function body in source order.
func c10strLits(w *bytes.Buffer, recv, fn, leanName string) {
	fd := funcDecl(recv, fn)
	if fd == nil || fd.Body == nil {
		fail("function %s.%s", recv, fn)
		fmt.Fprintf(w, "def %s : List String := []\n", leanName)
		return
	}
	var xs []string
	ast.Inspect(fd.Body, func(n ast.Node) bool {
		if bl, ok := n.(*ast.BasicLit); ok && bl.Kind == token.STRING {
			xs = append(xs, leanStr(unq(bl.Value)))
		}
		return true
	})
	fmt.Fprintf(w, "def %s : List String := [%s]\n", leanName, strings.Join(xs, ", "))
}

// c10cmpOps lists the comparison operators of a function body in source order.
func c10cmpOps(w *bytes.Buffer, recv, fn, leanName string) {
	fd := funcDecl(recv, fn)
	if fd == nil || fd.Body == nil {
		fail("function %s.%s", recv, fn)
		fmt.Fprintf(w, "def %s : List String := []\n", leanName)
		return
	}
	var xs []string
	ast.Inspect(fd.Body, func(n ast.Node) bool {
		if be, ok := n.(*ast.BinaryExpr); ok {
			switch be.Op {
			case token.LSS, token.LEQ, token.GTR, token.GEQ, token.EQL, token.NEQ:
				xs = append(xs, leanStr(be.Op.String()))
			}
		}
		return true
	})
	fmt.Fprintf(w, "def %s : List String := [%s]\n", leanName, strings.Join(xs, ", "))
}

func init() {
	addSection("C10", func(w *bytes.Buffer) {
		w.WriteString("/-! token-type tables of numfmt.go (nfp constant names without prefix) -/\n")
		c10typeList(w, "supportedTokenTypes")
		c10typeList(w, "supportedNumberTokenTypes")
		c10typeList(w, "supportedDateTimeTokenTypes")
		w.WriteString("\n/-! built-in number format codes (id, code) sorted by id -/\n")
		e := constExpr("builtInNumFmt")
		cl, ok := e.(*ast.CompositeLit)
		if !ok {
			fail("builtInNumFmt table")
		}
		type kv struct {
			k int
			v string
		}
		var kvs []kv
		if ok {
			for _, el := range cl.Elts {
				p, ok := el.(*ast.KeyValueExpr)
				if !ok {
					fail("builtInNumFmt element %s", src(el))
					continue
				}
				kl, ok1 := p.Key.(*ast.BasicLit)
				vl, ok2 := p.Value.(*ast.BasicLit)
				if !ok1 || !ok2 {
					fail("builtInNumFmt element %s", src(el))
					continue
				}
				k, _ := strconv.Atoi(kl.Value)
				kvs = append(kvs, kv{k, unq(vl.Value)})
			}
		}
		sort.Slice(kvs, func(i, j int) bool { return kvs[i].k < kvs[j].k })
		w.WriteString("def builtInNumFmt : List (Nat × String) := [\n")
		for i, p := range kvs {
			sep := ","
			if i == len(kvs)-1 {
				sep = ""
			}
			fmt.Fprintf(w, "  (%d, %s)%s\n", p.k, leanStr(p.v), sep)
		}
		w.WriteString("]\n")
		w.WriteString("\n/-! thresholds: integer literals / comparison operators in source order -/\n")
		c10intLits(w, "numberFormat", "numberHandler", "numberHandlerInts")
		c10cmpOps(w, "numberFormat", "numberHandler", "numberHandlerCmps")
		c10intLits(w, "numberFormat", "positiveHandler", "positiveHandlerInts")
		c10intLits(w, "numberFormat", "dateTimeHandler", "dateTimeHandlerInts")
		c10intLits(w, "numberFormat", "printBigNumber", "printBigNumberInts")
		c10intLits(w, "", "printCommaSep", "printCommaSepInts")
		c10cmpOps(w, "", "printCommaSep", "printCommaSepCmps")
		c10intLits(w, "", "handleDigitsLiteral", "handleDigitsLiteralInts")
		c10cmpOps(w, "", "handleDigitsLiteral", "handleDigitsLiteralCmps")
		c10cmpOps(w, "numberFormat", "getValueSectionType", "getValueSectionTypeCmps")
		c10cmpOps(w, "numberFormat", "getNumberPartLen", "getNumberPartLenCmps")
		c10intLits(w, "numberFormat", "hoursHandler", "hoursHandlerInts")
		c10cmpOps(w, "numberFormat", "hoursHandler", "hoursHandlerCmps")
		c10strLits(w, "numberFormat", "currencyLanguageHandler", "currencyLanguageStrs")
		c10apFmts(w)
		c10langTables(w)
		w.WriteString("\n")
	})
}

// c10apFmts: every value an `apFmt:` field of the language tables can take (AM/PM patterns that
// dateTimesHandler / hoursHandler split at "/" and index with [1] without a guard).
func c10apFmts(w *bytes.Buffer) {
	nfpAmPm := []string{"AM/PM", "A/P", "\u4e0a\u5348/\u4e0b\u5348"} // nfp.AmPm, asserted by the harness
	set := map[string]bool{}
	var resolve func(e ast.Expr) (string, bool)
	resolve = func(e ast.Expr) (string, bool) {
		switch x := e.(type) {
		case *ast.BasicLit:
			if x.Kind == token.STRING {
				return unq(x.Value), true
			}
		case *ast.Ident:
			if d := constExpr(x.Name); d != nil {
				return resolve(d)
			}
		case *ast.IndexExpr:
			if n, ok := c10sel(x.X); ok && n == "nfp.AmPm" {
				if bl, ok := x.Index.(*ast.BasicLit); ok {
					i, _ := strconv.Atoi(bl.Value)
					if 0 <= i && i < len(nfpAmPm) {
						return nfpAmPm[i], true
					}
				}
			}
		case *ast.CallExpr:
			if n, ok := c10sel(x.Fun); ok && n == "strings.ToLower" && len(x.Args) == 1 {
				if v, ok := resolve(x.Args[0]); ok {
					return strings.ToLower(v), true
				}
			}
		}
		return "", false
	}
	n := 0
	f := files["numfmt.go"]
	if f == nil {
		fail("numfmt.go")
		return
	}
	ast.Inspect(f, func(nd ast.Node) bool {
		kv, ok := nd.(*ast.KeyValueExpr)
		if !ok {
			return true
		}
		if id, ok := kv.Key.(*ast.Ident); ok && id.Name == "apFmt" {
			n++
			v, ok := resolve(kv.Value)
			if !ok {
				fail("apFmt value of unknown form: %s", src(kv.Value))
				return true
			}
			set[v] = true
		}
		return true
	})
	if n == 0 {
		fail("no apFmt fields in the language tables")
	}
	var xs []string
	for v := range set {
		xs = append(xs, v)
	}
	sort.Strings(xs)
	w.WriteString("\n/-! every AM/PM pattern of the language tables -/\n")
	fmt.Fprintf(w, "def apFmtFields : Nat := %d\n", n)
	w.WriteString("def apFmts : List String := [\n")
	for i, v := range xs {
		sep := ","
		if i == len(xs)-1 {
			sep = ""
		}
		fmt.Fprintf(w, "  %s%s\n", leanStr(v), sep)
	}
	w.WriteString("]\n")
}

func c10sel(e ast.Expr) (string, bool) {
	s, ok := e.(*ast.SelectorExpr)
	if !ok {
		return "", false
	}
	x, ok := s.X.(*ast.Ident)
	if !ok {
		return "", false
	}
	return x.Name + "." + s.Sel.Name, true
}

// c10langTables: the id -> code maps of langNumFmt per language, and the literals of the functions
// that resolve a number format id to a code (isLangNumFmt ranges, langNumFmtFunc* ranges and
// defaults, applyBuiltInNumFmt's ids 14 / 22).
func c10langTables(w *bytes.Buffer) {
	w.WriteString("\n/-! id resolution: language tables and the literals of the resolving functions -/\n")
	e := constExpr("langNumFmt")
	cl, ok := e.(*ast.CompositeLit)
	if !ok {
		fail("langNumFmt table")
		return
	}
	type kv struct {
		k int
		v string
	}
	langs := map[string][]kv{}
	for _, el := range cl.Elts {
		p, ok := el.(*ast.KeyValueExpr)
		if !ok {
			fail("langNumFmt element")
			continue
		}
		kl, ok1 := p.Key.(*ast.BasicLit)
		vl, ok2 := p.Value.(*ast.CompositeLit)
		if !ok1 || !ok2 {
			fail("langNumFmt element %s", src(p.Key))
			continue
		}
		var kvs []kv
		for _, e2 := range vl.Elts {
			q, ok := e2.(*ast.KeyValueExpr)
			if !ok {
				continue
			}
			a, ok1 := q.Key.(*ast.BasicLit)
			b, ok2 := q.Value.(*ast.BasicLit)
			if !ok1 || !ok2 {
				fail("langNumFmt entry %s", src(e2))
				continue
			}
			k, _ := strconv.Atoi(a.Value)
			kvs = append(kvs, kv{k, unq(b.Value)})
		}
		sort.Slice(kvs, func(i, j int) bool { return kvs[i].k < kvs[j].k })
		langs[unq(kl.Value)] = kvs
	}
	for _, name := range []string{"ja-jp", "ko-kr", "zh-cn", "zh-tw"} {
		kvs, ok := langs[name]
		if !ok {
			fail("langNumFmt[%s]", name)
		}
		fmt.Fprintf(w, "def langNumFmt_%s : List (Nat × String) := [\n", strings.ReplaceAll(name, "-", "_"))
		for i, p := range kvs {
			sep := ","
			if i == len(kvs)-1 {
				sep = ""
			}
			fmt.Fprintf(w, "  (%d, %s)%s\n", p.k, leanStr(p.v), sep)
		}
		w.WriteString("]\n")
	}
	c10intLits(w, "", "isLangNumFmt", "isLangNumFmtInts")
	c10intLits(w, "File", "langNumFmtFuncEnUS", "langEnUSInts")
	c10strLits(w, "File", "langNumFmtFuncEnUS", "langEnUSStrs")
	c10intLits(w, "File", "langNumFmtFuncJaJP", "langJaJPInts")
	c10intLits(w, "File", "langNumFmtFuncKoKR", "langKoKRInts")
	c10intLits(w, "File", "langNumFmtFuncZhCN", "langZhCNInts")
	c10intLits(w, "File", "langNumFmtFuncZhTW", "langZhTWInts")
	c10intLits(w, "File", "applyBuiltInNumFmt", "applyBuiltInInts")
	c10strLits(w, "File", "applyBuiltInNumFmt", "applyBuiltInStrs")
	c10intLits(w, "xlsxC", "getValueFrom", "getValueFromInts")
	c10intLits(w, "numberFormat", "fractionHandler", "fractionHandlerInts")
	c10intLits(w, "", "continuedFraction", "continuedFractionInts")
	c10intLits(w, "", "newRat", "newRatInts")
	// CultureName enumeration order
	var cult []string
	for _, f := range files {
		for _, d := range f.Decls {
			gd, ok := d.(*ast.GenDecl)
			if !ok || gd.Tok != token.CONST {
				continue
			}
			for i, sp := range gd.Specs {
				vs := sp.(*ast.ValueSpec)
				if len(vs.Names) == 1 && vs.Names[0].Name == "CultureNameUnknown" && i == 0 {
					for _, sp2 := range gd.Specs {
						cult = append(cult, leanStr(sp2.(*ast.ValueSpec).Names[0].Name))
					}
				}
			}
		}
	}
	if len(cult) == 0 {
		fail("CultureName enumeration")
	}
	fmt.Fprintf(w, "def cultureNames : List String := [%s]\n", strings.Join(cult, ", "))
}
