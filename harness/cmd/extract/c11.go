package main

// Facts for C11 (stream writer): the outline-level limit of RowOpts.marshalAttrs
// and *skeletons* of the functions the Lean model transcribes. A skeleton is
// the source-ordered list of: called function names, string literals, the
// comparison operators of if-conditions, assignments to StreamWriter /
// bufferedWriter fields, and returns. It is insensitive to renaming of local
// variables, comments and formatting, and sensitive to reordering, dropped or
// added calls, changed literals and changed comparisons.

import (
	"bytes"
	"fmt"
	"go/ast"
	"go/token"
	"strings"
)

func c11Skeleton(fd *ast.FuncDecl) []string {
	var out []string
	var condOps func(e ast.Expr)
	condOps = func(e ast.Expr) {
		switch x := e.(type) {
		case *ast.BinaryExpr:
			condOps(x.X)
			switch x.Op {
			case token.LSS, token.LEQ, token.GTR, token.GEQ, token.EQL, token.NEQ, token.LAND, token.LOR:
				out = append(out, "op "+x.Op.String())
			}
			condOps(x.Y)
		case *ast.ParenExpr:
			condOps(x.X)
		case *ast.UnaryExpr:
			if x.Op == token.NOT {
				out = append(out, "op !")
			}
			condOps(x.X)
		}
	}
	c11fieldOf := func(e ast.Expr) string {
		if s, ok := e.(*ast.SelectorExpr); ok {
			if id, ok := s.X.(*ast.Ident); ok && (id.Name == "sw" || id.Name == "bw") {
				return id.Name + "." + s.Sel.Name
			}
		}
		return ""
	}
	ast.Inspect(fd.Body, func(n ast.Node) bool {
		switch x := n.(type) {
		case *ast.IfStmt:
			out = append(out, "if")
			condOps(x.Cond)
		case *ast.CallExpr:
			name := ""
			switch f := x.Fun.(type) {
			case *ast.Ident:
				name = f.Name
			case *ast.SelectorExpr:
				name = f.Sel.Name
			}
			if name != "" {
				out = append(out, "call "+name)
			}
			// the column argument of the per-cell reference / style lookups
			if (name == "prepareCellStyle" || name == "CoordinatesToCellName") && len(x.Args) > 0 {
				out = append(out, "arg0 "+strings.Join(strings.Fields(src(x.Args[0])), ""))
			}
		case *ast.KeyValueExpr:
			if k, ok := x.Key.(*ast.Ident); ok {
				if v, ok := x.Value.(*ast.BasicLit); ok && v.Kind == token.INT {
					out = append(out, "kv "+k.Name+"="+v.Value)
				}
			}
		case *ast.BasicLit:
			if x.Kind == token.STRING {
				out = append(out, "lit "+unq(x.Value))
			}
		case *ast.AssignStmt:
			for _, l := range x.Lhs {
				if f := c11fieldOf(l); f != "" {
					out = append(out, "set "+f)
				}
			}
		case *ast.IncDecStmt:
			if f := c11fieldOf(x.X); f != "" {
				out = append(out, "set "+f)
			}
		case *ast.ReturnStmt:
			out = append(out, "return")
		case *ast.RangeStmt:
			out = append(out, "range")
		case *ast.BranchStmt:
			out = append(out, strings.ToLower(x.Tok.String()))
		}
		return true
	})
	return out
}

// c11StructFields returns (field name, type source, tag) of a struct type declared in the repository.
func c11StructFields(name string) ([][3]string, bool) {
	for _, f := range files {
		for _, d := range f.Decls {
			gd, ok := d.(*ast.GenDecl)
			if !ok || gd.Tok != token.TYPE {
				continue
			}
			for _, sp := range gd.Specs {
				ts := sp.(*ast.TypeSpec)
				st, ok := ts.Type.(*ast.StructType)
				if !ok || ts.Name.Name != name {
					continue
				}
				var out [][3]string
				for _, fl := range st.Fields.List {
					tag := ""
					if fl.Tag != nil {
						tag = unq(fl.Tag.Value)
					}
					typ := strings.Join(strings.Fields(src(fl.Type)), "")
					if len(fl.Names) == 0 {
						out = append(out, [3]string{typ, typ, tag})
					}
					for _, n := range fl.Names {
						out = append(out, [3]string{n.Name, typ, tag})
					}
				}
				return out, true
			}
		}
	}
	return nil, false
}

// c11BulkRanges lists the literal (from, to) pairs of the bulkAppendFields calls of a function, in source order.
func c11BulkRanges(fd *ast.FuncDecl) []string {
	var out []string
	ast.Inspect(fd.Body, func(n ast.Node) bool {
		ce, ok := n.(*ast.CallExpr)
		if !ok {
			return true
		}
		if id, ok := ce.Fun.(*ast.Ident); ok && id.Name == "bulkAppendFields" && len(ce.Args) == 4 {
			a, ok1 := ce.Args[2].(*ast.BasicLit)
			b, ok2 := ce.Args[3].(*ast.BasicLit)
			if ok1 && ok2 {
				out = append(out, "("+a.Value+", "+b.Value+")")
			} else {
				out = append(out, "(0, 0)")
			}
		}
		return true
	})
	return out
}

func init() {
	addSection("C11", func(w *bytes.Buffer) {
		w.WriteString("/-! struct tags the marshaller model is written against; worksheet field order; bulkAppendFields ranges -/\n")
		for _, st := range []string{"xlsxC", "xlsxF", "xlsxSI", "xlsxT", "xlsxR", "xlsxRow", "xlsxPane", "xlsxSelection"} {
			fs, ok := c11StructFields(st)
			if !ok {
				fail("struct type %s", st)
				fmt.Fprintf(w, "def tags_%s : List (String × String × String) := []\n", st)
				continue
			}
			fmt.Fprintf(w, "def tags_%s : List (String × String × String) := [", st)
			for i, f := range fs {
				if i > 0 {
					w.WriteString(",")
				}
				fmt.Fprintf(w, "\n  (%s, %s, %s)", leanStr(f[0]), leanStr(f[1]), leanStr(f[2]))
			}
			w.WriteString("]\n")
		}
		if e := constExpr("defaultColWidth"); e != nil {
			fmt.Fprintf(w, "def defaultColWidth : String := %s\n", leanStr(strings.TrimSpace(src(e))))
		} else {
			fail("constant defaultColWidth")
			w.WriteString("def defaultColWidth : String := \"\"\n")
		}
		if fs, ok := c11StructFields("xlsxWorksheet"); ok {
			w.WriteString("def worksheetFields : List String := [")
			for i, f := range fs {
				if i > 0 {
					w.WriteString(", ")
				}
				w.WriteString(leanStr(f[0]))
			}
			w.WriteString("]\n")
		} else {
			fail("struct type xlsxWorksheet")
			w.WriteString("def worksheetFields : List String := []\n")
		}
		for _, fn := range []string{"NewStreamWriter", "writeSheetData", "Flush"} {
			recv := "StreamWriter"
			if fn == "NewStreamWriter" {
				recv = "File"
			}
			fd := funcDecl(recv, fn)
			if fd == nil {
				fail("function %s.%s", recv, fn)
				fmt.Fprintf(w, "def bulk_%s : List (Nat × Nat) := []\n", fn)
				continue
			}
			fmt.Fprintf(w, "def bulk_%s : List (Nat × Nat) := [%s]\n", fn, strings.Join(c11BulkRanges(fd), ", "))
		}
		w.WriteString("\n")
	})
	addSection("C11", func(w *bytes.Buffer) {
		// the outline-level limit: `if r.OutlineLevel > 7`
		w.WriteString("/-! stream.go: RowOpts.marshalAttrs outline-level limit; function skeletons -/\n")
		found := false
		if fd := funcDecl("RowOpts", "marshalAttrs"); fd != nil {
			ast.Inspect(fd.Body, func(n ast.Node) bool {
				be, ok := n.(*ast.BinaryExpr)
				if !ok || be.Op != token.GTR {
					return true
				}
				if sel, ok := be.X.(*ast.SelectorExpr); ok && sel.Sel.Name == "OutlineLevel" {
					if lit, ok := be.Y.(*ast.BasicLit); ok && lit.Kind == token.INT && !found {
						fmt.Fprintf(w, "def MaxOutlineLevel : Nat := %s\n", lit.Value)
						found = true
					}
				}
				return true
			})
		}
		if !found {
			fail("stream.go: `r.OutlineLevel > <int literal>` in RowOpts.marshalAttrs")
			w.WriteString("def MaxOutlineLevel : Nat := 0\n")
		}
		for _, fn := range [][2]string{
			{"StreamWriter", "SetRow"}, {"RowOpts", "marshalAttrs"}, {"", "writeCell"},
			{"", "setCellFormula"}, {"StreamWriter", "setCellValFunc"}, {"StreamWriter", "setCellTime"},
			{"StreamWriter", "writeSheetData"}, {"StreamWriter", "Flush"},
			{"StreamWriter", "MergeCell"}, {"StreamWriter", "SetColWidth"},
			{"StreamWriter", "SetColStyle"}, {"StreamWriter", "SetPanes"},
			{"bufferedWriter", "Write"}, {"bufferedWriter", "WriteString"},
			{"bufferedWriter", "Sync"}, {"bufferedWriter", "Flush"}, {"bufferedWriter", "Reader"},
			{"xlsxC", "setCellValue"}, {"xlsxC", "setInlineStr"}, {"xlsxC", "setStr"},
			{"", "trimCellValue"}, {"xlsxWorksheet", "prepareCellStyle"},
		} {
			fd := funcDecl(fn[0], fn[1])
			name := "skel_" + fn[1]
			if fn[0] == "bufferedWriter" {
				name = "skel_bw_" + fn[1]
			}
			if fd == nil || fd.Body == nil {
				fail("function %s.%s", fn[0], fn[1])
				fmt.Fprintf(w, "def %s : List String := []\n", name)
				continue
			}
			sk := c11Skeleton(fd)
			fmt.Fprintf(w, "def %s : List String := [", name)
			for i, s := range sk {
				if i > 0 {
					w.WriteString(", ")
				}
				if i%6 == 0 {
					w.WriteString("\n  ")
				}
				w.WriteString(leanStr(s))
			}
			w.WriteString("]\n")
		}
		w.WriteString("\n")
	})
}
