package main

// C12 facts: everything the Lean model XlModel.Store is defined over.
//   - key names of the two-tier part store (templates.go constants, docPart table, sheet prefix)
//   - default limits (UnzipSizeLimit, StreamChunkSize)
//   - the comparison operators of the guards in ReadZipReader / checkOpenReaderOptions
//   - whether the spill guards exclude directory entries
//   - whether OpenReader cleans up on the ReadZipReader error path
//   - whether Close removes every tempFiles entry, and whether it stops at the first error
//   - the order of writer calls in writeToZip (sharedStringsLoader before sharedStringsWriter)
//   - saveFileList prepends the (non-empty) XML header
//   - readBytes promotes (Pkg.Store) and tests len(content) != 0; readXML tests content != nil

import (
	"bytes"
	"fmt"
	"go/ast"
	"go/token"
	"strings"
)

func c12Str(w *bytes.Buffer, lean, goName string) {
	e := constExpr(goName)
	if e == nil {
		fail("string constant %s", goName)
		return
	}
	v, ok := evalConst(e, 0)
	if !ok {
		fail("string constant %s (not evaluable)", goName)
		return
	}
	fmt.Fprintf(w, "def %s : String := %s\n", lean, leanStr(unq(v.ExactString())))
}

func c12Bool(b bool) string {
	if b {
		return "true"
	}
	return "false"
}

// c12Compares collects, in source order, every binary comparison in fn whose
// left operand is the identifier lhs.
func c12Compares(fn *ast.FuncDecl, lhs string) [][2]string {
	var out [][2]string
	ast.Inspect(fn.Body, func(n ast.Node) bool {
		be, ok := n.(*ast.BinaryExpr)
		if !ok {
			return true
		}
		switch be.Op {
		case token.GTR, token.GEQ, token.LSS, token.LEQ, token.EQL, token.NEQ:
			if src(be.X) == lhs {
				out = append(out, [2]string{be.Op.String(), src(be.Y)})
			}
		}
		return true
	})
	return out
}

func c12Calls(n ast.Node) []string {
	var out []string
	ast.Inspect(n, func(x ast.Node) bool {
		if ce, ok := x.(*ast.CallExpr); ok {
			out = append(out, src(ce.Fun))
		}
		return true
	})
	return out
}

func init() {
	addSection("C12", func(w *bytes.Buffer) {
		w.WriteString("/-! C12: two-tier part store (lib.go, excelize.go, file.go, cell.go, rows.go) -/\n")
		c12Str(w, "sstPath", "defaultXMLPathSharedStrings")
		c12Str(w, "ctPath", "defaultXMLPathContentTypes")
		c12Str(w, "sstTempKey", "defaultTempFileSST")
		for _, p := range [][2]string{{"defaultUnzipSizeLimit", "UnzipSizeLimit"}, {"defaultUnzipXMLSizeLimit", "StreamChunkSize"}} {
			v, ok := intConst(p[1])
			if !ok {
				fail("integer constant %s", p[1])
				v = "0"
			}
			fmt.Fprintf(w, "def %s : Nat := %s\n", p[0], v)
		}

		// ---- ReadZipReader ----
		rz := funcDecl("File", "ReadZipReader")
		if rz == nil {
			fail("func (*File) ReadZipReader")
			return
		}
		// docPart table
		var docPart [][2]string
		ast.Inspect(rz.Body, func(n ast.Node) bool {
			kv, ok := n.(*ast.KeyValueExpr)
			if !ok {
				return true
			}
			k, ok1 := kv.Key.(*ast.BasicLit)
			if !ok1 || k.Kind != token.STRING {
				return true
			}
			val, ok2 := evalConst(kv.Value, 0)
			if !ok2 {
				fail("ReadZipReader docPart value %s", src(kv.Value))
				return true
			}
			docPart = append(docPart, [2]string{unq(k.Value), unq(val.ExactString())})
			return true
		})
		if len(docPart) == 0 {
			fail("ReadZipReader docPart table")
		}
		w.WriteString("def docPart : List (String × String) := [")
		for i, p := range docPart {
			if i > 0 {
				w.WriteString(", ")
			}
			fmt.Fprintf(w, "(%s, %s)", leanStr(p[0]), leanStr(p[1]))
		}
		w.WriteString("]\n")
		// sheet prefix literal of the HasPrefix call, and that it is applied to ToLower(fileName)
		prefix, lowered := "", false
		ast.Inspect(rz.Body, func(n ast.Node) bool {
			ce, ok := n.(*ast.CallExpr)
			if !ok || src(ce.Fun) != "strings.HasPrefix" || len(ce.Args) != 2 {
				return true
			}
			if bl, ok := ce.Args[1].(*ast.BasicLit); ok {
				prefix = unq(bl.Value)
				lowered = src(ce.Args[0]) == "strings.ToLower(fileName)"
			}
			return true
		})
		if prefix == "" || !lowered {
			fail("ReadZipReader: strings.HasPrefix(strings.ToLower(fileName), <literal>)")
		}
		fmt.Fprintf(w, "def sheetPrefix : String := %s\n", leanStr(prefix))
		// backslash normalisation
		norm := false
		for _, c := range c12Calls(rz.Body) {
			if c == "strings.ReplaceAll" {
				norm = true
			}
		}
		if !strings.Contains(src(rz.Body), `strings.ReplaceAll(v.Name, "\\", "/")`) {
			norm = false
		}
		fmt.Fprintf(w, "def normBackslash : Bool := %s\n", c12Bool(norm))
		// guards
		var tot [][2]string
		for _, c := range c12Compares(rz, "unzipSize") {
			if c[1] == "f.options.UnzipSizeLimit" {
				tot = append(tot, c)
			}
		}
		if len(tot) != 1 || tot[0][1] != "f.options.UnzipSizeLimit" {
			fail("ReadZipReader: exactly one comparison `unzipSize <op> f.options.UnzipSizeLimit` (found %v)", tot)
			tot = [][2]string{{"?", ""}}
		}
		fmt.Fprintf(w, "def sizeGuardOp : String := %s\n", leanStr(tot[0][0]))
		// the size guard also rejects a negative entry size / a wrapped running total (declared sizes >= 2^63)
		negGuard := false
		ast.Inspect(rz.Body, func(n ast.Node) bool {
			if is, ok := n.(*ast.IfStmt); ok {
				c := src(is.Cond)
				if strings.HasSuffix(c, "unzipSize "+tot[0][0]+" f.options.UnzipSizeLimit") &&
					strings.HasPrefix(c, "fileSize < 0 || unzipSize < 0 || ") {
					negGuard = true
				}
			}
			return true
		})
		fmt.Fprintf(w, "def sizeGuardRejectsNegative : Bool := %s\n", c12Bool(negGuard))
		var fs [][2]string
		for _, c := range c12Compares(rz, "fileSize") {
			if c[1] == "f.options.UnzipXMLSizeLimit" {
				fs = append(fs, c)
			}
		}
		if len(fs) != 2 || fs[0][1] != "f.options.UnzipXMLSizeLimit" || fs[1][1] != "f.options.UnzipXMLSizeLimit" {
			fail("ReadZipReader: two comparisons `fileSize <op> f.options.UnzipXMLSizeLimit` (found %v)", fs)
			fs = [][2]string{{"?", ""}, {"?", ""}}
		}
		fmt.Fprintf(w, "def sstGuardOp : String := %s\n", leanStr(fs[0][0]))
		fmt.Fprintf(w, "def sheetGuardOp : String := %s\n", leanStr(fs[1][0]))
		// the accumulation `unzipSize += fileSize` precedes the guard; directory exclusion per guard
		var ifs []*ast.IfStmt
		ast.Inspect(rz.Body, func(n ast.Node) bool {
			if s, ok := n.(*ast.IfStmt); ok {
				ifs = append(ifs, s)
			}
			return true
		})
		sstDir, sheetDir, sstFold := false, false, false
		seenFS := 0
		for _, s := range ifs {
			c := src(s.Cond)
			if strings.Contains(c, "fileSize") && strings.Contains(c, "UnzipXMLSizeLimit") {
				seenFS++
				dir := strings.Contains(c, "!v.FileInfo().IsDir()")
				if seenFS == 1 {
					sstDir = dir
					sstFold = strings.Contains(c, "strings.EqualFold(fileName, defaultXMLPathSharedStrings)")
				} else {
					sheetDir = dir
				}
			}
		}
		if !sstFold {
			fail("ReadZipReader: shared-string spill guard `strings.EqualFold(fileName, defaultXMLPathSharedStrings) && fileSize > ...`")
		}
		fmt.Fprintf(w, "def sstGuardExcludesDir : Bool := %s\n", c12Bool(sstDir))
		fmt.Fprintf(w, "def sheetGuardExcludesDir : Bool := %s\n", c12Bool(sheetDir))
		body := src(rz.Body)
		// an entry first drops any earlier entry of the same name from both tiers
		iDrop1, iDrop2 := strings.Index(body, "f.tempFiles.LoadAndDelete(fileName)"), strings.Index(body, "delete(fileList, fileName)")
		iRm, iSpill := strings.Index(body, "os.Remove(path.(string))"), strings.Index(body, "f.unzipToTemp(v)")
		fmt.Fprintf(w, "def dupReplaces : Bool := %s\n", c12Bool(iDrop1 >= 0 && iRm > iDrop1 && iDrop2 > iRm && iSpill > iDrop2))
		iAcc, iGuard := strings.Index(body, "unzipSize += fileSize"), strings.Index(body, "unzipSize "+tot[0][0]+" f.options")
		fmt.Fprintf(w, "def sizeAccumulatedBeforeGuard : Bool := %s\n", c12Bool(iAcc >= 0 && iGuard > iAcc))
		iRead := strings.Index(body, "readFile(v)")
		fmt.Fprintf(w, "def sizeGuardBeforeInflate : Bool := %s\n", c12Bool(iGuard >= 0 && iRead > iGuard && strings.Index(body, "unzipToTemp(v)") > iGuard))

		// ---- checkOpenReaderOptions ----
		co := funcDecl("File", "checkOpenReaderOptions")
		if co == nil {
			fail("func (*File) checkOpenReaderOptions")
		} else {
			var conds []string
			for _, s := range co.Body.List {
				ast.Inspect(s, func(n ast.Node) bool {
					if i, ok := n.(*ast.IfStmt); ok {
						conds = append(conds, src(i.Cond))
					}
					return true
				})
			}
			w.WriteString("def optionGuards : List String := [")
			for i, c := range conds {
				if i > 0 {
					w.WriteString(", ")
				}
				w.WriteString(leanStr(c))
			}
			w.WriteString("]\n")
		}

		// ---- OpenReader: cleanup on the ReadZipReader error path ----
		or := funcDecl("", "OpenReader")
		cleanup := false
		if or == nil {
			fail("func OpenReader")
		} else {
			for i, s := range or.Body.List {
				as, ok := s.(*ast.AssignStmt)
				if !ok || len(as.Rhs) != 1 || !strings.Contains(src(as.Rhs[0]), "ReadZipReader(") {
					continue
				}
				if i+1 < len(or.Body.List) {
					if ifs, ok := or.Body.List[i+1].(*ast.IfStmt); ok && src(ifs.Cond) == "err != nil" {
						for _, c := range c12Calls(ifs.Body) {
							if c == "f.Close" {
								cleanup = true
							}
						}
					}
				}
			}
		}
		fmt.Fprintf(w, "def openErrCleanup : Bool := %s\n", c12Bool(cleanup))

		// ---- Close ----
		cl := funcDecl("File", "Close")
		removes, stops := false, false
		if cl == nil {
			fail("func (*File) Close")
		} else {
			ast.Inspect(cl.Body, func(n ast.Node) bool {
				ce, ok := n.(*ast.CallExpr)
				if !ok || src(ce.Fun) != "f.tempFiles.Range" || len(ce.Args) != 1 {
					return true
				}
				b := src(ce.Args[0])
				removes = strings.Contains(b, "os.Remove(v.(string))")
				stops = strings.Contains(b, "return false")
				return true
			})
		}
		fmt.Fprintf(w, "def closeRemovesTemp : Bool := %s\n", c12Bool(removes))
		fmt.Fprintf(w, "def closeStopsAtFirstError : Bool := %s\n", c12Bool(stops))

		// ---- writeToZip: order of the writer calls ----
		wz := funcDecl("File", "writeToZip")
		if wz == nil {
			fail("func (*File) writeToZip")
		} else {
			var order []string
			for _, s := range wz.Body.List {
				var ce *ast.CallExpr
				switch x := s.(type) {
				case *ast.ExprStmt:
					ce, _ = x.X.(*ast.CallExpr)
				case *ast.AssignStmt:
					if len(x.Rhs) == 1 {
						ce, _ = x.Rhs[0].(*ast.CallExpr)
					}
				}
				if ce == nil {
					continue
				}
				if name := src(ce.Fun); strings.HasPrefix(name, "f.") && (strings.HasSuffix(name, "Writer") || strings.HasSuffix(name, "Loader")) {
					order = append(order, strings.TrimPrefix(name, "f."))
				}
			}
			w.WriteString("def saveOrder : List String := [")
			for i, c := range order {
				if i > 0 {
					w.WriteString(", ")
				}
				w.WriteString(leanStr(c))
			}
			w.WriteString("]\n")
			b := src(wz.Body)
			// temp branch: parts only in tempFiles are written through readBytes, parts in Pkg are skipped
			tb := strings.Contains(b, "f.tempFiles.Range(") && strings.Contains(b, "if _, ok := f.Pkg.Load(path); ok") && strings.Contains(b, "fi.Write(f.readBytes(path))")
			fmt.Fprintf(w, "def zipTempBranchViaReadBytes : Bool := %s\n", c12Bool(tb))
			// the temp branch skips parts that were already written from File.streams
			iRange, iSkip, iApp := strings.Index(b, "f.tempFiles.Range("), strings.LastIndex(b, "if _, ok := f.streams[path.(string)]; ok"), strings.Index(b, "tempFiles = append(tempFiles, path.(string))")
			fmt.Fprintf(w, "def zipTempBranchSkipsStreams : Bool := %s\n", c12Bool(iRange >= 0 && iSkip > iRange && iApp > iSkip))
			// the Pkg loop skips stream parts as well, and the stream loop comes first
			iPkg, iPSkip, iPApp := strings.Index(b, "f.Pkg.Range("), strings.Index(b, "if _, ok := f.streams[path.(string)]; ok"), strings.Index(b, "files = append(files, path.(string))")
			iStreams := strings.Index(b, "range f.streams")
			fmt.Fprintf(w, "def zipPkgBranchSkipsStreams : Bool := %s\n", c12Bool(iStreams >= 0 && iPkg > iStreams && iPSkip > iPkg && iPApp > iPSkip && iRange > iPApp))
		}

		// ---- saveFileList / readBytes / readXML / sharedStringsLoader shapes ----
		sf := funcDecl("File", "saveFileList")
		hdr := sf != nil && strings.Contains(src(sf.Body), "f.Pkg.Store(name, append([]byte(xml.Header), content...))")
		fmt.Fprintf(w, "def saveFileListPrependsHeader : Bool := %s\n", c12Bool(hdr))
		rb := funcDecl("File", "readBytes")
		prom := false
		if rb == nil {
			fail("func (*File) readBytes")
		} else {
			b := src(rb.Body)
			prom = strings.Contains(b, "f.Pkg.Store(name, content)") && strings.Contains(b, "len(content) != 0") && strings.Contains(b, "f.readTemp(name)")
		}
		fmt.Fprintf(w, "def readBytesPromotes : Bool := %s\n", c12Bool(prom))
		sl := funcDecl("File", "sharedStringsLoader")
		slOK := false
		if sl == nil {
			fail("func (*File) sharedStringsLoader")
		} else {
			b := src(sl.Body)
			i1 := strings.Index(b, "f.Pkg.Store(defaultXMLPathSharedStrings, f.readBytes(defaultXMLPathSharedStrings))")
			i2 := strings.Index(b, "f.tempFiles.Delete(defaultXMLPathSharedStrings)")
			i3 := strings.Index(b, "os.Remove(path.(string))")
			i4 := strings.Index(b, "f.tempFiles.Delete(defaultTempFileSST)")
			i5 := strings.Index(b, "os.Remove(f.sharedStringTemp.Name())")
			// SharedStrings is reset in the branch that promotes the spilled table (before the index teardown)
			i6 := strings.Index(b, "f.SharedStrings = nil")
			slOK = i1 >= 0 && i2 > i1 && i3 > i2 && i4 > i3 && i5 > i4 && i6 > i3 && i6 < strings.Index(b, "if f.sharedStringTemp != nil") && strings.Count(b, "f.SharedStrings") == 1
		}
		fmt.Fprintf(w, "def sstLoaderPromotesThenRemoves : Bool := %s\n", c12Bool(slOK))
		// DeleteSheet: what it does to the two tiers
		ds := funcDecl("File", "DeleteSheet")
		if ds == nil {
			fail("func (*File) DeleteSheet")
		} else {
			b := src(ds.Body)
			fmt.Fprintf(w, "def deleteSheetDeletesPkg : Bool := %s\n", c12Bool(strings.Contains(b, "f.Pkg.Delete(sheetXML)") && strings.Contains(b, "f.Sheet.Delete(sheetXML)")))
			drops := strings.Contains(b, "f.tempFiles.Delete(sheetXML)") || strings.Contains(b, "f.tempFiles.LoadAndDelete(sheetXML)")
			fmt.Fprintf(w, "def deleteSheetDropsTemp : Bool := %s\n", c12Bool(drops))
			fmt.Fprintf(w, "def deleteSheetRemovesFile : Bool := %s\n", c12Bool(drops && strings.Contains(b, "os.Remove(")))
		}
		// callers that consult the decoded shared string table call the loader first
		needLoader := []string{"setSharedString", "SetCellRichText", "GetCellRichText"}
		w.WriteString("def loaderBeforeReader : List (String × Bool) := [")
		for i, n := range needLoader {
			fd := funcDecl("File", n)
			ok := false
			if fd != nil {
				b := src(fd.Body)
				a, r := strings.Index(b, "f.sharedStringsLoader()"), strings.Index(b, "f.sharedStringsReader()")
				ok = a >= 0 && r > a
			}
			if i > 0 {
				w.WriteString(", ")
			}
			fmt.Fprintf(w, "(%s, %s)", leanStr(n), c12Bool(ok))
		}
		w.WriteString("]\n\n")
	})
}
