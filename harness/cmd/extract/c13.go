package main

// C13 facts: the literal constants of crypt.go's compound-file writer and of
// the Encrypt/standardDecrypt framing, each taken from the *site* where the
// code uses it (locate, writeMSAT, writeSectorChains, writeDirectoryEntry,
// write, Encrypt, standardDecrypt). The Lean model XlModel.Cfb uses every
// constant at the corresponding site, so the proofs need the sites to agree
// (e.g. the mini-stream cutoff of locate, writeSectorChains, write and of the
// header field): changing one of them in crypt.go breaks a proof obligation.

import (
	"bytes"
	"fmt"
	"go/ast"
	"go/constant"
	"go/token"
	"regexp"
	"strings"
)

var c13ws = regexp.MustCompile(`\s+`)

// c13body returns the whitespace-normalised source text of a function.
func c13body(recv, name string) string {
	fd := funcDecl(recv, name)
	if fd == nil {
		fail("function %s.%s", recv, name)
		return ""
	}
	return c13ws.ReplaceAllString(src(fd), " ")
}

func c13lit(s string) (string, bool) {
	s = strings.TrimSpace(s)
	neg := false
	if strings.HasPrefix(s, "-") {
		neg, s = true, strings.TrimSpace(s[1:])
	}
	v := constant.MakeFromLiteral(s, token.INT, 0)
	if v.Kind() != constant.Int {
		return "", false
	}
	if neg {
		return "-" + v.ExactString(), true
	}
	return v.ExactString(), true
}

const c13num = `(0[xX][0-9A-Fa-f]+|[0-9]+)`

// c13pat emits one `def` per capture group of pattern `re` (with NUM standing
// for an integer literal) found in `body`. `count` = how many times the pattern
// must occur (all occurrences must carry the same literals).
func c13pat(w *bytes.Buffer, where, body, re string, count int, names ...string) {
	rx := regexp.MustCompile(strings.ReplaceAll(re, "NUM", c13num))
	ms := rx.FindAllStringSubmatch(body, -1)
	if len(ms) != count {
		fail("%s: pattern `%s` occurs %d times, expected %d", where, re, len(ms), count)
		return
	}
	for _, m := range ms[1:] {
		for i := range names {
			a, _ := c13lit(m[i+1])
			b, _ := c13lit(ms[0][i+1])
			if a != b {
				fail("%s: occurrences of `%s` disagree (%s vs %s)", where, re, m[i+1], ms[0][i+1])
				return
			}
		}
	}
	for i, n := range names {
		v, ok := c13lit(ms[0][i+1])
		if !ok {
			fail("%s: literal %q", where, ms[0][i+1])
			continue
		}
		fmt.Fprintf(w, "@[reducible] def %s : Nat := %s  -- %s: %s\n", n, v, where, strings.TrimSpace(ms[0][0]))
	}
}

func c13var(w *bytes.Buffer, goName, leanName, typ string) {
	e := constExpr(goName)
	if e == nil {
		fail("package variable %s", goName)
		return
	}
	v, ok := evalConst(e, 0)
	if !ok {
		fail("package variable %s is not a literal", goName)
		return
	}
	v = constant.ToInt(v)
	s := v.ExactString()
	if typ == "Int" && strings.HasPrefix(s, "-") {
		s = "(" + s + ")"
	}
	fmt.Fprintf(w, "@[reducible] def %s : %s := %s  -- var %s\n", leanName, typ, s, goName)
}

func init() {
	addSection("C13", func(w *bytes.Buffer) {
		w.WriteString("/-! crypt.go: compound-file writer and Encrypt/Decrypt framing constants, per use site -/\n")
		c13var(w, "difSect", "difSect", "Int")
		c13var(w, "endOfChain", "endOfChain", "Int")
		c13var(w, "fatSect", "fatSect", "Int")
		c13var(w, "iterCount", "iterCount", "Nat")
		c13var(w, "packageOffset", "packageOffset", "Nat")
		c13var(w, "packageEncryptionChunkSize", "packageEncryptionChunkSize", "Nat")
		// oleIdentifier bytes
		if e := constExpr("oleIdentifier"); e != nil {
			s := c13ws.ReplaceAllString(src(e), " ")
			rx := regexp.MustCompile(`0[xX][0-9A-Fa-f]+`)
			var xs []string
			for _, m := range rx.FindAllString(s, -1) {
				v, _ := c13lit(m)
				xs = append(xs, v)
			}
			if len(xs) != 8 {
				fail("oleIdentifier: 8 byte literals")
			}
			fmt.Fprintf(w, "def oleIdentifier : List Nat := [%s]\n", strings.Join(xs, ", "))
		} else {
			fail("package variable oleIdentifier")
		}

		b := c13body("cfb", "locate")
		w.WriteString("\n/-! (*cfb).locate -/\n")
		c13pat(w, "locate", b, `if size < NUM \{`, 1, "locCutoff")
		c13pat(w, "locate", b, `miniStreamSectorSize \+= \(size \+ NUM\) >> NUM`, 1, "locMiniAdd", "locMiniShift")
		c13pat(w, "locate", b, `FATSectorSize \+= \(size \+ NUM\) >> NUM`, 1, "locSecAdd", "locSecShift")
		c13pat(w, "locate", b, `directorySectors := \(len\(c\.paths\) \+ NUM\) >> NUM`, 1, "locDirAdd", "locDirShift")
		c13pat(w, "locate", b, `miniStreamSectors := \(miniStreamSectorSize \+ NUM\) >> NUM`, 1, "locMssAdd", "locMssShift")
		c13pat(w, "locate", b, `miniFATSectors := \(miniStreamSectorSize \+ NUM\) >> NUM`, 1, "locMfAdd", "locMfShift")
		c13pat(w, "locate", b, `sectors := miniStreamSectors \+ FATSectorSize \+ directorySectors \+ miniFATSectors FATSectors := \(sectors \+ NUM\) >> NUM`, 1, "locFatAdd", "locFatShift")
		c13pat(w, "locate", b, `DIFATSectors := 0 if FATSectors > NUM \{ DIFATSectors = int\(math\.Ceil\(\(float64\(FATSectors\) - NUM\) / NUM\)\) \}`, 1, "locDifatHdr", "locDifatSub", "locDifatDiv")
		c13pat(w, "locate", b, `for \(\(sectors \+ FATSectors \+ DIFATSectors \+ NUM\) >> NUM\) > FATSectors \{ FATSectors\+\+ if FATSectors <= NUM \{ DIFATSectors = 0 \} else \{ DIFATSectors = int\(math\.Ceil\(\(float64\(FATSectors\) - NUM\) / NUM\)\) \} \}`, 1,
			"locLoopAdd", "locLoopShift", "locLoopHdr", "locLoopSub", "locLoopDiv")
		c13pat(w, "locate", b, `location := \[\]int\{NUM, DIFATSectors, FATSectors, miniFATSectors, directorySectors, FATSectorSize, miniStreamSectorSize, 0\}`, 1, "locHeaderSectors")
		c13pat(w, "locate", b, `c\.sectors\[0\]\.size = miniStreamSectorSize << NUM`, 1, "locRootSizeShift")
		c13pat(w, "locate", b, `c\.sectors\[0\]\.start = location\[0\] \+ location\[1\] \+ location\[2\] \+ location\[3\] \+ location\[4\] \+ location\[5\] location\[7\] = c\.sectors\[0\]\.start \+ \(\(location\[6\] \+ NUM\) >> NUM\)`, 1, "locTotAdd", "locTotShift")

		b = c13body("cfb", "writeMSAT")
		w.WriteString("\n/-! (*cfb).writeMSAT -/\n")
		c13pat(w, "writeMSAT", b, `for i = 0; i < NUM; i\+\+ \{ if i < location\[2\] \{ c\.writeUint32\(location\[1\] \+ i\) \} else \{ c\.writeUint32\(-1\) \} \}`, 1, "msatHdr")
		c13pat(w, "writeMSAT", b, `for ; i < NUM\+offset\*NUM; i\+\+ \{ if i < location\[2\] \{ c\.writeUint32\(location\[1\] \+ i\) \} else \{ c\.writeUint32\(-1\) \} \} if offset == location\[1\]-1 \{ c\.writeUint32\(endOfChain\) \} else \{ c\.writeUint32\(offset \+ 1\) \}`, 1, "msatFirst", "msatPer")

		b = c13body("cfb", "writeSectorChains")
		w.WriteString("\n/-! (*cfb).writeSectorChains -/\n")
		c13pat(w, "writeSectorChains", b, `if sectorSize = len\(sector\.content\); sectorSize < NUM \{ continue \} c\.sectors\[j\]\.start = offset offset = writeSectorChain\(\(sectorSize\+NUM\)>>NUM, offset\)`, 1, "chCutoffBig", "chSecAdd", "chSecShift")
		c13pat(w, "writeSectorChains", b, `writeSectorChain\(\(location\[6\]\+NUM\)>>NUM, offset\)`, 1, "chMssAdd", "chMssShift")
		c13pat(w, "writeSectorChains", b, `for c\.position&NUM != 0 \{ c\.writeUint32\(endOfChain\) \}`, 2, "chPadMask")
		c13pat(w, "writeSectorChains", b, `sectorSize == 0 \|\| sectorSize >= NUM \{ continue \}`, 1, "chCutoffMini")
		c13pat(w, "writeSectorChains", b, `\.start = offset offset = writeSectorChain\(\(sectorSize\+NUM\)>>NUM, offset\) \} for c\.position`, 1, "chMiniAdd", "chMiniShift")
		// which variable receives the mini-stream start (the C13 defect was a value copy)
		if regexp.MustCompile(`c\.sectors\[j\]\.start = offset offset = writeSectorChain\(\(sectorSize\+` + c13num + `\)>>` + c13num + `, offset\) \} for c\.position`).MatchString(b) {
			w.WriteString("def chMiniStartStored : Bool := true  -- writeSectorChains: mini-stream start assigned to c.sectors[j]\n")
		} else if regexp.MustCompile(` sector\.start = offset offset = writeSectorChain\(\(sectorSize\+` + c13num + `\)>>` + c13num + `, offset\) \} for c\.position`).MatchString(b) {
			w.WriteString("def chMiniStartStored : Bool := false  -- writeSectorChains: mini-stream start assigned to a local copy\n")
		} else {
			fail("writeSectorChains: assignment of the mini-stream start")
		}
		if !strings.Contains(b, `for offset += location[1]; i < offset; i++ { c.writeUint32(difSect) } for offset += location[2]; i < offset; i++ { c.writeUint32(fatSect) } offset = writeSectorChain(location[3], offset) offset = writeSectorChain(location[4], offset)`) {
			fail("writeSectorChains: order DIFAT, FAT, miniFAT, directory")
		}
		if !strings.Contains(b, `writeSectorChain := func(head, offset int) int { for offset += head; i < offset-1; i++ { c.writeUint32(i + 1) } if head != 0 { i++ c.writeUint32(endOfChain) } return offset }`) {
			fail("writeSectorChains: writeSectorChain closure")
		}

		b = c13body("cfb", "writeDirectoryEntry")
		w.WriteString("\n/-! (*cfb).writeDirectoryEntry -/\n")
		c13pat(w, "writeDirectoryEntry", b, `for i := 0; i < location\[4\]<<NUM; i\+\+`, 1, "dirEntShift")
		if !strings.Contains(b, `if i == 0 { if sector.size > 0 { sector.start = sector.start - 1 } else { sector.start = endOfChain } }`) {
			fail("writeDirectoryEntry: root start adjustment")
		}

		b = c13body("cfb", "write")
		w.WriteString("\n/-! (*cfb).write -/\n")
		c13pat(w, "write", b, `c\.stream = make\(\[\]byte, location\[7\]<<NUM\)`, 1, "wrLenShift")
		c13pat(w, "write", b, `c\.writeUint16\(NUM\) c\.writeUint16\(NUM\) c\.writeUint16\(NUM\) c\.writeUint16\(NUM\) c\.writeUint16\(NUM\) c\.writeBytes\(make\(\[\]byte, NUM\)\)`, 1,
			"wrMinor", "wrMajor", "wrByteOrder", "wrSecShiftField", "wrMiniShiftField", "wrReserved")
		c13pat(w, "write", b, `c\.writeUint32\(0\) c\.writeUint32\(1 << NUM\)`, 1, "wrCutoffLog")
		c13pat(w, "write", b, `if sector\.size >= NUM \{ c\.position = \(sector\.start \+ 1\) << NUM`, 1, "wrCutoffBig", "wrPosShift")
		c13pat(w, "write", b, `for ; j&NUM != 0; j\+\+ \{ c\.writeBytes\(\[\]byte\{0\}\) \} \} \} for i = 1`, 1, "wrSecMask")
		c13pat(w, "write", b, `if sector\.size > 0 && sector\.size < NUM \{`, 1, "wrCutoffMini")
		c13pat(w, "write", b, `for ; j&NUM != 0; j\+\+ \{ c\.writeBytes\(\[\]byte\{0\}\) \} \} \} for c\.position`, 1, "wrMiniMask")
		if !strings.Contains(b, `c.writeUint32(location[2]) c.writeUint32(location[0] + location[1] + location[2] + location[3] - 1) c.writeUint32(0)`) {
			fail("write: header FAT count / first directory sector")
		}
		if !strings.Contains(b, `if location[3] != 0 { c.writeUint32(location[0] + location[1] + location[2] - 1) } else { c.writeUint32(endOfChain) } c.writeUint32(location[3]) if location[1] != 0 { c.writeUint32(location[0] - 1) } else { c.writeUint32(endOfChain) } c.writeUint32(location[1])`) {
			fail("write: header miniFAT / DIFAT fields")
		}

		b = c13body("", "Encrypt")
		w.WriteString("\n/-! Encrypt / (*encryption).encrypt / standardDecrypt framing -/\n")
		c13pat(w, "Encrypt", b, `encryptedPackage := make\(\[\]byte, NUM\) binary\.LittleEndian\.PutUint64\(encryptedPackage, uint64\(len\(raw\)\)\)`, 1, "encPrefix")
		c13pat(w, "Encrypt", b, `BlockSize: NUM,`, 1, "encBlock")
		c13pat(w, "Encrypt", b, `KeyBits: NUM,`, 1, "encKeyBits")
		b = c13body("", "standardDecrypt")
		c13pat(w, "standardDecrypt", b, `x := encryptedPackageBuf\[NUM:\]`, 1, "decOffset")
		c13pat(w, "standardDecrypt", b, `size := NUM for bs, be := 0, size; bs < len\(x\); bs, be = bs\+size, be\+size \{ blob\.Decrypt\(decrypted\[bs:be\], x\[bs:be\]\) \}`, 1, "decBlock")
		// does standardDecrypt cut the plaintext to the recorded length prefix?
		if strings.Contains(b, `binary.LittleEndian.Uint64(encryptedPackageBuf[:`) {
			c13pat(w, "standardDecrypt", b, `binary\.LittleEndian\.Uint64\(encryptedPackageBuf\[:NUM\]\); size < uint64\(len\(decrypted\)\) \{ decrypted = decrypted\[:size\] \}`, 1, "decPrefix")
			w.WriteString("def decTruncates : Bool := true  -- standardDecrypt cuts the output to the recorded length\n")
		} else {
			w.WriteString("@[reducible] def decPrefix : Nat := 0\ndef decTruncates : Bool := false  -- standardDecrypt returns every decrypted block\n")
		}
		// standardDecrypt / standardEncryptionVerifier / standardConvertPasswdToKey length guards and slices
		w.WriteString("\n/-! standard encryption: EncryptionInfo guards (standardDecrypt, standardEncryptionVerifier) -/\n")
		c13pat(w, "standardDecrypt", b, `if len\(encryptionInfoBuf\) < NUM \|\| len\(encryptedPackageBuf\) < NUM \{ return nil, ErrWorkbookFileFormat \}`, 1, "sdInfoMin", "sdPkgMin")
		c13pat(w, "standardDecrypt", b, `encryptionHeaderSize := int\(binary\.LittleEndian\.Uint32\(encryptionInfoBuf\[NUM:NUM\]\)\)`, 1, "sdHsLo", "sdHsHi")
		c13pat(w, "standardDecrypt", b, `if encryptionHeaderSize < NUM \|\| encryptionHeaderSize > len\(encryptionInfoBuf\)-NUM \{ return nil, ErrWorkbookFileFormat \}`, 1, "sdHdrMin", "sdHdrBase")
		c13pat(w, "standardDecrypt", b, `block := encryptionInfoBuf\[NUM : NUM\+encryptionHeaderSize\]`, 1, "sdBlockLo", "sdBlockLo2")
		c13pat(w, "standardDecrypt", b, `AlgID: binary\.LittleEndian\.Uint32\(block\[NUM:NUM\]\)`, 1, "sdAlgLo", "sdAlgHi")
		c13pat(w, "standardDecrypt", b, `KeySize: binary\.LittleEndian\.Uint32\(block\[NUM:NUM\]\)`, 1, "sdKeyLo", "sdKeyHi")
		c13pat(w, "standardDecrypt", b, `Reserved2: binary\.LittleEndian\.Uint32\(block\[NUM:NUM\]\), CspName: string\(block\[NUM:\]\)`, 1, "sdResLo", "sdResHi", "sdCspLo")
		c13pat(w, "standardDecrypt", b, `block = encryptionInfoBuf\[NUM\+encryptionHeaderSize:\]`, 1, "sdRestLo")
		c13pat(w, "standardDecrypt", b, `algIDMap := map\[uint32\]string\{ NUM: "AES-128", NUM: "AES-192", NUM: "AES-256", \}`, 1, "sdAes128", "sdAes192", "sdAes256")
		c13pat(w, "standardDecrypt", b, `if verifierSize := map\[string\]int\{"RC4": NUM, "AES": NUM\}\[algorithm\]; len\(block\) < verifierSize \{ return nil, ErrWorkbookFileFormat \}`, 1, "sdVerifierRC4", "sdVerifierAES")
		if !strings.Contains(b, `algorithm := "AES" _, ok := algIDMap[header.AlgID] if !ok { algorithm = "RC4" }`) {
			fail("standardDecrypt: algorithm selection")
		}
		if !strings.Contains(b, `blob, err := aes.NewCipher(secretKey) if err != nil { return nil, err } if len(x)%aes.BlockSize != 0 { return nil, ErrWorkbookFileFormat }`) {
			fail("standardDecrypt: cipher and block-length guards")
		}
		b2 := c13body("", "standardEncryptionVerifier")
		c13pat(w, "standardEncryptionVerifier", b2, `SaltSize: binary\.LittleEndian\.Uint32\(blob\[:NUM\]\), Salt: blob\[NUM:NUM\], EncryptedVerifier: blob\[NUM:NUM\], VerifierHashSize: binary\.LittleEndian\.Uint32\(blob\[NUM:NUM\]\),`, 1,
			"svSaltSizeHi", "svSaltLo", "svSaltHi", "svVerLo", "svVerHi", "svHsLo", "svHsHi")
		c13pat(w, "standardEncryptionVerifier", b2, `if algorithm == "RC4" \{ verifier\.EncryptedVerifierHash = blob\[NUM:NUM\] \} else if algorithm == "AES" \{ verifier\.EncryptedVerifierHash = blob\[NUM:NUM\] \}`, 1,
			"svHashLoRC4", "svHashHiRC4", "svHashLoAES", "svHashHiAES")
		b2 = c13body("", "standardConvertPasswdToKey")
		if !strings.Contains(b2, `cbRequiredKeyLength := int(header.KeySize) / 8`) || !strings.Contains(b2, `x3 := append(x1, x2...) if cbRequiredKeyLength > len(x3) { return nil, ErrWorkbookFileFormat } keyDerived := x3[:cbRequiredKeyLength]`) {
			fail("standardConvertPasswdToKey: derived key length guard")
		}
		b2 = c13body("", "encryptionMechanism")
		if !strings.Contains(b2, `if len(buffer) < 4 { err = ErrUnknownEncryptMechanism return }`) ||
			!strings.Contains(b2, `if versionMajor == 4 && versionMinor == 4 { mechanism = "agile" return } else if (2 <= versionMajor && versionMajor <= 4) && versionMinor == 2 { mechanism = "standard" return } else if (versionMajor == 3 || versionMajor == 4) && versionMinor == 3 { mechanism = "extensible" } err = ErrUnsupportedEncryptMechanism`) {
			fail("encryptionMechanism: version table")
		}
		b = c13body("encryption", "standardKeyEncryption")
		// the EncryptionInfo stream written by standardKeyEncryption: fixed fields in order, provider name, tail
		{
			w.WriteString("\n/-! (*encryption).standardKeyEncryption: layout of the EncryptionInfo stream -/\n")
			i1, i2 := strings.Index(b, "var storage cfb"), strings.Index(b, "providerName :=")
			rx := regexp.MustCompile(`storage\.writeUint(16|32|64)\(` + c13num + `\)`)
			emit := func(name, part string, want int) {
				ms := rx.FindAllStringSubmatch(part, -1)
				if len(ms) != want {
					fail("standardKeyEncryption: %s: %d fixed fields, expected %d", name, len(ms), want)
				}
				var xs []string
				for _, m := range ms {
					v, _ := c13lit(m[2])
					sz := map[string]string{"16": "2", "32": "4", "64": "8"}[m[1]]
					xs = append(xs, "("+sz+", "+v+")")
				}
				fmt.Fprintf(w, "def %s : List (Nat × Nat) := [%s]\n", name, strings.Join(xs, ", "))
			}
			if i1 < 0 || i2 < i1 {
				fail("standardKeyEncryption: header statements")
			} else {
				emit("skeHead", b[i1:i2], 11)
				i3 := strings.Index(b, "storage.writeStrings(providerName)")
				i4 := strings.Index(b, "keyDataSaltValue, _ := randomBytes(")
				if i3 < 0 || i4 < i3 {
					fail("standardKeyEncryption: provider name / salt statements")
				} else {
					emit("skeMid", b[i3:i4], 2)
				}
				if m := regexp.MustCompile(`providerName := "([^"]*)" storage\.writeStrings\(providerName\)`).FindStringSubmatch(b); m != nil {
					fmt.Fprintf(w, "def skeProvider : String := %s\n", leanStr(m[1]))
				} else {
					fail("standardKeyEncryption: providerName literal")
				}
			}
			c13pat(w, "standardKeyEncryption", b, `keyDataSaltValue, _ := randomBytes\(NUM\) verifierHashInput, _ := randomBytes\(NUM\)`, 1, "skeSaltLen", "skeVerifierLen")
			c13pat(w, "standardKeyEncryption", b, `storage\.writeBytes\(e\.SaltValue\) storage\.writeBytes\(e\.EncryptedVerifierHashInput\) storage\.writeUint32\(NUM\) storage\.writeBytes\(e\.EncryptedVerifierHashValue\)`, 1, "skeHashSize")
			for _, pat := range []string{
				`e.SaltValue = keyDataSaltValue e.EncryptedKeyValue, _ = standardConvertPasswdToKey( StandardEncryptionHeader{KeySize: e.KeyBits}, StandardEncryptionVerifier{Salt: e.SaltValue}, &Options{Password: password})`,
				`verifierHashInputKey := hashing("sha1", verifierHashInput) e.EncryptedVerifierHashInput = e.encrypt(verifierHashInput) e.EncryptedVerifierHashValue = e.encrypt(verifierHashInputKey)`,
			} {
				if !strings.Contains(b, pat) {
					fail("standardKeyEncryption: `%s`", pat)
				}
			}
		}
		if !strings.Contains(b, `if len(password) == 0 || len(password) > MaxFieldLength { return nil, ErrPasswordLengthInvalid }`) {
			fail("standardKeyEncryption: password length guard")
		}
		// agile package decryption: segment loop and IV construction (model XlModel.Crypt.agileLoop)
		b = c13body("", "decryptPackage")
		for _, pat := range []string{
			`encryptedKey, offset := encryption.KeyData, packageOffset`,
			`data := input[offset:]`,
			`for i, start := 0, 0; start < len(data); i, start = i+1, start+packageEncryptionChunkSize { end := start + packageEncryptionChunkSize if end > len(data) { end = len(data) }`,
			`inputChunk := data[start:end]`,
			`remainder := len(inputChunk) % encryptedKey.BlockSize if remainder != 0 { inputChunk = append(inputChunk, make([]byte, encryptedKey.BlockSize-remainder)...) }`,
			`iv, err = createIV(i, encryption)`,
			`outputChunk, err = decrypt(packageKey, iv, inputChunk)`,
			`outputChunks = append(outputChunks, outputChunk...) } return }`,
		} {
			if !strings.Contains(b, pat) {
				fail("decryptPackage: `%s`", pat)
			}
		}
		b = c13body("", "createIV")
		for _, pat := range []string{
			`blockKeyBuf = createUInt32LEBuffer(blockKey.(int), 4)`,
			`iv := hashing(encryptedKey.HashAlgorithm, append(saltValue, blockKeyBuf...))`,
			`} else if len(iv) > encryptedKey.BlockSize { iv = iv[:encryptedKey.BlockSize] }`,
		} {
			if !strings.Contains(b, pat) {
				fail("createIV: `%s`", pat)
			}
		}
		b = c13body("", "checkAgileEncryptionInfo")
		if !strings.Contains(b, `if encryption.KeyData.BlockSize != aes.BlockSize {`) {
			fail("checkAgileEncryptionInfo: block size must be the AES block size")
		}
		// password -> UTF-16LE (model XlModel.Crypt.utf16le): both key derivations use the x/text encoder on the raw password
		for _, fn := range []string{"standardConvertPasswdToKey", "convertPasswdToKey"} {
			b = c13body("", fn)
			if !strings.Contains(b, `encoder := unicode.UTF16(unicode.LittleEndian, unicode.IgnoreBOM).NewEncoder() passwordBuffer, err := encoder.Bytes([]byte(`) {
				fail("%s: UTF-16LE encoder of the password", fn)
			}
		}
		b = c13body("", "standardConvertPasswdToKey")
		if !strings.Contains(b, `key := hashing("sha1", verifier.Salt, passwordBuffer) for i := 0; i < iterCount; i++ { iterator := createUInt32LEBuffer(i, 4) key = hashing("sha1", iterator, key) }`) {
			fail("standardConvertPasswdToKey: salt || UTF-16LE(password), then iterCount rounds")
		}
		// key derivation composition (model XlModel.Crypt.standardKey / agileKey)
		b = c13body("", "standardConvertPasswdToKey")
		for _, pat := range []string{
			`var block int hFinal := hashing("sha1", key, createUInt32LEBuffer(block, 4))`,
			`cbHash := sha1.Size buf1 := bytes.Repeat([]byte{0x36}, 64) buf1 = append(standardXORBytes(hFinal, buf1[:cbHash]), buf1[cbHash:]...) x1 := hashing("sha1", buf1)`,
			`buf2 := bytes.Repeat([]byte{0x5c}, 64) buf2 = append(standardXORBytes(hFinal, buf2[:cbHash]), buf2[cbHash:]...) x2 := hashing("sha1", buf2) x3 := append(x1, x2...)`,
		} {
			if !strings.Contains(b, pat) {
				fail("standardConvertPasswdToKey: `%s`", pat)
			}
		}
		b = c13body("", "convertPasswdToKey")
		for _, pat := range []string{
			`b.Write(saltValue)`,
			`b.Write(passwordBuffer) // Generate the initial hash. key = hashing(encryption.KeyData.HashAlgorithm, b.Bytes())`,
			`for i := 0; i < encryption.KeyEncryptors.KeyEncryptor[0].EncryptedKey.SpinCount; i++ { iterator := createUInt32LEBuffer(i, 4) key = hashing(encryption.KeyData.HashAlgorithm, iterator, key) }`,
			`key = hashing(encryption.KeyData.HashAlgorithm, key, blockKey)`,
			`keyBytes := encryption.KeyEncryptors.KeyEncryptor[0].EncryptedKey.KeyBits / 8 if len(key) < keyBytes { tmp := make([]byte, 0x36) key = append(key, tmp...) } else if len(key) > keyBytes { key = key[:keyBytes] }`,
		} {
			if !strings.Contains(b, pat) {
				fail("convertPasswdToKey: `%s`", pat)
			}
		}
		b = c13body("", "createUInt32LEBuffer")
		if !strings.Contains(b, `buf := make([]byte, bufferSize) binary.LittleEndian.PutUint32(buf, uint32(value))`) {
			fail("createUInt32LEBuffer")
		}
		// the hash is a pure function of its input in the model: `hashing` must allocate its hash objects per
		// call (no package-level hash state shared between key derivations, which would also be shared between
		// goroutines), and standardXORBytes must not modify its arguments (hFinal is used for X1 and X2)
		b = c13body("", "hashing")
		perCall := strings.Contains(b, `hashMap := map[string]hash.Hash{ "md4": md4.New(), "md5": md5.New(), "ripemd-160": ripemd160.New(), "sha1": sha1.New(), "sha256": sha256.New(), "sha384": sha512.New384(), "sha512": sha512.New(), }`) &&
			strings.Contains(b, `handler, ok := hashMap[strings.ToLower(hashAlgorithm)] if !ok { return key } for _, buf := range buffer { _, _ = handler.Write(buf) } key = handler.Sum(nil)`)
		if f, ok := files["crypt.go"]; ok {
			for _, d := range f.Decls {
				gd, isGen := d.(*ast.GenDecl)
				if !isGen || gd.Tok != token.VAR {
					continue
				}
				txt := c13ws.ReplaceAllString(src(gd), " ")
				if strings.Contains(txt, "hash.Hash") || regexp.MustCompile(`(md4|md5|ripemd160|sha1|sha256|sha512)\.New`).MatchString(txt) {
					perCall = false
				}
			}
		}
		if perCall {
			w.WriteString("def hashingPerCall : Bool := true  -- hashing: hash objects allocated per call, no package-level hash state\n")
		} else {
			w.WriteString("def hashingPerCall : Bool := false  -- hashing: hash state is shared between calls (package level) or the body changed\n")
		}
		b = c13body("", "standardXORBytes")
		if strings.Contains(b, `buf := make([]byte, len(a)) for p, q := range r { buf[p] = q[0] ^ q[1] } return buf`) && !regexp.MustCompile(`\ba\[[^\]]*\] *(\^|=[^=])`).MatchString(strings.SplitN(b, "{", 2)[1]) {
			w.WriteString("def xorBytesPure : Bool := true  -- standardXORBytes returns a fresh slice and does not write to its arguments\n")
		} else {
			w.WriteString("def xorBytesPure : Bool := false  -- standardXORBytes writes to an argument or its body changed\n")
		}
		// OpenReader: error mapping (model XlModel.Crypt.openReader)
		b = c13body("", "OpenReader")
		for _, pat := range []string{
			`if bytes.Contains(b, oleIdentifier) { if b, err = Decrypt(b, f.options); err != nil { return nil, ErrWorkbookFileFormat } }`,
			`zr, err := zip.NewReader(bytes.NewReader(b), int64(len(b))) if err != nil { if len(f.options.Password) > 0 { return nil, ErrWorkbookPassword } return nil, err }`,
			`file, sheetCount, err := f.ReadZipReader(zr) if err != nil {`,
			`_ = f.Close() return nil, err }`,
		} {
			if !strings.Contains(b, pat) {
				fail("OpenReader: `%s`", pat)
			}
		}
		w.WriteString("def agileLoopPresent : Bool := true  -- decryptPackage / createIV statements matched\n")
		b = c13body("encryption", "encrypt")
		if !strings.Contains(b, `if pad := inputBytes % e.BlockSize; pad != 0 { inputBytes += e.BlockSize - pad }`) ||
			!strings.Contains(b, `for i := 0; i < inputBytes; i += e.BlockSize {`) ||
			!strings.Contains(b, `chunk = append(chunk, make([]byte, e.BlockSize-len(chunk))...)`) {
			fail("encrypt: block padding loop")
		}
	})
}
