package main

// C14 facts: the guards and the literal slice bounds that the Decode model
// transcribes. For each anchored function the extractor emits the source text
// (whitespace-normalised) of every `if` condition and of every slice expression,
// in source order. Props/C14.lean pins the ones the model depends on, so that
// editing a guard or an offset in the Go source breaks a proof obligation.

import (
	"bytes"
	"fmt"
	"go/ast"
	"strings"
)

func c14Norm(s string) string { return strings.Join(strings.Fields(s), " ") }

func c14Collect(recv, name string) (conds, slices []string, ok bool) {
	fd := funcDecl(recv, name)
	if fd == nil || fd.Body == nil {
		return nil, nil, false
	}
	ast.Inspect(fd.Body, func(n ast.Node) bool {
		switch x := n.(type) {
		case *ast.IfStmt:
			c := c14Norm(src(x.Cond))
			if x.Init != nil { // `if found = a && b; found {`: the guard lives in the init statement
				c = c14Norm(src(x.Init)) + "; " + c
			}
			conds = append(conds, c)
		case *ast.SliceExpr:
			slices = append(slices, c14Norm(src(x)))
		case *ast.IndexExpr:
			slices = append(slices, c14Norm(src(x)))
		}
		return true
	})
	return conds, slices, true
}

func c14List(w *bytes.Buffer, name string, xs []string) {
	fmt.Fprintf(w, "def %s : List String := [", name)
	for i, x := range xs {
		if i > 0 {
			w.WriteString(", ")
		}
		w.WriteString(leanStr(x))
	}
	w.WriteString("]\n")
}

func init() {
	addSection("C14", func(w *bytes.Buffer) {
		w.WriteString("/-! guards (if conditions) and index/slice expressions of the functions the Decode model transcribes -/\n")
		for _, fn := range [][3]string{
			{"xlsxWorksheet", "checkSheet", "checkSheet"},
			{"xlsxWorksheet", "checkSheetR0", "checkSheetR0"},
			{"xlsxWorksheet", "checkRow", "checkRow"},
			{"xlsxC", "getValueFrom", "getValueFrom"},
			{"File", "formattedValue", "formattedValue"},
			{"File", "getFromStringItem", "getFromStringItem"},
			{"", "encryptionMechanism", "encryptionMechanism"},
			{"", "standardDecrypt", "standardDecrypt"},
			{"", "standardEncryptionVerifier", "standardEncryptionVerifier"},
			{"", "standardConvertPasswdToKey", "standardConvertPasswdToKey"},
			{"Rows", "Next", "rowsNext"},
			{"Rows", "Columns", "rowsColumns"},
			// sites repaired in round 2 and modelled in round 3
			{"File", "GetStyle", "GetStyle"},
			{"File", "getActiveSheetID", "getActiveSheetID"},
			{"File", "readDefaultFont", "readDefaultFont"},
			{"File", "GetDefaultFont", "GetDefaultFont"},
			{"", "ThemeColor", "ThemeColor"},
			{"File", "GetComments", "GetComments"},
			{"", "getCellRichText", "getCellRichText"},
			{"File", "extractCondFmtCellIs", "extractCondFmtCellIs"},
			{"xlsxWorksheet", "mergeCellsParser", "mergeCellsParser"},
			{"", "cellInRange", "cellInRange"},
			{"xlsxMergeCell", "Rect", "mergeCellRect"},
			{"", "bstrUnmarshal", "bstrUnmarshal"},
			{"File", "GetRows", "GetRows"},
			{"", "isOverlap", "isOverlap"},
			{"", "mergeCell", "mergeCell"},
			{"", "flatMergedCells", "flatMergedCells"},
			{"File", "mergeOverlapCells", "mergeOverlapCells"},
			{"", "checkCompoundFileHeader", "checkCompoundFileHeader"},
			{"", "extractPartLimit", "extractPartLimit"},
			{"", "agileDecrypt", "agileDecrypt"},
			{"", "checkAgileEncryptionInfo", "checkAgileEncryptionInfo"},
			{"", "convertPasswdToKey", "convertPasswdToKey"},
			{"", "decrypt", "decrypt"},
			{"", "decryptPackage", "decryptPackage"},
			{"", "createIV", "createIV"},
		} {
			conds, slices, ok := c14Collect(fn[0], fn[1])
			if !ok {
				fail("function %s.%s", fn[0], fn[1])
				continue
			}
			c14List(w, "conds_"+fn[2], conds)
			c14List(w, "index_"+fn[2], slices)
		}
		// extractStyleCondFuncs: the conditions under which GetStyle indexes the fill / border / font tables
		if e := constExpr("extractStyleCondFuncs"); e != nil {
			var entries []string
			if cl, ok := e.(*ast.CompositeLit); ok {
				for _, el := range cl.Elts {
					if kv, ok := el.(*ast.KeyValueExpr); ok {
						if fl, ok := kv.Value.(*ast.FuncLit); ok && len(fl.Body.List) == 1 {
							entries = append(entries, c14Norm(src(kv.Key))+": "+c14Norm(src(fl.Body.List[0])))
						}
					}
				}
			}
			c14List(w, "extractStyleCondFuncs", entries)
		} else {
			fail("var extractStyleCondFuncs")
		}
		// ReadZipReader: the size accounting must precede the spill-to-disk branches
		if fd := funcDecl("File", "ReadZipReader"); fd != nil && fd.Body != nil {
			conds, _, _ := c14Collect("File", "ReadZipReader")
			c14List(w, "conds_ReadZipReader", conds)
			var stmts []string
			ast.Inspect(fd.Body, func(n ast.Node) bool {
				if rs, ok := n.(*ast.RangeStmt); ok && stmts == nil {
					for _, st := range rs.Body.List {
						if is, ok := st.(*ast.IfStmt); ok {
							c := c14Norm(src(is.Cond))
							if is.Init != nil {
								c = c14Norm(src(is.Init)) + "; " + c
							}
							stmts = append(stmts, "if "+c)
						} else {
							stmts = append(stmts, c14Norm(src(st)))
						}
					}
					return false
				}
				return true
			})
			c14List(w, "stmts_ReadZipReader_loop", stmts)
		} else {
			fail("function File.ReadZipReader")
		}
		// workSheetReader must return checkSheet's and checkRow's errors
		if conds, _, ok := c14Collect("File", "workSheetReader"); ok {
			c14List(w, "conds_workSheetReader", conds)
		} else {
			fail("function File.workSheetReader")
		}
		w.WriteString("\n")
	})
}
