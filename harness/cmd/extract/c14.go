package main

// C14 facts: the guards and the literal slice bounds that the Decode model
// transcribes. For each anchored function the extractor emits the source text
// (whitespace-normalised) of every `if` condition and of every slice expression,
// in source order. Props/C14.lean pins the ones the model depends on, so that
// editing a guard or an offset in the Go source breaks a proof obligation.

import (
	"bytes"
	"fmt"
	"go/ast"
	"strings"
)

func c14Norm(s string) string { return strings.Join(strings.Fields(s), " ") }

func c14Collect(recv, name string) (conds, slices []string, ok bool) {
	fd := funcDecl(recv, name)
	if fd == nil || fd.Body == nil {
		return nil, nil, false
	}
	ast.Inspect(fd.Body, func(n ast.Node) bool {
		switch x := n.(type) {
		case *ast.IfStmt:
			c := c14Norm(src(x.Cond))
			if x.Init != nil { // `if found = a && b; found {`: the guard lives in the init statement
				c = c14Norm(src(x.Init)) + "; " + c
			}
			conds = append(conds, c)
		case *ast.SliceExpr:
			slices = append(slices, c14Norm(src(x)))
		case *ast.IndexExpr:
			slices = append(slices, c14Norm(src(x)))
		}
		return true
	})
	return conds, slices, true
}

func c14List(w *bytes.Buffer, name string, xs []string) {
	fmt.Fprintf(w, "def %s : List String := [", name)
	for i, x := range xs {
		if i > 0 {
			w.WriteString(", ")
		}
		w.WriteString(leanStr(x))
	}
	w.WriteString("]\n")
}

func init() {
	addSection("C14", func(w *bytes.Buffer) {
		w.WriteString("/-! guards (if conditions) and index/slice expressions of the functions the Decode model transcribes -/\n")
		for _, fn := range [][3]string{
			{"xlsxWorksheet", "checkSheet", "checkSheet"},
			{"xlsxWorksheet", "checkSheetR0", "checkSheetR0"},
			{"xlsxWorksheet", "checkRow", "checkRow"},
			{"xlsxC", "getValueFrom", "getValueFrom"},
			{"File", "formattedValue", "formattedValue"},
			{"File", "getFromStringItem", "getFromStringItem"},
			{"", "encryptionMechanism", "encryptionMechanism"},
			{"", "standardDecrypt", "standardDecrypt"},
			{"", "standardEncryptionVerifier", "standardEncryptionVerifier"},
			{"", "standardConvertPasswdToKey", "standardConvertPasswdToKey"},
			{"Rows", "Next", "rowsNext"},
			{"Rows", "Columns", "rowsColumns"},
			// sites repaired in round 2 and modelled in round 3
			{"File", "GetStyle", "GetStyle"},
			{"File", "getActiveSheetID", "getActiveSheetID"},
			{"File", "readDefaultFont", "readDefaultFont"},
			{"File", "GetDefaultFont", "GetDefaultFont"},
			{"", "ThemeColor", "ThemeColor"},
			{"File", "GetComments", "GetComments"},
			{"", "getCellRichText", "getCellRichText"},
			{"File", "extractCondFmtCellIs", "extractCondFmtCellIs"},
			{"xlsxWorksheet", "mergeCellsParser", "mergeCellsParser"},
			{"", "cellInRange", "cellInRange"},
			{"xlsxMergeCell", "Rect", "mergeCellRect"},
			{"", "bstrUnmarshal", "bstrUnmarshal"},
			{"File", "GetRows", "GetRows"},
			{"File", "getImageCellRel", "getImageCellRel"},
			{"", "namespaceStrictToTransitional", "nsStrict"},
			{"", "isOverlap", "isOverlap"},
			{"", "mergeCell", "mergeCell"},
			{"", "flatMergedCells", "flatMergedCells"},
			{"File", "mergeOverlapCells", "mergeOverlapCells"},
			{"", "checkCompoundFileHeader", "checkCompoundFileHeader"},
			{"", "extractPartLimit", "extractPartLimit"},
			{"", "agileDecrypt", "agileDecrypt"},
			{"", "checkAgileEncryptionInfo", "checkAgileEncryptionInfo"},
			{"", "convertPasswdToKey", "convertPasswdToKey"},
			{"", "decrypt", "decrypt"},
			{"", "decryptPackage", "decryptPackage"},
			{"", "createIV", "createIV"},
		} {
			conds, slices, ok := c14Collect(fn[0], fn[1])
			if !ok {
				fail("function %s.%s", fn[0], fn[1])
				continue
			}
			c14List(w, "conds_"+fn[2], conds)
			c14List(w, "index_"+fn[2], slices)
		}
		// extractStyleCondFuncs: the conditions under which GetStyle indexes the fill / border / font tables
		if e := constExpr("extractStyleCondFuncs"); e != nil {
			var entries []string
			if cl, ok := e.(*ast.CompositeLit); ok {
				for _, el := range cl.Elts {
					if kv, ok := el.(*ast.KeyValueExpr); ok {
						if fl, ok := kv.Value.(*ast.FuncLit); ok && len(fl.Body.List) == 1 {
							entries = append(entries, c14Norm(src(kv.Key))+": "+c14Norm(src(fl.Body.List[0])))
						}
					}
				}
			}
			c14List(w, "extractStyleCondFuncs", entries)
		} else {
			fail("var extractStyleCondFuncs")
		}
		// namespaceStrictToTransitional: the loop conditions carry the bounds of the two backward scans
		if fd := funcDecl("", "namespaceStrictToTransitional"); fd != nil && fd.Body != nil {
			var loops []string
			ast.Inspect(fd.Body, func(n ast.Node) bool {
				if fs, ok := n.(*ast.ForStmt); ok && fs.Cond != nil {
					loops = append(loops, c14Norm(src(fs.Cond)))
				}
				return true
			})
			c14List(w, "loops_nsStrict", loops)
		} else {
			fail("function namespaceStrictToTransitional")
		}
		// every index / slice expression of the read-side files whose index is taken from a struct field
		// (`a[x.F]`, `a[*x.F]`, `a[x.F-1]`, `a[:x.F]`): the syntactic shape of "indexed by a decoded value".
		// Emitted as "file:function: expression"; Props/C14.lean pins the whole table and says for each entry
		// which theorem or guard covers it, so a new such site must be reviewed.
		{
			readFiles := []string{"excelize.go", "lib.go", "crypt.go", "rows.go", "col.go", "cell.go", "sheet.go", "styles.go", "merge.go",
				"drawing.go", "picture.go", "vml.go", "table.go", "pivotTable.go", "calcchain.go", "workbook.go", "docProps.go", "datavalidation.go", "slicer.go", "sparkline.go", "shape.go", "chart.go"}
			var sites, slices []string
			// is the indexed operand a map? package-level map literals, locals made as maps, *Map fields
			isMap := func(fd *ast.FuncDecl, base ast.Expr) bool {
				switch b := base.(type) {
				case *ast.Ident:
					if e := constExpr(b.Name); e != nil {
						if cl, ok := e.(*ast.CompositeLit); ok {
							_, m := cl.Type.(*ast.MapType)
							return m
						}
					}
					isM := false
					ast.Inspect(fd.Body, func(n ast.Node) bool {
						if as, ok := n.(*ast.AssignStmt); ok && len(as.Lhs) >= 1 && len(as.Rhs) == 1 {
							if id, ok := as.Lhs[0].(*ast.Ident); ok && id.Name == b.Name {
								r := c14Norm(src(as.Rhs[0]))
								if strings.HasPrefix(r, "make(map[") || strings.HasPrefix(r, "map[") {
									isM = true
								}
							}
						}
						return true
					})
					return isM
				case *ast.SelectorExpr:
					return strings.HasSuffix(b.Sel.Name, "Map")
				case *ast.CallExpr:
					return true // presets returned by a function: keyed by API options
				}
				return false
			}
			writer := func(name string) bool {
				for _, p := range []string{"add", "Add", "draw", "new", "New", "Set", "set", "Delete", "delete", "encrypt", "currency", "getNumFmtID", "getChartOptions", "getPivotTableFieldsNumFmtID"} {
					if strings.HasPrefix(name, p) {
						return true
					}
				}
				return false
			}
			hasField := func(e ast.Expr) bool {
				found := false
				ast.Inspect(e, func(n ast.Node) bool {
					if se, ok := n.(*ast.SelectorExpr); ok {
						if id, ok := se.X.(*ast.Ident); !ok || (id.Name != "math" && id.Name != "aes" && id.Name != "sha1") {
							found = true
						}
					}
					if _, ok := n.(*ast.CallExpr); ok {
						return false // len(x.F), f(x.F): not a raw field
					}
					return !found
				})
				return found
			}
			for _, fn := range readFiles {
				f := files[fn]
				if f == nil {
					continue
				}
				for _, d := range f.Decls {
					fd, ok := d.(*ast.FuncDecl)
					if !ok || fd.Body == nil {
						continue
					}
					name := fd.Name.Name
					ast.Inspect(fd.Body, func(n ast.Node) bool {
						switch x := n.(type) {
						case *ast.IndexExpr:
							if _, isMapLit := x.X.(*ast.CompositeLit); !isMapLit && hasField(x.Index) {
								sites = append(sites, fn+":"+name+": "+c14Norm(src(x)))
								if !isMap(fd, x.X) && !writer(name) {
									slices = append(slices, fn+":"+name+": "+c14Norm(src(x)))
								}
							}
						case *ast.SliceExpr:
							for _, b := range []ast.Expr{x.Low, x.High} {
								if b != nil && hasField(b) {
									sites = append(sites, fn+":"+name+": "+c14Norm(src(x)))
									if !writer(name) {
										slices = append(slices, fn+":"+name+": "+c14Norm(src(x)))
									}
									break
								}
							}
						}
						return true
					})
				}
			}
			c14List(w, "fieldIndexSites", sites)
			c14List(w, "fieldIndexSitesSlices", slices)
		}
		// ReadZipReader: the size accounting must precede the spill-to-disk branches
		if fd := funcDecl("File", "ReadZipReader"); fd != nil && fd.Body != nil {
			conds, _, _ := c14Collect("File", "ReadZipReader")
			c14List(w, "conds_ReadZipReader", conds)
			var stmts []string
			ast.Inspect(fd.Body, func(n ast.Node) bool {
				if rs, ok := n.(*ast.RangeStmt); ok && stmts == nil {
					for _, st := range rs.Body.List {
						if is, ok := st.(*ast.IfStmt); ok {
							c := c14Norm(src(is.Cond))
							if is.Init != nil {
								c = c14Norm(src(is.Init)) + "; " + c
							}
							stmts = append(stmts, "if "+c)
						} else {
							stmts = append(stmts, c14Norm(src(st)))
						}
					}
					return false
				}
				return true
			})
			c14List(w, "stmts_ReadZipReader_loop", stmts)
		} else {
			fail("function File.ReadZipReader")
		}
		// workSheetReader must return checkSheet's and checkRow's errors
		if conds, _, ok := c14Collect("File", "workSheetReader"); ok {
			c14List(w, "conds_workSheetReader", conds)
		} else {
			fail("function File.workSheetReader")
		}
		w.WriteString("\n")
	})
}
