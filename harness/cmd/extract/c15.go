package main

// C15 facts: the list of functions whose doc comment promises concurrency
// safety and, for each of them and for every package function reachable from
// them that matters for locking, the LOCK SKELETON: the source-ordered
// sequence of
//
//	lock M | unlock M | defer M      X.mu.Lock() / X.mu.Unlock() / defer X.mu.Unlock(), M = mutex class of X
//	call F | callcb F|G | param P    call of a package function that matters (G = closure passed to it; P = call of a func-typed parameter)
//	rd L | wr L                      syntactic read / write of a tracked shared field, L = location class
//	ret                              return statement
//
// each flagged with `exit` = "inside a nested block that ends in return".
// Purely syntactic (go/ast); variable classes are resolved from receiver and
// parameter types and from the reader function a variable was assigned from.

import (
	"bytes"
	"fmt"
	"go/ast"
	"go/token"
	"regexp"
	"sort"
	"strings"
)

type c15Ev struct {
	kind, arg, arg2 string // rd/wr: (object class, field); callcb: (callee, closure); others: arg2 = ""
	exit            bool
}

type c15Fn struct {
	key  string
	decl *ast.FuncDecl
	lit  *ast.FuncLit // closure pseudo-function
	evs  []c15Ev
	env  map[string]string // variable -> class
	fpar map[string]bool   // func-typed parameters
	imps map[string]bool   // import names of the file
}

var c15TypeClass = map[string]string{
	"File": "File", "xlsxWorksheet": "Ws", "xlsxC": "Cell", "xlsxRow": "Cell", "xlsxSST": "Sst",
	"xlsxStyleSheet": "Styles", "xlsxRelationships": "Rels", "xlsxTypes": "ContentTypes",
	"xlsxWsDr": "Drawing", "xlsxCalcChain": "CalcChain", "xlsxWorkbook": "Workbook",
}

var c15ClassType = map[string]string{
	"File": "File", "Ws": "xlsxWorksheet", "Cell": "xlsxC", "Sst": "xlsxSST", "Styles": "xlsxStyleSheet",
	"Rels": "xlsxRelationships", "ContentTypes": "xlsxTypes", "Drawing": "xlsxWsDr",
	"CalcChain": "xlsxCalcChain", "Workbook": "xlsxWorkbook",
}

// reader function -> class of its first result
var c15ReaderClass = map[string]string{
	"workSheetReader": "Ws", "stylesReader": "Styles", "sharedStringsReader": "Sst", "relsReader": "Rels",
	"contentTypesReader": "ContentTypes", "drawingParser": "Drawing", "calcChainReader": "CalcChain",
	"workbookReader": "Workbook", "prepareCell": "Cell",
}

// File fields that are plain (non sync.Map) shared state
var c15FileFields = map[string]bool{
	"sharedStringsMap": true, "SharedStrings": true, "Styles": true, "WorkBook": true, "CalcChain": true,
	"ContentTypes": true, "sheetMap": true, "sharedStringItem": true, "sharedStringTemp": true, "SheetCount": true,
}

// File / iterator fields holding a pointer to a classed object
var c15FieldClass = map[string]string{
	"Styles": "Styles", "SharedStrings": "Sst", "ContentTypes": "ContentTypes", "sst": "Sst",
	"CalcChain": "CalcChain", "WorkBook": "Workbook",
}

func c15TypeName(t ast.Expr) string {
	if s, ok := t.(*ast.StarExpr); ok {
		t = s.X
	}
	if id, ok := t.(*ast.Ident); ok {
		return id.Name
	}
	return ""
}

func c15Key(fd *ast.FuncDecl) string {
	if fd.Recv != nil && len(fd.Recv.List) == 1 {
		if r := c15TypeName(fd.Recv.List[0].Type); r != "File" && r != "" {
			return r + "." + fd.Name.Name
		}
	}
	return fd.Name.Name
}

func c15Recv(fd *ast.FuncDecl) string {
	if fd.Recv != nil && len(fd.Recv.List) == 1 {
		return c15TypeName(fd.Recv.List[0].Type)
	}
	return ""
}

var (
	c15All    = map[string]*c15Fn{}   // key -> fn
	c15ByName = map[string][]*c15Fn{} // bare name -> candidates
)

func c15BuildEnv(fn *c15Fn, ft *ast.FuncType, recv *ast.FieldList, outer map[string]string) {
	fn.env = map[string]string{}
	fn.fpar = map[string]bool{}
	for k, v := range outer {
		fn.env[k] = v
	}
	add := func(fl *ast.FieldList) {
		if fl == nil {
			return
		}
		for _, fld := range fl.List {
			cls := c15TypeClass[c15TypeName(fld.Type)]
			_, isFn := fld.Type.(*ast.FuncType)
			for _, n := range fld.Names {
				if cls != "" {
					fn.env[n.Name] = cls
				} else {
					delete(fn.env, n.Name)
				}
				if isFn {
					fn.fpar[n.Name] = true
				}
			}
		}
	}
	add(recv)
	add(ft.Params)
	add(ft.Results)
}

// c15ExprClass gives the class of the object an expression denotes ("" = unknown).
func c15ExprClass(fn *c15Fn, e ast.Expr) string {
	switch x := e.(type) {
	case *ast.Ident:
		return fn.env[x.Name]
	case *ast.ParenExpr:
		return c15ExprClass(fn, x.X)
	case *ast.StarExpr:
		return c15ExprClass(fn, x.X)
	case *ast.CallExpr:
		if sel, ok := x.Fun.(*ast.SelectorExpr); ok {
			return c15ReaderClass[sel.Sel.Name]
		}
		if id, ok := x.Fun.(*ast.Ident); ok && id.Name == "new" && len(x.Args) == 1 {
			return "" // fresh object: not shared yet
		}
	case *ast.TypeAssertExpr:
		if x.Type != nil {
			return c15TypeClass[c15TypeName(x.Type)]
		}
	case *ast.UnaryExpr:
		if x.Op == token.AND {
			if ix, ok := x.X.(*ast.IndexExpr); ok {
				if sel, ok := ix.X.(*ast.SelectorExpr); ok && (sel.Sel.Name == "C" || sel.Sel.Name == "Row") {
					return "Cell"
				}
			}
		}
	case *ast.SelectorExpr:
		if base := c15ExprClass(fn, x.X); base == "File" || base == "" {
			if _, isId := x.X.(*ast.Ident); isId {
				if cls, ok := c15FieldClass[x.Sel.Name]; ok && (base == "File" || x.Sel.Name == "sst") {
					return cls
				}
			}
		}
	}
	return ""
}

func c15Loc(cls, field string) string {
	if field == "mu" {
		return ""
	}
	switch cls {
	case "File":
		if c15FileFields[field] {
			return "File." + field
		}
		return ""
	case "Ws":
		return "Ws." + field
	case "Cell":
		return "Ws.SheetData"
	case "Styles":
		return "Styles.tables"
	case "Sst":
		return "Sst.SI"
	case "Rels":
		return "Rels.list"
	case "ContentTypes":
		return "ContentTypes.list"
	case "Drawing":
		return "Drawing.anchors"
	case "CalcChain":
		return "CalcChain.C"
	case "Workbook":
		return "Workbook.fields"
	}
	return ""
}

type c15Walker struct {
	fn     *c15Fn
	writes map[ast.Node]bool
	fresh  map[string]bool
	nlit   int
	depth  int // block nesting below the function body
}

func (w *c15Walker) emit(kind, arg string, exit bool) {
	arg2 := ""
	if kind == "rd" || kind == "wr" || kind == "mrd" || kind == "mwr" || kind == "callcb" {
		sep := "."
		if kind == "callcb" {
			sep = "|"
		}
		p := strings.SplitN(arg, sep, 2)
		arg, arg2 = p[0], p[1]
	}
	if kind == "rd" || kind == "wr" || kind == "mrd" || kind == "mwr" {
		// drop immediate repetitions
		if n := len(w.fn.evs); n > 0 && w.fn.evs[n-1] == (c15Ev{kind, arg, arg2, exit}) {
			return
		}
	}
	w.fn.evs = append(w.fn.evs, c15Ev{kind, arg, arg2, exit})
}

func c15EndsInReturn(list []ast.Stmt) bool {
	if len(list) == 0 {
		return false
	}
	switch s := list[len(list)-1].(type) {
	case *ast.ReturnStmt:
		return true
	case *ast.ExprStmt:
		if c, ok := s.X.(*ast.CallExpr); ok {
			if id, ok := c.Fun.(*ast.Ident); ok && id.Name == "panic" {
				return true
			}
		}
	}
	return false
}

// muCall recognises X.mu.Lock() / X.mu.Unlock(); returns (op, mutex class).
func (w *c15Walker) muCall(c *ast.CallExpr) (string, string, bool) {
	sel, ok := c.Fun.(*ast.SelectorExpr)
	if !ok {
		return "", "", false
	}
	op := sel.Sel.Name
	if op != "Lock" && op != "Unlock" && op != "RLock" && op != "RUnlock" {
		return "", "", false
	}
	in, ok := sel.X.(*ast.SelectorExpr)
	if !ok || in.Sel.Name != "mu" {
		return "", "", false
	}
	cls := c15ExprClass(w.fn, in.X)
	if cls == "" {
		cls = "?" + src(in.X)
	}
	if w.fresh["@"+src(in.X)] {
		cls = ""
	}
	return op, cls, true
}

func (w *c15Walker) markWrites(e ast.Expr) {
	ast.Inspect(e, func(n ast.Node) bool {
		if _, ok := n.(*ast.FuncLit); ok {
			return false
		}
		if ix, ok := n.(*ast.IndexExpr); ok {
			// the index itself is read, the indexed object is written
			ast.Inspect(ix.X, func(m ast.Node) bool {
				if s, ok := m.(*ast.SelectorExpr); ok {
					w.writes[s] = true
				}
				return true
			})
			return false
		}
		if s, ok := n.(*ast.SelectorExpr); ok {
			w.writes[s] = true
		}
		return true
	})
}

// bind updates the class of a variable at an assignment, in walk order: a value
// obtained from a reader / type assertion / cell slot is a shared object of that
// class; a value from new(T), &T{...}, T{...} is a fresh object nobody else can
// see yet (accesses through it are not shared accesses).
func c15IsFresh(rhs ast.Expr) bool {
	switch r := rhs.(type) {
	case *ast.CallExpr:
		if id, ok := r.Fun.(*ast.Ident); ok && id.Name == "new" {
			return true
		}
	case *ast.CompositeLit:
		return true
	case *ast.UnaryExpr:
		if _, ok := r.X.(*ast.CompositeLit); ok && r.Op == token.AND {
			return true
		}
	}
	return false
}

func (w *c15Walker) bind(name string, rhs ast.Expr) {
	if cls := c15ExprClass(w.fn, rhs); cls != "" {
		w.fn.env[name] = cls
		return
	}
	if w.depth > 0 && w.fn.env[name] != "" {
		// `if x == nil { x = &T{} }`: the variable keeps denoting the shared object on the main path
		return
	}
	switch r := rhs.(type) {
	case *ast.CallExpr:
		if id, ok := r.Fun.(*ast.Ident); ok && id.Name == "new" {
			delete(w.fn.env, name)
			w.fresh[name] = true
		}
	case *ast.CompositeLit:
		delete(w.fn.env, name)
		w.fresh[name] = true
	case *ast.UnaryExpr:
		if _, ok := r.X.(*ast.CompositeLit); ok && r.Op == token.AND {
			delete(w.fn.env, name)
			w.fresh[name] = true
		}
	}
}

func (w *c15Walker) stmts(list []ast.Stmt, exit bool) {
	for _, s := range list {
		w.stmt(s, exit)
	}
}

func (w *c15Walker) block(b *ast.BlockStmt, exit bool) {
	if b == nil {
		return
	}
	w.depth++
	w.stmts(b.List, exit || c15EndsInReturn(b.List))
	w.depth--
}

func (w *c15Walker) stmt(s ast.Stmt, exit bool) {
	switch x := s.(type) {
	case nil:
	case *ast.BlockStmt:
		w.block(x, exit)
	case *ast.ExprStmt:
		w.expr(x.X, exit)
	case *ast.AssignStmt:
		for _, l := range x.Lhs {
			w.markWrites(l)
		}
		for _, r := range x.Rhs {
			w.expr(r, exit)
		}
		if len(x.Rhs) == 1 && len(x.Lhs) >= 1 {
			if id, ok := x.Lhs[0].(*ast.Ident); ok && id.Name != "_" {
				w.bind(id.Name, x.Rhs[0])
			} else if c15IsFresh(x.Rhs[0]) {
				// `f.ContentTypes = new(xlsxTypes)`: the mutex of the object just allocated is uncontended
				w.fresh["@"+src(x.Lhs[0])] = true
			}
		}
		for _, l := range x.Lhs {
			w.expr(l, exit)
		}
	case *ast.IncDecStmt:
		w.markWrites(x.X)
		w.expr(x.X, exit)
	case *ast.DeclStmt:
		if gd, ok := x.Decl.(*ast.GenDecl); ok {
			for _, sp := range gd.Specs {
				if vs, ok := sp.(*ast.ValueSpec); ok {
					for _, v := range vs.Values {
						w.expr(v, exit)
					}
					for i, n := range vs.Names {
						if len(vs.Values) == len(vs.Names) {
							w.bind(n.Name, vs.Values[i])
						} else {
							delete(w.fn.env, n.Name) // `var x T`: a fresh local object
						}
					}
				}
			}
		}
	case *ast.ReturnStmt:
		for _, r := range x.Results {
			w.expr(r, exit)
		}
		w.emit("ret", "", exit)
	case *ast.IfStmt:
		w.stmt(x.Init, exit)
		w.expr(x.Cond, exit)
		w.block(x.Body, exit)
		switch e := x.Else.(type) {
		case *ast.BlockStmt:
			w.block(e, exit)
		case *ast.IfStmt:
			w.stmt(e, exit)
		}
	case *ast.ForStmt:
		w.stmt(x.Init, exit)
		if x.Cond != nil {
			w.expr(x.Cond, exit)
		}
		w.block(x.Body, exit)
		w.stmt(x.Post, exit)
	case *ast.RangeStmt:
		w.expr(x.X, exit)
		w.block(x.Body, exit)
	case *ast.SwitchStmt:
		w.stmt(x.Init, exit)
		if x.Tag != nil {
			w.expr(x.Tag, exit)
		}
		w.clauses(x.Body, exit)
	case *ast.TypeSwitchStmt:
		w.stmt(x.Init, exit)
		w.stmt(x.Assign, exit)
		w.clauses(x.Body, exit)
	case *ast.SelectStmt:
		w.clauses(x.Body, exit)
	case *ast.DeferStmt:
		if op, cls, ok := w.muCall(x.Call); ok && (op == "Unlock" || op == "RUnlock") {
			if cls != "" {
				w.emit("defer", cls, exit)
			}
			return
		}
		if fl, ok := x.Call.Fun.(*ast.FuncLit); ok {
			w.block(fl.Body, exit)
			return
		}
		w.expr(x.Call, exit)
	case *ast.GoStmt:
		w.expr(x.Call, exit)
	case *ast.LabeledStmt:
		w.stmt(x.Stmt, exit)
	case *ast.SendStmt:
		w.expr(x.Value, exit)
	}
}

func (w *c15Walker) clauses(b *ast.BlockStmt, exit bool) {
	if b == nil {
		return
	}
	for _, c := range b.List {
		switch cc := c.(type) {
		case *ast.CaseClause:
			for _, e := range cc.List {
				w.expr(e, exit)
			}
			w.depth++
			w.stmts(cc.Body, exit || c15EndsInReturn(cc.Body))
			w.depth--
		case *ast.CommClause:
			w.stmt(cc.Comm, exit)
			w.stmts(cc.Body, exit || c15EndsInReturn(cc.Body))
		}
	}
}

func (w *c15Walker) expr(e ast.Expr, exit bool) {
	switch x := e.(type) {
	case nil:
	case *ast.CallExpr:
		if op, cls, ok := w.muCall(x); ok {
			if cls == "" {
				return
			}
			switch op {
			case "Lock", "RLock":
				w.emit("lock", cls, exit)
			default:
				w.emit("unlock", cls, exit)
			}
			return
		}
		// receiver expression first, then arguments, then the call itself
		var recvX ast.Expr
		name := ""
		switch f := x.Fun.(type) {
		case *ast.SelectorExpr:
			recvX, name = f.X, f.Sel.Name
			w.expr(f.X, exit)
		case *ast.Ident:
			name = f.Name
		case *ast.FuncLit:
			for _, a := range x.Args {
				w.expr(a, exit)
			}
			w.block(f.Body, exit)
			return
		default:
			w.expr(x.Fun, exit)
		}
		callee := w.resolve(recvX, name)
		if name == "workSheetReader" && len(x.Args) == 1 {
			c15WsArgs[w.fn.key] = append(c15WsArgs[w.fn.key], src(x.Args[0]))
		}
		if sel, ok := recvX.(*ast.SelectorExpr); ok && c15ExprClass(w.fn, sel.X) == "File" && c15SyncMaps()[sel.Sel.Name] {
			// every operation on a sync.Map field of File, tagged with the function it occurs in:
			// the raw material of the check-then-act table (Load ... Store on the same map)
			switch name {
			case "Store", "Delete", "LoadOrStore", "LoadAndDelete", "Swap", "CompareAndSwap":
				w.emit("mwr", "SyncMap:"+sel.Sel.Name+"."+w.fn.key, exit)
			case "Load", "Range":
				w.emit("mrd", "SyncMap:"+sel.Sel.Name+"."+w.fn.key, exit)
			}
		}
		if sel, ok := recvX.(*ast.SelectorExpr); ok && c15ExprClass(w.fn, sel.X) == "File" {
			// hand-assigned footprint: a part list kept in a sync.Map of File (check-then-act on it
			// needs a lock although every single map operation is atomic)
			if loc, ok := c15PartLists[w.fn.key][sel.Sel.Name]; ok {
				switch name {
				case "Store", "Delete", "LoadOrStore", "LoadAndDelete", "Swap":
					w.emit("wr", loc, exit)
				default:
					w.emit("rd", loc, exit)
				}
			}
		}
		if id, ok := recvX.(*ast.Ident); ok && callee == nil && id.Name == "xml" && w.fn.imps["xml"] {
			// xml.Marshal(ws) / Unmarshal: the whole shared object is read
			for _, a := range x.Args {
				if cls := c15ExprClass(w.fn, a); cls == "Ws" {
					for _, fld := range []string{"SheetData", "Cols", "MergeCells", "DataValidations", "Drawing"} {
						w.emit("rd", "Ws."+fld, exit)
					}
				} else if cls == "Styles" {
					w.emit("rd", "Styles.tables", exit)
				}
			}
		}
		cb := ""
		for _, a := range x.Args {
			if fl, ok := a.(*ast.FuncLit); ok && callee != nil {
				// closure handed to a package function: a pseudo function of its own
				w.nlit++
				key := fmt.Sprintf("%s$%d", w.fn.key, w.nlit)
				sub := &c15Fn{key: key, lit: fl, imps: w.fn.imps}
				c15BuildEnv(sub, fl.Type, nil, w.fn.env)
				c15All[key] = sub
				sw := &c15Walker{fn: sub, writes: map[ast.Node]bool{}, fresh: map[string]bool{}}
				sw.stmts(fl.Body.List, false)
				cb = key
				continue
			}
			w.expr(a, exit)
		}
		if recvX == nil && w.fn.fpar[name] {
			w.emit("param", name, exit)
			return
		}
		if callee != nil {
			if cb != "" {
				w.emit("callcb", callee.key+"|"+cb, exit)
			} else {
				w.emit("call", callee.key, exit)
			}
		}
	case *ast.FuncLit:
		w.block(x.Body, exit)
	case *ast.SelectorExpr:
		if cls := c15ExprClass(w.fn, x.X); cls != "" {
			if loc := c15Loc(cls, x.Sel.Name); loc != "" {
				if _, isId := x.X.(*ast.Ident); isId || cls != "File" {
					if w.writes[x] {
						w.emit("wr", loc, exit)
					} else {
						w.emit("rd", loc, exit)
					}
				}
			}
			if _, isId := x.X.(*ast.Ident); !isId {
				w.expr(x.X, exit)
			}
			return
		}
		w.expr(x.X, exit)
	case *ast.IndexExpr:
		w.expr(x.X, exit)
		w.expr(x.Index, exit)
	case *ast.SliceExpr:
		w.expr(x.X, exit)
		w.expr(x.Low, exit)
		w.expr(x.High, exit)
		w.expr(x.Max, exit)
	case *ast.StarExpr:
		w.expr(x.X, exit)
	case *ast.UnaryExpr:
		w.expr(x.X, exit)
	case *ast.BinaryExpr:
		w.expr(x.X, exit)
		w.expr(x.Y, exit)
	case *ast.ParenExpr:
		w.expr(x.X, exit)
	case *ast.TypeAssertExpr:
		w.expr(x.X, exit)
	case *ast.KeyValueExpr:
		w.expr(x.Value, exit)
	case *ast.CompositeLit:
		for _, el := range x.Elts {
			w.expr(el, exit)
		}
	}
}

// resolve finds the package function a call denotes (nil = not a package function / unknown).
func (w *c15Walker) resolve(recvX ast.Expr, name string) *c15Fn {
	cands := c15ByName[name]
	if len(cands) == 0 {
		return nil
	}
	if recvX == nil {
		for _, c := range cands {
			if c.decl != nil && c.decl.Recv == nil {
				return c
			}
		}
		return nil
	}
	if id, ok := recvX.(*ast.Ident); ok && w.fn.imps[id.Name] && w.fn.env[id.Name] == "" {
		return nil
	}
	if id, ok := recvX.(*ast.Ident); ok && w.fresh[id.Name] && w.fn.env[id.Name] == "" {
		return nil
	}
	if cls := c15ExprClass(w.fn, recvX); cls != "" {
		for _, c := range cands {
			if c.decl != nil && c15Recv(c.decl) == c15ClassType[cls] {
				return c
			}
		}
		return nil
	}
	// unknown receiver: an unexported method name can only belong to a package type
	if !ast.IsExported(name) && len(cands) == 1 && cands[0].decl != nil && cands[0].decl.Recv != nil {
		return cands[0]
	}
	return nil
}

// c15Stop: subsystems that are reachable (GetPictures -> getCellImages -> DISPIMG / rich-value lookups, CalcCellValue for
// DISPIMG cells) but outside the modelled scope: calls to them are listed, not followed.
var c15Stop = map[string]bool{"CalcCellValue": true, "calcCellValue": true, "getDispImages": true, "getImageCellRel": true}

// c15PartLists: function -> sync.Map field of File -> location class. The package parts of
// one kind (xl/media/imageN.*, xl/drawings/drawingN.xml) form a list whose next free number is
// computed by scanning it; the functions that scan and extend such a list are named here
// (sync.Map operations elsewhere are treated as atomic and not tracked).
var c15SyncMapSet map[string]bool

// c15SyncMaps: the fields of struct File whose type is sync.Map
func c15SyncMaps() map[string]bool {
	if c15SyncMapSet != nil {
		return c15SyncMapSet
	}
	c15SyncMapSet = map[string]bool{}
	for _, f := range files {
		for _, d := range f.Decls {
			gd, ok := d.(*ast.GenDecl)
			if !ok {
				continue
			}
			for _, sp := range gd.Specs {
				ts, ok := sp.(*ast.TypeSpec)
				if !ok || ts.Name.Name != "File" {
					continue
				}
				st, ok := ts.Type.(*ast.StructType)
				if !ok {
					continue
				}
				for _, fld := range st.Fields.List {
					if se, ok := fld.Type.(*ast.SelectorExpr); ok && se.Sel.Name == "Map" {
						if id, ok := se.X.(*ast.Ident); ok && id.Name == "sync" {
							for _, n := range fld.Names {
								c15SyncMapSet[n.Name] = true
							}
						}
					}
				}
			}
		}
	}
	if len(c15SyncMapSet) == 0 {
		fail("no sync.Map field found in struct File")
	}
	return c15SyncMapSet
}

// c15WsArgs: function -> source text of the argument of each workSheetReader call in its body
var c15WsArgs = map[string][]string{}

var c15PartLists = map[string]map[string]string{
	"countMedia":    {"Pkg": "File.mediaParts"},
	"addMedia":      {"Pkg": "File.mediaParts"},
	"countDrawings": {"Pkg": "File.drawingParts", "Drawings": "File.drawingParts"},
	"drawingLoader": {"Pkg": "File.drawingParts", "Drawings": "File.drawingParts"},
	// load-or-decode of a worksheet into the cache File.Sheet: two unsynchronised first loads
	// yield two worksheet objects, one of which is lost (with every update made through it)
	"workSheetReader": {"Sheet": "File.sheetCache"},
}

// methods of the iterators returned by the documented Rows / Cols: part of using them
var c15IterMethods = []string{"Rows.Next", "Rows.Columns", "Rows.Close", "Cols.Next", "Cols.Rows"}

var c15DocRe = regexp.MustCompile(`concurrency[- ]safe`)

func init() {
	addSection("C15", func(out *bytes.Buffer) {
		// 1. all package functions
		var names []string
		var bases []string
		for base := range files {
			bases = append(bases, base)
		}
		sort.Strings(bases)
		for _, base := range bases {
			f := files[base]
			imps := map[string]bool{}
			for _, im := range f.Imports {
				p := unq(im.Path.Value)
				n := p[strings.LastIndex(p, "/")+1:]
				if im.Name != nil {
					n = im.Name.Name
				}
				imps[n] = true
			}
			for _, d := range f.Decls {
				fd, ok := d.(*ast.FuncDecl)
				if !ok || fd.Body == nil {
					continue
				}
				fn := &c15Fn{key: c15Key(fd), decl: fd, imps: imps}
				if _, dup := c15All[fn.key]; dup {
					// a File method and a plain function of the same name: keep both
					if fd.Recv == nil {
						fn.key += "#func"
					} else {
						old := c15All[fn.key]
						old.key += "#func"
						c15All[old.key] = old
						names = append(names, old.key)
						for i, n := range names {
							if n == fn.key {
								names = append(names[:i], names[i+1:]...)
								break
							}
						}
					}
				}
				c15All[fn.key] = fn
				c15ByName[fd.Name.Name] = append(c15ByName[fd.Name.Name], fn)
				names = append(names, fn.key)
			}
		}
		sort.Strings(names)
		for _, n := range c15ByName {
			sort.Slice(n, func(i, j int) bool { return n[i].key < n[j].key })
		}
		// 2. events of every function (closures are added to c15All on the fly)
		var documented []string
		for _, k := range names {
			fn := c15All[k]
			c15BuildEnv(fn, fn.decl.Type, fn.decl.Recv, nil)
			w := &c15Walker{fn: fn, writes: map[ast.Node]bool{}, fresh: map[string]bool{}}
			w.stmts(fn.decl.Body.List, false)
			if fn.decl.Doc != nil {
				doc := strings.ToLower(strings.Join(strings.Fields(fn.decl.Doc.Text()), " "))
				if c15DocRe.MatchString(doc) {
					documented = append(documented, k)
				}
			}
		}
		if len(documented) == 0 {
			fail("no function documented as concurrency safe found")
		}
		// 3. which functions matter: own lock/access events, or a call path to such
		callees := func(fn *c15Fn) []string {
			var r []string
			for _, e := range fn.evs {
				switch e.kind {
				case "call":
					r = append(r, e.arg)
				case "callcb":
					r = append(r, e.arg, e.arg2)
				}
			}
			return r
		}
		closure := func(base func(e c15Ev) bool) map[string]bool {
			m := map[string]bool{}
			for k, fn := range c15All {
				for _, e := range fn.evs {
					if base(e) {
						m[k] = true
					}
				}
			}
			for changed := true; changed; {
				changed = false
				for k, fn := range c15All {
					if m[k] {
						continue
					}
					for _, c := range callees(fn) {
						if m[c] {
							m[k] = true
							changed = true
							break
						}
					}
				}
			}
			return m
		}
		// mattersLock: relevant for the lock / guard analysis; matters: additionally everything that
		// performs sync.Map operations (only inlined in the check-then-act analysis: kind "mcall")
		mattersLock := closure(func(e c15Ev) bool {
			return e.kind == "lock" || e.kind == "unlock" || e.kind == "defer" || e.kind == "rd" || e.kind == "wr"
		})
		matters := closure(func(e c15Ev) bool {
			return e.kind == "lock" || e.kind == "unlock" || e.kind == "defer" || e.kind == "rd" || e.kind == "wr" || e.kind == "mrd" || e.kind == "mwr"
		})
		// 4. reachable from the documented functions
		depth := map[string]int{}
		queue := append([]string{}, documented...)
		var iters []string
		for _, m := range c15IterMethods {
			if _, ok := c15All[m]; ok {
				iters = append(iters, m)
				queue = append(queue, m)
			} else {
				fail("iterator method %s", m)
			}
		}
		for _, d := range queue {
			depth[d] = 0
		}
		for len(queue) > 0 {
			k := queue[0]
			queue = queue[1:]
			if depth[k] >= 12 {
				continue
			}
			for _, c := range callees(c15All[k]) {
				if _, seen := depth[c]; !seen && matters[c] && !c15Stop[c] {
					depth[c] = depth[k] + 1
					queue = append(queue, c)
				}
			}
		}
		var followed []string
		for k := range depth {
			followed = append(followed, k)
		}
		sort.Strings(followed)
		sort.Strings(documented)
		// 5. emit
		out.WriteString("/-! functions whose doc comment says they are concurrency safe -/\n")
		out.WriteString("def documented : List String := [")
		for i, d := range documented {
			if i > 0 {
				out.WriteString(", ")
			}
			out.WriteString(leanStr(d))
		}
		out.WriteString("]\n\n")
		out.WriteString("/-! methods of the iterators returned by Rows / Cols -/\ndef iterMethods : List String := [")
		for i, d := range iters {
			if i > 0 {
				out.WriteString(", ")
			}
			out.WriteString(leanStr(d))
		}
		out.WriteString("]\n\n")
		out.WriteString("/-! lock skeletons: (kind, argument, second argument, inside-a-returning-branch) in source order -/\n")
		for _, k := range followed {
			fmt.Fprintf(out, "def sk_%s : List (String × String × String × Bool) := [", c15Ident(k))
			first := true
			for _, e := range c15All[k].evs {
				if (e.kind == "call" || e.kind == "callcb") && !matters[e.arg] {
					continue
				}
				if !first {
					out.WriteString(",")
				}
				first = false
				kind := e.kind
				if kind == "call" && !mattersLock[e.arg] {
					kind = "mcall" // matters only for its sync.Map operations
				}
				fmt.Fprintf(out, "\n  (%s, %s, %s, %v)", leanStr(kind), leanStr(e.arg), leanStr(e.arg2), e.exit)
			}
			out.WriteString("]\n")
		}
		var sm []string
		for k := range c15SyncMaps() {
			sm = append(sm, k)
		}
		sort.Strings(sm)
		out.WriteString("\n/-! fields of struct File that are sync.Map -/\ndef syncMaps : List String := [")
		for i, k := range sm {
			if i > 0 {
				out.WriteString(", ")
			}
			out.WriteString(leanStr(k))
		}
		out.WriteString("]\ndef syncMapClasses : List String := [")
		for i, k := range sm {
			if i > 0 {
				out.WriteString(", ")
			}
			out.WriteString(leanStr("SyncMap:" + k))
		}
		out.WriteString("]\n")
		out.WriteString("\n/-! which worksheet a function loads: argument text of every workSheetReader call -/\ndef wsArgs : List (String × List String) := [")
		firstWs := true
		for _, k := range followed {
			if len(c15WsArgs[k]) == 0 {
				continue
			}
			if !firstWs {
				out.WriteString(",")
			}
			firstWs = false
			fmt.Fprintf(out, "\n  (%s, [", leanStr(k))
			for i, a := range c15WsArgs[k] {
				if i > 0 {
					out.WriteString(", ")
				}
				out.WriteString(leanStr(a))
			}
			out.WriteString("])")
		}
		out.WriteString("]\n")
		out.WriteString("\ndef skeletons : List (String × List (String × String × String × Bool)) := [")
		for i, k := range followed {
			if i > 0 {
				out.WriteString(",")
			}
			fmt.Fprintf(out, "\n  (%s, sk_%s)", leanStr(k), c15Ident(k))
		}
		out.WriteString("]\n")
	})
}

func c15Ident(k string) string {
	r := strings.NewReplacer(".", "_dot_", "$", "_cl_", "#", "_")
	return r.Replace(k)
}
