package main

// C16 facts: what the sheet-collection model (lean/XlModel/Sheets.lean) is
// defined over.
//   * the forbidden character set and the order of the checks of checkSheetName;
//   * for every name comparison the model transcribes, whether the Go function
//     compares with strings.EqualFold (case-insensitive) or with ==;
//   * the literal guards added to DeleteSheet/SetSheetVisible (visible-sheet
//     counting) as the set of state strings treated as "visible";
//   * the template workbook a NewFile starts from (sheet list, relationship
//     ids, tabSelected of the template sheet).

import (
	"bytes"
	"fmt"
	"go/ast"
	"go/token"
	"regexp"
	"strconv"
	"strings"
)

func c16CountCalls(fd *ast.FuncDecl, pkg, fn string) int {
	n := 0
	ast.Inspect(fd.Body, func(x ast.Node) bool {
		if ce, ok := x.(*ast.CallExpr); ok {
			if se, ok := ce.Fun.(*ast.SelectorExpr); ok {
				if id, ok := se.X.(*ast.Ident); ok && id.Name == pkg && se.Sel.Name == fn {
					n++
				}
			}
		}
		return true
	})
	return n
}

// c16NameEqCount counts `<x>.Name == <ident>` / `<ident> == <x>.Name` comparisons.
func c16NameEqCount(fd *ast.FuncDecl) int {
	n := 0
	isName := func(e ast.Expr) bool {
		se, ok := e.(*ast.SelectorExpr)
		return ok && se.Sel.Name == "Name"
	}
	ast.Inspect(fd.Body, func(x ast.Node) bool {
		if be, ok := x.(*ast.BinaryExpr); ok && be.Op == token.EQL && (isName(be.X) || isName(be.Y)) {
			n++
		}
		return true
	})
	return n
}

func c16StringConst(name string) (string, bool) {
	e := constExpr(name)
	if e == nil {
		return "", false
	}
	v, ok := evalConst(e, 0)
	if !ok {
		return "", false
	}
	s, err := strconv.Unquote(v.ExactString())
	if err != nil {
		return "", false
	}
	return s, true
}

func init() {
	addSection("C16", func(w *bytes.Buffer) {
		w.WriteString("/-! checkSheetName (sheet.go): forbidden characters and order of checks -/\n")
		fd := funcDecl("", "checkSheetName")
		if fd == nil {
			fail("func checkSheetName")
		} else {
			var forb string
			found := false
			var order []string
			for _, st := range fd.Body.List {
				is, ok := st.(*ast.IfStmt)
				if !ok {
					continue
				}
				c := src(is.Cond)
				switch {
				case strings.Contains(c, `name == ""`):
					order = append(order, "blank")
				case strings.Contains(c, "utf8.RuneCountInString(name) > MaxSheetNameLength"):
					order = append(order, "length")
				case strings.Contains(c, `strings.HasPrefix(name, "'") || strings.HasSuffix(name, "'")`):
					order = append(order, "quote")
				case strings.Contains(c, "strings.ContainsAny(name,"):
					order = append(order, "chars")
					if ce, ok := is.Cond.(*ast.CallExpr); ok && len(ce.Args) == 2 {
						if bl, ok := ce.Args[1].(*ast.BasicLit); ok && bl.Kind == token.STRING {
							forb, found = unq(bl.Value), true
						}
					}
				default:
					order = append(order, "other")
				}
			}
			if !found {
				fail("checkSheetName: strings.ContainsAny(name, <literal>)")
			}
			w.WriteString("def forbiddenChars : List Nat := [")
			for i, b := range []byte(forb) {
				if i > 0 {
					w.WriteString(", ")
				}
				fmt.Fprintf(w, "%d", b)
			}
			w.WriteString("]\n")
			w.WriteString("def checkOrder : List String := [")
			for i, o := range order {
				if i > 0 {
					w.WriteString(", ")
				}
				w.WriteString(leanStr(o))
			}
			w.WriteString("]\n\n")
		}

		w.WriteString("/-! name comparisons: true = strings.EqualFold, false = `==` -/\n")
		// function, Lean name, expected kind of comparison present
		for _, fn := range []struct{ recv, name, lean string }{
			{"File", "GetSheetIndex", "foldGetSheetIndex"},
			{"File", "getSheetXMLPath", "foldGetSheetXMLPath"},
			{"File", "getSheetID", "foldGetSheetID"},
			{"File", "DeleteSheet", "foldDeleteSheet"},
			{"File", "SetSheetVisible", "foldSetSheetVisible"},
			{"File", "GroupSheets", "foldGroupSheets"},
			{"File", "MoveSheet", "foldMoveSheet"},
		} {
			fd := funcDecl(fn.recv, fn.name)
			if fd == nil {
				fail("func %s", fn.name)
				continue
			}
			nf, ne := c16CountCalls(fd, "strings", "EqualFold"), c16NameEqCount(fd)
			switch {
			case nf > 0 && ne == 0:
				fmt.Fprintf(w, "def %s : Bool := true\n", fn.lean)
			case nf == 0 && ne > 0:
				fmt.Fprintf(w, "def %s : Bool := false\n", fn.lean)
			default:
				fail("%s: expected sheet names to be compared either with strings.EqualFold or with == (found %d / %d)", fn.name, nf, ne)
			}
		}
		// SetSheetName: the renamed sheet is found with ==, the clash check uses EqualFold + GetSheetIndex
		if fd := funcDecl("File", "SetSheetName"); fd == nil {
			fail("func SetSheetName")
		} else {
			b := src(fd.Body)
			fmt.Fprintf(w, "def renameSourceExact : Bool := %v\n", c16NameEqCount(fd) == 1 && strings.Contains(b, "v.Name == source"))
			fmt.Fprintf(w, "def renameClashCheck : Bool := %v\n",
				strings.Contains(b, "!strings.EqualFold(target, source)") && strings.Contains(b, "f.GetSheetIndex(target)") && strings.Contains(b, "ErrExistsSheet"))
		}
		// visible-sheet guards
		for _, g := range []struct{ fn, lean string }{{"DeleteSheet", "deleteKeepsVisible"}, {"SetSheetVisible", "hideCountsVisibleOthers"}} {
			fd := funcDecl("File", g.fn)
			if fd == nil {
				continue
			}
			b := src(fd.Body)
			fmt.Fprintf(w, "def %s : Bool := %v\n", g.lean,
				strings.Contains(b, `!strings.EqualFold(v.Name, sheet) && (v.State == "" || v.State == "visible")`))
		}
		if fd := funcDecl("File", "MoveSheet"); fd != nil {
			fmt.Fprintf(w, "def moveRenumbersLocalSheetId : Bool := %v\n", strings.Contains(src(fd.Body), "LocalSheetID = intPtr(localSheetID)"))
		}
		// NewSheet skips sheet ids whose part already exists (package store or decoded worksheets)
		if fd := funcDecl("File", "NewSheet"); fd == nil {
			fail("func NewSheet")
		} else {
			b := src(fd.Body)
			fmt.Fprintf(w, "def newSheetSkipsExistingParts : Bool := %v\n",
				strings.Contains(b, "_, inPkg := f.Pkg.Load(sheetXMLPath)") && strings.Contains(b, "_, inSheet := f.Sheet.Load(sheetXMLPath)") &&
					strings.Contains(b, "if !inPkg && !inSheet {"))
		}
		// SetDefinedName resolves the scope once (getDefinedNameScope) and compares local sheet ids
		fdS, fdG := funcDecl("File", "SetDefinedName"), funcDecl("File", "getDefinedNameScope")
		if fdS == nil || fdG == nil {
			fail("func SetDefinedName / getDefinedNameScope")
		} else {
			b, g := src(fdS.Body), src(fdG.Body)
			fmt.Fprintf(w, "def definedNameScopeResolved : Bool := %v\n",
				strings.Contains(b, "f.getDefinedNameScope(definedName.Scope)") &&
					strings.Contains(b, "sameDefinedNameScope(dn.LocalSheetID, d.LocalSheetID) && strings.EqualFold(dn.Name, definedName.Name)") &&
					strings.Contains(g, "f.GetSheetIndex(scope)") && strings.Contains(g, "if sheetIndex < 0 {"))
			wbName := ""
			if m := regexp.MustCompile(`scope == "" \|\| scope == "([^"]*)"`).FindStringSubmatch(g); m != nil {
				wbName = m[1]
			} else {
				fail("getDefinedNameScope: scope == \"\" || scope == <literal>")
			}
			fmt.Fprintf(w, "def workbookScopeName : String := %s\n", leanStr(wbName))
		}
		if fd := funcDecl("", "adjustRangeSheetName"); fd == nil {
			fail("func adjustRangeSheetName")
		} else {
			b := strings.Join(strings.Fields(src(fd.Body)), " ")
			seps := strings.Contains(b, `strings.Split(rng, ",")`) && strings.Contains(b, `strings.Split(cellRef, ":")`) &&
				strings.Contains(b, `strings.Split(rangeRef, "!")`) &&
				strings.Contains(b, `singleQuote := strings.HasPrefix(part, "'") && strings.HasSuffix(part, "'")`) &&
				strings.Contains(b, `part = strings.TrimPrefix(strings.TrimSuffix(part, "'"), "'")`)
			if !seps {
				fail("adjustRangeSheetName: split on , : ! and the quote test")
			}
			fmt.Fprintf(w, "def renameKeepsQuotes : Bool := %v\n",
				strings.Contains(b, `if part == source { part = target }`) &&
					strings.Contains(b, `if singleQuote { part = "'" + part + "'" } parts[k] = part`))
		}
		if fd := funcDecl("File", "SetSheetName"); fd != nil {
			b := strings.Join(strings.Fields(src(fd.Body)), " ")
			fmt.Fprintf(w, "def renameRewritesDefinedNames : Bool := %v\n",
				strings.Contains(b, `for i, dn := range wb.DefinedNames.DefinedName { wb.DefinedNames.DefinedName[i].Data = adjustRangeSheetName(dn.Data, source, target) }`))
		}
		if fd := funcDecl("File", "DeleteDefinedName"); fd == nil {
			fail("func DeleteDefinedName")
		} else {
			b := src(fd.Body)
			fmt.Fprintf(w, "def deleteDefinedNameByScope : Bool := %v\n",
				strings.Contains(b, "f.getDefinedNameScope(definedName.Scope)") &&
					strings.Contains(b, "sameDefinedNameScope(dn.LocalSheetID, localSheetID) && dn.Name == definedName.Name") &&
					strings.Contains(b, "return ErrDefinedNameScope"))
		}
		if fd := funcDecl("File", "copySheet"); fd == nil {
			fail("func copySheet")
		} else {
			b := src(fd.Body)
			fmt.Fprintf(w, "def copyTargetByPartPath : Bool := %v\n",
				strings.Contains(b, "f.workSheetReader(f.GetSheetName(to))") && strings.Contains(b, "sheetXMLPath, _ := f.getSheetXMLPath(f.GetSheetName(to))") &&
					strings.Contains(b, "f.Sheet.Store(sheetXMLPath, worksheet)"))
		}
		if fd := funcDecl("", "deleteAndAdjustDefinedNames"); fd == nil {
			fail("func deleteAndAdjustDefinedNames")
		} else {
			b := src(fd.Body)
			fmt.Fprintf(w, "def deleteAdjustsDefinedNames : Bool := %v\n",
				strings.Contains(b, "localSheetID == deleteLocalSheetID") && strings.Contains(b, "localSheetID > deleteLocalSheetID") &&
					strings.Contains(b, "intPtr(*dn.LocalSheetID - 1)"))
		}
		w.WriteString("\n/-! the template a NewFile starts from (templates.go) -/\n")
		wbT, ok1 := c16StringConst("templateWorkbook")
		relT, ok2 := c16StringConst("templateWorkbookRels")
		shT, ok3 := c16StringConst("templateSheet")
		if !ok1 || !ok2 || !ok3 {
			fail("templateWorkbook/templateWorkbookRels/templateSheet string constants")
			return
		}
		w.WriteString("/-- (name, sheetId, rId) -/\ndef templateSheets : List (String × Nat × Nat) := [")
		for i, m := range regexp.MustCompile(`<sheet name="([^"]*)" sheetId="(\d+)" r:id="rId(\d+)"`).FindAllStringSubmatch(wbT, -1) {
			if i > 0 {
				w.WriteString(", ")
			}
			fmt.Fprintf(w, "(%s, %s, %s)", leanStr(m[1]), m[2], m[3])
		}
		w.WriteString("]\n")
		at := "0"
		if m := regexp.MustCompile(`activeTab="(\d+)"`).FindStringSubmatch(wbT); m != nil {
			at = m[1]
		}
		fmt.Fprintf(w, "def templateActiveTab : Nat := %s\n", at)
		fmt.Fprintf(w, "def templateHasBookView : Bool := %v\n", strings.Contains(wbT, "<workbookView "))
		w.WriteString("/-- (rId, worksheet part number or 0 for a non-worksheet relationship) -/\ndef templateRels : List (Nat × Nat) := [")
		for i, m := range regexp.MustCompile(`<Relationship Id="rId(\d+)" Type="([^"]*)" Target="([^"]*)"`).FindAllStringSubmatch(relT, -1) {
			if i > 0 {
				w.WriteString(", ")
			}
			part := "0"
			if strings.HasSuffix(m[2], "/worksheet") {
				if pm := regexp.MustCompile(`worksheets/sheet(\d+)\.xml$`).FindStringSubmatch(m[3]); pm != nil {
					part = pm[1]
				}
			}
			fmt.Fprintf(w, "(%s, %s)", m[1], part)
		}
		w.WriteString("]\n")
		fmt.Fprintf(w, "def templateTabSelected : Bool := %v\n", strings.Contains(shT, `tabSelected="1"`))
	})
}
