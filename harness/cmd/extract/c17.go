package main

// C17 facts: the tables and constants of styles.go / numfmt.go / templates.go the style
// registry model (lean/XlModel/Styles.lean) is defined over.

import (
	"bytes"
	"encoding/hex"
	"encoding/xml"
	"fmt"
	"go/ast"
	"go/constant"
	"go/token"
	"sort"
	"strconv"
	"strings"
)

// c17Bytes renders a Go string as a Lean `List Char` of byte-valued chars.
func c17Bytes(s string) string {
	var b strings.Builder
	b.WriteByte('"')
	for i := 0; i < len(s); i++ {
		c := s[i]
		switch {
		case c == '"':
			b.WriteString(`\"`)
		case c == '\\':
			b.WriteString(`\\`)
		case c < 32 || c >= 127:
			fmt.Fprintf(&b, `\x%02x`, c)
		default:
			b.WriteByte(c)
		}
	}
	b.WriteString(`".toList`)
	return b.String()
}

func c17Hex(s string) string {
	if s == "" {
		return "-"
	}
	return hex.EncodeToString([]byte(s))
}

func c17StrList(name string) ([]string, bool) {
	e := constExpr(name)
	cl, ok := e.(*ast.CompositeLit)
	if !ok {
		return nil, false
	}
	var out []string
	for _, el := range cl.Elts {
		v, ok := evalConst(el, 0)
		if !ok || v.Kind() != constant.String {
			return nil, false
		}
		out = append(out, constant.StringVal(v))
	}
	return out, true
}

func c17IntStrMap(name string) (map[int]string, bool) {
	e := constExpr(name)
	cl, ok := e.(*ast.CompositeLit)
	if !ok {
		return nil, false
	}
	out := map[int]string{}
	for _, el := range cl.Elts {
		kv, ok := el.(*ast.KeyValueExpr)
		if !ok {
			return nil, false
		}
		k, ok1 := evalConst(kv.Key, 0)
		v, ok2 := evalConst(kv.Value, 0)
		if !ok1 || !ok2 || v.Kind() != constant.String {
			return nil, false
		}
		ki, ok := constant.Int64Val(constant.ToInt(k))
		if !ok {
			return nil, false
		}
		out[int(ki)] = constant.StringVal(v)
	}
	return out, true
}

func c17EmitStrList(w *bytes.Buffer, lean string, xs []string) {
	fmt.Fprintf(w, "def %s : List (List Char) := [\n", lean)
	for i, s := range xs {
		sep := ","
		if i == len(xs)-1 {
			sep = ""
		}
		fmt.Fprintf(w, "  %s%s\n", c17Bytes(s), sep)
	}
	w.WriteString("]\n\n")
}

func c17EmitMap(w *bytes.Buffer, lean string, m map[int]string) {
	keys := make([]int, 0, len(m))
	for k := range m {
		keys = append(keys, k)
	}
	sort.Ints(keys)
	fmt.Fprintf(w, "def %s : List (Int × List Char) := [\n", lean)
	for i, k := range keys {
		sep := ","
		if i == len(keys)-1 {
			sep = ""
		}
		fmt.Fprintf(w, "  (%d, %s)%s\n", k, c17Bytes(m[k]), sep)
	}
	w.WriteString("]\n\n")
}

// c17IntLits collects the integer literals of an expression in source order.
func c17IntLits(n ast.Node) []string {
	var out []string
	ast.Inspect(n, func(x ast.Node) bool {
		if bl, ok := x.(*ast.BasicLit); ok && bl.Kind == token.INT {
			out = append(out, bl.Value)
		}
		return true
	})
	return out
}

func c17Pairs(lits []string) string {
	var ps []string
	for i := 0; i+1 < len(lits); i += 2 {
		ps = append(ps, fmt.Sprintf("(%s, %s)", lits[i], lits[i+1]))
	}
	return "[" + strings.Join(ps, ", ") + "]"
}

func c17G(x float64) string { return strconv.FormatFloat(x, 'g', -1, 64) }

type c17TplColor struct {
	RGB     string  `xml:"rgb,attr"`
	Indexed int     `xml:"indexed,attr"`
	Theme   *int    `xml:"theme,attr"`
	Tint    float64 `xml:"tint,attr"`
}
type c17TplVal struct {
	Val string `xml:"val,attr"`
}
type c17TplFont struct {
	Inner  string       `xml:",innerxml"`
	Sz     *c17TplVal   `xml:"sz"`
	Color  *c17TplColor `xml:"color"`
	Name   *c17TplVal   `xml:"name"`
	Family *c17TplVal   `xml:"family"`
}
type c17TplFill struct {
	Inner   string `xml:",innerxml"`
	Pattern *struct {
		Type  string `xml:"patternType,attr"`
		Inner string `xml:",innerxml"`
	} `xml:"patternFill"`
}
type c17TplXf struct {
	NumFmtID int        `xml:"numFmtId,attr"`
	FontID   int        `xml:"fontId,attr"`
	FillID   int        `xml:"fillId,attr"`
	BorderID int        `xml:"borderId,attr"`
	Attrs    []xml.Attr `xml:",any,attr"`
	Inner    string     `xml:",innerxml"`
}
type c17Tpl struct {
	Fonts struct {
		Count int          `xml:"count,attr"`
		Font  []c17TplFont `xml:"font"`
	} `xml:"fonts"`
	Fills struct {
		Count int          `xml:"count,attr"`
		Fill  []c17TplFill `xml:"fill"`
	} `xml:"fills"`
	Borders struct {
		Count  int `xml:"count,attr"`
		Border []struct {
			Inner string `xml:",innerxml"`
		} `xml:"border"`
	} `xml:"borders"`
	NumFmts *struct{} `xml:"numFmts"`
	CellXfs struct {
		Count int        `xml:"count,attr"`
		Xf    []c17TplXf `xml:"xf"`
	} `xml:"cellXfs"`
}

func c17Template(w *bytes.Buffer) {
	e := constExpr("templateStyles")
	if e == nil {
		fail("const templateStyles")
		return
	}
	v, ok := evalConst(e, 0)
	if !ok || v.Kind() != constant.String {
		fail("templateStyles is not a string constant")
		return
	}
	var t c17Tpl
	if err := xml.Unmarshal([]byte(constant.StringVal(v)), &t); err != nil {
		fail("templateStyles does not parse: %v", err)
		return
	}
	w.WriteString("/-! the style sheet of NewFile() (templates.go templateStyles) -/\n")
	var fonts []string
	for _, f := range t.Fonts.Font {
		if f.Sz == nil || f.Name == nil || f.Family == nil || strings.Count(f.Inner, "<") != map[bool]int{true: 4, false: 3}[f.Color != nil] {
			fail("templateStyles: font with an unexpected shape: %s", f.Inner)
			return
		}
		sz, err := strconv.ParseFloat(f.Sz.Val, 64)
		if err != nil || sz*4 != float64(int(sz*4)) {
			fail("templateStyles: font size %q", f.Sz.Val)
			return
		}
		col := "none"
		if f.Color != nil {
			th := "none"
			if f.Color.Theme != nil {
				th = fmt.Sprintf("(some %d)", *f.Color.Theme)
			}
			if f.Color.Tint*8 != float64(int(f.Color.Tint*8)) {
				fail("templateStyles: font tint")
				return
			}
			col = fmt.Sprintf("(some (%s, %d, %s, %d))", c17Bytes(f.Color.RGB), f.Color.Indexed, th, int(f.Color.Tint*8))
		}
		fonts = append(fonts, fmt.Sprintf("(%d, %s, %s, %s)", int(sz*4), col, c17Bytes(f.Name.Val), f.Family.Val))
	}
	fmt.Fprintf(w, "def tplFonts : List (Int × Option (List Char × Int × Option Int × Int) × List Char × Int) := [%s]\n", strings.Join(fonts, ", "))
	fmt.Fprintf(w, "def tplFontsCount : Nat := %d\n", t.Fonts.Count)
	var fills []string
	for _, f := range t.Fills.Fill {
		if f.Pattern == nil || f.Pattern.Inner != "" || strings.Count(f.Inner, "<") != 1 {
			fail("templateStyles: fill with an unexpected shape: %s", f.Inner)
			return
		}
		fills = append(fills, c17Bytes(f.Pattern.Type))
	}
	fmt.Fprintf(w, "def tplFills : List (List Char) := [%s]\n", strings.Join(fills, ", "))
	fmt.Fprintf(w, "def tplFillsCount : Nat := %d\n", t.Fills.Count)
	for _, b := range t.Borders.Border {
		if b.Inner != "<left/><right/><top/><bottom/><diagonal/>" {
			fail("templateStyles: border with an unexpected shape: %s", b.Inner)
			return
		}
	}
	fmt.Fprintf(w, "def tplBorders : Nat := %d\n", len(t.Borders.Border))
	fmt.Fprintf(w, "def tplBordersCount : Nat := %d\n", t.Borders.Count)
	if t.NumFmts != nil {
		fail("templateStyles: numFmts present")
		return
	}
	var xfs []string
	for _, x := range t.CellXfs.Xf {
		if x.Inner != "" || len(x.Attrs) != 1 || x.Attrs[0].Name.Local != "xfId" {
			fail("templateStyles: cellXfs xf with an unexpected shape")
			return
		}
		xfs = append(xfs, fmt.Sprintf("(%d, %d, %d, %d)", x.NumFmtID, x.FontID, x.FillID, x.BorderID))
	}
	fmt.Fprintf(w, "def tplXfs : List (Nat × Nat × Nat × Nat) := [%s]\n", strings.Join(xfs, ", "))
	fmt.Fprintf(w, "def tplXfsCount : Nat := %d\n\n", t.CellXfs.Count)
}

func c17Variants(w *bytes.Buffer) {
	fl, ok := constExpr("styleFillVariants").(*ast.FuncLit)
	if !ok || len(fl.Body.List) != 1 {
		fail("styleFillVariants func literal")
		return
	}
	ret, ok := fl.Body.List[0].(*ast.ReturnStmt)
	if !ok || len(ret.Results) != 1 {
		fail("styleFillVariants return")
		return
	}
	cl, ok := ret.Results[0].(*ast.CompositeLit)
	if !ok {
		fail("styleFillVariants composite literal")
		return
	}
	w.WriteString("/-! styles.go styleFillVariants: (degree/type/left/right/top/bottom, stop positions, number of stops) -/\n")
	w.WriteString("def fillVariants : List (List Char × List Char × Nat) := [\n")
	for i, el := range cl.Elts {
		v, ok := el.(*ast.CompositeLit)
		if !ok {
			fail("styleFillVariants element %d", i)
			return
		}
		num := map[string]float64{}
		typ := ""
		var pos []string
		for _, f := range v.Elts {
			kv, ok := f.(*ast.KeyValueExpr)
			if !ok {
				fail("styleFillVariants element %d field", i)
				return
			}
			key := kv.Key.(*ast.Ident).Name
			switch key {
			case "Stop":
				sl, ok := kv.Value.(*ast.CompositeLit)
				if !ok {
					fail("styleFillVariants stops %d", i)
					return
				}
				for _, st := range sl.Elts {
					sc, ok := st.(*ast.CompositeLit)
					if !ok {
						fail("styleFillVariants stop %d", i)
						return
					}
					p := 0.0
					for _, sf := range sc.Elts {
						skv, ok := sf.(*ast.KeyValueExpr)
						if !ok || skv.Key.(*ast.Ident).Name != "Position" {
							fail("styleFillVariants stop field %d (a preset stop colour would not be modelled)", i)
							return
						}
						cv, ok := evalConst(skv.Value, 0)
						if !ok {
							fail("styleFillVariants stop position %d", i)
							return
						}
						p, _ = constant.Float64Val(constant.ToFloat(cv))
					}
					pos = append(pos, c17G(p))
				}
			case "Type":
				cv, ok := evalConst(kv.Value, 0)
				if !ok || cv.Kind() != constant.String {
					fail("styleFillVariants type %d", i)
					return
				}
				typ = constant.StringVal(cv)
			case "Degree", "Left", "Right", "Top", "Bottom":
				cv, ok := evalConst(kv.Value, 0)
				if !ok {
					fail("styleFillVariants %s %d", key, i)
					return
				}
				num[key], _ = constant.Float64Val(constant.ToFloat(cv))
			default:
				fail("styleFillVariants unknown field %s", key)
				return
			}
		}
		key := fmt.Sprintf("%s/%s/%s/%s/%s/%s", c17G(num["Degree"]), c17Hex(typ), c17G(num["Left"]), c17G(num["Right"]), c17G(num["Top"]), c17G(num["Bottom"]))
		sep := ","
		if i == len(cl.Elts)-1 {
			sep = ""
		}
		fmt.Fprintf(w, "  (%s, %s, %d)%s\n", c17Bytes(key), c17Bytes(strings.Join(pos, ",")), len(pos), sep)
	}
	w.WriteString("]\n\n")
}

func init() {
	addSection("C17", func(w *bytes.Buffer) {
		c17Template(w)
		for _, t := range [][2]string{{"styleBorders", "styleBorders"}, {"styleFillPatterns", "styleFillPatterns"}, {"supportedUnderlineTypes", "underlineTypes"}} {
			xs, ok := c17StrList(t[0])
			if !ok {
				fail("string table %s", t[0])
				continue
			}
			fmt.Fprintf(w, "/-! %s -/\n", t[0])
			c17EmitStrList(w, t[1], xs)
		}
		if xs, ok := c17StrList("IndexedColorMapping"); ok && len(xs) > 0 {
			fmt.Fprintf(w, "/-! templates.go IndexedColorMapping: length and entry 0 -/\ndef indexedColorCount : Nat := %d\ndef indexedColor0 : List Char := %s\n\n", len(xs), c17Bytes(xs[0]))
		} else {
			fail("IndexedColorMapping")
		}
		c17Variants(w)
		for _, t := range [][2]string{{"builtInNumFmt", "builtInNumFmt"}, {"currencyNumFmt", "currencyNumFmt"}} {
			m, ok := c17IntStrMap(t[0])
			if !ok {
				fail("map literal %s", t[0])
				continue
			}
			fmt.Fprintf(w, "/-! numfmt.go %s -/\n", t[0])
			c17EmitMap(w, t[1], m)
		}
		// isLangNumFmt: return (a <= ID && ID <= b) || ...
		if fd := funcDecl("", "isLangNumFmt"); fd != nil && len(fd.Body.List) == 1 {
			lits := c17IntLits(fd.Body.List[0])
			if len(lits) == 0 || len(lits)%2 != 0 {
				fail("isLangNumFmt: range literals")
			}
			fmt.Fprintf(w, "/-! styles.go isLangNumFmt: `%s` -/\ndef langRanges : List (Int × Int) := %s\n\n", strings.TrimSpace(src(fd.Body.List[0])), c17Pairs(lits))
		} else {
			fail("func isLangNumFmt with a single return")
		}
		// getNumFmtID: the second if statement holds the literal id ranges
		if fd := funcDecl("", "getNumFmtID"); fd != nil {
			var cond ast.Expr
			n := 0
			for _, st := range fd.Body.List {
				if is, ok := st.(*ast.IfStmt); ok {
					n++
					if n == 2 && is.Init == nil {
						cond = is.Cond
					}
				}
			}
			if cond == nil {
				fail("getNumFmtID: second if with the id ranges")
			} else {
				lits := c17IntLits(cond)
				if ce, ok := cond.(*ast.CallExpr); ok {
					// the condition delegates to isLangNumFmt: same ranges
					if id, ok := ce.Fun.(*ast.Ident); ok && id.Name == "isLangNumFmt" {
						if lf := funcDecl("", "isLangNumFmt"); lf != nil && len(lf.Body.List) == 1 {
							lits = c17IntLits(lf.Body.List[0])
						}
					}
				}
				if len(lits) == 0 || len(lits)%2 != 0 {
					fail("getNumFmtID: range literals")
				}
				fmt.Fprintf(w, "/-! styles.go getNumFmtID: `%s` -/\ndef getNumFmtRanges : List (Int × Int) := %s\n\n", src(cond), c17Pairs(lits))
			}
			// the value getNumFmtID yields for a currency format whose code is not stored yet
			body := src(fd.Body)
			if v, ok := intConst("unregisteredNumFmtID"); ok && strings.Contains(body, "numFmtID = unregisteredNumFmtID") {
				fmt.Fprintf(w, "/-! styles.go getNumFmtID: currency format code not in numFmts -/\ndef currencyUnregisteredId : Int := %s\n\n", v)
			} else {
				fail("getNumFmtID: `numFmtID = unregisteredNumFmtID` in the currency branch")
			}
		} else {
			fail("func getNumFmtID")
		}
		// getCustomNumFmtID: custom format codes are compared for exact equality
		if fd := funcDecl("", "getCustomNumFmtID"); fd != nil {
			body := src(fd.Body)
			n := 0
			ast.Inspect(fd.Body, func(x ast.Node) bool {
				if be, ok := x.(*ast.BinaryExpr); ok && be.Op == token.EQL {
					if strings.Contains(src(be), "FormatCode") && strings.Contains(src(be), "CustomNumFmt") {
						n++
					}
				}
				return true
			})
			if n == 1 && !strings.Contains(body, "EqualFold") && !strings.Contains(body, "ToLower") && !strings.Contains(body, "ToUpper") && !strings.Contains(body, "TrimSpace") {
				w.WriteString("/-! styles.go getCustomNumFmtID: `numFmt.FormatCode == *style.CustomNumFmt` (exact byte equality) -/\ndef customCodeExactEq : Bool := true\n\n")
			} else {
				fail("getCustomNumFmtID: exact comparison `numFmt.FormatCode == *style.CustomNumFmt`")
			}
		} else {
			fail("func getCustomNumFmtID")
		}
	})
}
