package main

// C18 facts: the replacer tables of the formula escapers, the field lists and
// helper used by each reflection-routed setter/getter, the declarations of the
// option/part structs they copy between, the kinds assignFieldValue handles,
// the enumerations SetCalcProps validates, the constants of genSheetPasswd and
// the defined-name character ranges.

import (
	"bytes"
	"fmt"
	"go/ast"
	"go/token"
	"sort"
	"strings"
)

func c18ReplacerArgs(call *ast.CallExpr) ([]string, bool) {
	sel, ok := call.Fun.(*ast.SelectorExpr)
	if !ok || sel.Sel.Name != "NewReplacer" {
		return nil, false
	}
	var out []string
	for _, a := range call.Args {
		bl, ok := a.(*ast.BasicLit)
		if !ok || bl.Kind != token.STRING {
			return nil, false
		}
		out = append(out, unq(bl.Value))
	}
	return out, len(out)%2 == 0 && len(out) > 0
}

func c18EmitTable(w *bytes.Buffer, name string, args []string) {
	fmt.Fprintf(w, "def %s : List (String × String) := [", name)
	for i := 0; i+1 < len(args); i += 2 {
		if i > 0 {
			w.WriteString(", ")
		}
		fmt.Fprintf(w, "(%s, %s)", leanStr(args[i]), leanStr(args[i+1]))
	}
	w.WriteString("]\n")
}

func c18StrList(xs []string) string {
	q := make([]string, len(xs))
	for i, x := range xs {
		q[i] = leanStr(x)
	}
	return "[" + strings.Join(q, ", ") + "]"
}

// first strings.NewReplacer(...) call inside a function body
func c18ReplacerIn(fn *ast.FuncDecl) ([]string, bool) {
	var res []string
	found := false
	ast.Inspect(fn.Body, func(n ast.Node) bool {
		if found {
			return false
		}
		if c, ok := n.(*ast.CallExpr); ok {
			if a, ok := c18ReplacerArgs(c); ok {
				res, found = a, true
			}
		}
		return true
	})
	return res, found
}

func c18StructDecl(name string) *ast.StructType {
	for _, f := range files {
		for _, d := range f.Decls {
			gd, ok := d.(*ast.GenDecl)
			if !ok || gd.Tok != token.TYPE {
				continue
			}
			for _, s := range gd.Specs {
				ts := s.(*ast.TypeSpec)
				if ts.Name.Name == name {
					if st, ok := ts.Type.(*ast.StructType); ok {
						return st
					}
				}
			}
		}
	}
	return nil
}

func init() {
	addSection("C18", func(w *bytes.Buffer) {
		w.WriteString("/-! formula escapers (datavalidation.go) -/\n")
		for _, n := range []string{"formulaEscaper", "formulaUnescaper"} {
			e := constExpr(n)
			c, ok := e.(*ast.CallExpr)
			if e == nil || !ok {
				fail("var %s = strings.NewReplacer(...)", n)
				continue
			}
			args, ok := c18ReplacerArgs(c)
			if !ok {
				fail("literal arguments of %s", n)
				continue
			}
			c18EmitTable(w, n+"Table", args)
		}
		for _, p := range [][2]string{{"SetDropList", "dropListQuoter"}, {"unescapeDataValidationFormula", "dropListUnquoter"}} {
			recv := ""
			if p[0] == "SetDropList" {
				recv = "DataValidation"
			}
			fn := funcDecl(recv, p[0])
			if fn == nil {
				fail("func %s", p[0])
				continue
			}
			args, ok := c18ReplacerIn(fn)
			if !ok {
				fail("strings.NewReplacer literal in %s", p[0])
				continue
			}
			c18EmitTable(w, p[1]+"Table", args)
		}
		w.WriteString("\n/-! call sites of the escapers: (function, number of `.Replace` calls) -/\n")
		for _, v := range []string{"formulaEscaper", "formulaUnescaper"} {
			counts := map[string]int{}
			for _, f := range files {
				for _, d := range f.Decls {
					fd, ok := d.(*ast.FuncDecl)
					if !ok || fd.Body == nil {
						continue
					}
					ast.Inspect(fd.Body, func(n ast.Node) bool {
						c, ok := n.(*ast.CallExpr)
						if !ok {
							return true
						}
						sel, ok := c.Fun.(*ast.SelectorExpr)
						if !ok || sel.Sel.Name != "Replace" {
							return true
						}
						if id, ok := sel.X.(*ast.Ident); ok && id.Name == v {
							counts[fd.Name.Name]++
						}
						return true
					})
				}
			}
			var names []string
			for n := range counts {
				names = append(names, n)
			}
			sort.Strings(names)
			var items []string
			for _, n := range names {
				items = append(items, fmt.Sprintf("(%s, %d)", leanStr(n), counts[n]))
			}
			if len(items) == 0 {
				fail("no call of %s.Replace left", v)
			}
			fmt.Fprintf(w, "def %sCallers : List (String × Nat) := [%s]\n", v, strings.Join(items, ", "))
		}
		w.WriteString("\n/-! reflection-routed setters/getters: helper and field list per call site -/\n")
		for _, fnName := range []string{"SetWorkbookProps", "GetWorkbookProps", "SetCalcProps", "GetCalcProps", "SetAppProps", "SetDocProps"} {
			fn := funcDecl("File", fnName)
			if fn == nil {
				fail("func (f *File) %s", fnName)
				continue
			}
			helper, fields := "", []string(nil)
			ast.Inspect(fn.Body, func(n ast.Node) bool {
				c, ok := n.(*ast.CallExpr)
				if !ok || helper != "" {
					return true
				}
				id, ok := c.Fun.(*ast.Ident)
				if !ok || (id.Name != "setNoPtrFieldsVal" && id.Name != "setPtrFieldsVal") || len(c.Args) != 3 {
					return true
				}
				cl, ok := c.Args[0].(*ast.CompositeLit)
				if !ok {
					return true
				}
				for _, e := range cl.Elts {
					if bl, ok := e.(*ast.BasicLit); ok && bl.Kind == token.STRING {
						fields = append(fields, unq(bl.Value))
					}
				}
				helper = id.Name
				return true
			})
			if helper == "" {
				fail("%s no longer calls setNoPtrFieldsVal/setPtrFieldsVal with a literal field list", fnName)
				continue
			}
			fmt.Fprintf(w, "def helper_%s : String := %s\n", fnName, leanStr(helper))
			fmt.Fprintf(w, "def fields_%s : List String := %s\n", fnName, c18StrList(fields))
		}
		w.WriteString("\n/-! struct declarations: (field, isPointer, type name) -/\n")
		for _, sn := range []string{"WorkbookPropsOptions", "xlsxWorkbookPr", "CalcPropsOptions", "xlsxCalcPr", "AppProperties", "xlsxProperties", "DocProperties", "xlsxCoreProperties"} {
			st := c18StructDecl(sn)
			if st == nil {
				fail("type %s struct", sn)
				continue
			}
			var items []string
			for _, f := range st.Fields.List {
				t, ptr := f.Type, false
				if s, ok := t.(*ast.StarExpr); ok {
					t, ptr = s.X, true
				}
				tn := src(t)
				for _, n := range f.Names {
					items = append(items, fmt.Sprintf("(%s, %v, %s)", leanStr(n.Name), ptr, leanStr(tn)))
				}
			}
			fmt.Fprintf(w, "def struct_%s : List (String × Bool × String) := [%s]\n", sn, strings.Join(items, ", "))
		}
		w.WriteString("\n/-! assignFieldValue: reflect kinds with their own case (everything else goes to SetString) -/\n")
		if fn := funcDecl("", "assignFieldValue"); fn == nil {
			fail("func assignFieldValue")
		} else {
			var kinds []string
			ast.Inspect(fn.Body, func(n ast.Node) bool {
				if cc, ok := n.(*ast.CaseClause); ok {
					for _, e := range cc.List {
						if s, ok := e.(*ast.SelectorExpr); ok {
							kinds = append(kinds, s.Sel.Name)
						}
					}
				}
				return true
			})
			fmt.Fprintf(w, "def assignKinds : List String := %s\n", c18StrList(kinds))
		}
		w.WriteString("\n/-! enumerations validated by SetCalcProps -/\n")
		for _, n := range []string{"supportedCalcMode", "supportedRefMode"} {
			cl, ok := constExpr(n).(*ast.CompositeLit)
			if !ok {
				fail("var %s = []string{...}", n)
				continue
			}
			var xs []string
			for _, e := range cl.Elts {
				if bl, ok := e.(*ast.BasicLit); ok {
					xs = append(xs, unq(bl.Value))
				}
			}
			fmt.Fprintf(w, "def %s : List String := %s\n", n, c18StrList(xs))
		}
		w.WriteString("\n/-! genSheetPasswd constants (lib.go) -/\n")
		if fn := funcDecl("", "genSheetPasswd"); fn == nil {
			fail("func genSheetPasswd")
		} else {
			mask, xorc, rot := "", "", ""
			ast.Inspect(fn.Body, func(n ast.Node) bool {
				switch x := n.(type) {
				case *ast.AssignStmt:
					if len(x.Rhs) == 1 {
						if bl, ok := x.Rhs[0].(*ast.BasicLit); ok && bl.Kind == token.INT {
							if x.Tok == token.AND_ASSIGN {
								mask = bl.Value
							}
							if x.Tok == token.XOR_ASSIGN {
								xorc = bl.Value
							}
						}
					}
				case *ast.BinaryExpr:
					if x.Op == token.SHR {
						if bl, ok := x.Y.(*ast.BasicLit); ok {
							rot = bl.Value
						}
					}
				}
				return true
			})
			if mask == "" || xorc == "" || rot == "" {
				fail("genSheetPasswd: `value &= <lit>`, `password ^= <lit>`, `value >> <lit>`")
			} else {
				fmt.Fprintf(w, "def xorMask : Nat := %s\ndef xorConst : Nat := %s\ndef xorRot : Nat := %s\n", mask, xorc, rot)
			}
		}
		w.WriteString("\n/-! defined names -/\n")
		for _, n := range []string{"supportedDefinedNameAtStartCharCodeRange", "supportedDefinedNameAfterStartCharCodeRange"} {
			cl, ok := constExpr(n).(*ast.CompositeLit)
			if !ok {
				fail("var %s = []int{...}", n)
				continue
			}
			var xs []string
			for _, e := range cl.Elts {
				if bl, ok := e.(*ast.BasicLit); ok {
					xs = append(xs, bl.Value)
				}
			}
			fmt.Fprintf(w, "def %s : List Nat := [%s]\n", n, strings.Join(xs, ", "))
		}
		if cl, ok := constExpr("builtInDefinedNames").(*ast.CompositeLit); ok {
			var xs []string
			for _, e := range cl.Elts {
				if bl, ok := e.(*ast.BasicLit); ok {
					xs = append(xs, unq(bl.Value))
				}
			}
			fmt.Fprintf(w, "def builtInDefinedNames : List String := %s\n", c18StrList(xs))
		} else {
			fail("var builtInDefinedNames")
		}
		w.WriteString("\n/-! protection: stored flag <- option field (inverted?), constant flags, algorithms, spin counts -/\n")
		c18ProtFlags(w, "ProtectSheet", "xlsxSheetProtection", "sheetProt")
		c18ProtFlags(w, "ProtectWorkbook", "xlsxWorkbookProtection", "workbookProt")
		if fn := funcDecl("", "genISOPasswdHash"); fn == nil {
			fail("func genISOPasswdHash")
		} else {
			var algs []string
			ast.Inspect(fn.Body, func(n ast.Node) bool {
				cl, ok := n.(*ast.CompositeLit)
				if !ok || algs != nil {
					return true
				}
				if mt, ok := cl.Type.(*ast.MapType); ok && src(mt.Key) == "string" {
					for _, e := range cl.Elts {
						if kv, ok := e.(*ast.KeyValueExpr); ok {
							if bl, ok := kv.Key.(*ast.BasicLit); ok {
								algs = append(algs, unq(bl.Value))
							}
						}
					}
				}
				return true
			})
			if len(algs) == 0 {
				fail("genISOPasswdHash: literal map of algorithm names")
			}
			fmt.Fprintf(w, "def isoAlgorithms : List String := %s\n", c18StrList(algs))
		}
		for _, n := range []string{"sheetProtectionSpinCount", "workbookProtectionSpinCount"} {
			if v, ok := intConst(n); ok {
				fmt.Fprintf(w, "def %s : Nat := %s\n", n, v)
			} else {
				fail("constant %s", n)
			}
		}
		w.WriteString("\n/-! silently-ignoring guards: setSheetView (View list, ZoomScale bounds), setPageSetUp (FirstPageNumber) -/\n")
		if fn := funcDecl("xlsxSheetView", "setSheetView"); fn == nil {
			fail("func (view *xlsxSheetView) setSheetView")
		} else {
			var names []string
			lo, hi := "", ""
			ast.Inspect(fn.Body, func(n ast.Node) bool {
				switch x := n.(type) {
				case *ast.CompositeLit:
					if at, ok := x.Type.(*ast.ArrayType); ok && src(at.Elt) == "string" && names == nil {
						for _, e := range x.Elts {
							if bl, ok := e.(*ast.BasicLit); ok {
								names = append(names, unq(bl.Value))
							}
						}
					}
				case *ast.BinaryExpr:
					if bl, ok := x.Y.(*ast.BasicLit); ok && strings.Contains(src(x.X), "ZoomScale") {
						if x.Op == token.GEQ {
							lo = bl.Value
						}
						if x.Op == token.LEQ {
							hi = bl.Value
						}
					}
				}
				return true
			})
			if names == nil || lo == "" || hi == "" {
				fail("setSheetView: View name list and `ZoomScale >= lo && ZoomScale <= hi`")
			} else {
				fmt.Fprintf(w, "def sheetViewNames : List String := %s\ndef zoomMin : Nat := %s\ndef zoomMax : Nat := %s\n", c18StrList(names), lo, hi)
			}
		}
		if fn := funcDecl("xlsxWorksheet", "setPageSetUp"); fn == nil {
			fail("func (ws *xlsxWorksheet) setPageSetUp")
		} else {
			// FirstPageNumber is stored whenever it is given: no literal guard on its value
			guarded := false
			ast.Inspect(fn.Body, func(n ast.Node) bool {
				if x, ok := n.(*ast.BinaryExpr); ok && strings.Contains(src(x.X), "*opts.FirstPageNumber") {
					if _, ok := x.Y.(*ast.BasicLit); ok {
						guarded = true
					}
				}
				return true
			})
			fmt.Fprintf(w, "def firstPageNumberGuarded : Bool := %v\n", guarded)
		}
		w.WriteString("\n/-! data validations: enum constants in iota order with the strings of the two maps, error styles -/\n")
		c18EnumMap(w, "DataValidationType", "dataValidationTypeMap", "dvTypeNames")
		c18EnumMap(w, "DataValidationOperator", "dataValidationOperatorMap", "dvOperatorNames")
		{
			var styles []string
			for _, n := range []string{"styleStop", "styleWarning", "styleInformation"} {
				if bl, ok := constExpr(n).(*ast.BasicLit); ok {
					styles = append(styles, unq(bl.Value))
				}
			}
			consts := c18IotaNames("DataValidationErrorStyle")
			if len(styles) != 3 || len(consts) != 3 || consts[0] != "DataValidationErrorStyleStop" || consts[1] != "DataValidationErrorStyleWarning" || consts[2] != "DataValidationErrorStyleInformation" {
				fail("error style constants stop/warning/information in iota order 1..3")
			} else {
				fmt.Fprintf(w, "def dvErrorStyles : List String := %s\n", c18StrList(styles))
			}
		}
		w.WriteString("\n/-! XML struct tags: (Go field, XML name, attribute?, omitempty?, pointer?, Go type) in declaration order -/\n")
		for _, sn := range []string{"xlsxSheetProtection", "xlsxWorkbookProtection", "xlsxDataValidation"} {
			st := c18StructDecl(sn)
			if st == nil {
				fail("type %s struct", sn)
				continue
			}
			var items []string
			for _, f := range st.Fields.List {
				if f.Tag == nil || len(f.Names) != 1 || f.Names[0].Name == "XMLName" {
					continue
				}
				tag := c18ReflectTag(unq(f.Tag.Value), "xml")
				parts := strings.Split(tag, ",")
				attr, omit := false, false
				for _, p := range parts[1:] {
					if p == "attr" {
						attr = true
					}
					if p == "omitempty" {
						omit = true
					}
				}
				t, ptr := f.Type, false
				if se, ok := t.(*ast.StarExpr); ok {
					t, ptr = se.X, true
				}
				items = append(items, fmt.Sprintf("(%s, %s, %v, %v, %v, %s)", leanStr(f.Names[0].Name), leanStr(parts[0]), attr, omit, ptr, leanStr(src(t))))
			}
			fmt.Fprintf(w, "def tags_%s : List (String × String × Bool × Bool × Bool × String) := [%s]\n", sn, strings.Join(items, ", "))
		}
		w.WriteString("\n/-! conditional formats: type and criteria tables (styles.go) -/\n")
		for _, n := range []string{"validType", "criteriaType", "operatorType"} {
			c18StrMap(w, n, true)
		}
		for _, n := range []string{"drawContFmtFunc", "extractContFmtFunc", "condFmtIconSetPresets"} {
			c18StrMap(w, n, false)
		}
		if cl, ok := constExpr("cellIsCriteriaType").(*ast.CompositeLit); ok {
			var xs []string
			for _, e := range cl.Elts {
				if bl, ok := e.(*ast.BasicLit); ok {
					xs = append(xs, unq(bl.Value))
				}
			}
			fmt.Fprintf(w, "def cellIsCriteriaType : List String := %s\n", c18StrList(xs))
		} else {
			fail("var cellIsCriteriaType = []string{...}")
		}
		if fn := funcDecl("File", "SetConditionalFormat"); fn == nil {
			fail("func (f *File) SetConditionalFormat")
		} else {
			var xs []string
			ast.Inspect(fn.Body, func(n ast.Node) bool {
				vs, ok := n.(*ast.ValueSpec)
				if !ok {
					return true
				}
				for i, nm := range vs.Names {
					if nm.Name == "noCriteriaTypes" && i < len(vs.Values) {
						if cl, ok := vs.Values[i].(*ast.CompositeLit); ok {
							for _, e := range cl.Elts {
								if bl, ok := e.(*ast.BasicLit); ok {
									xs = append(xs, unq(bl.Value))
								}
							}
						}
					}
				}
				return true
			})
			if xs == nil {
				fail("SetConditionalFormat: noCriteriaTypes = []string{...}")
			}
			fmt.Fprintf(w, "def noCriteriaTypes : List String := %s\n", c18StrList(xs))
		}
		c18MarginFacts(w)
		c18HFFacts(w)
	})
}

// c18StrMap emits a map[string]string literal as an association list, or only its keys.
func c18StrMap(w *bytes.Buffer, name string, withValues bool) {
	cl, ok := constExpr(name).(*ast.CompositeLit)
	if !ok {
		fail("var %s = map[string]...{...}", name)
		return
	}
	var items []string
	for _, e := range cl.Elts {
		kv, ok := e.(*ast.KeyValueExpr)
		if !ok {
			continue
		}
		k, ok := kv.Key.(*ast.BasicLit)
		if !ok {
			continue
		}
		if !withValues {
			items = append(items, leanStr(unq(k.Value)))
			continue
		}
		if v, ok := kv.Value.(*ast.BasicLit); ok {
			items = append(items, fmt.Sprintf("(%s, %s)", leanStr(unq(k.Value)), leanStr(unq(v.Value))))
		}
	}
	if len(items) == 0 {
		fail("%s: no literal entries", name)
	}
	if withValues {
		fmt.Fprintf(w, "def %s : List (String × String) := [%s]\n", name, strings.Join(items, ", "))
	} else {
		fmt.Fprintf(w, "def %sKeys : List String := [%s]\n", name, strings.Join(items, ", "))
	}
}

// c18ProtFlags reads the composite literal &<typ>{...} in a Protect* function:
// `Stored: !opts.Option` / `Stored: opts.Option` / `Stored: true`.
func c18ProtFlags(w *bytes.Buffer, fnName, typ, prefix string) {
	fn := funcDecl("File", fnName)
	if fn == nil {
		fail("func (f *File) %s", fnName)
		return
	}
	var flags, consts []string
	found := false
	ast.Inspect(fn.Body, func(n ast.Node) bool {
		cl, ok := n.(*ast.CompositeLit)
		if !ok || found {
			return true
		}
		if id, ok := cl.Type.(*ast.Ident); !ok || id.Name != typ {
			return true
		}
		found = true
		for _, e := range cl.Elts {
			kv, ok := e.(*ast.KeyValueExpr)
			if !ok {
				continue
			}
			stored := src(kv.Key)
			val, inv := kv.Value, false
			if u, ok := val.(*ast.UnaryExpr); ok && u.Op == token.NOT {
				val, inv = u.X, true
			}
			switch v := val.(type) {
			case *ast.SelectorExpr:
				if x, ok := v.X.(*ast.Ident); ok && x.Name == "opts" {
					flags = append(flags, fmt.Sprintf("(%s, %s, %v)", leanStr(stored), leanStr(v.Sel.Name), inv))
					continue
				}
			case *ast.Ident:
				if v.Name == "true" || v.Name == "false" {
					consts = append(consts, fmt.Sprintf("(%s, %v)", leanStr(stored), (v.Name == "true") != inv))
					continue
				}
			}
			fail("%s: unexpected initialiser %s: %s", fnName, stored, src(kv.Value))
		}
		return true
	})
	if !found {
		fail("%s: composite literal &%s{...}", fnName, typ)
	}
	fmt.Fprintf(w, "def %sFlags : List (String × String × Bool) := [%s]\n", prefix, strings.Join(flags, ", "))
	fmt.Fprintf(w, "def %sConsts : List (String × Bool) := [%s]\n", prefix, strings.Join(consts, ", "))
}

// c18IotaNames: names of the const block whose first spec has the given type (iota order, `_` skipped:
// the first real name has value 1).
func c18IotaNames(typ string) []string {
	for _, f := range files {
		for _, d := range f.Decls {
			gd, ok := d.(*ast.GenDecl)
			if !ok || gd.Tok != token.CONST || len(gd.Specs) == 0 {
				continue
			}
			first := gd.Specs[0].(*ast.ValueSpec)
			if id, ok := first.Type.(*ast.Ident); !ok || id.Name != typ {
				continue
			}
			if len(first.Names) != 1 || first.Names[0].Name != "_" {
				return nil
			}
			var names []string
			for _, sp := range gd.Specs[1:] {
				for _, n := range sp.(*ast.ValueSpec).Names {
					names = append(names, n.Name)
				}
			}
			return names
		}
	}
	return nil
}

// c18EnumMap emits, for the enum constants 1..n in iota order, the string the map literal gives them.
func c18EnumMap(w *bytes.Buffer, typ, mapName, leanName string) {
	names := c18IotaNames(typ)
	cl, ok := constExpr(mapName).(*ast.CompositeLit)
	if names == nil || !ok {
		fail("const block of %s starting with `_ %s = iota` and map literal %s", typ, typ, mapName)
		return
	}
	m := map[string]string{}
	for _, e := range cl.Elts {
		if kv, ok := e.(*ast.KeyValueExpr); ok {
			if k, ok := kv.Key.(*ast.Ident); ok {
				if v, ok := kv.Value.(*ast.BasicLit); ok {
					m[k.Name] = unq(v.Value)
				}
			}
		}
	}
	var vals []string
	for _, n := range names {
		vals = append(vals, m[n]) // a constant without map entry yields "" as in Go
	}
	fmt.Fprintf(w, "def %s : List String := %s\n", leanName, c18StrList(vals))
}

// c18ReflectTag returns the value of key in a struct tag string (as reflect.StructTag.Get).
func c18ReflectTag(tag, key string) string {
	for tag != "" {
		i := 0
		for i < len(tag) && tag[i] == ' ' {
			i++
		}
		tag = tag[i:]
		if tag == "" {
			break
		}
		i = 0
		for i < len(tag) && tag[i] > ' ' && tag[i] != ':' && tag[i] != '"' {
			i++
		}
		if i == 0 || i+1 >= len(tag) || tag[i] != ':' || tag[i+1] != '"' {
			break
		}
		name := tag[:i]
		tag = tag[i+1:]
		i = 1
		for i < len(tag) && tag[i] != '"' {
			if tag[i] == '\\' {
				i++
			}
			i++
		}
		if i >= len(tag) {
			break
		}
		q := tag[:i+1]
		tag = tag[i+1:]
		if name == key {
			return unq(q)
		}
	}
	return ""
}
