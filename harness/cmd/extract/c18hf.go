package main

// C18 facts for SetHeaderFooter / GetHeaderFooter (sheet.go): the fields of the option struct and of
// xlsxHeaderFooter, the bounds of the length-check loop, the copy literals of setter and getter.

import (
	"bytes"
	"fmt"
	"go/ast"
	"strings"
)

func c18HFFacts(w *bytes.Buffer) {
	w.WriteString("\n/-! header / footer (sheet.go) -/\n")
	fields := func(name string) [][2]string {
		st := c18StructDecl(name)
		if st == nil {
			fail("type %s struct", name)
			return nil
		}
		var out [][2]string
		for _, fl := range st.Fields.List {
			for _, n := range fl.Names {
				if n.Name != "XMLName" {
					out = append(out, [2]string{n.Name, src(fl.Type)})
				}
			}
		}
		return out
	}
	lit := func(fn *ast.FuncDecl, typ, prefix string) [][2]string {
		var out [][2]string
		ast.Inspect(fn.Body, func(n ast.Node) bool {
			if cl, ok := n.(*ast.CompositeLit); ok && src(cl.Type) == typ {
				for _, e := range cl.Elts {
					if kv, ok := e.(*ast.KeyValueExpr); ok {
						out = append(out, [2]string{src(kv.Key), strings.TrimPrefix(src(kv.Value), prefix)})
					}
				}
			}
			return true
		})
		return out
	}
	from, minus, checked, nilClears := "", "", "", false
	var setC, getC [][2]string
	if fn := funcDecl("File", "SetHeaderFooter"); fn == nil {
		fail("func (f *File) SetHeaderFooter")
	} else {
		setC = lit(fn, "xlsxHeaderFooter", "opts.")
		ast.Inspect(fn.Body, func(n ast.Node) bool {
			switch x := n.(type) {
			case *ast.ForStmt:
				if as, ok := x.Init.(*ast.AssignStmt); ok && len(as.Rhs) == 1 {
					from = src(as.Rhs[0])
				}
				if b, ok := x.Cond.(*ast.BinaryExpr); ok && b.Op.String() == "<" && strings.HasPrefix(src(b.Y), "v.NumField()-") {
					minus = strings.TrimPrefix(src(b.Y), "v.NumField()-")
				}
				ast.Inspect(x.Body, func(m ast.Node) bool {
					if c, ok := m.(*ast.BinaryExpr); ok && c.Op.String() == ">" && src(c.Y) == "MaxFieldLength" {
						checked = strings.ReplaceAll(src(c.X), " ", "")
					}
					return true
				})
			case *ast.IfStmt:
				if src(x.Cond) == "opts == nil" && len(x.Body.List) == 2 && src(x.Body.List[0]) == "ws.HeaderFooter = nil" {
					nilClears = true
				}
			}
			return true
		})
	}
	if fn := funcDecl("File", "GetHeaderFooter"); fn == nil {
		fail("func (f *File) GetHeaderFooter")
	} else {
		getC = lit(fn, "HeaderFooterOptions", "ws.HeaderFooter.")
	}
	if from == "" || minus == "" || !nilClears || setC == nil || getC == nil || checked != "len(utf16.Encode([]rune(v.Field(i).String())))" {
		fail("SetHeaderFooter / GetHeaderFooter: nil clears, length loop `for i := a; i < v.NumField()-b` over utf16 length, copy literals")
		from, minus = "0", "0"
	}
	fmt.Fprintf(w, "def hfOptFields : List (String × String) := %s\ndef hfPartFields : List (String × String) := %s\ndef hfLoopFrom : Nat := %s\ndef hfLoopMinus : Nat := %s\ndef hfSetCopies : List (String × String) := %s\ndef hfGetCopies : List (String × String) := %s\n",
		c18Pairs(fields("HeaderFooterOptions")), c18Pairs(fields("xlsxHeaderFooter")), from, minus, c18Pairs(setC), c18Pairs(getC))
}
