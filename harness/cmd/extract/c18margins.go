package main

// C18 facts for SetPageMargins / GetPageMargins (sheetpr.go): the option struct's pointer-to-float64
// fields the reflect loop walks (loop bound pinned), the float64 fields of xlsxPageMargins, the
// default literal of preparePageMargins, the default literal and the copy assignments of the getter.

import (
	"bytes"
	"fmt"
	"go/ast"
	"strconv"
	"strings"
)

func c18FloatText(s string) string {
	v, err := strconv.ParseFloat(s, 64)
	if err != nil {
		return s
	}
	return strconv.FormatFloat(v, 'g', -1, 64)
}

func c18Pairs(xs [][2]string) string {
	var b strings.Builder
	b.WriteString("[")
	for i, p := range xs {
		if i > 0 {
			b.WriteString(", ")
		}
		fmt.Fprintf(&b, "(%s, %s)", leanStr(p[0]), leanStr(p[1]))
	}
	b.WriteString("]")
	return b.String()
}

func c18MarginFacts(w *bytes.Buffer) {
	w.WriteString("\n/-! page margins (sheetpr.go) -/\n")
	var optF, optOther, partF []string
	if st := c18StructDecl("PageLayoutMarginsOptions"); st == nil {
		fail("type PageLayoutMarginsOptions struct")
	} else {
		for _, fl := range st.Fields.List {
			for _, n := range fl.Names {
				if src(fl.Type) == "*float64" && optOther == nil {
					optF = append(optF, n.Name)
				} else {
					optOther = append(optOther, n.Name+":"+src(fl.Type))
				}
			}
		}
	}
	if st := c18StructDecl("xlsxPageMargins"); st == nil {
		fail("type xlsxPageMargins struct")
	} else {
		for _, fl := range st.Fields.List {
			for _, n := range fl.Names {
				if src(fl.Type) == "float64" {
					partF = append(partF, n.Name)
				}
			}
		}
	}
	fmt.Fprintf(w, "def marginOptFloatFields : List String := %s\ndef marginOptOtherFields : List String := %s\ndef marginPartFloatFields : List String := %s\n",
		c18StrList(optF), c18StrList(optOther), c18StrList(partF))
	lit := func(cl *ast.CompositeLit, unwrap string) [][2]string {
		var out [][2]string
		for _, e := range cl.Elts {
			kv, ok := e.(*ast.KeyValueExpr)
			if !ok {
				continue
			}
			v := kv.Value
			if unwrap != "" {
				c, ok := v.(*ast.CallExpr)
				if !ok || src(c.Fun) != unwrap || len(c.Args) != 1 {
					continue
				}
				v = c.Args[0]
			}
			out = append(out, [2]string{src(kv.Key), c18FloatText(src(v))})
		}
		return out
	}
	bound, reflectSet := "", false
	var setD, getD, copies [][2]string
	var printSet, printGet []string
	if fn := funcDecl("File", "SetPageMargins"); fn == nil {
		fail("func (f *File) SetPageMargins")
	} else {
		ast.Inspect(fn.Body, func(n ast.Node) bool {
			switch x := n.(type) {
			case *ast.CompositeLit:
				if src(x.Type) == "xlsxPageMargins" {
					setD = lit(x, "")
				}
			case *ast.ForStmt:
				if b, ok := x.Cond.(*ast.BinaryExpr); ok && src(b.X) == "i" && b.Op.String() == "<" {
					bound = src(b.Y)
				}
			case *ast.ExprStmt:
				if strings.ReplaceAll(src(x.X), " ", "") == "reflect.ValueOf(ws.PageMargins).Elem().FieldByName(name).Set(s.Field(i).Elem())" {
					reflectSet = true
				}
			case *ast.AssignStmt:
				if len(x.Lhs) == 1 && strings.HasPrefix(src(x.Lhs[0]), "ws.PrintOptions.") && strings.HasPrefix(src(x.Rhs[0]), "*opts.") {
					printSet = append(printSet, strings.TrimPrefix(src(x.Rhs[0]), "*opts.")+":"+strings.TrimPrefix(src(x.Lhs[0]), "ws.PrintOptions."))
				}
			}
			return true
		})
	}
	if fn := funcDecl("File", "GetPageMargins"); fn == nil {
		fail("func (f *File) GetPageMargins")
	} else {
		ast.Inspect(fn.Body, func(n ast.Node) bool {
			switch x := n.(type) {
			case *ast.CompositeLit:
				if src(x.Type) == "PageLayoutMarginsOptions" {
					getD = lit(x, "float64Ptr")
				}
			case *ast.AssignStmt:
				if len(x.Lhs) != 1 || !strings.HasPrefix(src(x.Lhs[0]), "opts.") {
					return true
				}
				l, r := strings.TrimPrefix(src(x.Lhs[0]), "opts."), src(x.Rhs[0])
				if strings.HasPrefix(r, "float64Ptr(ws.PageMargins.") {
					copies = append(copies, [2]string{l, strings.TrimSuffix(strings.TrimPrefix(r, "float64Ptr(ws.PageMargins."), ")")})
				} else if strings.HasPrefix(r, "boolPtr(ws.PrintOptions.") {
					printGet = append(printGet, l+":"+strings.TrimSuffix(strings.TrimPrefix(r, "boolPtr(ws.PrintOptions."), ")"))
				}
			}
			return true
		})
	}
	if bound == "" || !reflectSet || setD == nil || getD == nil || copies == nil {
		fail("SetPageMargins / GetPageMargins: reflect loop, default literals, copy assignments")
		bound = "0"
	}
	fmt.Fprintf(w, "def marginLoopBound : Nat := %s\ndef marginSetDefaults : List (String × String) := %s\ndef marginGetDefaults : List (String × String) := %s\ndef marginGetCopies : List (String × String) := %s\ndef marginPrintSet : List String := %s\ndef marginPrintGet : List String := %s\n",
		bound, c18Pairs(setD), c18Pairs(getD), c18Pairs(copies), c18StrList(printSet), c18StrList(printGet))
}
