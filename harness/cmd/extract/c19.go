package main

// C19 — facts of date.go / cell.go the Lean model XlModel.Date is defined over:
// epoch dates, duration constants, the Julian-path offsets and threshold, the
// rounding rule of timeFromExcelTime, fractionOfADay's constants, the integer
// literals of the Fliegel–Van Flandern function, and the source text of the
// guards whose comparison operators matter (pinned by Props/C19.lean:skeleton_ok).

import (
	"bytes"
	"fmt"
	"go/ast"
	"go/constant"
	"go/token"
	"strings"
)

var c19TimeUnits = map[string]int64{
	"Nanosecond": 1, "Microsecond": 1e3, "Millisecond": 1e6, "Second": 1e9, "Minute": 60e9, "Hour": 3600e9,
}

var c19Months = map[string]int{
	"January": 1, "February": 2, "March": 3, "April": 4, "May": 5, "June": 6,
	"July": 7, "August": 8, "September": 9, "October": 10, "November": 11, "December": 12,
}

// c19Eval evaluates a constant expression that may mention time.Hour etc. and
// constants local to a function body (locals).
func c19Eval(e ast.Expr, locals map[string]ast.Expr, depth int) (constant.Value, bool) {
	if depth > 20 || e == nil {
		return nil, false
	}
	switch x := e.(type) {
	case *ast.BasicLit:
		v := constant.MakeFromLiteral(x.Value, x.Kind, 0)
		return v, v.Kind() != constant.Unknown
	case *ast.ParenExpr:
		return c19Eval(x.X, locals, depth+1)
	case *ast.SelectorExpr:
		if p, ok := x.X.(*ast.Ident); ok && p.Name == "time" {
			if u, ok := c19TimeUnits[x.Sel.Name]; ok {
				return constant.MakeInt64(u), true
			}
		}
		return nil, false
	case *ast.Ident:
		if d, ok := locals[x.Name]; ok {
			return c19Eval(d, locals, depth+1)
		}
		d := constExpr(x.Name)
		if d == nil {
			return nil, false
		}
		return c19Eval(d, locals, depth+1)
	case *ast.UnaryExpr:
		v, ok := c19Eval(x.X, locals, depth+1)
		if !ok {
			return nil, false
		}
		return constant.UnaryOp(x.Op, v, 0), true
	case *ast.BinaryExpr:
		a, ok1 := c19Eval(x.X, locals, depth+1)
		b, ok2 := c19Eval(x.Y, locals, depth+1)
		if !ok1 || !ok2 {
			return nil, false
		}
		if x.Op == token.QUO && a.Kind() == constant.Int && b.Kind() == constant.Int {
			return constant.BinaryOp(a, token.QUO_ASSIGN, b), true
		}
		return constant.BinaryOp(a, x.Op, b), true
	case *ast.CallExpr: // conversions float64(x), time.Duration(x)
		if len(x.Args) == 1 {
			return c19Eval(x.Args[0], locals, depth+1)
		}
	}
	return nil, false
}

func c19Int(w *bytes.Buffer, lean, goName string, locals map[string]ast.Expr) {
	var e ast.Expr
	if locals != nil {
		e = locals[goName]
	}
	if e == nil {
		e = constExpr(goName)
	}
	v, ok := c19Eval(e, locals, 0)
	if ok {
		v = constant.ToInt(v)
	}
	if !ok || v.Kind() != constant.Int {
		fail("integer-valued constant %s", goName)
		return
	}
	fmt.Fprintf(w, "def %s : Int := %s\n", lean, v.ExactString())
}

// c19Rat emits num/den of a rational-valued constant.
func c19Rat(w *bytes.Buffer, lean, goName string, locals map[string]ast.Expr) {
	var e ast.Expr
	if locals != nil {
		e = locals[goName]
	}
	if e == nil {
		e = constExpr(goName)
	}
	v, ok := c19Eval(e, locals, 0)
	if !ok || (v.Kind() != constant.Int && v.Kind() != constant.Float) {
		fail("rational constant %s", goName)
		return
	}
	n, d := constant.Num(v), constant.Denom(v)
	if n.Kind() != constant.Int || d.Kind() != constant.Int {
		fail("rational constant %s (not exact)", goName)
		return
	}
	fmt.Fprintf(w, "def %sNum : Int := %s\ndef %sDen : Int := %s\n", lean, n.ExactString(), lean, d.ExactString())
}

// c19DateCall decodes time.Date(y, time.Month, d, 0, 0, 0, 0, time.UTC).
func c19DateCall(e ast.Expr) (y, m, d string, ok bool) {
	call, isCall := e.(*ast.CallExpr)
	if !isCall || len(call.Args) != 8 || src(call.Fun) != "time.Date" {
		return
	}
	for i := 3; i < 7; i++ {
		if src(call.Args[i]) != "0" {
			return
		}
	}
	if src(call.Args[7]) != "time.UTC" {
		return
	}
	ms := strings.TrimPrefix(src(call.Args[1]), "time.")
	mi, okm := c19Months[ms]
	yv, ok1 := c19Eval(call.Args[0], nil, 0)
	dv, ok2 := c19Eval(call.Args[2], nil, 0)
	if !okm || !ok1 || !ok2 {
		return
	}
	return yv.ExactString(), fmt.Sprint(mi), dv.ExactString(), true
}

func c19Epoch(w *bytes.Buffer, name string) {
	e := constExpr(name)
	y, m, d, ok := c19DateCall(e)
	if !ok {
		fail("%s = time.Date(y, time.Month, d, 0, 0, 0, 0, time.UTC)", name)
		return
	}
	fmt.Fprintf(w, "def %s : Int × Int × Int := (%s, %s, %s)\n", name, y, m, d)
}

// c19Locals collects `const` declarations inside a function body.
func c19Locals(fd *ast.FuncDecl) map[string]ast.Expr {
	m := map[string]ast.Expr{}
	if fd == nil {
		return m
	}
	ast.Inspect(fd.Body, func(n ast.Node) bool {
		if gd, ok := n.(*ast.GenDecl); ok && gd.Tok == token.CONST {
			for _, s := range gd.Specs {
				vs := s.(*ast.ValueSpec)
				for i, nm := range vs.Names {
					if i < len(vs.Values) {
						m[nm.Name] = vs.Values[i]
					}
				}
			}
		}
		return true
	})
	return m
}

// c19Conds lists, in source order, the conditions of if/for/switch-case statements of a function.
func c19Conds(fd *ast.FuncDecl) []string {
	var out []string
	if fd == nil {
		return out
	}
	ast.Inspect(fd.Body, func(n ast.Node) bool {
		switch x := n.(type) {
		case *ast.IfStmt:
			out = append(out, "if "+src(x.Cond))
		case *ast.ForStmt:
			if x.Cond != nil {
				out = append(out, "for "+src(x.Cond))
			}
		case *ast.CaseClause:
			for _, c := range x.List {
				out = append(out, "case "+src(c))
			}
		}
		return true
	})
	return out
}

// c19Stmts lists assignment / inc-dec / return statements as source text (whitespace-normalised).
func c19Stmts(fd *ast.FuncDecl) []string {
	var out []string
	if fd == nil {
		return out
	}
	ast.Inspect(fd.Body, func(n ast.Node) bool {
		switch x := n.(type) {
		case *ast.AssignStmt, *ast.IncDecStmt, *ast.ReturnStmt:
			out = append(out, strings.Join(strings.Fields(src(x)), " "))
		}
		return true
	})
	return out
}

func c19StrList(w *bytes.Buffer, name string, xs []string) {
	fmt.Fprintf(w, "def %s : List String := [", name)
	for i, s := range xs {
		if i > 0 {
			w.WriteString(", ")
		}
		w.WriteString(leanStr(s))
	}
	w.WriteString("]\n")
}

func init() {
	addSection("C19", func(w *bytes.Buffer) {
		w.WriteString("/-! date.go: epochs (all at 00:00:00 UTC) -/\n")
		for _, n := range []string{"excel1900Epoc", "excel1904Epoc", "excelMinTime1900"} {
			c19Epoch(w, n)
		}
		// excelBuggyPeriodStart = time.Date(...).Add(-time.Nanosecond)
		if call, ok := constExpr("excelBuggyPeriodStart").(*ast.CallExpr); ok && len(call.Args) == 1 {
			sel, ok2 := call.Fun.(*ast.SelectorExpr)
			if ok2 && sel.Sel.Name == "Add" {
				y, m, d, ok3 := c19DateCall(sel.X)
				v, ok4 := c19Eval(call.Args[0], nil, 0)
				if ok3 && ok4 {
					fmt.Fprintf(w, "def excelBuggyPeriodStart : Int × Int × Int := (%s, %s, %s)\n", y, m, d)
					fmt.Fprintf(w, "def excelBuggyPeriodStartAddNs : Int := %s\n", constant.ToInt(v).ExactString())
				} else {
					fail("excelBuggyPeriodStart = time.Date(...).Add(<const duration>)")
				}
			} else {
				fail("excelBuggyPeriodStart = time.Date(...).Add(...)")
			}
		} else {
			fail("excelBuggyPeriodStart = time.Date(...).Add(...)")
		}
		w.WriteString("\n/-! date.go: duration constants (nanoseconds) -/\n")
		c19Int(w, "dayNanoseconds", "dayNanoseconds", nil)
		c19Int(w, "maxDuration", "maxDuration", nil)
		c19Int(w, "nanosInADay", "nanosInADay", nil)
		c19Rat(w, "roundEpsilon", "roundEpsilon", nil)

		w.WriteString("\n/-! date.go:timeFromExcelTime local constants -/\n")
		tf := funcDecl("", "timeFromExcelTime")
		if tf == nil {
			fail("func timeFromExcelTime")
		}
		loc := c19Locals(tf)
		c19Int(w, "offset1900", "OFFSET1900", loc)
		c19Int(w, "offset1904", "OFFSET1904", loc)
		c19Rat(w, "mjd0", "MJD0", loc)
		c19StrList(w, "condsTimeFromExcelTime", c19Conds(tf))

		w.WriteString("\n/-! date.go:fractionOfADay -/\n")
		fr := funcDecl("", "fractionOfADay")
		if fr == nil {
			fail("func fractionOfADay")
		}
		floc := c19Locals(fr)
		c19Int(w, "c1us", "c1us", floc)
		c19Int(w, "c1s", "c1s", floc)
		c19Int(w, "c1day", "c1day", floc)
		c19StrList(w, "stmtsFractionOfADay", c19Stmts(fr))

		w.WriteString("\n/-! date.go:timeToExcelTime, shiftJulianToNoon, cell.go:setCellTime — guards and arithmetic statements -/\n")
		te := funcDecl("", "timeToExcelTime")
		if te == nil {
			fail("func timeToExcelTime")
		}
		c19StrList(w, "condsTimeToExcelTime", c19Conds(te))
		sj := funcDecl("", "shiftJulianToNoon")
		if sj == nil {
			fail("func shiftJulianToNoon")
		}
		c19StrList(w, "condsShiftJulianToNoon", c19Conds(sj))
		c19StrList(w, "stmtsShiftJulianToNoon", c19Stmts(sj))
		jg := funcDecl("", "julianDateToGregorianTime")
		if jg == nil {
			fail("func julianDateToGregorianTime")
		}
		_ = jg
		sc := funcDecl("xlsxC", "setCellTime")
		if sc == nil {
			fail("func (*xlsxC) setCellTime")
		}
		c19StrList(w, "condsSetCellTime", c19Conds(sc))
		isNumStmt := ""
		var firstInstant []string
		for _, st := range c19Stmts(sc) { // the statements deciding number vs. text
			if strings.HasPrefix(st, "isNum =") {
				isNumStmt = st
			}
			if strings.HasPrefix(st, "firstInstant") {
				firstInstant = append(firstInstant, st)
			}
		}
		if isNumStmt == "" {
			fail("setCellTime: statement `isNum = ...`")
		}
		fmt.Fprintf(w, "def stmtIsNum : String := %s\n", leanStr(isNumStmt))
		c19StrList(w, "stmtsFirstInstant", firstInstant)
		// glue: flag read, default style, number format choice, Duration cells
		for _, fn := range []struct{ recv, name, lean string }{
			{"File", "setCellTimeFunc", "SetCellTimeFunc"}, {"File", "setDefaultTimeStyle", "SetDefaultTimeStyle"},
			{"", "getTimeNumFmt", "GetTimeNumFmt"}, {"", "getDurationNumFmt", "GetDurationNumFmt"},
		} {
			fd := funcDecl(fn.recv, fn.name)
			if fd == nil {
				fail("func %s", fn.name)
			}
			c19StrList(w, "conds"+fn.lean, c19Conds(fd))
		}
		var glue []string
		for _, fn := range []struct{ recv, name string }{{"File", "setCellTimeFunc"}, {"", "getTimeNumFmt"}, {"", "getDurationNumFmt"}, {"", "setCellDuration"}, {"File", "setDefaultTimeStyle"}} {
			for _, st := range c19Stmts(funcDecl(fn.recv, fn.name)) {
				if strings.HasPrefix(st, "date1904 =") || strings.HasPrefix(st, "isNum, err =") || strings.HasPrefix(st, "return 1") ||
					strings.HasPrefix(st, "return 2") || strings.HasPrefix(st, "return 4") || strings.HasPrefix(st, "v = strconv") ||
					strings.HasPrefix(st, "nextMonth :=") || strings.HasPrefix(st, "style.NumFmt =") || strings.HasPrefix(st, "styleIdx, _ =") {
					glue = append(glue, fn.name+": "+st)
				}
			}
		}
		c19StrList(w, "stmtsGlue", glue)
		ed := funcDecl("", "ExcelDateToTime")
		if ed == nil {
			fail("func ExcelDateToTime")
		}
		c19StrList(w, "condsExcelDateToTime", c19Conds(ed))

		w.WriteString("\n/-! date.go:doTheFliegelAndVanFlandernAlgorithm — statements (the model uses the same literals) -/\n")
		fl := funcDecl("", "doTheFliegelAndVanFlandernAlgorithm")
		if fl == nil {
			fail("func doTheFliegelAndVanFlandernAlgorithm")
		}
		c19StrList(w, "stmtsFliegel", c19Stmts(fl))

		w.WriteString("\n/-! date.go:daysInMonth -/\n")
		if cl, ok := constExpr("daysInMonth").(*ast.CompositeLit); ok {
			w.WriteString("def daysInMonth : List Int := [")
			for i, el := range cl.Elts {
				if i > 0 {
					w.WriteString(", ")
				}
				v, ok := c19Eval(el, nil, 0)
				if !ok {
					fail("daysInMonth literal element")
					w.WriteString("0")
					continue
				}
				w.WriteString(v.ExactString())
			}
			w.WriteString("]\n")
		} else {
			fail("var daysInMonth = []int{...}")
		}
	})
}
