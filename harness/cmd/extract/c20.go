package main

// C20 (deepening round) — facts the lookup-path model lean/XlModel/RefApi.lean is a transcription
// of: for every cell-name taking API the model covers, the ordered list of reference-handling
// callees in its body (its "path skeleton"), and the source patterns of the (repaired) range decoder. The skeletons are emitted to Generated/FactsC20.lean and compared HERE with the
// skeleton the model was written for: a difference is reported through fail(), which makes the
// C20 check report a broken proof obligation without breaking the Lean build of the properties
// that import XlModel.Props.C20 (C01, C07, C11, C14).

import (
	"bytes"
	"fmt"
	"go/ast"
	"regexp"
	"sort"
	"strings"
)

// exported function -> (classification in the C20 path table, expected skeleton)
var c20Class = map[string][2]string{
	"File.CalcCellValue":           {"RefOpts.optAccepts .calcCell (acceptance only: the evaluator is C08/C09)", ""},
	"File.GetCellValue":            {"pathGetString", "getCellStringFunc"},
	"File.GetCellType":             {"pathGetString", "getCellStringFunc"},
	"File.SetCellValue":            {"pathPrepare (dispatches to the typed setters)", "setCellIntFunc setCellTimeFunc"},
	"File.SetCellInt":              {"pathPrepare", "prepareCell"},
	"File.SetCellUint":             {"pathPrepare", "prepareCell"},
	"File.SetCellBool":             {"pathPrepare", "prepareCell"},
	"File.SetCellFloat":            {"pathPrepare", "prepareCell"},
	"File.SetCellStr":              {"pathPrepare", "prepareCell setCellString"},
	"File.SetCellDefault":          {"pathPrepare", "prepareCell"},
	"File.GetCellFormula":          {"pathGetString", "getCellFormula"},
	"File.SetCellFormula":          {"pathPrepare", "prepareCell"},
	"File.GetCellHyperLink":        {"pathLinkGet", "SplitCellName mergeCellsParser"},
	"File.SetCellHyperLink":        {"pathLinkSet", "SplitCellName mergeCellsParser"},
	"File.GetCellRichText":         {"pathRichGet", "mergeCellsParser CellNameToCoordinates getCell"},
	"File.SetCellRichText":         {"pathPrepare", "prepareCell"},
	"File.SetSheetRow":             {"RefOpts.optAccepts .sheetRow2 (setSheetCells: direct decode of the start cell, then typed setters)", "setSheetCells"},
	"File.SetSheetCol":             {"RefOpts.optAccepts .sheetCol2 (setSheetCells)", "setSheetCells"},
	"File.AddChart":                {"pathDirect (skeleton pinned; not exercised by the paths op)", "CellNameToCoordinates"},
	"File.DeleteChart":             {"pathDirect (skeleton pinned; not exercised by the paths op)", "CellNameToCoordinates"},
	"File.GetColVisible":           {"Ref.columnNameToNumber (codec theorems; skeleton pinned; API not exercised)", "ColumnNameToNumber"},
	"File.SetColVisible":           {"RefMulti.parseColRange", "parseColRange"},
	"File.GetColOutlineLevel":      {"Ref.columnNameToNumber (codec theorems; skeleton pinned; API not exercised)", "ColumnNameToNumber"},
	"File.SetColOutlineLevel":      {"Ref.columnNameToNumber (codec theorems; skeleton pinned; API not exercised)", "ColumnNameToNumber"},
	"File.SetColStyle":             {"RefMulti.parseColRange", "parseColRange CoordinatesToCellName CoordinatesToCellName"},
	"File.SetColWidth":             {"RefMulti.parseColRange (colWidthRange)", "parseColRange"},
	"File.GetColStyle":             {"Ref.columnNameToNumber (codec theorems; skeleton pinned; API not exercised)", "ColumnNameToNumber"},
	"File.GetColWidth":             {"Ref.columnNameToNumber (codec theorems; skeleton pinned; API not exercised)", "ColumnNameToNumber"},
	"File.InsertCols":              {"Ref.columnNameToNumber (codec theorems; skeleton pinned; API not exercised)", "ColumnNameToNumber"},
	"File.RemoveCol":               {"Ref.columnNameToNumber (codec theorems; skeleton pinned; API not exercised)", "ColumnNameToNumber CellNameToCoordinates"},
	"File.DeleteDataValidation":    {"unmodelled here: RefMulti.flatSqref / squashSqref are modelled as helpers, the API belongs to C18", ""},
	".SplitCellName":               {"codec (Ref)", ""},
	".JoinCellName":                {"codec (Ref)", ""},
	".CellNameToCoordinates":       {"codec (Ref)", "SplitCellName ColumnNameToNumber"},
	"File.MergeCell":               {"mergeCellRef", "rangeRefToCoordinates CoordinatesToCellName CoordinatesToCellName"},
	"File.UnmergeCell":             {"mergeCellRef", "rangeRefToCoordinates rangeRefToCoordinates"},
	"File.AddPicture":              {"delegates to AddPictureFromBytes", ""},
	"File.AddPictureFromBytes":     {"pathDirect", "CellNameToCoordinates"},
	"File.GetPictures":             {"pathDirect", "CellNameToCoordinates"},
	"File.DeletePicture":           {"pathDirect (skeleton pinned; not exercised by the paths op)", "CellNameToCoordinates"},
	"File.InsertPageBreak":         {"RefOpts.optAccepts .pageBreak (direct decode)", "insertPageBreak"},
	"File.RemovePageBreak":         {"pathDirect (skeleton pinned; not exercised by the paths op)", "CellNameToCoordinates"},
	"File.SetSheetDimension":       {"Ref.rangeRefToCoordinates (decoder theorems; skeleton pinned; API not exercised)", "CellNameToCoordinates rangeRefToCoordinates"},
	"File.AddIgnoredErrors":        {"RefOpts.optAccepts .ignoredErrors: stored unvalidated (open finding)", ""},
	"StreamWriter.SetRow":          {"RefOpts.optAccepts .streamSetRow (direct decode)", "CellNameToCoordinates CoordinatesToCellName"},
	"StreamWriter.InsertPageBreak": {"RefOpts.optAccepts .streamPageBreak (insertPageBreak)", "insertPageBreak"},
	"StreamWriter.MergeCell":       {"direct decode of both arguments (cellRefsToCoordinates); swmerge op", "cellRefsToCoordinates"},
	"File.GetCellStyle":            {"pathDirect", "CellNameToCoordinates getCell"},
	"File.SetCellStyle":            {"pathDirect", "CellNameToCoordinates CellNameToCoordinates"},
	"File.SetConditionalFormat":    {"RefCF.cfPrepare (prepareConditionalFormatRange over parseRef; four open findings)", "prepareConditionalFormatRange"},
	"File.UnsetConditionalFormat":  {"RefOpts.cfUnsetFinds: raw string comparison with the stored reference (open finding)", ""},
	"File.AutoFilter":              {"Ref.rangeRefToCoordinates (decoder theorems; skeleton pinned; API not exercised)", "rangeRefToCoordinates"},
	"File.DeleteComment":           {"pathCommentDel", "CellNameToCoordinates CoordinatesToCellName deleteFormControl"},
	"File.DeleteFormControl":       {"pathDirect (skeleton pinned; not exercised by the paths op)", "deleteFormControl"},
}

var c20Callees = map[string]bool{
	"SplitCellName": true, "JoinCellName": true, "mergeCellsParser": true, "prepareCell": true,
	"getCellStringFunc": true, "CellNameToCoordinates": true, "CoordinatesToCellName": true,
	"rangeRefToCoordinates": true, "cellRefsToCoordinates": true, "getCell": true,
	"addVMLObject": true, "deleteFormControl": true, "ColumnNameToNumber": true, "ColumnNumberToName": true,
	"setCellIntFunc": true, "setCellTimeFunc": true, "setCellValueFunc": true, "setCellString": true, "addComment": true, "getCellFormula": true, "parseColRange": true, "insertPageBreak": true, "setSheetCells": true, "prepareConditionalFormatRange": true, "parseRef": true,
}

// receiver, function, expected skeleton (callees in source order, space separated), model path
var c20Expect = [][4]string{
	{"", "CellNameToCoordinates", "SplitCellName ColumnNameToNumber", "Ref.cellNameToCoordinates"},
	{"", "CoordinatesToCellName", "ColumnNumberToName", "Ref.coordinatesToCellName"},
	{"", "rangeRefToCoordinates", "cellRefsToCoordinates", "Ref.rangeRefToCoordinates"},
	{"", "cellRefsToCoordinates", "CellNameToCoordinates CellNameToCoordinates", "Ref.rangeRefToCoordinates"},
	{"xlsxWorksheet", "mergeCellsParser", "CellNameToCoordinates CoordinatesToCellName rangeRefToCoordinates", "mergeParse"},
	{"xlsxWorksheet", "prepareCell", "mergeCellsParser CellNameToCoordinates", "pathPrepare"},
	{"File", "getCellStringFunc", "mergeCellsParser CellNameToCoordinates CoordinatesToCellName", "pathGetString"},
	{"File", "GetCellValue", "getCellStringFunc", "pathGetString"},
	{"File", "GetCellFormula", "getCellFormula", "pathGetString"},
	{"File", "getCellFormula", "getCellStringFunc", "pathGetString"},
	{"File", "GetCellType", "getCellStringFunc", "pathGetString"},
	{"File", "GetCellStyle", "CellNameToCoordinates getCell", "pathDirect"},
	{"File", "SetCellStyle", "CellNameToCoordinates CellNameToCoordinates", "pathDirect"},
	{"File", "SetCellInt", "prepareCell", "pathPrepare"},
	{"File", "SetCellBool", "prepareCell", "pathPrepare"},
	{"File", "SetCellStr", "prepareCell setCellString", "pathPrepare"},
	{"File", "SetCellDefault", "prepareCell", "pathPrepare"},
	{"File", "SetCellFormula", "prepareCell", "pathPrepare"},
	{"File", "SetCellRichText", "prepareCell", "pathPrepare"},
	{"File", "GetCellRichText", "mergeCellsParser CellNameToCoordinates getCell", "pathRichGet"},
	{"File", "SetCellHyperLink", "SplitCellName mergeCellsParser", "pathLinkSet"},
	{"File", "GetCellHyperLink", "SplitCellName mergeCellsParser", "pathLinkGet"},
	{"File", "AddComment", "addVMLObject", "pathCommentAdd"},
	{"File", "addComment", "CellNameToCoordinates CoordinatesToCellName", "pathCommentAdd"},
	{"File", "DeleteComment", "CellNameToCoordinates CoordinatesToCellName deleteFormControl", "pathCommentDel"},
	{"File", "deleteFormControl", "CellNameToCoordinates", "pathDirect"},
	{"File", "MergeCell", "rangeRefToCoordinates CoordinatesToCellName CoordinatesToCellName", "mergeCellRef"},
	{"File", "UnmergeCell", "rangeRefToCoordinates rangeRefToCoordinates", "mergeCellRef"},
	{"File", "GetPictures", "CellNameToCoordinates", "pathDirect"},
	{"File", "parseColRange", "ColumnNameToNumber ColumnNameToNumber", "RefMulti.parseColRange"},
	{"xlsxWorksheet", "insertPageBreak", "CellNameToCoordinates", "RefOpts.optAccepts .pageBreak"},
	{"File", "setSheetCells", "CellNameToCoordinates CoordinatesToCellName CoordinatesToCellName", "RefOpts.optAccepts .sheetRow2"},
	{"File", "adjustRange", "rangeRefToCoordinates", "RefOpts.adjustRange"},
	{"", "prepareConditionalFormatRange", "parseRef CoordinatesToCellName", "RefCF.cfPrepareAreas"},
	{"", "parseRef", "CellNameToCoordinates ColumnNameToNumber", "RefCF.cfParseRef"},
}

// function, source pattern (regular expression over the whitespace-squashed source; identifiers
// of locals and parameters are wildcards so that a rename is not reported) behind the open findings
var c20Patterns = [][3]string{
	{"", "rangeRefToCoordinates", `strings\.Split\(\w+, ":"\)`},
	{"", "rangeRefToCoordinates", `len\(\w+\) != 2`},
	{"File", "MergeCell", `rangeRefToCoordinates\(\w+ \+ ":" \+ \w+\)`},
	{"File", "UnmergeCell", `rangeRefToCoordinates\(\w+ \+ ":" \+ \w+\)`},
	{"File", "parseColRange", `len\(\w+\) > 2`},
	{"File", "adjustRange", `strings\.ReplaceAll\(\w+\[1\], "\$", ""\)`},
	{"File", "UnsetConditionalFormat", `\.SQRef == \w+`},
	{"File", "SetColWidth", `parseColRange\(\w+ \+ ":" \+ \w+\)`},
}

func c20Skeleton(fd *ast.FuncDecl) string {
	var out []string
	ast.Inspect(fd.Body, func(n ast.Node) bool {
		ce, ok := n.(*ast.CallExpr)
		if !ok {
			return true
		}
		name := ""
		switch f := ce.Fun.(type) {
		case *ast.Ident:
			name = f.Name
		case *ast.SelectorExpr:
			name = f.Sel.Name
		}
		if c20Callees[name] {
			out = append(out, name)
		}
		return true
	})
	return strings.Join(out, " ")
}

// parameter names by which an exported function takes a cell, column or range string
var c20RefParam = regexp.MustCompile(`^(cell|topLeftCell|bottomRightCell|hCell|vCell|rangeRef|reference|sqref|col|startCol|endCol|columns|ref|axis|firstCell|lastCell)$`)

// c20Discover lists every exported function or *File method with a string parameter named like a
// cell / column / range reference, with its skeleton.
func c20Discover() [][2]string {
	var out [][2]string
	var names []string
	for n := range files {
		names = append(names, n)
	}
	sort.Strings(names)
	for _, n := range names {
		for _, d := range files[n].Decls {
			fd, ok := d.(*ast.FuncDecl)
			if !ok || fd.Body == nil || !fd.Name.IsExported() {
				continue
			}
			recv := ""
			if fd.Recv != nil && len(fd.Recv.List) == 1 {
				t := fd.Recv.List[0].Type
				if st, ok := t.(*ast.StarExpr); ok {
					t = st.X
				}
				if id, ok := t.(*ast.Ident); ok {
					recv = id.Name
				}
			}
			if recv != "" && recv != "File" && recv != "StreamWriter" {
				continue
			}
			hit := false
			for _, p := range fd.Type.Params.List {
				id, ok := p.Type.(*ast.Ident)
				if e, isEll := p.Type.(*ast.Ellipsis); isEll {
					id, ok = e.Elt.(*ast.Ident)
				}
				if !ok || id.Name != "string" {
					continue
				}
				for _, nm := range p.Names {
					if c20RefParam.MatchString(nm.Name) {
						hit = true
					}
				}
			}
			if hit {
				out = append(out, [2]string{recv + "." + fd.Name.Name, c20Skeleton(fd)})
			}
		}
	}
	return out
}

// exported option struct fields that hold a cell / range reference
var c20RefField = regexp.MustCompile(`^(Cell|CellLink|Range|Sqref|SQRef|TopLeftCell|ActiveCell|Location|DataRange|PivotTableRange|RefersTo)$`)

// Type.Field -> classification in the C20 path table (model definition, or why not modelled)
var c20FieldClass = map[string]string{
	"Comment.Cell":                      "pathCommentAdd (AddComment)",
	"FormControl.Cell":                  "optAccepts .formCtl: direct decode (AddFormControl)",
	"FormControl.CellLink":              "optAccepts .formLinkSpin / .formLinkCheck: decoded for scroll bar and spin button only, raw for a check box (open finding)",
	"Shape.Cell":                        "optAccepts .shape: direct decode (AddShape)",
	"SlicerOptions.Cell":                "optAccepts .slicer: direct decode (AddSlicer)",
	"Table.Range":                       "optAccepts .table: rangeRefToCoordinates (AddTable)",
	"PivotTableOptions.DataRange":       "optAccepts .pivotData: adjustRange (AddPivotTable; open finding: '$' anywhere)",
	"PivotTableOptions.PivotTableRange": "optAccepts .pivotLoc: adjustRange (AddPivotTable; open finding: '$' anywhere)",
	"DataValidation.Sqref":              "optAccepts .dvSqref: stored unvalidated (AddDataValidation; open finding)",
	"SparklineOptions.Location":         "optAccepts .sparkLoc: stored unvalidated (AddSparkline; open finding)",
	"SparklineOptions.Range":            "optAccepts .sparkRng: stored unvalidated (AddSparkline; open finding)",
	"Panes.TopLeftCell":                 "optAccepts .panesTopLeft: stored unvalidated (SetPanes; open finding)",
	"Selection.ActiveCell":              "optAccepts .panesActive: stored unvalidated (SetPanes; open finding)",
	"Selection.SQRef":                   "optAccepts .panesSqref: stored unvalidated (SetPanes; open finding)",
	"DefinedName.RefersTo":              "unmodelled: a formula, not parsed by SetDefinedName",
}

// c20DiscoverFields lists Type.Field for every exported struct type with a string / []string
// field named like a reference.
func c20DiscoverFields() []string {
	var out []string
	for _, f := range files {
		for _, d := range f.Decls {
			gd, ok := d.(*ast.GenDecl)
			if !ok {
				continue
			}
			for _, sp := range gd.Specs {
				ts, ok := sp.(*ast.TypeSpec)
				if !ok || !ts.Name.IsExported() {
					continue
				}
				st, ok := ts.Type.(*ast.StructType)
				if !ok {
					continue
				}
				for _, fl := range st.Fields.List {
					t := fl.Type
					if at, ok := t.(*ast.ArrayType); ok {
						t = at.Elt
					}
					id, ok := t.(*ast.Ident)
					if !ok || id.Name != "string" {
						continue
					}
					for _, nm := range fl.Names {
						if c20RefField.MatchString(nm.Name) {
							out = append(out, ts.Name.Name+"."+nm.Name)
						}
					}
				}
			}
		}
	}
	sort.Strings(out)
	return out
}

func c20Squash(s string) string { return strings.Join(strings.Fields(s), " ") }

func init() {
	addSection("C20", func(w *bytes.Buffer) {
		w.WriteString("/-- path skeletons: (receiver.function, reference-handling callees in source order, model definition) -/\n")
		w.WriteString("def pathSkeletons : List (String × String × String) := [\n")
		for i, e := range c20Expect {
			fd := funcDecl(e[0], e[1])
			got := "<missing>"
			if fd == nil || fd.Body == nil {
				fail("function %s.%s (path skeleton of %s)", e[0], e[1], e[3])
			} else {
				got = c20Skeleton(fd)
				if got != e[2] {
					fail("path skeleton of %s.%s changed: `%s`, the model (%s in lean/XlModel/RefApi.lean) transcribes `%s`", e[0], e[1], got, e[3], e[2])
				}
			}
			sep := ","
			if i == len(c20Expect)-1 {
				sep = ""
			}
			fmt.Fprintf(w, "  (%s, %s, %s)%s\n", leanStr(e[0]+"."+e[1]), leanStr(got), leanStr(e[3]), sep)
		}
		w.WriteString("]\n\n")
		w.WriteString("/-- source patterns the model and the open findings rely on: (function, pattern, present) -/\n")
		w.WriteString("def sourcePatterns : List (String × String × Bool) := [\n")
		for i, p := range c20Patterns {
			fd := funcDecl(p[0], p[1])
			present := fd != nil && regexp.MustCompile(p[2]).MatchString(c20Squash(src(fd)))
			if !present {
				fail("%s.%s no longer matches `%s`", p[0], p[1], p[2])
			}
			sep := ","
			if i == len(c20Patterns)-1 {
				sep = ""
			}
			fmt.Fprintf(w, "  (%s, %s, %v)%s\n", leanStr(p[0]+"."+p[1]), leanStr(p[2]), present, sep)
		}
		w.WriteString("]\n\n")
		w.WriteString("/-- every exported function with a string parameter named like a cell / column / range reference: (function, skeleton, classification) -/\n")
		w.WriteString("def exportedRefAPIs : List (String × String × String) := [\n")
		disc := c20Discover()
		for i, d := range disc {
			cls := "UNCLASSIFIED"
			if e, ok := c20Class[d[0]]; !ok {
				fail("exported function %s takes a cell/column/range string (skeleton `%s`) and is not in the C20 path table", d[0], d[1])
			} else {
				cls = e[0]
				if !strings.HasPrefix(cls, "unmodelled") && e[1] != d[1] {
					fail("path skeleton of %s changed: `%s`, the C20 path table (%s) was written for `%s`", d[0], d[1], cls, e[1])
				}
			}
			sep := ","
			if i == len(disc)-1 {
				sep = ""
			}
			fmt.Fprintf(w, "  (%s, %s, %s)%s\n", leanStr(d[0]), leanStr(d[1]), leanStr(cls), sep)
		}
		w.WriteString("]\n\n")
		w.WriteString("/-- every exported option struct field holding a cell / range reference: (Type.Field, classification) -/\n")
		w.WriteString("def optionRefFields : List (String × String) := [\n")
		fields := c20DiscoverFields()
		for i, fl := range fields {
			cls, ok := c20FieldClass[fl]
			if !ok {
				cls = "UNCLASSIFIED"
				fail("exported option field %s holds a cell/range reference and is not in the C20 path table", fl)
			}
			sep := ","
			if i == len(fields)-1 {
				sep = ""
			}
			fmt.Fprintf(w, "  (%s, %s)%s\n", leanStr(fl), leanStr(cls), sep)
		}
		w.WriteString("]\n")
	})
}
