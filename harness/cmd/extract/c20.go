package main

// C20 (deepening round) — facts the lookup-path model lean/XlModel/RefApi.lean is a transcription
// of: for every cell-name taking API the model covers, the ordered list of reference-handling
// callees in its body (its "path skeleton"), and the source patterns of the (repaired) range decoder. The skeletons are emitted to Generated/FactsC20.lean and compared HERE with the
// skeleton the model was written for: a difference is reported through fail(), which makes the
// C20 check report a broken proof obligation without breaking the Lean build of the properties
// that import XlModel.Props.C20 (C01, C07, C11, C14).

import (
	"bytes"
	"fmt"
	"go/ast"
	"regexp"
	"strings"
)

var c20Callees = map[string]bool{
	"SplitCellName": true, "JoinCellName": true, "mergeCellsParser": true, "prepareCell": true,
	"getCellStringFunc": true, "CellNameToCoordinates": true, "CoordinatesToCellName": true,
	"rangeRefToCoordinates": true, "cellRefsToCoordinates": true, "getCell": true,
	"addVMLObject": true, "deleteFormControl": true, "ColumnNameToNumber": true, "ColumnNumberToName": true,
	"setCellIntFunc": true, "setCellTimeFunc": true, "setCellValueFunc": true, "setCellString": true, "addComment": true, "getCellFormula": true,
}

// receiver, function, expected skeleton (callees in source order, space separated), model path
var c20Expect = [][4]string{
	{"", "CellNameToCoordinates", "SplitCellName ColumnNameToNumber", "Ref.cellNameToCoordinates"},
	{"", "CoordinatesToCellName", "ColumnNumberToName", "Ref.coordinatesToCellName"},
	{"", "rangeRefToCoordinates", "cellRefsToCoordinates", "Ref.rangeRefToCoordinates"},
	{"", "cellRefsToCoordinates", "CellNameToCoordinates CellNameToCoordinates", "Ref.rangeRefToCoordinates"},
	{"xlsxWorksheet", "mergeCellsParser", "CellNameToCoordinates CoordinatesToCellName rangeRefToCoordinates", "mergeParse"},
	{"xlsxWorksheet", "prepareCell", "mergeCellsParser CellNameToCoordinates", "pathPrepare"},
	{"File", "getCellStringFunc", "mergeCellsParser CellNameToCoordinates CoordinatesToCellName", "pathGetString"},
	{"File", "GetCellValue", "getCellStringFunc", "pathGetString"},
	{"File", "GetCellFormula", "getCellFormula", "pathGetString"},
	{"File", "getCellFormula", "getCellStringFunc", "pathGetString"},
	{"File", "GetCellType", "getCellStringFunc", "pathGetString"},
	{"File", "GetCellStyle", "CellNameToCoordinates getCell", "pathDirect"},
	{"File", "SetCellStyle", "CellNameToCoordinates CellNameToCoordinates", "pathDirect"},
	{"File", "SetCellInt", "prepareCell", "pathPrepare"},
	{"File", "SetCellBool", "prepareCell", "pathPrepare"},
	{"File", "SetCellStr", "prepareCell setCellString", "pathPrepare"},
	{"File", "SetCellDefault", "prepareCell", "pathPrepare"},
	{"File", "SetCellFormula", "prepareCell", "pathPrepare"},
	{"File", "SetCellRichText", "prepareCell", "pathPrepare"},
	{"File", "GetCellRichText", "mergeCellsParser CellNameToCoordinates getCell", "pathRichGet"},
	{"File", "SetCellHyperLink", "SplitCellName mergeCellsParser", "pathLinkSet"},
	{"File", "GetCellHyperLink", "SplitCellName mergeCellsParser", "pathLinkGet"},
	{"File", "AddComment", "addVMLObject", "pathCommentAdd"},
	{"File", "addComment", "CellNameToCoordinates CoordinatesToCellName", "pathCommentAdd"},
	{"File", "DeleteComment", "CellNameToCoordinates CoordinatesToCellName deleteFormControl", "pathCommentDel"},
	{"File", "deleteFormControl", "CellNameToCoordinates", "pathDirect"},
	{"File", "MergeCell", "rangeRefToCoordinates CoordinatesToCellName CoordinatesToCellName", "mergeCellRef"},
	{"File", "UnmergeCell", "rangeRefToCoordinates rangeRefToCoordinates", "mergeCellRef"},
	{"File", "GetPictures", "CellNameToCoordinates", "pathDirect"},
}

// function, source pattern (regular expression over the whitespace-squashed source; identifiers
// of locals and parameters are wildcards so that a rename is not reported) behind the open findings
var c20Patterns = [][3]string{
	{"", "rangeRefToCoordinates", `strings\.Split\(\w+, ":"\)`},
	{"", "rangeRefToCoordinates", `len\(\w+\) != 2`},
	{"File", "MergeCell", `rangeRefToCoordinates\(\w+ \+ ":" \+ \w+\)`},
	{"File", "UnmergeCell", `rangeRefToCoordinates\(\w+ \+ ":" \+ \w+\)`},
}

func c20Skeleton(fd *ast.FuncDecl) string {
	var out []string
	ast.Inspect(fd.Body, func(n ast.Node) bool {
		ce, ok := n.(*ast.CallExpr)
		if !ok {
			return true
		}
		name := ""
		switch f := ce.Fun.(type) {
		case *ast.Ident:
			name = f.Name
		case *ast.SelectorExpr:
			name = f.Sel.Name
		}
		if c20Callees[name] {
			out = append(out, name)
		}
		return true
	})
	return strings.Join(out, " ")
}

func c20Squash(s string) string { return strings.Join(strings.Fields(s), " ") }

func init() {
	addSection("C20", func(w *bytes.Buffer) {
		w.WriteString("/-- path skeletons: (receiver.function, reference-handling callees in source order, model definition) -/\n")
		w.WriteString("def pathSkeletons : List (String × String × String) := [\n")
		for i, e := range c20Expect {
			fd := funcDecl(e[0], e[1])
			got := "<missing>"
			if fd == nil || fd.Body == nil {
				fail("function %s.%s (path skeleton of %s)", e[0], e[1], e[3])
			} else {
				got = c20Skeleton(fd)
				if got != e[2] {
					fail("path skeleton of %s.%s changed: `%s`, the model (%s in lean/XlModel/RefApi.lean) transcribes `%s`", e[0], e[1], got, e[3], e[2])
				}
			}
			sep := ","
			if i == len(c20Expect)-1 {
				sep = ""
			}
			fmt.Fprintf(w, "  (%s, %s, %s)%s\n", leanStr(e[0]+"."+e[1]), leanStr(got), leanStr(e[3]), sep)
		}
		w.WriteString("]\n\n")
		w.WriteString("/-- source patterns the model and the open findings rely on: (function, pattern, present) -/\n")
		w.WriteString("def sourcePatterns : List (String × String × Bool) := [\n")
		for i, p := range c20Patterns {
			fd := funcDecl(p[0], p[1])
			present := fd != nil && regexp.MustCompile(p[2]).MatchString(c20Squash(src(fd)))
			if !present {
				fail("%s.%s no longer matches `%s`", p[0], p[1], p[2])
			}
			sep := ","
			if i == len(c20Patterns)-1 {
				sep = ""
			}
			fmt.Fprintf(w, "  (%s, %s, %v)%s\n", leanStr(p[0]+"."+p[1]), leanStr(p[2]), present, sep)
		}
		w.WriteString("]\n")
	})
}
