package main

import (
	"bytes"
	"fmt"
)

// named integer limits used by the models
var natConsts = []string{
	"MaxCellStyles", "MaxColumns", "MaxColumnWidth", "MaxFieldLength", "MaxFilePathLength",
	"MaxFontFamilyLength", "MaxFontSize", "MaxRowHeight", "MaxSheetNameLength", "MinColumns",
	"MinFontSize", "StreamChunkSize", "TotalCellChars", "TotalRows", "TotalSheetHyperlinks",
	"UnzipSizeLimit",
}

func init() {
	sections = append(sections, func(w *bytes.Buffer) {
		w.WriteString("/-! named limits (templates.go) -/\n")
		for _, n := range natConsts {
			v, ok := intConst(n)
			if !ok {
				fail("integer constant %s", n)
				continue
			}
			fmt.Fprintf(w, "def %s : Nat := %s\n", n, v)
		}
		w.WriteString("\n")
	})
}
