// extract regenerates lean/XlModel/Generated/Facts.lean from /repo's working
// tree: named constants and literal tables that the Lean models are defined
// over. It is purely syntactic (go/parser, no type checking), deterministic,
// and fails loudly when something it expects is gone.
package main

import (
	"bytes"
	"fmt"
	"go/ast"
	"go/constant"
	"go/parser"
	"go/token"
	"os"
	"path/filepath"
	"sort"
	"strconv"
	"strings"
)

var (
	fset     = token.NewFileSet()
	files    = map[string]*ast.File{}
	fatal    = map[string][]string{} // owner -> missing patterns
	curOwner = "shared"
)

// fail records that a source pattern the current section's owner depends on is gone.
func fail(format string, a ...interface{}) {
	fatal[curOwner] = append(fatal[curOwner], fmt.Sprintf(format, a...))
}

func load(repo string) {
	m, err := filepath.Glob(filepath.Join(repo, "*.go"))
	if err != nil || len(m) == 0 {
		fmt.Fprintln(os.Stderr, "extract: no go files in", repo)
		os.Exit(3)
	}
	sort.Strings(m)
	for _, p := range m {
		if strings.HasSuffix(p, "_test.go") || strings.HasPrefix(filepath.Base(p), "verif_hooks") {
			continue
		}
		f, err := parser.ParseFile(fset, p, nil, parser.ParseComments)
		if err != nil {
			fmt.Fprintln(os.Stderr, "extract: parse error:", err)
			os.Exit(3)
		}
		files[filepath.Base(p)] = f
	}
}

// constExpr finds the defining expression of a package-level const or var.
func constExpr(name string) ast.Expr {
	for _, f := range files {
		for _, d := range f.Decls {
			gd, ok := d.(*ast.GenDecl)
			if !ok || (gd.Tok != token.CONST && gd.Tok != token.VAR) {
				continue
			}
			for _, s := range gd.Specs {
				vs := s.(*ast.ValueSpec)
				for i, n := range vs.Names {
					if n.Name == name && i < len(vs.Values) {
						return vs.Values[i]
					}
				}
			}
		}
	}
	return nil
}

func evalConst(e ast.Expr, depth int) (constant.Value, bool) {
	if depth > 20 {
		return nil, false
	}
	switch x := e.(type) {
	case *ast.BasicLit:
		v := constant.MakeFromLiteral(x.Value, x.Kind, 0)
		return v, v.Kind() != constant.Unknown
	case *ast.ParenExpr:
		return evalConst(x.X, depth+1)
	case *ast.Ident:
		d := constExpr(x.Name)
		if d == nil {
			return nil, false
		}
		return evalConst(d, depth+1)
	case *ast.UnaryExpr:
		v, ok := evalConst(x.X, depth+1)
		if !ok {
			return nil, false
		}
		return constant.UnaryOp(x.Op, v, 0), true
	case *ast.BinaryExpr:
		a, ok1 := evalConst(x.X, depth+1)
		b, ok2 := evalConst(x.Y, depth+1)
		if !ok1 || !ok2 {
			return nil, false
		}
		if x.Op == token.SHL || x.Op == token.SHR {
			n, ok := constant.Uint64Val(b)
			if !ok {
				return nil, false
			}
			return constant.Shift(a, x.Op, uint(n)), true
		}
		if x.Op == token.QUO && a.Kind() == constant.Int && b.Kind() == constant.Int {
			return constant.BinaryOp(a, token.QUO_ASSIGN, b), true
		}
		return constant.BinaryOp(a, x.Op, b), true
	case *ast.CallExpr: // conversions like float64(x), time.Duration(x)
		if len(x.Args) == 1 {
			return evalConst(x.Args[0], depth+1)
		}
	}
	return nil, false
}

func intConst(name string) (string, bool) {
	e := constExpr(name)
	if e == nil {
		return "", false
	}
	v, ok := evalConst(e, 0)
	if !ok {
		return "", false
	}
	v = constant.ToInt(v)
	if v.Kind() != constant.Int {
		return "", false
	}
	return v.ExactString(), true
}

func funcDecl(recv, name string) *ast.FuncDecl {
	for _, f := range files {
		for _, d := range f.Decls {
			fd, ok := d.(*ast.FuncDecl)
			if !ok || fd.Name.Name != name {
				continue
			}
			r := ""
			if fd.Recv != nil && len(fd.Recv.List) == 1 {
				t := fd.Recv.List[0].Type
				if s, ok := t.(*ast.StarExpr); ok {
					t = s.X
				}
				if id, ok := t.(*ast.Ident); ok {
					r = id.Name
				}
			}
			if r == recv {
				return fd
			}
		}
	}
	return nil
}

func src(n ast.Node) string {
	var b bytes.Buffer
	start, end := fset.Position(n.Pos()), fset.Position(n.End())
	data, err := os.ReadFile(start.Filename)
	if err != nil {
		return ""
	}
	b.Write(data[start.Offset:end.Offset])
	return b.String()
}

func leanStr(s string) string {
	var b strings.Builder
	b.WriteByte('"')
	for _, r := range s {
		switch {
		case r == '"':
			b.WriteString(`\"`)
		case r == '\\':
			b.WriteString(`\\`)
		case r == '\n':
			b.WriteString(`\n`)
		case r == '\t':
			b.WriteString(`\t`)
		case r < 32 || r == 127:
			b.WriteString(fmt.Sprintf(`\x%02x`, r))
		default:
			b.WriteRune(r)
		}
	}
	b.WriteByte('"')
	return b.String()
}

func unq(s string) string {
	u, err := strconv.Unquote(s)
	if err != nil {
		return s
	}
	return u
}

type section func(w *bytes.Buffer)

// sections are grouped by owner: "shared" goes to Generated/Facts.lean
// (namespace XlModel.Facts); owner "Cxx" goes to Generated/FactsCxx.lean
// (namespace XlModel.Facts.Cxx). A missing pattern only affects its owner.
var (
	sections      []section // legacy: shared
	ownerSections = map[string][]section{}
)

// addSection registers a fact section owned by one property (or "shared").
func addSection(owner string, s section) {
	ownerSections[owner] = append(ownerSections[owner], s)
}

func writeIfChanged(path string, data []byte) bool {
	old, err := os.ReadFile(path)
	if err == nil && bytes.Equal(old, data) {
		return false
	}
	if err := os.WriteFile(path, data, 0o644); err != nil {
		fmt.Fprintln(os.Stderr, "extract:", err)
		os.Exit(3)
	}
	return true
}

func main() {
	repo := "/repo"
	out := "/verif/lean/XlModel/Generated/Facts.lean"
	if len(os.Args) > 1 {
		repo = os.Args[1]
	}
	if len(os.Args) > 2 {
		out = os.Args[2]
	}
	load(repo)
	dir := filepath.Dir(out)
	ownerSections["shared"] = append(sections, ownerSections["shared"]...)
	owners := make([]string, 0, len(ownerSections))
	for o := range ownerSections {
		owners = append(owners, o)
	}
	sort.Strings(owners)
	changed := []string{}
	for _, o := range owners {
		curOwner = o
		var w bytes.Buffer
		w.WriteString("-- GENERATED by /verif/harness/cmd/extract from the repository's working tree. Do not edit.\n")
		ns, path := "XlModel.Facts", out
		if o != "shared" {
			ns, path = "XlModel.Facts."+o, filepath.Join(dir, "Facts"+o+".lean")
		}
		w.WriteString("namespace " + ns + "\n\n")
		for _, s := range ownerSections[o] {
			s(&w)
		}
		w.WriteString("\nend " + ns + "\n")
		if len(fatal[o]) > 0 {
			w.WriteString("\n-- extraction incomplete:\n")
			for _, m := range fatal[o] {
				fmt.Fprintln(os.Stderr, "extract: MISSING ("+o+"):", m)
				w.WriteString("-- " + m + "\n")
			}
		}
		if writeIfChanged(path, w.Bytes()) {
			changed = append(changed, filepath.Base(path))
		}
	}
	// status file: owner -> missing patterns (only owners with failures)
	var st bytes.Buffer
	st.WriteString("{")
	first := true
	for _, o := range owners {
		if len(fatal[o]) == 0 {
			continue
		}
		if !first {
			st.WriteString(",")
		}
		first = false
		st.WriteString(strconv.Quote(o) + ":[")
		for i, m := range fatal[o] {
			if i > 0 {
				st.WriteString(",")
			}
			st.WriteString(strconv.Quote(m))
		}
		st.WriteString("]")
	}
	st.WriteString("}\n")
	writeIfChanged(filepath.Join(dir, "facts_status.json"), st.Bytes())
	if len(changed) > 0 {
		fmt.Println("extract: updated", strings.Join(changed, " "))
	} else {
		fmt.Println("extract: facts unchanged")
	}
}
