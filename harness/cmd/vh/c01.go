//go:build verif_c01

package main

// C01 — save then open preserves every observable of the workbook.
//
// Transcript ops (model: lean/XlModel/Bstr.lean, Grid.lean; driver Drv/C01.lean):
//   bm <hex>       bstrMarshal (hook)             bu <hex>   bstrUnmarshal (hook)
//   tcv <hex>      trimCellValue(s,false) (hook)
//   setstr <hex>   SetCellStr on a real file: stored shared-string text, value read in memory,
//                  value read after WriteToBuffer+OpenReader, and the spec (truncate to 32767 runes)
//   trim <grid>    trimRow (hook)                 dens <grid>  checkSheet+checkRow (hook)
//   cycle <grid>   trimRow, real XML encode/decode of the worksheet, checkSheet, checkRow (hook)
//   hcycle <grid>  <grid> = the internal sheetData of a sheet of a generated workbook before saving;
//                  implementation answer = the internal sheetData after a real save + OpenReader
//
// Direct oracles (independent of the model):
//   * string round trips: bstrUnmarshal(bstrMarshal s) = s; SetCellStr s reads back truncate(s) in
//     memory and after save+open; marshalled text contains no character outside XML 1.0
//   * grid cycle on dense grids: result is dense, same content at every position, same row attributes
//   * histories: full observation of the workbook before Write/WriteTo/WriteToBuffer/SaveAs vs after
//     OpenReader/OpenFile, and again after a second cycle (fixed point)
//
// Replay lines: any op above, or `hist <seed> <index> <nops> <flags>` (regenerates that history).

import (
	"bytes"
	"encoding/json"
	"fmt"
	"os"
	"path/filepath"
	"runtime"
	"runtime/debug"
	"sort"
	"strconv"
	"strings"
	"time"
	"unicode/utf8"

	xl "github.com/xuri/excelize/v2"
)

func init() { props["C01"] = runC01 }

// ---------------------------------------------------------------- strings

func c01truncate(s string) string {
	if utf8.RuneCountInString(s) > xl.TotalCellChars {
		return string([]rune(s)[:xl.TotalCellChars])
	}
	return s
}

func c01illegal(r rune) bool {
	return r < 0x20 && r != 9 && r != 10 && r != 13 || r == 0xFFFE || r == 0xFFFF
}

func c01class(s string) string {
	var cl []string
	has := func(f func(rune) bool) bool { return strings.IndexFunc(s, f) >= 0 }
	if s == "" {
		return "empty"
	}
	if n := utf8.RuneCountInString(s); n >= 32766 {
		cl = append(cl, fmt.Sprintf("len%d", min(n, 32768)))
	}
	if strings.Contains(s, "_x") {
		cl = append(cl, "esc-lookalike")
	}
	if has(c01illegal) {
		cl = append(cl, "xml-illegal-char")
	}
	if strings.ContainsAny(s[:1], " \t\r\n") || strings.ContainsAny(s[len(s)-1:], " \t\r\n") {
		cl = append(cl, "edge-space")
	}
	if strings.ContainsAny(s, "\r\n\t") {
		cl = append(cl, "crlftab")
	}
	if strings.ContainsAny(s, "<>&\"'") {
		cl = append(cl, "xml-special")
	}
	if has(func(r rune) bool { return r >= 0x80 }) {
		cl = append(cl, "non-ascii")
	}
	if _, err := strconv.ParseFloat(strings.TrimSpace(s), 64); err == nil {
		cl = append(cl, "numeric-text")
	}
	if len(cl) == 0 {
		return "plain"
	}
	return strings.Join(cl, "+")
}

func c01q(s string) string {
	if len(s) > 60 {
		return fmt.Sprintf("%q…(%d bytes)", s[:40], len(s))
	}
	return fmt.Sprintf("%q", s)
}

func c01bm(r *Run, s string) {
	if !utf8.ValidString(s) {
		r.Op("bm "+hx(s), "invalid-utf8")
		return
	}
	m := xl.VerifBstrMarshal(s)
	ln := r.Op("bm "+hx(s), hx(m))
	r.Case("bm:"+s, strings.Contains(s, "_") || strings.IndexFunc(s, c01illegal) >= 0)
	r.Stat("bm:" + c01class(s))
	if back := xl.VerifBstrUnmarshal(m); back != s {
		r.Fail("bstr:roundtrip", fmt.Sprintf("bstrUnmarshal(bstrMarshal(%s)) = %s (marshalled %s)", c01q(s), c01q(back), c01q(m)), ln, "bm "+hx(s))
	}
	if strings.IndexFunc(m, c01illegal) >= 0 {
		r.Fail("bstr:marshal-leaves-xml-illegal-char", fmt.Sprintf("bstrMarshal(%s) = %s still contains a character outside XML 1.0", c01q(s), c01q(m)), ln, "bm "+hx(s))
	}
}

func c01bu(r *Run, s string) {
	if !utf8.ValidString(s) {
		r.Op("bu "+hx(s), "invalid-utf8")
		return
	}
	r.Op("bu "+hx(s), hx(xl.VerifBstrUnmarshal(s)))
	r.Case("bu:"+s, strings.Contains(s, "_x"))
}

func c01tcv(r *Run, s string) {
	if !utf8.ValidString(s) {
		r.Op("tcv "+hx(s), "invalid-utf8")
		return
	}
	v, p := xl.VerifC01TrimCellValue(s)
	ps := "0"
	if p {
		ps = "1"
	}
	ln := r.Op("tcv "+hx(s), hx(v)+" "+ps)
	r.Case("tcv:"+s, s != "")
	want := s != "" && (strings.ContainsAny(s[:1], " \t\r\n") || strings.ContainsAny(c01truncate(s)[len(c01truncate(s))-1:], " \t\r\n"))
	if p != want {
		r.Fail("tcv:space-preserve", fmt.Sprintf("trimCellValue(%s) preserve=%v want %v", c01q(s), p, want), ln, "tcv "+hx(s))
	}
}

func c01save(f *xl.File, how int) (*xl.File, error) {
	switch how % 4 {
	case 0:
		b, err := f.WriteToBuffer()
		if err != nil {
			return nil, err
		}
		return xl.OpenReader(bytes.NewReader(b.Bytes()))
	case 1:
		var b bytes.Buffer
		if err := f.Write(&b); err != nil {
			return nil, err
		}
		return xl.OpenReader(&b)
	case 2:
		var b bytes.Buffer
		if _, err := f.WriteTo(&b); err != nil {
			return nil, err
		}
		return xl.OpenReader(&b)
	default:
		d, err := os.MkdirTemp("", "c01")
		if err != nil {
			return nil, err
		}
		defer os.RemoveAll(d)
		p := filepath.Join(d, "book.xlsx")
		if err := f.SaveAs(p); err != nil {
			return nil, err
		}
		g, err := xl.OpenFile(p)
		if err != nil {
			return nil, err
		}
		// force the lazy parts to be read before the file is removed
		for _, sh := range g.GetSheetList() {
			_, _ = g.GetCellValue(sh, "A1")
		}
		return g, nil
	}
}

// c01setstr: SetCellStr on a real file; `setter` = "setstr" (SetCellStr) only in the transcript.
func c01setstr(r *Run, s string, how int) {
	op := "setstr " + hx(s)
	if !utf8.ValidString(s) {
		r.Op(op, "invalid-utf8")
		return
	}
	res, mem, re := "PANIC", "", ""
	okRun := false
	func() {
		defer func() { _ = recover() }()
		f := xl.NewFile()
		defer f.Close()
		if err := f.SetCellStr("Sheet1", "B2", s); err != nil {
			res = "ERR"
			return
		}
		sst := xl.VerifSharedStrings(f)
		st := ""
		if len(sst) > 0 {
			st = sst[len(sst)-1]
		}
		mem, _ = f.GetCellValue("Sheet1", "B2")
		g, err := c01save(f, how)
		if err != nil {
			res = "ERR-SAVE"
			return
		}
		defer g.Close()
		re, _ = g.GetCellValue("Sheet1", "B2")
		res = fmt.Sprintf("st=%s mem=%s re=%s S=%s", hx(st), hx(mem), hx(re), hx(c01truncate(s)))
		okRun = true
	}()
	ln := r.Op(op, res)
	cls := c01class(s)
	r.Case("setstr:"+s, cls != "plain")
	r.Stat("setstr:" + cls)
	if !okRun {
		r.Fail("setstr:"+res, fmt.Sprintf("SetCellStr(%s) / save / open: %s", c01q(s), res), ln, op)
		return
	}
	want := c01truncate(s)
	if mem != re {
		r.Fail("setstr:save-open-changes-value:"+c01sigClass(s), fmt.Sprintf("SetCellStr(%s): GetCellValue before save %s, after save+open %s", c01q(s), c01q(mem), c01q(re)), ln, op)
	}
	if mem != want {
		r.Fail("setstr:read-differs-from-written:"+c01sigClass(s), fmt.Sprintf("SetCellStr(%s) reads back %s in memory", c01q(s), c01q(mem)), ln, op)
	}
}

// the class that matters for attributing a string failure
func c01sigClass(s string) string {
	switch {
	case strings.IndexFunc(s, c01illegal) >= 0:
		return "xml-illegal-char"
	case strings.Contains(s, "_x"):
		return "esc-lookalike"
	case utf8.RuneCountInString(s) > xl.TotalCellChars:
		return "over-limit"
	}
	return "other"
}

// SetCellDefault stores the text unescaped (documented); oracle: before == after.
func c01setdef(r *Run, s string) {
	if !utf8.ValidString(s) {
		return
	}
	var mem, re string
	ok := false
	func() {
		defer func() { _ = recover() }()
		f := xl.NewFile()
		defer f.Close()
		if f.SetCellDefault("Sheet1", "B2", s) != nil {
			return
		}
		mem, _ = f.GetCellValue("Sheet1", "B2")
		g, err := c01save(f, 0)
		if err != nil {
			return
		}
		defer g.Close()
		re, _ = g.GetCellValue("Sheet1", "B2")
		ok = true
	}()
	r.Case("setdef:"+s, true)
	r.Stat("setdef:" + c01class(s))
	if !ok {
		r.Fail("setdef:failed", "SetCellDefault/save/open failed for "+c01q(s), 0, "setdef "+hx(s))
		return
	}
	if mem != re {
		r.Fail("setdef:save-open-changes-value:"+c01sigClass(s), fmt.Sprintf("SetCellDefault(%s): GetCellValue before save %s, after save+open %s", c01q(s), c01q(mem), c01q(re)), 0, "setdef "+hx(s))
	}
}

var c01atoms = []string{"_", "x", "0041", "005F", "005f", "_x0041_", "_x005F_", "_x000D_", "_x", "41_", "\x01", "\x1f", "\x00", "\x0b",
	"￾", "￿", " ", "\n", "\r", "\t", "<", "&", ">", "\"", "'", "a", "Z", "é", "你", "😀", "D800", "_xD800_", "_xdFfF_", "G", "000D",
	"_x0041", "�", "\u0085", " ", "1", ".5", "e3", "-", "]]>", "&#10;"}

func c01payload(rng *Rng) string {
	switch rng.Intn(10) {
	case 0: // plain words
		n := rng.Range(1, 12)
		var b strings.Builder
		for i := 0; i < n; i++ {
			b.WriteByte(byte('a' + rng.Intn(26)))
		}
		return b.String()
	case 1: // numeric-looking text
		return rng.Pick([]string{"123", "0", "-1.50", "1e5", " 12", "12 ", "1E-7", "0x10", "1_000", "+3", "١٢٣", "TRUE", "NaN", "Inf", "00012", "1.0000000000000002", "123456789012345678"})
	default:
		n := rng.Range(1, 8)
		var b strings.Builder
		for i := 0; i < n; i++ {
			b.WriteString(c01atoms[rng.Intn(len(c01atoms))])
		}
		return b.String()
	}
}

// deterministic boundary payloads (witnesses of past findings first)
func c01fixedPayloads() []string {
	base := []string{"_x0041_", "x_x000D_", "a\x01b", "￾", "￿", "_x0041_x0042_", "_xD800_", "a_xD800_b", "_x005F_", "_x005f_",
		"_x005F_x0041_", "_x0041\x01", "_x0041\x01_", "__x0041_", "_x0041__x0042_", "_x_x0041_", "_x004_", "_x00411_", "_X0041_", "_x0041",
		"x0041_", "_", "", " ", "\t", "\r", "\n", "\r\n", " a", "a ", "a\rb", "a\r\nb", "<&>\"'", "]]>", "&amp;", "&#xD;", "a\x00b", "\x1f",
		"\x7f", "\u0080", "�", "\U0010FFFF", "퟿", "_x005F", "_x005F_x005F_", "_xFFFE_", "_xfffe_￾", "=1+1", "'quoted"}
	// text that is a strict-OOXML namespace URL: the reader rewrites these URLs in a part's bytes
	base = append(base, "see http://purl.oclc.org/ooxml/spreadsheetml/main for details",
		"http://purl.oclc.org/ooxml/officeDocument/relationships", "http://purl.oclc.org/ooxml/officeDocument/relationships/image",
		"x http://purl.oclc.org/ooxml/drawingml/main y", "http://purl.oclc.org/ooxml/officeDocument/docPropsVTypes",
		"http://purl.oclc.org/ooxml/officeDocument/extendedProperties", "http://purl.oclc.org/ooxml/officeDocument/relationships/chart",
		"http://purl.oclc.org/ooxml/officeDocument/relationships/comments", "http://purl.oclc.org/ooxml/officeDocument/relationships/officeDocument",
		"http://schemas.openxmlformats.org/spreadsheetml/2006/main")
	for _, n := range []int{32766, 32767, 32768} {
		base = append(base, strings.Repeat("x", n), strings.Repeat("é", n), strings.Repeat("x", n-7)+"_x0041_", strings.Repeat("y", n-1)+" ",
			strings.Repeat("z", n-2)+"\x01a", " "+strings.Repeat("😀", n-1))
	}
	base = append(base, strings.Repeat("x", 32761)+"_x0041_z", strings.Repeat("x", 32762)+"_x0041_z") // escape cut by the truncation
	return base
}

// ---------------------------------------------------------------- grids (wire format of the hook)

type c01cell struct {
	ref, t, v string
	s         int
	f, is     *string
}
type c01row struct {
	r     int
	attrs [11]string // spans s cf ht hidden ch ol coll tt tb ph, as wire tokens
	cells []c01cell
}

func c01opt(p *string) string {
	if p == nil {
		return "~"
	}
	return hx(*p)
}

func c01wire(rows []c01row) string {
	var b strings.Builder
	b.WriteString(strconv.Itoa(len(rows)))
	for _, r := range rows {
		fmt.Fprintf(&b, " %d %s %d", r.r, strings.Join(r.attrs[:], " "), len(r.cells))
		for _, c := range r.cells {
			fmt.Fprintf(&b, " %s %d %s %s %s %s", hx(c.ref), c.s, hx(c.t), hx(c.v), c01opt(c.f), c01opt(c.is))
		}
	}
	return b.String()
}

func c01parse(spec string) ([]c01row, bool) {
	w := strings.Fields(spec)
	if len(w) > 0 && w[0] == "ok" {
		w = w[1:]
	}
	pos := 0
	bad := false
	next := func() string {
		if pos >= len(w) {
			bad = true
			return "0"
		}
		pos++
		return w[pos-1]
	}
	num := func() int { n, err := strconv.Atoi(next()); bad = bad || err != nil; return n }
	opt := func() *string {
		h := next()
		if h == "~" {
			return nil
		}
		s := unhx(h)
		return &s
	}
	n := num()
	var rows []c01row
	for i := 0; i < n && !bad; i++ {
		var r c01row
		r.r = num()
		for k := range r.attrs {
			r.attrs[k] = next()
		}
		nc := num()
		for j := 0; j < nc && !bad; j++ {
			var c c01cell
			c.ref = unhx(next())
			c.s = num()
			c.t = unhx(next())
			c.v = unhx(next())
			c.f = opt()
			c.is = opt()
			r.cells = append(r.cells, c)
		}
		rows = append(rows, r)
	}
	return rows, !bad && pos == len(w)
}

var c01noAttrs = [11]string{"-", "0", "0", "~", "0", "0", "0", "0", "0", "0", "0"}

func c01content(c c01cell) string {
	return fmt.Sprintf("%d|%s|%s|%s|%s", c.s, c.t, c.v, c01opt(c.f), c01opt(c.is))
}

// c01denseAbs checks that `rows` is dense and returns position -> content for non-blank cells.
func c01denseAbs(rows []c01row) (map[[2]int]string, bool) {
	m := map[[2]int]string{}
	dense := true
	for i, r := range rows {
		if r.r != i+1 {
			dense = false
		}
		for j, c := range r.cells {
			name, _ := xl.CoordinatesToCellName(j+1, i+1)
			if c.ref != name {
				dense = false
			}
			if k := c01content(c); k != "0|||~|~" {
				m[[2]int{i, j}] = k
			}
		}
	}
	return m, dense
}

func c01gridOracle(r *Run, op, spec, res string, ln int) {
	before, ok1 := c01parse(spec)
	bm, dense := c01denseAbs(before)
	if !ok1 || !dense {
		return
	}
	for _, row := range before { // the invariant of the theorem: a cell without value has no inline string
		for _, c := range row.cells {
			if c.s == 0 && c.t == "" && c.v == "" && c.f == nil && c.is != nil {
				return
			}
		}
	}
	r.Stat(op + ":dense-input")
	sig := op + ":dense-grid-not-preserved"
	if !strings.HasPrefix(res, "ok ") {
		r.Fail(sig, "save/open of a dense grid answered "+res, ln, op+" "+spec)
		return
	}
	after, ok2 := c01parse(res)
	am, dense2 := c01denseAbs(after)
	if !ok2 || !dense2 {
		r.Fail(sig, "grid after save/open is not dense (row slot i must hold row i+1, cell slot j column j+1)", ln, op+" "+spec)
		return
	}
	if len(after) != len(before) {
		r.Fail(sig, fmt.Sprintf("row slots %d -> %d", len(before), len(after)), ln, op+" "+spec)
		return
	}
	for i := range before {
		if before[i].attrs != after[i].attrs {
			r.Fail(sig, fmt.Sprintf("attributes of row %d changed: %v -> %v", i+1, before[i].attrs, after[i].attrs), ln, op+" "+spec)
			return
		}
	}
	if len(am) != len(bm) {
		r.Fail(sig, fmt.Sprintf("non-blank cells %d -> %d", len(bm), len(am)), ln, op+" "+spec)
		return
	}
	for k, v := range bm {
		if am[k] != v {
			name, _ := xl.CoordinatesToCellName(k[1]+1, k[0]+1)
			r.Fail(sig, fmt.Sprintf("content of %s changed: %s -> %s", name, v, am[k]), ln, op+" "+spec)
			return
		}
	}
}

func c01gridOp(r *Run, op, spec string) {
	var res string
	switch op {
	case "trim":
		res = xl.VerifC01Trim(spec)
	case "dens":
		res = xl.VerifC01Densify(spec)
	default:
		res = xl.VerifC01Cycle(spec)
	}
	ln := r.Op(op+" "+spec, res)
	r.Case(op+":"+spec, len(spec) > 2)
	r.Stat(op + ":" + strings.SplitN(res, " ", 2)[0])
	if op == "cycle" {
		c01gridOracle(r, op, spec, res, ln)
	}
}

func c01sp(s string) *string { return &s }

func c01genCell(rng *Rng, ref string) c01cell {
	c := c01cell{ref: ref}
	switch rng.Intn(9) {
	case 0, 1, 2: // blank
	case 3:
		c.v = strconv.Itoa(rng.Intn(1000))
	case 4:
		c.s = rng.Range(1, 5)
	case 5:
		c.t, c.v = "s", strconv.Itoa(rng.Intn(9))
	case 6:
		c.f = c01sp(rng.Pick([]string{"A1+1", "SUM(B1:B3)", ""}))
		if rng.Bool() {
			c.v = "7"
		}
	case 7:
		c.t, c.is = "inlineStr", c01sp(rng.Pick([]string{"txt", "", "a b"}))
	default:
		c.t, c.v, c.s = "b", "1", rng.Intn(3)
	}
	return c
}

func c01genAttrs(rng *Rng) [11]string {
	a := c01noAttrs
	if rng.Chance(65) {
		return a
	}
	switch rng.Intn(11) {
	case 0:
		a[0] = hx("1:3")
	case 1:
		a[1] = strconv.Itoa(rng.Range(1, 4))
	case 2:
		a[2] = "1"
	case 3:
		a[3] = hx(rng.Pick([]string{"15", "20.5", "0", "409"}))
	case 4:
		a[4] = "1"
	case 5:
		a[5] = "1"
	case 6:
		a[6] = strconv.Itoa(rng.Range(1, 7))
	case 7:
		a[7] = "1"
	case 8:
		a[8] = "1"
	case 9:
		a[9] = "1"
	default:
		a[10] = "1"
	}
	return a
}

func c01genDense(rng *Rng) []c01row {
	n := rng.Range(0, 6)
	rows := make([]c01row, n)
	for i := range rows {
		rows[i] = c01row{r: i + 1, attrs: c01genAttrs(rng)}
		nc := rng.Range(0, 7)
		if rng.Chance(5) {
			nc = rng.Range(20, 40)
		}
		for j := 0; j < nc; j++ {
			name, _ := xl.CoordinatesToCellName(j+1, i+1)
			rows[i].cells = append(rows[i].cells, c01genCell(rng, name))
		}
	}
	return rows
}

// malformed / foreign-producer grids for the open path
func c01mutateGrid(rng *Rng, rows []c01row) []c01row {
	badRefs := []string{"", "", "", "A", "1", "A0", "$B$2", "b3", "XFD1", "XFE1", "ZZZZZZZZZZZZZZ1", "C7", "A1048577", "A+1", "é1"}
	k := rng.Range(1, 4)
	for ; k > 0; k-- {
		if len(rows) == 0 {
			rows = append(rows, c01row{r: rng.Intn(4), attrs: c01noAttrs})
		}
		i := rng.Intn(len(rows))
		switch rng.Intn(9) {
		case 0:
			rows[i].r = 0
		case 1:
			rows[i].r = rng.Range(0, 9)
			if rng.Chance(8) {
				rows[i].r = rng.Pick2([]int{1048577, 2000000}) // bounded by TotalRows in checkSheet
			}
		case 2:
			j := rng.Intn(len(rows))
			rows[i], rows[j] = rows[j], rows[i]
		case 3:
			rows = append(rows[:i], rows[i+1:]...)
		case 4, 5:
			if len(rows[i].cells) > 0 {
				rows[i].cells[rng.Intn(len(rows[i].cells))].ref = badRefs[rng.Intn(len(badRefs))]
			}
		case 6:
			if n := len(rows[i].cells); n > 1 {
				a, b := rng.Intn(n), rng.Intn(n)
				rows[i].cells[a], rows[i].cells[b] = rows[i].cells[b], rows[i].cells[a]
			}
		case 7:
			if n := len(rows[i].cells); n > 0 {
				j := rng.Intn(n)
				rows[i].cells = append(rows[i].cells[:j], rows[i].cells[j+1:]...)
			}
		default:
			rows = append(rows, rows[i])
		}
	}
	return rows
}

func c01copyRows(rows []c01row) []c01row {
	out := make([]c01row, len(rows))
	for i, r := range rows {
		out[i] = r
		out[i].cells = append([]c01cell(nil), r.cells...)
	}
	return out
}

// ---------------------------------------------------------------- histories

type c01hist struct {
	f       *xl.File
	rng     *Rng
	log     []string
	styles  []int
	maxRow  map[string]int
	maxCol  map[string]int
	payload map[string]int
	ops     map[string]int
}

func (h *c01hist) note(op string, err error, format string, a ...interface{}) {
	e := ""
	if err != nil {
		e = " -> ERR"
	}
	h.log = append(h.log, "# "+fmt.Sprintf(format, a...)+e)
	if os.Getenv("C01_DEBUG") != "" {
		fmt.Fprintln(os.Stderr, h.log[len(h.log)-1])
	}
	h.ops[op]++
}

func (h *c01hist) sheet() string {
	l := h.f.GetSheetList()
	return l[h.rng.Intn(len(l))]
}

func (h *c01hist) cell(sheet string) (string, int, int) { return h.cellF(sheet, true) }

func (h *c01hist) cellF(sheet string, far bool) (string, int, int) {
	c, r := h.rng.Range(1, 8), h.rng.Range(1, 10)
	if !far {
		n, _ := xl.CoordinatesToCellName(c, r)
		return n, c, r
	}
	if h.rng.Chance(4) {
		c = h.rng.Pick2([]int{26, 27, 702, 27, 26, 703, 52, 256}) // XFD: see c01farCell (a row of 16384 cells per touched row is too heavy inside histories)
	}
	if h.rng.Chance(3) {
		r = h.rng.Pick2([]int{99, 1000, 99, 100, 5000})
	}
	if c > h.maxCol[sheet] {
		h.maxCol[sheet] = c
	}
	if r > h.maxRow[sheet] {
		h.maxRow[sheet] = r
	}
	n, _ := xl.CoordinatesToCellName(c, r)
	return n, c, r
}

var c01styleDefs = []string{
	`{"font":{"bold":true}}`, `{"font":{"italic":true,"color":"FF0000","size":14}}`, `{"number_format":2}`, `{"number_format":14}`,
	`{"fill":{"type":"pattern","color":["E0EBF5"],"pattern":1}}`, `{"alignment":{"horizontal":"center","wrap_text":true}}`,
	`{"border":[{"type":"left","color":"0000FF","style":2}]}`, `{"custom_number_format":"0.000;[Red]-0.000"}`, `{"number_format":9}`,
	`{"protection":{"hidden":true,"locked":true}}`, `{"number_format":22}`, `{"number_format":49}`,
}

func (h *c01hist) style() int {
	if len(h.styles) == 0 || h.rng.Chance(30) {
		var st xl.Style
		_ = json.Unmarshal([]byte(c01styleDefs[h.rng.Intn(len(c01styleDefs))]), &st)
		id, err := h.f.NewStyle(&st)
		if err == nil {
			h.styles = append(h.styles, id)
		}
	}
	if len(h.styles) == 0 {
		return 0
	}
	return h.styles[h.rng.Intn(len(h.styles))]
}

// payload for cells inside histories: everything the string path is proved/validated for
func (h *c01hist) str() string {
	s := c01payload(h.rng)
	if h.rng.Chance(2) {
		s = strings.Repeat("w", h.rng.Pick2([]int{32766, 32767, 32768}))
	}
	h.payload[c01class(s)]++
	return s
}

var c01floats = []float64{0, 1, -1, 0.1, 1.0000000000000002, 123456789.123456789, 1e15, 1e16, 1e21, 1e-7, 4.9e-324, 2.2250738585072014e-308,
	1.7976931348623157e308, 12345678901234567, 0.30000000000000004, -0.0, 3.14159, 1e100, 65535.5, 44197.5, 2958465.9999}

func (h *c01hist) step() {
	f, rng := h.f, h.rng
	sh := h.sheet()
	switch k := rng.Intn(100); {
	case k < 22:
		c, _, _ := h.cell(sh)
		s := h.str()
		h.note("SetCellStr", f.SetCellStr(sh, c, s), "SetCellStr(%s,%s,%s)", sh, c, c01q(s))
	case k < 28:
		c, _, _ := h.cell(sh)
		v := []int64{0, 1, -1, 255, 65536, 1 << 31, -(1 << 31), 1<<63 - 1, -(1 << 63), 123456789012345678}[rng.Intn(10)]
		h.note("SetCellInt", f.SetCellInt(sh, c, v), "SetCellInt(%s,%s,%d)", sh, c, v)
	case k < 30:
		c, _, _ := h.cell(sh)
		v := []uint64{0, 1<<64 - 1, 1 << 63, 42}[rng.Intn(4)]
		h.note("SetCellUint", f.SetCellUint(sh, c, v), "SetCellUint(%s,%s,%d)", sh, c, v)
	case k < 38:
		c, _, _ := h.cell(sh)
		v := c01floats[rng.Intn(len(c01floats))]
		if rng.Chance(30) {
			v = (rng.F64() - 0.5) * float64(int64(1)<<uint(rng.Intn(60)))
		}
		bits := 64
		if rng.Chance(15) {
			bits = 32
		}
		h.note("SetCellFloat", f.SetCellFloat(sh, c, v, -1, bits), "SetCellFloat(%s,%s,%v,-1,%d)", sh, c, v, bits)
	case k < 41:
		c, _, _ := h.cell(sh)
		v := rng.Bool()
		h.note("SetCellBool", f.SetCellBool(sh, c, v), "SetCellBool(%s,%s,%v)", sh, c, v)
	case k < 47:
		c, _, _ := h.cell(sh)
		var v interface{}
		switch rng.Intn(7) {
		case 0:
			v = time.Date(1900+rng.Intn(200), time.Month(1+rng.Intn(12)), 1+rng.Intn(28), rng.Intn(24), rng.Intn(60), rng.Intn(60), 0, time.UTC)
		case 1:
			v = time.Duration(rng.Intn(1e9)) * time.Microsecond
		case 2:
			v = nil
		case 3:
			v = []byte(h.str())
		case 4:
			v = float32(rng.F64() * 1000)
		case 5:
			v = int8(rng.Intn(256) - 128)
		default:
			v = h.str()
		}
		h.note("SetCellValue", f.SetCellValue(sh, c, v), "SetCellValue(%s,%s,%T %v)", sh, c, v, c01q(fmt.Sprint(v)))
	case k < 53:
		c, _, _ := h.cell(sh)
		fm := rng.Pick([]string{"A1+1", "SUM(A1:B3)", "\"a<b\"&\"&\"", "IF(A1>1,\"x\",\" y \")", "1/0", "Sheet1!A1*2", "TODAY()", "A1&\"_x0041_\"", "=1+2"})
		h.note("SetCellFormula", f.SetCellFormula(sh, c, fm), "SetCellFormula(%s,%s,%q)", sh, c, fm)
	case k < 56:
		c, _, _ := h.cell(sh)
		runs := []xl.RichTextRun{{Text: h.str(), Font: &xl.Font{Bold: true, Color: "2354E8"}}, {Text: h.str()}}
		if rng.Bool() {
			runs = append(runs, xl.RichTextRun{Text: " tail ", Font: &xl.Font{Italic: true, Family: "Times New Roman", Size: 14}})
		}
		h.note("SetCellRichText", f.SetCellRichText(sh, c, runs), "SetCellRichText(%s,%s,%d runs %s)", sh, c, len(runs), c01q(runs[0].Text+runs[1].Text))
	case k < 59:
		c, _, _ := h.cell(sh)
		if rng.Chance(25) {
			u := "http://purl.oclc.org/ooxml/officeDocument/relationships/image"
			h.note("SetCellHyperLink", f.SetCellHyperLink(sh, c, u, "External"), "SetCellHyperLink(%s,%s,%s)", sh, c, u)
		} else if rng.Bool() {
			h.note("SetCellHyperLink", f.SetCellHyperLink(sh, c, "https://example.com/?a=1&b=<2>", "External"), "SetCellHyperLink(%s,%s,external)", sh, c)
		} else {
			tip := "tip & <b>"
			h.note("SetCellHyperLink", f.SetCellHyperLink(sh, c, "Sheet1!A10", "Location", xl.HyperlinkOpts{Tooltip: &tip}), "SetCellHyperLink(%s,%s,location)", sh, c)
		}
	case k < 65:
		c1, _, _ := h.cellF(sh, false)
		c2, _, _ := h.cellF(sh, false)
		if h.rng.Chance(25) { // a single far cell; never a far rectangle (it would materialise millions of cells)
			c1, _, _ = h.cell(sh)
			c2 = c1
		}
		id := h.style()
		h.note("SetCellStyle", f.SetCellStyle(sh, c1, c2, id), "SetCellStyle(%s,%s,%s,%d)", sh, c1, c2, id)
	case k < 69:
		c1, _, _ := h.cellF(sh, false) // MergeCell visits every cell of the rectangle: near cells only
		c2, _, _ := h.cellF(sh, false)
		h.note("MergeCell", f.MergeCell(sh, c1, c2), "MergeCell(%s,%s,%s)", sh, c1, c2)
	case k < 70:
		c1, _, _ := h.cellF(sh, false)
		c2, _, _ := h.cellF(sh, false)
		h.note("UnmergeCell", f.UnmergeCell(sh, c1, c2), "UnmergeCell(%s,%s,%s)", sh, c1, c2)
	case k < 74:
		_, _, row := h.cell(sh)
		ht := []float64{0, 0.5, 15, 20.25, 409, 33.333}[rng.Intn(6)]
		h.note("SetRowHeight", f.SetRowHeight(sh, row, ht), "SetRowHeight(%s,%d,%v)", sh, row, ht)
	case k < 76:
		_, _, row := h.cell(sh)
		v := rng.Chance(30)
		h.note("SetRowVisible", f.SetRowVisible(sh, row, v), "SetRowVisible(%s,%d,%v)", sh, row, v)
	case k < 78:
		_, _, row := h.cell(sh)
		lv := uint8(rng.Intn(8))
		h.note("SetRowOutlineLevel", f.SetRowOutlineLevel(sh, row, lv), "SetRowOutlineLevel(%s,%d,%d)", sh, row, lv)
	case k < 80:
		_, _, r1 := h.cell(sh)
		_, _, r2 := h.cell(sh)
		if r1 > r2 {
			r1, r2 = r2, r1
		}
		id := h.style()
		h.note("SetRowStyle", f.SetRowStyle(sh, r1, r2, id), "SetRowStyle(%s,%d,%d,%d)", sh, r1, r2, id)
	case k < 84:
		_, c1, _ := h.cell(sh)
		_, c2, _ := h.cell(sh)
		n1, _ := xl.ColumnNumberToName(c1)
		n2, _ := xl.ColumnNumberToName(c2)
		w := []float64{0, 1, 8.43, 12.5, 255, 30.75}[rng.Intn(6)]
		h.note("SetColWidth", f.SetColWidth(sh, n1, n2, w), "SetColWidth(%s,%s,%s,%v)", sh, n1, n2, w)
	case k < 86:
		_, c1, _ := h.cell(sh)
		n1, _ := xl.ColumnNumberToName(c1)
		v := rng.Chance(30)
		h.note("SetColVisible", f.SetColVisible(sh, n1, v), "SetColVisible(%s,%s,%v)", sh, n1, v)
	case k < 87:
		_, c1, _ := h.cell(sh)
		n1, _ := xl.ColumnNumberToName(c1)
		lv := uint8(rng.Intn(8))
		h.note("SetColOutlineLevel", f.SetColOutlineLevel(sh, n1, lv), "SetColOutlineLevel(%s,%s,%d)", sh, n1, lv)
	case k < 89:
		_, c1, _ := h.cell(sh)
		_, c2, _ := h.cell(sh)
		n1, _ := xl.ColumnNumberToName(c1)
		n2, _ := xl.ColumnNumberToName(c2)
		id := h.style()
		h.note("SetColStyle", f.SetColStyle(sh, n1+":"+n2, id), "SetColStyle(%s,%s:%s,%d)", sh, n1, n2, id)
	case k < 91:
		name := rng.Pick([]string{"Name1", "Amount", "_x0041_", "Taxé", "rng.2"})
		dn := &xl.DefinedName{Name: name, RefersTo: sh + "!$A$1:$B$" + strconv.Itoa(rng.Range(1, 9)), Comment: rng.Pick([]string{"", "c & <d>", " lead", "http://purl.oclc.org/ooxml/spreadsheetml/main"})}
		if rng.Bool() {
			dn.Scope = sh
		}
		if rng.Chance(25) {
			h.note("DeleteDefinedName", f.DeleteDefinedName(dn), "DeleteDefinedName(%s,%s)", dn.Name, dn.Scope)
		} else {
			h.note("SetDefinedName", f.SetDefinedName(dn), "SetDefinedName(%s,%s,%s)", dn.Name, dn.RefersTo, dn.Scope)
		}
	case k < 93:
		name := rng.Pick([]string{"S2", "Data", "Émile & co", "x y", "Sheet9", "_x0041_"})
		_, err := f.NewSheet(name)
		h.note("NewSheet", err, "NewSheet(%s)", c01q(name))
	case k < 94:
		if len(f.GetSheetList()) > 1 {
			h.note("DeleteSheet", f.DeleteSheet(sh), "DeleteSheet(%s)", sh)
		}
	case k < 95:
		nn := rng.Pick([]string{"Renamed", "R&D", "Q1 <2026>", "Sheet1"})
		dup := false // SetSheetName accepts an existing name (C16's finding); observation by name is undefined then
		for _, o := range f.GetSheetList() {
			dup = dup || strings.EqualFold(o, nn)
		}
		if !dup {
			h.note("SetSheetName", f.SetSheetName(sh, nn), "SetSheetName(%s,%s)", sh, nn)
		}
	case k < 96:
		v := rng.Chance(40)
		h.note("SetSheetVisible", f.SetSheetVisible(sh, v, rng.Chance(30)), "SetSheetVisible(%s,%v)", sh, v)
	case k < 97:
		idx, _ := f.GetSheetIndex(sh)
		f.SetActiveSheet(idx)
		h.note("SetActiveSheet", nil, "SetActiveSheet(%d)", idx)
	case k < 98:
		_, _, row := h.cell(sh)
		if rng.Bool() {
			h.note("InsertRows", f.InsertRows(sh, row, rng.Range(1, 2)), "InsertRows(%s,%d)", sh, row)
		} else {
			h.note("RemoveRow", f.RemoveRow(sh, row), "RemoveRow(%s,%d)", sh, row)
		}
		h.maxRow[sh] += 2
	case k < 99:
		_, c1, _ := h.cell(sh)
		n1, _ := xl.ColumnNumberToName(c1)
		if rng.Bool() {
			h.note("InsertCols", f.InsertCols(sh, n1, 1), "InsertCols(%s,%s)", sh, n1)
		} else {
			h.note("RemoveCol", f.RemoveCol(sh, n1), "RemoveCol(%s,%s)", sh, n1)
		}
		h.maxCol[sh]++
	default:
		idx, _ := f.GetSheetIndex(sh)
		to, err := f.NewSheet("Copy" + strconv.Itoa(rng.Intn(3)))
		if err == nil {
			err = f.CopySheet(idx, to)
		}
		h.note("CopySheet", err, "CopySheet(%s)", sh)
	}
}

// c01observe: everything the public getters show, as key -> value.
func c01observe(f *xl.File, maxRow, maxCol map[string]int) map[string]string {
	o := map[string]string{}
	list := f.GetSheetList()
	o["sheets"] = strings.Join(list, "\x1f")
	o["active"] = strconv.Itoa(f.GetActiveSheetIndex())
	for _, dn := range f.GetDefinedName() {
		o["defname:"+dn.Scope+":"+dn.Name] += fmt.Sprintf("[%s|%s]", dn.RefersTo, dn.Comment)
	}
	js := func(v interface{}) string { b, _ := json.Marshal(v); return string(b) }
	if p, err := f.GetWorkbookProps(); err == nil {
		o["wbprops"] = js(p)
	}
	styleDef := map[int]string{}
	for _, sh := range list {
		p := "sh:" + sh + ":"
		vis, _ := f.GetSheetVisible(sh)
		o[p+"visible"] = strconv.FormatBool(vis)
		if sp, err := f.GetSheetProps(sh); err == nil {
			o[p+"props"] = js(sp)
		}
		if mc, err := f.GetMergeCells(sh); err == nil {
			var ms []string
			for _, m := range mc {
				ms = append(ms, m.GetStartAxis()+":"+m.GetEndAxis()+"="+m.GetCellValue())
			}
			o[p+"merges"] = strings.Join(ms, "\x1f")
		} else {
			o[p+"merges"] = "ERR"
		}
		rows, cols := maxRow[sh]+2, maxCol[sh]+2
		colList := []int{}
		for c := 1; c <= cols && c <= 12; c++ {
			colList = append(colList, c)
		}
		for _, c := range []int{26, 27, 28, 702, 703, 16383, 16384} {
			if c <= cols && c > 12 {
				colList = append(colList, c)
			}
		}
		rowList := []int{}
		for r := 1; r <= rows && r <= 16; r++ {
			rowList = append(rowList, r)
		}
		for _, r := range []int{99, 100, 101, 102, 1000, 1001, 1002, 5000, 5001, 5002, 5003} {
			if r <= rows && r > 16 {
				rowList = append(rowList, r)
			}
		}
		for _, r := range rowList {
			ht, e1 := f.GetRowHeight(sh, r)
			v, e2 := f.GetRowVisible(sh, r)
			lv, e3 := f.GetRowOutlineLevel(sh, r)
			o[p+"row:"+strconv.Itoa(r)] = fmt.Sprintf("ht=%v vis=%v lvl=%d %s%s%s", ht, v, lv, errTag(e1), errTag(e2), errTag(e3))
		}
		for _, c := range colList {
			n, _ := xl.ColumnNumberToName(c)
			w, e1 := f.GetColWidth(sh, n)
			v, e2 := f.GetColVisible(sh, n)
			lv, e3 := f.GetColOutlineLevel(sh, n)
			st, e4 := f.GetColStyle(sh, n)
			o[p+"col:"+n] = fmt.Sprintf("w=%v vis=%v lvl=%d style=%d %s%s%s%s", w, v, lv, st, errTag(e1), errTag(e2), errTag(e3), errTag(e4))
		}
		for _, r := range rowList {
			for _, c := range colList {
				name, _ := xl.CoordinatesToCellName(c, r)
				q := p + "cell:" + name + ":"
				val, e1 := f.GetCellValue(sh, name)
				raw, e2 := f.GetCellValue(sh, name, xl.Options{RawCellValue: true})
				ty, e3 := f.GetCellType(sh, name)
				fm, e4 := f.GetCellFormula(sh, name)
				st, e5 := f.GetCellStyle(sh, name)
				if val != "" || e1 != nil {
					o[q+"value"] = val + errTag(e1)
				}
				if raw != "" || e2 != nil {
					o[q+"raw"] = raw + errTag(e2)
				}
				if ty != 0 || e3 != nil {
					o[q+"type"] = strconv.Itoa(int(ty)) + errTag(e3)
				}
				if fm != "" || e4 != nil {
					o[q+"formula"] = fm + errTag(e4)
				}
				if st != 0 || e5 != nil {
					def, ok := styleDef[st]
					if !ok {
						s, err := f.GetStyle(st)
						def = js(s) + errTag(err)
						styleDef[st] = def
					}
					o[q+"style"] = def + errTag(e5)
				}
				if ok, link, err := f.GetCellHyperLink(sh, name); ok || err != nil {
					o[q+"link"] = link + errTag(err)
				}
				if runs, err := f.GetCellRichText(sh, name); len(runs) > 0 || err != nil {
					o[q+"rich"] = js(runs) + errTag(err)
				}
			}
		}
	}
	return o
}

// kind of an observation key, for failure signatures: "sheets", "cell-raw", "row", ...
func c01kind(k string) string {
	if !strings.HasPrefix(k, "sh:") {
		return strings.SplitN(k, ":", 2)[0]
	}
	p := strings.Split(k, ":")
	if len(p) >= 5 && p[len(p)-3] == "cell" {
		return "cell-" + p[len(p)-1]
	}
	if len(p) >= 4 && (p[len(p)-2] == "row" || p[len(p)-2] == "col") {
		return p[len(p)-2]
	}
	return p[len(p)-1]
}

func c01diff(a, b map[string]string) (string, string) {
	keys := map[string]bool{}
	for k := range a {
		keys[k] = true
	}
	for k := range b {
		keys[k] = true
	}
	var ks []string
	for k := range keys {
		if a[k] != b[k] {
			ks = append(ks, k)
		}
	}
	if len(ks) == 0 {
		return "", ""
	}
	sort.Strings(ks)
	k := ks[0]
	return c01kind(k), fmt.Sprintf("%d observations differ; first: %s: before %s, after %s", len(ks), k, c01q(a[k]), c01q(b[k]))
}

// flags: bit0-1 save method, bit2 start from a saved+reopened file (bit4: reopened with a small UnzipXMLSizeLimit), bit3 save in the middle and continue on the same handle
// c01runHist returns ("", "") or (signature, description); when rec is set it also emits hcycle lines and statistics.
func c01runHist(r *Run, seed uint64, idx, nops, flags int, rec bool) (sig, what string, log []string) {
	rng := NewRng(seed*1000003 + uint64(idx)*7919 + 17)
	h := &c01hist{f: xl.NewFile(), rng: rng, maxRow: map[string]int{}, maxCol: map[string]int{}, payload: map[string]int{}, ops: map[string]int{}}
	defer func() {
		if p := recover(); p != nil {
			sig, what, log = "hist:panic", fmt.Sprintf("panic: %v", p), h.log
		}
		if h.f != nil {
			h.f.Close()
		}
	}()
	how := flags & 3
	for i := 0; i < nops; i++ {
		if flags&4 != 0 && i == nops/3 {
			var g *xl.File
			var err error
			if flags&16 != 0 {
				// open with a small UnzipXMLSizeLimit: larger parts (worksheets, shared strings) are
				// unzipped to temporary files and only decoded when an operation touches them
				lim := int64([]int{1024, 600, 4096}[idx%3])
				var b *bytes.Buffer
				if b, err = h.f.WriteToBuffer(); err == nil {
					g, err = xl.OpenReader(bytes.NewReader(b.Bytes()), xl.Options{UnzipXMLSizeLimit: lim})
				}
				h.log = append(h.log, fmt.Sprintf("# WriteToBuffer + OpenReader(UnzipXMLSizeLimit=%d), continue on the opened file", lim))
			} else {
				g, err = c01save(h.f, how+1)
				h.log = append(h.log, "# save + open, continue on the opened file")
			}
			if err != nil {
				return "hist:save-error", "save/open in the middle of the history failed: " + err.Error(), h.log
			}
			h.f.Close()
			h.f = g
		}
		if flags&8 != 0 && i == (2*nops)/3 {
			if _, err := h.f.WriteToBuffer(); err != nil {
				return "hist:save-error", "WriteToBuffer in the middle of the history failed: " + err.Error(), h.log
			}
			h.log = append(h.log, "# WriteToBuffer, continue on the same handle")
			// the handle must still satisfy the representation invariant the setters rely on
			for _, sh := range h.f.GetSheetList() {
				if rows, ok := c01parse(xl.VerifC01Rows(h.f, sh)); ok {
					if _, dense := c01denseAbs(rows); !dense {
						return "after-save:cached-sheet-not-dense", "after WriteToBuffer the cached worksheet " + sh + " is no longer dense (row slot i = row i+1, cell slot j = column j+1): later writes land in the wrong cell", h.log
					}
				}
			}
		}
		h.step()
	}
	if rec {
		for k, v := range h.ops {
			r.Stats["hist-op:"+k] += v
		}
		for k, v := range h.payload {
			r.Stats["hist-payload:"+k] += v
		}
	}
	// warm-up observation: getters may normalise state (C04's subject); the state saved is the state observed
	_ = c01observe(h.f, h.maxRow, h.maxCol)
	before := c01observe(h.f, h.maxRow, h.maxCol)
	pre := map[string]string{}
	list := h.f.GetSheetList()
	preBook := ""
	if rec {
		for _, sh := range list {
			pre[sh] = xl.VerifC01Rows(h.f, sh)
			// the invariant of the theorems (Inv: every worksheet dense) on a reachable state
			if rows, ok := c01parse(pre[sh]); ok {
				if _, dense := c01denseAbs(rows); !dense {
					return "hist:inv-not-dense", "worksheet " + sh + " of a workbook built through the public API is not dense before the save", h.log
				}
				r.Stat("hist:inv-dense-sheets")
			}
		}
		preBook = c01bookDump(h.f)
	}
	preMerges := map[string][]c01rect{}
	for _, sh := range list {
		if l, ok := c01storedMerges(h.f, sh); ok {
			preMerges[sh] = l
		}
	}
	g, err := c01save(h.f, how)
	if err != nil {
		return "hist:save-error", "save/open failed: " + err.Error(), h.log
	}
	defer g.Close()
	if rec {
		for _, sh := range list {
			if !strings.HasPrefix(pre[sh], "ok ") || len(pre[sh]) > 400000 {
				continue
			}
			spec := strings.TrimPrefix(pre[sh], "ok ")
			post := xl.VerifC01Rows(g, sh)
			if d := os.Getenv("C01_DEBUG"); d != "" {
				_ = os.WriteFile(filepath.Join(d, "post-"+strconv.Itoa(len(sh))+".txt"), []byte(sh+"\n"+pre[sh]+"\n"+post+"\n"), 0o644)
				if b, err := h.f.WriteToBuffer(); err == nil {
					_ = os.WriteFile(filepath.Join(d, "book.xlsx"), b.Bytes(), 0o644)
				}
			}
			ln := r.Op("hcycle "+spec, post)
			r.Stat("hcycle:" + strings.SplitN(post, " ", 2)[0])
			c01gridOracle(r, "hcycle", spec, post, ln)
		}
	}
	if rec {
		r.Op("hbook "+preBook, "ok "+c01bookDump(g))
		r.Stat("hbook")
	}
	mergeLine := map[string]int{}
	postMerges := map[string][]c01rect{}
	for _, sh := range list {
		if l, ok := c01storedMerges(g, sh); ok {
			postMerges[sh] = l
			if rec {
				mergeLine[sh] = r.Op("hmerge "+c01rectsWire(preMerges[sh]), "ok "+c01rectsWire(l))
				r.Stat("hmerge")
			}
		}
	}
	after := c01observe(g, h.maxRow, h.maxCol)
	// open finding: MergeCell only appends; the save replaces overlapping stored ranges by their bounding
	// range, which changes where the cells between them are redirected. Attribution is per observation:
	// a differing cell observation is explained only if that cell's anchor under the stored list before
	// the save differs from its anchor under the stored list after open (and the lists overlapped).
	explained, line := 0, 0
	for k := range before {
		if before[k] == after[k] {
			continue
		}
		p := strings.Split(k, ":")
		if len(p) == 5 && p[0] == "sh" && p[2] == "cell" && c01rectsOverlap(preMerges[p[1]]) {
			if c, rr, err := xl.CellNameToCoordinates(p[3]); err == nil && c01anchor(preMerges[p[1]], c, rr) != c01anchor(postMerges[p[1]], c, rr) {
				explained++
				line = mergeLine[p[1]]
				delete(after, k)
				delete(before, k)
			}
		}
	}
	for k := range after {
		if _, ok := before[k]; !ok {
			p := strings.Split(k, ":")
			if len(p) == 5 && p[0] == "sh" && p[2] == "cell" && c01rectsOverlap(preMerges[p[1]]) {
				if c, rr, err := xl.CellNameToCoordinates(p[3]); err == nil && c01anchor(preMerges[p[1]], c, rr) != c01anchor(postMerges[p[1]], c, rr) {
					explained++
					line = mergeLine[p[1]]
					delete(after, k)
				}
			}
		}
	}
	if k, d := c01diff(before, after); k != "" {
		return "hist:save-open-changes:" + k, d, h.log
	}
	if explained > 0 {
		if rec {
			r.Fail(c01mergeSig, fmt.Sprintf("%d cell observations changed on save+open because overlapping stored merged ranges were replaced by their bounding range", explained), line, strings.Join(h.log, "\n")+fmt.Sprintf("\nhist %d %d %d %d", seed, idx, nops, flags))
			r.Stat("hist:explained-by-overlapping-merges")
		}
		// the reopened workbook is the reference for the second cycle
		after = c01observe(g, h.maxRow, h.maxCol)
	}
	g2, err := c01save(g, how+2)
	if err != nil {
		return "hist:save-error", "second save/open failed: " + err.Error(), h.log
	}
	defer g2.Close()
	after2 := c01observe(g2, h.maxRow, h.maxCol)
	if k, d := c01diff(after, after2); k != "" {
		return "hist:second-cycle-changes:" + k, "second save/open cycle is not a fixed point: " + d, h.log
	}
	if rec {
		r.Stat(fmt.Sprintf("hist:flags=%d", flags))
		r.Stats["hist:observations"] += len(before)
	}
	return "", "", h.log
}

func c01history(r *Run, seed uint64, idx, nops, flags int) {
	if idx%20 == 0 {
		runtime.GC()
	}
	if os.Getenv("C01_DEBUG") != "" {
		fmt.Fprintf(os.Stderr, "%s hist %d %d %d %d\n", time.Now().Format("15:04:05"), seed, idx, nops, flags)
	}
	sig, what, log := c01runHist(r, seed, idx, nops, flags, true)
	r.Case(fmt.Sprintf("hist:%d:%d:%d:%d", seed, idx, nops, flags), true)
	if sig == "" {
		r.Stat("hist:ok")
		return
	}
	// shrink: shortest prefix of the same history with the same signature
	best, bestWhat, bestLog := nops, what, log
	for tries := 0; tries < 10 && best > 1; tries++ { // halve while the same failure persists, then trim linearly
		n := best / 2
		if tries >= 6 {
			n = best - 1
		}
		s2, w2, l2 := c01runHist(r, seed, idx, n, flags, false)
		if s2 != sig {
			if tries >= 6 {
				break
			}
			tries = 5
			continue
		}
		best, bestWhat, bestLog = n, w2, l2
	}
	if len(bestLog) > 40 {
		bestLog = append([]string{"# …"}, bestLog[len(bestLog)-40:]...)
	}
	replay := strings.Join(bestLog, "\n") + fmt.Sprintf("\nhist %d %d %d %d", seed, idx, best, flags)
	r.Fail(sig, bestWhat, 0, replay)
}

// ---------------------------------------------------------------- run

func runC01(r *Run, rng *Rng, replay string) {
	r.Rule = "non-trivial: a string payload that is not plain ASCII words (escape look-alike, XML-illegal, whitespace edge, CR/LF/TAB, XML special, non-ASCII, numeric text, at the 32767 limit); every grid with at least one row; every generated history (20-100 API calls, full observation before/after two save+open cycles). distinct by op text / history parameters"
	if replay != "" {
		c01replay(r, replay)
		return
	}
	thorough := r.Tier == "thorough"
	// a transient large worksheet must not raise the GC goal for the rest of the run
	debug.SetMemoryLimit(3 << 30)
	t0 := time.Now()
	lap := func(name string) {
		var ms runtime.MemStats
		runtime.ReadMemStats(&ms)
		r.Notes = append(r.Notes, fmt.Sprintf("phase %s: %.1fs (heap %d MB, sys %d MB, released %d MB)", name, time.Since(t0).Seconds(), ms.HeapAlloc>>20, ms.Sys>>20, ms.HeapReleased>>20))
		if os.Getenv("C01_DEBUG") != "" {
			fmt.Fprintln(os.Stderr, r.Notes[len(r.Notes)-1])
		}
		t0 = time.Now()
	}
	c01afterSave(r)
	c01farCell(r)
	c01mergeWitness(r)
	c01attrPairs(r)
	nAttr := 150
	if thorough {
		nAttr = 4000
	}
	for i := 0; i < nAttr; i++ {
		c01attrHist(r, r.Seed, i, rng.Range(3, 30))
	}
	nCols := 600
	if thorough {
		nCols = 20000
	}
	c01colsPhase(r, rng, nCols)
	c01cellTextPhase(r, rng, nCols/12)
	c01putsPhase(r, rng, nCols/3)
	c01colseqPhase(r, rng, nCols/3)
	c01rowseqPhase(r, rng, nCols/4)
	c01sstseqPhase(r, rng, nCols/5)
	c01styleseqPhase(r, rng, nCols/4)
	c01mergeseqPhase(r, rng, nCols/4)
	c01mergeopsPhase(r, rng, nCols/4)
	lap("witnesses+attribute histories+cols")
	// 1. fixed boundary payloads through every string op
	for i, s := range c01fixedPayloads() {
		c01bm(r, s)
		c01bu(r, s)
		c01tcv(r, s)
		c01setstr(r, s, i)
		c01setdef(r, s)
	}
	lap("fixed-strings")
	// 2. random payloads
	nStr := 1500
	if thorough {
		nStr = 30000
	}
	for i := 0; i < nStr; i++ {
		s := c01payload(rng)
		c01bm(r, s)
		if i%2 == 0 {
			c01bu(r, s)
			c01bu(r, xl.VerifBstrMarshal(s))
		}
		if i%3 == 0 {
			c01tcv(r, s)
		}
		if i%5 == 0 {
			c01setstr(r, s, i)
		}
		if i%25 == 0 && strings.IndexFunc(s, c01illegal) < 0 {
			c01setdef(r, s)
		}
	}
	lap("strings")
	// malformed stream: raw bytes (mostly invalid UTF-8; outside the quantifier, both sides must say so)
	for i := 0; i < 60; i++ {
		b := make([]byte, rng.Range(1, 6))
		for j := range b {
			b[j] = byte(rng.Intn(256))
		}
		c01bm(r, string(b))
		c01bu(r, "_x00"+string(b))
	}
	// 3. grids
	nGrid := 700
	if thorough {
		nGrid = 15000
	}
	for i := 0; i < nGrid; i++ {
		g := c01genDense(rng)
		spec := c01wire(g)
		c01gridOp(r, "cycle", spec)
		if i%2 == 0 {
			c01gridOp(r, "trim", spec)
		}
		tr := xl.VerifC01Trim(spec)
		if rows, ok := c01parse(tr); ok {
			c01gridOp(r, "dens", c01wire(rows))
			m := c01mutateGrid(rng, c01copyRows(rows))
			c01gridOp(r, "dens", c01wire(m))
			if i%3 == 0 {
				c01gridOp(r, "cycle", c01wire(c01mutateGrid(rng, c01copyRows(g))))
			}
		}
	}
	lap("grids")
	// 4. histories
	nHist := 60
	if thorough {
		nHist = 900
	}
	for i := 0; i < nHist; i++ {
		nops := rng.Range(20, 100)
		flags := i & 3
		if i%3 == 1 {
			flags |= 4
			if i%2 == 1 {
				flags |= 16
			}
		}
		c01history(r, r.Seed, i, nops, flags)
	}
	// histories that keep working on a handle after a save (C02's subject; kept separate so that
	// its signature cannot mask anything else)
	nMid := 12
	if thorough {
		nMid = 80
	}
	for i := 0; i < nMid; i++ {
		c01history(r, r.Seed, 100000+i, rng.Range(20, 60), (i&3)|8)
	}
	lap("histories")
	for _, s := range r.opsSample(10) {
		if len(s) > 300 {
			s = s[:300] + "…"
		}
		r.Sample(s)
	}
	r.Notes = append(r.Notes, fmt.Sprintf("strings: %d fixed + %d random payloads; grids: %d dense (+ trimmed, + malformed variants); histories: %d (+%d with a save in the middle on the same handle)", len(c01fixedPayloads()), nStr, nGrid, nHist, nMid))
}

// c01afterSave: the witness of "a worksheet that stays cached across a save must stay dense"
// (NewSheet's worksheet is not evicted by workSheetWriter; trimRow/trimCell work in place on it).
func c01afterSave(r *Run) {
	f := xl.NewFile()
	defer f.Close()
	_, _ = f.NewSheet("S2")
	_ = f.SetCellStr("S2", "C1", "old")
	if _, err := f.WriteToBuffer(); err != nil {
		r.Fail("after-save:save-error", err.Error(), 0, "aftersave")
		return
	}
	r.Case("aftersave", true)
	rows, ok := c01parse(xl.VerifC01Rows(f, "S2"))
	_, dense := c01denseAbs(rows)
	_ = f.SetCellStr("S2", "C1", "new")
	_ = f.SetCellStr("S2", "A1", "a")
	c1, _ := f.GetCellValue("S2", "C1")
	a1, _ := f.GetCellValue("S2", "A1")
	r.Stat(fmt.Sprintf("aftersave:dense=%v", dense))
	if !ok || !dense || c1 != "new" || a1 != "a" {
		r.Fail("after-save:cached-sheet-not-dense", fmt.Sprintf("NewSheet S2; S2!C1=old; WriteToBuffer; S2!C1=new; S2!A1=a: cached sheet dense=%v, C1 reads %q, A1 reads %q", dense, c1, a1), 0, "aftersave")
	}
}

// c01farCell: the last column / a far row survive a cycle (kept out of the random histories for cost).
func c01farCell(r *Run) {
	f := xl.NewFile()
	defer f.Close()
	// the far row first: prepareSheetXML sizes every appended row after the previous row's cell count
	order := []string{"A3000", "XFD1", "XFD3", "XFC3"}
	want := map[string]string{"XFD3": "corner _x0041_", "XFC3": "12.5", "A3000": " far row ", "XFD1": "1"}
	for _, c := range order {
		_ = f.SetCellStr("Sheet1", c, want[c])
	}
	_ = f.SetCellFloat("Sheet1", "XFC3", 12.5, -1, 64)
	_ = f.SetCellInt("Sheet1", "XFD1", 1)
	r.Case("farcell", true)
	g, err := c01save(f, 0)
	if err != nil {
		r.Fail("farcell:save-error", err.Error(), 0, "farcell")
		return
	}
	defer g.Close()
	for c, v := range want {
		a, _ := f.GetCellValue("Sheet1", c)
		b, _ := g.GetCellValue("Sheet1", c)
		if a != v || b != v {
			r.Fail("farcell:save-open-changes-value", fmt.Sprintf("%s written %q, reads %q before and %q after save+open", c, v, a, b), 0, "farcell")
		}
	}
	if rows, ok := c01parse(xl.VerifC01Rows(g, "Sheet1")); ok {
		if _, dense := c01denseAbs(rows); !dense || len(rows) != 3000 {
			r.Fail("farcell:not-dense", fmt.Sprintf("after open: %d row slots, dense=%v", len(rows), dense), 0, "farcell")
		}
	}
}

func c01replay(r *Run, path string) {
	for _, line := range readLines(path) {
		w := strings.Fields(line)
		if len(w) == 0 || strings.HasPrefix(w[0], "#") {
			continue
		}
		rest := strings.TrimSpace(strings.TrimPrefix(line, w[0]))
		switch w[0] {
		case "bm":
			c01bm(r, unhx(w[1]))
		case "bu":
			c01bu(r, unhx(w[1]))
		case "tcv":
			c01tcv(r, unhx(w[1]))
		case "setstr":
			c01setstr(r, unhx(w[1]), 0)
		case "setdef":
			c01setdef(r, unhx(w[1]))
		case "trim", "dens", "cycle":
			c01gridOp(r, w[0], rest)
		case "hcycle":
			c01gridOp(r, "cycle", rest)
		case "aftersave":
			c01afterSave(r)
		case "farcell":
			c01farCell(r)
		case "mergewitness":
			c01mergeWitness(r)
		case "rowseq":
			c01rowseq(r, rest)
		case "styleseq":
			c01styleseq(r, rest)
		case "colseq":
			c01colseq(r, rest)
		case "mergeseq":
			c01mergeseq(r, rest)
		case "mergeops":
			c01mergeops(r, rest)
		case "puts":
			c01puts(r, rest)
		case "setint":
			n, _ := strconv.ParseInt(w[1], 10, 64)
			c01setint(r, n)
		case "setbool":
			c01setbool(r, w[1] == "1")
		case "mcols", "hmcols":
			c01mcols(r, rest)
		case "attrpair":
			if len(w) == 7 {
				n := func(i int) int { v, _ := strconv.Atoi(w[i]); return v }
				c01attrPair(r, w[1], n(2), n(3), n(4), n(5), n(6))
			}
		case "attrhist":
			if len(w) == 4 {
				seed, _ := strconv.ParseUint(w[1], 10, 64)
				idx, _ := strconv.Atoi(w[2])
				nops, _ := strconv.Atoi(w[3])
				c01attrHist(r, seed, idx, nops)
			}
		case "hist":
			if len(w) == 5 {
				seed, _ := strconv.ParseUint(w[1], 10, 64)
				idx, _ := strconv.Atoi(w[2])
				nops, _ := strconv.Atoi(w[3])
				flags, _ := strconv.Atoi(w[4])
				c01history(r, seed, idx, nops, flags)
			}
		}
	}
}
