//go:build verif_c01

package main

// C01, column and row attribute histories: sequences of SetColWidth / SetColStyle /
// SetColVisible / SetColOutlineLevel (and the row counterparts) over adjacent and overlapping
// ranges, built so that neighbouring <col> / <row> entries differ in exactly one attribute (or
// in none). Every touched column/row and its neighbours are observed with all four getters
// before the save, after save+open and after a second cycle. workSheetWriter merges adjacent
// equal <col> entries on every save (mergeExpandedCols); this is the oracle for it.
//
// Replay lines:  attrpair <kind> <x> <ymask> <side> <order> <block>
//                attrhist <seed> <index> <nops>

import (
	"fmt"
	"sort"
	"strconv"
	"strings"

	xl "github.com/xuri/excelize/v2"
)

var c01attrNames = []string{"width", "style", "hidden", "outline"}

type c01attrCtx struct {
	f      *xl.File
	styles []int
	log    []string
}

func c01newAttrCtx() *c01attrCtx {
	c := &c01attrCtx{f: xl.NewFile()}
	for _, b := range []bool{true, false} {
		id, _ := c.f.NewStyle(&xl.Style{Font: &xl.Font{Bold: b, Italic: !b}})
		c.styles = append(c.styles, id)
	}
	return c
}

func (c *c01attrCtx) note(err error, format string, a ...interface{}) {
	e := ""
	if err != nil {
		e = " -> ERR"
	}
	c.log = append(c.log, "# "+fmt.Sprintf(format, a...)+e)
}

// set attribute x (0 width, 1 style, 2 hidden, 3 outline) with variant v (0/1) on columns c1..c2
func (c *c01attrCtx) setCol(x, v, c1, c2 int) {
	n1, _ := xl.ColumnNumberToName(c1)
	n2, _ := xl.ColumnNumberToName(c2)
	switch x {
	case 0:
		w := []float64{30, 12.5}[v]
		c.note(c.f.SetColWidth("Sheet1", n1, n2, w), "SetColWidth(%s,%s,%v)", n1, n2, w)
	case 1:
		c.note(c.f.SetColStyle("Sheet1", n1+":"+n2, c.styles[v]), "SetColStyle(%s:%s,%d)", n1, n2, c.styles[v])
	case 2:
		rng := n1
		if c2 != c1 {
			rng = n1 + ":" + n2
		}
		c.note(c.f.SetColVisible("Sheet1", rng, v == 1), "SetColVisible(%s,%v)", rng, v == 1)
	default:
		for k := c1; k <= c2; k++ {
			n, _ := xl.ColumnNumberToName(k)
			c.note(c.f.SetColOutlineLevel("Sheet1", n, uint8(1+v)), "SetColOutlineLevel(%s,%d)", n, 1+v)
		}
	}
}

func (c *c01attrCtx) setRow(x, v, r1, r2 int) {
	switch x {
	case 0:
		h := []float64{33.5, 20}[v]
		for k := r1; k <= r2; k++ {
			c.note(c.f.SetRowHeight("Sheet1", k, h), "SetRowHeight(%d,%v)", k, h)
		}
	case 1:
		c.note(c.f.SetRowStyle("Sheet1", r1, r2, c.styles[v]), "SetRowStyle(%d,%d,%d)", r1, r2, c.styles[v])
	case 2:
		for k := r1; k <= r2; k++ {
			c.note(c.f.SetRowVisible("Sheet1", k, v == 1), "SetRowVisible(%d,%v)", k, v == 1)
		}
	default:
		for k := r1; k <= r2; k++ {
			c.note(c.f.SetRowOutlineLevel("Sheet1", k, uint8(1+v)), "SetRowOutlineLevel(%d,%d)", k, 1+v)
		}
	}
}

func c01obsAttrs(f *xl.File, cols, rows []int) map[string]string {
	o := map[string]string{}
	for _, c := range cols {
		if c < 1 || c > 16384 {
			continue
		}
		n, _ := xl.ColumnNumberToName(c)
		w, e1 := f.GetColWidth("Sheet1", n)
		st, e2 := f.GetColStyle("Sheet1", n)
		v, e3 := f.GetColVisible("Sheet1", n)
		lv, e4 := f.GetColOutlineLevel("Sheet1", n)
		o["col:"+n+":width"] = fmt.Sprint(w) + errTag(e1)
		o["col:"+n+":style"] = strconv.Itoa(st) + errTag(e2)
		o["col:"+n+":visible"] = strconv.FormatBool(v) + errTag(e3)
		o["col:"+n+":outline"] = strconv.Itoa(int(lv)) + errTag(e4)
		// the style a cell of that column resolves to
		cs, e5 := f.GetCellStyle("Sheet1", n+"9")
		o["col:"+n+":cellstyle"] = strconv.Itoa(cs) + errTag(e5)
	}
	for _, r := range rows {
		if r < 1 {
			continue
		}
		h, e1 := f.GetRowHeight("Sheet1", r)
		v, e2 := f.GetRowVisible("Sheet1", r)
		lv, e3 := f.GetRowOutlineLevel("Sheet1", r)
		cs, e4 := f.GetCellStyle("Sheet1", "K"+strconv.Itoa(r))
		p := "row:" + strconv.Itoa(r)
		o[p+":height"] = fmt.Sprint(h) + errTag(e1)
		o[p+":visible"] = strconv.FormatBool(v) + errTag(e2)
		o[p+":outline"] = strconv.Itoa(int(lv)) + errTag(e3)
		o[p+":cellstyle"] = strconv.Itoa(cs) + errTag(e4)
	}
	return o
}

func c01attrDiff(a, b map[string]string) (string, string) {
	var ks []string
	for k := range a {
		if a[k] != b[k] {
			ks = append(ks, k)
		}
	}
	if len(ks) == 0 {
		return "", ""
	}
	sort.Strings(ks)
	p := strings.Split(ks[0], ":")
	return p[0] + "-" + p[2], fmt.Sprintf("%d attribute observations differ; first: %s: before %s, after %s", len(ks), ks[0], a[ks[0]], b[ks[0]])
}

// c01attrCheck: observe, save+open, observe, second cycle, observe.
func c01attrCheck(r *Run, c *c01attrCtx, cols, rows []int, how int) (sig, what string) {
	defer func() {
		if p := recover(); p != nil {
			sig, what = "attr:panic", fmt.Sprint(p)
		}
	}()
	_ = c01obsAttrs(c.f, cols, rows) // warm-up (GetCellStyle creates rows/cells)
	before := c01obsAttrs(c.f, cols, rows)
	pre := ""
	if r != nil {
		pre = xl.VerifC01Cols(c.f, "Sheet1")
	}
	g, err := c01save(c.f, how)
	if err != nil {
		return "attr:save-error", err.Error()
	}
	defer g.Close()
	if r != nil && strings.HasPrefix(pre, "ok ") {
		spec, post := strings.TrimPrefix(pre, "ok "), xl.VerifC01Cols(g, "Sheet1")
		if n, _ := strconv.Atoi(strings.Fields(spec)[0]); n <= 4000 {
			if cs, ok := c01colsParse(spec); ok && !c01colsWf(cs) {
				return "attr:inv-cols-overlap", "the <cols> list built through the column setters has overlapping or ill-formed ranges: " + spec
			}
			ln := r.Op("hmcols "+spec, post)
			r.Stat("hmcols:" + strings.SplitN(post, " ", 2)[0])
			c01colsOracle(r, "hmcols", spec, post, ln)
		}
	}
	after := c01obsAttrs(g, cols, rows)
	if k, d := c01attrDiff(before, after); k != "" {
		return "attr:save-open-changes:" + k, d
	}
	g2, err := c01save(g, how+1)
	if err != nil {
		return "attr:save-error", err.Error()
	}
	defer g2.Close()
	after2 := c01obsAttrs(g2, cols, rows)
	if k, d := c01attrDiff(after, after2); k != "" {
		return "attr:second-cycle-changes:" + k, "second cycle: " + d
	}
	return "", ""
}

// c01attrPair: two neighbours (columns or rows) share the attributes in ymask; exactly one of them
// (side) additionally gets attribute x. order: 0 = shared attributes first, 1 = x first.
// block: first column (1 or 16383 = XFC) / first row.
func c01attrPair(r *Run, kind string, x, ymask, side, order, block int) {
	c := c01newAttrCtx()
	defer func() { c.f.Close() }()
	a, b := block, block+1
	set := c.setCol
	if kind == "row" {
		set = c.setRow
	}
	shared := func() {
		for y := 0; y < 4; y++ {
			if y != x && ymask&(1<<y) != 0 {
				if (y+ymask)%2 == 0 { // as one range or as two single calls
					set(y, 0, a, b)
				} else {
					set(y, 0, a, a)
					set(y, 0, b, b)
				}
			}
		}
	}
	if order == 0 {
		shared()
	}
	set(x, 0, a+side, a+side)
	if order == 1 {
		shared()
	}
	cols, rows := []int{block - 1, a, b, b + 1}, []int{1, 2, 3}
	if kind == "row" {
		cols, rows = []int{1, 2}, []int{block - 1, a, b, b + 1}
	}
	line := fmt.Sprintf("attrpair %s %d %d %d %d %d", kind, x, ymask, side, order, block)
	r.Case(line, true)
	r.Stat("attrpair:" + kind + ":" + c01attrNames[x])
	if sig, what := c01attrCheck(r, c, cols, rows, x+ymask); sig != "" {
		r.Fail(sig, fmt.Sprintf("neighbouring %ss differing only in %s: %s", kind, c01attrNames[x], what), 0, strings.Join(c.log, "\n")+"\n"+line)
	}
}

func c01attrPairs(r *Run) {
	for _, kind := range []string{"col", "row"} {
		for x := 0; x < 4; x++ {
			for ymask := 0; ymask < 16; ymask++ {
				if ymask&(1<<x) != 0 {
					continue
				}
				for side := 0; side < 2; side++ {
					for order := 0; order < 2; order++ {
						block := 2
						if kind == "col" && (ymask+side+order)%3 == 0 {
							block = 16383 // XFC:XFD
						}
						c01attrPair(r, kind, x, ymask, side, order, block)
					}
				}
			}
		}
	}
}

// random attribute history over a block of 6 columns and 6 rows
func c01attrRun(r *Run, seed uint64, idx, nops int) (sig, what string, log []string) {
	rng := NewRng(seed*7777 + uint64(idx)*131 + 5)
	c := c01newAttrCtx()
	defer func() { c.f.Close() }()
	base := 1
	if idx%4 == 3 {
		base = 16379 // XEY..XFD
	}
	for i := 0; i < nops; i++ {
		x, v := rng.Intn(4), rng.Intn(2)
		if rng.Chance(80) {
			v = 0 // mostly the same value, so that neighbours end up equal in that attribute
		}
		lo := rng.Intn(6)
		hi := lo
		if rng.Chance(45) {
			hi = lo + rng.Intn(6-lo)
		}
		if rng.Chance(70) {
			c.setCol(x, v, base+lo, base+hi)
		} else {
			c.setRow(x, v, 1+lo, 1+hi)
		}
		if i == nops/2 && idx%3 == 1 { // continue on a reopened file: <col> ranges as merged by the save
			g, err := c01save(c.f, idx)
			if err != nil {
				return "attr:save-error", err.Error(), c.log
			}
			c.f.Close()
			c.f = g
			c.log = append(c.log, "# save + open, continue on the opened file")
		}
	}
	var cols, rows []int
	for k := -1; k <= 6; k++ {
		cols = append(cols, base+k)
		rows = append(rows, 1+k)
	}
	sig, what = c01attrCheck(r, c, cols, rows, idx)
	return sig, what, c.log
}

func c01attrHist(r *Run, seed uint64, idx, nops int) {
	sig, what, log := c01attrRun(r, seed, idx, nops)
	r.Case(fmt.Sprintf("attrhist:%d:%d:%d", seed, idx, nops), true)
	r.Stat("attrhist")
	if sig == "" {
		return
	}
	best := nops
	for n := 1; n < best; n++ { // shortest failing prefix (histories are cheap)
		if idx%3 == 1 {
			break // the reopen point depends on nops
		}
		if s2, w2, l2 := c01attrRun(nil, seed, idx, n); s2 == sig {
			best, what, log = n, w2, l2
			break
		}
	}
	r.Fail(sig, what, 0, strings.Join(log, "\n")+fmt.Sprintf("\nattrhist %d %d %d", seed, idx, best))
}
