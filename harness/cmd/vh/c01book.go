//go:build verif_c01

package main

// C01, workbook level: transcript ops for the model XlModel.SaveBook.
//   hbook <book>   sheet list (order, name, visible), active tab, merged ranges per sheet, defined names of a
//                  generated workbook before the save; implementation answer = the same after a real save+open
//   setint <n>     SetCellInt(A1): raw value before, raw value after save+open, stored type, displayed value
//   setbool <0|1>  SetCellBool(A1) likewise

import (
	"fmt"
	"strconv"
	"strings"

	xl "github.com/xuri/excelize/v2"
)

func c01bookDump(f *xl.File) string {
	list := f.GetSheetList()
	var b strings.Builder
	fmt.Fprintf(&b, "%d %d", f.GetActiveSheetIndex(), len(list))
	idx := map[string]int{}
	for i, sh := range list {
		idx[sh] = i
		vis := "h"
		if v, _ := f.GetSheetVisible(sh); v {
			vis = "v"
		}
		mc, _ := f.GetMergeCells(sh)
		fmt.Fprintf(&b, " %s %s %d", hx(sh), vis, len(mc))
		for _, m := range mc {
			b.WriteString(" " + hx(m.GetStartAxis()+":"+m.GetEndAxis()))
		}
	}
	names := f.GetDefinedName()
	fmt.Fprintf(&b, " %d", len(names))
	for _, d := range names {
		sc := "~"
		if i, ok := idx[d.Scope]; ok {
			sc = strconv.Itoa(i)
		}
		fmt.Fprintf(&b, " %s %s %s %s", hx(d.Name), hx(d.RefersTo), hx(d.Comment), sc)
	}
	return b.String()
}

func c01cellText(r *Run, op string, set func(f *xl.File) error) {
	res := "PANIC"
	func() {
		defer func() { _ = recover() }()
		f := xl.NewFile()
		defer f.Close()
		if set(f) != nil {
			res = "ERR"
			return
		}
		raw, _ := f.GetCellValue("Sheet1", "A1", xl.Options{RawCellValue: true})
		g, err := c01save(f, len(op))
		if err != nil {
			res = "ERR-SAVE"
			return
		}
		defer g.Close()
		re, _ := g.GetCellValue("Sheet1", "A1", xl.Options{RawCellValue: true})
		shown, _ := g.GetCellValue("Sheet1", "A1")
		t := ""
		if rows, ok := c01parse(xl.VerifC01Rows(g, "Sheet1")); ok && len(rows) > 0 && len(rows[0].cells) > 0 {
			t = rows[0].cells[0].t
		}
		res = fmt.Sprintf("raw=%s re=%s t=%s shown=%s", hx(raw), hx(re), hx(t), hx(shown))
		if raw != re {
			r.Fail("celltext:save-open-changes-value", fmt.Sprintf("%s: raw value %q before, %q after save+open", op, raw, re), 0, op)
		}
	}()
	r.Op(op, res)
	r.Case(op, true)
	r.Stat(strings.Fields(op)[0])
}

func c01setint(r *Run, n int64) {
	c01cellText(r, "setint "+strconv.FormatInt(n, 10), func(f *xl.File) error { return f.SetCellInt("Sheet1", "A1", n) })
}

func c01setbool(r *Run, b bool) {
	v := "0"
	if b {
		v = "1"
	}
	c01cellText(r, "setbool "+v, func(f *xl.File) error { return f.SetCellBool("Sheet1", "A1", b) })
}

func c01cellTextPhase(r *Run, rng *Rng, n int) {
	c01setbool(r, true)
	c01setbool(r, false)
	for _, v := range []int64{0, 1, -1, 9, 10, 255, 65536, 1 << 31, -(1 << 31), 999999999999999, -999999999999999, 100000000000000} {
		c01setint(r, v)
	}
	for i := 0; i < n; i++ {
		v := int64(rng.U64()>>uint(14+rng.Intn(50))) % 1000000000000000
		if rng.Bool() {
			v = -v
		}
		c01setint(r, v)
	}
}

// c01puts: a sequence of SetCellInt / SetCellBool on a new worksheet; the internal <sheetData> afterwards
// against the model of prepareSheetXML + fillColumns + setter (SaveBook.writeCell).
func c01puts(r *Run, spec string) {
	w := strings.Fields(spec)
	res := "bad-op"
	func() {
		defer func() {
			if recover() != nil {
				res = "PANIC"
			}
		}()
		n, err := strconv.Atoi(w[0])
		if err != nil || len(w) != 1+4*n {
			return
		}
		f := xl.NewFile()
		defer f.Close()
		for k := 0; k < n; k++ {
			j, _ := strconv.Atoi(w[1+4*k])
			i, _ := strconv.Atoi(w[2+4*k])
			v, _ := strconv.ParseInt(w[4+4*k], 10, 64)
			cell, e := xl.CoordinatesToCellName(j+1, i+1)
			if e != nil {
				return
			}
			if w[3+4*k] == "b" {
				e = f.SetCellBool("Sheet1", cell, v != 0)
			} else {
				e = f.SetCellInt("Sheet1", cell, v)
			}
			if e != nil {
				res = "ERR"
				return
			}
		}
		res = xl.VerifC01Rows(f, "Sheet1")
	}()
	ln := r.Op("puts "+spec, res)
	r.Case("puts:"+spec, true)
	r.Stat("puts")
	// inv_step on the real code: the sheet is dense after every sequence of writes
	if rows, ok := c01parse(res); ok {
		if _, dense := c01denseAbs(rows); !dense {
			r.Fail("puts:not-dense", "worksheet not dense after a sequence of cell writes", ln, "puts "+spec)
		}
	}
}

func c01putsPhase(r *Run, rng *Rng, n int) {
	c01puts(r, "0")
	c01puts(r, "3 2 0 i 7 0 0 b 1 2 0 i -5")
	c01puts(r, "2 16383 1 i 1 0 2 b 0")
	for k := 0; k < n; k++ {
		m := rng.Range(1, 8)
		var b strings.Builder
		b.WriteString(strconv.Itoa(m))
		for q := 0; q < m; q++ {
			j, i := rng.Intn(7), rng.Intn(7)
			if rng.Chance(4) {
				j = rng.Pick2([]int{25, 26, 701, 16383})
			}
			if rng.Chance(4) {
				i = rng.Pick2([]int{98, 250})
			}
			if rng.Chance(25) {
				fmt.Fprintf(&b, " %d %d b %d", j, i, rng.Intn(2))
			} else {
				fmt.Fprintf(&b, " %d %d i %d", j, i, rng.Intn(2000)-1000)
			}
		}
		c01puts(r, b.String())
	}
}

// c01rowseq: row-attribute setters in order on a new worksheet against SaveBook.writeRowAttr.
func c01rowseq(r *Run, spec string) {
	w := strings.Fields(spec)
	res := "bad-op"
	func() {
		defer func() {
			if recover() != nil {
				res = "PANIC"
			}
		}()
		n, err := strconv.Atoi(w[0])
		if err != nil || len(w) != 1+3*n {
			return
		}
		f := xl.NewFile()
		defer f.Close()
		for k := 0; k < n; k++ {
			i, _ := strconv.Atoi(w[2+3*k])
			var e error
			switch w[1+3*k] {
			case "h":
				h, _ := strconv.ParseFloat(unhx(w[3+3*k]), 64)
				e = f.SetRowHeight("Sheet1", i+1, h)
			case "v":
				e = f.SetRowVisible("Sheet1", i+1, w[3+3*k] == "1")
			default:
				lv, _ := strconv.Atoi(w[3+3*k])
				e = f.SetRowOutlineLevel("Sheet1", i+1, uint8(lv))
			}
			if e != nil {
				res = "ERR"
				return
			}
		}
		res = xl.VerifC01Rows(f, "Sheet1")
	}()
	ln := r.Op("rowseq "+spec, res)
	r.Case("rowseq:"+spec, true)
	r.Stat("rowseq")
	if rows, ok := c01parse(res); ok {
		if _, dense := c01denseAbs(rows); !dense {
			r.Fail("rowseq:not-dense", "worksheet not dense after a sequence of row-attribute setters", ln, "rowseq "+spec)
		}
	}
}

func c01rowseqPhase(r *Run, rng *Rng, n int) {
	c01rowseq(r, "0")
	c01rowseq(r, "3 h 2 "+hx("33.5")+" v 0 0 o 2 3")
	for k := 0; k < n; k++ {
		m := rng.Range(1, 6)
		var b strings.Builder
		b.WriteString(strconv.Itoa(m))
		for q := 0; q < m; q++ {
			i := rng.Intn(6)
			if rng.Chance(5) {
				i = rng.Pick2([]int{40, 120})
			}
			switch rng.Intn(3) {
			case 0:
				fmt.Fprintf(&b, " h %d %s", i, hx(rng.Pick([]string{"33.5", "20", "0", "409"})))
			case 1:
				fmt.Fprintf(&b, " v %d %d", i, rng.Intn(2))
			default:
				fmt.Fprintf(&b, " o %d %d", i, rng.Range(1, 7))
			}
		}
		c01rowseq(r, b.String())
	}
}

// ---- merged ranges: the STORED list (not GetMergeCells, which shows a normalised copy)

type c01rect [4]int

func c01storedMerges(f *xl.File, sheet string) ([]c01rect, bool) {
	d := xl.VerifDumpSheet(f, sheet)
	i := strings.LastIndex(d, " M=")
	j := strings.LastIndex(d, " dense=")
	if i < 0 || j < i {
		return nil, false
	}
	var out []c01rect
	for _, ref := range strings.Split(d[i+3:j], ",") {
		if ref == "" || ref == "nil" {
			continue
		}
		p := strings.Split(ref, ":")
		a, b, e1 := xl.CellNameToCoordinates(p[0])
		c, e, e2 := xl.CellNameToCoordinates(p[len(p)-1])
		if e1 != nil || e2 != nil {
			return nil, false
		}
		out = append(out, c01rect{min(a, c), min(b, e), max(a, c), max(b, e)})
	}
	return out, true
}

func c01rectsWire(l []c01rect) string {
	var b strings.Builder
	b.WriteString(strconv.Itoa(len(l)))
	for _, m := range l {
		fmt.Fprintf(&b, " %d %d %d %d", m[0], m[1], m[2], m[3])
	}
	return b.String()
}

func c01rectsOverlap(l []c01rect) bool {
	for i := range l {
		for j := i + 1; j < len(l); j++ {
			a, b := l[i], l[j]
			if a[0] <= b[2] && b[0] <= a[2] && a[1] <= b[3] && b[1] <= a[3] {
				return true
			}
		}
	}
	return false
}

func c01anchor(l []c01rect, c, r int) [2]int {
	for _, m := range l {
		if m[0] <= c && c <= m[2] && m[1] <= r && r <= m[3] {
			return [2]int{m[0], m[1]}
		}
	}
	return [2]int{c, r}
}

const c01mergeSig = "hist:overlapping-merges-normalised-at-save"

// c01mergeWitness: the witness of the open finding (DESIGN: B1:C7 + B5:E5, cell E1).
func c01mergeWitness(r *Run) {
	f := xl.NewFile()
	defer f.Close()
	_ = f.SetCellStr("Sheet1", "B1", "anchor")
	_ = f.SetCellStr("Sheet1", "E1", "own")
	_ = f.MergeCell("Sheet1", "B1", "C7")
	_ = f.MergeCell("Sheet1", "B5", "E5")
	before, _ := f.GetCellValue("Sheet1", "E1")
	pre, ok1 := c01storedMerges(f, "Sheet1")
	g, err := c01save(f, 0)
	if err != nil || !ok1 {
		r.Fail("mergewitness:failed", "could not run the merged-range witness", 0, "mergewitness")
		return
	}
	defer g.Close()
	post, _ := c01storedMerges(g, "Sheet1")
	ln := r.Op("hmerge "+c01rectsWire(pre), "ok "+c01rectsWire(post))
	after, _ := g.GetCellValue("Sheet1", "E1")
	r.Case("mergewitness", true)
	if before != after {
		r.Fail(c01mergeSig, fmt.Sprintf("MergeCell(B1:C7); MergeCell(B5:E5): E1 reads %q before the save and %q after save+open (stored ranges %v become %v)", before, after, pre, post), ln, "mergewitness")
	}
}

// c01sstseq: SetCellStr on A1.., save+open, SetCellStr on the following cells; the shared-string index stored
// in every cell and the table against SaveSst (setSharedString bookkeeping, the map built at open).
func c01sstseq(r *Run, first, second []string) {
	var b strings.Builder
	fmt.Fprintf(&b, "%d", len(first))
	for _, s := range first {
		b.WriteString(" " + hx(s))
	}
	fmt.Fprintf(&b, " %d", len(second))
	for _, s := range second {
		b.WriteString(" " + hx(s))
	}
	op := "sstseq " + b.String()
	res := "PANIC"
	func() {
		defer func() { _ = recover() }()
		f := xl.NewFile()
		defer f.Close()
		for i, s := range first {
			if f.SetCellStr("Sheet1", "A"+strconv.Itoa(i+1), s) != nil {
				res = "ERR"
				return
			}
		}
		g, err := c01save(f, len(first))
		if err != nil {
			res = "ERR-SAVE"
			return
		}
		defer g.Close()
		for i, s := range second {
			if g.SetCellStr("Sheet1", "A"+strconv.Itoa(len(first)+i+1), s) != nil {
				res = "ERR"
				return
			}
		}
		rows, ok := c01parse(xl.VerifC01Rows(g, "Sheet1"))
		if !ok {
			res = "ERR-DUMP"
			return
		}
		var idx []string
		all := append(append([]string{}, first...), second...)
		for i := range all {
			v := "?"
			if i < len(rows) && len(rows[i].cells) > 0 && rows[i].cells[0].t == "s" {
				v = rows[i].cells[0].v
			}
			idx = append(idx, v)
			// direct oracle: every cell, also the ones written before the reopen, reads its own string
			got, _ := g.GetCellValue("Sheet1", "A"+strconv.Itoa(i+1))
			if got != c01truncate(all[i]) {
				r.Fail("sstseq:cell-reads-other-string", fmt.Sprintf("A%d was written %s and reads %s after %d+%d SetCellStr calls around a save+open", i+1, c01q(all[i]), c01q(got), len(first), len(second)), 0, op)
			}
		}
		sst := xl.VerifSharedStrings(g)
		var sb strings.Builder
		fmt.Fprintf(&sb, "idx=%s sst=%d", strings.Join(idx, ","), len(sst))
		for _, t := range sst {
			sb.WriteString(" " + hx(t))
		}
		res = sb.String()
	}()
	r.Op(op, res)
	r.Case(op, true)
	r.Stat("sstseq")
}

func c01sstseqPhase(r *Run, rng *Rng, n int) {
	c01sstseq(r, nil, nil)
	c01sstseq(r, []string{"a", "b", "a"}, []string{"b", "c", "a"})
	c01sstseq(r, []string{"_x0041_", "A", "_x005F_x0041_", ""}, []string{"A", "_x0041_", "", "a\x01"})
	c01sstseq(r, []string{strings.Repeat("w", 32768), strings.Repeat("w", 32767)}, []string{strings.Repeat("w", 32769)})
	pool := []string{"a", "b", "A", "_x0041_", "_x005F_x0041_", " a", "a ", "", "a\x01", "x\ny", "<&>", "é", "_", "_x005F_"}
	for k := 0; k < n; k++ {
		var a, b []string
		for i, m := 0, rng.Intn(6); i < m; i++ {
			a = append(a, pool[rng.Intn(len(pool))])
		}
		for i, m := 0, rng.Intn(6); i < m; i++ {
			if rng.Chance(30) {
				b = append(b, c01payload(rng))
			} else {
				b = append(b, pool[rng.Intn(len(pool))])
			}
		}
		c01sstseq(r, a, b)
	}
}

// c01styleseq: SetCellInt and SetCellStyle (rectangles) in order on a new worksheet against SaveBook.styleRect.
// Two styles are created first; their ids (1 and 2 on a new file) are the ones used in the spec.
func c01styleseq(r *Run, spec string) {
	w := strings.Fields(spec)
	res := "bad-op"
	func() {
		defer func() {
			if recover() != nil {
				res = "PANIC"
			}
		}()
		n, err := strconv.Atoi(w[0])
		if err != nil || len(w) != 1+6*n {
			return
		}
		f := xl.NewFile()
		defer f.Close()
		for _, b := range []bool{true, false} {
			_, _ = f.NewStyle(&xl.Style{Font: &xl.Font{Bold: b, Italic: !b}})
		}
		for k := 0; k < n; k++ {
			q := w[1+6*k : 7+6*k]
			a, _ := strconv.Atoi(q[1])
			b, _ := strconv.Atoi(q[2])
			c, _ := strconv.Atoi(q[3])
			d, _ := strconv.Atoi(q[4])
			e, _ := strconv.ParseInt(q[5], 10, 64)
			c1, _ := xl.CoordinatesToCellName(a+1, b+1)
			var er error
			if q[0] == "p" {
				er = f.SetCellInt("Sheet1", c1, e)
			} else {
				c2, _ := xl.CoordinatesToCellName(c+1, d+1)
				er = f.SetCellStyle("Sheet1", c1, c2, int(e))
			}
			if er != nil {
				res = "ERR"
				return
			}
		}
		res = xl.VerifC01Rows(f, "Sheet1")
	}()
	ln := r.Op("styleseq "+spec, res)
	r.Case("styleseq:"+spec, true)
	r.Stat("styleseq")
	if rows, ok := c01parse(res); ok {
		if _, dense := c01denseAbs(rows); !dense {
			r.Fail("styleseq:not-dense", "worksheet not dense after cell writes and rectangle styles", ln, "styleseq "+spec)
		}
	}
}

func c01styleseqPhase(r *Run, rng *Rng, n int) {
	c01styleseq(r, "0")
	c01styleseq(r, "3 p 1 1 0 0 5 s 0 0 2 2 1 p 3 0 0 0 7")
	c01styleseq(r, "2 s 1 1 2 3 2 s 0 0 0 0 0")
	for k := 0; k < n; k++ {
		m := rng.Range(1, 6)
		var b strings.Builder
		b.WriteString(strconv.Itoa(m))
		for q := 0; q < m; q++ {
			if rng.Chance(45) {
				fmt.Fprintf(&b, " p %d %d 0 0 %d", rng.Intn(6), rng.Intn(6), rng.Intn(100))
			} else {
				j1, i1 := rng.Intn(6), rng.Intn(6)
				j2, i2 := j1+rng.Intn(4), i1+rng.Intn(4)
				fmt.Fprintf(&b, " s %d %d %d %d %d", j1, i1, j2, i2, rng.Intn(3))
			}
		}
		c01styleseq(r, b.String())
	}
}

// c01storedMergesRaw: the stored merged-range list as written (no re-sorting of the corners).
func c01storedMergesRaw(f *xl.File, sheet string) ([]c01rect, bool) {
	d := xl.VerifDumpSheet(f, sheet)
	i := strings.LastIndex(d, " M=")
	j := strings.LastIndex(d, " dense=")
	if i < 0 || j < i {
		return nil, false
	}
	var out []c01rect
	for _, ref := range strings.Split(d[i+3:j], ",") {
		if ref == "" || ref == "nil" {
			continue
		}
		p := strings.Split(ref, ":")
		a, b, e1 := xl.CellNameToCoordinates(p[0])
		c, e, e2 := xl.CellNameToCoordinates(p[len(p)-1])
		if e1 != nil || e2 != nil {
			return nil, false
		}
		out = append(out, c01rect{a, b, c, e})
	}
	return out, true
}

// c01mergeseq: MergeCell calls (corners in any order) on a new worksheet; the stored merged-range list
// afterwards against SaveMerge.mergeCell (sortCoordinates + append). inv_step_merge on the real code: when
// no two requested ranges overlap, the stored list after a real save + open is the stored list before.
func c01mergeseq(r *Run, spec string) {
	w := strings.Fields(spec)
	res := "bad-op"
	var pre, post []c01rect
	saved := false
	func() {
		defer func() {
			if recover() != nil {
				res = "PANIC"
			}
		}()
		n, err := strconv.Atoi(w[0])
		if err != nil || len(w) != 1+4*n {
			return
		}
		f := xl.NewFile()
		defer f.Close()
		for k := 0; k < n; k++ {
			v := [4]int{}
			for q := range v {
				v[q], _ = strconv.Atoi(w[1+4*k+q])
			}
			a, e1 := xl.CoordinatesToCellName(v[0], v[1])
			b, e2 := xl.CoordinatesToCellName(v[2], v[3])
			if e1 != nil || e2 != nil || f.MergeCell("Sheet1", a, b) != nil {
				res = "ERR"
				return
			}
		}
		l, ok := c01storedMergesRaw(f, "Sheet1")
		if !ok {
			return
		}
		pre = l
		res = "ok " + c01rectsWire(l)
		if g, err := c01save(f, 0); err == nil {
			post, saved = c01storedMergesRaw(g, "Sheet1")
			g.Close()
		}
	}()
	ln := r.Op("mergeseq "+spec, res)
	r.Case("mergeseq:"+spec, true)
	r.Stat("mergeseq")
	if strings.HasPrefix(res, "ok ") && !c01rectsOverlap(pre) {
		r.Stat("mergeseq:disjoint")
		if !saved || c01rectsWire(post) != c01rectsWire(pre) {
			r.Fail("mergeseq:disjoint-list-changed-by-save", fmt.Sprintf("stored merged ranges %v without overlap become %v after save+open", pre, post), ln, "mergeseq "+spec)
		}
	}
}

func c01mergeseqPhase(r *Run, rng *Rng, n int) {
	c01mergeseq(r, "0")
	c01mergeseq(r, "3 1 1 1 2 4 4 5 5 3 3 2 1")
	c01mergeseq(r, "2 16384 2 16383 1 3 9 1 9")
	for k := 0; k < n; k++ {
		m := rng.Range(1, 5)
		var b strings.Builder
		b.WriteString(strconv.Itoa(m))
		for q := 0; q < m; q++ {
			bc, br := 1, 1
			if rng.Chance(10) {
				bc = 16376
			}
			x1, y1 := bc+rng.Intn(9), br+rng.Intn(9)
			x2, y2 := x1, y1
			if rng.Chance(70) {
				x2 = bc + rng.Intn(9)
				if x2 > x1+2 {
					x2 = x1 + 2
				}
				if x2 < x1-2 {
					x2 = x1 - 2
				}
			}
			if rng.Chance(70) {
				y2 = br + rng.Intn(9)
				if y2 > y1+2 {
					y2 = y1 + 2
				}
				if y2 < y1-2 {
					y2 = y1 - 2
				}
			}
			fmt.Fprintf(&b, " %d %d %d %d", x1, y1, x2, y2)
		}
		c01mergeseq(r, b.String())
	}
}

// c01mergeops: MergeCell / UnmergeCell calls (corners in any order) on a new worksheet; the stored
// merged-range list afterwards against SaveMerge.mergeCell / unmergeCell (mergeOverlapCells in place, then the
// ranges overlapping the argument are dropped). inv_step_unmerge on the real code: when the stored list
// at the end has no overlapping ranges, a real save + open returns it unchanged; and no stored range left
// by a final UnmergeCell overlaps its argument.
func c01mergeops(r *Run, spec string) {
	w := strings.Fields(spec)
	res := "bad-op"
	var pre, post []c01rect
	saved := false
	var last [4]int
	lastU := false
	func() {
		defer func() {
			if recover() != nil {
				res = "PANIC"
			}
		}()
		n, err := strconv.Atoi(w[0])
		if err != nil || len(w) != 1+5*n {
			return
		}
		f := xl.NewFile()
		defer f.Close()
		for k := 0; k < n; k++ {
			v := [4]int{}
			for q := range v {
				v[q], _ = strconv.Atoi(w[2+5*k+q])
			}
			a, e1 := xl.CoordinatesToCellName(v[0], v[1])
			b, e2 := xl.CoordinatesToCellName(v[2], v[3])
			if e1 != nil || e2 != nil {
				res = "ERR"
				return
			}
			var e error
			switch w[1+5*k] {
			case "m":
				e = f.MergeCell("Sheet1", a, b)
				lastU = false
			case "u":
				e = f.UnmergeCell("Sheet1", a, b)
				lastU = true
				last = [4]int{min(v[0], v[2]), min(v[1], v[3]), max(v[0], v[2]), max(v[1], v[3])}
			default:
				return
			}
			if e != nil {
				res = "ERR"
				return
			}
		}
		l, ok := c01storedMergesRaw(f, "Sheet1")
		if !ok {
			return
		}
		pre = l
		res = "ok " + c01rectsWire(l)
		if g, err := c01save(f, 0); err == nil {
			post, saved = c01storedMergesRaw(g, "Sheet1")
			g.Close()
		}
	}()
	ln := r.Op("mergeops "+spec, res)
	r.Case("mergeops:"+spec, true)
	r.Stat("mergeops")
	if !strings.HasPrefix(res, "ok ") {
		return
	}
	if lastU {
		r.Stat("mergeops:ends-with-unmerge")
		for _, m := range pre {
			if last[0] <= m[2] && m[0] <= last[2] && last[1] <= m[3] && m[1] <= last[3] {
				r.Fail("mergeops:unmerge-leaves-overlapping-range", fmt.Sprintf("stored range %v overlaps the range %v just unmerged", m, last), ln, "mergeops "+spec)
				break
			}
		}
	}
	if !c01rectsOverlap(pre) {
		r.Stat("mergeops:disjoint")
		if !saved || c01rectsWire(post) != c01rectsWire(pre) {
			r.Fail("mergeops:disjoint-list-changed-by-save", fmt.Sprintf("stored merged ranges %v without overlap become %v after save+open", pre, post), ln, "mergeops "+spec)
		}
	}
}

func c01mergeopsPhase(r *Run, rng *Rng, n int) {
	c01mergeops(r, "1 u 1 1 2 2")
	c01mergeops(r, "4 m 1 1 1 2 m 2 1 3 3 m 4 4 5 5 u 3 2 2 2")
	c01mergeops(r, "3 m 2 1 3 7 m 2 5 5 5 u 9 9 9 9")
	c01mergeops(r, "2 m 16383 1 16384 2 u 16384 2 16384 2")
	for k := 0; k < n; k++ {
		m := rng.Range(2, 7)
		var b strings.Builder
		b.WriteString(strconv.Itoa(m))
		bc := 1
		if rng.Chance(10) {
			bc = 16376
		}
		for q := 0; q < m; q++ {
			x1, y1 := bc+rng.Intn(9), 1+rng.Intn(9)
			x2, y2 := x1, y1
			if rng.Chance(70) {
				x2 = min(max(bc+rng.Intn(9), x1-2), x1+2)
			}
			if rng.Chance(70) {
				y2 = min(max(1+rng.Intn(9), y1-2), y1+2)
			}
			kind := "m"
			if q > 0 && (q == m-1 || rng.Chance(30)) {
				kind = "u"
			}
			fmt.Fprintf(&b, " %s %d %d %d %d", kind, x1, y1, x2, y2)
		}
		c01mergeops(r, b.String())
	}
}
