//go:build verif_c01

package main

// C01, column definitions: transcript op `mcols` (mergeExpandedCols through a hook, model
// XlModel.SaveCols) on generated <cols> lists, `hmcols` (a sheet's <cols> before a real save vs
// after OpenReader), and the direct oracle "every column resolves to the same attributes".

import (
	"fmt"
	"strconv"
	"strings"

	xl "github.com/xuri/excelize/v2"
)

type c01col struct {
	min, max int
	attrs    [8]string // bestFit collapsed customWidth hidden outline phonetic style width
}

func c01colsWire(cs []c01col) string {
	var b strings.Builder
	b.WriteString(strconv.Itoa(len(cs)))
	for _, c := range cs {
		fmt.Fprintf(&b, " %d %d %s", c.min, c.max, strings.Join(c.attrs[:], " "))
	}
	return b.String()
}

func c01colsParse(s string) ([]c01col, bool) {
	w := strings.Fields(s)
	if len(w) > 0 && w[0] == "ok" {
		w = w[1:]
	}
	if len(w) == 0 {
		return nil, false
	}
	n, err := strconv.Atoi(w[0])
	if err != nil || len(w) != 1+10*n {
		return nil, false
	}
	cs := make([]c01col, n)
	for i := range cs {
		f := w[1+10*i : 11+10*i]
		cs[i].min, _ = strconv.Atoi(f[0])
		cs[i].max, _ = strconv.Atoi(f[1])
		copy(cs[i].attrs[:], f[2:])
	}
	return cs, true
}

func c01colsLook(cs []c01col, c int) string {
	for _, e := range cs {
		if e.min <= c && c <= e.max {
			return strings.Join(e.attrs[:], " ")
		}
	}
	return "none"
}

func c01colsFlat(cs []c01col) bool {
	seen := map[int]bool{}
	for _, c := range cs {
		if c.min != c.max || seen[c.min] || c.min < 1 {
			return false
		}
		seen[c.min] = true
	}
	return true
}

// oracle: for a flat list (one entry per column) every column resolves to the same attributes afterwards
func c01colsOracle(r *Run, op, spec, res string, ln int) {
	before, ok := c01colsParse(spec)
	if !ok || !c01colsFlat(before) {
		return
	}
	r.Stat(op + ":flat-input")
	sig := op + ":column-attributes-changed"
	after, ok2 := c01colsParse(res)
	if !ok2 {
		r.Fail(sig, "mergeExpandedCols / save+open answered "+res, ln, op+" "+spec)
		return
	}
	lo, hi := 1<<30, 0
	for _, c := range before {
		lo, hi = min(lo, c.min), max(hi, c.max)
	}
	for c := lo - 1; c <= hi+1; c++ {
		if a, b := c01colsLook(before, c), c01colsLook(after, c); a != b {
			n, _ := xl.ColumnNumberToName(c)
			r.Fail(sig, fmt.Sprintf("column %s (%d) resolves to [%s] before and [%s] after (bestFit collapsed customWidth hidden outline phonetic style width)", n, c, a, b), ln, op+" "+spec)
			return
		}
	}
}

func c01mcols(r *Run, spec string) {
	res := xl.VerifC01MergeCols(spec)
	ln := r.Op("mcols "+spec, res)
	r.Case("mcols:"+spec, len(spec) > 2)
	r.Stat("mcols:" + strings.SplitN(res, " ", 2)[0])
	c01colsOracle(r, "mcols", spec, res, ln)
}

var c01colBase = [8]string{"0", "0", "1", "0", "0", "0", "0", "~"}

func c01genColAttrs(rng *Rng) [8]string {
	a := c01colBase
	// a few base configurations, then at most one more field changed: neighbours equal or off by one field
	switch rng.Intn(4) {
	case 1:
		a[7] = hx("30")
	case 2:
		a[4] = "1"
	case 3:
		a[6], a[7] = "2", hx("12.5")
	}
	if rng.Chance(45) {
		switch rng.Intn(8) {
		case 0:
			a[0] = "1"
		case 1:
			a[1] = "1"
		case 2:
			a[2] = "0"
		case 3:
			a[3] = "1"
		case 4:
			a[4] = strconv.Itoa(rng.Range(1, 2))
		case 5:
			a[5] = "1"
		case 6:
			a[6] = strconv.Itoa(rng.Range(1, 3))
		default:
			a[7] = rng.Pick([]string{"~", hx("30"), hx("12.5"), hx("0")})
		}
	}
	return a
}

func c01genCols(rng *Rng) []c01col {
	base := 1
	if rng.Chance(20) {
		base = 16384 - 9
	}
	var cs []c01col
	prev := c01genColAttrs(rng)
	n := rng.Range(0, 10)
	for k := 0; k < n; k++ {
		if rng.Chance(12) {
			continue // gap
		}
		a := prev
		if rng.Chance(50) {
			a = c01genColAttrs(rng)
		}
		cs = append(cs, c01col{base + k, base + k, a})
		prev = a
	}
	switch rng.Intn(10) {
	case 0: // shuffled (distinct Min: the sort result is determined)
		for i := len(cs) - 1; i > 0; i-- {
			j := rng.Intn(i + 1)
			cs[i], cs[j] = cs[j], cs[i]
		}
	case 1: // ranges, as read from a file: not flat
		for i := range cs {
			if rng.Chance(40) {
				cs[i].max += rng.Range(1, 3)
			}
		}
	case 2: // duplicate Min (at most 12 entries: Go sorts these with the stable insertion sort)
		if len(cs) > 0 && len(cs) < 12 {
			cs = append(cs, cs[rng.Intn(len(cs))])
		}
	}
	return cs
}

func c01colsPhase(r *Run, rng *Rng, n int) {
	fixed := [][]c01col{
		{{1, 1, [8]string{"0", "0", "1", "0", "1", "0", "0", hx("30")}}, {2, 2, [8]string{"0", "0", "1", "0", "1", "0", "0", "~"}}},
		{{1, 1, c01colBase}, {2, 2, c01colBase}, {3, 3, c01colBase}},
		{{16383, 16383, c01colBase}, {16384, 16384, c01colBase}},
		{},
	}
	for _, cs := range fixed {
		c01mcols(r, c01colsWire(cs))
	}
	for i := 0; i < n; i++ {
		c01mcols(r, c01colsWire(c01genCols(rng)))
	}
}

// the column clause of Inv (SaveCols.Wf): ranges inside the sheet, pairwise non-overlapping, any order
func c01colsWf(cs []c01col) bool {
	for a, c := range cs {
		if c.min < 1 || c.min > c.max {
			return false
		}
		for _, d := range cs[a+1:] {
			if !(c.max < d.min || d.max < c.min) {
				return false
			}
		}
	}
	return true
}

// c01colseq: SetColWidth / SetColOutlineLevel in order on a new worksheet; the <cols> list afterwards against
// the model of flatCols with the setter's replacer (SaveCols.setCols); inv_step on the real code: the list is
// well-formed after every sequence.
func c01colseq(r *Run, spec string) {
	w := strings.Fields(spec)
	res := "bad-op"
	func() {
		defer func() {
			if recover() != nil {
				res = "PANIC"
			}
		}()
		n, err := strconv.Atoi(w[0])
		if err != nil || len(w) != 1+4*n {
			return
		}
		f := xl.NewFile()
		defer f.Close()
		for k := 0; k < n; k++ {
			c1, _ := strconv.Atoi(w[2+4*k])
			c2, _ := strconv.Atoi(w[3+4*k])
			n1, _ := xl.ColumnNumberToName(c1)
			n2, _ := xl.ColumnNumberToName(c2)
			var e error
			if w[1+4*k] == "w" {
				wd, _ := strconv.ParseFloat(unhx(w[4+4*k]), 64)
				e = f.SetColWidth("Sheet1", n1, n2, wd)
			} else {
				lv, _ := strconv.Atoi(w[4+4*k])
				e = f.SetColOutlineLevel("Sheet1", n1, uint8(lv))
			}
			if e != nil {
				res = "ERR"
				return
			}
		}
		res = xl.VerifC01Cols(f, "Sheet1")
	}()
	ln := r.Op("colseq "+spec, res)
	r.Case("colseq:"+spec, true)
	r.Stat("colseq")
	if cs, ok := c01colsParse(res); ok && !c01colsWf(cs) {
		r.Fail("colseq:inv-cols-overlap", "<cols> not well-formed after a sequence of column setters", ln, "colseq "+spec)
	}
}

func c01colseqPhase(r *Run, rng *Rng, n int) {
	c01colseq(r, "0")
	c01colseq(r, "3 w 1 1 "+hx("30")+" o 1 1 1 o 2 2 1")
	c01colseq(r, "3 w 3 5 "+hx("12.5")+" w 1 4 "+hx("30")+" o 16384 16384 2")
	for k := 0; k < n; k++ {
		m := rng.Range(1, 7)
		var b strings.Builder
		b.WriteString(strconv.Itoa(m))
		for q := 0; q < m; q++ {
			base := 1
			if rng.Chance(10) {
				base = 16379
			}
			lo := base + rng.Intn(6)
			hi := lo
			if rng.Chance(50) {
				hi = lo + rng.Intn(base+6-lo)
			}
			if rng.Chance(60) {
				fmt.Fprintf(&b, " w %d %d %s", lo, hi, hx(rng.Pick([]string{"30", "12.5"})))
			} else {
				fmt.Fprintf(&b, " o %d %d %d", lo, lo, rng.Range(1, 3))
			}
		}
		c01colseq(r, b.String())
	}
}
