//go:build verif_c02

package main

// C02 — saving is observationally pure and repeatable.
//
// Transcript ops (core histories, see lean/XlModel/Drv/C02.lean; sheets are
// addressed by creation index: 0 = Sheet1, 1 = S2, …):
//   new                       NewFile (+ two styles so that ids 1, 2 exist)
//   newsheet                  NewSheet("S<n>")
//   copy a b                  CopySheet(a, b)
//   val sh col row t v        t=- int (v = hex digits), t=b bool, t=s string, "- -" = SetCellValue(nil)
//   fml sh col row f          SetCellFormula (f = "-" clears)
//   sty sh col row id         SetCellStyle(cell, cell, id)
//   hide sh row 0|1           SetRowVisible
//   get / iget sh col row     getCellStringFunc lookup (hook) [+ Spec prediction for `get`]
//   vis / ivis sh row         GetRowVisible
//   save k o                  k: 0 WriteToBuffer 1 Write 2 WriteTo 3 SaveAs; o: bit0 observe-before/after
//                             (getter purity), bit1 twin observation, bit2 twin saved content
//   reopen                    OpenReader(WriteToBuffer())
//   craft sh rows…            reopen with the sheetData of one part replaced (malformed stream)
//   dump sh / pkg sh          internal layout of the cached worksheet / decoded stored part (hooks)
//
// Wide histories (direct oracles only, never sent to the model) add: float, rich,
// merge, unmerge, colw, colvis, colsty, rowsty, rowh, rowout, insr, delr, insc,
// delc, dupr, link, defname, active, shvis, dim, stream.
//
// Direct oracles (independent of the Lean model), all on the real library:
//   twin:obs       File A (with saves) vs File B (same ops, never saved): full observation
//   twin:saved     decoded content + part set of A's save vs a save of a fresh never-saved replay
//   getter         observation of A immediately before vs after a save
//   save-twice     two consecutive saves: same part set, same decoded content
//   panic          any panic

import (
	"archive/zip"
	"bytes"
	"encoding/xml"
	"fmt"
	"io"
	"math"
	"os"
	"path/filepath"
	"regexp"
	"runtime/debug"
	"sort"
	"strconv"
	"strings"
	"time"

	xl "github.com/xuri/excelize/v2"
)

func init() { props["C02"] = runC02 }

var c02CoreOps = map[string]bool{"new": true, "newsheet": true, "copy": true, "val": true, "fml": true,
	"sty": true, "hide": true, "get": true, "iget": true, "vis": true, "ivis": true, "save": true,
	"reopen": true, "craft": true, "dump": true, "pkg": true}

// c02Name builds an A1 name without range checks (so that out-of-grid names reach the API).
func c02Name(col, row int) string {
	s := ""
	for c := col; c > 0; c = (c - 1) / 26 {
		s = string(rune('A'+(c-1)%26)) + s
	}
	if col <= 0 {
		s = "A"
		if col < 0 {
			s = "@"
		}
	}
	return s + strconv.Itoa(row)
}

type c02Twin struct {
	f *xl.File
}

type c02Hist struct {
	a, b     c02Twin
	names    []string
	kinds    []string
	lines    []string // every op line of the history (replay)
	maxC     int
	maxR     int
	far      map[[3]int]bool
	core     bool
	lastSave []byte // bytes of the previous save when nothing happened since
	saves    int
	mutAfter bool
	r        *Run
	emit     bool
	failed   map[string]bool
	overlapSeen bool // intersecting stored merged ranges were seen in this history
	poison   bool // set by c02Observe when a getter panicked
	dead     bool // a panic happened: a mutex may be left locked, the rest of the history is skipped
}

func c02Atoi(s string) int { n, _ := strconv.Atoi(s); return n }

func (h *c02Hist) sheet(i int) string {
	if i < 0 || i >= len(h.names) {
		return "Nope"
	}
	return h.names[i]
}

func (h *c02Hist) kind(i int) string {
	if i < 0 || i >= len(h.kinds) {
		return "wb"
	}
	return h.kinds[i]
}

func (h *c02Hist) touch(sh, col, row int) {
	if col < 1 || row < 1 || col > 16384 || row > 1048576 {
		return
	}
	if col <= 12 && row <= 12 {
		if col > h.maxC {
			h.maxC = col
		}
		if row > h.maxR {
			h.maxR = row
		}
		return
	}
	h.far[[3]int{sh, col, row}] = true
}

func c02Err(err error) string {
	if err != nil {
		return "ERR"
	}
	return "ok"
}

func c02Save(t *c02Twin, k int) (out []byte, res string) {
	defer func() {
		if e := recover(); e != nil {
			res = "PANIC"
		}
	}()
	switch k {
	case 1:
		var b bytes.Buffer
		if err := t.f.Write(&b); err != nil {
			return nil, "ERR"
		}
		return b.Bytes(), "ok"
	case 2:
		var b bytes.Buffer
		if _, err := t.f.WriteTo(&b); err != nil {
			return nil, "ERR"
		}
		return b.Bytes(), "ok"
	case 3:
		p := filepath.Join(os.TempDir(), "c02-save.xlsx")
		if err := t.f.SaveAs(p); err != nil {
			return nil, "ERR"
		}
		b, err := os.ReadFile(p)
		os.Remove(p)
		if err != nil {
			return nil, "ERR"
		}
		return b, "ok"
	}
	b, err := t.f.WriteToBuffer()
	if err != nil {
		return nil, "ERR"
	}
	return append([]byte(nil), b.Bytes()...), "ok"
}

var c02SheetData = regexp.MustCompile(`(?s)<sheetData>.*</sheetData>|<sheetData/>|<sheetData></sheetData>`)

// c02CraftXML renders crafted rows: tokens "R.<r>.<h>" start a row, "col.row.s.t.v.f" are cells.
func c02CraftXML(spec []string) string {
	var b strings.Builder
	b.WriteString("<sheetData>")
	open := false
	for _, w := range spec {
		p := strings.Split(w, ".")
		if p[0] == "R" && len(p) == 3 {
			if open {
				b.WriteString("</row>")
			}
			fmt.Fprintf(&b, `<row r="%s"`, p[1])
			if p[2] == "1" {
				b.WriteString(` hidden="1"`)
			}
			b.WriteString(">")
			open = true
			continue
		}
		if len(p) != 6 || !open {
			continue
		}
		fmt.Fprintf(&b, `<c r="%s"`, c02Name(c02Atoi(p[0]), c02Atoi(p[1])))
		if p[2] != "0" {
			fmt.Fprintf(&b, ` s="%s"`, p[2])
		}
		if p[3] != "-" {
			fmt.Fprintf(&b, ` t="%s"`, p[3])
		}
		b.WriteString(">")
		if p[5] != "~" {
			fmt.Fprintf(&b, "<f>%s</f>", unhx(p[5]))
		}
		if p[4] != "-" {
			fmt.Fprintf(&b, "<v>%s</v>", unhx(p[4]))
		}
		b.WriteString("</c>")
	}
	if open {
		b.WriteString("</row>")
	}
	b.WriteString("</sheetData>")
	return b.String()
}

// c02CraftWellFormed: every cell lies in its row, columns strictly increasing.
func c02CraftWellFormed(spec []string) bool {
	row, last := 0, 0
	for _, w := range spec {
		p := strings.Split(w, ".")
		if p[0] == "R" && len(p) == 3 {
			row, last = c02Atoi(p[1]), 0
			continue
		}
		if len(p) != 6 {
			return false
		}
		c, r := c02Atoi(p[0]), c02Atoi(p[1])
		if r != row || c <= last {
			return false
		}
		last = c
	}
	return true
}

func c02Patch(pkg []byte, part, sheetData string) ([]byte, error) {
	zr, err := zip.NewReader(bytes.NewReader(pkg), int64(len(pkg)))
	if err != nil {
		return nil, err
	}
	var out bytes.Buffer
	zw := zip.NewWriter(&out)
	for _, zf := range zr.File {
		rc, err := zf.Open()
		if err != nil {
			return nil, err
		}
		data, _ := io.ReadAll(rc)
		rc.Close()
		if zf.Name == part {
			data = c02SheetData.ReplaceAllLiteral(data, []byte(sheetData))
		}
		w, err := zw.Create(zf.Name)
		if err != nil {
			return nil, err
		}
		w.Write(data)
	}
	zw.Close()
	return out.Bytes(), nil
}

// c02Apply executes one op line on one file. Saves are handled by the caller.
func (h *c02Hist) apply(t *c02Twin, w []string) (res string) {
	defer func() {
		if e := recover(); e != nil {
			res = "PANIC"
		}
	}()
	f := t.f
	n := func(i int) int {
		if i < len(w) {
			return c02Atoi(w[i])
		}
		return 0
	}
	switch w[0] {
	case "newsheet":
		_, err := f.NewSheet("S" + strconv.Itoa(len(h.names)+1))
		return c02Err(err)
	case "copy":
		return c02Err(f.CopySheet(n(1), n(2)))
	case "val":
		if len(w) != 6 {
			return "bad-op"
		}
		sh, cell := h.sheet(n(1)), c02Name(n(2), n(3))
		switch {
		case w[4] == "-" && w[5] == "-":
			return c02Err(f.SetCellValue(sh, cell, nil))
		case w[4] == "-":
			v, err := strconv.ParseInt(unhx(w[5]), 10, 64)
			if err != nil {
				return "bad-op"
			}
			return c02Err(f.SetCellInt(sh, cell, v))
		case w[4] == "b":
			return c02Err(f.SetCellBool(sh, cell, unhx(w[5]) == "1"))
		case w[4] == "s":
			return c02Err(f.SetCellStr(sh, cell, unhx(w[5])))
		}
		return "bad-op"
	case "fml":
		if len(w) != 5 {
			return "bad-op"
		}
		return c02Err(f.SetCellFormula(h.sheet(n(1)), c02Name(n(2), n(3)), unhx(w[4])))
	case "sty":
		cell := c02Name(n(2), n(3))
		return c02Err(f.SetCellStyle(h.sheet(n(1)), cell, cell, n(4)))
	case "hide":
		return c02Err(f.SetRowVisible(h.sheet(n(1)), n(2), w[3] != "1"))
	case "get", "iget":
		if !h.emit {
			// wide histories: what the public getters say (the hook also shows the stored style of
			// a cell, which SetRowStyle/SetColStyle may or may not have copied onto a blank cell)
			sh, cell := h.sheet(n(1)), c02Name(n(2), n(3))
			v, e1 := f.GetCellValue(sh, cell, xl.Options{RawCellValue: true})
			fm, e2 := f.GetCellFormula(sh, cell)
			t, e3 := f.GetCellType(sh, cell)
			st, e4 := f.GetCellStyle(sh, cell)
			return fmt.Sprintf("v=%s f=%s t=%d s=%d %v", hx(v), hx(fm), t, st, e1 != nil || e2 != nil || e3 != nil || e4 != nil)
		}
		return xl.VerifC02Get(f, h.sheet(n(1)), c02Name(n(2), n(3)))
	case "vis", "ivis":
		v, err := f.GetRowVisible(h.sheet(n(1)), n(2))
		if err != nil {
			return "ERR"
		}
		if v {
			return "v=1"
		}
		return "v=0"
	case "reopen", "craft":
		b, err := f.WriteToBuffer()
		if err != nil {
			return "ERR"
		}
		data := append([]byte(nil), b.Bytes()...)
		if w[0] == "craft" {
			if n(1) >= len(h.names) {
				return "ERR"
			}
			data, err = c02Patch(data, xl.VerifC02Path(f, h.sheet(n(1))), c02CraftXML(w[2:]))
			if err != nil {
				return "ERR"
			}
		}
		var opts xl.Options
		if w[0] == "reopen" && len(w) == 2 { // parts larger than this are spilled to temporary files
			opts.UnzipXMLSizeLimit = int64(n(1))
		}
		g, err := xl.OpenReader(bytes.NewReader(data), opts)
		if err != nil {
			return "ERR"
		}
		f.Close()
		t.f = g
		return "ok"
	case "dump":
		if n(1) >= len(h.names) {
			return "ERR"
		}
		return xl.VerifC02Dump(f, h.sheet(n(1)))
	case "pkg":
		if n(1) >= len(h.names) {
			return "ERR"
		}
		return xl.VerifC02Part(f, h.sheet(n(1)))
	// ---- wide surface (oracle only) ----
	case "float":
		bits, _ := strconv.ParseUint(w[4], 16, 64)
		return c02Err(f.SetCellFloat(h.sheet(n(1)), c02Name(n(2), n(3)), math.Float64frombits(bits), -1, 64))
	case "rich":
		return c02Err(f.SetCellRichText(h.sheet(n(1)), c02Name(n(2), n(3)), []xl.RichTextRun{
			{Text: "bold", Font: &xl.Font{Bold: true}}, {Text: " " + w[4] + " "}}))
	case "merge":
		return c02Err(f.MergeCell(h.sheet(n(1)), c02Name(n(2), n(3)), c02Name(n(4), n(5))))
	case "unmerge":
		return c02Err(f.UnmergeCell(h.sheet(n(1)), c02Name(n(2), n(3)), c02Name(n(4), n(5))))
	case "colw":
		a, _ := xl.ColumnNumberToName(n(2))
		b, _ := xl.ColumnNumberToName(n(3))
		return c02Err(f.SetColWidth(h.sheet(n(1)), a, b, float64(n(4))))
	case "colvis":
		a, _ := xl.ColumnNumberToName(n(2))
		return c02Err(f.SetColVisible(h.sheet(n(1)), a, w[3] == "1"))
	case "colout":
		a, _ := xl.ColumnNumberToName(n(2))
		return c02Err(f.SetColOutlineLevel(h.sheet(n(1)), a, uint8(n(3))))
	case "colsty":
		a, _ := xl.ColumnNumberToName(n(2))
		b, _ := xl.ColumnNumberToName(n(3))
		return c02Err(f.SetColStyle(h.sheet(n(1)), a+":"+b, n(4)))
	case "rowsty":
		return c02Err(f.SetRowStyle(h.sheet(n(1)), n(2), n(3), n(4)))
	case "rowh":
		return c02Err(f.SetRowHeight(h.sheet(n(1)), n(2), float64(n(3))))
	case "rowout":
		return c02Err(f.SetRowOutlineLevel(h.sheet(n(1)), n(2), uint8(n(3))))
	case "insr":
		return c02Err(f.InsertRows(h.sheet(n(1)), n(2), n(3)))
	case "delr":
		return c02Err(f.RemoveRow(h.sheet(n(1)), n(2)))
	case "insc":
		a, _ := xl.ColumnNumberToName(n(2))
		return c02Err(f.InsertCols(h.sheet(n(1)), a, n(3)))
	case "delc":
		a, _ := xl.ColumnNumberToName(n(2))
		return c02Err(f.RemoveCol(h.sheet(n(1)), a))
	case "dupr":
		return c02Err(f.DuplicateRow(h.sheet(n(1)), n(2)))
	case "link":
		return c02Err(f.SetCellHyperLink(h.sheet(n(1)), c02Name(n(2), n(3)), "https://example.com/"+w[4], "External"))
	case "defname":
		return c02Err(f.SetDefinedName(&xl.DefinedName{Name: "N" + w[1], RefersTo: h.sheet(n(2)) + "!$A$1:$B$2"}))
	case "active":
		f.SetActiveSheet(n(1))
		return "ok"
	case "shvis":
		return c02Err(f.SetSheetVisible(h.sheet(n(1)), w[2] == "1"))
	case "dim":
		return c02Err(f.SetSheetDimension(h.sheet(n(1)), c02Name(n(2), n(3))+":"+c02Name(n(4), n(5))))
	case "formctl":
		types := []xl.FormControlType{xl.FormControlButton, xl.FormControlCheckBox, xl.FormControlOptionButton, xl.FormControlSpinButton}
		return c02Err(f.AddFormControl(h.sheet(n(1)), xl.FormControl{Cell: c02Name(n(2), n(3)), Type: types[n(4)%len(types)],
			Text: "ctl" + w[4], Width: 80, Height: 30}))
	case "delformctl":
		return c02Err(f.DeleteFormControl(h.sheet(n(1)), c02Name(n(2), n(3))))
	case "comment":
		return c02Err(f.AddComment(h.sheet(n(1)), xl.Comment{Cell: c02Name(n(2), n(3)), Author: "vh", Text: "note " + w[4]}))
	case "pic":
		return c02Err(f.AddPictureFromBytes(h.sheet(n(1)), c02Name(n(2), n(3)), &xl.Picture{Extension: ".png", File: c02PNG,
			Format: &xl.GraphicOptions{AltText: "p" + strconv.Itoa(n(4))}}))
	case "table":
		return c02Err(f.AddTable(h.sheet(n(1)), &xl.Table{Range: c02Name(n(2), n(3)) + ":" + c02Name(n(2)+1, n(3)+2),
			Name: fmt.Sprintf("T%d_%d_%d", n(1), n(2), n(3))}))
	case "stream":
		name := "S" + strconv.Itoa(len(h.names)+1)
		if _, err := f.NewSheet(name); err != nil {
			return "ERR"
		}
		sw, err := f.NewStreamWriter(name)
		if err != nil {
			return "ERR"
		}
		rows, cols, seed := n(1), n(2), n(3)
		for r := 1; r <= rows; r++ {
			vals := make([]interface{}, cols)
			for c := 0; c < cols; c++ {
				switch (r*7 + c*3 + seed) % 4 {
				case 0:
					vals[c] = r*100 + c
				case 1:
					vals[c] = fmt.Sprintf("s%d_%d", r, c)
				case 2:
					vals[c] = nil
				case 3:
					vals[c] = xl.Cell{Formula: fmt.Sprintf("SUM(A%d:B%d)", r, r)}
				}
			}
			if err := sw.SetRow(c02Name(1+seed%2, r), vals); err != nil {
				return "ERR"
			}
		}
		return c02Err(sw.Flush())
	}
	return "bad-op"
}

// ---------------------------------------------------------------- observation

type c02Obs struct {
	key, aspect, val string
	sheet            int
}

func c02Observe(f *xl.File, h *c02Hist) (obs []c02Obs) {
	add := func(sheet int, key, aspect, val string) {
		obs = append(obs, c02Obs{key, aspect, val, sheet})
	}
	poisoned := false
	safe := func(fn func() string) (s string) {
		if poisoned { // a panic may have left a mutex locked: no further calls on this file
			return "SKIPPED"
		}
		defer func() {
			if e := recover(); e != nil {
				s = "PANIC"
				poisoned = true
				h.poison = true
				if os.Getenv("C02_DEBUG") != "" {
					fmt.Fprintf(os.Stderr, "panic in observation: %v\n%s\n", e, debug.Stack())
				}
			}
		}()
		return fn()
	}
	add(-1, "sheets", "sheets", strings.Join(f.GetSheetList(), ","))
	add(-1, "active", "sheets", strconv.Itoa(f.GetActiveSheetIndex()))
	dn := []string{}
	for _, d := range f.GetDefinedName() {
		dn = append(dn, d.Name+"="+d.RefersTo+"@"+d.Scope)
	}
	sort.Strings(dn)
	add(-1, "defnames", "sheets", strings.Join(dn, ","))
	C, R := h.maxC+1, h.maxR+1
	for i, name := range h.names {
		p := fmt.Sprintf("%d:", i)
		add(i, p+"visible", "sheets", safe(func() string { v, err := f.GetSheetVisible(name); return fmt.Sprint(v, err != nil) }))
		add(i, p+"dim", "dim", safe(func() string { v, err := f.GetSheetDimension(name); return fmt.Sprint(v, err != nil) }))
		add(i, p+"formcontrols", "vml", safe(func() string {
			fcs, err := f.GetFormControls(name)
			if err != nil {
				return "ERR"
			}
			var s []string
			for _, c := range fcs {
				s = append(s, fmt.Sprintf("%s/%d/%s", c.Cell, c.Type, hx(c.Text)))
			}
			return strings.Join(s, ",")
		}))
		add(i, p+"tables", "table", safe(func() string {
			ts, err := f.GetTables(name)
			if err != nil {
				return "ERR"
			}
			var s []string
			for _, t := range ts {
				s = append(s, t.Name+"="+t.Range)
			}
			sort.Strings(s)
			return strings.Join(s, ",")
		}))
		add(i, p+"pictures", "picture", safe(func() string {
			cells, err := f.GetPictureCells(name)
			if err != nil {
				return "ERR"
			}
			sort.Strings(cells)
			return strings.Join(cells, ",")
		}))
		add(i, p+"comments", "vml", safe(func() string {
			cs, err := f.GetComments(name)
			if err != nil {
				return "ERR"
			}
			var s []string
			for _, c := range cs {
				s = append(s, c.Cell+"/"+hx(c.Text))
			}
			sort.Strings(s)
			return strings.Join(s, ",")
		}))
		add(i, p+"merges", "merges", safe(func() string {
			ms, err := f.GetMergeCells(name)
			if err != nil {
				return "ERR"
			}
			var s []string
			for _, m := range ms {
				s = append(s, m.GetStartAxis()+":"+m.GetEndAxis()+"="+hx(m.GetCellValue()))
			}
			return strings.Join(s, ",")
		}))
		rowsWide := false
		for _, raw := range []bool{false, true} {
			add(i, p+fmt.Sprintf("rows(raw=%v)", raw), "rows", safe(func() string {
				rows, err := f.GetRows(name, xl.Options{RawCellValue: raw})
				if err != nil {
					return "ERR"
				}
				for _, row := range rows {
					if len(row) > 200 {
						rowsWide = true
					}
				}
				return c02Grid(rows)
			}))
		}
		wideCols := false // GetCols re-parses the part once per column: skipped next to XFD
		for k := range h.far { // any sheet: CopySheet carries the far cells along
			if k[1] > 100 {
				wideCols = true
			}
		}
		if rowsWide {
			wideCols = true
		}
		add(i, p+"cols", "rows", safe(func() string {
			if wideCols {
				return "skipped"
			}
			cols, err := f.GetCols(name)
			if err != nil {
				return "ERR"
			}
			return c02Grid(cols)
		}))
		rowsToSee, colsToSee := map[int]bool{}, map[int]bool{}
		type pos struct{ c, r int }
		var cells []pos
		for r := 1; r <= R; r++ {
			rowsToSee[r] = true
			for c := 1; c <= C; c++ {
				cells = append(cells, pos{c, r})
			}
		}
		for c := 1; c <= C; c++ {
			colsToSee[c] = true
		}
		var fars []pos
		for k := range h.far {
			if k[0] == i {
				fars = append(fars, pos{k[1], k[2]})
			}
		}
		sort.Slice(fars, func(a, b int) bool {
			if fars[a].r != fars[b].r {
				return fars[a].r < fars[b].r
			}
			return fars[a].c < fars[b].c
		})
		for _, q := range fars {
			cells = append(cells, q)
			rowsToSee[q.r], colsToSee[q.c] = true, true
		}
		var rs, cs []int
		for r := range rowsToSee {
			rs = append(rs, r)
		}
		for c := range colsToSee {
			cs = append(cs, c)
		}
		sort.Ints(rs)
		sort.Ints(cs)
		for _, r := range rs {
			add(i, p+fmt.Sprintf("row%d", r), "rowattr", safe(func() string {
				ht, e1 := f.GetRowHeight(name, r)
				vis, e2 := f.GetRowVisible(name, r)
				ol, e3 := f.GetRowOutlineLevel(name, r)
				return fmt.Sprint(ht, vis, ol, e1 != nil, e2 != nil, e3 != nil)
			}))
		}
		for _, c := range cs {
			add(i, p+fmt.Sprintf("col%d", c), "colattr", safe(func() string {
				cn, _ := xl.ColumnNumberToName(c)
				wd, e1 := f.GetColWidth(name, cn)
				vis, e2 := f.GetColVisible(name, cn)
				ol, e3 := f.GetColOutlineLevel(name, cn)
				st, e4 := f.GetColStyle(name, cn)
				return fmt.Sprint(wd, vis, ol, st, e1 != nil, e2 != nil, e3 != nil, e4 != nil)
			}))
		}
		for _, q := range cells {
			cell := c02Name(q.c, q.r)
			add(i, p+cell+":value", "cell", safe(func() string { v, err := f.GetCellValue(name, cell); return hx(v) + c02Err(err) }))
			add(i, p+cell+":raw", "cell", safe(func() string {
				v, err := f.GetCellValue(name, cell, xl.Options{RawCellValue: true})
				return hx(v) + c02Err(err)
			}))
			add(i, p+cell+":type", "type", safe(func() string { v, err := f.GetCellType(name, cell); return fmt.Sprint(v) + c02Err(err) }))
			add(i, p+cell+":formula", "formula", safe(func() string { v, err := f.GetCellFormula(name, cell); return hx(v) + c02Err(err) }))
			add(i, p+cell+":link", "link", safe(func() string { ok, v, err := f.GetCellHyperLink(name, cell); return fmt.Sprint(ok) + hx(v) + c02Err(err) }))
			add(i, p+cell+":rich", "cell", safe(func() string {
				runs, err := f.GetCellRichText(name, cell)
				s := ""
				for _, r := range runs {
					s += hx(r.Text) + fmt.Sprint(r.Font != nil && r.Font.Bold) + ";"
				}
				return s + c02Err(err)
			}))
		}
		// GetCellStyle materialises cells (prepareCell): asked last so that it cannot hide a layout defect from the other getters
		for _, q := range cells {
			cell := c02Name(q.c, q.r)
			add(i, p+cell+":style", "style", safe(func() string { v, err := f.GetCellStyle(name, cell); return strconv.Itoa(v) + c02Err(err) }))
		}
	}
	return
}

// c02Grid prints a GetRows/GetCols result without its padding: trailing empty
// strings of each line and trailing empty lines only say whether blank,
// attribute-less <c> elements exist (fillColumns artefacts that trimCell is
// meant to drop), not what the cells contain.
func c02Grid(g [][]string) string {
	var s []string
	for _, line := range g {
		n := len(line)
		for n > 0 && line[n-1] == "" {
			n--
		}
		var cs []string
		for _, c := range line[:n] {
			cs = append(cs, hx(c))
		}
		s = append(s, strings.Join(cs, ","))
	}
	for len(s) > 0 && s[len(s)-1] == "" {
		s = s[:len(s)-1]
	}
	return strings.Join(s, "|")
}

// c02Diff returns the first difference of two observations.
func c02Diff(x, y []c02Obs) (bool, c02Obs, string) {
	for i := range x {
		if i >= len(y) {
			return true, x[i], "<missing>"
		}
		if x[i].key != y[i].key || x[i].val != y[i].val {
			return true, x[i], y[i].key + "=" + y[i].val
		}
	}
	if len(y) > len(x) {
		return true, y[len(x)], "<extra>"
	}
	return false, c02Obs{}, ""
}

// c02PartClass names the kind of part for failure signatures.
func c02PartClass(name string) string {
	switch {
	case strings.HasPrefix(name, "xl/worksheets/sheet"):
		return "worksheet"
	case strings.HasSuffix(name, ".rels"):
		return "rels"
	case strings.HasSuffix(name, ".vml"):
		return "vml"
	case strings.HasPrefix(name, "xl/comments"):
		return "comments"
	case strings.HasPrefix(name, "xl/drawings"):
		return "drawing"
	}
	return strings.TrimSuffix(name[strings.LastIndex(name, "/")+1:], ".xml")
}

// c02CanonXML renders an XML part as a token list with resolved namespaces and sorted
// attributes; whitespace-only text is dropped. In worksheet parts blank attribute-less
// `<c r=…/>` elements and `<row>` elements left without cells and attributes other than r/spans
// are dropped (fillColumns artefacts, see c02Grid). Non-XML parts are returned as they are.
func c02CanonXML(name string, data []byte) string {
	if !(strings.HasSuffix(name, ".xml") || strings.HasSuffix(name, ".rels") || strings.HasSuffix(name, ".vml")) {
		return string(data)
	}
	d := xml.NewDecoder(bytes.NewReader(data))
	d.Strict = false
	type el struct {
		open     string
		children int
		blankC   bool
		emptyRow bool
	}
	ws := strings.HasPrefix(name, "xl/worksheets/sheet")
	colStyle, rowStyle, inherits := map[int]string{}, "", false
	var out []string
	var stack []int // index in out of the opening token
	var info []el
	for {
		tok, err := d.Token()
		if err != nil {
			if err != io.EOF {
				return string(data)
			}
			break
		}
		switch t := tok.(type) {
		case xml.StartElement:
			var as []string
			onlyR, rowPlain := true, true
			for _, a := range t.Attr {
				if a.Name.Space == "xmlns" || a.Name.Local == "xmlns" {
					continue
				}
				v := a.Value
				if v == "true" { // xsd:boolean has two spellings; a part that was never decoded keeps its own
					v = "1"
				} else if v == "false" {
					v = "0"
				}
				as = append(as, a.Name.Space+"|"+a.Name.Local+"="+v)
				if a.Name.Local != "r" {
					onlyR = false
				}
				if a.Name.Local != "r" && a.Name.Local != "spans" {
					rowPlain = false
				}
			}
			sort.Strings(as)
			if ws && t.Name.Local == "col" {
				// a `<col min max …>` range is written one column at a time: how runs of equal columns are
				// grouped into ranges depends on when mergeExpandedCols ran, the per-column attributes do not
				lo, hi := 0, 0
				var rest []string
				for _, a := range as {
					switch {
					case strings.HasPrefix(a, "|min="):
						lo = c02Atoi(a[5:])
					case strings.HasPrefix(a, "|max="):
						hi = c02Atoi(a[5:])
					default:
						rest = append(rest, a)
					}
				}
				if lo >= 1 && hi >= lo && hi <= 16384 {
					for c := lo; c <= hi; c++ {
						out = append(out, fmt.Sprintf("<col %d %s></col>", c, strings.Join(rest, " ")))
						for _, a := range rest {
							if strings.HasPrefix(a, "|style=") {
								colStyle[c] = a[7:]
							}
						}
					}
					if len(info) > 0 {
						info[len(info)-1].children++
					}
					d.Skip()
					continue
				}
			}
			if ws && t.Name.Local == "row" {
				rowStyle = ""
				for _, a := range as {
					if strings.HasPrefix(a, "|s=") {
						rowStyle = a[3:]
					}
				}
			}
			if ws && t.Name.Local == "c" {
				// the style a cell resolves to (prepareCellStyle: own, else row, else column): a stored 0 / absent
				// style reads as the inherited one through GetCellStyle
				ref, own, rest := "", "", []string{}
				for _, a := range as {
					switch {
					case strings.HasPrefix(a, "|r="):
						ref = a[3:]
					case strings.HasPrefix(a, "|s="):
						own = a[3:]
					default:
						rest = append(rest, a)
					}
				}
				if own == "" || own == "0" {
					col, _, _ := xl.CellNameToCoordinates(ref)
					if rowStyle != "" && rowStyle != "0" {
						own = rowStyle
					} else if cs := colStyle[col]; cs != "" && cs != "0" {
						own = cs
					}
					if own != "" && own != "0" {
						as = append([]string{"|r=" + ref, "|s=" + own}, rest...)
						sort.Strings(as)
					}
				}
			}
			if ws && t.Name.Local == "c" && len(as) == 2 && strings.HasPrefix(as[0], "|r=") && strings.HasPrefix(as[1], "|s=") {
				// a valueless cell whose stored style is the one it inherits anyway (SetRowStyle / SetColStyle copy
				// the style onto the blank cells that happen to exist): not content, GetCellStyle answers the same
				cs := as[1][3:]
				col, _, _ := xl.CellNameToCoordinates(as[0][3:])
				if (rowStyle != "" && cs == rowStyle) || (rowStyle == "" && colStyle[col] == cs) {
					inherits = true
				}
			}
			if len(info) > 0 {
				info[len(info)-1].children++
			}
			stack = append(stack, len(out))
			info = append(info, el{blankC: ws && t.Name.Local == "c" && (onlyR || inherits), emptyRow: ws && t.Name.Local == "row" && rowPlain})
			inherits = false
			out = append(out, "<"+t.Name.Space+"|"+t.Name.Local+" "+strings.Join(as, " ")+">")
		case xml.EndElement:
			i, e := stack[len(stack)-1], info[len(info)-1]
			stack, info = stack[:len(stack)-1], info[:len(info)-1]
			if (e.blankC || e.emptyRow) && e.children == 0 && len(out) == i+1 {
				out = out[:i]
				if len(info) > 0 {
					info[len(info)-1].children--
				}
				continue
			}
			out = append(out, "</"+t.Name.Local+">")
		case xml.CharData:
			if txt := strings.TrimSpace(string(t)); txt != "" {
				if len(info) > 0 {
					info[len(info)-1].children++
				}
				out = append(out, hx(string(t)))
			}
		}
	}
	return strings.Join(out, "")
}

var c02DefaultBin = regexp.MustCompile(`<[^<>]*\|Default [^<>]*\|Extension=bin></Default>`)

func c02CanonParts(pkg []byte) map[string]string {
	m := map[string]string{}
	hasBin := false
	zr, err := zip.NewReader(bytes.NewReader(pkg), int64(len(pkg)))
	if err != nil {
		return m
	}
	for _, zf := range zr.File {
		rc, err := zf.Open()
		if err != nil {
			continue
		}
		data, _ := io.ReadAll(rc)
		rc.Close()
		m[zf.Name] = c02CanonXML(zf.Name, data)
		if strings.HasSuffix(zf.Name, ".bin") {
			hasBin = true
		}
	}
	if ct, ok := m["[Content_Types].xml"]; ok && !hasBin {
		// SaveAs / Write with a path declare `<Default Extension="bin" …vbaProject>` once, by file extension;
		// without any .bin part the declaration has no referent
		m["[Content_Types].xml"] = c02DefaultBin.ReplaceAllString(ct, "")
	}
	return m
}

func c02Parts(pkg []byte) []string {
	zr, err := zip.NewReader(bytes.NewReader(pkg), int64(len(pkg)))
	if err != nil {
		return []string{"<unreadable>"}
	}
	var s []string
	for _, f := range zr.File {
		s = append(s, f.Name)
	}
	sort.Strings(s)
	return s
}

func (h *c02Hist) replay() string { return strings.Join(h.lines, "\n") }

var c02MergeList = regexp.MustCompile(` M=(\S*) dense=`)

// noteOverlaps looks at the stored (not normalised) merge lists of both files through the shared
// dump hook and remembers whether two different ranges of one sheet intersect: such ranges also
// arise without two MergeCell calls (DuplicateRow, InsertRows, fixtures that already contain them).
func (h *c02Hist) noteOverlaps() {
	if h.overlapSeen || h.emit {
		return
	}
	for _, t := range []*c02Twin{&h.a, &h.b} {
		if t.f == nil {
			continue
		}
		for _, name := range h.names {
			m := c02MergeList.FindStringSubmatch(func() (s string) {
				defer func() { recover() }()
				return xl.VerifDumpSheet(t.f, name)
			}())
			if m == nil || m[1] == "" {
				continue
			}
			var rs [][4]int
			for _, ref := range strings.Split(m[1], ",") {
				p := strings.Split(ref, ":")
				c1, r1, e1 := xl.CellNameToCoordinates(p[0])
				c2, r2, e2 := xl.CellNameToCoordinates(p[len(p)-1])
				if e1 != nil || e2 != nil {
					continue
				}
				q := [4]int{min(c1, c2), min(r1, r2), max(c1, c2), max(r1, r2)}
				for _, o := range rs {
					if o != q && o[0] <= q[2] && q[0] <= o[2] && o[1] <= q[3] && q[1] <= o[3] {
						h.overlapSeen = true
						return
					}
				}
				rs = append(rs, q)
			}
		}
	}
}

// overlappingMerges: the history merges two different, intersecting rectangles on one sheet, or
// intersecting stored ranges were seen (noteOverlaps).
func (h *c02Hist) overlappingMerges() bool {
	if h.overlapSeen {
		return true
	}
	type rect struct{ sh, c1, r1, c2, r2 int }
	var rs []rect
	for _, l := range h.lines {
		w := strings.Fields(l)
		if len(w) != 6 || w[0] != "merge" {
			continue
		}
		q := rect{c02Atoi(w[1]), min(c02Atoi(w[2]), c02Atoi(w[4])), min(c02Atoi(w[3]), c02Atoi(w[5])),
			max(c02Atoi(w[2]), c02Atoi(w[4])), max(c02Atoi(w[3]), c02Atoi(w[5]))}
		for _, p := range rs {
			if p.sh == q.sh && p != q && p.c1 <= q.c2 && q.c1 <= p.c2 && p.r1 <= q.r2 && q.r1 <= p.r2 {
				return true
			}
		}
		rs = append(rs, q)
	}
	return false
}

func (h *c02Hist) fail(sig, what string, line int) {
	for _, l := range h.lines {
		if w := strings.Fields(l); len(w) == 4 && w[0] == "hide" && c02Atoi(w[2]) > 1048576 && !strings.HasPrefix(sig, "panic:") {
			sig = "save-after-row-beyond-limit"
		}
	}
	if !strings.HasPrefix(sig, "panic:") && !strings.HasPrefix(sig, "save-twice") && h.overlappingMerges() {
		for _, a := range []string{":merges:", ":cell:", ":rows:", ":type:", ":formula:", ":style:", ":result:", ":link:", ":part:worksheet:"} {
			if strings.Contains(sig+":", a) {
				sig = "twin:overlapping-merges-normalised-at-save"
				break
			}
		}
	}
	if strings.Contains(sig, ":link:") {
		// hyperlink targets live in the sheet's relationship part: is this the CopySheet-after-link pattern?
		seenLink := false
		for _, l := range h.lines {
			if strings.HasPrefix(l, "link ") {
				seenLink = true
			}
			if strings.HasPrefix(l, "copy ") && seenLink {
				sig = "twin:link-lost-by-copysheet-unless-saved"
				break
			}
		}
	}
	if h.failed[sig] {
		return
	}
	for _, l := range h.lines {
		if !strings.HasPrefix(l, "craft ") {
			continue
		}
		if strings.HasPrefix(sig, "panic:") { // hand-made part: the panic is input validation (C14); the model predicts it
			h.failed[sig] = true
			h.r.Stat("info:panic-on-crafted-part")
			return
		}
		if !c02CraftWellFormed(strings.Fields(l)[2:]) {
			// cells out of column order, duplicated or in the wrong row: getters (by reference) and setters
			// (by slot) already disagree before any save; outside the property's quantifier, the
			// correspondence with the model is what covers these histories
			h.failed[sig] = true
			h.r.Stat("info:oracle-on-malformed-part")
			return
		}
	}
	h.failed[sig] = true
	h.r.Fail(sig, what, line, h.replay())
}

// decoded compares what two packages decode to.
func (h *c02Hist) decoded(sig string, x, y []byte, what string) {
	px, py := c02Parts(x), c02Parts(y)
	if strings.Join(px, ",") != strings.Join(py, ",") {
		onlyRels := true
		in := func(xs []string, x string) bool {
			for _, y := range xs {
				if y == x {
					return true
				}
			}
			return false
		}
		for _, q := range append(append([]string{}, px...), py...) {
			if (!in(px, q) || !in(py, q)) && !strings.HasPrefix(q, "xl/worksheets/_rels/") {
				onlyRels = false
			}
		}
		if onlyRels {
			h.fail(sig+":link:parts", fmt.Sprintf("%s: worksheet relationship parts differ: %v vs %v", what, px, py), 0)
			return
		}
		h.fail(sig+":parts", fmt.Sprintf("%s: part sets differ: %v vs %v", what, px, py), 0)
		return
	}
	// every part, after XML canonicalisation (not only what the worksheet getters report)
	cx, cy := c02CanonParts(x), c02CanonParts(y)
	for _, name := range px {
		if cx[name] != cy[name] {
			a, b := cx[name], cy[name]
			k := 0
			for k < len(a) && k < len(b) && a[k] == b[k] {
				k++
			}
			lo := max(0, k-60)
			h.fail(sig+":part:"+c02PartClass(name), fmt.Sprintf("%s: part %s differs after canonicalisation near `%s` vs `%s`",
				what, name, a[lo:min(len(a), k+80)], b[lo:min(len(b), k+80)]), 0)
			break
		}
	}
	fx, e1 := xl.OpenReader(bytes.NewReader(x))
	fy, e2 := xl.OpenReader(bytes.NewReader(y))
	if e1 != nil || e2 != nil {
		if (e1 != nil) != (e2 != nil) {
			h.fail(sig+":open", fmt.Sprintf("%s: only one package opens (%v / %v)", what, e1, e2), 0)
		}
		return
	}
	// not closed: a panic inside the library may have left a mutex locked (small files, no temp files)
	saved := h.poison
	h.poison = false
	ox, oy := c02Observe(fx, h), c02Observe(fy, h)
	if h.poison {
		h.fail("panic:read-saved", what+": a getter panics on the package that was written", 0)
	}
	h.poison = saved
	if d, o, other := c02Diff(ox, oy); d {
		h.fail(sig+":"+o.aspect+":"+h.kind(o.sheet), fmt.Sprintf("%s: decoded content differs at %s: %s vs %s", what, o.key, o.val, other), 0)
	}
}

// freshTwin replays the non-save prefix on a new file and saves it once.
func (h *c02Hist) freshTwin() []byte {
	g := &c02Hist{names: nil, kinds: nil, far: map[[3]int]bool{}, failed: map[string]bool{}, r: h.r, maxC: 1, maxR: 1, emit: h.emit}
	for i, l := range h.lines {
		w := strings.Fields(l)
		if len(w) == 0 || w[0] == "dump" || w[0] == "pkg" {
			continue
		}
		if w[0] == "save" {
			if len(w) == 3 && g.a.f != nil { // same getter calls as the file under test, no save
				g.observeBefore(g.a.f, c02Atoi(w[2]))
				if i < len(h.lines)-1 {
					g.observeAfter(g.a.f, c02Atoi(w[2]))
				}
			}
			continue
		}
		g.execOne(w, false)
	}
	if g.a.f == nil {
		return nil
	}
	b, _ := c02Save(&g.a, 0)
	g.a.f.Close()
	if g.b.f != nil {
		g.b.f.Close()
	}
	return b
}

// a 1x1 PNG
var c02PNG = []byte{0x89, 0x50, 0x4e, 0x47, 0x0d, 0x0a, 0x1a, 0x0a, 0, 0, 0, 0x0d, 0x49, 0x48, 0x44, 0x52, 0, 0, 0, 1, 0, 0, 0, 1, 8, 6, 0, 0, 0,
	0x1f, 0x15, 0xc4, 0x89, 0, 0, 0, 0x0d, 0x49, 0x44, 0x41, 0x54, 0x78, 0x9c, 0x63, 0xf8, 0xcf, 0xc0, 0xf0, 0x1f, 0, 5, 0, 1, 0xff, 0x89, 0x99,
	0x3d, 0x1d, 0, 0, 0, 0, 0x49, 0x45, 0x4e, 0x44, 0xae, 0x42, 0x60, 0x82}

func c02RepoDir() string {
	if d := os.Getenv("VERIF_REPO"); d != "" {
		return d
	}
	return "/repo"
}

func c02New() *xl.File {
	f := xl.NewFile()
	f.NewStyle(&xl.Style{Font: &xl.Font{Bold: true}})
	f.NewStyle(&xl.Style{NumFmt: 2})
	return f
}

// execOne runs one op on A (and on B unless it is a save); returns A's result.
func (h *c02Hist) execOne(w []string, twin bool) string {
	n := func(i int) int {
		if i < len(w) {
			return c02Atoi(w[i])
		}
		return 0
	}
	switch w[0] {
	case "new", "open":
		if h.a.f != nil {
			h.a.f.Close()
		}
		if h.b.f != nil {
			h.b.f.Close()
		}
		h.a.f, h.b.f = nil, nil
		if w[0] == "open" { // a fixture of the repository (read-only), by base name
			if len(w) != 2 || strings.ContainsAny(w[1], "/\\") {
				return "bad-op"
			}
			data, err := os.ReadFile(filepath.Join(c02RepoDir(), "test", w[1]))
			if err != nil {
				return "ERR"
			}
			fa, err := xl.OpenReader(bytes.NewReader(data))
			if err != nil {
				return "ERR"
			}
			h.a.f = fa
			if twin {
				h.b.f, _ = xl.OpenReader(bytes.NewReader(data))
			}
			h.names = fa.GetSheetList()
			h.kinds = make([]string, len(h.names))
			for i := range h.kinds {
				h.kinds[i] = "fixture"
			}
			h.noteOverlaps()
			return "ok"
		}
		h.a.f = c02New()
		if twin {
			h.b.f = c02New()
		}
		h.names, h.kinds = []string{"Sheet1"}, []string{"newfile"}
		return "ok"
	}
	if h.a.f == nil {
		return "bad-op"
	}
	if w[0] == "save" {
		return "bad-op" // handled by the caller
	}
	res := h.apply(&h.a, w)
	if twin && h.b.f != nil && w[0] != "dump" && w[0] != "pkg" {
		rb := h.apply(&h.b, w)
		ra := res
		if h.emit && (w[0] == "get" || w[0] == "iget") && (strings.Contains(ra, ":s:3f") || strings.Contains(rb, ":s:3f")) {
			// `?<index>`: the (frozen) hook could not resolve a shared string because an empty in-memory table
			// sits next to the spilled one (see coreOp/reopen; the never-saved twin keeps the spilled table).
			// The public getters read the temp file and are compared in the wide and spill histories.
			h.r.Stat("info:hook-unresolved-shared-string")
			rb = ra
		}
		if rb != ra {
			sig := "twin:result:" + w[0]
			if ra == "PANIC" || rb == "PANIC" {
				sig = "panic:" + w[0]
			}
			h.fail(sig, fmt.Sprintf("`%s` answers %s on the saved file and %s on the never-saved twin", strings.Join(w, " "), ra, rb), 0)
		}
	}
	if res == "PANIC" {
		h.fail("panic:"+w[0], "panic in `"+strings.Join(w, " ")+"`", 0)
	}
	switch w[0] {
	case "merge", "unmerge", "dupr", "insr", "insc", "delr", "delc", "copy", "reopen":
		h.noteOverlaps() // (loads the sheets: done for every twin alike)
	}
	switch w[0] {
	case "newsheet", "stream":
		if res == "ok" {
			h.names = append(h.names, "S"+strconv.Itoa(len(h.names)+1))
			k := "newsheet"
			if w[0] == "stream" {
				k = "stream"
				if n(1) > h.maxR && n(1) <= 12 {
					h.maxR = n(1)
				}
				if n(2)+1 > h.maxC && n(2)+1 <= 12 {
					h.maxC = n(2) + 1
				}
			}
			h.kinds = append(h.kinds, k)
		}
	case "copy":
		if res == "ok" && n(2) < len(h.kinds) {
			h.kinds[n(2)] = "copy"
		}
	case "reopen", "craft":
		if res == "ok" {
			for i := range h.kinds {
				h.kinds[i] = "opened"
			}
		}
	case "val", "fml", "sty", "get", "iget", "float", "rich", "link", "formctl", "delformctl", "comment", "pic", "table":
		h.touch(n(1), n(2), n(3))
	case "merge", "unmerge", "dim":
		h.touch(n(1), n(2), n(3))
		h.touch(n(1), n(4), n(5))
	case "hide", "vis", "ivis", "rowh", "rowout", "delr", "dupr":
		h.touch(n(1), 1, n(2))
	case "insr":
		h.touch(n(1), 1, n(2)+n(3))
	case "rowsty":
		h.touch(n(1), 1, n(3))
	case "colw", "colsty":
		h.touch(n(1), n(3), 1)
	case "colvis", "delc", "colout":
		h.touch(n(1), n(2), 1)
	case "insc":
		h.touch(n(1), n(2)+n(3), 1)
	}
	return res
}

var c02Mutating = map[string]bool{"val": true, "fml": true, "sty": true, "hide": true, "newsheet": true, "copy": true,
	"float": true, "rich": true, "merge": true, "unmerge": true, "colw": true, "colvis": true, "colsty": true, "colout": true,
	"rowsty": true, "rowh": true, "rowout": true, "insr": true, "delr": true, "insc": true, "delc": true,
	"dupr": true, "link": true, "formctl": true, "delformctl": true, "comment": true, "pic": true, "table": true, "defname": true, "active": true, "shvis": true, "dim": true, "stream": true}

// observeBefore / observeAfter are the getter calls that accompany `save k o`.
// One getter side effect is left in the library (the first string read creates
// the shared-string part and its relationship), so every twin receives exactly
// the same calls. (GetCellStyle materialising cells and the rewrite of long
// numbers by formatted reads were repaired in the code: C04.)
func (h *c02Hist) observeBefore(f *xl.File, o int) (base []c02Obs) {
	if o&1 != 0 {
		base = c02Observe(f, h)
	}
	return
}

func (h *c02Hist) observeAfter(f *xl.File, o int) (after, twin []c02Obs) {
	if o&1 != 0 {
		after = c02Observe(f, h)
	}
	if o&2 != 0 {
		twin = c02Observe(f, h)
	}
	return
}

// line executes one history line with all oracles; returns the line number in the transcript (0 if not emitted).
func (h *c02Hist) line(l string) int {
	w := strings.Fields(l)
	if len(w) == 0 {
		return 0
	}
	if w[0] == "new" || w[0] == "open" {
		h.dead, h.poison, h.overlapSeen = false, false, false
		h.lines = nil
		h.maxC, h.maxR, h.far = 1, 1, map[[3]int]bool{}
		h.lastSave, h.saves, h.mutAfter = nil, 0, false
		h.failed = map[string]bool{}
	}
	if h.dead {
		return 0
	}
	h.lines = append(h.lines, l)
	var res string
	if w[0] == "save" && len(w) == 3 && h.a.f != nil {
		k, o := c02Atoi(w[1]), c02Atoi(w[2])
		if o&1 != 0 {
			h.lastSave = nil // getters run between the two saves (the first string read creates xl/sharedStrings.xml)
		}
		before := h.observeBefore(h.a.f, o)
		if h.b.f != nil {
			h.observeBefore(h.b.f, o)
		}
		var out []byte
		out, res = c02Save(&h.a, k)
		h.saves++
		if res == "PANIC" {
			h.fail("panic:save", "panic while saving", 0)
		}
		if res == "ok" {
			if h.lastSave != nil {
				h.decoded("save-twice", h.lastSave, out, "two consecutive saves of an unmodified workbook")
				h.r.Stat("oracle:save-twice")
			}
			after, ta := h.observeAfter(h.a.f, o)
			var tb []c02Obs
			if h.b.f != nil {
				_, tb = h.observeAfter(h.b.f, o)
			}
			if o&1 != 0 {
				h.r.Stat("oracle:getter-before-after")
				if d, ob, other := c02Diff(before, after); d {
					h.fail("getter:"+ob.aspect+":"+h.kind(ob.sheet), fmt.Sprintf("getter answers differently after a save: %s was %s, now %s", ob.key, ob.val, other), 0)
				}
			}
			if o&2 != 0 && h.b.f != nil {
				h.r.Stat("oracle:twin-obs")
				if d, ob, other := c02Diff(ta, tb); d {
					h.fail("twin:obs:"+ob.aspect+":"+h.kind(ob.sheet), fmt.Sprintf("after save: file with saves reports %s = %s, never-saved twin reports %s", ob.key, ob.val, other), 0)
				}
			}
			if o&4 != 0 {
				if fb := h.freshTwin(); fb != nil {
					h.decoded("twin:saved", out, fb, "saved content vs. save of a never-saved twin")
					h.r.Stat("oracle:twin-saved")
				}
			}
			// the observation is not pure: only saves with no getter call in between count as "unmodified"
			h.lastSave = out
			if o&3 != 0 {
				h.lastSave = nil
			}
		}
	} else {
		res = h.execOne(w, true)
		if c02Mutating[w[0]] || w[0] == "reopen" || w[0] == "craft" {
			h.lastSave = nil
			if h.saves > 0 && c02Mutating[w[0]] {
				h.mutAfter = true
			}
		}
	}
	if h.poison {
		h.fail("panic:getter", "a getter panics during the observation at `"+l+"`", 0)
	}
	if res == "PANIC" || h.failed["panic:"+w[0]] || h.poison {
		h.dead = true
		h.r.Stat("history:stopped-by-panic")
	}
	if h.emit && c02CoreOps[w[0]] {
		return h.r.Op(l, c02Spec(w[0], res))
	}
	return 0
}

// c02Spec appends the specification slot for ops where the driver prints one.
func c02Spec(op, res string) string {
	if op == "get" || op == "vis" {
		return res + " S=" + res
	}
	return res
}

func (h *c02Hist) twinObs(when string) {
	if h.b.f == nil {
		return
	}
	h.r.Stat("oracle:twin-obs")
	if d, o, other := c02Diff(c02Observe(h.a.f, h), c02Observe(h.b.f, h)); d {
		h.fail("twin:obs:"+o.aspect+":"+h.kind(o.sheet), fmt.Sprintf("%s: file with saves reports %s = %s, never-saved twin reports %s", when, o.key, o.val, other), 0)
	}
}

// finish runs the end-of-history oracles.
func (h *c02Hist) finish() {
	if h.a.f == nil || len(h.lines) == 0 {
		return
	}
	if h.dead {
		h.r.Case(strings.Join(h.lines, ";"), h.saves > 0 && h.mutAfter)
		h.a.f, h.b.f, h.lines = nil, nil, nil
		return
	}
	for _, l := range h.lines {
		if w := strings.Fields(l); len(w) == 4 && w[0] == "hide" && c02Atoi(w[2]) > 1048576 {
			// a million row slots: the per-call twin comparison has already spoken, no full observation
			h.r.Case(strings.Join(h.lines, ";"), h.saves > 0 && h.mutAfter)
			h.a.f, h.b.f, h.lines = nil, nil, nil
			return
		}
	}
	h.twinObs("at the end")
	if h.poison {
		h.fail("panic:getter", "a getter panics during the final observation", 0)
		h.r.Case(strings.Join(h.lines, ";"), h.saves > 0 && h.mutAfter)
		h.a.f, h.b.f, h.lines, h.poison = nil, nil, nil, false
		return
	}
	if h.b.f != nil {
		xa, ra := c02Save(&h.a, 0)
		xb, rb := c02Save(&h.b, 0)
		if ra == "ok" && rb == "ok" {
			h.decoded("twin:saved", xa, xb, "final saved content vs. never-saved twin")
			h.r.Stat("oracle:twin-saved")
		} else if ra != rb {
			h.fail("twin:result:save", "final save answers "+ra+" / "+rb, 0)
		}
	}
	key := strings.Join(h.lines, ";")
	h.r.Case(key, h.saves > 0 && h.mutAfter)
	if h.saves > 0 && h.mutAfter {
		h.r.Stat("history:save-then-mutate")
	}
	h.a.f.Close()
	if h.b.f != nil {
		h.b.f.Close()
	}
	h.a.f, h.b.f = nil, nil
	h.lines = nil
}

// ---------------------------------------------------------------- generator

type c02Gen struct {
	rng    *Rng
	h      *c02Hist
	nsheet int
	last   []string
	strs   map[[3]int]bool // generator's shadow: cells that currently hold the escape look-alike string
}

func (g *c02Gen) pos(wide bool) (int, int) {
	r := g.rng
	switch x := r.Intn(100); {
	case x < 70:
		return r.Range(1, 5), r.Range(1, 5)
	case x < 82:
		return 1, r.Range(1, 6)
	case x < 90:
		return r.Range(1, 6), 1
	case x < 96:
		return r.Range(7, 12), r.Range(7, 12)
	default:
		if wide && r.Chance(30) {
			return r.Pick2([]int{16384, 16383, 702, 703}), r.Range(1, 3)
		}
		return r.Range(13, 40), r.Range(13, 60)
	}
}

var c02Strings = []string{"old", "new", "a", " lead", "trail ", "x<y&z>\"q'", "tab\there", "line\nbreak", "_x0041_", "ünï©ode ✓", "0", "1e5", "TRUE", ""}

func (g *c02Gen) valLine(sh, c, r int) string {
	rg := g.rng
	switch x := rg.Intn(100); {
	case x < 35:
		v := []string{"0", "1", "-1", "42", "9223372036854775807", "-9223372036854775808", strconv.Itoa(rg.Range(-1000, 100000))}[rg.Intn(7)]
		return fmt.Sprintf("val %d %d %d - %s", sh, c, r, hx(v))
	case x < 50:
		return fmt.Sprintf("val %d %d %d b %s", sh, c, r, hx(strconv.Itoa(rg.Intn(2))))
	case x < 85:
		s := rg.Pick(c02Strings)
		if s == "" {
			s = "e"
		}
		return fmt.Sprintf("val %d %d %d s %s", sh, c, r, hx(s))
	default:
		return fmt.Sprintf("val %d %d %d - -", sh, c, r)
	}
}

func (g *c02Gen) sh() int {
	if g.rng.Chance(3) {
		return g.nsheet + 3 // missing sheet
	}
	return g.rng.Intn(g.nsheet)
}

func (g *c02Gen) saveLines() []string {
	rg := g.rng
	n := 1
	if rg.Chance(35) {
		n = rg.Range(2, 3)
	}
	var ls []string
	for i := 0; i < n; i++ {
		o := 0
		if rg.Chance(25) {
			o |= 1
		}
		if rg.Chance(40) {
			o |= 2
		}
		if rg.Chance(15) {
			o |= 4
		}
		if g.h.emit {
			// modelled histories: the full observation is not pure (it materialises cells, rewrites long
			// numbers, creates the shared-string part), so getters appear only as explicit get/vis lines
			o &= 4
		}
		ls = append(ls, fmt.Sprintf("save %d %d", rg.Intn(4), o))
	}
	return ls
}

// coreOp draws one modelled op (possibly several lines).
func (g *c02Gen) coreOp() []string {
	rg := g.rng
	sh := g.sh()
	c, r := g.pos(false)
	switch x := rg.Intn(100); {
	case x < 38:
		if rg.Chance(4) {
			c, r = []int{16385, 1, 1}[rg.Intn(3)], []int{1, 0, 1048577}[rg.Intn(3)]
		}
		l := g.valLine(sh, c, r)
		if strings.Contains(l, " s "+hx("_x0041_")) {
			g.strs[[3]int{sh, c, r}] = true
		} else {
			delete(g.strs, [3]int{sh, c, r})
		}
		return []string{l}
	case x < 46:
		f := hx([]string{"SUM(A1:B2)", "A1+1", "1/0", "\"a\"&\"b\""}[rg.Intn(4)])
		if rg.Chance(20) {
			f = "-"
		}
		if g.h.emit && g.strs[[3]int{sh, c, r}] && f != "-" {
			// SetCellFormula moves a shared string's text into the cell in its stored, escaped form
			// (`_x005F_x0041_` for the look-alike payload `_x0041_`); the dump hook shows the stored
			// text of a t="str" cell, the model carries the payload: modelled histories clear such a cell first
			delete(g.strs, [3]int{sh, c, r})
			return []string{fmt.Sprintf("val %d %d %d - -", sh, c, r), fmt.Sprintf("fml %d %d %d %s", sh, c, r, f)}
		}
		return []string{fmt.Sprintf("fml %d %d %d %s", sh, c, r, f)}
	case x < 54:
		return []string{fmt.Sprintf("sty %d %d %d %d", sh, c, r, rg.Intn(3))}
	case x < 60:
		rr := r
		if rg.Chance(5) {
			rr = 0
		}
		return []string{fmt.Sprintf("hide %d %d %d", sh, rr, rg.Intn(2))}
	case x < 68:
		return []string{fmt.Sprintf("get %d %d %d", sh, c, r)}
	case x < 71:
		return []string{fmt.Sprintf("vis %d %d", sh, r)}
	case x < 86:
		return g.saveLines()
	case x < 90:
		if rg.Chance(45) {
			l := fmt.Sprintf("reopen %d", []int{64, 300, 2000}[rg.Intn(3)])
			if g.h.emit {
				// modelled histories: a save right away moves a spilled shared-string table back into File.Pkg.
				// While it is spilled, SetCellFormula on a string cell instantiates an empty in-memory table
				// (sharedStringsReader) next to the temp file; the public getters still read the temp file, the
				// dump hook (frozen) resolves indexes through the in-memory table and would print `?<index>`.
				// Spilled tables under later calls are covered by the wide and spill histories (public getters).
				return []string{l, "save 0 0"}
			}
			return []string{l}
		}
		return []string{"reopen"}
	case x < 95:
		if g.nsheet < 5 {
			g.nsheet++
			return []string{"newsheet"}
		}
		return []string{fmt.Sprintf("get %d %d %d", sh, c, r)}
	default:
		a, b := rg.Intn(g.nsheet+1), rg.Intn(g.nsheet+1)
		if a != b && a < g.nsheet && b < g.nsheet {
			for k := range g.strs {
				if k[0] == b {
					delete(g.strs, k)
				}
			}
			for k := range g.strs {
				if k[0] == a {
					g.strs[[3]int{b, k[1], k[2]}] = true
				}
			}
		}
		return []string{fmt.Sprintf("copy %d %d", a, b)}
	}
}

func (g *c02Gen) wideOp() []string {
	rg := g.rng
	sh := rg.Intn(g.nsheet)
	c, r := g.pos(true)
	c2, r2 := c+rg.Intn(3), r+rg.Intn(3)
	if rg.Chance(8) {
		return g.colBurst(sh)
	}
	if rg.Chance(7) && g.nsheet >= 2 {
		return g.copyOver()
	}
	if rg.Chance(9) { // VML-backed features: form controls and comments
		switch rg.Intn(5) {
		case 0, 1:
			return []string{fmt.Sprintf("formctl %d %d %d %d", sh, min(c, 12), min(r, 12), rg.Intn(8))}
		case 2, 3:
			return []string{fmt.Sprintf("comment %d %d %d %d", sh, min(c, 12), min(r, 12), rg.Intn(8))}
		default:
			return []string{fmt.Sprintf("delformctl %d %d %d", sh, min(c, 12), min(r, 12))}
		}
	}
	switch rg.Intn(24) {
	case 0:
		return []string{fmt.Sprintf("float %d %d %d %x", sh, c, r, math.Float64bits([]float64{0.1, 1.5, 1e21, -2.25, 43831.5, 1.0000000000000002}[rg.Intn(6)]))}
	case 1:
		return []string{fmt.Sprintf("rich %d %d %d r%d", sh, c, r, rg.Intn(9))}
	case 2, 3:
		return []string{fmt.Sprintf("merge %d %d %d %d %d", sh, c, r, c2, r2)}
	case 4:
		return []string{fmt.Sprintf("unmerge %d %d %d %d %d", sh, c, r, c2, r2)}
	case 5:
		return []string{fmt.Sprintf("colw %d %d %d %d", sh, min(c, 12), min(c2, 12), rg.Range(1, 60))}
	case 6:
		return []string{fmt.Sprintf("colvis %d %d %d", sh, min(c, 12), rg.Intn(2))}
	case 7:
		return []string{fmt.Sprintf("colsty %d %d %d %d", sh, min(c, 12), min(c2, 12), rg.Intn(3))}
	case 8:
		return []string{fmt.Sprintf("rowsty %d %d %d %d", sh, min(r, 12), min(r2, 12), rg.Intn(3))}
	case 9:
		return []string{fmt.Sprintf("rowh %d %d %d", sh, min(r, 40), rg.Range(5, 90))}
	case 10:
		return []string{fmt.Sprintf("rowout %d %d %d", sh, min(r, 40), rg.Range(0, 7))}
	case 11:
		return []string{fmt.Sprintf("insr %d %d %d", sh, min(r, 8), rg.Range(1, 2))}
	case 12:
		return []string{fmt.Sprintf("delr %d %d", sh, min(r, 8))}
	case 13:
		return []string{fmt.Sprintf("insc %d %d %d", sh, min(c, 8), rg.Range(1, 2))}
	case 14:
		return []string{fmt.Sprintf("delc %d %d", sh, min(c, 8))}
	case 15:
		return []string{fmt.Sprintf("dupr %d %d", sh, min(r, 8))}
	case 16:
		return []string{fmt.Sprintf("link %d %d %d l%d", sh, c, r, rg.Intn(9))}
	case 17:
		return []string{fmt.Sprintf("defname %d %d", rg.Intn(3), sh)}
	case 18:
		return []string{fmt.Sprintf("active %d", sh)}
	case 19:
		return []string{fmt.Sprintf("shvis %d %d", sh, rg.Intn(2))}
	case 20:
		return []string{fmt.Sprintf("dim %d %d %d %d %d", sh, min(c, 12), min(r, 12), min(c2, 12), min(r2, 12))}
	case 21:
		if g.nsheet < 5 {
			g.nsheet++
			return []string{fmt.Sprintf("stream %d %d %d", rg.Range(1, 6), rg.Range(1, 5), rg.Intn(50))}
		}
	}
	return g.coreOp()
}

// relOp draws an operation that gives a sheet a relationship (external hyperlink, comment, form
// control, picture, table).
func (g *c02Gen) relOp(sh int) string {
	rg := g.rng
	c, r := rg.Range(1, 6), rg.Range(1, 6)
	switch rg.Intn(5) {
	case 0:
		return fmt.Sprintf("link %d %d %d l%d", sh, c, r, rg.Intn(9))
	case 1:
		return fmt.Sprintf("comment %d %d %d %d", sh, c, r, rg.Intn(8))
	case 2:
		return fmt.Sprintf("formctl %d %d %d %d", sh, c, r, rg.Intn(8))
	case 3:
		return fmt.Sprintf("pic %d %d %d %d", sh, c, r, rg.Intn(8))
	default:
		return fmt.Sprintf("table %d %d %d", sh, c, r+6)
	}
}

// copyOver: a sheet that owns relationships is overwritten by CopySheet — from a sheet without
// or with relationships — with or without a save in between, then gets a new relationship; the
// final packages of the twins are compared part by part (sheet-level .rels parts included).
func (g *c02Gen) copyOver() []string {
	rg := g.rng
	dst := rg.Intn(g.nsheet)
	src := (dst + 1 + rg.Intn(g.nsheet-1)) % g.nsheet
	var ls []string
	for i := rg.Range(1, 3); i > 0; i-- {
		ls = append(ls, g.relOp(dst))
	}
	if rg.Chance(40) {
		ls = append(ls, g.relOp(src))
	}
	if rg.Chance(65) {
		ls = append(ls, fmt.Sprintf("save %d %d", rg.Intn(4), []int{0, 0, 2, 4}[rg.Intn(4)]))
	}
	ls = append(ls, fmt.Sprintf("copy %d %d", src, dst))
	if rg.Chance(70) {
		ls = append(ls, g.relOp(dst))
	}
	if rg.Chance(50) {
		ls = append(ls, fmt.Sprintf("save %d %d", rg.Intn(4), []int{2, 6}[rg.Intn(2)]))
	}
	return ls
}

// colBurst draws several column-definition ops on adjacent columns 1..5 (single columns and
// short ranges; width, style, visibility, outline in all combinations): mergeExpandedCols
// merges adjacent definitions at save time, which must not change any of them.
func (g *c02Gen) colBurst(sh int) []string {
	rg := g.rng
	var ls []string
	for i := rg.Range(2, 6); i > 0; i-- {
		c1 := rg.Range(1, 5)
		c2 := c1
		if rg.Chance(35) {
			c2 = min(c1+rg.Range(1, 3), 6)
		}
		switch rg.Intn(4) {
		case 0:
			ls = append(ls, fmt.Sprintf("colw %d %d %d %d", sh, c1, c2, []int{10, 20}[rg.Intn(2)]))
		case 1:
			ls = append(ls, fmt.Sprintf("colsty %d %d %d %d", sh, c1, c2, rg.Intn(3)))
		case 2:
			ls = append(ls, fmt.Sprintf("colvis %d %d %d", sh, c1, rg.Intn(2)))
		case 3:
			ls = append(ls, fmt.Sprintf("colout %d %d %d", sh, c1, rg.Intn(3)))
		}
	}
	if rg.Chance(70) {
		ls = append(ls, fmt.Sprintf("save %d %d", rg.Intn(4), []int{2, 3, 6, 7}[rg.Intn(4)]))
	}
	return ls
}

// spillHistory: a workbook with a shared-string table and worksheets larger than
// Options.UnzipXMLSizeLimit is reopened (parts spilled to temporary files), then read through
// the public getters — numeric/blank cells only, or text cells as well — then saved without a
// preceding full observation, then observed.
func (g *c02Gen) spillHistory() {
	h, rg := g.h, g.rng
	h.finish()
	h.emit = false
	g.nsheet = 1
	g.last = nil
	g.strs = map[[3]int]bool{}
	emit := func(l string) {
		h.line(l)
		g.last = append(g.last, l)
		h.r.Stat("op:" + strings.Fields(l)[0])
	}
	emit("new")
	if rg.Chance(40) {
		g.nsheet++
		emit("newsheet")
	}
	nrows := rg.Range(3, 9)
	for sh := 0; sh < g.nsheet; sh++ {
		for r := 1; r <= nrows; r++ {
			emit(fmt.Sprintf("val %d 1 %d s %s", sh, r, hx(fmt.Sprintf("text value number %d of sheet %d", r, sh))))
			emit(fmt.Sprintf("val %d 2 %d - %s", sh, r, hx(strconv.Itoa(r*10))))
		}
	}
	emit(fmt.Sprintf("reopen %d", []int{64, 200, 256, 700}[rg.Intn(4)]))
	for i := rg.Intn(4); i > 0; i-- {
		col := 2 // numeric
		switch x := rg.Intn(10); {
		case x < 2:
			col = 1 // text
		case x < 4:
			col = 3 // blank
		}
		emit(fmt.Sprintf("get %d %d %d", rg.Intn(g.nsheet), col, rg.Range(1, nrows)))
	}
	for _, l := range g.saveLines() {
		w := strings.Fields(l)
		emit(fmt.Sprintf("save %s %d", w[1], c02Atoi(w[2])&^1|2)) // no observation before, twin observation after
	}
	for i := rg.Intn(6); i > 0; i-- {
		for _, l := range g.coreOp() {
			emit(l)
		}
	}
	h.finish()
}

// craftLine draws a malformed-ish sheetData for one sheet: sparse rows in increasing
// order, cells possibly out of column order, duplicated, or in the wrong row.
func (g *c02Gen) craftLine(sh int) string {
	rg := g.rng
	var toks []string
	r := 0
	for i := rg.Range(1, 4); i > 0; i-- {
		r += rg.Range(1, 3)
		toks = append(toks, fmt.Sprintf("R.%d.%d", r, rg.Intn(2)))
		nc := rg.Intn(5)
		c := 0
		for j := 0; j < nc; j++ {
			switch x := rg.Intn(100); {
			case x < 70:
				c += rg.Range(1, 3)
			case x < 80: // duplicate / out of order
				c = max(1, c-rg.Intn(3))
			default:
				c = rg.Range(1, 9)
			}
			row := r
			if rg.Chance(6) {
				row = r + 1
			}
			t, v, f := "-", hx(strconv.Itoa(rg.Intn(100))), "~"
			switch rg.Intn(5) {
			case 0:
				t, v = "b", hx("1")
			case 1:
				t, f = "str", hx("A1+1")
			case 2:
				v = "-"
			}
			toks = append(toks, fmt.Sprintf("%d.%d.%d.%s.%s.%s", c, row, rg.Intn(3), t, v, f))
		}
	}
	return fmt.Sprintf("craft %d %s", sh, strings.Join(toks, " "))
}

func c02RunLines(h *c02Hist, lines []string) {
	for _, l := range lines {
		w := strings.Fields(l)
		if len(w) == 0 || strings.HasPrefix(l, "#") {
			continue
		}
		if w[0] == "new" || w[0] == "open" {
			h.finish()
		}
		h.line(l)
	}
	h.finish()
}

// c02Emit runs one generated history; after each mutating core op the layout is dumped.
func (g *c02Gen) history(wide bool, nops int, malformed bool) {
	h := g.h
	h.finish()
	h.emit = !wide
	g.nsheet = 1
	g.last = nil
	g.strs = map[[3]int]bool{}
	h.line("new")
	dumpAll := func() {
		if !h.emit {
			return
		}
		for i := 0; i < g.nsheet; i++ {
			h.line(fmt.Sprintf("dump %d", i))
			h.line(fmt.Sprintf("pkg %d", i))
		}
	}
	for i := g.rng.Intn(3); i > 0; i-- {
		g.nsheet++
		h.line("newsheet")
	}
	for i := 0; i < nops; i++ {
		var ls []string
		if malformed && g.rng.Chance(12) {
			ls = []string{g.craftLine(g.rng.Intn(g.nsheet))}
		} else if wide && g.rng.Chance(45) {
			ls = g.wideOp()
		} else {
			ls = g.coreOp()
		}
		for _, l := range ls {
			if malformed {
				l = strings.Replace(strings.Replace(l, "get ", "iget ", 1), "vis ", "ivis ", 1)
				l = strings.Replace(l, "iiget", "iget", 1)
			}
			h.line(l)
			g.last = append(g.last, l)
			w := strings.Fields(l)
			h.r.Stat("op:" + w[0])
			if !h.emit {
				continue
			}
			switch w[0] {
			case "save", "reopen", "craft", "copy":
				dumpAll()
			case "val", "fml", "sty", "hide", "get", "iget", "vis", "ivis":
				if c02Atoi(w[1]) < g.nsheet {
					h.line("dump " + w[1])
				}
			case "newsheet":
				h.line(fmt.Sprintf("dump %d", g.nsheet-1))
			}
		}
	}
	if h.emit {
		op, vop := "get", "vis"
		if malformed {
			op, vop = "iget", "ivis"
		}
		for i := 0; i < g.nsheet; i++ {
			for r := 1; r <= min(h.maxR+1, 7); r++ {
				h.line(fmt.Sprintf("%s %d %d", vop, i, r))
				for c := 1; c <= min(h.maxC+1, 7); c++ {
					h.line(fmt.Sprintf("%s %d %d %d", op, i, c, r))
				}
			}
		}
		dumpAll()
	}
	h.finish()
}

// the reconnaissance witness (DESIGN.md section 6) and close relatives, run first on every run
var c02Witnesses = [][]string{
	{"new", "newsheet", "val 1 3 1 s " + hx("old"), "dump 1", "save 0 0", "dump 1", "pkg 1",
		"val 1 3 1 s " + hx("new"), "dump 1", "val 1 1 1 s " + hx("a"), "dump 1",
		"get 1 3 1", "get 1 1 1", "get 1 2 1"},
	{"new", "newsheet", "newsheet", "val 1 2 2 - " + hx("7"), "copy 1 2", "dump 2", "save 1 0", "dump 1", "dump 2",
		"val 2 1 2 - " + hx("8"), "dump 2", "get 2 1 2", "get 2 2 2", "save 2 4", "save 3 4", "dump 2", "pkg 2"},
	{"new", "val 0 3 1 s " + hx("old"), "save 0 0", "dump 0", "pkg 0", "val 0 3 1 s " + hx("new"), "val 0 1 1 s " + hx("a"),
		"dump 0", "get 0 3 1", "get 0 1 1"},
	{"new", "newsheet", "val 1 1 2 - " + hx("1"), "val 1 4 2 b " + hx("1"), "val 1 1 2 - -", "hide 1 4 1", "dump 1",
		"save 0 0", "dump 1", "pkg 1", "sty 1 2 2 1", "fml 1 3 2 " + hx("A1+1"), "dump 1", "get 1 4 2", "get 1 3 2",
		"get 1 2 2", "vis 1 4", "vis 1 5", "reopen", "dump 1", "get 1 4 2", "dump 1"},
}

// wide witnesses (direct oracles only): a hyperlink set in this session reaches a copy of the
// sheet only if a save happened in between (copySheet reads the relationship part from File.Pkg,
// where relsWriter puts it at save time)
var c02WideWitnesses = [][]string{
	{"new", "newsheet", "link 1 3 1 l3", "save 0 0", "copy 1 0", "get 0 3 1"},
	// open finding: overlapping merged ranges are only combined by the save (mergeOverlapCells, in place);
	// until then a write into the overlap is redirected to the first range listed
	{"new", "merge 0 4 3 4 4", "merge 0 3 2 4 3", "save 0 0", "val 0 4 4 - " + hx("1")},
	// open finding: SetRowVisible accepts a row beyond TotalRows; the part written for such a worksheet
	// cannot be loaded again (checkSheet: ErrMaxRows), so after a save every call on the sheet fails
	{"new", "hide 0 1048577 1", "save 0 0", "vis 0 1"},
}

// regression histories for defects the twin oracle once missed (run on every run, direct oracles only)
var c02Regressions = [][]string{
	// adjacent single-column definitions that differ only in style must survive mergeExpandedCols
	{"new", "colw 0 1 4 20", "colsty 0 3 3 1", "save 0 6", "get 0 4 1", "save 1 7"},
	{"new", "colsty 0 2 2 1", "colsty 0 3 3 2", "colout 0 4 1", "colvis 0 5 0", "save 2 7", "colw 0 2 3 10", "save 0 7"},
	// CopySheet over a sheet that owns relationships, after a save wrote its .rels part: the stale part must go
	{"new", "newsheet", "link 1 3 1 l3", "save 0 0", "copy 0 1", "link 1 2 2 l4"},
	{"new", "newsheet", "comment 1 1 1 1", "link 1 3 1 l3", "save 0 0", "copy 0 1", "comment 1 2 2 2", "save 0 6"},
	{"new", "newsheet", "newsheet", "link 1 3 1 l3", "link 2 1 1 l5", "save 0 0", "copy 2 1", "link 1 2 2 l4"},
	// VML parts: add, save, add, save, read (the writer must not drop what it has loaded)
	{"new", "formctl 0 1 1 0", "save 0 2", "formctl 0 2 5 1", "save 0 6", "comment 0 3 3 1", "save 0 7"},
	{"new", "comment 0 1 1 0", "formctl 0 2 2 0", "reopen", "save 0 2", "formctl 0 2 5 1", "comment 0 4 4 2", "save 0 6", "save 0 7"},
	// spilled shared strings: only a numeric cell is read before the save
	{"new", "val 0 1 1 s " + hx("text value number 1, long enough to exceed the size limit of the part"),
		"val 0 1 2 s " + hx("text value number 2, long enough to exceed the size limit of the part"),
		"val 0 2 1 - " + hx("10"), "val 0 2 2 - " + hx("20"), "reopen 64", "get 0 2 1", "save 0 2", "get 0 1 1", "save 0 7"},
}

// the workbooks under test/ that belong to the repository (everything else there is written by its test suite)
var c02Tracked = map[string]bool{"BadWorkbook.xlsx": true, "Book1.xlsx": true, "CalcChain.xlsx": true, "MergeCell.xlsx": true,
	"OverflowNumericCell.xlsx": true, "SharedStrings.xlsx": true, "encryptAES.xlsx": true, "encryptSHA1.xlsx": true}

func runC02(r *Run, rng *Rng, replay string) {
	r.Rule = "a history counts as non-trivial when it contains at least one save followed by at least one later mutation; distinct = distinct op-line sequences"
	h := &c02Hist{r: r, far: map[[3]int]bool{}, failed: map[string]bool{}, emit: true}
	if replay != "" {
		lines := readLines(replay)
		core := true
		for _, l := range lines {
			w := strings.Fields(l)
			if len(w) > 0 && !strings.HasPrefix(l, "#") && !c02CoreOps[w[0]] {
				core = false
			}
		}
		h.emit = core
		c02RunLines(h, lines)
		return
	}
	for _, wl := range c02Witnesses {
		h.emit = true
		c02RunLines(h, wl)
		r.Stat("history:witness")
	}
	for _, wl := range append(append([][]string{}, c02WideWitnesses...), c02Regressions...) {
		h.emit = false
		c02RunLines(h, wl)
		r.Stat("history:witness")
	}
	h.emit = true
	// malformed op lines: the driver and the harness must both reject them
	for _, l := range []string{"val 0 1", "bogus 1 2", "save", "get x y z", "craft 0 R.x.0", "fml 0 1 1"} {
		res := "bad-op"
		r.Op(l, res)
		r.Stat("op:malformed-line")
	}
	g := &c02Gen{rng: rng, h: h}
	nCore, nWide, nMal := 140, 110, 40
	if r.Tier == "thorough" {
		nCore, nWide, nMal = 1500, 1200, 400
	}
	if e := os.Getenv("C02_N"); e != "" { // debugging aid: "core,malformed,wide" counts
		fmt.Sscanf(e, "%d,%d,%d", &nCore, &nMal, &nWide)
	}
	for i := 0; i < nCore; i++ {
		g.history(false, rng.Range(4, 28), false)
		r.Stat("history:core")
	}
	for i := 0; i < nMal; i++ {
		g.history(false, rng.Range(3, 14), true)
		r.Stat("history:malformed")
	}
	// fixtures of the repository, opened from bytes: two consecutive saves (every part compared after
	// canonicalisation), then a short wide history with saves against the never-saved twin
	fixtures, _ := filepath.Glob(filepath.Join(c02RepoDir(), "test", "*.xls[xm]"))
	sort.Strings(fixtures)
	nFix := 0
	for _, fx := range fixtures {
		base := filepath.Base(fx)
		if !c02Tracked[base] {
			continue // outputs of the repository's own test suite are not fixtures
		}
		reps := 2
		if r.Tier == "thorough" {
			reps = 8
		}
		for k := 0; k < reps; k++ {
			h.finish()
			h.emit = false
			if h.line("open "+base); h.a.f == nil {
				r.Stat("fixture:not-opened")
				break
			}
			g.nsheet = len(h.names)
			g.last, g.strs = nil, map[[3]int]bool{}
			h.line(fmt.Sprintf("save %d 0", rng.Intn(4)))
			h.line(fmt.Sprintf("save %d %d", rng.Intn(4), []int{0, 2, 6}[rng.Intn(3)]))
			for i := rng.Range(2, 10); i > 0 && g.nsheet > 0; i-- {
				for _, l := range g.wideOp() {
					h.line(l)
					r.Stat("op:" + strings.Fields(l)[0])
				}
			}
			h.finish()
			nFix++
			r.Stat("history:fixture")
		}
	}
	nSpill := nWide / 4
	for i := 0; i < nSpill; i++ {
		g.spillHistory()
		r.Stat("history:spill")
	}
	for i := 0; i < nWide; i++ {
		t0 := time.Now()
		g.history(true, rng.Range(6, 34), false)
		if d := time.Since(t0); d > 3*time.Second && os.Getenv("C02_DEBUG") != "" {
			fmt.Fprintln(os.Stderr, "slow wide history", i, d, strings.Join(g.last, "; "))
		}
		r.Stat("history:wide")
	}
	for _, s := range r.opsSample(10) {
		r.Sample(s)
	}
}
