//go:build verif_c03

package main

// C03 — cell storage is a last-writer-wins map over the grid.
//
// Transcript ops (lean/XlModel/Drv/C03.lean); cells are hex-encoded spellings, `~` = empty token:
//   new <nStyles>
//   set <setter[.variant]> <cell> <kind> <a> <b>   every SetCell* value setter; kind/a/b = the stored tokens the
//                                                  harness predicts (tv t v | num v | inl s | clr)
//   time|dur <cell> <kind> <a> <b> <style|~> <spec>  SetCellValue(time.Time | time.Duration)
//   frm <cell> <formula|~>      SetCellFormula
//   sty <cell> <cell> <id>      SetCellStyle
//   gsty <cell>                 GetCellStyle (densifies!)
//   get <cell>                  the getter workflow (hook VerifC03GetCell)
//   mrg|unm <cell> <cell>, gm   MergeCell, UnmergeCell, GetMergeCells
//   seq <r|c> <cell> <n> {setter kind a b}^n   SetSheetRow / SetSheetCol
//   hl <cell> <link>            SetCellHyperLink (not in the grid: model no-op; oracle only)
//   obs c1 r1 c2 r2             observation of a box through the getter
// Every mutating op answers "<status> | <internal dump>" (hook VerifC03Dump): the real
// grid is compared structurally with the model state after every op, and `dense=1` is
// asserted on the real object.
//
// Direct oracles (no Lean involved) evaluate the property text on the real code through
// the public API: read-back of the last payload, frame (nothing else changes, observed
// before/after over the bounding box + margin), merge clears, redirect to the anchor,
// reported ranges pairwise disjoint / nothing lost, case-insensitive names, hyperlinks.

import (
	"fmt"
	"math"
	"os"
	"sort"
	"strconv"
	"strings"
	"time"
	"unicode/utf8"

	xl "github.com/xuri/excelize/v2"
)

func init() { props["C03"] = runC03 }

const c03Sheet = "Sheet1"

type c03pos struct{ c, r int }

type c03ctx struct {
	r       *Run
	f       *xl.File
	nStyles int
	lines   []string // ops of the current transcript (replay text)
	merges  [][4]int // reference: ranges as issued / as last reported
	box     [4]int   // bounding box of touched positions (dense block)
	far     map[c03pos]bool
	isFar   bool
	tIndex  int
	// a numeric text that a *formatted* read rewrites in place (getValueFrom assigns c.V: more than 15
	// significant digits, exponent or padded forms) has been stored: that getter impurity is C04's subject;
	// from then on `gm` runs the normalisation through the hook instead of GetMergeCells (which reads the
	// anchors formatted), so that the stored texts stay what the writes put there.
	unstable bool
	// styles (GetCellStyle, a pure getter since the C04 fix) of the watched positions at the last two observations
	prevSty, lastSty map[c03pos]int
	styleTargets     []c03pos // positions whose style the current op may change
}

var c03stableCache = map[string]bool{}

// c03stable: a formatted GetCellValue leaves the stored numeric text alone.
func c03stable(text string) (res bool) {
	if v, ok := c03stableCache[text]; ok {
		return v
	}
	defer func() {
		if p := recover(); p != nil {
			res = true
		}
	}()
	f := xl.NewFile()
	defer f.Close()
	_ = f.SetCellDefault("Sheet1", "A1", text)
	_, _ = f.GetCellValue("Sheet1", "A1")
	raw, _ := f.GetCellValue("Sheet1", "A1", xl.Options{RawCellValue: true})
	c03stableCache[text] = raw == text
	return raw == text
}

func c03name(c, r int) string {
	n, err := xl.CoordinatesToCellName(c, r)
	if err != nil {
		return fmt.Sprintf("?%d.%d", c, r)
	}
	return n
}

// c03tokS: token of a plain shared string item. The table stores the basic-string-escaped text
// (bstrMarshal: `_xHHHH_` look-alikes and characters not permitted in XML 1.0 are escaped); the escaping
// itself is C01's subject, so the token is predicted with the hook and the read-back oracle demands the
// verbatim text.
func c03tokS(s string) string { return "S" + hx(xl.VerifBstrMarshal(c03trunc(s))) }

// c03untokS recovers the text written from a shared-string token (S… / R…)
func c03untokS(tok string) string {
	if len(tok) == 0 {
		return ""
	}
	return xl.VerifBstrUnmarshal(unhx(tok[1:]))
}

func c03trunc(s string) string {
	if utf8.RuneCountInString(s) > xl.TotalCellChars {
		return string([]rune(s)[:xl.TotalCellChars])
	}
	return s
}

func (cx *c03ctx) replay() string { return strings.Join(cx.lines, "\n") }

func (cx *c03ctx) dump() string { return xl.VerifC03Dump(cx.f, c03Sheet) }

func (cx *c03ctx) touch(c, r int) {
	if c < 1 || r < 1 {
		return
	}
	if c > 40 || r > 60 {
		cx.far[c03pos{c, r}] = true
		cx.isFar = true
		return
	}
	if cx.box[0] == 0 {
		cx.box = [4]int{c, r, c, r}
		return
	}
	if c < cx.box[0] {
		cx.box[0] = c
	}
	if r < cx.box[1] {
		cx.box[1] = r
	}
	if c > cx.box[2] {
		cx.box[2] = c
	}
	if r > cx.box[3] {
		cx.box[3] = r
	}
}

// positions observed by the frame oracle: bounding box + margin 2, far positions + their neighbours
func (cx *c03ctx) watch() []c03pos {
	var ps []c03pos
	seen := map[c03pos]bool{}
	add := func(c, r int) {
		if c < 1 || r < 1 || c > 16384 || r > 1048576 {
			return
		}
		p := c03pos{c, r}
		if !seen[p] {
			seen[p] = true
			ps = append(ps, p)
		}
	}
	if cx.box[0] != 0 && !cx.isFar {
		for r := cx.box[1] - 2; r <= cx.box[3]+2; r++ {
			for c := cx.box[0] - 2; c <= cx.box[2]+2; c++ {
				add(c, r)
			}
		}
	} else if cx.box[0] != 0 {
		for r := cx.box[1]; r <= cx.box[3] && r < cx.box[1]+4; r++ {
			for c := cx.box[0]; c <= cx.box[2] && c < cx.box[0]+4; c++ {
				add(c, r)
			}
		}
	}
	var fs []c03pos
	for p := range cx.far {
		fs = append(fs, p)
	}
	sort.Slice(fs, func(i, j int) bool { return fs[i].r < fs[j].r || (fs[i].r == fs[j].r && fs[i].c < fs[j].c) })
	for _, p := range fs {
		for dr := -1; dr <= 1; dr++ {
			for dc := -1; dc <= 1; dc++ {
				add(p.c+dc, p.r+dr)
			}
		}
	}
	return ps
}

// observe reads value (raw), type and formula of every watched position through the public API.
func (cx *c03ctx) observe(ps []c03pos) map[c03pos]string {
	m := make(map[c03pos]string, len(ps))
	cx.prevSty, cx.lastSty = cx.lastSty, make(map[c03pos]int, len(ps))
	for _, p := range ps {
		n := c03name(p.c, p.r)
		if id, err := cx.f.GetCellStyle(c03Sheet, n); err == nil {
			cx.lastSty[p] = id
		} else {
			cx.lastSty[p] = -1
		}
		v, e1 := cx.f.GetCellValue(c03Sheet, n, xl.Options{RawCellValue: true})
		t, e2 := cx.f.GetCellType(c03Sheet, n)
		fm, e3 := cx.f.GetCellFormula(c03Sheet, n)
		if e1 != nil || e2 != nil || e3 != nil {
			m[p] = "ERR"
			continue
		}
		m[p] = fmt.Sprintf("%q|%d|%q", v, t, fm)
	}
	return m
}

func c03inRect(q [4]int, c, r int) bool { return q[0] <= c && c <= q[2] && q[1] <= r && r <= q[3] }

func c03intersect(a, b [4]int) bool {
	return a[0] <= b[2] && b[0] <= a[2] && a[1] <= b[3] && b[1] <= a[3]
}

// anchor candidates of a position under the reference merge list
func (cx *c03ctx) anchors(c, r int) []c03pos {
	var as []c03pos
	for _, q := range cx.merges {
		if c03inRect(q, c, r) {
			as = append(as, c03pos{q[0], q[1]})
		}
	}
	if len(as) == 0 {
		as = []c03pos{{c, r}}
	}
	return as
}

func c03decode(h string) (string, int, int, bool) {
	s := unhx(h)
	c, r, err := xl.CellNameToCoordinates(s)
	if err != nil || c < 1 {
		return s, 0, 0, false
	}
	return s, c, r, true
}

func c03canonical(s string, c, r int) bool { return strings.ToUpper(s) == c03name(c, r) }

func c03call(fn func() error) (res string) {
	defer func() {
		if p := recover(); p != nil {
			res = "PANIC"
		}
	}()
	if err := fn(); err != nil {
		return "ERR"
	}
	return "ok"
}

// parse the M= part of a dump into rectangles (by Ref)
func c03dumpMerges(d string) ([]string, [][4]int) {
	i := strings.LastIndex(d, " M=")
	if i < 0 || i+3 >= len(d) {
		return nil, nil
	}
	var refs []string
	var rs [][4]int
	for _, e := range strings.Split(d[i+3:], ";") {
		ref := strings.SplitN(e, "@", 2)[0]
		q, err := xl.VerifRangeRefToCoordinates(ref)
		if err != nil || len(q) != 4 {
			continue
		}
		refs = append(refs, ref)
		rs = append(rs, [4]int{q[0], q[1], q[2], q[3]})
	}
	return refs, rs
}

type c03val struct {
	setter string // int uint bool float str dflt rich
	vari   string
	kind   string
	a, b   string
	// expectation for the public read-back ("" kind = not checked)
	expect     string
	expectKind string // raw | fmt | float | none
	fbits      uint64
}

// apply one value payload through the API variant named in the op.
func (cx *c03ctx) setValue(cell string, v *c03val) string {
	f := cx.f
	text := func() string { // the input text of str/dflt/rich ops
		switch v.kind {
		case "sst":
			return c03untokS(v.a)
		case "tv":
			return unhx(v.b)
		case "num", "inl":
			return unhx(v.a)
		}
		return ""
	}
	return c03call(func() error {
		switch v.setter {
		case "int":
			n, _ := strconv.ParseInt(unhx(v.b), 10, 64)
			switch v.vari {
			case "":
				return f.SetCellInt(c03Sheet, cell, n)
			case "i8":
				return f.SetCellValue(c03Sheet, cell, int8(n))
			case "i16":
				return f.SetCellValue(c03Sheet, cell, int16(n))
			case "i32":
				return f.SetCellValue(c03Sheet, cell, int32(n))
			case "i64":
				return f.SetCellValue(c03Sheet, cell, n)
			default:
				return f.SetCellValue(c03Sheet, cell, int(n))
			}
		case "uint":
			n, _ := strconv.ParseUint(unhx(v.b), 10, 64)
			switch v.vari {
			case "":
				return f.SetCellUint(c03Sheet, cell, n)
			case "u8":
				return f.SetCellValue(c03Sheet, cell, uint8(n))
			case "u16":
				return f.SetCellValue(c03Sheet, cell, uint16(n))
			case "u32":
				return f.SetCellValue(c03Sheet, cell, uint32(n))
			case "u64":
				return f.SetCellValue(c03Sheet, cell, n)
			default:
				return f.SetCellValue(c03Sheet, cell, uint(n))
			}
		case "bool":
			bv := unhx(v.b) == "1"
			if v.vari == "val" {
				return f.SetCellValue(c03Sheet, cell, bv)
			}
			return f.SetCellBool(c03Sheet, cell, bv)
		case "float":
			// variant: <bits hex>_<prec>_<bitsize>[_val]
			w := strings.Split(v.vari, "_")
			bits, _ := strconv.ParseUint(w[0], 16, 64)
			x := math.Float64frombits(bits)
			prec, _ := strconv.Atoi(w[1])
			bs, _ := strconv.Atoi(w[2])
			if len(w) > 3 {
				if bs == 32 {
					return f.SetCellValue(c03Sheet, cell, float32(x))
				}
				return f.SetCellValue(c03Sheet, cell, x)
			}
			return f.SetCellFloat(c03Sheet, cell, x, prec, bs)
		case "str":
			s := text()
			extra := 0
			if strings.HasPrefix(v.vari, "x") {
				extra, _ = strconv.Atoi(v.vari[1:])
			}
			s += strings.Repeat("z", extra)
			switch v.vari {
			case "val":
				return f.SetCellValue(c03Sheet, cell, s)
			case "bytes":
				return f.SetCellValue(c03Sheet, cell, []byte(s))
			}
			return f.SetCellStr(c03Sheet, cell, s)
		case "dflt":
			if v.vari == "nil" {
				return f.SetCellValue(c03Sheet, cell, nil)
			}
			return f.SetCellDefault(c03Sheet, cell, text())
		case "rich":
			s := text()
			var runs []xl.RichTextRun
			if len(s) < 5 { // the run structure is a function of the text: equal texts give DeepEqual items
				runs = []xl.RichTextRun{{Text: s}}
			} else {
				runs = []xl.RichTextRun{{Text: s[:len(s)/2], Font: &xl.Font{Bold: true}}, {Text: s[len(s)/2:]}}
			}
			return f.SetCellRichText(c03Sheet, cell, runs)
		}
		return fmt.Errorf("unknown setter")
	})
}

// c03valToSet rewrites a `val` line into the `set` words the runner executes.
func c03valToSet(w []string) ([]string, bool) {
	if len(w) != 4 {
		return nil, false
	}
	kw := strings.SplitN(w[1], ".", 2)
	vari := ""
	if len(kw) > 1 {
		vari = "." + kw[1]
	}
	switch kw[0] {
	case "int":
		if _, err := strconv.ParseInt(w[3], 10, 64); err != nil {
			return nil, false
		}
		return []string{"set", "int" + vari, w[2], "tv", "~", hx(w[3])}, true
	case "uint":
		if _, err := strconv.ParseUint(w[3], 10, 64); err != nil {
			return nil, false
		}
		return []string{"set", "uint" + vari, w[2], "tv", "~", hx(w[3])}, true
	case "bool":
		if w[3] != "0" && w[3] != "1" {
			return nil, false
		}
		return []string{"set", "bool" + vari, w[2], "tv", "b", hx(w[3])}, true
	case "nil":
		return []string{"set", "dflt.nil", w[2], "clr", "~", "~"}, true
	case "str":
		text := unhx(w[3])
		if !utf8.ValidString(text) {
			return nil, false
		}
		if n := utf8.RuneCountInString(text) - xl.TotalCellChars; n > 0 && vari == "" {
			vari = fmt.Sprintf(".x%d", n) // the runner appends n runes to the truncated text: same stored result
		}
		return []string{"set", "str" + vari, w[2], "sst", c03tokS(text), "~"}, true
	}
	return nil, false
}

func c03parseVal(setterWord, kind, a, b string) *c03val {
	w := strings.SplitN(setterWord, ".", 2)
	v := &c03val{setter: w[0], kind: kind, a: a, b: b}
	if len(w) > 1 {
		v.vari = w[1]
	}
	// expectation of the public read-back, from the property text
	switch v.setter {
	case "int", "uint":
		v.expect, v.expectKind = unhx(b), "raw"
	case "bool":
		v.expectKind = "fmt"
		v.expect = "FALSE"
		if unhx(b) == "1" {
			v.expect = "TRUE"
		}
	case "float":
		ws := strings.Split(v.vari, "_")
		v.fbits, _ = strconv.ParseUint(ws[0], 16, 64)
		v.expectKind = "none"
		if len(ws) > 2 && ws[1] == "-1" {
			v.expectKind = "float" + ws[2]
		}
	case "str":
		v.expectKind = "raw"
		v.expect = c03untokS(a)
	case "dflt":
		v.expectKind = "raw"
		if kind != "clr" {
			v.expect = unhx(a)
		}
	case "rich":
		v.expectKind = "raw"
		v.expect = c03untokS(a)
	}
	return v
}

var c03bstrLike = func(s string) bool {
	// an `_xHHHH_` look-alike: owned by C01 (basic-string escaping)
	for i := 0; i+7 <= len(s); i++ {
		if s[i] == '_' && s[i+1] == 'x' && s[i+6] == '_' {
			ok := true
			for _, ch := range s[i+2 : i+6] {
				if !strings.ContainsRune("0123456789abcdefABCDEF", ch) {
					ok = false
				}
			}
			if ok {
				return true
			}
		}
	}
	return false
}

// readback checks that the cell reads back the payload just written (property: last writer wins).
func (cx *c03ctx) readback(ln int, spelling string, v *c03val) {
	r := cx.r
	switch {
	case v.expectKind == "raw":
		got, err := cx.f.GetCellValue(c03Sheet, spelling, xl.Options{RawCellValue: true})
		if err != nil || got != v.expect {
			sig := "lww:readback:" + v.setter
			if c03bstrLike(v.expect) {
				sig = "lww:readback:bstr-lookalike"
			}
			r.Fail(sig, fmt.Sprintf("wrote %s %.40q to %s, GetCellValue(raw) = %.40q (%v)", v.setter, v.expect, spelling, got, err), ln, cx.replay())
		}
	case v.expectKind == "fmt":
		got, err := cx.f.GetCellValue(c03Sheet, spelling)
		if err != nil || got != v.expect {
			r.Fail("lww:readback:"+v.setter, fmt.Sprintf("wrote %s to %s, GetCellValue = %q, want %q (%v)", v.setter, spelling, got, v.expect, err), ln, cx.replay())
		}
	case strings.HasPrefix(v.expectKind, "float"):
		got, err := cx.f.GetCellValue(c03Sheet, spelling, xl.Options{RawCellValue: true})
		bs, _ := strconv.Atoi(v.expectKind[5:])
		want := math.Float64frombits(v.fbits)
		if bs == 32 {
			want = float64(float32(want))
		}
		back, perr := strconv.ParseFloat(got, bs)
		if err != nil || perr != nil || back != want {
			r.Fail("lww:readback:float", fmt.Sprintf("wrote float %v (bits %x, %d) to %s, raw text %q parses to %v", want, v.fbits, bs, spelling, got, back), ln, cx.replay())
		}
	}
}

// exec runs one op line on the real File, returns the final line (style ids filled in) and the canonical result.
func (cx *c03ctx) exec(line string) {
	r := cx.r
	w := strings.Fields(line)
	if len(w) == 0 || strings.HasPrefix(w[0], "#") {
		return
	}
	if os.Getenv("C03_DEBUG") == "2" {
		fmt.Fprintf(os.Stderr, "c03: %.120s\n", line)
	}
	opName := w[0]
	emit := func(final, res string) int {
		cx.lines = append(cx.lines, final)
		ln := r.Op(final, res)
		r.Case(fmt.Sprintf("%d:%d:%s", cx.tIndex, len(cx.lines), final), !strings.HasPrefix(res, "ERR") && res != "bad-op")
		r.Stat("op:" + opName)
		if strings.HasPrefix(res, "ERR") {
			r.Stat("result:ERR")
		} else if strings.HasPrefix(res, "PANIC") {
			r.Stat("result:PANIC")
			if opName != "scn" { // scenarios report under their own signature
				r.Fail("panic:"+w[0], "panic in "+final, ln, cx.replay())
			}
		}
		if i := strings.Index(res, " dense="); i >= 0 && strings.HasPrefix(res[i:], " dense=0") {
			r.Fail("dense:broken", "representation invariant broken on the real worksheet after "+final, ln, cx.replay())
		}
		return ln
	}
	withDump := func(st string) string { return st + " | " + cx.dump() }
	// `val <kind[.variant]> <cell> <raw input>`: a typed write whose stored tokens the *model* computes
	// (GridPayload.lean); on this side it is executed like the corresponding `set`
	if w[0] == "val" {
		sw, ok := c03valToSet(w)
		if !ok {
			emit(line, "bad-op")
			return
		}
		w = sw
	}
	// `vseq <r|c> <cell> <n> {<kind> <raw input>}^n`: SetSheetRow / SetSheetCol with typed values; the model
	// computes the stored tokens of every element (GridPayload.setSheetCells)
	if w[0] == "vseq" {
		n, _ := strconv.Atoi(w[3])
		if len(w) != 4+2*n {
			emit(line, "bad-op")
			return
		}
		sw := []string{"seq", w[1], w[2], w[3]}
		for i := 0; i < n; i++ {
			one, ok := c03valToSet([]string{"val", w[4+2*i], w[2], w[5+2*i]})
			if !ok {
				emit(line, "bad-op")
				return
			}
			sw = append(sw, one[1], one[3], one[4], one[5])
		}
		w = sw
	}
	switch w[0] {
	case "new":
		if cx.f != nil {
			cx.f.Close()
		}
		n, _ := strconv.Atoi(w[1])
		cx.f = xl.NewFile()
		cx.nStyles = n
		for i := 1; i < n; i++ {
			id, err := cx.f.NewStyle(&xl.Style{Font: &xl.Font{Size: float64(10 + i)}})
			if err != nil || id != i {
				must(fmt.Errorf("style setup: id %d err %v", id, err))
			}
		}
		cx.lines = nil
		cx.merges = nil
		cx.box = [4]int{}
		cx.far = map[c03pos]bool{}
		cx.isFar = false
		cx.unstable = false
		cx.tIndex++
		emit(line, withDump("ok"))
	case "set":
		if len(w) != 6 {
			emit(line, "bad-op")
			return
		}
		sp, c, ro, ok := c03decode(w[2])
		v := c03parseVal(w[1], w[3], w[4], w[5])
		if ok {
			cx.touch(c, ro)
		}
		if (v.kind == "tv" && w[4] == "~" && !c03stable(unhx(v.b))) || (v.kind == "num" && !c03stable(unhx(v.a))) {
			cx.unstable = true
			r.Stat("payload:numeric-text-rewritten-by-formatted-read")
		}
		ps := cx.watch()
		before := cx.observe(ps)
		st := cx.setValue(sp, v)
		ln := emit(line, withDump(st))
		if opName == "val" {
			r.Stat("val:" + v.setter)
		}
		r.Stat("setter:" + w[1][:strings.IndexAny(w[1]+".", ".")])
		if st == "ok" && ok {
			cx.frameWrite(ln, ps, before, []c03pos{{c, ro}}, "set "+w[1])
			if c03canonical(sp, c, ro) {
				cx.readback(ln, sp, v)
				if fm, _ := cx.f.GetCellFormula(c03Sheet, sp); fm != "" {
					r.Fail("lww:formula-survives:"+v.setter, fmt.Sprintf("value written to %s by %s but GetCellFormula still returns %q", sp, v.setter, fm), ln, cx.replay())
				}
			}
		}
	case "time", "dur":
		if len(w) != 7 {
			emit(line, "bad-op")
			return
		}
		sp, c, ro, ok := c03decode(w[1])
		if ok {
			cx.touch(c, ro)
		}
		ps := cx.watch()
		before := cx.observe(ps)
		if w[2] == "num" && !c03stable(unhx(w[3])) {
			cx.unstable = true
		}
		var st string
		n, _ := strconv.ParseInt(w[6], 10, 64)
		if w[0] == "time" {
			st = c03call(func() error { return cx.f.SetCellValue(c03Sheet, sp, time.Unix(n, 0).UTC()) })
		} else {
			st = c03call(func() error { return cx.f.SetCellValue(c03Sheet, sp, time.Duration(n)) })
		}
		sid := "~"
		if st == "ok" && ok && w[2] == "num" {
			// the date style is applied where the value is stored: at the anchor of the merged range
			at := sp
			if an, err := xl.VerifC03Anchor(cx.f, c03Sheet, sp); err == nil {
				at = an
			}
			id, _ := cx.f.GetCellStyle(c03Sheet, at)
			sid = strconv.Itoa(id)
		}
		w[5] = sid
		ln := emit(strings.Join(w, " "), withDump(st))
		if st == "ok" && ok {
			cx.styleTargets = append(cx.anchors(c, ro), c03pos{c, ro})
			cx.frameWrite(ln, ps, before, []c03pos{{c, ro}}, w[0])
			if fm, _ := cx.f.GetCellFormula(c03Sheet, sp); fm != "" && c03canonical(sp, c, ro) {
				r.Fail("lww:formula-survives:"+w[0], fmt.Sprintf("%s value written to %s but GetCellFormula still returns %q", w[0], sp, fm), ln, cx.replay())
			}
			// the number format must sit where the value is (the anchor)
			as := cx.anchors(c, ro)
			if len(as) == 1 && (as[0] != c03pos{c, ro}) && w[2] == "num" {
				d := cx.dump()
				an := c03name(as[0].c, as[0].r)
				if !strings.Contains(d, " "+an+"="+sid+",") {
					r.Fail("redirect:time-style-at-raw-cell", fmt.Sprintf("%s written to %s inside a merged range: value stored at anchor %s, date style %s applied to %s instead", w[0], sp, an, sid, sp), ln, cx.replay())
				}
			}
		}
	case "frm":
		sp, c, ro, ok := c03decode(w[1])
		if ok {
			cx.touch(c, ro)
		}
		ps := cx.watch()
		before := cx.observe(ps)
		fm := ""
		if w[2] != "~" {
			fm = unhx(w[2])
		}
		st := c03call(func() error { return cx.f.SetCellFormula(c03Sheet, sp, fm) })
		ln := emit(line, withDump(st))
		if st == "ok" && ok {
			cx.frameWrite(ln, ps, before, []c03pos{{c, ro}}, "frm")
			if got, err := cx.f.GetCellFormula(c03Sheet, sp); c03canonical(sp, c, ro) && (err != nil || got != fm) {
				r.Fail("lww:readback:formula", fmt.Sprintf("SetCellFormula(%s, %q) reads back %q (%v)", sp, fm, got, err), ln, cx.replay())
			}
		}
	case "sty":
		s1, c1, r1, ok1 := c03decode(w[1])
		s2, c2, r2, ok2 := c03decode(w[2])
		id, _ := strconv.Atoi(w[3])
		if ok1 && ok2 {
			cx.touch(c1, r1)
			cx.touch(c2, r2)
		}
		ps := cx.watch()
		before := cx.observe(ps)
		st := c03call(func() error { return cx.f.SetCellStyle(c03Sheet, s1, s2, id) })
		ln := emit(line, withDump(st))
		var block []c03pos
		if st == "ok" && ok1 && ok2 {
			for ro := min(r1, r2); ro <= max(r1, r2); ro++ {
				for c := min(c1, c2); c <= max(c1, c2); c++ {
					block = append(block, c03pos{c, ro})
				}
			}
		}
		cx.styleTargets = block
		cx.frameWrite(ln, ps, before, nil, "sty")
		for _, p := range block {
			if got, ok := cx.lastSty[p]; ok && got != id {
				r.Fail("lww:readback:style", fmt.Sprintf("SetCellStyle(%s,%s,%d) but GetCellStyle(%s) = %d", s1, s2, id, c03name(p.c, p.r), got), ln, cx.replay())
			}
		}
	case "gsty":
		sp, c, ro, ok := c03decode(w[1])
		if ok {
			cx.touch(c, ro)
		}
		var id int
		d0 := cx.dump()
		st := c03call(func() error { var e error; id, e = cx.f.GetCellStyle(c03Sheet, sp); return e })
		if st == "ok" {
			st = fmt.Sprintf("style %d", id)
		}
		ln := emit(line, withDump(st))
		if d1 := cx.dump(); d1 != d0 {
			r.Fail("getter:gsty-changes-grid", "GetCellStyle("+sp+") changed the stored worksheet", ln, cx.replay())
		}
	case "get":
		sp := unhx(w[1])
		var res string
		st := c03call(func() error { var e error; res, e = xl.VerifC03GetCell(cx.f, c03Sheet, sp); return e })
		if st == "ok" {
			st = res
		}
		emit(line, st)
	case "hl":
		sp, c, ro, ok := c03decode(w[1])
		link := unhx(w[2])
		ps := cx.watch()
		before := cx.observe(ps)
		st := c03call(func() error { return cx.f.SetCellHyperLink(c03Sheet, sp, link, "Location") })
		ln := emit(line, withDump(st))
		cx.frameWrite(ln, ps, before, nil, "hl")
		if st == "ok" && ok { // GetCellHyperLink normalises the spelling (C20 fixes): every accepted spelling must find the link
			found, target, err := cx.f.GetCellHyperLink(c03Sheet, sp)
			if err != nil || !found || target != link {
				sig := "hyperlink:readback"
				for _, a := range cx.anchors(c, ro) {
					if (a != c03pos{c, ro}) {
						sig = "redirect:hyperlink-get-not-redirected"
					}
				}
				r.Fail(sig, fmt.Sprintf("SetCellHyperLink(%s, %q) then GetCellHyperLink(%s) = %v %q (%v)", sp, link, sp, found, target, err), ln, cx.replay())
			}
			// cell names are case-insensitive: the other spellings of the cell report the same link
			for _, other := range []string{c03name(c, ro), strings.ToLower(c03name(c, ro))} {
				if f2, t2, e2 := cx.f.GetCellHyperLink(c03Sheet, other); e2 != nil || !f2 || t2 != link {
					r.Fail("hyperlink:readback-other-spelling", fmt.Sprintf("SetCellHyperLink(%s, %q) then GetCellHyperLink(%s) = %v %q (%v)", sp, link, other, f2, t2, e2), ln, cx.replay())
				}
			}
		}
	case "scn":
		// scratch-file scenarios around code the grid model does not cover; each must return without panicking
		if len(w) != 3 {
			emit(line, "bad-op")
			return
		}
		st := "bad-op"
		if w[1] == "sharedsi" {
			// a shared formula whose master cell lies outside its reference range (directly, or because the
			// cell was redirected to the anchor of a merged range) has no shared index; overwriting it
			// dereferenced the nil index in removeFormula
			st = c03call(func() error {
				f := xl.NewFile()
				defer f.Close()
				sh := xl.STCellFormulaTypeShared
				cell, ref, target := "F8", "F8:F9", "G6"
				if w[2] == "0" {
					if err := f.MergeCell("Sheet1", "E6", "G8"); err != nil {
						return err
					}
				} else {
					cell, ref, target = "A1", "B1:B2", "A1"
				}
				if err := f.SetCellFormula("Sheet1", cell, "A1+1", xl.FormulaOpts{Type: &sh, Ref: &ref}); err != nil {
					return err
				}
				if err := f.SetCellValue("Sheet1", target, 1); err != nil {
					return err
				}
				if fm, _ := f.GetCellFormula("Sheet1", target); fm != "" {
					return fmt.Errorf("formula survives: %q", fm)
				}
				return nil
			})
		}
		ln := emit(line, st)
		if st != "ok" && st != "bad-op" {
			r.Fail("panic:shared-formula-without-index", fmt.Sprintf("scenario %s %s: %s (MergeCell E6:G8; SetCellFormula(F8, shared, Ref F8:F9); SetCellValue(G6) / SetCellFormula(A1, shared, Ref B1:B2); SetCellValue(A1))", w[1], w[2], st), ln, cx.replay())
		}
	case "shh":
		if len(w) != 3 {
			emit(line, "bad-op")
			return
		}
		seed, _ := strconv.ParseUint(w[1], 10, 64)
		n, _ := strconv.Atoi(w[2])
		var fails []c03shFail
		st := c03call(func() error { fails = c03sharedHistory(seed, n); return nil })
		ln := emit(line, st)
		r.Stat("shared-history")
		for _, f := range fails {
			r.Fail(f.sig, f.what, ln, "new 1\n"+line+"\n# "+strings.Join(f.hist, "\n# "))
		}
	case "hlrm":
		sp := unhx(w[1])
		ps := cx.watch()
		before := cx.observe(ps)
		st := c03call(func() error { return cx.f.SetCellHyperLink(c03Sheet, sp, "", "None") })
		ln := emit(line, withDump(st))
		cx.frameWrite(ln, ps, before, nil, "hlrm")
		if st == "ok" {
			if found, _, err := cx.f.GetCellHyperLink(c03Sheet, sp); err != nil || found {
				r.Fail("hyperlink:remove", fmt.Sprintf("link removed from %s but GetCellHyperLink still finds one (%v)", sp, err), ln, cx.replay())
			}
		}
	case "hlget":
		sp := unhx(w[1])
		var found bool
		var target string
		st := c03call(func() error { var e error; found, target, e = cx.f.GetCellHyperLink(c03Sheet, sp); return e })
		if st == "ok" {
			st = "nolink"
			if found {
				st = "link " + hx(target)
			}
		}
		emit(line, st)
	case "mrg", "unm":
		// both functions decode topLeft + ":" + bottomRight as one range reference
		s1, s2 := unhx(w[1]), unhx(w[2])
		var c1, r1, c2, r2 int
		q0, qerr := xl.VerifRangeRefToCoordinates(s1 + ":" + s2)
		ok1 := qerr == nil && len(q0) == 4 && q0[0] >= 1 && q0[2] >= 1
		ok2 := ok1
		if ok1 {
			c1, r1, c2, r2 = q0[0], q0[1], q0[2], q0[3]
			cx.touch(c1, r1)
			cx.touch(c2, r2)
		}
		ps := cx.watch()
		before := cx.observe(ps)
		var st string
		if w[0] == "mrg" {
			st = c03call(func() error { return cx.f.MergeCell(c03Sheet, s1, s2) })
		} else {
			st = c03call(func() error { return cx.f.UnmergeCell(c03Sheet, s1, s2) })
		}
		res := withDump(st)
		ln := emit(line, res)
		if st != "ok" || !ok1 || !ok2 {
			cx.frameWrite(ln, ps, before, nil, w[0])
			return
		}
		q := [4]int{c1, r1, c2, r2}
		if q[2] < q[0] {
			q[0], q[2] = q[2], q[0]
		}
		if q[3] < q[1] {
			q[1], q[3] = q[3], q[1]
		}
		after := cx.observe(ps)
		cx.frameStyles(ln, ps, w[0])
		if w[0] == "mrg" {
			// "merging clears the non-anchor cells": reads inside the range are redirected, so the stored
			// cells are inspected (internal dump): value, type, inline string and formula must be gone
			stored := c03dumpCells(res)
			for name, tk := range stored {
				c, ro, _ := xl.CellNameToCoordinates(name)
				if c03inRect(q, c, ro) && !(c == q[0] && ro == q[1]) {
					if f := strings.Split(tk, ","); len(f) != 5 || f[1] != "~" || f[2] != "-" || f[3] != "~" || f[4] != "~" {
						r.Fail("merge:not-cleared", fmt.Sprintf("MergeCell %s:%s left %s = %s", s1, s2, name, tk), ln, cx.replay())
					}
				}
			}
			anchorObs := after[c03pos{q[0], q[1]}]
			for _, p := range ps {
				in := c03inRect(q, p.c, p.r)
				if in {
					// all cells of a merged range read the same (when the position is in no other range)
					if !cx.inAnyRange(p.c, p.r) && !cx.inAnyRange(q[0], q[1]) && after[p] != anchorObs {
						r.Fail("redirect:range-reads-differ", fmt.Sprintf("after MergeCell %s:%s, %s reads %s but the anchor reads %s", s1, s2, c03name(p.c, p.r), after[p], anchorObs), ln, cx.replay())
					}
				} else if after[p] != before[p] {
					// a cell outside the new range may change only if it reads through an older range whose anchor was cleared
					if as := cx.anchors(p.c, p.r); !(len(as) >= 1 && (as[0] != p)) {
						r.Fail("frame:merge-changed-other-cell", fmt.Sprintf("MergeCell %s:%s changed %s: %s -> %s", s1, s2, c03name(p.c, p.r), before[p], after[p]), ln, cx.replay())
					}
				}
			}
			r.Stat("merge:" + cx.classify(q))
			cx.merges = append(cx.merges, q)
		} else {
			_, rep := c03dumpMerges(res)
			cx.frameMerges(ln, ps, before, after, rep, "unm")
			cx.checkReported(ln, rep, &q)
			cx.merges = rep
		}
	case "gm":
		// GetMergeCells reports the normalised ranges. Whether it also replaces the worksheet's own list
		// (tree before the purity fix) or works on a copy is the code's business: the stored list is read back
		// from the dump in both cases, and the model follows the extracted fact `getMergeCellsInPlace`.
		// (That a read leaves the worksheet alone is C04's oracle.)
		ps := cx.watch()
		before := cx.observe(ps)
		var got []xl.MergeCell
		st := c03call(func() error { var e error; got, e = cx.f.GetMergeCells(c03Sheet); return e })
		var api []string
		var rep [][4]int
		for _, m := range got {
			api = append(api, m[0])
			if q, err := xl.VerifRangeRefToCoordinates(m[0]); err == nil && len(q) == 4 {
				rep = append(rep, [4]int{q[0], q[1], q[2], q[3]})
			}
		}
		okGm := st == "ok"
		if okGm {
			st = "gm " + strings.Join(api, ";")
		}
		res := withDump(st)
		ln := emit(line, res)
		_, stored := c03dumpMerges(res)
		cx.frameMerges(ln, ps, before, cx.observe(ps), stored, "gm")
		cx.frameStyles(ln, ps, "gm")
		if okGm {
			for _, m := range got {
				want, _ := cx.f.GetCellValue(c03Sheet, m.GetStartAxis())
				if m.GetCellValue() != want {
					r.Fail("gm:value", fmt.Sprintf("GetMergeCells value of %s is %q, anchor reads %q", m[0], m.GetCellValue(), want), ln, cx.replay())
				}
			}
			cx.checkReported(ln, rep, nil)
			if len(stored) == len(cx.merges) {
				r.Stat("gm:stored-list-kept")
			} else {
				r.Stat("gm:stored-list-replaced")
			}
			cx.merges = stored
		}
	case "seq":
		sp, c, ro, ok := c03decode(w[2])
		n, _ := strconv.Atoi(w[3])
		if len(w) != 4+4*n {
			emit(line, "bad-op")
			return
		}
		var vals []interface{}
		var vs []*c03val
		for i := 0; i < n; i++ {
			v := c03parseVal(w[4+4*i], w[5+4*i], w[6+4*i], w[7+4*i])
			vs = append(vs, v)
			switch v.setter {
			case "int":
				x, _ := strconv.ParseInt(unhx(v.b), 10, 64)
				vals = append(vals, int(x))
			case "uint":
				x, _ := strconv.ParseUint(unhx(v.b), 10, 64)
				vals = append(vals, x)
			case "bool":
				vals = append(vals, unhx(v.b) == "1")
			case "str":
				vals = append(vals, c03untokS(v.a))
			default:
				vals = append(vals, nil)
			}
			if ok {
				if w[1] == "r" {
					cx.touch(c+i, ro)
				} else {
					cx.touch(c, ro+i)
				}
			}
		}
		ps := cx.watch()
		before := cx.observe(ps)
		var st string
		if w[1] == "r" {
			st = c03call(func() error { return cx.f.SetSheetRow(c03Sheet, sp, &vals) })
		} else {
			st = c03call(func() error { return cx.f.SetSheetCol(c03Sheet, sp, &vals) })
		}
		ln := emit(line, withDump(st))
		if ok {
			var targets []c03pos
			for i := 0; i < n; i++ {
				if w[1] == "r" {
					targets = append(targets, c03pos{c + i, ro})
				} else {
					targets = append(targets, c03pos{c, ro + i})
				}
			}
			cx.frameWrite(ln, ps, before, targets, "seq")
			if st == "ok" && len(cx.merges) == 0 {
				for i, t := range targets {
					cx.readback(ln, c03name(t.c, t.r), vs[i])
				}
			}
		}
	case "obs":
		c1, _ := strconv.Atoi(w[1])
		r1, _ := strconv.Atoi(w[2])
		c2, _ := strconv.Atoi(w[3])
		r2, _ := strconv.Atoi(w[4])
		var b strings.Builder
		b.WriteString("obs")
		for ro := r1; ro <= r2; ro++ {
			for c := c1; c <= c2; c++ {
				res, err := xl.VerifC03GetCell(cx.f, c03Sheet, c03name(c, ro))
				if err != nil || res == "none" {
					continue
				}
				// blank filler cells are not observable
				tokv := res[strings.Index(res, "=")+1:]
				if tokv == "0,~,-,~,~" {
					continue
				}
				b.WriteString(" " + c03name(c, ro) + "=" + tokv)
			}
		}
		emit(line, b.String())
	default:
		emit(line, "bad-op")
	}
}

// frameWrite: after an op, every watched position outside the allowed targets (or their anchors) is unchanged.
func (cx *c03ctx) frameWrite(ln int, ps []c03pos, before map[c03pos]string, targets []c03pos, what string) {
	after := cx.observe(ps)
	cx.frameStyles(ln, ps, strings.Fields(what)[0])
	allowed := map[c03pos]bool{}
	for _, t := range targets {
		for _, a := range cx.anchors(t.c, t.r) {
			allowed[a] = true
		}
	}
	for _, p := range ps {
		if before[p] == after[p] {
			continue
		}
		if allowed[p] {
			continue
		}
		// a position inside a merged range reads its anchor: it changes together with an allowed anchor
		viaAnchor := false
		for _, a := range cx.anchors(p.c, p.r) {
			if allowed[a] && a != p {
				viaAnchor = true
			}
		}
		if viaAnchor {
			continue
		}
		cx.r.Fail("frame:"+strings.Fields(what)[0]+"-changed-other-cell", fmt.Sprintf("%s changed %s: %s -> %s", what, c03name(p.c, p.r), before[p], after[p]), ln, cx.replay())
	}
}

// ---------------------------------------------------------------- shared formulas (oracle only)

type c03shFail struct {
	sig, what string
	hist      []string
}

type c03shGroup struct {
	col, r0, r1 int
	refCol      string
	op          string
	k           int
	live        bool
}

func (g *c03shGroup) text(r int) string {
	if g.refCol == "" { // a master overwritten by a plain formula: the code keeps the group, every cell derives from that text
		return g.op
	}
	return fmt.Sprintf("%s%d%s%d", g.refCol, r, g.op, g.k)
}

// c03sharedHistory runs a seeded history of shared-formula definitions (SetCellFormula with
// FormulaOpts{Type: shared, Ref}), redefinitions, and overwrites of masters and dependents by values, plain and
// empty formulas on a scratch file. After every op GetCellFormula of every cell of the region D1:H7 is
// compared with a reference that follows the property text: a cell reads the last formula written to it
// (explicitly or as the shifted text of the last group definition covering it); a write changes no other cell.
// Two behaviours of the current code deviate from that reference on purpose-built paths; they get their own
// signatures and the reference is re-synchronised after them, so that any other deviation is reported on its own.
func c03sharedHistory(seed uint64, n int) (fails []c03shFail) {
	rng := NewRng(seed)
	f := xl.NewFile()
	defer f.Close()
	sh := xl.STCellFormulaTypeShared
	const c0, c1, rmax = 4, 8, 7
	exp := map[c03pos]string{}
	// dep[p]: the cell carries a formula element of the shared type with a shared index and no reference range of
	// its own (a dependent), whether or not a master with that index still exists — the state the code keeps
	dep := map[c03pos]bool{}
	groups := map[int]*c03shGroup{} // by column
	var hist []string
	fail := func(sig, what string) {
		if len(fails) < 6 {
			fails = append(fails, c03shFail{sig, what, append([]string(nil), hist...)})
		}
	}
	read := func(c, r int) string {
		v, err := f.GetCellFormula("Sheet1", c03name(c, r))
		if err != nil {
			return "ERR"
		}
		return v
	}
	for i := 0; i < n; i++ {
		c, r := rng.Range(c0, c1), rng.Range(1, rmax-1)
		g := groups[c]
		touched := map[c03pos]bool{}
		knownSig := "" // a deviation of the current code that is expected on the cells in `resync`
		resync := map[c03pos]bool{}
		var desc string
		switch k := rng.Intn(10); {
		case k < 4 || (g == nil && k < 6): // define / redefine a group
			ng := &c03shGroup{col: c, refCol: []string{"A", "B", "C"}[rng.Intn(3)], op: []string{"+", "*"}[rng.Intn(2)], k: rng.Range(1, 9), live: true}
			if g != nil && g.live {
				ng.r0, ng.r1 = g.r0, g.r1 // same range again
				if rng.Chance(30) {
					ng.refCol, ng.op, ng.k = g.refCol, g.op, g.k // the same formula twice
				}
			} else {
				ng.r0 = rng.Range(1, rmax-2)
				ng.r1 = rng.Range(ng.r0+1, rmax)
			}
			ref := c03name(c, ng.r0) + ":" + c03name(c, ng.r1)
			desc = fmt.Sprintf("SetCellFormula(%s, %q, shared, Ref %s)", c03name(c, ng.r0), ng.text(ng.r0), ref)
			if err := f.SetCellFormula("Sheet1", c03name(c, ng.r0), ng.text(ng.r0), xl.FormulaOpts{Type: &sh, Ref: &ref}); err != nil {
				desc += " = " + err.Error()
			}
			for rr := ng.r0; rr <= ng.r1; rr++ {
				exp[c03pos{c, rr}] = ng.text(rr)
				touched[c03pos{c, rr}] = true
				dep[c03pos{c, rr}] = rr != ng.r0
			}
			groups[c] = ng
		default:
			p := c03pos{c, r}
			touched[p] = true
			master := g != nil && g.live && r == g.r0
			// a plain formula written to a dependent-typed cell only replaces the text of its formula element: the
			// cell keeps the shared type and index, so GetCellFormula answers from the group (or with "" when the
			// master is gone) — one root cause, whether the master still exists or not
			dependent := dep[p]
			switch k {
			case 6, 7:
				desc = fmt.Sprintf("SetCellValue(%s, %d)", c03name(c, r), i)
				_ = f.SetCellValue("Sheet1", c03name(c, r), i)
				exp[p] = ""
				dep[p] = false
				if master { // removeFormula clears the formula element of every cell with the master's index
					for rr := g.r0; rr <= g.r1; rr++ {
						dep[c03pos{c, rr}] = false
					}
				}
			case 8:
				desc = fmt.Sprintf("SetCellFormula(%s, \"9+%d\")", c03name(c, r), i)
				_ = f.SetCellFormula("Sheet1", c03name(c, r), fmt.Sprintf("9+%d", i))
				exp[p] = fmt.Sprintf("9+%d", i)
				if dependent {
					knownSig = "shared:plain-formula-on-dependent-ignored"
					resync[p] = true
				}
			default:
				desc = fmt.Sprintf("SetCellFormula(%s, \"\")", c03name(c, r))
				_ = f.SetCellFormula("Sheet1", c03name(c, r), "")
				exp[p] = ""
				dep[p] = false
			}
			if master {
				knownSig = "shared:master-overwrite-changes-group"
				for rr := g.r0 + 1; rr <= g.r1; rr++ {
					resync[c03pos{c, rr}] = true
				}
				if k == 8 {
					// the master keeps its shared attributes: the group lives on with the plain text as its formula
					g.refCol, g.op = "", fmt.Sprintf("9+%d", i)
				} else {
					g.live = false
				}
			}
			if dependent && k != 8 {
				// the cell leaves the group; the others keep their formulas
			}
		}
		hist = append(hist, desc)
		for cc := c0; cc <= c1; cc++ {
			for rr := 1; rr <= rmax; rr++ {
				p := c03pos{cc, rr}
				got := read(cc, rr)
				if got == exp[p] {
					continue
				}
				switch {
				case resync[p]:
					fail(knownSig, fmt.Sprintf("after %s: GetCellFormula(%s) = %q, the property demands %q", desc, c03name(cc, rr), got, exp[p]))
				case touched[p]:
					fail("shared:readback", fmt.Sprintf("after %s: GetCellFormula(%s) = %q, want %q", desc, c03name(cc, rr), got, exp[p]))
				default:
					fail("shared:frame", fmt.Sprintf("%s changed the formula of %s: %q -> %q", desc, c03name(cc, rr), exp[p], got))
				}
				exp[p] = got // report every deviation once
			}
		}
	}
	return fails
}

// frameStyles: the style of every watched position outside cx.styleTargets is what it was before the op
// (GetCellStyle is not redirected, so this is a statement about the cells themselves).
func (cx *c03ctx) frameStyles(ln int, ps []c03pos, what string) {
	allowed := map[c03pos]bool{}
	for _, t := range cx.styleTargets {
		allowed[t] = true
	}
	cx.styleTargets = nil
	if cx.prevSty == nil || cx.lastSty == nil {
		return
	}
	for _, p := range ps {
		b, ok1 := cx.prevSty[p]
		a, ok2 := cx.lastSty[p]
		if ok1 && ok2 && a != b && !allowed[p] {
			cx.r.Fail("frame:"+what+"-changed-other-style", fmt.Sprintf("%s changed the style of %s: %d -> %d", what, c03name(p.c, p.r), b, a), ln, cx.replay())
		}
	}
}

// frameMerges: normalising / unmerging must not change what any position outside all (old and new)
// merged ranges reads; inside them a read is redirected, so it may change with the range list.
func (cx *c03ctx) frameMerges(ln int, ps []c03pos, before, after map[c03pos]string, rep [][4]int, what string) {
	for _, p := range ps {
		if before[p] == after[p] {
			continue
		}
		inside := false
		for _, q := range append(append([][4]int{}, cx.merges...), rep...) {
			if c03inRect(q, p.c, p.r) {
				inside = true
			}
		}
		if !inside {
			cx.r.Fail("frame:"+what+"-changed-other-cell", fmt.Sprintf("%s changed %s: %s -> %s", what, c03name(p.c, p.r), before[p], after[p]), ln, cx.replay())
		}
	}
}

// c03dumpCells parses the non-blank stored cells of a dump: reference -> content token
func c03dumpCells(d string) map[string]string {
	m := map[string]string{}
	i := strings.LastIndex(d, " M=")
	if i < 0 {
		return m
	}
	for _, w := range strings.Fields(d[:i]) {
		if k := strings.Index(w, "="); k > 0 && w[0] >= 'A' && w[0] <= 'Z' {
			m[w[:k]] = w[k+1:]
		}
	}
	return m
}

// checkReported: reported ranges pairwise disjoint; nothing previously merged is lost (unless unmerged); after
// UnmergeCell(q) no reported range intersects q.
func (cx *c03ctx) checkReported(ln int, rep [][4]int, unmerged *[4]int) {
	r := cx.r
	for i := range rep {
		for j := i + 1; j < len(rep); j++ {
			if c03intersect(rep[i], rep[j]) {
				r.Fail("merge:reported-overlap", fmt.Sprintf("reported merged ranges %s and %s overlap", c03rectRef(rep[i]), c03rectRef(rep[j])), ln, cx.replay())
			}
		}
	}
	if unmerged != nil {
		for _, q := range rep {
			if c03intersect(q, *unmerged) {
				r.Fail("unmerge:overlapping-range-kept", fmt.Sprintf("UnmergeCell(%s) kept the intersecting range %s", c03rectRef(*unmerged), c03rectRef(q)), ln, cx.replay())
			}
		}
		// theorem unmerge_exact_on_disjoint: on a pairwise-disjoint stored list UnmergeCell(q) leaves exactly
		// the entries that do not intersect q, in their order (nothing rebuilt, nothing else dropped)
		disjoint := true
		for i := range cx.merges {
			for j := i + 1; j < len(cx.merges); j++ {
				if c03intersect(cx.merges[i], cx.merges[j]) {
					disjoint = false
				}
			}
		}
		if disjoint {
			var want [][4]int
			for _, m := range cx.merges {
				if !c03intersect(m, *unmerged) {
					want = append(want, m)
				}
			}
			same := len(want) == len(rep)
			for i := 0; same && i < len(want); i++ {
				same = want[i] == rep[i]
			}
			if !same {
				r.Fail("unmerge:disjoint-not-exact", fmt.Sprintf("UnmergeCell(%s) on the disjoint list %v left %v, want %v", c03rectRef(*unmerged), cx.merges, rep, want), ln, cx.replay())
			}
			if len(want) == len(cx.merges) {
				r.Stat("unmerge:disjoint-list:none-removed")
			} else {
				r.Stat("unmerge:disjoint-list:some-removed")
			}
		} else {
			r.Stat("unmerge:overlapping-list")
		}
		return
	}
	// two overlapping ranges normalise to exactly their bounding box (the one-pass defect needs three)
	if len(cx.merges) == 2 && c03intersect(cx.merges[0], cx.merges[1]) {
		a, b := cx.merges[0], cx.merges[1]
		bb := [4]int{min(a[0], b[0]), min(a[1], b[1]), max(a[2], b[2]), max(a[3], b[3])}
		if len(rep) != 1 || rep[0] != bb {
			var got []string
			for _, q := range rep {
				got = append(got, c03rectRef(q))
			}
			r.Fail("merge:pair-not-bounding-box", fmt.Sprintf("overlapping ranges %s and %s normalise to %v, want %s", c03rectRef(a), c03rectRef(b), got, c03rectRef(bb)), ln, cx.replay())
		}
		return
	}
	for _, old := range cx.merges {
		covered := false
		for _, q := range rep {
			if c03inRect(q, old[0], old[1]) && c03inRect(q, old[2], old[3]) {
				covered = true
			}
		}
		if !covered {
			r.Fail("merge:range-lost", fmt.Sprintf("merged range %s is not contained in any reported range after normalisation", c03rectRef(old)), ln, cx.replay())
		}
	}
}

func (cx *c03ctx) inAnyRange(c, r int) bool {
	for _, q := range cx.merges {
		if c03inRect(q, c, r) {
			return true
		}
	}
	return false
}

func c03rectRef(q [4]int) string { return c03name(q[0], q[1]) + ":" + c03name(q[2], q[3]) }

// classify a new rectangle against the reference list (rectangle algebra class, for statistics)
func (cx *c03ctx) classify(q [4]int) string {
	cls := "disjoint"
	for _, o := range cx.merges {
		switch {
		case q == o:
			return "equal"
		case c03inRect(o, q[0], q[1]) && c03inRect(o, q[2], q[3]):
			return "inside"
		case c03inRect(q, o[0], o[1]) && c03inRect(q, o[2], o[3]):
			return "contains"
		case c03intersect(q, o):
			corner := c03inRect(o, q[0], q[1]) || c03inRect(o, q[2], q[1]) || c03inRect(o, q[0], q[3]) || c03inRect(o, q[2], q[3]) ||
				c03inRect(q, o[0], o[1]) || c03inRect(q, o[2], o[1]) || c03inRect(q, o[0], o[3]) || c03inRect(q, o[2], o[3])
			if corner {
				cls = "corner-overlap"
			} else {
				return "cross"
			}
		case cls == "disjoint" && (q[0] == o[2]+1 || o[0] == q[2]+1 || q[1] == o[3]+1 || o[1] == q[3]+1):
			cls = "touching"
		}
	}
	return cls
}

// ---------------------------------------------------------------- generator

type c03gen struct {
	rng    *Rng
	cx     *c03ctx
	known  [][4]int // rectangles issued in this transcript
	farRow bool     // far transcripts stay in one family (last columns or last rows): the merge
	// normalisation allocates (max column) x (max row) pointers, 128 GiB for a range near XFD1048576
}

func (g *c03gen) spell(c, r int) string {
	n := c03name(c, r)
	switch g.rng.Intn(12) {
	case 0:
		return strings.ToLower(n)
	case 1:
		return c03mixCase(n)
	}
	return n
}

func (g *c03gen) pos(mode int) (int, int) {
	rng := g.rng
	if mode == 2 {
		k := rng.Intn(4)
		switch {
		case k == 0 && !g.farRow:
			return 16384, rng.Range(1, 3)
		case k == 1 && !g.farRow:
			return rng.Range(16382, 16384), rng.Range(1, 2)
		case k == 0:
			return rng.Range(1, 3), 1048576
		case k == 1:
			return rng.Range(1, 2), rng.Range(1048574, 1048576)
		}
		// XFD1048576 itself is only written in a witness transcript on a fresh sheet: prepareSheetXML gives every
		// appended row the capacity of the last row's cell slice, so a write in a far column followed by a write in
		// a far row asks for rows x columns cell structs (terabytes) — the harness would be killed.
		return rng.Range(1, 4), rng.Range(1, 4)
	}
	// just inside / outside an existing range
	if len(g.known) > 0 && rng.Chance(35) {
		q := g.known[rng.Intn(len(g.known))]
		c := rng.Pick2([]int{q[0] - 1, q[0], q[0] + 1, q[2] - 1, q[2], q[2] + 1})
		r := rng.Pick2([]int{q[1] - 1, q[1], q[1] + 1, q[3] - 1, q[3], q[3] + 1})
		if c >= 1 && r >= 1 {
			return c, r
		}
	}
	return rng.Range(1, 8), rng.Range(1, 10)
}

var c03strings = []string{"", "a", "hello", " lead", "trail ", "tab\there", "line\nbreak", "<&>\"'", "ünï©ødé", "日本語", "1", "1.5", "TRUE", "=1+1",
	"x_y", "_x", "x005F", "'quoted", "0012", "1e5", "  ", "\r\n", "_x0041_", "_x005F_", "_x005F_x0041_", "a_x000D_b", "ctl\x01\x1f",
	// lower- and mixed-case hex escapes (bstrUnmarshal decodes them, so writing must protect them): followed by
	// `_`, by another escape, by a control character, at the end of the string
	"_x000a_", "id_xabcd_suffix", "_xAbCd_", "_x000a__x000d_", "_x00e9__", "a_xabcd_\x01", "_x005f_x000a_", "_xabcd", "x_x00Af_", "_x000A__xabCD_\x1f", "_x005f_"}

func (g *c03gen) payload() string {
	rng := g.rng
	switch rng.Intn(16) {
	case 0, 1, 2:
		n := []int64{0, 1, -1, 42, 255, 256, -128, 127, 32767, 65535, 2147483647, -2147483648, 9223372036854775807, -9223372036854775808, 1234567890123}[rng.Intn(15)]
		vari := []string{"", "val", "i64"}[rng.Intn(3)]
		switch {
		case n >= -128 && n <= 127 && rng.Chance(30):
			vari = "i8"
		case n >= -32768 && n <= 32767 && rng.Chance(30):
			vari = "i16"
		case n >= -2147483648 && n <= 2147483647 && rng.Chance(30):
			vari = "i32"
		}
		s := "int"
		if vari != "" {
			s += "." + vari
		}
		return fmt.Sprintf("val %s CELL %d", s, n)
	case 3:
		n := []uint64{0, 1, 255, 65535, 4294967295, 18446744073709551615, 77}[rng.Intn(7)]
		vari := []string{"", "val", "u64"}[rng.Intn(3)]
		switch {
		case n <= 255 && rng.Chance(30):
			vari = "u8"
		case n <= 65535 && rng.Chance(30):
			vari = "u16"
		case n <= 4294967295 && rng.Chance(30):
			vari = "u32"
		}
		s := "uint"
		if vari != "" {
			s += "." + vari
		}
		return fmt.Sprintf("val %s CELL %d", s, n)
	case 4:
		b := "0"
		if rng.Bool() {
			b = "1"
		}
		s := "bool"
		if rng.Bool() {
			s = "bool.val"
		}
		return fmt.Sprintf("val %s CELL %s", s, b)
	case 5, 6:
		xs := []float64{0, 1, -1, 0.1, 1.0 / 3, 1e21, 1e-7, 123456.789, math.MaxFloat64, math.SmallestNonzeroFloat64, -2.5, 1e15 + 0.5, 100}
		x := xs[rng.Intn(len(xs))]
		if rng.Chance(30) {
			x = (rng.F64() - 0.5) * math.Pow(10, float64(rng.Range(-8, 12)))
		}
		prec, bs, val := -1, 64, ""
		switch rng.Intn(5) {
		case 0:
			prec = rng.Range(0, 6)
		case 1:
			bs = 32
			x = float64(float32(x))
			if math.IsInf(x, 0) {
				x = 1.5
			}
		case 2:
			val = "_val"
		case 3:
			val, bs = "_val", 32
			x = float64(float32(x))
			if math.IsInf(x, 0) {
				x = 1.5
			}
		}
		return fmt.Sprintf("set float.%x_%d_%d%s CELL tv ~ %s", math.Float64bits(x), prec, bs, val, hx(strconv.FormatFloat(x, 'f', prec, bs)))
	case 7, 8, 9, 10:
		s := c03strings[rng.Intn(len(c03strings))]
		if rng.Chance(20) {
			s = fmt.Sprintf("s%d", rng.Intn(6)) // repeated strings: shared-string dedup
		}
		vari := []string{"", "", ".val", ".bytes"}[rng.Intn(4)]
		return fmt.Sprintf("val str%s CELL %s", vari, hx(s))
	case 11:
		return "val nil CELL ~"
	case 12:
		s := []string{"", "12", "-3.5", "abc", "1e3", "0x1F", " 7", "2024-01-01", "1,5", "00"}[rng.Intn(10)]
		switch {
		case s == "":
			return "set dflt CELL clr ~ ~"
		case xl.VerifIsNumeric(s):
			return fmt.Sprintf("set dflt CELL num %s ~", hx(s))
		}
		return fmt.Sprintf("set dflt CELL inl %s ~", hx(s))
	case 13:
		s := []string{"rich", "ab", "hello world", "R1"}[rng.Intn(4)]
		return fmt.Sprintf("set rich CELL sst %s ~", "R"+hx(s))
	default:
		s := c03strings[rng.Intn(len(c03strings))]
		return fmt.Sprintf("val str CELL %s", hx(s))
	}
}

// timeLine builds a `time`/`dur` op: the stored text is whatever the implementation produces on a scratch file
// (time/duration *conversion* is C19's); the op checks where it is stored.
func (g *c03gen) timeLine(cell string) (line string) {
	defer func() {
		if p := recover(); p != nil {
			line = ""
		}
	}()
	rng := g.rng
	scratch := xl.NewFile()
	defer scratch.Close()
	var word, spec string
	if rng.Chance(60) {
		sec := []int64{0, 86400 * 365 * 30, 1700000000, 1700006400 - 1700006400%86400, -2208988800 - 86400*400, 951782400}[rng.Intn(6)]
		_ = scratch.SetCellValue("Sheet1", "A1", time.Unix(sec, 0).UTC())
		word, spec = "time", strconv.FormatInt(sec, 10)
	} else {
		d := []time.Duration{time.Hour, 90 * time.Minute, 36 * time.Hour, 1500 * time.Millisecond, 0}[rng.Intn(5)]
		_ = scratch.SetCellValue("Sheet1", "A1", d)
		word, spec = "dur", strconv.FormatInt(int64(d), 10)
	}
	res, _ := xl.VerifC03GetCell(scratch, "Sheet1", "A1")
	// A1=<s>,<t>,<v>,<is>,<f>
	parts := strings.Split(res[strings.Index(res, "=")+1:], ",")
	if len(parts) != 5 {
		return ""
	}
	switch {
	case parts[1] == "~" && parts[2] != "-":
		return fmt.Sprintf("%s %s num %s ~ ~ %s", word, hx(cell), parts[2], spec)
	case parts[1] == "inlineStr":
		return fmt.Sprintf("%s %s inl %s ~ ~ %s", word, hx(cell), parts[3], spec)
	}
	return fmt.Sprintf("%s %s clr ~ ~ ~ %s", word, hx(cell), spec)
}

func (g *c03gen) rect(mode int) [4]int {
	rng := g.rng
	if mode == 2 {
		switch {
		case g.farRow && rng.Bool():
			return [4]int{1, 1048575, 1, 1048576}
		case g.farRow:
			return [4]int{1, 1048574, 2, 1048575}
		case rng.Bool():
			return [4]int{16383, 1, 16384, 2}
		}
		return [4]int{16380, 1, 16384, 1}
	}
	if len(g.known) > 0 && rng.Chance(75) {
		o := g.known[rng.Intn(len(g.known))]
		w, h := o[2]-o[0]+1, o[3]-o[1]+1
		var q [4]int
		switch rng.Intn(9) {
		case 0: // disjoint, far
			q = [4]int{o[2] + 2, o[3] + 2, o[2] + 2 + rng.Intn(3), o[3] + 2 + rng.Intn(3)}
		case 1: // touching on the right / below
			if rng.Bool() {
				q = [4]int{o[2] + 1, o[1], o[2] + 1 + rng.Intn(2), o[3]}
			} else {
				q = [4]int{o[0], o[3] + 1, o[2], o[3] + 1 + rng.Intn(2)}
			}
		case 2: // corner overlap
			q = [4]int{o[2], o[3], o[2] + 1 + rng.Intn(2), o[3] + 1 + rng.Intn(2)}
		case 3: // corner overlap top-left
			q = [4]int{o[0] - 1 - rng.Intn(2), o[1] - 1 - rng.Intn(2), o[0], o[1]}
		case 4: // cross
			q = [4]int{o[0] - 1, o[1] + h/2, o[2] + 1, o[1] + h/2}
			if h == 1 {
				q = [4]int{o[0] + w/2, o[1] - 1, o[0] + w/2, o[3] + 1}
			}
		case 5: // inside
			q = [4]int{o[0] + rng.Intn(w), o[1] + rng.Intn(h), o[2], o[3]}
		case 6: // contains
			q = [4]int{o[0] - rng.Intn(2), o[1] - rng.Intn(2), o[2] + rng.Intn(2), o[3] + rng.Intn(2)}
		case 7: // equal
			q = o
		default: // chain: a thin bar leaving through one side
			if rng.Bool() {
				q = [4]int{o[2], o[1], o[2] + 2 + rng.Intn(3), o[1]}
			} else {
				q = [4]int{o[0], o[3], o[0], o[3] + 2 + rng.Intn(3)}
			}
		}
		for i := range q {
			if q[i] < 1 {
				q[i] = 1
			}
		}
		if q[0] > q[2] {
			q[0], q[2] = q[2], q[0]
		}
		if q[1] > q[3] {
			q[1], q[3] = q[3], q[1]
		}
		if q[2] <= 30 && q[3] <= 40 {
			return q
		}
	}
	c, r := rng.Range(1, 7), rng.Range(1, 9)
	return [4]int{c, r, c + rng.Intn(3), r + rng.Intn(3)}
}

func (g *c03gen) rectCells(q [4]int) (string, string) {
	a, b := g.spell(q[0], q[1]), g.spell(q[2], q[3])
	switch g.rng.Intn(6) {
	case 0: // reversed corners
		return b, a
	case 1: // other diagonal
		return g.spell(q[2], q[1]), g.spell(q[0], q[3])
	}
	return a, b
}

func (g *c03gen) transcript(mode, nOps int) {
	rng, cx := g.rng, g.cx
	g.known = nil
	g.farRow = rng.Bool()
	nStyles := rng.Range(1, 4)
	cx.exec(fmt.Sprintf("new %d", nStyles))
	cx.r.Stat(fmt.Sprintf("transcript:mode%d", mode))
	for i := 0; i < nOps; i++ {
		c, r := g.pos(mode)
		cell := g.spell(c, r)
		k := rng.Intn(100)
		mergeW := 12
		if mode == 1 {
			mergeW = 35
		}
		switch {
		case k < mergeW:
			q := g.rect(mode)
			a, b := g.rectCells(q)
			cx.exec(fmt.Sprintf("mrg %s %s", hx(a), hx(b)))
			g.known = append(g.known, q)
		case k < mergeW+6:
			cx.exec("gm")
		case k < mergeW+11:
			q := g.rect(mode)
			if len(g.known) > 0 && rng.Chance(50) {
				q = g.known[rng.Intn(len(g.known))]
			}
			a, b := g.rectCells(q)
			cx.exec(fmt.Sprintf("unm %s %s", hx(a), hx(b)))
		case k < mergeW+17:
			fm := []string{"1+1", "SUM(A1:B2)", "A1", "", "\"x\"&\"y\""}[rng.Intn(5)]
			t := "~"
			if fm != "" {
				t = hx(fm)
			}
			cx.exec(fmt.Sprintf("frm %s %s", hx(cell), t))
		case k < mergeW+24:
			c2, r2 := c+rng.Intn(3), r+rng.Intn(3)
			if mode == 2 {
				c2, r2 = c, r
			}
			if c2 > 16384 {
				c2 = 16384
			}
			if r2 > 1048576 {
				r2 = 1048576
			}
			id := rng.Intn(nStyles)
			if rng.Chance(12) {
				id = rng.Pick2([]int{-1, nStyles, nStyles + 5})
			}
			a, b := cell, g.spell(c2, r2)
			if rng.Chance(20) {
				a, b = b, a
			}
			cx.exec(fmt.Sprintf("sty %s %s %d", hx(a), hx(b), id))
		case k < mergeW+27:
			cx.exec("gsty " + hx(cell))
		case k < mergeW+33:
			cx.exec("get " + hx(cell))
		case k < mergeW+37:
			n := rng.Range(1, 5)
			dir := "r"
			if rng.Bool() {
				dir = "c"
			}
			var sb strings.Builder
			for j := 0; j < n; j++ {
				switch rng.Intn(5) {
				case 0:
					sb.WriteString(" int " + strconv.Itoa(rng.Range(-5, 500)))
				case 1:
					sb.WriteString(" bool " + strconv.Itoa(rng.Intn(2)))
				case 2:
					sb.WriteString(" str " + hx(c03strings[rng.Intn(len(c03strings))]))
				case 3:
					sb.WriteString(" uint " + strconv.Itoa(rng.Range(0, 70000)))
				default:
					sb.WriteString(" nil ~")
				}
			}
			cx.exec(fmt.Sprintf("vseq %s %s %d%s", dir, hx(cell), n, sb.String()))
		case k < mergeW+40:
			if l := g.timeLine(cell); l != "" {
				cx.exec(l)
			}
		case k < mergeW+46:
			switch rng.Intn(4) {
			case 0:
				cx.exec("hlget " + hx(cell))
			case 1:
				cx.exec("hlrm " + hx(cell))
				cx.exec("hlget " + hx(cell))
			default:
				cx.exec(fmt.Sprintf("hl %s %s", hx(cell), hx(fmt.Sprintf("Sheet1!A%d", rng.Range(1, 9)))))
				// read back through the other spellings of the same cell, and at another position
				cx.exec("hlget " + hx(c03name(c, r)))
				cx.exec("hlget " + hx(strings.ToLower(c03name(c, r))))
				c2, r2 := g.pos(mode)
				cx.exec("hlget " + hx(g.spell(c2, r2)))
			}
		default:
			cx.exec(strings.Replace(g.payload(), "CELL", hx(cell), 1))
		}
		if i%10 == 9 && !cx.isFar && cx.box[0] != 0 {
			cx.exec(fmt.Sprintf("obs %d %d %d %d", max(1, cx.box[0]-2), max(1, cx.box[1]-2), cx.box[2]+2, cx.box[3]+2))
		}
	}
	if !cx.isFar && cx.box[0] != 0 {
		cx.exec(fmt.Sprintf("obs %d %d %d %d", max(1, cx.box[0]-2), max(1, cx.box[1]-2), cx.box[2]+2, cx.box[3]+2))
		// style observation perturbs the grid (GetCellStyle densifies): done last, as explicit ops
		for j := 0; j < 4; j++ {
			cx.exec("gsty " + hx(c03name(rng.Range(cx.box[0], cx.box[2]+1), rng.Range(cx.box[1], cx.box[3]+1))))
		}
	} else {
		var fs []c03pos
		for p := range cx.far {
			fs = append(fs, p)
		}
		sort.Slice(fs, func(i, j int) bool { return fs[i].r < fs[j].r || (fs[i].r == fs[j].r && fs[i].c < fs[j].c) })
		for _, p := range fs {
			cx.exec("get " + hx(c03name(p.c, p.r)))
		}
	}
}

// deterministic witnesses: reconnaissance patterns and boundary cases, run on every seed
var c03witnesses = [][]string{
	{"new 1", "mrg C1 C3", "mrg A3 A4", "mrg A4 D4", "gm"},                                   // one-pass normalisation leaves an overlap
	{"new 1", "mrg A1 C3", "mrg D2 E4", "mrg B4 D5", "gm"},                                   // ... or drops a range
	{"new 1", "mrg B2 D2", "mrg C1 C3", "gm", "unm C1 C1", "gm"},
	// two small ranges in opposite far corners: the old normalisation reserved 16384 x 1048576 pointers
	// (far rows first: prepareSheetXML sizes new rows after the last row's cell count)
	{"new 1", "mrg A1048575 B1048576", "mrg XFC1 XFD2", "gm", "unm XFD1 XFD1", "gm"},
	{"new 1", "mrg B2 C3", "mrg C3 E5", "gm"},                                                // a pair normalises to its bounding box
	{"new 1", "mrg C3 E5", "mrg B2 C3", "gm"},
	{"new 1", "mrg B4 C5", "mrg C2 E4", "gm"},                             // cross
	{"new 1", "mrg A2 C2", "unm B1 B3", "gm"},                                                // unmerge by a crossing range
	{"new 2", "set str A1 sst " + c03tokS("anchor") + " ~", "set int B2 tv ~ " + hx("7"), "mrg A1 B2", "get B2", "set str b2 sst " + c03tokS("via b2") + " ~", "get A1", "obs 1 1 3 3"},
	{"new 1", "hl b2 " + hx("Sheet1!A40"), "hlget B2", "hl C3 " + hx("Sheet1!A1"), "hl c3 " + hx("Sheet1!A2"), "hlget C3", "hlget c3", "hlrm C3", "hlget c3", "hlget $b$2"}, // no merged cells: spellings still denote one cell
	{"new 1", "scn sharedsi 0", "scn sharedsi 1"},
	{"new 1", "mrg A1 B2", "TIME B2", "gsty A1", "gsty B2"},                                  // date style lands on the raw cell
	{"new 1", "mrg A1 B2", "hl B2 " + hx("Sheet1!C3"), "hlget A1", "hlget b2", "hlget $A$2", "hlget C1", "hl a1 " + hx("Sheet1!D4"), "hlget B1",
		"hl C1 " + hx("x"), "unm A1 A1", "hlget B2", "hlget A1", "hlrm A1", "hlget A1", "hlget C1", "hlrm XFE1", "hlget A0"},                                       // hyperlink read is not redirected
	{"new 1", "frm A1 " + hx("1+1"), "TIME A1", "frm B1 " + hx("2+2"), "set rich B1 sst R" + hx("rt") + " ~"},
	{"new 1", "set str A1 sst " + c03tokS("_x0041_") + " ~", "set str A2 sst " + c03tokS("_x005F_x0041_") + " ~", "set str A3 sst " + c03tokS("a\x01b_x000D_") + " ~", "get A1", "get A2"},                                           // C01's look-alike
	{"new 1", "set str.x5 A1 sst " + c03tokS(strings.Repeat("y", 32767)) + " ~", "set str A2 sst " + c03tokS(strings.Repeat("é", 32767)) + " ~"},
	{"new 1", "set int XFD1048576 tv ~ " + hx("1"), "get XFD1048576", "get XFD1048575", "get A1", "set int A1048576 tv ~ " + hx("2"), "get A1048576"},
	{"new 1", "set int XFE1 tv ~ " + hx("1"), "set int A1048577 tv ~ " + hx("1"), "set int A0 tv ~ " + hx("1"), "mrg A1 XFE2", "sty A1 A0 0", "get $A$1", "get A01", "frm 1A " + hx("1")},
	{"new 1", "seq r XFC1 4 int.val tv ~ " + hx("1") + " int.val tv ~ " + hx("2") + " int.val tv ~ " + hx("3") + " int.val tv ~ " + hx("4")},
	{"new 1", "vseq r XFC1 4 int 1 str " + hx("two") + " bool 1 nil ~", "vseq c B1048575 3 int 7 uint 8 str " + hx("_x0041_"), "vseq r A1 3 str - int -1 nil ~"},
	{"new 1", "seq c A1048575 3 int.val tv ~ " + hx("1") + " int.val tv ~ " + hx("2") + " int.val tv ~ " + hx("3")},
	{"new 2", "sty B2 C3 5", "sty C3 B2 1", "sty B2 B2 -1", "set int B2 tv ~ " + hx("5"), "gsty B2", "set dflt.nil B2 clr ~ ~", "gsty B2"},
	{"new 1", "val str A1 " + hx(strings.Repeat("y", 32772)), "val str A2 " + hx(strings.Repeat("é", 32767)+"zz"), "val str A3 " + hx("_x0041_"),
		"val str A4 " + hx("_x0041_"), "val int B1 -9223372036854775808", "val uint B2 18446744073709551615", "val bool B3 1", "val nil A3 ~", "val str B4 -"},
	{"new 1", "set dflt A1 inl " + hx("abc") + " ~", "set dflt A1 num " + hx("5") + " ~", "set int A1 tv ~ " + hx("6")},
}

// witness lines use plain cell names; encode them
func c03encodeWitness(g *c03gen, line string) string {
	w := strings.Fields(line)
	enc := func(i int) {
		if i < len(w) {
			w[i] = hx(w[i])
		}
	}
	switch w[0] {
	case "mrg", "unm", "sty":
		enc(1)
		enc(2)
	case "set", "seq", "val", "vseq":
		enc(2)
	case "get", "gsty", "frm", "hl", "hlget", "hlrm":
		enc(1)
	case "TIME":
		// 2023-11-14T22:13:20Z; the serial text is C19's subject, fixed here
		return fmt.Sprintf("time %s num %s ~ ~ 1700000000", hx(w[1]), hx("45244.92592592593"))
	}
	return strings.Join(w, " ")
}

func runC03(r *Run, rng *Rng, replay string) {
	r.Rule = "one case = one executed op of a transcript (distinct by transcript index, position in it and op text); non-trivial = the implementation accepted the op (no error), i.e. it reached the grid/merge logic; every mutating op carries the full internal dump compared with the model"
	cx := &c03ctx{r: r, far: map[c03pos]bool{}}
	defer func() {
		if cx.f != nil {
			cx.f.Close()
		}
	}()
	if replay != "" {
		for _, line := range readLines(replay) {
			line = strings.TrimSpace(line)
			if line == "" || strings.HasPrefix(line, "#") {
				continue
			}
			if cx.f == nil && !strings.HasPrefix(line, "new") {
				cx.exec("new 4")
			}
			cx.exec(line)
		}
		return
	}
	g := &c03gen{rng: rng, cx: cx}
	for _, wt := range c03witnesses {
		for _, l := range wt {
			cx.exec(c03encodeWitness(g, l))
		}
		r.Stat("transcript:witness")
	}
	thorough := r.Tier == "thorough"
	nT, nOps := 220, 28
	if thorough {
		nT, nOps = 2500, 40
	}
	for t := 0; t < nT; t++ {
		mode := 0
		switch {
		case t%3 == 1:
			mode = 1
		case t%97 == 5 || (thorough && t%61 == 7):
			mode = 2
		}
		n := nOps
		if mode == 2 {
			n = 8
		}
		t0 := time.Now()
		if os.Getenv("C03_DEBUG") != "" {
			fmt.Fprintf(os.Stderr, "c03: transcript %d mode %d line %d\n", t, mode, r.N)
		}
		g.transcript(mode, n)
		if d := time.Since(t0); d > 5*time.Second {
			r.Notes = append(r.Notes, fmt.Sprintf("slow transcript %d (mode %d): %.1fs", t, mode, d.Seconds()))
			fmt.Fprintf(os.Stderr, "c03: slow transcript %d (mode %d): %.1fs\n", t, mode, d.Seconds())
		}
	}
	// shared-formula histories (scratch files, oracle only)
	cx.exec("new 1")
	nSh := 40
	if thorough {
		nSh = 400
	}
	cx.exec("shh 1 12") // deterministic: covers both known deviations
	cx.exec("shh 2 12")
	cx.exec("shh 3 12")
	cx.exec("shh 246163 20") // a plain formula on an orphaned dependent (its master was cleared before)
	for i := 0; i < nSh; i++ {
		cx.exec(fmt.Sprintf("shh %d %d", rng.U64()%1000000, rng.Range(6, 30)))
	}
	// malformed stream
	cx.exec("new 2")
	bad := []string{"", "A", "1", "A0", "A-1", "XFE1", "A1048577", "AAAA1", "A1:B2", "Sheet1!A1", "é1", "A 1", "A1 ", "$A$1", "A$1", "a1", "A01", "A+1", "1A", "A1A"}
	for i := 0; i < 60; i++ {
		s := bad[rng.Intn(len(bad))]
		switch rng.Intn(7) {
		case 0:
			cx.exec(fmt.Sprintf("set int %s tv ~ %s", hx(s), hx("1")))
		case 1:
			cx.exec(fmt.Sprintf("mrg %s %s", hx(s), hx("B2")))
		case 2:
			cx.exec(fmt.Sprintf("unm %s %s", hx("A1"), hx(s)))
		case 3:
			cx.exec(fmt.Sprintf("sty %s %s %d", hx(s), hx("B2"), rng.Range(-1, 3)))
		case 4:
			cx.exec("get " + hx(s))
		case 5:
			cx.exec("gsty " + hx(s))
		default:
			cx.exec(fmt.Sprintf("frm %s %s", hx(s), hx("1")))
		}
		r.Stat("malformed")
	}
	cx.exec("bogus op")
	for _, s := range r.opsSample(10) {
		if len(s) > 300 {
			s = s[:300] + "…"
		}
		r.Sample(s)
	}
	r.Notes = append(r.Notes, fmt.Sprintf("%d generated transcripts x %d ops (+%d witness transcripts, malformed stream); far transcripts (XFD / row 1048576) are short and observed sparsely", nT, nOps, len(c03witnesses)))
}

func c03mixCase(s string) string {
	b := []byte(s)
	for i := range b {
		if i%2 == 1 && b[i] >= 'A' && b[i] <= 'Z' {
			b[i] |= 0x20
		}
	}
	return string(b)
}
