//go:build verif_c04

package main

// C04 — all read paths agree, and reading never changes the workbook.
//
// Transcript ops (see lean/XlModel/Drv/C04.lean): sheet / rows / cols /
// search / get / vis / style / dump / spec, executed on a real *excelize.File
// opened from a package whose worksheet part is generated from the same sheet
// description the Lean model receives.
//
// Direct oracles (independent of the Lean model):
//   agree:*    GetCellValue vs GetRows vs Rows iterator vs GetCols vs Cols iterator vs
//              SearchSheet, cell by cell, plus the trimming rules of GetRows
//   purity:*   observation (all getters over the used box + margin + far probes) and
//              decoded saved content of a twin that ran a random batch of read-only
//              calls must equal those of a twin that did not
//   nopanic:*  every read-only call returns (value or error) for any argument
//
// Cases are functions of (kind, subseed): `case <kind> <subseed>` replays one.

import (
	"archive/zip"
	"bytes"
	"encoding/xml"
	"fmt"
	"io"
	"os"
	"reflect"
	"runtime/pprof"
	"sort"
	"strconv"
	"strings"

	xl "github.com/xuri/excelize/v2"
)

func init() { props["C04"] = runC04 }

// ---------------------------------------------------------------- sheet description

type c04Cell struct {
	Col, Row int // 0,0 = no r attribute
	Val      string
	F        bool
	Styled   bool
}

type c04Row struct {
	R      int // 0 = no r attribute
	Hidden bool
	Cells  []c04Cell
}

type c04Desc []c04Row

func (d c04Desc) line() string {
	var b strings.Builder
	b.WriteString("sheet")
	for _, r := range d {
		h := 0
		if r.Hidden {
			h = 1
		}
		fmt.Fprintf(&b, " ROW %d %d", r.R, h)
		for _, c := range r.Cells {
			fl := 0
			if c.F {
				fl |= 1
			}
			if c.Styled {
				fl |= 2
			}
			fmt.Fprintf(&b, " C %d %d %d %s", c.Col, c.Row, fl, hx(c.Val))
		}
	}
	return b.String()
}

func c04ParseDesc(w []string) (c04Desc, bool) {
	var d c04Desc
	i := 0
	for i < len(w) {
		if w[i] != "ROW" || i+2 >= len(w) {
			return nil, false
		}
		r, e1 := strconv.Atoi(w[i+1])
		h, e2 := strconv.Atoi(w[i+2])
		if e1 != nil || e2 != nil || r < 0 {
			return nil, false
		}
		row := c04Row{R: r, Hidden: h == 1}
		i += 3
		for i < len(w) && w[i] == "C" {
			if i+4 >= len(w) {
				return nil, false
			}
			c, e1 := strconv.Atoi(w[i+1])
			rr, e2 := strconv.Atoi(w[i+2])
			fl, e3 := strconv.Atoi(w[i+3])
			if e1 != nil || e2 != nil || e3 != nil || c < 0 || rr < 0 || !c04IsHex(w[i+4]) {
				return nil, false
			}
			row.Cells = append(row.Cells, c04Cell{Col: c, Row: rr, Val: unhx(w[i+4]), F: fl&1 == 1, Styled: fl&2 == 2})
			i += 5
		}
		d = append(d, row)
	}
	return d, true
}

func c04IsCanonNum(s string) bool {
	if s == "" || len(s) > 9 {
		return false
	}
	if s == "0" {
		return true
	}
	if s[0] == '0' || s[0] == '.' {
		return false
	}
	dots := 0
	for i := 0; i < len(s); i++ {
		if s[i] == '.' {
			dots++
		} else if s[i] < '0' || s[i] > '9' {
			return false
		}
	}
	if dots > 1 || s[len(s)-1] == '.' || (dots == 1 && s[len(s)-1] == '0') {
		return false
	}
	return true
}

func c04Esc(s string) string {
	var b bytes.Buffer
	_ = xml.EscapeText(&b, []byte(s))
	return b.String()
}

const c04Hdr = `<?xml version="1.0" encoding="UTF-8" standalone="yes"?>` + "\n" + `<worksheet xmlns="http://schemas.openxmlformats.org/spreadsheetml/2006/main"><sheetData>`
const c04Ftr = `</sheetData></worksheet>`

// xml renders the description as a worksheet part. The cell type is a function of the text.
func (d c04Desc) xml(merges []string) string {
	var b strings.Builder
	b.WriteString(c04Hdr)
	for _, r := range d {
		b.WriteString("<row")
		if r.R != 0 {
			fmt.Fprintf(&b, ` r="%d"`, r.R)
		}
		if r.Hidden {
			b.WriteString(` hidden="1"`)
		}
		b.WriteString(">")
		for _, c := range r.Cells {
			b.WriteString("<c")
			if c.Col != 0 {
				name, err := xl.CoordinatesToCellName(c.Col, c.Row)
				if err != nil {
					name = fmt.Sprintf("A%d", c.Row)
				}
				fmt.Fprintf(&b, ` r="%s"`, name)
			}
			if c.Styled {
				b.WriteString(` s="1"`)
			}
			f := ""
			if c.F {
				f = "<f>1+1</f>"
			}
			switch {
			case c.Val == "":
				if f == "" {
					b.WriteString("/>")
				} else {
					b.WriteString(">" + f + "</c>")
				}
			case c04IsCanonNum(c.Val):
				b.WriteString(">" + f + "<v>" + c.Val + "</v></c>")
			case len(c.Val)%2 == 0 && !c.F:
				b.WriteString(` t="inlineStr"><is><t xml:space="preserve">` + c04Esc(c.Val) + "</t></is></c>")
			default:
				b.WriteString(` t="str">` + f + "<v>" + c04Esc(c.Val) + "</v></c>")
			}
		}
		b.WriteString("</row>")
	}
	b.WriteString("</sheetData>")
	if len(merges) > 0 {
		fmt.Fprintf(&b, `<mergeCells count="%d">`, len(merges))
		for _, m := range merges {
			fmt.Fprintf(&b, `<mergeCell ref="%s"/>`, m)
		}
		b.WriteString("</mergeCells>")
	}
	b.WriteString("</worksheet>")
	return b.String()
}

// structure checks on the description (harness-side mirror of the Lean predicates)

func c04EffCols(cells []c04Cell) []int {
	out := make([]int, len(cells))
	cc := 0
	for i, c := range cells {
		if c.Col != 0 {
			cc = c.Col
		} else {
			cc++
		}
		out[i] = cc
	}
	return out
}

func c04EffRows(d c04Desc) []int {
	out := make([]int, len(d))
	cur := 0
	for i, r := range d {
		if r.R != 0 {
			cur = r.R
		} else {
			cur++
		}
		out[i] = cur
	}
	return out
}

// wf: effective rows / columns strictly ascending (Lean: WF), row parts of references consistent
func (d c04Desc) wf() bool {
	er := c04EffRows(d)
	for i, r := range d {
		if i > 0 && er[i] <= er[i-1] {
			return false
		}
		if er[i] > 1048576 {
			return false
		}
		ec := c04EffCols(r.Cells)
		for j, c := range r.Cells {
			if j > 0 && ec[j] <= ec[j-1] {
				return false
			}
			if ec[j] > 16384 {
				return false
			}
			if c.Col != 0 && c.Row != er[i] {
				return false
			}
		}
	}
	return true
}

// r0consistent: in rows without r, a cell without reference sits at its index (what
// checkSheetR0 assumes) — false exactly for the "rless-mixed" shape.
func (d c04Desc) r0consistent() bool {
	for _, r := range d {
		if r.R != 0 {
			continue
		}
		ec := c04EffCols(r.Cells)
		for j, c := range r.Cells {
			if c.Col == 0 && ec[j] != j+1 {
				return false
			}
		}
	}
	return true
}

func (d c04Desc) missingRefs() bool {
	for _, r := range d {
		if r.R == 0 {
			return true
		}
		for _, c := range r.Cells {
			if c.Col == 0 {
				return true
			}
		}
	}
	return false
}

func (d c04Desc) box() (int, int) {
	mr, mc := 0, 0
	er := c04EffRows(d)
	for i, r := range d {
		if er[i] > mr {
			mr = er[i]
		}
		for j, e := range c04EffCols(r.Cells) {
			_ = j
			if e > mc {
				mc = e
			}
		}
	}
	return mc, mr
}

// ---------------------------------------------------------------- package template

var c04Tmpl map[string][]byte
var c04TmplOrder []string

func c04Template() {
	if c04Tmpl != nil {
		return
	}
	f := xl.NewFile()
	st, err := f.NewStyle(&xl.Style{Font: &xl.Font{Bold: true}})
	must(err)
	if st != 1 {
		must(fmt.Errorf("template style id %d", st))
	}
	must(f.SetCellStyle("Sheet1", "A1", "A1", st))
	buf, err := f.WriteToBuffer()
	must(err)
	zr, err := zip.NewReader(bytes.NewReader(buf.Bytes()), int64(buf.Len()))
	must(err)
	c04Tmpl = map[string][]byte{}
	for _, e := range zr.File {
		rc, err := e.Open()
		must(err)
		b, err := io.ReadAll(rc)
		must(err)
		rc.Close()
		c04Tmpl[e.Name] = b
		c04TmplOrder = append(c04TmplOrder, e.Name)
	}
	f.Close()
}

func c04Package(sheetXML string) []byte {
	c04Template()
	var out bytes.Buffer
	zw := zip.NewWriter(&out)
	for _, n := range c04TmplOrder {
		w, err := zw.CreateHeader(&zip.FileHeader{Name: n, Method: zip.Store})
		must(err)
		if n == "xl/worksheets/sheet1.xml" {
			w.Write([]byte(sheetXML))
		} else {
			w.Write(c04Tmpl[n])
		}
	}
	must(zw.Close())
	return out.Bytes()
}

func c04Open(pkg []byte) *xl.File {
	f, err := xl.OpenReader(bytes.NewReader(pkg))
	must(err)
	return f
}

// ---------------------------------------------------------------- canonical output

func c04Grid(g [][]string, err error) string {
	if err != nil {
		return "ERR"
	}
	if len(g) == 0 {
		return "ok ."
	}
	rows := make([]string, len(g))
	for i, r := range g {
		if len(r) == 0 {
			rows[i] = "~"
			continue
		}
		cs := make([]string, len(r))
		for j, c := range r {
			cs[j] = hx(c)
		}
		rows[i] = strings.Join(cs, ",")
	}
	return "ok " + strings.Join(rows, "|")
}

func c04CellOf(g [][]string, c, r int) string {
	if c < 1 || r < 1 || r > len(g) || c > len(g[r-1]) {
		return ""
	}
	return g[r-1][c-1]
}

// call runs fn, converting a panic into ("PANIC", true)
func c04Call(fn func() string) (res string, panicked bool) {
	defer func() {
		if p := recover(); p != nil {
			res, panicked = "PANIC", true
		}
	}()
	return fn(), false
}

func c04Name(c, r int) string {
	n, err := xl.CoordinatesToCellName(c, r)
	if err != nil {
		return fmt.Sprintf("BAD%d_%d", c, r)
	}
	return n
}

// ---------------------------------------------------------------- transcript executor

type c04State struct {
	r       *Run
	f       *xl.File
	desc    c04Desc
	rawRows [][]string // GetRows of the part before the sheet was cached
	replay  []string
}

func (s *c04State) op(line string) (int, string) {
	w := strings.Fields(line)
	res := "bad-op"
	if len(w) > 0 {
		var panicked bool
		res, panicked = c04Call(func() string { return s.exec(w) })
		if panicked && (w[0] == "get" || w[0] == "vis" || w[0] == "style" || w[0] == "dump") {
			// a panic inside workSheetReader leaves f.mu locked: continue on a fresh, uncached
			// copy of the same package (the model keeps the state uncached when caching fails)
			s.f = c04Open(c04Package(s.desc.xml(nil)))
		}
	}
	s.replay = append(s.replay, line)
	return s.r.Op(line, res), res
}

func (s *c04State) exec(w []string) string {
	if w[0] == "mergewit" {
		return c04MergeWit(w[1:])
	}
	if w[0] == "sst" {
		res, _ := c04SST(w[1:])
		return res
	}
	if w[0] == "typed" {
		res, _ := c04Typed(w[1:])
		return res
	}
	if w[0] == "sheet" {
		d, ok := c04ParseDesc(w[1:])
		if !ok {
			return "bad-op"
		}
		if s.f != nil {
			s.f.Close()
		}
		s.desc = d
		s.f = c04Open(c04Package(d.xml(nil)))
		s.rawRows = nil
		n := 0
		for _, r := range d {
			n += len(r.Cells)
		}
		return fmt.Sprintf("ok %d %d", len(d), n)
	}
	if s.f == nil {
		s.f = c04Open(c04Package(c04Desc{}.xml(nil)))
	}
	f := s.f
	atoi := func(i int) (int, bool) {
		if i >= len(w) {
			return 0, false
		}
		n, err := strconv.Atoi(w[i])
		return n, err == nil && n >= 0
	}
	switch w[0] {
	case "rows":
		if len(w) != 1 {
			return "bad-op"
		}
		g, err := f.GetRows("Sheet1")
		return c04Grid(g, err)
	case "cols":
		if len(w) != 1 {
			return "bad-op"
		}
		g, err := f.GetCols("Sheet1")
		return c04Grid(g, err)
	case "search":
		if len(w) != 2 || !c04IsHex(w[1]) {
			return "bad-op"
		}
		res, err := f.SearchSheet("Sheet1", unhx(w[1]))
		if err != nil {
			return "ERR"
		}
		if len(res) == 0 {
			return "ok ."
		}
		out := make([]string, len(res))
		for i, n := range res {
			c, r, _ := xl.CellNameToCoordinates(n)
			out[i] = fmt.Sprintf("%d.%d", c, r)
		}
		return "ok " + strings.Join(out, ",")
	case "get", "style", "spec":
		c, ok1 := atoi(1)
		r, ok2 := atoi(2)
		if len(w) != 3 || !ok1 || !ok2 {
			return "bad-op"
		}
		switch w[0] {
		case "spec":
			if s.rawRows == nil {
				s.rawRows, _ = c04Open(c04Package(s.desc.xml(nil))).GetRows("Sheet1")
			}
			return "ok " + hx(c04CellOf(s.rawRows, c, r))
		case "get":
			v, err := f.GetCellValue("Sheet1", c04Name(c, r))
			if err != nil {
				return "ERR"
			}
			return "ok " + hx(v)
		default:
			if _, err := f.GetCellStyle("Sheet1", c04Name(c, r)); err != nil {
				return "ERR"
			}
			return "ok"
		}
	case "vis":
		r, ok := atoi(1)
		if len(w) != 2 || !ok {
			return "bad-op"
		}
		v, err := f.GetRowVisible("Sheet1", r)
		if err != nil {
			return "ERR"
		}
		if v {
			return "ok 1"
		}
		return "ok 0"
	case "dump":
		if len(w) != 1 {
			return "bad-op"
		}
		out, err := xl.VerifC04Dump(f, "Sheet1")
		if err != nil {
			return "ERR"
		}
		return out
	}
	return "bad-op"
}

func c04IsHex(s string) bool {
	if s == "-" {
		return true
	}
	if len(s)%2 != 0 || s == "" {
		return false
	}
	for i := 0; i < len(s); i++ {
		c := s[i]
		if !(c >= '0' && c <= '9' || c >= 'a' && c <= 'f' || c >= 'A' && c <= 'F') {
			return false
		}
	}
	return true
}

// ---------------------------------------------------------------- generators

var c04Vals = []string{"a", "b", "needle", "x", "yy", "1", "42", "3.5", "100", "<&>", " sp ", "é", "A1", "ab", "(", "[a", "0", "needle", "a"}

func c04GenVal(rng *Rng) string {
	if rng.Chance(22) {
		return ""
	}
	return rng.Pick(c04Vals)
}

func c04GenCells(rng *Rng, effRow int, rowHasR bool, mode int, wf bool) []c04Cell {
	n := rng.Pick2([]int{0, 0, 1, 1, 2, 3, 4, 6})
	var cells []c04Cell
	cc := 0
	for i := 0; i < n; i++ {
		c := c04Cell{Val: c04GenVal(rng)}
		if rng.Chance(15) {
			c.F = true
		}
		if rng.Chance(20) {
			c.Styled = true
		}
		hasRef := mode == 0 || (mode == 2 && rng.Bool())
		if wf {
			step := rng.Pick2([]int{1, 1, 1, 2, 3, 5})
			if !hasRef {
				step = 1
			}
			cc += step
			if rng.Chance(1) {
				cc += 40
				hasRef = true
			}
			if hasRef {
				c.Col, c.Row = cc, effRow
			}
		} else {
			if hasRef {
				c.Col = rng.Range(1, 8)
				c.Row = effRow
				if rng.Chance(25) {
					c.Row = rng.Range(1, 8)
				}
			}
		}
		cells = append(cells, c)
	}
	// rows with unreferenced cells: an empty <c/> between valued ones (the streaming reader's
	// running column advances over it although nothing is appended; checkRow numbers it too)
	if mode != 0 && len(cells) >= 3 && rng.Chance(35) {
		k := 1 + rng.Intn(len(cells)-2)
		cells[k].Val, cells[k].F = "", false
		if cells[0].Val == "" {
			cells[0].Val = rng.Pick(c04Vals)
		}
		if last := len(cells) - 1; cells[last].Val == "" {
			cells[last].Val = rng.Pick(c04Vals)
		}
	}
	_ = rowHasR
	return cells
}

// rlessEmptyBetween: some row has a kept cell without r after an element the streaming reader
// does not append (no value, no formula) — its place depends on the running column having
// advanced over the empty element (Lean: streaming_placement_eq_cached)
func (d c04Desc) rlessEmptyBetween() bool {
	for _, r := range d {
		empty := false
		for _, c := range r.Cells {
			live := c.Val != "" || c.F
			if live && c.Col == 0 && empty {
				return true
			}
			if !live {
				empty = true
			}
		}
	}
	return false
}

// mode: 0 every reference present, 1 none, 2 mixed
func c04GenDesc(rng *Rng, wf bool) c04Desc {
	mode := rng.Pick2([]int{0, 0, 1, 2, 2})
	nrows := rng.Pick2([]int{0, 1, 1, 2, 3, 4, 5, 7})
	var d c04Desc
	cur := 0
	for i := 0; i < nrows; i++ {
		hasR := mode == 0 || (mode == 2 && rng.Bool())
		row := c04Row{Hidden: rng.Chance(15)}
		if wf {
			step := rng.Pick2([]int{1, 1, 1, 2, 4})
			if !hasR {
				step = 1
			}
			cur += step
			if hasR {
				row.R = cur
			}
		} else {
			if hasR {
				row.R = rng.Range(1, 7)
				cur = row.R
			} else {
				cur++
			}
		}
		cellMode := mode
		if mode == 2 && rng.Chance(50) {
			cellMode = rng.Intn(2)
		}
		row.Cells = c04GenCells(rng, cur, hasR, cellMode, wf)
		d = append(d, row)
	}
	return d
}

// ---------------------------------------------------------------- XML case (transcript + oracles)

func c04Sub(seed uint64, kind string, idx int) uint64 {
	h := seed*0x9E3779B97F4A7C15 + uint64(idx)*0xD1B54A32D192ED03
	for _, ch := range kind {
		h = (h ^ uint64(ch)) * 0x100000001B3
	}
	return h >> 1
}

func (s *c04State) fail(sig, what string, line int) {
	s.r.Fail(sig, what, line, strings.Join(s.replay, "\n"))
}

// xmlCase runs the transcript for one description and the agreement / load-purity oracles.
func c04XMLCase(r *Run, rng *Rng, d c04Desc, tag string) {
	s := &c04State{r: r}
	defer func() {
		if s.f != nil {
			s.f.Close()
		}
	}()
	wf := d.wf()
	r0c := d.r0consistent()
	class := "wf"
	switch {
	case !wf:
		class = "nonwf"
	case !r0c:
		class = "wf-rless-mixed"
	case d.missingRefs():
		class = "wf-missing-r"
	}
	r.Stat("xml:class=" + class)
	if d.rlessEmptyBetween() {
		r.Stat("xml:rless-after-empty:" + class)
	}
	s.op(d.line())
	mc, mr := d.box()
	needles := []string{"needle", "a", "", "1", "("}
	lnRows, rows0 := s.op("rows")
	_, cols0 := s.op("cols")
	search0 := map[string]string{}
	searchLn := map[string]int{}
	for _, n := range needles {
		searchLn[n], search0[n] = s.op("search " + hx(n))
	}
	// Go vs Spec on the raw part: GetRows cell by cell against the grid of effective positions
	if wf {
		for i := 0; i < 6; i++ {
			c, ro := rng.Range(1, mc+1), rng.Range(1, mr+1)
			s.op(fmt.Sprintf("spec %d %d", c, ro))
		}
	}
	// cell reads (the first one caches the sheet)
	type pos struct{ c, r int }
	vals := map[pos]string{}
	loadFailed := false
	var cells []pos
	for ro := 1; ro <= mr+1 && ro <= 12; ro++ {
		for c := 1; c <= mc+1 && c <= 12; c++ {
			cells = append(cells, pos{c, ro})
		}
	}
	if mc > 12 { // far columns: the cells of the description only
		er := c04EffRows(d)
		for i, row := range d {
			for _, e := range c04EffCols(row.Cells) {
				if e > 12 && e <= 16384 && er[i] >= 1 && er[i] <= 1048576 {
					cells = append(cells, pos{e, er[i]})
				}
			}
		}
	}
	for _, p := range cells {
		_, res := s.op(fmt.Sprintf("get %d %d", p.c, p.r))
		if strings.HasPrefix(res, "ok ") {
			vals[p] = unhx(res[3:])
		} else {
			loadFailed = true
		}
	}
	s.op("dump")
	s.op(fmt.Sprintf("vis %d", mr+5))
	s.op(fmt.Sprintf("style %d %d", mc+2, mr+9))
	lnVis, vis2 := s.op(fmt.Sprintf("vis %d", mr+5))
	_, rows1 := s.op("rows")
	_, cols1 := s.op("cols")
	search1 := map[string]string{}
	for _, n := range needles {
		_, search1[n] = s.op("search " + hx(n))
	}
	key := d.line()
	nontrivial := len(d) > 0 && mc > 0
	r.Case("xml:"+key, nontrivial)
	if len(r.Samples) < 4 && nontrivial && rng.Chance(10) {
		r.Sample(key + " => rows " + rows0)
	}
	if !wf {
		// outside the representation invariant: transcript only; count what differs
		if rows0 != rows1 {
			r.Stat("nonwf:rows-differ-after-load")
		}
		if loadFailed {
			r.Stat("nonwf:load-fails")
		}
		return
	}
	sigSuffix := ""
	if !r0c {
		sigSuffix = ":rless-mixed"
	}
	if loadFailed {
		s.fail("nopanic:load"+sigSuffix, "a well-formed sheet ("+tag+") cannot be read cell by cell", 0)
		return
	}
	// --- purity of caching: every streaming reader answers the same before and after
	if rows0 != rows1 {
		s.fail("purity:rows-after-load"+sigSuffix, fmt.Sprintf("GetRows before the sheet is cached %q, after GetCellValue %q", rows0, rows1), lnRows)
	}
	if cols0 != cols1 && !c04ColsEquiv(cols0, cols1) {
		s.fail("purity:cols-after-load"+sigSuffix, fmt.Sprintf("GetCols before %q after %q", cols0, cols1), 0)
	}
	for _, n := range needles {
		if n == "" {
			continue // the empty needle finds empty cell elements; caching adds padding cells (documented in design.d)
		}
		if search0[n] != search1[n] {
			sfx := sigSuffix
			if search0[n] == "ERR" && d.missingRefs() {
				sfx = ":missing-r"
			}
			if search0[n] == "PANIC" {
				continue // reported by nopanic:SearchSheet
			}
			s.fail("purity:search-after-load"+sfx, fmt.Sprintf("SearchSheet(%q) before the sheet is cached %s, after %s", n, search0[n], search1[n]), searchLn[n])
		}
	}
	for _, n := range needles {
		if search0[n] == "PANIC" || search1[n] == "PANIC" {
			s.fail("nopanic:SearchSheet:invalid-regexp-literal", fmt.Sprintf("SearchSheet(%q) (literal search) panics", n), searchLn[n])
		}
	}
	if vis2 != "ok 0" {
		s.fail("purity:getcellstyle-materialises-rows", "GetRowVisible of a row beyond the sheet is false, after GetCellStyle of a farther cell it is true", lnVis)
	}
	// --- agreement, on the cached sheet
	g, err := s.f.GetRows("Sheet1")
	gc, err2 := s.f.GetCols("Sheet1")
	if err != nil || err2 != nil {
		s.fail("agree:reader-error"+sigSuffix, fmt.Sprintf("GetRows/GetCols error on a well-formed sheet: %v %v", err, err2), 0)
		return
	}
	for _, p := range cells {
		gv := vals[p]
		if rv := c04CellOf(g, p.c, p.r); rv != gv {
			s.fail("agree:getrows-vs-getcellvalue"+sigSuffix, fmt.Sprintf("%s: GetCellValue %q, GetRows %q", c04Name(p.c, p.r), gv, rv), 0)
		}
		if cv := c04CellOf(gc, p.r, p.c); cv != gv {
			s.fail("agree:getcols-vs-getcellvalue"+sigSuffix, fmt.Sprintf("%s: GetCellValue %q, GetCols %q", c04Name(p.c, p.r), gv, cv), 0)
		}
	}
	// the raw part agrees with the cached one cell by cell (covered by purity:rows-after-load)
	c04TrimOracle(s, g, d, sigSuffix)
	c04IterOracle(s, g, gc, sigSuffix)
	// SearchSheet: exactly the cells whose value equals the needle
	for _, n := range needles {
		if n == "" || !strings.HasPrefix(search1[n], "ok") {
			continue
		}
		var want []string
		for ro := 1; ro <= len(g); ro++ {
			for c := 1; c <= len(g[ro-1]); c++ {
				if g[ro-1][c-1] == n {
					want = append(want, fmt.Sprintf("%d.%d", c, ro))
				}
			}
		}
		exp := "ok ."
		if len(want) > 0 {
			exp = "ok " + strings.Join(want, ",")
		}
		if exp != search1[n] {
			s.fail("agree:search-vs-getrows"+sigSuffix, fmt.Sprintf("SearchSheet(%q) = %s, cells of GetRows equal to it: %s", n, search1[n], exp), 0)
		}
	}
}

// GetCols of the raw part and of the cached sheet may differ in trailing "" only
// (padding cells added by caching lengthen columns); compare modulo that.
func c04ColsEquiv(a, b string) bool {
	norm := func(s string) string {
		if !strings.HasPrefix(s, "ok") {
			return s
		}
		if s == "ok ." {
			return ""
		}
		cols := strings.Split(s[3:], "|")
		for i, c := range cols {
			if c == "~" {
				c = ""
			}
			parts := strings.Split(c, ",")
			for len(parts) > 0 && (parts[len(parts)-1] == "-" || parts[len(parts)-1] == "") {
				parts = parts[:len(parts)-1]
			}
			cols[i] = strings.Join(parts, ",")
		}
		for len(cols) > 0 && cols[len(cols)-1] == "" {
			cols = cols[:len(cols)-1]
		}
		return strings.Join(cols, "|")
	}
	return norm(a) == norm(b)
}

// trimming: a row of GetRows ends in a non-empty value or a formula cell; the last row is not empty
func c04TrimOracle(s *c04State, g [][]string, d c04Desc, sfx string) {
	if len(g) > 0 && len(g[len(g)-1]) == 0 {
		s.fail("agree:getrows-trailing-empty-row"+sfx, "GetRows ends with an empty row", 0)
	}
	er := c04EffRows(d)
	for i, row := range g {
		if len(row) == 0 || row[len(row)-1] != "" {
			continue
		}
		// must be a formula cell without cached value
		ok := false
		for k, dr := range d {
			if er[k] != i+1 {
				continue
			}
			for j, e := range c04EffCols(dr.Cells) {
				if e == len(row) && dr.Cells[j].F {
					ok = true
				}
			}
		}
		if !ok {
			s.fail("agree:getrows-trailing-empty-cell"+sfx, fmt.Sprintf("row %d of GetRows ends with an empty cell that is not a formula cell", i+1), 0)
		}
	}
}

// the iterators yield what GetRows / GetCols return (plus trailing empty rows)
func c04IterOracle(s *c04State, g, gc [][]string, sfx string) {
	rows, err := s.f.Rows("Sheet1")
	if err != nil {
		s.fail("agree:rows-iterator"+sfx, "Rows() error", 0)
		return
	}
	var it [][]string
	for rows.Next() {
		row, err := rows.Columns()
		if err != nil {
			break
		}
		it = append(it, row)
	}
	rows.Close()
	for len(it) > 0 && len(it[len(it)-1]) == 0 {
		it = it[:len(it)-1]
	}
	if c04Grid(it, nil) != c04Grid(g, nil) {
		s.fail("agree:rows-iterator"+sfx, fmt.Sprintf("Rows iterator %s, GetRows %s", c04Grid(it, nil), c04Grid(g, nil)), 0)
	}
	cols, err := s.f.Cols("Sheet1")
	if err != nil {
		s.fail("agree:cols-iterator"+sfx, "Cols() error", 0)
		return
	}
	var ic [][]string
	for cols.Next() {
		col, _ := cols.Rows()
		ic = append(ic, col)
	}
	if c04Grid(ic, nil) != c04Grid(gc, nil) {
		s.fail("agree:cols-iterator"+sfx, fmt.Sprintf("Cols iterator %s, GetCols %s", c04Grid(ic, nil), c04Grid(gc, nil)), 0)
	}
}

// ---------------------------------------------------------------- API-built / opened states + read batch

type c04Builder func() *xl.File

// recipe builds the same workbook every time it is called
func c04APIRecipe(sub uint64) (c04Builder, string, func(*xl.File)) {
	rng := NewRng(sub)
	type opT struct {
		kind  string
		sheet string
		cell  string
		cell2 string
		sval  string
		fval  float64
		ival  int
	}
	sheets := []string{"Sheet1"}
	if rng.Chance(40) {
		sheets = append(sheets, "S2")
	}
	n := rng.Range(3, 25)
	rects := map[string][][4]int{}
	var ops []opT
	var desc []string
	floats := []float64{1.0000000000000002, 1e21, 0.1, 123456789.123456789, 1234567890123456789, 2.5, -7, 1e-7, 100, 3.14159}
	strs := []string{"a", "needle", "x y", "<&>", "(", "é", "42", " lead", "1E3", "0x10", "Inf", "TRUE"}
	for i := 0; i < n; i++ {
		sh := sheets[rng.Intn(len(sheets))]
		c, ro := rng.Range(1, 7), rng.Range(1, 9)
		if rng.Chance(4) {
			c, ro = rng.Range(1, 40), rng.Range(1, 300)
		}
		cell := c04Name(c, ro)
		o := opT{sheet: sh, cell: cell}
		switch k := rng.Intn(20); {
		case k < 4:
			o.kind, o.sval = "str", rng.Pick(strs)
		case k < 7:
			o.kind, o.fval = "float", floats[rng.Intn(len(floats))]
		case k < 8:
			o.kind, o.ival = "int", rng.Range(-5, 100000)
		case k < 9:
			o.kind = "bool"
		case k < 10:
			o.kind, o.sval = "formula", rng.Pick([]string{"1+1", "SUM(A1:B2)", "A1&\"x\""})
		case k < 11:
			if rng.Bool() {
				// a number cell whose number format renders text (date, literal prefix)
				o.kind, o.fval, o.ival = "fmtnum", float64(rng.Range(1, 45000)), rng.Range(3, 4)
			} else {
				o.kind, o.ival = "style", rng.Range(1, 3) // styled-but-empty (or restyled) cell
			}
		case k < 12:
			// merged ranges stay disjoint (overlapping ranges are outside C03's invariant; the
			// GetMergeCells finding on them is reproduced by the witness "overlap-merge")
			c2, r2 := c+rng.Range(0, 2), ro+rng.Range(0, 2)
			clash := false
			for _, m := range rects[sh] {
				if c <= m[2] && m[0] <= c2 && ro <= m[3] && m[1] <= r2 {
					clash = true
				}
			}
			if clash {
				o.kind, o.sval = "str", "a"
			} else {
				rects[sh] = append(rects[sh], [4]int{c, ro, c2, r2})
				o.kind, o.cell2 = "merge", c04Name(c2, r2)
			}
		case k < 13:
			o.kind, o.ival = "rowhide", ro
		case k < 14:
			o.kind, o.ival, o.fval = "rowheight", ro, float64(rng.Range(5, 60))
		case k < 15:
			o.kind, o.sval = "default", rng.Pick([]string{"1.0000000000000002", "1E3", "0x10", "00012", "1e+21", "12345678901234567890", "Inf", "0.30000000000000004"})
		case k < 16:
			o.kind, o.sval = "link", "https://example.com/" + strconv.Itoa(i)
		case k < 18:
			// rich text: a shared string item made of runs (follows plain items in the table)
			o.kind, o.sval = "rich", rng.Pick([]string{"rich", "needle", "R1", "a"})
		case k < 19:
			// shared formula: master cell with Ref, dependent cells below it
			o.kind, o.cell2, o.sval = "shared", c04Name(c, ro+rng.Range(1, 3)), rng.Pick([]string{"A1+1", "$A$1*B2", "SUM(A1:B1)"})
		default:
			o.kind, o.sval = "str", "plain" + strconv.Itoa(i)
		}
		ops = append(ops, o)
		desc = append(desc, fmt.Sprintf("%s %s!%s %s%s %v %d", o.kind, o.sheet, o.cell, o.cell2, o.sval, o.fval, o.ival))
	}
	build := func() *xl.File {
		f := xl.NewFile()
		for _, s := range sheets[1:] {
			f.NewSheet(s)
		}
		s1, _ := f.NewStyle(&xl.Style{Font: &xl.Font{Bold: true}})
		s2, _ := f.NewStyle(&xl.Style{NumFmt: 2})
		s3, _ := f.NewStyle(&xl.Style{NumFmt: 14})
		xfmt := "\"x\"0"
		s4, _ := f.NewStyle(&xl.Style{CustomNumFmt: &xfmt})
		styles := []int{0, s1, s2, s3, s4}
		for oi, o := range ops {
			o := o
			// a setter that panics is not C04's subject: the op is skipped (identically in every
			// twin) and reported in the run's notes
			func() {
				defer func() {
					if p := recover(); p != nil {
						c04RecipePanics[fmt.Sprintf("%s after [%s]: %v", desc[oi], strings.Join(desc[:oi], "; "), p)] = true
					}
				}()
				c04ApplyOp(f, o.kind, o.sheet, o.cell, o.cell2, o.sval, o.fval, o.ival, styles)
			}()
		}
		return f
	}
	c04Hot = nil
	for _, o := range ops {
		switch o.kind {
		case "rich":
			c04Hot = append(c04Hot, o.sheet+"!"+o.cell)
		case "shared":
			c1, r1, _ := xl.CellNameToCoordinates(o.cell)
			_, r2, _ := xl.CellNameToCoordinates(o.cell2)
			for ro := r1; ro <= r2; ro++ {
				c04Hot = append(c04Hot, o.sheet+"!"+c04Name(c1, ro))
			}
		}
	}
	// writes applied to both twins after the read batch: a read must not influence what a
	// later write followed by a read shows (shared formulas are redefined on their ranges)
	rewrite := func(f *xl.File) {
		for _, o := range ops {
			if o.kind == "shared" {
				t, ref := xl.STCellFormulaTypeShared, o.cell+":"+o.cell2
				f.SetCellFormula(o.sheet, o.cell, o.sval+"+7", xl.FormulaOpts{Type: &t, Ref: &ref})
			}
		}
		f.SetCellValue("Sheet1", "H1", "w")
	}
	return build, strings.Join(desc, "; "), rewrite
}

// hand-written worksheet parts opened from bytes (missing r, gaps, styled-empty cells,
// formulas without cached values, merged ranges with values in covered cells, numerics)
func c04XMLRecipe(sub uint64) (c04Builder, string) {
	c04Hot = nil
	rng := NewRng(sub)
	d := c04GenDesc(rng, true)
	// extra numeric payloads that exercise getValueFrom's default branch
	nums := []string{"1.0000000000000002", "1E3", "12345678901234567890", "0.30000000000000004", "1e+21", "007"}
	extra := ""
	if rng.Chance(50) {
		mc, mr := d.box()
		_ = mc
		extra = fmt.Sprintf(`<row r="%d"><c r="A%d"><v>%s</v></c><c r="B%d" s="1"><v>%s</v></c></row>`, mr+1, mr+1, rng.Pick(nums), mr+1, rng.Pick(nums))
	}
	var merges []string
	if rng.Chance(40) {
		c, ro := rng.Range(1, 3), rng.Range(1, 3)
		merges = append(merges, c04Name(c, ro)+":"+c04Name(c+rng.Range(0, 2), ro+rng.Range(1, 2)))
	}
	x := d.xml(merges)
	x = strings.Replace(x, "</sheetData>", extra+"</sheetData>", 1)
	pkg := c04Package(x)
	return func() *xl.File { return c04Open(pkg) }, "xml " + x[len(c04Hdr):]
}

type c04Read struct {
	name string
	fn   func(f *xl.File) string
}

func c04Fmt(v interface{}, err error) string {
	if err != nil {
		return "ERR"
	}
	return fmt.Sprintf("%+v", c04Deref(v))
}

func c04Deref(v interface{}) interface{} {
	rv := reflect.ValueOf(v)
	for rv.IsValid() && rv.Kind() == reflect.Ptr && !rv.IsNil() {
		rv = rv.Elem()
	}
	if !rv.IsValid() {
		return nil
	}
	if rv.Kind() == reflect.Slice {
		out := make([]interface{}, rv.Len())
		for i := range out {
			out[i] = c04Deref(rv.Index(i).Interface())
		}
		return out
	}
	return rv.Interface()
}

var c04RawOpt = xl.Options{RawCellValue: true}

// one random read-only call with valid or invalid arguments
// c04Hot: cells the current recipe wrote special content to (dependents of shared formulas,
// rich text), as sheet!cell; the read batch visits them with the cell getters
var c04Hot []string

func c04RandomRead(rng *Rng, sheets []string) c04Read {
	sheet := sheets[rng.Intn(len(sheets))]
	if rng.Chance(12) {
		sheet = rng.Pick([]string{"SheetN", "Sheet:1", "", "sheet1", strings.Repeat("x", 40)})
	}
	cell := c04Name(rng.Range(1, 9), rng.Range(1, 11))
	if len(c04Hot) > 0 && rng.Chance(35) {
		h := strings.SplitN(rng.Pick(c04Hot), "!", 2)
		sheet, cell = h[0], h[1]
		k := rng.Pick2([]int{0, 4, 20, 20, 20, 24, 26, 26})
		return c04ReadKind(rng, k, sheet, cell)
	}
	if rng.Chance(25) {
		cell = rng.Pick([]string{"A1000", "AB300", "AZ1", "A600", "A0", "", "XFE1", "A1048577", "a1", "$B$2", "B02", "1A", "A-1", "A1:B2", "é1"})
	}
	row := rng.Pick2([]int{1, 2, 3, 5, 9, 12, 500, 1000, 1048576, 1048577, 0, -1})
	col := rng.Pick([]string{"A", "B", "C", "H", "XFD", "XFE", "", "a", "1", "AAAA", "A1"})
	idx := rng.Pick2([]int{0, 1, 2, 3, 4, 17, -1, 100000})
	needle := rng.Pick([]string{"needle", "a", "", "(", "[a", "1", "42", "x y", "a|b", "^a$", "\\", "*", "é"})
	k := rng.Intn(56)
	mk := func(name string, fn func(f *xl.File) string) c04Read { return c04Read{name, fn} }
	switch k {
	case 0, 1, 2, 3:
		return mk(fmt.Sprintf("GetCellValue(%q,%q)", sheet, cell), func(f *xl.File) string { return c04Fmt(f.GetCellValue(sheet, cell)) })
	case 4, 5:
		return mk(fmt.Sprintf("GetCellValue(%q,%q,raw)", sheet, cell), func(f *xl.File) string { return c04Fmt(f.GetCellValue(sheet, cell, c04RawOpt)) })
	case 6, 7:
		return mk(fmt.Sprintf("GetRows(%q)", sheet), func(f *xl.File) string { return c04Fmt(f.GetRows(sheet)) })
	case 8:
		return mk(fmt.Sprintf("GetRows(%q,raw)", sheet), func(f *xl.File) string { return c04Fmt(f.GetRows(sheet, c04RawOpt)) })
	case 9, 10:
		return mk(fmt.Sprintf("GetCols(%q)", sheet), func(f *xl.File) string { return c04Fmt(f.GetCols(sheet)) })
	case 11:
		return mk(fmt.Sprintf("GetCols(%q,raw)", sheet), func(f *xl.File) string { return c04Fmt(f.GetCols(sheet, c04RawOpt)) })
	case 12, 13:
		stop := rng.Range(0, 4)
		return mk(fmt.Sprintf("Rows(%q) stop=%d", sheet, stop), func(f *xl.File) string {
			rows, err := f.Rows(sheet)
			if err != nil {
				return "ERR"
			}
			var b strings.Builder
			for i := 0; rows.Next(); i++ {
				if i%2 == 0 {
					c, _ := rows.Columns()
					fmt.Fprintf(&b, "%q;", c)
				}
				_ = rows.GetRowOpts()
				if stop > 0 && i >= stop {
					break
				}
			}
			_ = rows.Error()
			rows.Close()
			return b.String()
		})
	case 14, 15:
		return mk(fmt.Sprintf("Cols(%q)", sheet), func(f *xl.File) string {
			cols, err := f.Cols(sheet)
			if err != nil {
				return "ERR"
			}
			var b strings.Builder
			for i := 0; cols.Next() && i < 40; i++ {
				c, _ := cols.Rows()
				fmt.Fprintf(&b, "%q;", c)
			}
			_ = cols.Error()
			return b.String()
		})
	case 16, 17, 18:
		return mk(fmt.Sprintf("SearchSheet(%q,%q)", sheet, needle), func(f *xl.File) string { return c04Fmt(f.SearchSheet(sheet, needle)) })
	case 19:
		return mk(fmt.Sprintf("SearchSheet(%q,%q,true)", sheet, needle), func(f *xl.File) string { return c04Fmt(f.SearchSheet(sheet, needle, true)) })
	case 20:
		return mk(fmt.Sprintf("GetCellFormula(%q,%q)", sheet, cell), func(f *xl.File) string { return c04Fmt(f.GetCellFormula(sheet, cell)) })
	case 21, 22, 23:
		return mk(fmt.Sprintf("GetCellStyle(%q,%q)", sheet, cell), func(f *xl.File) string { return c04Fmt(f.GetCellStyle(sheet, cell)) })
	case 24:
		return mk(fmt.Sprintf("GetCellType(%q,%q)", sheet, cell), func(f *xl.File) string { return c04Fmt(f.GetCellType(sheet, cell)) })
	case 25:
		return mk(fmt.Sprintf("GetCellHyperLink(%q,%q)", sheet, cell), func(f *xl.File) string {
			ok, l, err := f.GetCellHyperLink(sheet, cell)
			return c04Fmt(fmt.Sprint(ok, l), err)
		})
	case 26, 27:
		return mk(fmt.Sprintf("GetCellRichText(%q,%q)", sheet, cell), func(f *xl.File) string { return c04Fmt(f.GetCellRichText(sheet, cell)) })
	case 28, 29:
		return mk(fmt.Sprintf("GetMergeCells(%q)", sheet), func(f *xl.File) string {
			m, err := f.GetMergeCells(sheet)
			if err != nil {
				return "ERR"
			}
			var b strings.Builder
			for _, x := range m {
				fmt.Fprintf(&b, "%s-%s=%q;", x.GetStartAxis(), x.GetEndAxis(), x.GetCellValue())
			}
			return b.String()
		})
	case 30, 31:
		return mk(fmt.Sprintf("GetRowVisible(%q,%d)", sheet, row), func(f *xl.File) string { return c04Fmt(f.GetRowVisible(sheet, row)) })
	case 32:
		return mk(fmt.Sprintf("GetRowHeight(%q,%d)", sheet, row), func(f *xl.File) string { return c04Fmt(f.GetRowHeight(sheet, row)) })
	case 33:
		return mk(fmt.Sprintf("GetRowOutlineLevel(%q,%d)", sheet, row), func(f *xl.File) string { return c04Fmt(f.GetRowOutlineLevel(sheet, row)) })
	case 34:
		return mk(fmt.Sprintf("GetColVisible(%q,%q)", sheet, col), func(f *xl.File) string { return c04Fmt(f.GetColVisible(sheet, col)) })
	case 35:
		return mk(fmt.Sprintf("GetColWidth(%q,%q)", sheet, col), func(f *xl.File) string { return c04Fmt(f.GetColWidth(sheet, col)) })
	case 36:
		return mk(fmt.Sprintf("GetColStyle(%q,%q)", sheet, col), func(f *xl.File) string { return c04Fmt(f.GetColStyle(sheet, col)) })
	case 37:
		return mk(fmt.Sprintf("GetColOutlineLevel(%q,%q)", sheet, col), func(f *xl.File) string { return c04Fmt(f.GetColOutlineLevel(sheet, col)) })
	case 38:
		return mk(fmt.Sprintf("GetSheetDimension(%q)", sheet), func(f *xl.File) string { return c04Fmt(f.GetSheetDimension(sheet)) })
	case 39:
		return mk(fmt.Sprintf("GetSheetVisible(%q)", sheet), func(f *xl.File) string { return c04Fmt(f.GetSheetVisible(sheet)) })
	case 40:
		return mk("sheet list getters", func(f *xl.File) string {
			m := f.GetSheetMap()
			keys := make([]int, 0, len(m))
			for k := range m {
				keys = append(keys, k)
			}
			sort.Ints(keys)
			ix, err := f.GetSheetIndex(sheet)
			return fmt.Sprint(f.GetSheetList(), keys, f.GetActiveSheetIndex(), f.GetSheetName(idx), ix, err != nil)
		})
	case 41:
		return mk(fmt.Sprintf("GetSheetProps/View/Panes(%q,%d)", sheet, idx), func(f *xl.File) string {
			return c04Fmt(f.GetSheetProps(sheet)) + c04Fmt(f.GetSheetView(sheet, idx)) + c04Fmt(f.GetPanes(sheet))
		})
	case 42:
		return mk(fmt.Sprintf("GetPageLayout/Margins/HeaderFooter(%q)", sheet), func(f *xl.File) string {
			return c04Fmt(f.GetPageLayout(sheet)) + c04Fmt(f.GetPageMargins(sheet)) + c04Fmt(f.GetHeaderFooter(sheet))
		})
	case 43:
		return mk("GetDefinedName", func(f *xl.File) string { return fmt.Sprintf("%+v", f.GetDefinedName()) })
	case 44:
		return mk(fmt.Sprintf("GetComments(%q)", sheet), func(f *xl.File) string { return c04Fmt(f.GetComments(sheet)) })
	case 45:
		return mk(fmt.Sprintf("GetConditionalFormats(%q)", sheet), func(f *xl.File) string {
			m, err := f.GetConditionalFormats(sheet)
			return c04Fmt(len(m), err)
		})
	case 46:
		return mk(fmt.Sprintf("GetDataValidations(%q)", sheet), func(f *xl.File) string { return c04Fmt(f.GetDataValidations(sheet)) })
	case 47:
		return mk(fmt.Sprintf("GetTables/PivotTables/Slicers/FormControls(%q)", sheet), func(f *xl.File) string {
			return c04Fmt(f.GetTables(sheet)) + c04Fmt(f.GetPivotTables(sheet)) + c04Fmt(f.GetSlicers(sheet)) + c04Fmt(f.GetFormControls(sheet))
		})
	case 48:
		return mk(fmt.Sprintf("GetPictures/PictureCells(%q,%q)", sheet, cell), func(f *xl.File) string {
			p, err := f.GetPictures(sheet, cell)
			return c04Fmt(len(p), err) + c04Fmt(f.GetPictureCells(sheet))
		})
	case 49:
		return mk("GetDocProps/AppProps/WorkbookProps/CalcProps", func(f *xl.File) string {
			return c04Fmt(f.GetAppProps()) + c04Fmt(f.GetWorkbookProps()) + c04Fmt(f.GetCalcProps()) + func() string {
				_, err := f.GetDocProps()
				return fmt.Sprint(err != nil)
			}()
		})
	case 50:
		return mk(fmt.Sprintf("GetStyle(%d)/GetConditionalStyle/GetDefaultFont", idx), func(f *xl.File) string {
			return c04Fmt(f.GetStyle(idx)) + c04Fmt(f.GetConditionalStyle(idx)) + c04Fmt(f.GetDefaultFont())
		})
	case 51:
		return mk(fmt.Sprintf("GetBaseColor(%d)", idx), func(f *xl.File) string {
			th := idx
			return f.GetBaseColor("", idx, &th) + f.GetBaseColor("FF0000", -1, nil) + f.GetBaseColor("", idx, nil)
		})
	default:
		return mk(fmt.Sprintf("GetCellValue(%q,%q)", sheet, cell), func(f *xl.File) string { return c04Fmt(f.GetCellValue(sheet, cell)) })
	}
}

// names of the getters the batch can draw (checked against the extracted list of exported getters)
var c04Covered = []string{"Cols", "GetActiveSheetIndex", "GetAppProps", "GetBaseColor", "GetCalcProps", "GetCellFormula", "GetCellHyperLink", "GetCellRichText", "GetCellStyle", "GetCellType", "GetCellValue", "GetColOutlineLevel", "GetColStyle", "GetColVisible", "GetColWidth", "GetCols", "GetComments", "GetConditionalFormats", "GetConditionalStyle", "GetDataValidations", "GetDefaultFont", "GetDefinedName", "GetDocProps", "GetFormControls", "GetHeaderFooter", "GetMergeCells", "GetPageLayout", "GetPageMargins", "GetPanes", "GetPictureCells", "GetPictures", "GetPivotTables", "GetRowHeight", "GetRowOutlineLevel", "GetRowVisible", "GetRows", "GetSheetDimension", "GetSheetIndex", "GetSheetList", "GetSheetMap", "GetSheetName", "GetSheetProps", "GetSheetView", "GetSheetVisible", "GetSlicers", "GetStyle", "GetTables", "GetWorkbookProps", "Rows", "SearchSheet"}

// obs: what the public getters return. Row-level getters on far rows come first so that
// a getter of the batch that materialised rows is seen.
func c04Obs(f *xl.File) []string {
	var out []string
	add := func(k string, v string) { out = append(out, k+" = "+v) }
	sheets := f.GetSheetList()
	add("sheets", fmt.Sprint(sheets, f.GetActiveSheetIndex()))
	for _, sh := range sheets {
		for _, ro := range []int{500, 1000, 1048576} {
			add(fmt.Sprintf("%s:GetRowVisible(%d)", sh, ro), c04Fmt(f.GetRowVisible(sh, ro)))
			add(fmt.Sprintf("%s:GetRowHeight(%d)", sh, ro), c04Fmt(f.GetRowHeight(sh, ro)))
			add(fmt.Sprintf("%s:GetRowOutlineLevel(%d)", sh, ro), c04Fmt(f.GetRowOutlineLevel(sh, ro)))
		}
		add(sh+":GetSheetDimension", c04Fmt(f.GetSheetDimension(sh)))
		raw, err := f.GetRows(sh, c04RawOpt)
		add(sh+":GetRows(raw)", c04Fmt(raw, err))
		mr, mc := len(raw), 0
		for _, r := range raw {
			if len(r) > mc {
				mc = len(r)
			}
		}
		if mr > 14 {
			mr = 14
		}
		if mc > 10 {
			mc = 10
		}
		for ro := 1; ro <= mr+3; ro++ {
			add(fmt.Sprintf("%s:GetRowVisible(%d)", sh, ro), c04Fmt(f.GetRowVisible(sh, ro)))
			add(fmt.Sprintf("%s:GetRowHeight(%d)", sh, ro), c04Fmt(f.GetRowHeight(sh, ro)))
			add(fmt.Sprintf("%s:GetRowOutlineLevel(%d)", sh, ro), c04Fmt(f.GetRowOutlineLevel(sh, ro)))
		}
		for c := 1; c <= mc+2; c++ {
			n, _ := xl.ColumnNumberToName(c)
			add(fmt.Sprintf("%s:col(%s)", sh, n), c04Fmt(f.GetColVisible(sh, n))+c04Fmt(f.GetColWidth(sh, n))+c04Fmt(f.GetColStyle(sh, n))+c04Fmt(f.GetColOutlineLevel(sh, n)))
		}
		for ro := 1; ro <= mr+1; ro++ {
			for c := 1; c <= mc+1; c++ {
				n := c04Name(c, ro)
				add(sh+"!"+n+":raw", c04Fmt(f.GetCellValue(sh, n, c04RawOpt)))
				add(sh+"!"+n+":type", c04Fmt(f.GetCellType(sh, n)))
				add(sh+"!"+n+":formula", c04Fmt(f.GetCellFormula(sh, n)))
				add(sh+"!"+n+":style", c04Fmt(f.GetCellStyle(sh, n)))
				ok, l, err := f.GetCellHyperLink(sh, n)
				add(sh+"!"+n+":link", c04Fmt(fmt.Sprint(ok, l), err))
				add(sh+"!"+n+":value", c04Fmt(f.GetCellValue(sh, n)))
			}
		}
		add(sh+":GetRows", c04Fmt(f.GetRows(sh)))
		add(sh+":GetCols", c04Fmt(f.GetCols(sh)))
		add(sh+":GetCols(raw)", c04Fmt(f.GetCols(sh, c04RawOpt)))
		m, err := f.GetMergeCells(sh)
		ms := ""
		for _, x := range m {
			ms += fmt.Sprintf("%s-%s=%q;", x.GetStartAxis(), x.GetEndAxis(), x.GetCellValue())
		}
		add(sh+":GetMergeCells", c04Fmt(ms, err))
		for _, nd := range []string{"needle", "a", "1"} {
			add(sh+":SearchSheet("+nd+")", c04Fmt(f.SearchSheet(sh, nd)))
		}
		add(sh+":visible", c04Fmt(f.GetSheetVisible(sh)))
		add(sh+":slots", strconv.Itoa(0)) // placeholder keeps indices stable
	}
	add("definedNames", fmt.Sprintf("%+v", f.GetDefinedName()))
	return out
}

// saved: decoded content of a save: reopen and dump every sheet
func c04Saved(f *xl.File) []string {
	buf, err := f.WriteToBuffer()
	if err != nil {
		return []string{"save ERR"}
	}
	g, err := xl.OpenReader(bytes.NewReader(buf.Bytes()))
	if err != nil {
		return []string{"reopen ERR"}
	}
	defer g.Close()
	var out []string
	if zr, err := zip.NewReader(bytes.NewReader(buf.Bytes()), int64(buf.Len())); err == nil {
		for _, e := range zr.File {
			if e.Name == "xl/styles.xml" || e.Name == "xl/sharedStrings.xml" {
				rc, _ := e.Open()
				b, _ := io.ReadAll(rc)
				rc.Close()
				out = append(out, e.Name+" = "+string(b))
			}
			if strings.HasPrefix(e.Name, "xl/worksheets/sheet") && strings.HasSuffix(e.Name, ".xml") {
				rc, _ := e.Open()
				b, _ := io.ReadAll(rc)
				rc.Close()
				out = append(out, e.Name+" cells = "+c04DecodeSheet(b))
			}
		}
	}
	sort.Strings(out) // the order of the parts in the package is not fixed (temporary-file parts)
	for _, sh := range g.GetSheetList() {
		d, err := xl.VerifC04Dump(g, sh)
		out = append(out, sh+" = "+c04Fmt(c04Content(d), err))
		out = append(out, sh+" rows(raw) = "+c04Fmt(g.GetRows(sh, c04RawOpt)))
	}
	return out
}

func c04FirstDiff(a, b []string) string {
	for i := 0; i < len(a) && i < len(b); i++ {
		if a[i] != b[i] {
			x, y := a[i], b[i]
			if len(x) > 6000 {
				x = x[:6000]
			}
			if len(y) > 6000 {
				y = y[:6000]
			}
			return fmt.Sprintf("without reads: %s / after reads: %s", x, y)
		}
	}
	return fmt.Sprintf("lengths %d / %d", len(a), len(b))
}

// classify a purity failure by the cause the twin run isolates: re-run with single calls
func c04Culprit(build c04Builder, batch []c04Read, ref []string, obs func(*xl.File) []string) string {
	for _, rd := range batch {
		f := build()
		c04Call(func() string { return rd.fn(f) })
		o := obs(f)
		f.Close()
		if !reflect.DeepEqual(o, ref) {
			n := rd.name
			if i := strings.Index(n, "("); i > 0 {
				n = n[:i]
			}
			return strings.Fields(n)[0]
		}
	}
	return "combination"
}

func c04BatchCase(r *Run, kind string, sub uint64) {
	var build, buildMem c04Builder
	var what string
	var rewrite func(*xl.File)
	switch kind {
	case "api":
		build, what, rewrite = c04APIRecipe(sub)
	case "spill":
		// the saved bytes of an API-built workbook, opened with every XML part above 64 bytes
		// (worksheets, shared strings) extracted to temporary files, and opened in memory
		var b0 c04Builder
		b0, what, rewrite = c04APIRecipe(sub)
		f0 := b0()
		buf, err := f0.WriteToBuffer()
		f0.Close()
		must(err)
		pkg := buf.Bytes()
		build = func() *xl.File {
			f, err := xl.OpenReader(bytes.NewReader(pkg), xl.Options{UnzipXMLSizeLimit: 64})
			must(err)
			return f
		}
		buildMem = func() *xl.File { return c04Open(pkg) }
		what = "spilled open (UnzipXMLSizeLimit 64) of: " + what
	default:
		build, what = c04XMLRecipe(sub)
	}
	replay := fmt.Sprintf("case %s %d", kind, sub)
	rng := NewRng(sub ^ 0xABCDEF)
	f0 := build()
	sheets := f0.GetSheetList()
	f0.Close()
	nb := rng.Range(4, 30)
	var batch []c04Read
	for i := 0; i < nb; i++ {
		rd := c04RandomRead(rng, sheets)
		batch = append(batch, rd)
		if rng.Chance(20) { // repetition
			batch = append(batch, rd)
		}
	}
	names := make([]string, len(batch))
	for i, b := range batch {
		names[i] = b.name
	}
	// twin A: no reads; twin B: batch first
	fa := build()
	obsA := c04Obs(fa)
	fa.Close()
	fb := build()
	for _, rd := range batch {
		res, panicked := c04Call(func() string { return rd.fn(fb) })
		_ = res
		fn := strings.Fields(strings.SplitN(rd.name, "(", 2)[0])[0]
		r.Stat("batch:" + fn)
		if panicked {
			sig := "nopanic:" + fn
			if fn == "SearchSheet" && !strings.HasSuffix(rd.name, ",true)") {
				sig = "nopanic:SearchSheet:invalid-regexp-literal"
			} else if fn == "SearchSheet" {
				sig = "nopanic:SearchSheet:invalid-regexp"
			}
			r.Fail(sig, rd.name+" panics on: "+what, 0, replay)
		}
	}
	obsB := c04Obs(fb)
	fb.Close()
	r.Case(replay, true)
	if !reflect.DeepEqual(obsA, obsB) {
		cul := c04Culprit(build, batch, obsA, c04Obs)
		r.Fail("purity:obs:"+cul, fmt.Sprintf("observation differs after read-only calls [%s]: %s; state: %s", strings.Join(names, ", "), c04FirstDiff(obsA, obsB), what), 0, replay)
	}
	if buildMem != nil {
		fm := buildMem()
		obsM := c04Obs(fm)
		fm.Close()
		if !reflect.DeepEqual(obsA, obsM) {
			r.Fail("agree:spill-vs-memory", fmt.Sprintf("the same package read with its XML parts in temporary files and in memory: %s; state: %s", c04FirstDiff(obsM, obsA), what), 0, replay)
		}
	}
	if rewrite != nil {
		// reads, then writes, then observation: against writes + observation alone
		fw := build()
		rewrite(fw)
		obsWA := c04Obs(fw)
		fw.Close()
		fw = build()
		for _, rd := range batch {
			c04Call(func() string { return rd.fn(fw) })
		}
		rewrite(fw)
		obsWB := c04Obs(fw)
		fw.Close()
		if !reflect.DeepEqual(obsWA, obsWB) {
			cul := c04Culprit(build, batch, obsWA, func(f *xl.File) []string { rewrite(f); return c04Obs(f) })
			r.Fail("purity:obs-after-write:"+cul, fmt.Sprintf("after the same writes the observation differs when read-only calls [%s] ran before them: %s; state: %s", strings.Join(names, ", "), c04FirstDiff(obsWA, obsWB), what), 0, replay)
		}
	}
	fa2 := build()
	savA := c04Saved(fa2)
	fa2.Close()
	fb2 := build()
	for _, rd := range batch {
		c04Call(func() string { return rd.fn(fb2) })
	}
	savB := c04Saved(fb2)
	fb2.Close()
	if !reflect.DeepEqual(savA, savB) && reflect.DeepEqual(c04NoSST(savA), c04NoSST(savB)) {
		// only difference: the shared-strings part (and its relationship / content type) that
		// the first value read adds to a workbook opened without one (known finding)
		r.Fail("purity:saved:sst-part-created", "a save after read-only calls contains xl/sharedStrings.xml, a save without them does not; state: "+what, 0, replay)
	} else if !reflect.DeepEqual(savA, savB) && c04OnlyHiddenLost(c04NoSST(savA), c04NoSST(savB)) {
		// known finding: caching a sheet drops the attributes of rows without r (checkSheet copies
		// only their cells into the row slots), so the hidden flag is missing from a later save
		r.Fail("purity:saved:rless-row-attrs-lost", "a row without r attribute is hidden in the file; a save after read-only calls no longer hides it: "+c04FirstDiff(savA, savB)+"; state: "+what, 0, replay)
	} else if !reflect.DeepEqual(savA, savB) {
		cul := c04Culprit(build, batch, c04NoSST(savA), func(f *xl.File) []string { return c04NoSST(c04Saved(f)) })
		r.Fail("purity:saved:"+cul, fmt.Sprintf("saved content differs after read-only calls [%s]: %s; state: %s", strings.Join(names, ", "), c04FirstDiff(savA, savB), what), 0, replay)
	}
	// agreement on the built state (API states are dense and carry every reference)
	fc := build()
	defer fc.Close()
	for _, sh := range sheets {
		c04AgreeFile(r, fc, sh, replay, what)
	}
	if len(r.Samples) < 8 && (sub%7 == 0) {
		r.Sample(replay + " :: " + what[:c04min(len(what), 160)] + " :: reads " + strings.Join(names[:c04min(len(names), 4)], ", "))
	}
}

func c04min(a, b int) int {
	if a < b {
		return a
	}
	return b
}

// cell-by-cell agreement of the readers on one sheet of a file, merged ranges respected:
// a covered cell reads as its range's top-left cell through GetCellValue (documented), so
// GetRows/GetCols are compared with GetCellValue on cells that are not covered.
func c04AgreeFile(r *Run, f *xl.File, sh, replay, what string) {
	g, err := f.GetRows(sh)
	gc, err2 := f.GetCols(sh)
	if err != nil || err2 != nil {
		r.Fail("agree:reader-error", fmt.Sprintf("GetRows/GetCols error: %v %v on %s", err, err2, what), 0, replay)
		return
	}
	covered := map[string]string{}
	ms, _ := f.GetMergeCells(sh)
	for _, m := range ms {
		c1, r1, e1 := xl.CellNameToCoordinates(m.GetStartAxis())
		c2, r2, e2 := xl.CellNameToCoordinates(m.GetEndAxis())
		if e1 != nil || e2 != nil || (c2-c1+1)*(r2-r1+1) > 400 {
			continue
		}
		for c := c1; c <= c2; c++ {
			for ro := r1; ro <= r2; ro++ {
				if c != c1 || ro != r1 {
					covered[c04Name(c, ro)] = m.GetStartAxis()
				}
			}
		}
	}
	mr, mc := len(g), len(gc)
	if mr > 40 {
		mr = 40
	}
	if mc > 30 {
		mc = 30
	}
	for ro := 1; ro <= mr+1; ro++ {
		for c := 1; c <= mc+1; c++ {
			n := c04Name(c, ro)
			v, err := f.GetCellValue(sh, n)
			if err != nil {
				r.Fail("agree:getcellvalue-error", n+": "+err.Error(), 0, replay)
				continue
			}
			if anchor, ok := covered[n]; ok {
				av, _ := f.GetCellValue(sh, anchor)
				if v != av {
					r.Fail("agree:merged-cell-value", fmt.Sprintf("%s covered by a range anchored at %s reads %q, anchor %q", n, anchor, v, av), 0, replay)
				}
				r.Stat("agree:covered-cells")
				continue
			}
			if rv := c04CellOf(g, c, ro); rv != v {
				r.Fail("agree:getrows-vs-getcellvalue", fmt.Sprintf("%s!%s: GetCellValue %q, GetRows %q; state: %s", sh, n, v, rv, what), 0, replay)
			}
			if cv := c04CellOf(gc, ro, c); cv != v {
				r.Fail("agree:getcols-vs-getcellvalue", fmt.Sprintf("%s!%s: GetCellValue %q, GetCols %q; state: %s", sh, n, v, cv, what), 0, replay)
			}
			r.Stat("agree:cells")
		}
	}
	if len(g) > 0 && len(g[len(g)-1]) == 0 {
		r.Fail("agree:getrows-trailing-empty-row", "GetRows ends with an empty row: "+what, 0, replay)
	}
	c04SearchVsRows(r, f, sh, g, replay, what)
}

// literal SearchSheet finds exactly the cells that GetRows shows with that text, whatever
// the cell type and number format behind the text (every distinct non-empty text of the sheet,
// at most 12, texts that do not look like numbers first)
func c04SearchVsRows(r *Run, f *xl.File, sh string, g [][]string, replay, what string) {
	pos := map[string][]string{}
	var order []string
	for ro := range g {
		for c, v := range g[ro] {
			if v == "" {
				continue
			}
			if _, ok := pos[v]; !ok {
				order = append(order, v)
			}
			pos[v] = append(pos[v], c04Name(c+1, ro+1))
		}
	}
	sort.SliceStable(order, func(i, j int) bool {
		return !c04IsCanonNum(order[i]) && c04IsCanonNum(order[j])
	})
	if len(order) > 12 {
		order = order[:12]
	}
	for _, v := range order {
		res, err := f.SearchSheet(sh, v)
		r.Stat("agree:search-needles")
		if err != nil {
			r.Fail("agree:search-error", fmt.Sprintf("SearchSheet(%q) error %v; state: %s", v, err, what), 0, replay)
			continue
		}
		if strings.Join(res, ",") != strings.Join(pos[v], ",") {
			r.Fail("agree:search-vs-getrows", fmt.Sprintf("%s: SearchSheet(%q) = %v, GetRows shows that text at %v; state: %s", sh, v, res, pos[v], what), 0, replay)
		}
	}
}

// ---------------------------------------------------------------- witnesses of the known findings / fixed defects

func c04Witness(r *Run, name string) {
	replay := "case witness " + name
	r.Stat("witness:" + name)
	switch name {
	case "raw-rewrite": // reconnaissance (a)
		f := xl.NewFile()
		defer f.Close()
		f.SetCellValue("Sheet1", "A1", 1.0000000000000002)
		r1, _ := f.GetCellValue("Sheet1", "A1", c04RawOpt)
		v, _ := f.GetCellValue("Sheet1", "A1")
		r2, _ := f.GetCellValue("Sheet1", "A1", c04RawOpt)
		if r1 != r2 {
			r.Fail("purity:obs:GetCellValue", fmt.Sprintf("17-digit numeric: raw read %q, formatted read %q, raw read again %q (getValueFrom rewrites c.V)", r1, v, r2), 0, replay)
		}
	case "materialise": // reconnaissance (b)
		for _, g := range []string{"GetCellStyle", "GetCellRichText"} {
			f := xl.NewFile()
			v1, _ := f.GetRowVisible("Sheet1", 500)
			if g == "GetCellStyle" {
				f.GetCellStyle("Sheet1", "A1000")
			} else {
				f.GetCellRichText("Sheet1", "A1000")
			}
			v2, _ := f.GetRowVisible("Sheet1", 500)
			if v1 != v2 {
				r.Fail("purity:obs:"+g, fmt.Sprintf("GetRowVisible(500)=%v; %s(A1000); GetRowVisible(500)=%v", v1, g, v2), 0, replay)
			}
			f.Close()
		}
	case "basecolor":
		f := xl.NewFile()
		defer f.Close()
		if _, p := c04Call(func() string { return f.GetBaseColor("", -1, nil) }); p {
			r.Fail("nopanic:GetBaseColor", "GetBaseColor(\"\", -1, nil) panics", 0, replay)
		}
	case "overlap-merge": // open finding: GetMergeCells normalises overlapping ranges in place
		f := xl.NewFile()
		defer f.Close()
		f.SetCellValue("Sheet1", "E7", "v")
		f.MergeCell("Sheet1", "D8", "F10")
		f.MergeCell("Sheet1", "B7", "D9")
		v1, _ := f.GetCellValue("Sheet1", "E7")
		m, _ := f.GetMergeCells("Sheet1")
		v2, _ := f.GetCellValue("Sheet1", "E7")
		if v1 != v2 {
			r.Fail("purity:obs:GetMergeCells:overlapping-merges", fmt.Sprintf("merged ranges D8:F10 and B7:D9 overlap; GetCellValue(E7)=%q; GetMergeCells (%d range); GetCellValue(E7)=%q", v1, len(m), v2), 0, replay)
		}
	case "condstyle-write": // open finding: GetConditionalStyle writes the default pattern type into the shared dxf
		mk := func() *xl.File {
			f := xl.NewFile()
			if _, err := f.NewConditionalStyle(&xl.Style{Fill: xl.Fill{Type: "pattern", Color: []string{"FF0000"}, Pattern: 1}}); err != nil {
				must(err)
			}
			buf, err := f.WriteToBuffer()
			must(err)
			f.Close()
			// as Excel writes it: a dxf pattern fill without patternType
			pkg := c04RewritePart(buf.Bytes(), "xl/styles.xml", func(b []byte) []byte {
				return bytes.ReplaceAll(b, []byte(` patternType="solid"><bgColor`), []byte(`><bgColor`))
			})
			return c04Open(pkg)
		}
		a := mk()
		sa := c04PartOfSave(a, "xl/styles.xml")
		a.Close()
		b := mk()
		_, _ = b.GetConditionalStyle(0)
		sb := c04PartOfSave(b, "xl/styles.xml")
		b.Close()
		if !strings.Contains(sa, "<patternFill><bgColor") {
			r.Notes = append(r.Notes, "condstyle-write witness: dxf without patternType could not be built")
		}
		if sa != sb {
			r.Fail("purity:saved:GetConditionalStyle:dxf-pattern-type", "styles.xml of a save differs after GetConditionalStyle(0): the getter writes patternType=\"solid\" into the shared dxf of a file whose dxf pattern fill has none", 0, replay)
		}
	case "sst-created": // open finding (package level): the first value read adds the shared-strings part
		pkg := c04Package(c04Desc{{R: 1, Cells: []c04Cell{{Col: 1, Row: 1, Val: "42"}}}}.xml(nil))
		a := c04Open(pkg)
		sa := c04PartOfSave(a, "xl/sharedStrings.xml")
		a.Close()
		b := c04Open(pkg)
		_, _ = b.GetCellValue("Sheet1", "A1")
		sb := c04PartOfSave(b, "xl/sharedStrings.xml")
		b.Close()
		if sa != sb {
			r.Fail("purity:saved:sst-part-created", fmt.Sprintf("workbook without xl/sharedStrings.xml: a save after GetCellValue contains the part (%d bytes), a save without the read does not", len(sb)), 0, replay)
		}
	case "rows-limit": // repaired: GetRows swallowed ErrMaxRows and dropped the row being built
		x := c04Hdr + `<row r="1"><c r="A1" t="str"><v>a</v></c></row><row r="1048577"/>` + c04Ftr
		f := c04Open(c04Package(x))
		defer f.Close()
		g, err := f.GetRows("Sheet1")
		if err == nil {
			r.Fail("agree:getrows-swallows-row-limit", fmt.Sprintf("row r=1048577 after row 1: GetRows returns %q and a nil error", g), 0, replay)
		}
	case "search-formatted": // literal search sees the formatted text of number cells
		f := xl.NewFile()
		defer f.Close()
		xfmt := "\"x\"0"
		s1, _ := f.NewStyle(&xl.Style{CustomNumFmt: &xfmt})
		s2, _ := f.NewStyle(&xl.Style{NumFmt: 14})
		f.SetCellValue("Sheet1", "A1", 5)
		f.SetCellStyle("Sheet1", "A1", "A1", s1)
		f.SetCellValue("Sheet1", "B2", 36526)
		f.SetCellStyle("Sheet1", "B2", "B2", s2)
		f.SetCellValue("Sheet1", "C3", "x5")
		g, _ := f.GetRows("Sheet1")
		c04SearchVsRows(r, f, "Sheet1", g, replay, fmt.Sprintf("A1=5 as \"x\"0, B2=36526 as date, C3=\"x5\"; GetRows %q", g))
	case "rless-hidden": // open finding: caching drops the attributes of a row without r
		x := c04Hdr + `<row><c t="str"><v>a</v></c></row><row hidden="1"><c t="str"><v>b</v></c></row>` + c04Ftr
		pkg := c04Package(x)
		a := c04Open(pkg)
		sa := c04DecodeSheet([]byte(c04PartOfSave(a, "xl/worksheets/sheet1.xml")))
		rows, _ := a.Rows("Sheet1")
		hiddenBefore := false
		for i := 0; rows != nil && rows.Next(); i++ {
			if i == 1 {
				hiddenBefore = rows.GetRowOpts().Hidden
			}
		}
		a.Close()
		b := c04Open(pkg)
		vis, _ := b.GetRowVisible("Sheet1", 2)
		sb := c04DecodeSheet([]byte(c04PartOfSave(b, "xl/worksheets/sheet1.xml")))
		b.Close()
		if sa != sb || (hiddenBefore && vis) {
			r.Fail("purity:saved:rless-row-attrs-lost", fmt.Sprintf("<row hidden=\"1\"> without r: Rows().GetRowOpts().Hidden=%v on the file, GetRowVisible(2)=%v after caching; saved %q vs %q", hiddenBefore, vis, sa, sb), 0, replay)
		}
	case "shared-formula-read": // GetCellFormula of a dependent cell must not store the expanded text
		mk := func() *xl.File {
			f := xl.NewFile()
			t, ref := xl.STCellFormulaTypeShared, "B1:B3"
			f.SetCellFormula("Sheet1", "B1", "A1*2", xl.FormulaOpts{Type: &t, Ref: &ref})
			return f
		}
		a, b := mk(), mk()
		f1, _ := b.GetCellFormula("Sheet1", "B2")
		sa := c04DecodeSheet([]byte(c04PartOfSave(a, "xl/worksheets/sheet1.xml")))
		sb := c04DecodeSheet([]byte(c04PartOfSave(b, "xl/worksheets/sheet1.xml")))
		if sa != sb {
			r.Fail("purity:saved:GetCellFormula", fmt.Sprintf("shared formula B1:B3: after GetCellFormula(B2)=%q the saved worksheet differs: %q vs %q", f1, sa, sb), 0, replay)
		}
		// redefine the shared formula on both, read the dependent again
		t, ref := xl.STCellFormulaTypeShared, "B1:B3"
		a.SetCellFormula("Sheet1", "B1", "A1*3", xl.FormulaOpts{Type: &t, Ref: &ref})
		b.SetCellFormula("Sheet1", "B1", "A1*3", xl.FormulaOpts{Type: &t, Ref: &ref})
		fa, _ := a.GetCellFormula("Sheet1", "B2")
		fb, _ := b.GetCellFormula("Sheet1", "B2")
		a.Close()
		b.Close()
		if fa != fb {
			r.Fail("purity:obs-after-write:GetCellFormula", fmt.Sprintf("shared formula redefined as A1*3: GetCellFormula(B2)=%q on the twin that never read it, %q on the twin that had read it before", fa, fb), 0, replay)
		}
	case "search-panic":
		f := xl.NewFile()
		defer f.Close()
		f.SetCellValue("Sheet1", "A1", "(")
		res, p := c04Call(func() string { return c04Fmt(f.SearchSheet("Sheet1", "(")) })
		if p {
			r.Fail("nopanic:SearchSheet:invalid-regexp-literal", "SearchSheet(\"(\") (literal search) panics", 0, replay)
		} else if res != "[A1]" {
			r.Fail("agree:search-literal-special", "SearchSheet(\"(\") = "+res+", want [A1]", 0, replay)
		}
		res, p = c04Call(func() string { return c04Fmt(f.SearchSheet("Sheet1", "(", true)) })
		if p {
			r.Fail("nopanic:SearchSheet:invalid-regexp", "SearchSheet(\"(\", true) panics", 0, replay)
		}
	}
}

var c04WitnessDescs = map[string]string{
	// row without r, a referenced cell followed by one without reference (rless-mixed)
	"rless-mixed": "sheet ROW 0 0 C 3 1 0 78 C 0 0 0 79",
	// no r attributes at all: SearchSheet before / after caching
	"missing-r-search": "sheet ROW 0 0 C 0 0 0 " + "6e6565646c65" + " C 0 0 0 61 ROW 0 0 C 0 0 0 6e6565646c65",
}

// ---------------------------------------------------------------- driver

func runC04(r *Run, rng *Rng, replay string) {
	r.Rule = "a case is one generated worksheet state (sheet description opened from bytes, or API-built workbook) with its full reader transcript / read batch; non-trivial = the state has at least one cell element (xml) or is an api/xmlbatch twin run; distinct by description text resp. (kind, subseed)"
	if replay != "" {
		c04Replay(r, replay)
		return
	}
	thorough := r.Tier == "thorough"
	// coverage of the getter list
	r.Notes = append(r.Notes, fmt.Sprintf("read batch draws from %d exported read functions", len(c04Covered)))
	// 0. witnesses (deterministic)
	for _, w := range []string{"raw-rewrite", "materialise", "search-panic", "basecolor", "search-formatted", "shared-formula-read", "rless-hidden", "condstyle-write", "sst-created", "rows-limit"} {
		c04Witness(r, w)
	}
	for _, k := range []string{"rless-mixed", "missing-r-search"} {
		d, _ := c04ParseDesc(strings.Fields(c04WitnessDescs[k])[1:])
		c04XMLCase(r, NewRng(1), d, k)
	}
	// 1. boundary descriptions
	if thorough {
		c04Boundary = append(c04Boundary, "sheet ROW 1048576 0 C 1 1048576 0 61")
	}
	for _, l := range c04Boundary {
		d, ok := c04ParseDesc(strings.Fields(l)[1:])
		if !ok {
			must(fmt.Errorf("bad boundary desc %q", l))
		}
		c04XMLCase(r, NewRng(2), d, "boundary")
	}
	// 2. generated descriptions: transcript + agreement + caching purity
	nx := 1000
	nb := 240
	if thorough {
		nx, nb = 12000, 3000
	}
	for i := 0; i < nx; i++ {
		sub := NewRng(c04Sub(r.Seed, "xml", i))
		d := c04GenDesc(sub, i%10 < 7)
		c04XMLCase(r, sub, d, "generated")
	}
	// 2b. GetMergeCells as a state transformer (merge list model shared with C03)
	nm := 150
	if thorough {
		nm = 3000
	}
	c04MergeCases(r, NewRng(c04Sub(r.Seed, "merge", 0)), nm)
	// 2c. shared strings served from a temporary file (model: spillStrings)
	ns := 60
	if thorough {
		ns = 1500
	}
	c04SSTCases(r, NewRng(c04Sub(r.Seed, "sst", 0)), ns)
	// 2d. typed cells: getValueFrom by cell type (model: render)
	nt := 200
	if thorough {
		nt = 4000
	}
	c04TypedCases(r, NewRng(c04Sub(r.Seed, "typed", 0)), nt)
	// 3. malformed op lines (driver and harness must both answer bad-op)
	s := &c04State{r: r}
	for _, l := range []string{"sheet ROW 1 0 C 1 1 0 61", "get 0 1", "get 1 0", "get 16385 1", "get 1 1048577", "style 16385 1", "style 1 1048577", "style 0 0", "vis 0", "vis 1048577", "rows"} {
		s.op(l)
		r.Stat("out-of-grid-op")
	}
	for _, l := range []string{"sheet ROW", "sheet ROW 1 0 C 1 1", "sheet ROW x 0", "sheet C 1 1 0 61", "rows 1", "get 1", "get a b", "search zz", "search 6", "vis", "frob", "sheet ROW 1 0 C 1 1 0 6", "sst", "sst q:61", "sst p:6", "sst r:61", "typed", "typed 2 p:61 / n:31", "typed 1 p:61 /", "typed 1 p:61 / q:31", "typed 1 / n:3", "style 1", "spec", "cols x"} {
		s.op(l)
		r.Stat("malformed-op")
	}
	// 4. twin runs with random read batches
	for i := 0; i < nb; i++ {
		kind := "api"
		if i%3 == 2 {
			kind = "xmlbatch"
		}
		if i%6 == 4 {
			kind = "spill"
		}
		c04BatchCase(r, kind, c04Sub(r.Seed, kind, i))
		r.Stat("batchcase:" + kind)
	}
	for k := range c04RecipePanics {
		r.Stat("recipe-setter-panic")
		if len(r.Notes) < 6 {
			r.Notes = append(r.Notes, "setter panicked while building a state (skipped; not a read-only call): "+k[:c04min(len(k), 600)])
		}
	}
	c04StopProf()
}

var c04Boundary = []string{
	"sheet",
	"sheet ROW 1 0",
	"sheet ROW 0 0",
	"sheet ROW 5 1",
	"sheet ROW 1 0 C 1 1 0 -",
	"sheet ROW 1 0 C 1 1 2 -",
	"sheet ROW 1 0 C 1 1 1 -",
	"sheet ROW 1 0 C 1 1 0 61 C 2 1 2 - C 3 1 1 -",
	"sheet ROW 1 0 C 1 1 0 61 C 2 1 1 - C 3 1 2 -",
	"sheet ROW 3 0 C 2 3 0 61",
	"sheet ROW 1 0 C 200 1 0 61",
	"sheet ROW 1 0 C 1 1 0 61 ROW 2 0 ROW 3 0 C 1 3 2 -",
	"sheet ROW 0 0 C 0 0 0 61 C 0 0 0 62 ROW 0 0 ROW 0 0 C 0 0 0 63",
	"sheet ROW 2 0 C 0 0 0 61 C 4 2 0 62 C 0 0 0 63",
	"sheet ROW 0 0 C 2 1 0 61 ROW 4 1 C 0 0 0 62",
	"sheet ROW 0 0 C 0 0 0 61 C 0 0 0 - C 0 0 0 62",
	"sheet ROW 1 0 C 0 0 0 61 C 0 0 0 - C 0 0 0 - C 0 0 0 62",
	"sheet ROW 0 0 C 0 0 0 - C 0 0 0 - C 0 0 0 61 ROW 0 0 C 0 0 2 - C 0 0 0 62",
	"sheet ROW 2 0 C 2 2 0 61 C 0 0 0 - C 0 0 0 62 C 7 2 0 - C 0 0 0 63",
	"sheet ROW 0 0 C 0 0 0 61 C 0 0 0 - C 4 1 0 62 C 0 0 0 - C 0 0 0 63 ROW 0 0 C 0 0 0 - C 0 0 1 - C 0 0 0 64",
	"sheet ROW 4 0 C 2 4 0 61 C 0 0 0 - C 5 4 0 - C 0 0 0 62",
	"sheet ROW 1 0 C 3 1 0 78 C 1 1 0 79 C 0 0 0 7a",
	"sheet ROW 1 0 C 2 1 0 61 C 2 1 0 62",
	"sheet ROW 1 0 C 3 1 0 61 C 1 1 0 62",
	"sheet ROW 1 0 C 9 1 0 61 C 3 1 0 62",
	"sheet ROW 1 0 C 9 1 0 61 C 3 1 0 62 C 5 1 0 63",
	"sheet ROW 1 0 C 1 1 0 61 ROW 1048577 0",
	"sheet ROW 1048577 0 ROW 0 0 C 1 1 0 61",
	"sheet ROW 2 0 C 1 2 0 61 ROW 3 0 C 1 3 0 62 ROW 1048577 0 ROW 4 0 C 1 4 0 63",
	"sheet ROW 2 0 C 1 2 0 61 ROW 2 0 C 2 2 0 62",
	"sheet ROW 3 0 C 1 3 0 61 ROW 1 0 C 1 1 0 62 ROW 0 0 C 0 0 0 63",
	"sheet ROW 5 0 C 1 5 0 61 ROW 3 0 C 2 3 0 62 ROW 0 0 C 3 4 0 63 ROW 0 0 C 0 0 0 64 ROW 0 0 C 0 0 0 65",
}

func c04Replay(r *Run, path string) {
	s := &c04State{r: r}
	for _, line := range readLines(path) {
		line = strings.TrimSpace(line)
		if line == "" || strings.HasPrefix(line, "#") {
			continue
		}
		w := strings.Fields(line)
		if w[0] == "case" && len(w) == 3 {
			switch w[1] {
			case "witness":
				if l, ok := c04WitnessDescs[w[2]]; ok {
					d, _ := c04ParseDesc(strings.Fields(l)[1:])
					c04XMLCase(r, NewRng(1), d, w[2])
				} else {
					c04Witness(r, w[2])
				}
			case "api", "xmlbatch", "spill":
				sub, _ := strconv.ParseUint(w[2], 10, 64)
				c04BatchCase(r, w[1], sub)
			}
			continue
		}
		if w[0] == "typed" {
			ln, _ := s.op(line)
			_, bad := c04Typed(w[1:])
			for _, b := range bad {
				p := strings.SplitN(b, "|", 2)
				r.Fail(p[0], p[1]+" :: "+line, ln, line)
			}
			continue
		}
		if w[0] == "sst" {
			ln, _ := s.op(line)
			_, bad := c04SST(w[1:])
			for _, b := range bad {
				p := strings.SplitN(b, "|", 2)
				r.Fail(p[0], p[1]+" :: "+line, ln, line)
			}
			continue
		}
		if w[0] == "mergewit" {
			ln, res := s.op(line)
			var b, k, a int
			if _, err := fmt.Sscanf(res, "ok %d %d %d", &b, &k, &a); err == nil && b != a {
				r.Fail("purity:obs:GetMergeCells:overlapping-merges", "GetCellValue answers differently after GetMergeCells: "+line+" => "+res, ln, line)
			}
			continue
		}
		if w[0] == "sheet" {
			// a full transcript replay: run the whole case on this description
			if d, ok := c04ParseDesc(w[1:]); ok {
				c04XMLCase(r, NewRng(1), d, "replay")
				return
			}
		}
		s.op(line)
	}
}

func init() {
	if p := os.Getenv("C04_PROF"); p != "" {
		f, _ := os.Create(p)
		pprof.StartCPUProfile(f)
		c04StopProf = pprof.StopCPUProfile
	}
}

var c04StopProf = func() {}

// content keeps what a dump says about cells that carry a value, formula or style and
// about rows that are hidden or have such cells (a worksheet part passed through unread
// keeps attribute-less empty <c/> and <row/> elements that a re-marshalled one drops).
func c04Content(d string) string {
	if !strings.HasPrefix(d, "ok ") || d == "ok ." {
		return d
	}
	var rows []string
	for _, r := range strings.Split(d[3:], "|") {
		i := strings.Index(r, ":")
		if i < 0 {
			rows = append(rows, r)
			continue
		}
		var cells []string
		if r[i+1:] != "" {
			for _, c := range strings.Split(r[i+1:], ",") {
				p := strings.Split(c, ".")
				if len(p) == 4 && p[2] == "0" && p[3] == "-" {
					continue
				}
				cells = append(cells, c)
			}
		}
		if len(cells) == 0 && strings.HasSuffix(r[:i], "h0") {
			continue
		}
		rows = append(rows, r[:i+1]+strings.Join(cells, ","))
	}
	return "ok " + strings.Join(rows, "|")
}

func c04RewritePart(pkg []byte, name string, fn func([]byte) []byte) []byte {
	zr, err := zip.NewReader(bytes.NewReader(pkg), int64(len(pkg)))
	must(err)
	var out bytes.Buffer
	zw := zip.NewWriter(&out)
	for _, e := range zr.File {
		rc, err := e.Open()
		must(err)
		b, err := io.ReadAll(rc)
		must(err)
		rc.Close()
		if e.Name == name {
			b = fn(b)
		}
		w, err := zw.CreateHeader(&zip.FileHeader{Name: e.Name, Method: zip.Store})
		must(err)
		w.Write(b)
	}
	must(zw.Close())
	return out.Bytes()
}

func c04PartOfSave(f *xl.File, name string) string {
	buf, err := f.WriteToBuffer()
	if err != nil {
		return "save ERR"
	}
	zr, err := zip.NewReader(bytes.NewReader(buf.Bytes()), int64(buf.Len()))
	if err != nil {
		return "zip ERR"
	}
	for _, e := range zr.File {
		if e.Name == name {
			rc, _ := e.Open()
			b, _ := io.ReadAll(rc)
			rc.Close()
			return string(b)
		}
	}
	return ""
}

func c04NoSST(xs []string) []string {
	var out []string
	for _, x := range xs {
		if !strings.HasPrefix(x, "xl/sharedStrings.xml = ") {
			out = append(out, x)
		}
	}
	return out
}

// mergewit c r  c1 r1 c2 r2 ...: on a new file MergeCell every range, set (c,r) (outside every
// range) to "v", then GetCellValue(c,r), GetMergeCells, GetCellValue(c,r): "ok <is v> <ranges> <is v>"
func c04MergeWit(w []string) string {
	var ns []int
	for _, x := range w {
		n, err := strconv.Atoi(x)
		if err != nil || n < 1 || n > 1000 {
			return "bad-op"
		}
		ns = append(ns, n)
	}
	if len(ns) < 2 || (len(ns)-2)%4 != 0 {
		return "bad-op"
	}
	f := xl.NewFile()
	defer f.Close()
	for i := 2; i+3 < len(ns); i += 4 {
		if err := f.MergeCell("Sheet1", c04Name(ns[i], ns[i+1]), c04Name(ns[i+2], ns[i+3])); err != nil {
			return "ERR"
		}
	}
	cell := c04Name(ns[0], ns[1])
	if err := f.SetCellValue("Sheet1", cell, "v"); err != nil {
		return "ERR"
	}
	b2i := func(b bool) int {
		if b {
			return 1
		}
		return 0
	}
	v1, _ := f.GetCellValue("Sheet1", cell)
	m, err := f.GetMergeCells("Sheet1")
	if err != nil {
		return "ERR"
	}
	v2, _ := f.GetCellValue("Sheet1", cell)
	return fmt.Sprintf("ok %d %d %d", b2i(v1 == "v"), len(m), b2i(v2 == "v"))
}

// mergeCases: the witness of the open finding plus generated range lists
func c04MergeCases(r *Run, rng *Rng, n int) {
	s := &c04State{r: r}
	run := func(line string) {
		s.replay = nil
		ln, res := s.op(line)
		r.Case(line, true)
		r.Stat("mergewit")
		var b, k, a int
		if _, err := fmt.Sscanf(res, "ok %d %d %d", &b, &k, &a); err != nil {
			r.Fail("agree:mergewit-error", "GetMergeCells scenario fails: "+res, ln, line)
			return
		}
		if b != a {
			r.Fail("purity:obs:GetMergeCells:overlapping-merges", "GetCellValue of a cell outside every merged range answers differently after GetMergeCells (overlapping merged ranges are normalised in place): "+line+" => "+res, ln, line)
		}
	}
	run("mergewit 5 7 4 8 6 10 2 7 4 9") // E7; D8:F10, B7:D9
	for i := 0; i < n; i++ {
		k := rng.Range(1, 4)
		var rects [][4]int
		for j := 0; j < k; j++ {
			c1, r1 := rng.Range(1, 7), rng.Range(1, 7)
			rects = append(rects, [4]int{c1, r1, c1 + rng.Range(0, 3), r1 + rng.Range(0, 3)})
		}
		c, ro := 0, 0
		for try := 0; try < 50 && c == 0; try++ {
			x, y := rng.Range(1, 10), rng.Range(1, 10)
			in := false
			for _, q := range rects {
				if q[0] <= x && x <= q[2] && q[1] <= y && y <= q[3] {
					in = true
				}
			}
			if !in {
				c, ro = x, y
			}
		}
		if c == 0 {
			continue
		}
		line := fmt.Sprintf("mergewit %d %d", c, ro)
		for _, q := range rects {
			line += fmt.Sprintf(" %d %d %d %d", q[0], q[1], q[2], q[3])
		}
		run(line)
	}
}

// decodeSheet: the content of a saved worksheet part, independent of how it was serialised
// (a part passed through unread vs a re-marshalled one): every cell that carries a value,
// formula, inline string or style at its effective position with type, style, stored text,
// formula attributes and formula text; hidden rows; merged ranges.
type c04xF struct {
	T       string `xml:"t,attr"`
	Ref     string `xml:"ref,attr"`
	Si      string `xml:"si,attr"`
	Content string `xml:",chardata"`
}
type c04xIS struct {
	T *string `xml:"t"`
	R []struct {
		T string `xml:"t"`
	} `xml:"r"`
}
type c04xC struct {
	R  string  `xml:"r,attr"`
	T  string  `xml:"t,attr"`
	S  string  `xml:"s,attr"`
	V  *string `xml:"v"`
	F  *c04xF  `xml:"f"`
	IS *c04xIS `xml:"is"`
}
type c04xRow struct {
	R      int     `xml:"r,attr"`
	Hidden string  `xml:"hidden,attr"`
	C      []c04xC `xml:"c"`
}
type c04xWS struct {
	Rows   []c04xRow `xml:"sheetData>row"`
	Merges []struct {
		Ref string `xml:"ref,attr"`
	} `xml:"mergeCells>mergeCell"`
}

func c04DecodeSheet(b []byte) string {
	var ws c04xWS
	if err := xml.Unmarshal(b, &ws); err != nil {
		return "decode ERR"
	}
	var out []string
	cur := 0
	for _, row := range ws.Rows {
		if row.R != 0 {
			cur = row.R
		} else {
			cur++
		}
		if row.Hidden == "1" || row.Hidden == "true" {
			out = append(out, fmt.Sprintf("row%d:hidden", cur))
		}
		cc := 0
		for _, c := range row.C {
			cc++
			if c.R != "" {
				if col, _, err := xl.CellNameToCoordinates(c.R); err == nil {
					cc = col
				}
			}
			if c.V == nil && c.F == nil && c.IS == nil && (c.S == "" || c.S == "0") {
				continue
			}
			e := fmt.Sprintf("%s:t=%s:s=%s", c04Name(cc, cur), c.T, strings.TrimPrefix(c.S, "0"))
			if c.V != nil {
				e += ":v=" + hx(*c.V)
			}
			if c.F != nil {
				e += fmt.Sprintf(":f=%s/%s/%s/%s", c.F.T, c.F.Ref, c.F.Si, hx(c.F.Content))
			}
			if c.IS != nil {
				t := ""
				if c.IS.T != nil {
					t = *c.IS.T
				}
				for _, run := range c.IS.R {
					t += run.T
				}
				e += ":is=" + hx(t)
			}
			out = append(out, e)
		}
	}
	for _, m := range ws.Merges {
		out = append(out, "merge:"+m.Ref)
	}
	return strings.Join(out, " ")
}

// onlyHiddenLost: the two saved contents differ only by `rowN:hidden` tokens present in a and
// missing in b
func c04OnlyHiddenLost(a, b []string) bool {
	if len(a) != len(b) {
		return false
	}
	lost := false
	for i := range a {
		if a[i] == b[i] {
			continue
		}
		ta, tb := strings.Fields(a[i]), strings.Fields(b[i])
		inB := map[string]bool{}
		for _, t := range tb {
			inB[t] = true
		}
		var rest []string
		for _, t := range ta {
			if !inB[t] && strings.HasPrefix(t, "row") && strings.HasSuffix(t, ":hidden") {
				lost = true
				continue
			}
			rest = append(rest, t)
		}
		if strings.Join(rest, " ") != strings.Join(tb, " ") {
			return false
		}
	}
	return lost
}

// the cell getters, for a given sheet and cell
func c04ReadKind(rng *Rng, k int, sheet, cell string) c04Read {
	switch k {
	case 4:
		return c04Read{fmt.Sprintf("GetCellValue(%q,%q,raw)", sheet, cell), func(f *xl.File) string { return c04Fmt(f.GetCellValue(sheet, cell, c04RawOpt)) }}
	case 20:
		return c04Read{fmt.Sprintf("GetCellFormula(%q,%q)", sheet, cell), func(f *xl.File) string { return c04Fmt(f.GetCellFormula(sheet, cell)) }}
	case 24:
		return c04Read{fmt.Sprintf("GetCellType(%q,%q)", sheet, cell), func(f *xl.File) string { return c04Fmt(f.GetCellType(sheet, cell)) }}
	case 26:
		return c04Read{fmt.Sprintf("GetCellRichText(%q,%q)", sheet, cell), func(f *xl.File) string { return c04Fmt(f.GetCellRichText(sheet, cell)) }}
	}
	return c04Read{fmt.Sprintf("GetCellValue(%q,%q)", sheet, cell), func(f *xl.File) string { return c04Fmt(f.GetCellValue(sheet, cell)) }}
}

// ---------------------------------------------------------------- shared strings from a temporary file

var c04SSTTmpl []byte

// sstPackage: a workbook whose shared string table holds the given items (`p:<hex>` plain,
// `r:<hex>:<hex>` two runs) and whose first row refers to them in order
func c04SSTPackage(items []string) ([]byte, bool) {
	if c04SSTTmpl == nil {
		f := xl.NewFile()
		must(f.SetCellValue("Sheet1", "A1", "seed"))
		buf, err := f.WriteToBuffer()
		must(err)
		f.Close()
		c04SSTTmpl = buf.Bytes()
	}
	var sst, row strings.Builder
	fmt.Fprintf(&sst, `<?xml version="1.0" encoding="UTF-8" standalone="yes"?>`+"\n"+`<sst xmlns="http://schemas.openxmlformats.org/spreadsheetml/2006/main" count="%d" uniqueCount="%d">`, len(items), len(items))
	row.WriteString(`<row r="1">`)
	for i, it := range items {
		p := strings.Split(it, ":")
		for _, h := range p[1:] {
			if !c04IsHex(h) || h == "-" {
				return nil, false
			}
		}
		switch {
		case len(p) == 2 && p[0] == "p":
			sst.WriteString(`<si><t xml:space="preserve">` + c04Esc(unhx(p[1])) + `</t></si>`)
		case len(p) == 3 && p[0] == "r":
			sst.WriteString(`<si><r><t xml:space="preserve">` + c04Esc(unhx(p[1])) + `</t></r><r><rPr><b/></rPr><t xml:space="preserve">` + c04Esc(unhx(p[2])) + `</t></r></si>`)
		default:
			return nil, false
		}
		fmt.Fprintf(&row, `<c r="%s" t="s"><v>%d</v></c>`, c04Name(i+1, 1), i)
	}
	sst.WriteString(`</sst>`)
	row.WriteString(`</row>`)
	pkg := c04RewritePart(c04SSTTmpl, "xl/sharedStrings.xml", func([]byte) []byte { return []byte(sst.String()) })
	pkg = c04RewritePart(pkg, "xl/worksheets/sheet1.xml", func([]byte) []byte { return []byte(c04Hdr + row.String() + c04Ftr) })
	return pkg, true
}

func c04RowOf(f *xl.File) string {
	g, err := f.GetRows("Sheet1")
	if err != nil {
		return "ERR"
	}
	if len(g) == 0 {
		return "ok ~"
	}
	return strings.TrimPrefix(c04Grid(g[:1], nil), "")
}

// sst op: the first row as a workbook opened with its XML parts in temporary files shows it;
// the second result is the list of oracle complaints (memory open, reads after GetCellRichText)
func c04SST(items []string) (string, []string) {
	if len(items) == 0 {
		return "bad-op", nil
	}
	pkg, ok := c04SSTPackage(items)
	if !ok {
		return "bad-op", nil
	}
	spill, err := xl.OpenReader(bytes.NewReader(pkg), xl.Options{UnzipXMLSizeLimit: 64})
	must(err)
	defer spill.Close()
	res := c04RowOf(spill)
	var bad []string
	mem := c04Open(pkg)
	if m := c04RowOf(mem); m != res {
		bad = append(bad, fmt.Sprintf("agree:spill-vs-memory|GetRows of the same package: parts in temporary files %s, in memory %s", res, m))
	}
	mem.Close()
	for i := range items {
		_, _ = spill.GetCellRichText("Sheet1", c04Name(i+1, 1))
	}
	if again := c04RowOf(spill); again != res {
		bad = append(bad, fmt.Sprintf("purity:obs:GetCellRichText:spilled-strings|GetRows of a workbook with spilled shared strings %s, after GetCellRichText of its cells %s", res, again))
	}
	v, _ := spill.GetCellValue("Sheet1", c04Name(len(items), 1))
	if g := c04CellOfRow(res, len(items)); g != hx(v) && !(g == "-" && v == "") {
		bad = append(bad, fmt.Sprintf("agree:getrows-vs-getcellvalue|last cell: GetRows %s, GetCellValue %q", g, v))
	}
	return res, bad
}

func c04CellOfRow(res string, k int) string {
	if !strings.HasPrefix(res, "ok ") {
		return res
	}
	p := strings.Split(res[3:], ",")
	if k-1 < len(p) {
		return p[k-1]
	}
	return "-"
}

func c04SSTCases(r *Run, rng *Rng, n int) {
	s := &c04State{r: r}
	words := []string{"a", "bb", "needle", "x y", "R", "plain", "<&>", "é"}
	run := func(line string) {
		s.replay = nil
		ln, _ := s.op(line)
		r.Case(line, true)
		r.Stat("sst")
		_, bad := c04SST(strings.Fields(line)[1:])
		for _, b := range bad {
			p := strings.SplitN(b, "|", 2)
			r.Fail(p[0], p[1]+" :: "+line, ln, line)
		}
	}
	run("sst p:" + hx("plain") + " r:" + hx("ri") + ":" + hx("ch") + " p:" + hx("z")) // a rich item after a plain one
	for i := 0; i < n; i++ {
		k := rng.Range(1, 6)
		line := "sst"
		for j := 0; j < k; j++ {
			if rng.Chance(45) {
				line += " r:" + hx(rng.Pick(words)) + ":" + hx(rng.Pick(words))
			} else {
				line += " p:" + hx(rng.Pick(words))
			}
		}
		run(line)
	}
}

// c04RecipePanics: recipe ops (setters) that panicked, with the ops before them
var c04RecipePanics = map[string]bool{}

func c04ApplyOp(f *xl.File, kind, sheet, cell, cell2, sval string, fval float64, ival int, styles []int) {
	switch kind {
	case "str":
		f.SetCellValue(sheet, cell, sval)
	case "float":
		f.SetCellValue(sheet, cell, fval)
	case "int":
		f.SetCellValue(sheet, cell, ival)
	case "bool":
		f.SetCellValue(sheet, cell, true)
	case "formula":
		f.SetCellFormula(sheet, cell, sval)
	case "style":
		f.SetCellStyle(sheet, cell, cell, styles[ival])
	case "fmtnum":
		f.SetCellValue(sheet, cell, fval)
		f.SetCellStyle(sheet, cell, cell, styles[ival])
	case "merge":
		f.MergeCell(sheet, cell, cell2)
	case "rowhide":
		f.SetRowVisible(sheet, ival, false)
	case "rowheight":
		f.SetRowHeight(sheet, ival, fval)
	case "default":
		f.SetCellDefault(sheet, cell, sval)
	case "link":
		f.SetCellHyperLink(sheet, cell, sval, "External")
	case "rich":
		f.SetCellRichText(sheet, cell, []xl.RichTextRun{{Text: sval, Font: &xl.Font{Bold: true}}, {Text: "-run"}})
	case "shared":
		t, ref := xl.STCellFormulaTypeShared, cell+":"+cell2
		f.SetCellFormula(sheet, cell, sval, xl.FormulaOpts{Type: &t, Ref: &ref})
	}
}

// ---------------------------------------------------------------- typed cells (getValueFrom by cell type)

func c04SIXML(it string) (string, bool) {
	p := strings.Split(it, ":")
	for _, h := range p[1:] {
		if !c04IsHex(h) {
			return "", false
		}
	}
	switch {
	case len(p) == 2 && p[0] == "p":
		return `<t xml:space="preserve">` + c04Esc(unhx(p[1])) + `</t>`, true
	case len(p) == 3 && p[0] == "r":
		return `<r><t xml:space="preserve">` + c04Esc(unhx(p[1])) + `</t></r><r><rPr><b/></rPr><t xml:space="preserve">` + c04Esc(unhx(p[2])) + `</t></r>`, true
	}
	return "", false
}

// typed <raw> <sst items> / <cells>: the first row as GetRows shows it (raw or formatted); the
// second result lists oracle complaints (GetCols, GetCellValue, SearchSheet on the same cells)
func c04Typed(w []string) (string, []string) {
	if len(w) < 3 || (w[0] != "0" && w[0] != "1") {
		return "bad-op", nil
	}
	raw := w[0] == "1"
	sep := -1
	for i, x := range w {
		if x == "/" {
			sep = i
		}
	}
	if sep < 1 || sep == len(w)-1 {
		return "bad-op", nil
	}
	items, cells := w[1:sep], w[sep+1:]
	c04SSTPackage([]string{"p:61"}) // make sure the template exists
	var sst, row strings.Builder
	fmt.Fprintf(&sst, `<?xml version="1.0" encoding="UTF-8" standalone="yes"?>`+"\n"+`<sst xmlns="http://schemas.openxmlformats.org/spreadsheetml/2006/main" count="%d" uniqueCount="%d">`, len(items), len(items))
	for _, it := range items {
		x, ok := c04SIXML(it)
		if !ok {
			return "bad-op", nil
		}
		sst.WriteString("<si>" + x + "</si>")
	}
	sst.WriteString("</sst>")
	row.WriteString(`<row r="1">`)
	for i, c := range cells {
		ref := c04Name(i+1, 1)
		if strings.HasPrefix(c, "is:") {
			x, ok := c04SIXML(c[3:])
			if !ok {
				return "bad-op", nil
			}
			fmt.Fprintf(&row, `<c r="%s" t="inlineStr"><is>%s</is></c>`, ref, x)
			continue
		}
		p := strings.Split(c, ":")
		if len(p) != 2 || !c04IsHex(p[1]) {
			return "bad-op", nil
		}
		switch p[0] {
		case "b", "d", "s", "str", "e", "n":
		default:
			return "bad-op", nil
		}
		fmt.Fprintf(&row, `<c r="%s" t="%s"><v>%s</v></c>`, ref, p[0], c04Esc(unhx(p[1])))
	}
	row.WriteString("</row>")
	pkg := c04RewritePart(c04SSTTmpl, "xl/sharedStrings.xml", func([]byte) []byte { return []byte(sst.String()) })
	pkg = c04RewritePart(pkg, "xl/worksheets/sheet1.xml", func([]byte) []byte { return []byte(c04Hdr + row.String() + c04Ftr) })
	f := c04Open(pkg)
	defer f.Close()
	opts := []xl.Options{}
	if raw {
		opts = append(opts, c04RawOpt)
	}
	g, err := f.GetRows("Sheet1", opts...)
	if err != nil {
		return "ERR", nil
	}
	res := "ok ~"
	if len(g) > 0 {
		res = c04Grid(g[:1], nil)
	}
	var bad []string
	gc, _ := f.GetCols("Sheet1", opts...)
	for i := range cells {
		v, err := f.GetCellValue("Sheet1", c04Name(i+1, 1), opts...)
		if err != nil {
			bad = append(bad, "agree:getcellvalue-error|"+err.Error())
			continue
		}
		if rv := c04CellOf(g, i+1, 1); rv != v {
			bad = append(bad, fmt.Sprintf("agree:getrows-vs-getcellvalue|typed cell %s (%s): GetCellValue %q, GetRows %q", c04Name(i+1, 1), cells[i], v, rv))
		}
		if cv := c04CellOf(gc, 1, i+1); cv != v {
			bad = append(bad, fmt.Sprintf("agree:getcols-vs-getcellvalue|typed cell %s (%s): GetCellValue %q, GetCols %q", c04Name(i+1, 1), cells[i], v, cv))
		}
		if !raw && v != "" {
			hit, err := f.SearchSheet("Sheet1", v)
			found := false
			for _, h := range hit {
				found = found || h == c04Name(i+1, 1)
			}
			if err != nil || !found {
				bad = append(bad, fmt.Sprintf("agree:search-vs-getrows|typed cell %s (%s) shows %q, SearchSheet of that text = %v %v", c04Name(i+1, 1), cells[i], v, hit, err))
			}
		}
	}
	return res, bad
}

func c04TypedCases(r *Run, rng *Rng, n int) {
	s := &c04State{r: r}
	texts := []string{"a", "bb", "x y", "_x0041_b", "a_x005F_b", "_x0041", "TRUE", "1", "0", "42", "3.5", "<&>", "é", "#DIV/0!", "2020-01-01"}
	run := func(line string) {
		s.replay = nil
		ln, _ := s.op(line)
		r.Case(line, true)
		r.Stat("typed")
		_, bad := c04Typed(strings.Fields(line)[1:])
		for _, b := range bad {
			p := strings.SplitN(b, "|", 2)
			r.Fail(p[0], p[1]+" :: "+line, ln, line)
		}
	}
	item := func() string {
		if rng.Chance(40) {
			return "r:" + hx(rng.Pick(texts)) + ":" + hx(rng.Pick(texts))
		}
		return "p:" + hx(rng.Pick(texts))
	}
	run("typed 1 p:" + hx("plain") + " r:" + hx("_x0041_") + ":" + hx("z") + " / s:" + hx("1") + " s:" + hx("7") + " s:" + hx("-1") + " s:" + hx("x") + " b:" + hx("1") + " str:" + hx("_x0042_c") + " is:p:" + hx("in_x0043_") + " e:" + hx("#N/A") + " d:" + hx("2020-01-01") + " n:" + hx("42"))
	run("typed 0 p:" + hx("plain") + " / b:" + hx("1") + " b:" + hx("0") + " b:" + hx("2") + " s:" + hx("0") + " str:" + hx("q") + " is:r:" + hx("a") + ":" + hx("b") + " e:" + hx("#N/A") + " n:" + hx("42"))
	for i := 0; i < n; i++ {
		raw := rng.Intn(2)
		line := fmt.Sprintf("typed %d", raw)
		k := rng.Range(1, 4)
		for j := 0; j < k; j++ {
			line += " " + item()
		}
		line += " /"
		m := rng.Range(1, 7)
		for j := 0; j < m; j++ {
			switch rng.Intn(8) {
			case 0:
				line += " b:" + hx(rng.Pick([]string{"1", "0", "2", "TRUE"}))
			case 1, 2:
				line += " s:" + hx(rng.Pick([]string{"0", "1", "2", "3", "9", "-1", "x", "01"}))
			case 3:
				line += " str:" + hx(rng.Pick(texts))
			case 4:
				line += " is:" + item()
			case 5:
				line += " e:" + hx(rng.Pick([]string{"#N/A", "#DIV/0!", "#REF!"}))
			case 6:
				if raw == 1 {
					line += " d:" + hx(rng.Pick([]string{"2020-01-01", "x"}))
				} else {
					line += " n:" + hx(rng.Pick([]string{"42", "3.5", "100"}))
				}
			default:
				line += " n:" + hx(rng.Pick([]string{"42", "3.5", "0", "100", "7"}))
			}
		}
		run(line)
	}
}
