//go:build verif_c05

package main

// C05 — every written file is a structurally valid OPC/SpreadsheetML package.
//
// Two kinds of transcript lines (driver: lean/XlModel/Drv/C05.lean):
//
//   h.*   one API call of a history (c05_hist.go); result "." (not predicted by the model)
//   g.*   the part graph of the package written by the preceding h.save, extracted with
//         archive/zip + encoding/xml only (c05_graph.go); `g.end` carries the verdict of the
//         Lean validator XlModel.Pkg.WF. The harness obtains the verdict by piping the same
//         lines through the compiled Lean driver, so that a failing conjunct becomes an
//         oracle failure with a signature and a replayable history.
//   bk.*  bookkeeping operations executed on a real *File through the VerifC05… hooks; the
//         result is the canonical dump of content types / relationships / sheet list, and the
//         Lean driver prints the dump predicted by XlModel.Pkg.Impl (Go-vs-Impl).

import (
	"bufio"
	"bytes"
	"crypto/sha1"
	"fmt"
	"io"
	"os"
	"os/exec"
	"path/filepath"
	"regexp"
	"sort"
	"strconv"
	"strings"

	xl "github.com/xuri/excelize/v2"
)

func init() { props["C05"] = runC05 }

// ------------------------------------------------------------ Lean validator process

type c05Drv struct {
	cmd   *exec.Cmd
	in    *bufio.Writer
	out   *bufio.Reader
	ok    bool
	stdin io.WriteCloser
}

// c05StartDrv starts the compiled Lean driver of C05 as a co-process. The check copies it to
// work/C05/drv (= <out dir>/../drv); $VH_DRV overrides the location.
func c05StartDrv(outDir string) *c05Drv {
	path := os.Getenv("VH_DRV")
	if path == "" {
		path = filepath.Join(outDir, "..", "drv")
		if _, err := os.Stat(path); err != nil {
			path = filepath.Join("..", "lean", ".lake", "build", "bin", "drv_C05")
		}
	}
	d := &c05Drv{}
	cmd := exec.Command(path)
	stdin, err1 := cmd.StdinPipe()
	stdout, err2 := cmd.StdoutPipe()
	if err1 != nil || err2 != nil || cmd.Start() != nil {
		return d
	}
	d.cmd, d.in, d.out, d.ok = cmd, bufio.NewWriterSize(stdin, 1<<20), bufio.NewReaderSize(stdout, 1<<20), true
	d.stdin = stdin
	return d
}

// eval sends the lines and returns one answer per line.
func (d *c05Drv) eval(lines []string) []string {
	res := make([]string, len(lines))
	if !d.ok {
		for i := range res {
			res[i] = "validator-unavailable"
		}
		return res
	}
	done := make(chan struct{})
	go func() {
		for _, l := range lines {
			d.in.WriteString(l)
			d.in.WriteByte('\n')
		}
		d.in.Flush()
		close(done)
	}()
	for i := range lines {
		s, err := d.out.ReadString('\n')
		if err != nil {
			d.ok = false
			for j := i; j < len(res); j++ {
				res[j] = "validator-unavailable"
			}
			break
		}
		res[i] = strings.TrimRight(s, "\r\n")
	}
	<-done
	return res
}

func (d *c05Drv) close() {
	if d.cmd != nil {
		d.stdin.Close()
		_ = d.cmd.Wait()
	}
}

// ------------------------------------------------------------ validation of one saved package

type c05Verdict struct {
	fails [][2]string // conjunct, detail
	lines []string
	outs  []string
	zip   error
}

func c05Validate(d *c05Drv, data []byte) c05Verdict {
	lines, zerr := c05Graph(data)
	if zerr != nil {
		return c05Verdict{zip: zerr}
	}
	outs := d.eval(lines)
	v := c05Verdict{lines: lines, outs: outs}
	last := outs[len(outs)-1]
	switch {
	case last == "wf ok":
	case strings.HasPrefix(last, "wf FAIL "):
		for _, f := range strings.Split(strings.TrimPrefix(last, "wf FAIL "), " ;; ") {
			p := strings.SplitN(f, " :: ", 2)
			if len(p) == 2 {
				v.fails = append(v.fails, [2]string{p[0], p[1]})
			}
		}
	default:
		v.fails = append(v.fails, [2]string{"validator", last})
	}
	for i, o := range outs[:len(outs)-1] {
		if o != "." {
			v.fails = append(v.fails, [2]string{"protocol", "line `" + lines[i] + "` answered `" + o + "`"})
		}
	}
	return v
}

var c05Digits = strings.NewReplacer("0", "", "1", "", "2", "", "3", "", "4", "", "5", "", "6", "", "7", "", "8", "", "9", "")

// c05Sig: conjunct, refined by the sub-check (worksheet/styles/calc-chain/table) or by the
// kind of part concerned (digits stripped), so that a known finding suppresses only its own kind.
func c05Sig(f [2]string) string {
	sig := "wf:" + f[0]
	w := strings.Fields(f[1])
	switch f[0] {
	case "worksheet", "styles", "calc-chain", "table-unique":
		if len(w) > 0 {
			sig += ":" + strings.TrimSuffix(w[0], ":")
		}
	case "xml-wellformed":
		// detail: "part <name> is not well-formed XML: in <elem>: <parser message class>"
		if len(w) > 1 {
			sig += ":" + c05Digits.Replace(w[1])
		}
		if i := strings.Index(f[1], "XML: "); i >= 0 {
			sig += ":" + strings.ReplaceAll(c05Digits.Replace(f[1][i+5:]), " ", "_")
		}
	case "zip-unique":
		// detail: "duplicate zip entry <name>"
		if len(w) > 3 {
			sig += ":" + c05Digits.Replace(w[3])
		}
	case "ct-cover":
		// detail: "part <name> …"
		if strings.HasPrefix(f[1], "part  ") {
			sig += ":<empty-entry-name>"
		} else if len(w) > 1 {
			sig += ":" + c05Digits.Replace(w[1])
			if strings.HasSuffix(f[1], "(referenced)") {
				sig += ":referenced"
			} else if strings.HasSuffix(f[1], "(unreferenced)") {
				sig += ":unreferenced"
			}
		}
	case "rid-resolves":
		if len(w) > 0 {
			sig += ":" + c05Digits.Replace(strings.TrimSuffix(w[0], ":"))
		}
	case "rel-target":
		// detail: "<rels part>: <id> target <target> does not resolve to a part"
		if len(w) > 3 {
			sig += ":" + c05Digits.Replace(strings.TrimSuffix(w[0], ":")) + "->" + c05Digits.Replace(w[3])
		}
	}
	// one class for all image formats
	return c05MediaExt.ReplaceAllString(sig, "/media/image.*")
}

var c05MediaExt = regexp.MustCompile(`/media/image\.[A-Za-z]+`)

// c05RunHistory executes a history, validating after every successful h.save.
// With rec != nil the transcript is recorded and failures are reported.
// Returns the set of failure signatures seen (sig → first detail).
func c05RunHistory(r *Run, d *c05Drv, hist []string, rec bool, label string) map[string]string {
	h := &c05Hist{}
	defer h.c05Close()
	sigs := map[string]string{}
	inherited := map[string]bool{} // conjuncts already failing in the opened input package
	rejectedEdit := false          // a row/column edit answered with an error since the workbook was created/opened
	copiedOver := false            // CopySheet replaced the content of a worksheet since then
	emptySpelled := false          // SetCellFormula(cell, "") was called with a non-canonical spelling of the cell
	for i, line := range hist {
		op := strings.Fields(line)[0]
		res := c05Exec(h, line)
		if (op == "h.open" || op == "h.openbytes") && res == "ok" {
			var in []byte
			if op == "h.open" {
				in, _ = os.ReadFile(filepath.Join(c05Repo(), "test", strings.Fields(line)[1]))
			} else {
				in = []byte(unhx(strings.Fields(line)[1]))
			}
			inherited = map[string]bool{}
			if v := c05Validate(d, in); v.zip == nil {
				for _, f := range v.fails {
					inherited[f[0]] = true
				}
			}
		}
		switch op {
		case "h.new", "h.open", "h.openbytes":
			rejectedEdit, copiedOver, emptySpelled = false, false, false
		case "h.copysheet":
			if res == "ok" {
				copiedOver = true
			}
		case "h.setformula":
			// SetCellFormula(cell, "") with a spelling that is not the canonical reference
			if w := strings.Fields(line); len(w) > 3 && w[3] == "-" && w[2] != strings.ToUpper(strings.ReplaceAll(w[2], "$", "")) && res == "ok" {
				emptySpelled = true
			}
		case "h.insrows", "h.inscols", "h.rmrow", "h.rmcol", "h.duprow", "h.duprowto":
			if res == "ERR" {
				rejectedEdit = true
			}
		}
		if rec {
			r.Op(line, ".")
			cls := res
			if strings.HasPrefix(res, "PANIC") {
				cls = "PANIC"
				r.Stat("panic:" + op)
				if len(r.Notes) < 40 {
					r.Notes = append(r.Notes, fmt.Sprintf("%s: %s panicked: %s", label, op, res))
				}
			}
			r.Stat("op:" + op + ":" + cls)
		}
		if strings.HasPrefix(res, "PANIC") {
			// a recovered panic can leave the File's mutexes locked: the history ends here
			if rec {
				r.Stat("history-aborted-after-panic")
			}
			break
		}
		if op != "h.save" {
			continue
		}
		if res != "ok" {
			if rec {
				r.Stat("save:" + strings.Fields(res)[0])
				if len(r.Notes) < 40 {
					r.Notes = append(r.Notes, fmt.Sprintf("%s: WriteToBuffer failed (%s) after %d ops: %v", label, res, i, h.saveErr))
				}
			}
			continue
		}
		v := c05Validate(d, h.last)
		replay := strings.Join(hist[:i+1], "\n")
		if v.zip != nil {
			sigs["zip:open"] = v.zip.Error()
			if rec {
				r.Fail("zip:open", "archive/zip cannot open the written package: "+v.zip.Error(), 0, replay)
			}
			continue
		}
		endLine := 0
		if rec {
			for k, l := range v.lines {
				endLine = r.Op(l, v.outs[k])
			}
			hsh := sha1.Sum([]byte(strings.Join(v.lines, "\n")))
			r.Case(string(hsh[:]), len(v.lines) > c05TemplateLines)
			r.Stat("packages")
			for _, c := range c05Coverage(v.lines) {
				r.Stat("wfcov:" + c)
			}
			r.Stat(fmt.Sprintf("package-parts:%02d+", min(c05CountPrefix(v.lines, "g.part ")/5*5, 40)))
		}
		for _, f := range v.fails {
			sig := c05Sig(f)
			if f[0] == "calc-chain" && rejectedEdit {
				// a rejected row/column edit is not atomic (its own finding): keep it apart from a
				// calcChain that goes stale under accepted edits
				sig += ":after-rejected-row-col-edit"
			} else if f[0] == "calc-chain" && copiedOver {
				// CopySheet does not drop the chain entries of the worksheet it overwrites (its own finding)
				sig += ":after-copysheet"
			} else if f[0] == "calc-chain" && emptySpelled {
				// SetCellFormula("") hands the caller's spelling to deleteCalcChain (its own finding)
				sig += ":after-empty-formula-by-noncanonical-ref"
			}
			if inherited[f[0]] {
				// the input fixture already violates this conjunct: not attributable to the library
				if rec {
					r.Stat("inherited:" + sig)
				}
				continue
			}
			if _, seen := sigs[sig]; !seen {
				sigs[sig] = f[1]
			}
			if rec {
				r.Fail(sig, "written package is not well-formed: "+f[0]+": "+f[1], endLine, replay)
			}
		}
	}
	return sigs
}

// c05Coverage: which WF conjuncts a package exercises non-trivially (it HAS the thing the
// conjunct speaks about), so that thin coverage is visible in the evidence distribution.
func c05Coverage(lines []string) []string {
	n := map[string]int{}
	parts := 0
	for _, l := range lines {
		w := strings.Fields(l)
		switch w[0] {
		case "g.part":
			parts++
			p := unhx(w[1])
			switch {
			case strings.HasPrefix(p, "xl/media/"):
				n["media"]++
			case strings.HasPrefix(p, "xl/drawings/vmlDrawing"):
				n["vml"]++
			case strings.HasPrefix(p, "xl/drawings/drawing"):
				n["drawing"]++
			case strings.HasPrefix(p, "xl/charts/"):
				n["chart"]++
			case strings.HasPrefix(p, "xl/chartsheets/sheet"):
				n["chartsheet"]++
			case strings.HasPrefix(p, "xl/pivotTables/"):
				n["pivot"]++
			case strings.HasPrefix(p, "xl/slicers/"):
				n["slicer"]++
			}
		case "g.sheet":
			n["sheet"]++
		case "g.rel":
			n["rel"]++
			if strings.HasSuffix(l, "|"+hx("External")) {
				n["rel-external"]++
			}
		case "g.rid":
			if unhx(w[1]) != "xl/workbook.xml" {
				n["rid-nonworkbook"]++
			}
		case "g.dname":
			if w[2] != "-1" {
				n["dname-local"]++
			}
		case "g.row":
			if len(w) > 2 {
				n["row-cells"]++
			}
			for _, c := range w[2:] {
				f := strings.Split(c, ",")
				if len(f) == 5 {
					if f[2] == hx("s") {
						n["cell-sst"]++
					}
					if f[1] != "0" {
						n["cell-style"]++
					}
				}
			}
		case "g.merge":
			n["merge"]++
		case "g.dxf":
			n["dxf"]++
		case "g.cc":
			n["calc"]++
		case "g.table":
			n["table"]++
		case "g.comment":
			n["comment"]++
		case "g.bad":
			n["bad"]++
		case "g.styles":
			if len(w) > 8 {
				n["xf>1"]++
			}
		}
	}
	var out []string
	add := func(ok bool, name string) {
		if ok {
			out = append(out, name)
		}
	}
	add(parts > 10, "ct-cover,zip-unique:parts>template")
	add(n["media"] > 0, "ct-cover:media")
	add(n["vml"] > 0, "ct-cover:vml")
	add(n["rel"] > 6, "rel-id-unique,rel-target:rels>template")
	add(n["rel-external"] > 0, "rel-target:external")
	add(n["rid-nonworkbook"] > 0, "rid-resolves:outside-workbook")
	add(n["sheet"] > 1, "sheet-*:>1-sheet")
	add(n["chartsheet"] > 0, "sheet-part:chartsheet")
	add(n["dname-local"] > 0, "dname-localsheet:scoped-name")
	add(n["xf>1"] > 0, "styles:xf>1")
	add(n["row-cells"] > 0, "worksheet:rows-with-cells")
	add(n["cell-sst"] > 0, "worksheet:cell-sst")
	add(n["cell-style"] > 0, "worksheet:cell-style")
	add(n["merge"] > 0, "worksheet:merges")
	add(n["merge"] > 1, "worksheet:merge-overlap(>1)")
	add(n["dxf"] > 0, "worksheet:dxf")
	add(n["calc"] > 0, "calc-chain:entries")
	add(n["table"] > 0, "table-unique:tables")
	add(n["table"] > 1, "table-unique:>1-table")
	add(n["comment"] > 0, "comment-author:comments")
	add(n["drawing"] > 0, "rid-resolves:drawing")
	add(n["chart"] > 0, "rel-target:chart")
	add(n["pivot"] > 0, "rel-target:pivot")
	add(n["slicer"] > 0, "rel-target:slicer")
	add(n["bad"] > 0, "xml-wellformed:ill-formed-part")
	return out
}

var c05TemplateLines = 0

func c05ShrinkBudget() int {
	if n, err := strconv.Atoi(os.Getenv("VH_C05_SHRINK")); err == nil && n > 0 {
		return n
	}
	return 120
}

func c05CountPrefix(lines []string, p string) int {
	n := 0
	for _, l := range lines {
		if strings.HasPrefix(l, p) {
			n++
		}
	}
	return n
}

// c05Shrink removes operations while signature sig still fails (greedy ddmin, bounded).
func c05Shrink(r *Run, d *c05Drv, hist []string, sig string, budget int) []string {
	cur := hist
	fails := func(h []string) bool {
		_, ok := c05RunHistory(r, d, h, false, "")[sig]
		return ok
	}
	// cut after the first failing save
	for i, l := range cur {
		if l == "h.save" && fails(cur[:i+1]) {
			cur = cur[:i+1]
			break
		}
		budget--
		if budget <= 0 {
			return cur
		}
	}
	for chunk := len(cur) / 2; chunk >= 1 && budget > 0; chunk /= 2 {
		for start := 1; start+chunk < len(cur) && budget > 0; {
			cand := append(append([]string{}, cur[:start]...), cur[start+chunk:]...)
			budget--
			if fails(cand) {
				cur = cand
			} else {
				start += chunk
			}
		}
	}
	return cur
}

// ------------------------------------------------------------ bookkeeping correspondence

const c05SheetRels = "xl/worksheets/_rels/sheet1.xml.rels"
const c05WbRels = "xl/_rels/workbook.xml.rels"

func c05DumpBook(f *xl.File) string {
	return xl.VerifC05DumpContentTypes(f) + " ; " + xl.VerifC05DumpRels(f, c05WbRels) + " ; " + xl.VerifC05DumpSheets(f)
}

type c05BkState struct {
	f *xl.File
}

func c05Guard(fn func() string) (res string) {
	defer func() {
		if p := recover(); p != nil {
			res = "PANIC"
		}
	}()
	return fn()
}

func c05ParseRels(toks []string) [][4]string {
	var out [][4]string
	for _, t := range toks {
		p := strings.Split(t, "|")
		if len(p) != 4 {
			continue
		}
		out = append(out, [4]string{unhx(p[0]), unhx(p[1]), unhx(p[2]), unhx(p[3])})
	}
	return out
}

// c05BkExec executes one bk.* line on the real file.
func c05BkExec(st *c05BkState, line string) string {
	w := strings.Fields(line)
	a := w[1:]
	if w[0] == "bk.new" {
		if st.f != nil {
			st.f.Close()
		}
		st.f = xl.NewFile()
		return c05DumpBook(st.f)
	}
	if w[0] == "bk.load" {
		// the state was taken from a real workbook (st.f set by the caller): answer with its dump
		if st.f == nil {
			return "bad-op"
		}
		return c05DumpBook(st.f)
	}
	if w[0] == "bk.trim" {
		var rows [][]int
		for _, t := range a {
			var row []int
			for _, n := range strings.Split(t, "/") {
				v, _ := strconv.Atoi(n)
				row = append(row, v)
			}
			rows = append(rows, row)
		}
		return c05Guard(func() string { return xl.VerifC05Trim(rows) })
	}
	if st.f == nil {
		st.f = xl.NewFile()
	}
	f := st.f
	return c05Guard(func() string {
		switch w[0] {
		case "bk.newsheet":
			_, _ = f.NewSheet(unhx(a[0]))
			return c05DumpBook(f)
		case "bk.delsheet":
			_ = f.DeleteSheet(unhx(a[0]))
			return c05DumpBook(f)
		case "bk.addct":
			n, _ := strconv.Atoi(a[0])
			_ = xl.VerifC05AddContentTypePart(f, n, unhx(a[1]))
			return xl.VerifC05DumpContentTypes(f)
		case "bk.setct":
			_ = xl.VerifC05SetContentTypes(f, unhx(a[0]), unhx(a[1]))
			return xl.VerifC05DumpContentTypes(f)
		case "bk.rmct":
			_ = xl.VerifC05RemoveContentTypesPart(f, unhx(a[0]), unhx(a[1]))
			return xl.VerifC05DumpContentTypes(f)
		case "bk.setovr":
			var ps [][2]string
			for _, t := range a {
				p := strings.Split(t, "|")
				ps = append(ps, [2]string{unhx(p[0]), unhx(p[1])})
			}
			xl.VerifC05SetOverrides(f, ps)
			return xl.VerifC05DumpContentTypes(f)
		case "bk.srels":
			xl.VerifC05SetRels(f, c05SheetRels, c05ParseRels(a))
			return xl.VerifC05DumpRels(f, c05SheetRels)
		case "bk.saddrel":
			n := xl.VerifC05AddRels(f, c05SheetRels, unhx(a[0]), unhx(a[1]), unhx(a[2]))
			return fmt.Sprintf("rid=%d ", n) + xl.VerifC05DumpRels(f, c05SheetRels)
		case "bk.ssetrel":
			n := xl.VerifC05SetRelsByID(f, unhx(a[0]), c05SheetRels, unhx(a[1]), unhx(a[2]), unhx(a[3]))
			return fmt.Sprintf("rid=%d ", n) + xl.VerifC05DumpRels(f, c05SheetRels)
		case "bk.copyrels":
			from, _ := f.GetSheetIndex("Sheet1")
			to, _ := f.GetSheetIndex("CopyT")
			if from < 0 || to < 0 {
				return "skip"
			}
			if err := f.CopySheet(from, to); err != nil {
				return "ERR"
			}
			id := 0
			for k, n := range f.GetSheetMap() {
				if n == "CopyT" {
					id = k
				}
			}
			return xl.VerifC05DumpRels(f, fmt.Sprintf("xl/worksheets/_rels/sheet%d.xml.rels", id))
		case "bk.sdelrel":
			xl.VerifC05DeleteSheetRelationships(f, "Sheet1", unhx(a[0]))
			return xl.VerifC05DumpRels(f, c05SheetRels)
		}
		return "bad-op"
	})
}

var c05RelTypes = []string{
	"http://schemas.openxmlformats.org/officeDocument/2006/relationships/drawing",
	"http://schemas.openxmlformats.org/officeDocument/2006/relationships/table",
	"http://schemas.openxmlformats.org/officeDocument/2006/relationships/hyperlink",
	"http://schemas.openxmlformats.org/officeDocument/2006/relationships/sharedStrings",
	"http://schemas.openxmlformats.org/officeDocument/2006/relationships/vmlDrawing",
}
var c05RelIDs = []string{"rId1", "rId2", "rId3", "rId4", "rId5", "rId10", "rId007", "R5", "rId+6", "rId-3", "", "rIdx", "rId 8", "rId12abc", "RID9", "rid9", "rId99999999999999999999"}
var c05CtKinds = []string{"chart", "chartsheet", "comments", "drawings", "table", "pivotTable", "pivotCache", "sharedStrings", "slicer", "slicerCache", "nosuchkind"}
var c05BkSheetNames = []string{"Sheet1", "Sheet2", "sheet2", "SHEET3", "Data", "data", "X", "Y", "Z", "A b", "Q1", "q1"}

func c05RelTok(rng *Rng, ids []string) string {
	id := ids[rng.Intn(len(ids))]
	ty := c05RelTypes[rng.Intn(len(c05RelTypes))]
	return strings.Join([]string{hx(id), hx(ty), hx("../x/y" + strconv.Itoa(rng.Intn(5)) + ".xml"), hx(rng.Pick([]string{"", "", "External"}))}, "|")
}

func c05BkOp(r *Run, st *c05BkState, line string) string {
	res := c05BkExec(st, line)
	r.Op(line, res)
	op := strings.Fields(line)[0]
	r.Stat("op:" + op)
	if res == "PANIC" {
		r.Stat("bk-panic:" + op)
	}
	r.Case(line+"=>"+res, true)
	return res
}

func c05Bookkeeping(r *Run, rng *Rng, rounds int) {
	st := &c05BkState{}
	wsCT := "application/vnd.openxmlformats-officedocument.spreadsheetml.worksheet+xml"
	// Override already present (a package from another producer), Default extensions not:
	// addContentTypePart must still register the extensions its kind can produce
	ovrDrawing := hx("/xl/drawings/drawing1.xml") + "|" + hx("application/vnd.openxmlformats-officedocument.drawing+xml")
	ovrComments := hx("/xl/comments1.xml") + "|" + hx("application/vnd.openxmlformats-officedocument.spreadsheetml.comments+xml")
	for _, kind := range []string{"drawings", "comments", "table"} {
		c05BkOp(r, st, "bk.new")
		c05BkOp(r, st, "bk.setovr "+ovrDrawing+" "+ovrComments)
		c05BkOp(r, st, "bk.addct 1 "+hx(kind))
		c05BkOp(r, st, "bk.addct 2 "+hx(kind))
	}
	// states the library cannot be driven into from NewFile: a workbook whose sheet ids and part
	// numbers disagree (sheets re-ordered by another producer), loaded into the model by `bk.load`
	if base := c05SynthBase(0); base != nil {
		for variant := 0; variant < 2; variant++ {
			if st.f != nil {
				st.f.Close()
			}
			f, err := xl.OpenReader(bytes.NewReader(c05SwapSheetIDs(base)))
			if err != nil {
				break
			}
			st.f = f
			c05BkOp(r, st, "bk.load "+c05DumpBook(f))
			if variant == 0 {
				c05BkOp(r, st, "bk.delsheet "+hx("Sheet1")) // the sheet with the larger id (2, part sheet1.xml)
			}
			c05BkOp(r, st, "bk.newsheet "+hx("New"))
			c05BkOp(r, st, "bk.newsheet "+hx("New2"))
			c05BkOp(r, st, "bk.delsheet "+hx("Data"))
			c05BkOp(r, st, "bk.newsheet "+hx("New3"))
		}
	}
	for round := 0; round < rounds; round++ {
		c05BkOp(r, st, "bk.new")
		if round%3 == 1 {
			c05BkOp(r, st, "bk.setovr "+ovrDrawing+" "+ovrComments)
		}
		n := rng.Range(5, 40)
		for i := 0; i < n; i++ {
			switch x := rng.Intn(100); {
			case x < 30:
				c05BkOp(r, st, "bk.newsheet "+hx(rng.Pick(c05BkSheetNames[1:]))) // Sheet1 is never re-created: its relationship path is fixed in this harness
			case x < 50:
				if c05BkOp(r, st, "bk.delsheet "+hx(rng.Pick(c05BkSheetNames))) == "PANIC" {
					// the real file is left half-updated by the panic: start over
					c05BkOp(r, st, "bk.new")
				}
			case x < 65:
				c05BkOp(r, st, fmt.Sprintf("bk.addct %d %s", rng.Pick2([]int{0, 1, 2, 3, 10, -1}), hx(rng.Pick(c05CtKinds))))
			case x < 72:
				c05BkOp(r, st, "bk.setct "+hx(fmt.Sprintf("/xl/worksheets/sheet%d.xml", rng.Range(1, 5)))+" "+hx(wsCT))
			case x < 82:
				part := rng.Pick([]string{"/xl/worksheets/sheet2.xml", "worksheets/sheet3.xml", "/xl/tables/table1.xml", "tables/table2.xml", "/xl/charts/chart1.xml"})
				ct := wsCT
				if strings.Contains(part, "table") {
					ct = "application/vnd.openxmlformats-officedocument.spreadsheetml.table+xml"
				}
				if c05BkOp(r, st, "bk.rmct "+hx(ct)+" "+hx(part)) == "PANIC" {
					c05BkOp(r, st, "bk.setovr "+hx("/xl/workbook.xml")+"|"+hx("application/vnd.openxmlformats-officedocument.spreadsheetml.sheet.main+xml"))
				}
			case x < 86:
				// duplicate overrides: the delete-while-ranging loop of removeContentTypesPart
				var toks []string
				for k, m := 0, rng.Range(1, 5); k < m; k++ {
					toks = append(toks, hx(fmt.Sprintf("/xl/worksheets/sheet%d.xml", rng.Range(2, 3)))+"|"+hx(wsCT))
				}
				c05BkOp(r, st, "bk.setovr "+strings.Join(toks, " "))
			default:
				// relationship list of Sheet1
				switch y := rng.Intn(10); {
				case y < 2:
					var toks []string
					ids := c05RelIDs
					if rng.Chance(60) {
						ids = c05RelIDs[:6] // mostly distinct plain ids
					}
					for k, m := 0, rng.Range(0, 6); k < m; k++ {
						toks = append(toks, c05RelTok(rng, ids))
					}
					if rng.Chance(5) {
						toks = append(toks, strings.Join([]string{hx("rId9223372036854775807"), hx(c05RelTypes[0]), hx("a.xml"), hx("")}, "|"))
					}
					c05BkOp(r, st, strings.TrimSpace("bk.srels "+strings.Join(toks, " ")))
				case y < 6:
					c05BkOp(r, st, "bk.saddrel "+hx(rng.Pick(c05RelTypes))+" "+hx("../t/p"+strconv.Itoa(rng.Intn(9))+".xml")+" "+hx(rng.Pick([]string{"", "External"})))
				case y < 7:
					c05BkOp(r, st, "bk.ssetrel "+hx(rng.Pick(c05RelIDs))+" "+hx(rng.Pick(c05RelTypes))+" "+hx("../s.xml")+" "+hx(""))
				case y < 8:
					c05BkOp(r, st, "bk.newsheet "+hx("CopyT"))
					c05BkOp(r, st, "bk.copyrels")
				default:
					if c05BkOp(r, st, "bk.sdelrel "+hx(rng.Pick(c05RelIDs))) == "PANIC" {
						c05BkOp(r, st, "bk.srels")
					}
				}
			}
		}
	}
	// save-time trimming
	for i := 0; i < rounds*6; i++ {
		var toks []string
		row := 1
		for k, m := 0, rng.Range(0, 7); k < m; k++ {
			spec := []string{strconv.Itoa(row), strconv.Itoa(rng.Intn(2) * rng.Intn(2))}
			col := 1
			mode := rng.Intn(4) // 0 all empty, 1 all valued, 2 mixed, 3 no cells
			for c, nc := 0, rng.Range(0, 6); c < nc && mode != 3; c++ {
				v := 0
				if mode == 1 || (mode == 2 && rng.Bool()) {
					v = 1
				}
				spec = append(spec, strconv.Itoa(col), strconv.Itoa(row), strconv.Itoa(v))
				col++
				if rng.Chance(10) {
					col += rng.Intn(3) // not dense
				}
			}
			toks = append(toks, strings.Join(spec, "/"))
			row++
			if rng.Chance(10) {
				row += rng.Intn(3)
			}
		}
		c05BkOp(r, st, strings.TrimSpace("bk.trim "+strings.Join(toks, " ")))
	}
	if st.f != nil {
		st.f.Close()
	}
}

// ------------------------------------------------------------ fixtures built in the harness

// c05ReorderedFixture: a two-sheet workbook as Excel writes it after the
// sheets were re-ordered: sheetId and part number disagree (sheetId 2 →
// sheet1.xml, sheetId 1 → sheet2.xml). Built with excelize, then the sheetId
// attributes of workbook.xml are swapped textually.
func c05SwapSheetIDs(data []byte) []byte {
	return c05RewriteZip(data, "xl/workbook.xml", func(b []byte) []byte {
		s := string(b)
		s = strings.Replace(s, `sheetId="1"`, `sheetId="@"`, 1)
		s = strings.Replace(s, `sheetId="2"`, `sheetId="1"`, 1)
		s = strings.Replace(s, `sheetId="@"`, `sheetId="2"`, 1)
		return []byte(s)
	})
}

// ------------------------------------------------------------ entry point

func runC05(r *Run, rng *Rng, replay string) {
	r.Rule = "one case = one package written by WriteToBuffer after an API history (validated by the Lean WF on the graph extracted with archive/zip+encoding/xml) or one bookkeeping operation compared with Impl; a package is non-trivial when its graph has more lines than the NewFile template's; bookkeeping ops are distinct by op text and result"
	d := c05StartDrv(r.Dir)
	defer d.close()
	if !d.ok {
		r.Notes = append(r.Notes, "Lean driver binary not found: WF verdicts unavailable")
	}
	// template size (for the non-triviality rule)
	{
		f := xl.NewFile()
		if buf, err := f.WriteToBuffer(); err == nil {
			if l, e := c05Graph(buf.Bytes()); e == nil {
				c05TemplateLines = len(l)
			}
		}
		f.Close()
	}
	if replay != "" {
		c05Replay(r, d, replay)
		return
	}
	thorough := r.Tier == "thorough"
	// 1. deterministic witnesses first
	c05RunHistory(r, d, c05MergeWitness(), true, "witness:merge")
	for _, w := range append(c05Witnesses(), c05SynthWitnesses()...) {
		c05RunHistory(r, d, w.hist, true, "witness:"+w.name)
	}
	if files, err := filepath.Glob(filepath.Join("..", "corpus", "C05", "*.ops")); err == nil {
		sort.Strings(files)
		for _, fn := range files {
			var hist []string
			for _, l := range readLines(fn) {
				if l = strings.TrimSpace(l); strings.HasPrefix(l, "h.") {
					hist = append(hist, l)
				}
			}
			c05RunHistory(r, d, hist, true, "corpus:"+filepath.Base(fn))
			r.Stat("corpus-histories")
		}
	}
	// 2. bookkeeping correspondence
	rounds := 25
	if thorough {
		rounds = 250
	}
	c05Bookkeeping(r, rng, rounds)
	// 3. histories
	nHist := 150
	if thorough {
		nHist = 2500
	}
	shrunk := map[string]bool{}
	for i := 0; i < nHist; i++ {
		kind := i % c05Kinds
		n := rng.Range(15, 60)
		if thorough && rng.Chance(10) {
			n = rng.Range(60, 160)
		}
		hist := c05GenHistory(rng, kind, n)
		label := fmt.Sprintf("hist#%d(%s)", i, c05KindName(kind))
		before := len(r.Fails)
		sigs := c05RunHistory(r, d, hist, true, label)
		r.Stat("history:" + c05KindName(kind))
		// shrink the first failure of each new signature and replace its replay
		keys := make([]string, 0, len(sigs))
		for s := range sigs {
			keys = append(keys, s)
		}
		sort.Strings(keys)
		for _, sig := range keys {
			if shrunk[sig] || len(shrunk) >= 40 {
				continue
			}
			shrunk[sig] = true
			small := c05Shrink(r, d, hist, sig, c05ShrinkBudget())
			for k := before; k < len(r.Fails); k++ {
				if r.Fails[k].Sig == sig {
					r.Fails[k].Replay = "# shrunk from " + label + " (" + strconv.Itoa(len(hist)) + " ops)\n" + strings.Join(small, "\n")
					break
				}
			}
		}
		if i < 3 {
			r.Sample(label + ": " + strings.Join(hist[:min(6, len(hist))], " ; ") + " … (" + strconv.Itoa(len(hist)) + " ops)")
		}
	}
	for _, s := range r.opsSample(6) {
		if len(s) > 300 {
			s = s[:300] + "…"
		}
		r.Sample(s)
	}
}

func c05Replay(r *Run, d *c05Drv, path string) {
	var hist, bk []string
	for _, l := range readLines(path) {
		l = strings.TrimSpace(l)
		switch {
		case l == "" || strings.HasPrefix(l, "#"):
		case strings.HasPrefix(l, "h."):
			hist = append(hist, l)
		case strings.HasPrefix(l, "bk."):
			bk = append(bk, l)
		}
	}
	if len(bk) > 0 {
		st := &c05BkState{}
		for _, l := range bk {
			c05BkOp(r, st, l)
		}
	}
	if len(hist) > 0 {
		c05RunHistory(r, d, hist, true, "replay")
		// VH_C05_MIN=<signature>: minimise the replayed history for that signature into <out>/min.ops
		if sig := os.Getenv("VH_C05_MIN"); sig != "" {
			small := c05Shrink(r, d, hist, sig, c05ShrinkBudget())
			_ = os.WriteFile(filepath.Join(r.Dir, "min.ops"), []byte(strings.Join(small, "\n")+"\n"), 0o644)
		}
	}
}
