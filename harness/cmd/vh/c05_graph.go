//go:build verif_c05

package main

// C05 — independent extraction of the part graph from the bytes of a saved
// package: archive/zip + an encoding/xml token walk. No excelize code is used
// here. The output is the list of `g.*` protocol lines that the Lean
// validator (XlModel.Pkg.WF, driver XlModel/Drv/C05.lean) consumes.

import (
	"archive/zip"
	"bytes"
	"encoding/xml"
	"fmt"
	"io"
	"regexp"
	"strconv"
	"strings"
)

const (
	c05NsRel       = "http://schemas.openxmlformats.org/officeDocument/2006/relationships"
	c05NsRelStrict = "http://purl.oclc.org/ooxml/officeDocument/relationships"
	c05NsMain      = "http://schemas.openxmlformats.org/spreadsheetml/2006/main"
	c05NsMainStr   = "http://purl.oclc.org/ooxml/spreadsheetml/main"
	c05NsOffice    = "urn:schemas-microsoft-com:office:office"
)

func c05Attr(se xml.StartElement, local string) (string, bool) {
	for _, a := range se.Attr {
		if a.Name.Local == local && (a.Name.Space == "" || a.Name.Space == se.Name.Space) {
			return a.Value, true
		}
	}
	return "", false
}

func c05Num(s string, ok bool, dflt string) string {
	if !ok {
		return dflt
	}
	if _, err := strconv.ParseUint(s, 10, 31); err != nil {
		return "999999999"
	}
	return strings.TrimLeft(s, "0") + map[bool]string{true: "0", false: ""}[strings.TrimLeft(s, "0") == ""]
}

func c05IntS(s string, ok bool, dflt string) string {
	if !ok {
		return dflt
	}
	n, err := strconv.ParseInt(s, 10, 32)
	if err != nil {
		return "-999999"
	}
	return strconv.FormatInt(n, 10)
}

func c05ColName(n int) string {
	s := ""
	for n > 0 {
		n--
		s = string(rune('A'+n%26)) + s
		n /= 26
	}
	return s
}

func c05ColOf(ref string) int {
	c := 0
	for _, ch := range ref {
		if ch >= 'A' && ch <= 'Z' {
			c = c*26 + int(ch-'A'+1)
		} else {
			break
		}
	}
	return c
}

type c05Walk struct {
	part  string
	lines *[]string
	stack []xml.Name
	root  string
	// worksheet state
	inWs     bool
	rowOpen  bool
	rowToks  []string
	prevRow  int
	prevCol  int
	curRow   int
	cellRef  string
	cellS    string
	cellT    string
	cellV    string
	cellHasV bool
	cellF    bool
	inV      bool
	inCell   bool
	// styles
	fonts, fills, borders, csXfs, dxfs int
	numFmts                            []string
	xfs                                []string
	// sst
	si int
	// child elements of the root, in document order (worksheet / chartsheet)
	kids []string
	// comments
	authors  int
	comments [][2]string
}

func (w *c05Walk) emit(s string) { *w.lines = append(*w.lines, s) }

func (w *c05Walk) parent() string {
	if len(w.stack) < 2 {
		return ""
	}
	return w.stack[len(w.stack)-2].Local
}

func (w *c05Walk) isMain(n xml.Name) bool { return n.Space == c05NsMain || n.Space == c05NsMainStr }

func (w *c05Walk) start(se xml.StartElement) {
	w.stack = append(w.stack, se.Name)
	depth := len(w.stack)
	if depth == 1 {
		w.root = se.Name.Local
		if w.root == "worksheet" && w.isMain(se.Name) {
			w.inWs = true
			w.emit("g.ws " + hx(w.part))
		}
		if w.root == "table" && w.isMain(se.Name) {
			id, ok := c05Attr(se, "id")
			name, _ := c05Attr(se, "name")
			if dn, ok := c05Attr(se, "displayName"); ok {
				name = dn
			}
			ref, _ := c05Attr(se, "ref")
			w.emit(fmt.Sprintf("g.table %s %s %s %s", hx(w.part), c05Num(id, ok, "999999999"), hx(name), hx(ref)))
		}
	}
	if depth == 2 && (w.root == "worksheet" || w.root == "chartsheet") && w.isMain(w.stack[0]) {
		switch {
		case w.isMain(se.Name):
			w.kids = append(w.kids, se.Name.Local)
		case se.Name.Space == "http://schemas.openxmlformats.org/markup-compatibility/2006":
			w.kids = append(w.kids, "mc:"+se.Name.Local)
		default:
			w.kids = append(w.kids, "{"+se.Name.Space+"}"+se.Name.Local)
		}
	}
	// relationship-namespace attributes anywhere (r:id, r:embed, r:link, r:pict, r:dm …; o:relid in VML)
	if !strings.HasSuffix(w.part, ".rels") {
		for _, a := range se.Attr {
			if a.Name.Space == c05NsRel || a.Name.Space == c05NsRelStrict || (a.Name.Space == c05NsOffice && a.Name.Local == "relid") {
				w.emit("g.rid " + hx(w.part) + " " + hx(a.Value))
			}
		}
	}
	if !w.isMain(se.Name) {
		return
	}
	switch w.root {
	case "worksheet":
		if !w.inWs {
			return
		}
		switch {
		case se.Name.Local == "row" && w.parent() == "sheetData":
			r, ok := c05Attr(se, "r")
			n := w.prevRow + 1
			if ok {
				if v, err := strconv.Atoi(r); err == nil {
					n = v
				} else {
					n = -1
				}
			}
			w.curRow, w.prevRow, w.prevCol = n, n, 0
			w.rowOpen = true
			w.rowToks = []string{"g.row", strconv.Itoa(n)}
		case se.Name.Local == "c" && w.parent() == "row" && w.rowOpen:
			ref, ok := c05Attr(se, "r")
			if !ok {
				ref = c05ColName(w.prevCol+1) + strconv.Itoa(w.curRow)
			}
			if c := c05ColOf(ref); c > 0 {
				w.prevCol = c
			}
			s, sok := c05Attr(se, "s")
			t, _ := c05Attr(se, "t")
			w.cellRef, w.cellS, w.cellT, w.cellV, w.cellHasV, w.cellF, w.inCell = ref, c05Num(s, sok, "0"), t, "", false, false, true
		case se.Name.Local == "v" && w.parent() == "c" && w.inCell:
			w.inV, w.cellHasV = true, true
		case se.Name.Local == "f" && w.parent() == "c" && w.inCell:
			w.cellF = true
		case se.Name.Local == "mergeCell" && w.parent() == "mergeCells":
			ref, _ := c05Attr(se, "ref")
			w.emit("g.merge " + hx(ref))
		case se.Name.Local == "cfRule" && w.parent() == "conditionalFormatting":
			if d, ok := c05Attr(se, "dxfId"); ok {
				w.emit("g.dxf " + c05Num(d, true, "0"))
			}
		}
	case "styleSheet":
		p := w.parent()
		switch {
		case se.Name.Local == "font" && p == "fonts":
			w.fonts++
		case se.Name.Local == "fill" && p == "fills":
			w.fills++
		case se.Name.Local == "border" && p == "borders":
			w.borders++
		case se.Name.Local == "dxf" && p == "dxfs":
			w.dxfs++
		case se.Name.Local == "xf" && p == "cellStyleXfs":
			w.csXfs++
		case se.Name.Local == "numFmt" && p == "numFmts":
			id, ok := c05Attr(se, "numFmtId")
			w.numFmts = append(w.numFmts, c05Num(id, ok, "999999999"))
		case se.Name.Local == "xf" && p == "cellXfs":
			nf, ok1 := c05Attr(se, "numFmtId")
			fo, ok2 := c05Attr(se, "fontId")
			fi, ok3 := c05Attr(se, "fillId")
			bo, ok4 := c05Attr(se, "borderId")
			xf, ok5 := c05Attr(se, "xfId")
			w.xfs = append(w.xfs, strings.Join([]string{c05Num(nf, ok1, "0"), c05Num(fo, ok2, "0"), c05Num(fi, ok3, "0"), c05Num(bo, ok4, "0"), c05IntS(xf, ok5, "-1")}, ","))
		}
	case "sst":
		if se.Name.Local == "si" && depth == 2 {
			w.si++
		}
	case "calcChain":
		if se.Name.Local == "c" && depth == 2 {
			r, _ := c05Attr(se, "r")
			i, ok := c05Attr(se, "i")
			w.emit("g.cc " + hx(r) + " " + c05IntS(i, ok, "0"))
		}
	case "comments":
		switch {
		case se.Name.Local == "author" && w.parent() == "authors":
			w.authors++
		case se.Name.Local == "comment" && w.parent() == "commentList":
			ref, _ := c05Attr(se, "ref")
			a, ok := c05Attr(se, "authorId")
			w.comments = append(w.comments, [2]string{ref, c05Num(a, ok, "0")})
		}
	case "workbook":
		switch {
		case se.Name.Local == "sheet" && w.parent() == "sheets":
			name, _ := c05Attr(se, "name")
			id, ok := c05Attr(se, "sheetId")
			rid := ""
			for _, a := range se.Attr {
				if a.Name.Local == "id" && (a.Name.Space == c05NsRel || a.Name.Space == c05NsRelStrict) {
					rid = a.Value
				}
			}
			w.emit(fmt.Sprintf("g.sheet %s %s %s", hx(name), c05IntS(id, ok, "0"), hx(rid)))
		case se.Name.Local == "definedName" && w.parent() == "definedNames":
			name, _ := c05Attr(se, "name")
			l, ok := c05Attr(se, "localSheetId")
			w.emit(fmt.Sprintf("g.dname %s %s", hx(name), c05IntS(l, ok, "-1")))
		}
	}
}

func (w *c05Walk) chars(cd xml.CharData) {
	if w.inV {
		w.cellV += string(cd)
	}
}

func (w *c05Walk) end(ee xml.EndElement) {
	if w.inWs && w.isMain(ee.Name) {
		switch {
		case ee.Name.Local == "v" && w.inV:
			w.inV = false
		case ee.Name.Local == "c" && w.inCell && w.parent() == "row":
			v := "-"
			if w.cellHasV {
				v = "x"
				if _, err := strconv.ParseUint(w.cellV, 10, 31); err == nil {
					v = c05Num(w.cellV, true, "0")
				}
			}
			f := "0"
			if w.cellF {
				f = "1"
			}
			w.rowToks = append(w.rowToks, strings.Join([]string{hx(w.cellRef), w.cellS, hx(w.cellT), v, f}, ","))
			w.inCell = false
		case ee.Name.Local == "row" && w.rowOpen && w.parent() == "sheetData":
			w.emit(strings.Join(w.rowToks, " "))
			w.rowOpen = false
		}
	}
	w.stack = w.stack[:len(w.stack)-1]
}

func (w *c05Walk) finish() {
	if (w.root == "worksheet" || w.root == "chartsheet") && len(w.stack) == 0 {
		l := "g.order " + hx(w.part) + " " + hx(w.root)
		for _, k := range w.kids {
			l += " " + hx(k)
		}
		w.emit(l)
	}
	switch w.root {
	case "worksheet":
		if w.inWs {
			w.emit("g.wsend")
		}
	case "styleSheet":
		nf := "-"
		if len(w.numFmts) > 0 {
			nf = strings.Join(w.numFmts, ",")
		}
		l := fmt.Sprintf("g.styles %d %d %d %d %d %s", w.fonts, w.fills, w.borders, w.csXfs, w.dxfs, nf)
		if len(w.xfs) > 0 {
			l += " " + strings.Join(w.xfs, " ")
		}
		w.emit(l)
	case "sst":
		w.emit(fmt.Sprintf("g.sst %d", w.si))
	case "comments":
		for _, c := range w.comments {
			w.emit(fmt.Sprintf("g.comment %s %d %s %s", hx(w.part), w.authors, c[1], hx(c[0])))
		}
	}
}

// c05Graph turns package bytes into protocol lines. zipErr reports a package
// that archive/zip cannot open at all.
func c05Graph(data []byte) (lines []string, zipErr error) {
	zr, err := zip.NewReader(bytes.NewReader(data), int64(len(data)))
	if err != nil {
		return nil, err
	}
	lines = append(lines, "g.pkg")
	type ent struct {
		name string
		data []byte
	}
	var ents []ent
	for _, e := range zr.File {
		lines = append(lines, "g.part "+hx(e.Name))
		rc, err := e.Open()
		if err != nil {
			lines = append(lines, "g.bad "+hx(e.Name)+" "+hx("zip entry cannot be opened"))
			continue
		}
		b, err := io.ReadAll(rc)
		rc.Close()
		if err != nil {
			lines = append(lines, "g.bad "+hx(e.Name)+" "+hx("zip entry cannot be read"))
			continue
		}
		ents = append(ents, ent{e.Name, b})
	}
	for _, e := range ents {
		low := strings.ToLower(e.name)
		if !(strings.HasSuffix(low, ".xml") || strings.HasSuffix(low, ".rels") || strings.HasSuffix(low, ".vml")) {
			continue
		}
		if e.name == "[Content_Types].xml" {
			c05ContentTypes(e.data, &lines)
		}
		if strings.HasSuffix(low, ".rels") {
			c05Rels(e.name, e.data, &lines)
		}
		var sub []string
		w := &c05Walk{part: e.name, lines: &sub}
		dec := xml.NewDecoder(bytes.NewReader(e.data))
		dec.Strict = true
		bad := false
		var badErr error
		sawRoot := false
		for {
			tok, err := dec.Token()
			if err == io.EOF {
				break
			}
			if err != nil {
				bad = true
				badErr = err
				break
			}
			switch t := tok.(type) {
			case xml.StartElement:
				sawRoot = true
				w.start(t)
			case xml.EndElement:
				w.end(t)
			case xml.CharData:
				w.chars(t)
			}
		}
		if bad || !sawRoot || len(w.stack) != 0 {
			// where and how: innermost open element + class of the parser's complaint
			in := "-"
			if len(w.stack) > 0 {
				in = w.stack[len(w.stack)-1].Local
			}
			lines = append(lines, "g.bad "+hx(e.name)+" "+hx("in <"+in+">: "+c05XMLErrClass(badErr, sawRoot)))
			continue
		}
		w.finish()
		lines = append(lines, sub...)
	}
	lines = append(lines, "g.end")
	return lines, nil
}

var c05LineNo = regexp.MustCompile(`^XML syntax error on line [0-9]+: `)

// c05XMLErrClass: the parser's message without position, values shortened.
func c05XMLErrClass(err error, sawRoot bool) string {
	if err == nil {
		if !sawRoot {
			return "no root element"
		}
		return "unclosed element at end of input"
	}
	m := c05LineNo.ReplaceAllString(err.Error(), "")
	if i := strings.Index(m, ": "); i > 0 && strings.HasPrefix(m, "invalid character entity") {
		m = m[:i]
	}
	if len(m) > 70 {
		m = m[:70]
	}
	return m
}

func c05ContentTypes(data []byte, lines *[]string) {
	dec := xml.NewDecoder(bytes.NewReader(data))
	for {
		tok, err := dec.Token()
		if err != nil {
			return
		}
		if se, ok := tok.(xml.StartElement); ok {
			switch se.Name.Local {
			case "Default":
				e, _ := c05Attr(se, "Extension")
				c, _ := c05Attr(se, "ContentType")
				*lines = append(*lines, "g.def "+hx(e)+" "+hx(c))
			case "Override":
				p, _ := c05Attr(se, "PartName")
				c, _ := c05Attr(se, "ContentType")
				*lines = append(*lines, "g.ovr "+hx(p)+" "+hx(c))
			}
		}
	}
}

func c05Rels(part string, data []byte, lines *[]string) {
	dec := xml.NewDecoder(bytes.NewReader(data))
	for {
		tok, err := dec.Token()
		if err != nil {
			return
		}
		if se, ok := tok.(xml.StartElement); ok && se.Name.Local == "Relationship" {
			id, _ := c05Attr(se, "Id")
			ty, _ := c05Attr(se, "Type")
			tg, _ := c05Attr(se, "Target")
			md, _ := c05Attr(se, "TargetMode")
			*lines = append(*lines, "g.rel "+hx(part)+" "+strings.Join([]string{hx(id), hx(ty), hx(tg), hx(md)}, "|"))
		}
	}
}
