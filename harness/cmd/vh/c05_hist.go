//go:build verif_c05

package main

// C05 — API histories as text lines: generator (seeded) and executor (real
// excelize calls, recover() around each). A history is replayable verbatim.
//
// Every line is `h.<op> <args…>`; strings are hex (hx). See c05Exec for the
// argument lists.

import (
	"bytes"
	"encoding/hex"
	"fmt"
	_ "image/gif" // AddPicture needs the caller to register the decoders
	_ "image/jpeg"
	_ "image/png"
	"os"
	"path/filepath"
	"strconv"
	"strings"
	"time"

	_ "golang.org/x/image/bmp"
	_ "golang.org/x/image/tiff"

	xl "github.com/xuri/excelize/v2"
)

type c05Hist struct {
	f       *xl.File
	sw      *xl.StreamWriter
	swRow   int
	last    []byte
	saveErr error
	styles  []int
	dxfs    []int
	// worksheets handed to a StreamWriter: "normal mode functions and stream mode functions
	// can't be mixed" (NewStreamWriter doc), so normal-mode calls naming them are skipped
	streamed map[string]bool
}

func c05Repo() string {
	if r := os.Getenv("VERIF_REPO"); r != "" {
		return r
	}
	return "/repo"
}

func (h *c05Hist) c05Close() {
	if h.f != nil {
		_ = h.f.Close()
		h.f = nil
	}
	h.sw = nil
}

func (h *c05Hist) c05Style(k int) int {
	if len(h.styles) == 0 {
		return 0
	}
	return h.styles[k%len(h.styles)]
}

var c05Images = []string{"excel.png", "excel.jpg", "excel.gif", "excel.bmp", "excel.emf", "excel.wmf", "excel.tif", "excel.emz", "excel.wmz"}

var c05ChartTypes = []xl.ChartType{xl.Col, xl.Line, xl.Pie, xl.Bar, xl.Scatter, xl.Area, xl.Doughnut, xl.Radar, xl.Bubble, xl.Col3DClustered, xl.Pie3D, xl.Surface3D, xl.ColStacked, xl.BarOfPie}

func c05StyleVariant(v int) *xl.Style {
	switch v % 12 {
	case 0:
		return &xl.Style{Font: &xl.Font{Bold: true, Color: "FF0000", Family: "Arial <&>", Size: 12}}
	case 1:
		return &xl.Style{Fill: xl.Fill{Type: "pattern", Pattern: 1, Color: []string{"E0EBF5"}}}
	case 2:
		return &xl.Style{Fill: xl.Fill{Type: "gradient", Color: []string{"FFFFFF", "4E71BE"}, Shading: v % 6}}
	case 3:
		return &xl.Style{Border: []xl.Border{{Type: "left", Color: "0000FF", Style: 3}, {Type: "diagonalDown", Color: "A020F0", Style: 7}}}
	case 4:
		return &xl.Style{Alignment: &xl.Alignment{Horizontal: "center", WrapText: true, TextRotation: 45, Indent: 1}}
	case 5:
		return &xl.Style{NumFmt: []int{1, 2, 9, 14, 22, 37, 49, 165, 188, 200}[v/12%10]}
	case 6:
		s := `[$-409]#,##0.00 "<&>";[Red]-0.0`
		return &xl.Style{CustomNumFmt: &s}
	case 7:
		return &xl.Style{NumFmt: 165 + v%30, DecimalPlaces: intp(3), NegRed: true}
	case 8:
		return &xl.Style{Protection: &xl.Protection{Hidden: true, Locked: true}}
	case 9:
		s := "yyyy\\-mm\\-dd;@"
		return &xl.Style{CustomNumFmt: &s, Font: &xl.Font{Italic: true, Underline: "double", Strike: true}}
	case 10:
		return &xl.Style{Font: &xl.Font{Size: 8 + float64(v%40), VertAlign: "superscript", ColorTheme: intp(v % 10), ColorTint: 0.4}}
	}
	return &xl.Style{}
}

func intp(i int) *int       { return &i }
func boolp(b bool) *bool    { return &b }
func strp(s string) *string { return &s }

// c05Exec executes one line. Results: ok | ERR | skip | bad-op | PANIC: …
func c05Exec(h *c05Hist, line string) (res string) {
	w := strings.Fields(line)
	if len(w) == 0 || !strings.HasPrefix(w[0], "h.") {
		return "bad-op"
	}
	defer func() {
		if p := recover(); p != nil {
			msg := fmt.Sprint(p)
			if i := strings.IndexByte(msg, '\n'); i >= 0 {
				msg = msg[:i]
			}
			if msg == "c05-bad-op" {
				res = "bad-op"
				return
			}
			res = "PANIC: " + msg
		}
	}()
	a := w[1:]
	S := func(i int) string {
		if i >= len(a) {
			panic("c05-bad-op")
		}
		if a[i] == "-" {
			return ""
		}
		b, err := hex.DecodeString(a[i])
		if err != nil {
			panic("c05-bad-op")
		}
		return string(b)
	}
	I := func(i int) int {
		if i >= len(a) {
			panic("c05-bad-op")
		}
		n, err := strconv.Atoi(a[i])
		if err != nil {
			panic("c05-bad-op")
		}
		return n
	}
	R := func(i int) string { // raw token (cell refs, ranges)
		if i >= len(a) {
			panic("c05-bad-op")
		}
		return a[i]
	}
	E := func(err error) string {
		if err != nil {
			return "ERR"
		}
		return "ok"
	}
	op := w[0][2:]
	switch op {
	case "new":
		h.c05Close()
		h.f = xl.NewFile()
		h.styles, h.dxfs, h.streamed = nil, nil, nil
		return "ok"
	case "open":
		h.c05Close()
		f, err := xl.OpenFile(filepath.Join(c05Repo(), "test", R(0)))
		if err != nil {
			return "ERR"
		}
		h.f = f
		h.styles, h.dxfs, h.streamed = nil, nil, nil
		return "ok"
	case "openbytes": // open a package given inline (hex of the zip) — used by fixture variants built in the harness
		h.c05Close()
		f, err := xl.OpenReader(bytes.NewReader([]byte(S(0))))
		if err != nil {
			return "ERR"
		}
		h.f = f
		h.styles, h.dxfs, h.streamed = nil, nil, nil
		return "ok"
	}
	if h.f == nil {
		return "skip"
	}
	f := h.f
	if len(h.streamed) > 0 && !strings.HasPrefix(op, "stream.") && op != "delsheet" && op != "newsheet" {
		hit := func(name string) bool { return h.streamed[strings.ToLower(name)] }
		switch op {
		case "copysheet":
			if hit(f.GetSheetName(I(0))) || hit(f.GetSheetName(I(1))) {
				return "skip"
			}
		case "pivot":
			if hit(strings.SplitN(S(0), "!", 2)[0]) || hit(strings.SplitN(S(1), "!", 2)[0]) {
				return "skip"
			}
		case "deltable", "delslicer":
			// the owning worksheet is implicit: not exercised once a worksheet is streamed
			return "skip"
		case "save", "reopen", "close", "active", "ungroup", "group":
		default:
			if len(a) > 0 {
				if b, err := hex.DecodeString(a[0]); err == nil && hit(string(b)) {
					return "skip"
				}
			}
			if op == "slicer" && hit(S(3)) {
				return "skip"
			}
		}
	}
	switch op {
	case "save":
		if h.sw != nil {
			_ = h.sw.Flush()
			h.sw = nil
		}
		buf, err := f.WriteToBuffer()
		h.saveErr = err
		if err != nil {
			h.last = nil
			return "ERR"
		}
		h.last = append([]byte(nil), buf.Bytes()...)
		return "ok"
	case "reopen":
		if h.last == nil {
			return "skip"
		}
		nf, err := xl.OpenReader(bytes.NewReader(h.last))
		if err != nil {
			return "ERR"
		}
		h.c05Close()
		h.f = nf
		h.styles, h.dxfs, h.streamed = nil, nil, nil
		return "ok"
	case "reopenspill":
		// reopen the last saved bytes with a tiny UnzipXMLSizeLimit: worksheets and shared strings
		// larger than it are spilled to temp files instead of being kept in memory
		if h.last == nil {
			return "skip"
		}
		nf, err := xl.OpenReader(bytes.NewReader(h.last), xl.Options{UnzipXMLSizeLimit: 512, UnzipSizeLimit: 1 << 30})
		if err != nil {
			return "ERR"
		}
		h.c05Close()
		h.f = nf
		h.styles, h.dxfs, h.streamed = nil, nil, nil
		return "ok"
	case "close":
		h.c05Close()
		return "ok"
	// ---- cells
	case "setstr":
		return E(f.SetCellStr(S(0), R(1), S(2)))
	case "setval":
		switch I(2) {
		case 0:
			return E(f.SetCellValue(S(0), R(1), nil))
		case 1:
			return E(f.SetCellValue(S(0), R(1), int64(I(3))))
		case 2:
			return E(f.SetCellValue(S(0), R(1), float64(I(3))/7))
		case 3:
			return E(f.SetCellValue(S(0), R(1), I(3)%2 == 0))
		case 4:
			return E(f.SetCellValue(S(0), R(1), time.Date(2020, 1, 1+I(3)%400, I(3)%24, 30, 0, 0, time.UTC)))
		case 5:
			return E(f.SetCellValue(S(0), R(1), time.Duration(I(3))*time.Second))
		case 6:
			return E(f.SetCellValue(S(0), R(1), []byte("b<y>&tes")))
		default:
			return E(f.SetCellDefault(S(0), R(1), strconv.Itoa(I(3))))
		}
	case "setformula":
		switch I(3) {
		case 1:
			return E(f.SetCellFormula(S(0), R(1), S(2), xl.FormulaOpts{Type: strp(xl.STCellFormulaTypeShared), Ref: strp(R(4))}))
		case 2:
			return E(f.SetCellFormula(S(0), R(1), S(2), xl.FormulaOpts{Type: strp(xl.STCellFormulaTypeArray), Ref: strp(R(4))}))
		}
		return E(f.SetCellFormula(S(0), R(1), S(2)))
	case "setrich":
		return E(f.SetCellRichText(S(0), R(1), []xl.RichTextRun{
			{Text: S(2), Font: &xl.Font{Bold: true, Color: "2354E8", Family: "Times New Roman"}},
			{Text: " plain "}, {Text: S(2), Font: &xl.Font{Italic: true, Size: 14, VertAlign: "subscript"}}}))
	case "setstyle":
		return E(f.SetCellStyle(S(0), R(1), R(2), h.c05Style(I(3))))
	case "link":
		if I(3) == 0 {
			return E(f.SetCellHyperLink(S(0), R(1), S(2), "External", xl.HyperlinkOpts{Display: strp("d <&>"), Tooltip: strp("t \"'")}))
		}
		return E(f.SetCellHyperLink(S(0), R(1), S(2), "Location"))
	case "setrow":
		vals := []interface{}{}
		for i := 2; i < len(a); i++ {
			vals = append(vals, S(i))
		}
		return E(f.SetSheetRow(S(0), R(1), &vals))
	// ---- sheets
	case "newsheet":
		_, err := f.NewSheet(S(0))
		return E(err)
	case "delsheet":
		return E(f.DeleteSheet(S(0)))
	case "copysheet":
		return E(f.CopySheet(I(0), I(1)))
	case "rensheet":
		return E(f.SetSheetName(S(0), S(1)))
	case "movesheet":
		return E(f.MoveSheet(S(0), S(1)))
	case "active":
		f.SetActiveSheet(I(0))
		return "ok"
	case "visible":
		return E(f.SetSheetVisible(S(0), I(1) == 1, I(2) == 1))
	case "group":
		var ss []string
		for i := range a {
			ss = append(ss, S(i))
		}
		return E(f.GroupSheets(ss))
	case "ungroup":
		return E(f.UngroupSheets())
	case "chartsheet":
		return E(f.AddChartSheet(S(0), c05Chart(S(1), I(2))))
	// ---- structure
	case "insrows":
		return E(f.InsertRows(S(0), I(1), I(2)))
	case "rmrow":
		return E(f.RemoveRow(S(0), I(1)))
	case "inscols":
		return E(f.InsertCols(S(0), R(1), I(2)))
	case "rmcol":
		return E(f.RemoveCol(S(0), R(1)))
	case "duprow":
		return E(f.DuplicateRow(S(0), I(1)))
	case "duprowto":
		return E(f.DuplicateRowTo(S(0), I(1), I(2)))
	case "rowheight":
		return E(f.SetRowHeight(S(0), I(1), float64(I(2))))
	case "rowvisible":
		return E(f.SetRowVisible(S(0), I(1), I(2) == 1))
	case "rowoutline":
		return E(f.SetRowOutlineLevel(S(0), I(1), uint8(I(2))))
	case "rowstyle":
		return E(f.SetRowStyle(S(0), I(1), I(2), h.c05Style(I(3))))
	case "colwidth":
		return E(f.SetColWidth(S(0), R(1), R(2), float64(I(3))))
	case "colvisible":
		return E(f.SetColVisible(S(0), R(1), I(2) == 1))
	case "coloutline":
		return E(f.SetColOutlineLevel(S(0), R(1), uint8(I(2))))
	case "colstyle":
		return E(f.SetColStyle(S(0), R(1), h.c05Style(I(2))))
	// ---- styles
	case "newstyle":
		id, err := f.NewStyle(c05StyleVariant(I(0)))
		if err == nil {
			h.styles = append(h.styles, id)
		}
		return E(err)
	case "newdxf":
		id, err := f.NewConditionalStyle(c05StyleVariant(I(0)))
		if err == nil {
			h.dxfs = append(h.dxfs, id)
		}
		return E(err)
	case "defaultfont":
		return E(f.SetDefaultFont(S(0)))
	// ---- merges
	case "merge":
		return E(f.MergeCell(S(0), R(1), R(2)))
	case "unmerge":
		return E(f.UnmergeCell(S(0), R(1), R(2)))
	// ---- data validation
	case "dv":
		dv := xl.NewDataValidation(I(3)%2 == 0)
		dv.SetSqref(S(1))
		var err error
		switch I(2) {
		case 0:
			err = dv.SetDropList([]string{S(4), "b,c", `q"uo`, "<x>&"})
		case 1:
			dv.SetSqrefDropList(S(4))
		case 2:
			err = dv.SetRange(I(3), I(3)+10, xl.DataValidationTypeWhole, xl.DataValidationOperator(1+I(3)%8))
		case 3:
			err = dv.SetRange(float64(I(3))/3, 99.5, xl.DataValidationTypeDecimal, xl.DataValidationOperatorBetween)
		case 4:
			err = dv.SetRange(S(4), S(4), xl.DataValidationTypeCustom, xl.DataValidationOperatorEqual)
		case 5:
			err = dv.SetRange(S(4), "B1", xl.DataValidationTypeTextLength, xl.DataValidationOperatorGreaterThan)
		case 6:
			err = dv.SetRange(S(4), 45000, xl.DataValidationTypeDate, xl.DataValidationOperatorLessThan)
		default:
			// (assigning the exported Formula1 field directly is not exercised: the field holds
			// the XML-escaped text; the documented setters are the API)
			err = dv.SetRange(S(4), S(4), xl.DataValidationTypeTime, xl.DataValidationOperatorNotBetween)
		}
		if err != nil {
			return "ERR"
		}
		if I(3)%3 == 0 {
			dv.SetError(xl.DataValidationErrorStyle(1+I(3)%3), "t<&>\"", S(4))
			dv.SetInput("in <t>", S(4))
		}
		return E(f.AddDataValidation(S(0), dv))
	case "deldv":
		if len(a) > 1 {
			return E(f.DeleteDataValidation(S(0), S(1)))
		}
		return E(f.DeleteDataValidation(S(0)))
	// ---- conditional formats
	case "cf":
		var fmtp *int
		if len(h.dxfs) > 0 {
			fmtp = intp(h.dxfs[I(3)%len(h.dxfs)])
		} else if I(3)%2 == 1 {
			fmtp = intp(I(3) % 4) // possibly not an existing dxf
		}
		var o xl.ConditionalFormatOptions
		switch I(2) {
		case 0:
			o = xl.ConditionalFormatOptions{Type: "cell", Criteria: ">", Format: fmtp, Value: S(4)}
		case 1:
			o = xl.ConditionalFormatOptions{Type: "cell", Criteria: "between", Format: fmtp, MinValue: "1", MaxValue: S(4)}
		case 2:
			o = xl.ConditionalFormatOptions{Type: "top", Criteria: "=", Format: fmtp, Value: "3", Percent: true}
		case 3:
			o = xl.ConditionalFormatOptions{Type: "average", Criteria: "=", Format: fmtp, AboveAverage: true}
		case 4:
			o = xl.ConditionalFormatOptions{Type: "duplicate", Criteria: "=", Format: fmtp}
		case 5:
			o = xl.ConditionalFormatOptions{Type: "unique", Criteria: "=", Format: fmtp}
		case 6:
			o = xl.ConditionalFormatOptions{Type: "2_color_scale", Criteria: "=", MinType: "min", MaxType: "max", MinColor: "#F8696B", MaxColor: "#63BE7B"}
		case 7:
			o = xl.ConditionalFormatOptions{Type: "3_color_scale", Criteria: "=", MinType: "min", MidType: "percentile", MaxType: "max", MinColor: "#F8696B", MidColor: "#FFEB84", MaxColor: "#63BE7B"}
		case 8:
			o = xl.ConditionalFormatOptions{Type: "data_bar", Criteria: "=", MinType: "min", MaxType: "max", BarColor: "#638EC6", BarBorderColor: "#0000FF", BarDirection: "rightToLeft", BarSolid: true}
		case 9:
			o = xl.ConditionalFormatOptions{Type: "icon_set", IconStyle: "3Flags", ReverseIcons: true}
		case 10:
			o = xl.ConditionalFormatOptions{Type: "formula", Criteria: S(4), Format: fmtp}
		case 11:
			o = xl.ConditionalFormatOptions{Type: "text", Criteria: "containing", Value: S(4), Format: fmtp}
		case 12:
			o = xl.ConditionalFormatOptions{Type: "time_period", Criteria: "last 7 days", Format: fmtp}
		default:
			o = xl.ConditionalFormatOptions{Type: "blanks", Format: fmtp, StopIfTrue: true}
		}
		return E(f.SetConditionalFormat(S(0), R(1), []xl.ConditionalFormatOptions{o}))
	case "uncf":
		return E(f.UnsetConditionalFormat(S(0), R(1)))
	// ---- defined names
	case "dname":
		return E(f.SetDefinedName(&xl.DefinedName{Name: S(0), RefersTo: S(1), Comment: "c <&>", Scope: S(2)}))
	case "deldname":
		return E(f.DeleteDefinedName(&xl.DefinedName{Name: S(0), Scope: S(1)}))
	// ---- tables
	case "table":
		t := &xl.Table{Range: R(1), Name: S(2), StyleName: "TableStyleMedium2", ShowFirstColumn: I(3)%2 == 0, ShowColumnStripes: I(3)%3 == 0}
		if I(3)%4 == 3 {
			t.ShowHeaderRow = boolp(false)
		}
		return E(f.AddTable(S(0), t))
	case "deltable":
		return E(f.DeleteTable(S(0)))
	case "autofilter":
		var opts []xl.AutoFilterOptions
		if I(2) == 1 {
			opts = []xl.AutoFilterOptions{{Column: "B", Expression: "x != blanks"}}
		} else if I(2) == 2 {
			opts = []xl.AutoFilterOptions{{Column: "A", Expression: "x == <&>*"}}
		}
		return E(f.AutoFilter(S(0), R(1), opts))
	// ---- pictures
	case "pic":
		g := c05Graphic(I(3))
		return E(f.AddPicture(S(0), R(1), filepath.Join(c05Repo(), "test", "images", c05Images[I(2)%len(c05Images)]), g))
	case "picbytes":
		name := c05Images[I(2)%4]
		b, err := os.ReadFile(filepath.Join(c05Repo(), "test", "images", name))
		if err != nil {
			return "skip"
		}
		b = append(b, byte(I(3))) // distinct payloads → distinct media parts
		it := xl.PictureInsertTypePlaceOverCells
		if I(3)%3 == 1 {
			it = xl.PictureInsertTypePlaceInCell
		}
		return E(f.AddPictureFromBytes(S(0), R(1), &xl.Picture{Extension: filepath.Ext(name), File: b, Format: c05Graphic(I(3)), InsertType: it}))
	case "delpic":
		return E(f.DeletePicture(S(0), R(1)))
	case "background":
		return E(f.SetSheetBackground(S(0), filepath.Join(c05Repo(), "test", "images", c05Images[I(1)%4])))
	case "hfimage":
		b, _ := os.ReadFile(filepath.Join(c05Repo(), "test", "images", "excel.png"))
		return E(f.AddHeaderFooterImage(S(0), &xl.HeaderFooterImageOptions{Position: xl.HeaderFooterImagePositionType(I(1) % 3), File: b,
			IsFooter: I(1)%2 == 1, FirstPage: I(1)%4 == 0, Extension: ".png", Width: "50pt", Height: "32pt"}))
	// ---- charts, shapes
	case "chart":
		if I(3) >= 0 {
			return E(f.AddChart(S(0), R(1), c05Chart(S(0), I(2)), c05Chart(S(0), I(3))))
		}
		return E(f.AddChart(S(0), R(1), c05Chart(S(0), I(2))))
	case "delchart":
		return E(f.DeleteChart(S(0), R(1)))
	case "shape":
		return E(f.AddShape(S(0), &xl.Shape{Cell: R(1), Type: []string{"rect", "ellipse", "flowChartProcess", "wedgeRectCallout"}[I(2)%4], Macro: S(3),
			Width: 120, Height: 60, Format: *c05Graphic(I(2)),
			Line:      xl.ShapeLine{Color: "4286F4", Width: floatp(1.2)},
			Fill:      xl.Fill{Color: []string{"8EB9FF"}, Pattern: 1},
			Paragraph: []xl.RichTextRun{{Text: S(3), Font: &xl.Font{Bold: true, Color: "777777"}}}}))
	// ---- comments, form controls
	case "comment":
		return E(f.AddComment(S(0), xl.Comment{Cell: R(1), Author: S(2), Text: S(3), Paragraph: []xl.RichTextRun{{Text: S(3), Font: &xl.Font{Bold: true}}, {Text: " <tail>&"}}}))
	case "delcomment":
		return E(f.DeleteComment(S(0), R(1)))
	case "formctl":
		t := xl.FormControlType(I(2) % 8)
		fc := xl.FormControl{Cell: R(1), Type: t, Macro: S(3), Text: S(3), Width: 90, Height: 30, Format: *c05Graphic(I(2))}
		switch t {
		case xl.FormControlNote:
			fc.Macro = ""
		case xl.FormControlSpinButton, xl.FormControlScrollBar:
			fc.MinVal, fc.MaxVal, fc.CurrentVal, fc.IncChange, fc.PageChange, fc.CellLink, fc.Text = 1, 50, 7, 2, 10, "A1", ""
			fc.Horizontally = I(2)%2 == 0
		case xl.FormControlCheckBox, xl.FormControlOptionButton:
			fc.Checked = true
			fc.CellLink = "B2"
		}
		return E(f.AddFormControl(S(0), fc))
	case "delformctl":
		return E(f.DeleteFormControl(S(0), R(1)))
	// ---- sparklines, pivots, slicers
	case "sparkline":
		return E(f.AddSparkline(S(0), &xl.SparklineOptions{Location: []string{R(1)}, Range: []string{S(2)},
			Type: []string{"line", "column", "win_loss"}[I(3)%3], Markers: true, Negative: I(3)%2 == 0, Style: I(3) % 36, SeriesColor: "#E965E0"}))
	case "pivot":
		// data block header (row 1, columns A..D) + rows must exist: h.pivotdata
		return E(f.AddPivotTable(&xl.PivotTableOptions{
			DataRange: S(0), PivotTableRange: S(1), Name: S(2),
			Rows:           []xl.PivotTableField{{Data: "Month", DefaultSubtotal: true}, {Data: "Year"}},
			Filter:         []xl.PivotTableField{{Data: "Region"}},
			Columns:        []xl.PivotTableField{{Data: "Type", DefaultSubtotal: true}},
			Data:           []xl.PivotTableField{{Data: "Sales", Name: "Sum <&>", Subtotal: "Sum", NumFmt: 38}},
			RowGrandTotals: true, ColGrandTotals: true, ShowDrill: true, ShowRowHeaders: true, ShowColHeaders: true, ShowLastColumn: true,
			ClassicLayout: I(3)%2 == 0, CompactData: I(3)%3 == 0}))
	case "pivotdata":
		sheet := S(0)
		hdr := []interface{}{"Month", "Year", "Type", "Sales", "Region"}
		_ = f.SetSheetRow(sheet, "A1", &hdr)
		months := []string{"Jan", "Feb", "Mar<", "Apr&"}
		for r := 2; r <= 8; r++ {
			row := []interface{}{months[r%4], 2017 + r%3, []string{"Meat", "Dairy", "\"Q\""}[r%3], r * 13, []string{"East", "West"}[r%2]}
			if err := f.SetSheetRow(sheet, "A"+strconv.Itoa(r), &row); err != nil {
				return "ERR"
			}
		}
		return "ok"
	case "delpivot":
		return E(f.DeletePivotTable(S(0), S(1)))
	case "slicer":
		return E(f.AddSlicer(S(0), &xl.SlicerOptions{Name: S(1), Cell: R(2), TableSheet: S(3), TableName: S(4), Caption: S(1) + " <c&>",
			Width: 200, Height: 200, DisplayHeader: boolp(I(5)%2 == 0), ItemDesc: I(5)%3 == 0, Macro: ""}))
	case "delslicer":
		return E(f.DeleteSlicer(S(0)))
	// ---- misc
	case "panes":
		return E(f.SetPanes(S(0), &xl.Panes{Freeze: I(1)%2 == 0, Split: I(1)%2 == 1, XSplit: 1 + I(1)%3, YSplit: 1, TopLeftCell: "B2", ActivePane: "bottomRight",
			Selection: []xl.Selection{{SQRef: "B2", ActiveCell: "B2", Pane: "bottomRight"}}}))
	case "sheetprops":
		return E(f.SetSheetProps(S(0), &xl.SheetPropsOptions{CodeName: strp("c<&>" + strconv.Itoa(I(1))), EnableFormatConditionsCalculation: boolp(true), Published: boolp(false),
			FitToPage: boolp(true), TabColorRGB: strp("#FFFF00"), OutlineSummaryBelow: boolp(false), BaseColWidth: uint8p(9), DefaultRowHeight: floatp(18), ZeroHeight: boolp(I(1)%5 == 0)}))
	case "sheetview":
		return E(f.SetSheetView(S(0), 0, &xl.ViewOptions{ShowFormulas: boolp(true), ShowGridLines: boolp(false), RightToLeft: boolp(I(1)%2 == 0), ZoomScale: floatp(80), TopLeftCell: strp("C3"), View: strp("pageLayout")}))
	case "pagelayout":
		return E(f.SetPageLayout(S(0), &xl.PageLayoutOptions{Size: intp(9), Orientation: strp("landscape"), FirstPageNumber: uintp(2), AdjustTo: uintp(90), FitToHeight: intp(2), BlackAndWhite: boolp(true), PageOrder: strp("overThenDown")}))
	case "margins":
		return E(f.SetPageMargins(S(0), &xl.PageLayoutMarginsOptions{Bottom: floatp(1), Footer: floatp(0.5), Left: floatp(1), Horizontally: boolp(true)}))
	case "headerfooter":
		return E(f.SetHeaderFooter(S(0), &xl.HeaderFooterOptions{DifferentFirst: true, DifferentOddEven: true, OddHeader: "&R&P <odd> & \"x\"", OddFooter: "&C&F", EvenHeader: "&L&P", EvenFooter: "&L&D&R&T", FirstHeader: S(1)}))
	case "protect":
		return E(f.ProtectSheet(S(0), &xl.SheetProtectionOptions{AlgorithmName: []string{"", "SHA-512", "MD4"}[I(1)%3], Password: "pw<&>", SelectLockedCells: true, EditScenarios: true}))
	case "unprotect":
		return E(f.UnprotectSheet(S(0)))
	case "protectwb":
		return E(f.ProtectWorkbook(&xl.WorkbookProtectionOptions{Password: "p", LockStructure: true}))
	case "unprotectwb":
		return E(f.UnprotectWorkbook())
	case "wbprops":
		return E(f.SetWorkbookProps(&xl.WorkbookPropsOptions{Date1904: boolp(I(0)%2 == 0), FilterPrivacy: boolp(false), CodeName: strp("wb<&>")}))
	case "calcprops":
		return E(f.SetCalcProps(&xl.CalcPropsOptions{FullCalcOnLoad: boolp(true), CalcMode: strp("manual"), IterateCount: uintp(10)}))
	case "docprops":
		return E(f.SetDocProps(&xl.DocProperties{Category: "c<&>", Creator: S(0), Description: S(0), Title: "t", Created: "2019-06-04T22:00:10Z", Modified: "2019-06-04T22:00:10Z", Version: "1.0.0"}))
	case "appprops":
		return E(f.SetAppProps(&xl.AppProperties{Application: "App <&>", ScaleCrop: true, Company: S(0), AppVersion: "16.0000", DocSecurity: 3}))
	case "pagebreak":
		return E(f.InsertPageBreak(S(0), R(1)))
	case "rmpagebreak":
		return E(f.RemovePageBreak(S(0), R(1)))
	case "dimension":
		return E(f.SetSheetDimension(S(0), R(1)))
	case "ignorederr":
		return E(f.AddIgnoredErrors(S(0), R(1), xl.IgnoredErrorsType(I(2)%9)))
	case "vba":
		b, err := os.ReadFile(filepath.Join(c05Repo(), "test", "vbaProject.bin"))
		if err != nil {
			return "skip"
		}
		return E(f.AddVBAProject(b))
	case "updatelinked":
		return E(f.UpdateLinkedValue())
	case "calc": // reading can populate caches
		_, err := f.CalcCellValue(S(0), R(1))
		return E(err)
	case "getrows":
		_, err := f.GetRows(S(0))
		return E(err)
	// ---- stream writer
	case "stream.new":
		// a StreamWriter must be flushed (documented contract): opening the next one ends the
		// previous one, so that no history saves a workbook with an unterminated stream
		if h.sw != nil {
			_ = h.sw.Flush()
			h.sw = nil
		}
		sw, err := f.NewStreamWriter(S(0))
		if err != nil {
			return "ERR"
		}
		h.sw, h.swRow = sw, 1
		if h.streamed == nil {
			h.streamed = map[string]bool{}
		}
		h.streamed[strings.ToLower(S(0))] = true
		return "ok"
	case "stream.row":
		if h.sw == nil {
			return "skip"
		}
		row := I(0)
		var vals []interface{}
		for i := 2; i < len(a); i++ {
			s := S(i)
			switch (i + row) % 6 {
			case 0:
				vals = append(vals, xl.Cell{StyleID: h.c05Style(i), Value: s})
			case 1:
				vals = append(vals, xl.Cell{Formula: "SUM(A1:A2)&\"<" + strconv.Itoa(i) + ">\""})
			case 2:
				vals = append(vals, i*row)
			case 3:
				vals = append(vals, nil)
			case 4:
				vals = append(vals, []xl.RichTextRun{{Text: s, Font: &xl.Font{Bold: true}}, {Text: " r"}})
			default:
				vals = append(vals, s)
			}
		}
		cell := R(1) + strconv.Itoa(row)
		var err error
		if row%4 == 0 {
			err = h.sw.SetRow(cell, vals, xl.RowOpts{Height: 22, Hidden: row%8 == 0, StyleID: h.c05Style(row), OutlineLevel: row % 3})
		} else {
			err = h.sw.SetRow(cell, vals)
		}
		return E(err)
	case "stream.colwidth":
		if h.sw == nil {
			return "skip"
		}
		return E(h.sw.SetColWidth(I(0), I(1), float64(I(2))))
	case "stream.colstyle":
		if h.sw == nil {
			return "skip"
		}
		return E(h.sw.SetColStyle(I(0), I(1), h.c05Style(I(2))))
	case "stream.merge":
		if h.sw == nil {
			return "skip"
		}
		return E(h.sw.MergeCell(R(0), R(1)))
	case "stream.table":
		if h.sw == nil {
			return "skip"
		}
		return E(h.sw.AddTable(&xl.Table{Range: R(0), Name: S(1), StyleName: "TableStyleLight9"}))
	case "stream.panes":
		if h.sw == nil {
			return "skip"
		}
		return E(h.sw.SetPanes(&xl.Panes{Freeze: true, YSplit: 1, TopLeftCell: "A2", ActivePane: "bottomLeft"}))
	case "stream.pagebreak":
		if h.sw == nil {
			return "skip"
		}
		return E(h.sw.InsertPageBreak(R(0)))
	case "stream.flush":
		if h.sw == nil {
			return "skip"
		}
		err := h.sw.Flush()
		h.sw = nil
		return E(err)
	}
	return "bad-op"
}

func floatp(f float64) *float64 { return &f }
func uintp(u uint) *uint        { return &u }
func uint8p(u uint8) *uint8     { return &u }

func c05Graphic(v int) *xl.GraphicOptions {
	g := &xl.GraphicOptions{ScaleX: 0.5, ScaleY: 0.5, OffsetX: v % 20, OffsetY: v % 7, AltText: "alt <&> \"q\""}
	switch v % 6 {
	case 1:
		g.Hyperlink, g.HyperlinkType = "https://example.com/?a=1&b=<2>", "External"
	case 2:
		g.Hyperlink, g.HyperlinkType = "#Sheet1!A1", "Location" // the documented form: location targets start with #
	case 3:
		g.AutoFit, g.Positioning = true, "oneCell"
	case 4:
		g.Positioning, g.LockAspectRatio, g.PrintObject, g.Locked = "absolute", true, boolp(false), boolp(false)
	}
	return g
}

func c05Chart(sheet string, v int) *xl.Chart {
	if v < 0 {
		v = -v
	}
	q := "'" + strings.ReplaceAll(sheet, "'", "''") + "'!"
	t := c05ChartTypes[v%len(c05ChartTypes)]
	ser := []xl.ChartSeries{
		{Name: q + "$A$2", Categories: q + "$B$1:$D$1", Values: q + "$B$2:$D$2", Sizes: q + "$B$2:$D$2"},
		{Name: q + "$A$3", Categories: q + "$B$1:$D$1", Values: q + "$B$3:$D$3", Sizes: q + "$B$3:$D$3", Marker: xl.ChartMarker{Symbol: "circle", Size: 6}},
	}
	return &xl.Chart{Type: t, Series: ser, Format: *c05Graphic(v),
		Title:        []xl.RichTextRun{{Text: "Chart <&> \"" + strconv.Itoa(v) + "\""}},
		Legend:       xl.ChartLegend{Position: "left", ShowLegendKey: v%2 == 0},
		PlotArea:     xl.ChartPlotArea{ShowCatName: v%3 == 0, ShowVal: true, ShowPercent: v%4 == 0},
		XAxis:        xl.ChartAxis{MajorGridLines: true, Title: []xl.RichTextRun{{Text: "x<&>"}}},
		YAxis:        xl.ChartAxis{MinorGridLines: v%2 == 1, NumFmt: xl.ChartNumFmt{CustomNumFmt: "0.0 \"<u>\""}},
		ShowBlanksAs: "zero", Dimension: xl.ChartDimension{Width: 300, Height: 200}}
}

// ---------------------------------------------------------------- generator

const c05Kinds = 6

func c05KindName(k int) string {
	return []string{"newfile-mixed", "sheets-and-parts", "cells-structure", "validation-cf-names", "fixture-edit", "stream"}[k%c05Kinds]
}

var c05Payloads = []string{
	"plain", "", " lead and trail ", "line1\nline2\r\n\ttab", "<tag attr=\"v\">&amp; &#60; ' \"</tag>", "]]>", "<![CDATA[x]]>",
	"_x000D_ _x0041_ _xFFFF_", "ctl\x01\x02\x0b\x1f", "bad\xff\xfeutf8\xc3", "uni ☃ 中文 \U0001F600", "=NOT(A1)", "'quoted'", "a,b;c|d", "1e5", "0012", "TRUE", "#N/A",
	"&", "<", ">", "\"", "<!-- c -->", "<?pi x?>", "&#x26;lt;", "\ufffe\uffff", "x\u2028y", "  ", "\t", "\r",
}

var c05Formulas = []string{
	"SUM(A1:B2)", "A1+1", "IF(A1>\"<&>\",\"a<b\",\"c&d\")", "Sheet1!A1&\"x\"", "1<2", "\"</f>\"", "A1&\"]]>\"", "INDEX($A$1:$C$3,2,2)", "=1+1", "",
	"SUM(1,2", "'Sh 2'!A1", "NOW()", "A1:A3*2", "_xlfn.CONCAT(\"a\",\"<\")",
}

var c05SheetNames = []string{"Sheet2", "Data", "sh 3", "Ünï", "a&b<c>", "it's", "S.5", "data", "X(1)", "12", "Sheet10", "long name with spaces 31 chars!", "q\"q"}
var c05BadSheetNames = []string{"", "a:b", "x/y", "'lead", "trail'", "this name is longer than thirty-one characters", "[b]", "no*star", "Sheet1"}

type c05Gen struct {
	rng      *Rng
	out      []string
	sheets   []string // believed to exist
	tables   []string
	pivots   [][2]string
	slicers  []string
	objs     map[string][]string // kind → "sheet\x00cell"
	nstyles  int
	ndxf     int
	far      bool
	streamed map[string]bool
	ntab     int
}

func (g *c05Gen) emit(parts ...string) { g.out = append(g.out, strings.Join(parts, " ")) }
func (g *c05Gen) sheet() string {
	if len(g.sheets) == 0 || g.rng.Chance(4) {
		return g.rng.Pick([]string{"Missing", "Sheet1", ""})
	}
	return g.sheets[g.rng.Intn(len(g.sheets))]
}
func (g *c05Gen) cell() string {
	r := g.rng
	switch {
	case r.Chance(3):
		return r.Pick([]string{"A0", "1A", "XFE1", "A1048577", "", "A-1", "$B$2", "b3", "ZZZZ1"})
	case r.Chance(2):
		return r.Pick([]string{"XFD1", "XFD30", "XFC2"})
	case r.Chance(1) && !g.far:
		g.far = true
		return r.Pick([]string{"A3000", "C2500"})
	}
	c, _ := xl.CoordinatesToCellName(r.Range(1, 8), r.Range(1, 20))
	return c
}
func (g *c05Gen) rangeRef() (string, string) {
	r := g.rng
	c1, r1 := r.Range(1, 8), r.Range(1, 18)
	c2, r2 := c1+r.Intn(4), r1+r.Intn(5)
	a, _ := xl.CoordinatesToCellName(c1, r1)
	b, _ := xl.CoordinatesToCellName(c2, r2)
	if r.Chance(10) {
		a, b = b, a
	}
	return a, b
}
func (g *c05Gen) payload() string {
	r := g.rng
	if r.Chance(2) {
		return strings.Repeat(r.Pick([]string{"x", "<", "&", "é"}), r.Pick2([]int{255, 256, 32767, 32768, 5000}))
	}
	return r.Pick(c05Payloads)
}
func (g *c05Gen) istr(i int) string { return strconv.Itoa(i) }
func (g *c05Gen) addObj(kind, sheet, cell string) {
	g.objs[kind] = append(g.objs[kind], sheet+"\x00"+cell)
}
func (g *c05Gen) pickObj(kind string) (string, string) {
	l := g.objs[kind]
	if len(l) == 0 || g.rng.Chance(15) {
		return g.sheet(), g.cell()
	}
	p := strings.SplitN(l[g.rng.Intn(len(l))], "\x00", 2)
	return p[0], p[1]
}

func (g *c05Gen) opCell() {
	r := g.rng
	s, c := g.sheet(), g.cell()
	switch r.Intn(10) {
	case 0, 1, 2:
		g.emit("h.setstr", hx(s), c, hx(g.payload()))
	case 3, 4:
		g.emit("h.setval", hx(s), c, g.istr(r.Intn(8)), g.istr(r.Range(-5, 100000)))
	case 5, 6:
		if r.Chance(25) {
			a, b := g.rangeRef()
			g.emit("h.setformula", hx(s), a, hx(r.Pick(c05Formulas)), g.istr(r.Range(1, 2)), a+":"+b)
		} else {
			g.emit("h.setformula", hx(s), c, hx(r.Pick(c05Formulas)), "0", "-")
		}
	case 7:
		g.emit("h.setrich", hx(s), c, hx(g.payload()))
	case 8:
		a, b := g.rangeRef()
		g.emit("h.setstyle", hx(s), a, b, g.istr(r.Intn(50)))
	case 9:
		if r.Bool() {
			g.emit("h.link", hx(s), c, hx(r.Pick([]string{"https://example.com/?a=1&b=2", "http://x/<y>", "mailto:a@b.c", "file:///c:/a b.xlsx", ""})), "0")
		} else {
			g.emit("h.link", hx(s), c, hx(r.Pick([]string{"Sheet1!A1", "'sh 3'!B2", "Missing!A1", "name<&>"})), "1")
		}
	}
}

func (g *c05Gen) opSheet() {
	r := g.rng
	switch r.Intn(12) {
	case 0, 1, 2, 3:
		n := r.Pick(c05SheetNames)
		if r.Chance(8) {
			n = r.Pick(c05BadSheetNames)
		}
		g.emit("h.newsheet", hx(n))
		if !c05Has(g.sheets, n) && !c05Has(c05BadSheetNames, n) {
			g.sheets = append(g.sheets, n)
		}
	case 4, 5:
		s := g.sheet()
		g.emit("h.delsheet", hx(s))
		if len(g.sheets) > 1 {
			g.sheets = c05Del(g.sheets, s)
		}
	case 6, 7:
		g.emit("h.copysheet", g.istr(r.Intn(len(g.sheets)+1)), g.istr(r.Intn(len(g.sheets)+1)))
	case 8:
		s, n := g.sheet(), r.Pick(c05SheetNames)
		g.emit("h.rensheet", hx(s), hx(n))
		if c05Has(g.sheets, s) && !c05Has(g.sheets, n) {
			g.sheets = append(c05Del(g.sheets, s), n)
		}
	case 9:
		g.emit("h.movesheet", hx(g.sheet()), hx(g.sheet()))
	case 10:
		switch r.Intn(4) {
		case 0:
			g.emit("h.active", g.istr(r.Intn(len(g.sheets)+1)))
		case 1:
			g.emit("h.visible", hx(g.sheet()), g.istr(r.Intn(2)), g.istr(r.Intn(2)))
		case 2:
			g.emit("h.group", hx(g.sheet()), hx(g.sheet()))
		default:
			g.emit("h.ungroup")
		}
	case 11:
		n := "Chart" + g.istr(r.Intn(3))
		g.emit("h.chartsheet", hx(n), hx(g.sheet()), g.istr(r.Intn(40)))
		if !c05Has(g.sheets, n) {
			g.sheets = append(g.sheets, n)
		}
	}
}

func c05Has(xs []string, s string) bool {
	for _, x := range xs {
		if strings.EqualFold(x, s) {
			return true
		}
	}
	return false
}
func c05Del(xs []string, s string) []string {
	var o []string
	for _, x := range xs {
		if !strings.EqualFold(x, s) {
			o = append(o, x)
		}
	}
	return o
}

func (g *c05Gen) opStruct() {
	r := g.rng
	s := g.sheet()
	col, _ := xl.ColumnNumberToName(r.Range(1, 9))
	switch r.Intn(16) {
	case 0, 1:
		g.emit("h.insrows", hx(s), g.istr(r.Range(0, 22)), g.istr(r.Range(1, 3)))
	case 2, 3:
		g.emit("h.rmrow", hx(s), g.istr(r.Range(0, 22)))
	case 4, 5:
		g.emit("h.inscols", hx(s), col, g.istr(r.Range(1, 3)))
	case 6, 7:
		g.emit("h.rmcol", hx(s), col)
	case 8:
		g.emit("h.duprow", hx(s), g.istr(r.Range(1, 20)))
	case 9:
		g.emit("h.duprowto", hx(s), g.istr(r.Range(1, 20)), g.istr(r.Range(1, 25)))
	case 10:
		g.emit("h.rowheight", hx(s), g.istr(r.Range(1, 25)), g.istr(r.Pick2([]int{0, 15, 409, 410, -1})))
	case 11:
		g.emit("h.rowvisible", hx(s), g.istr(r.Range(1, 25)), g.istr(r.Intn(2)))
	case 12:
		if r.Bool() {
			g.emit("h.rowoutline", hx(s), g.istr(r.Range(1, 25)), g.istr(r.Range(0, 8)))
		} else {
			g.emit("h.rowstyle", hx(s), g.istr(r.Range(1, 10)), g.istr(r.Range(5, 25)), g.istr(r.Intn(50)))
		}
	case 13:
		col2, _ := xl.ColumnNumberToName(r.Range(1, 12))
		g.emit("h.colwidth", hx(s), col, col2, g.istr(r.Pick2([]int{0, 9, 40, 255, 256})))
	case 14:
		if r.Bool() {
			g.emit("h.colvisible", hx(s), col, g.istr(r.Intn(2)))
		} else {
			g.emit("h.coloutline", hx(s), col, g.istr(r.Range(0, 8)))
		}
	case 15:
		g.emit("h.colstyle", hx(s), r.Pick([]string{col, "B:D", "D:B", "H:J"}), g.istr(r.Intn(50)))
	}
}

func (g *c05Gen) opStyle() {
	if g.rng.Chance(75) {
		g.emit("h.newstyle", g.istr(g.rng.Intn(400)))
		g.nstyles++
	} else if g.rng.Chance(80) {
		g.emit("h.newdxf", g.istr(g.rng.Intn(400)))
		g.ndxf++
	} else {
		g.emit("h.defaultfont", hx(g.rng.Pick([]string{"Arial", "Font <&>", ""})))
	}
}

func (g *c05Gen) opMerge() {
	a, b := g.rangeRef()
	if g.rng.Chance(80) {
		g.emit("h.merge", hx(g.sheet()), a, b)
	} else {
		g.emit("h.unmerge", hx(g.sheet()), a, b)
	}
}

func (g *c05Gen) opDV() {
	r := g.rng
	a, b := g.rangeRef()
	sq := a + ":" + b
	if r.Chance(15) {
		sq = a + " " + b
	}
	if r.Chance(80) {
		txt := r.Pick([]string{"A1>0", "\"<b>\"", "AND(A1<5,B1>\"&\")", "$E$1:$E$3", "1,2,3", "\"a,b\"", "Sheet1!$A$1:$A$5", "LEN(A1)<3", "x&y", "</formula1>", "<x/>", "a]]>b", "\"q\"\"q\"", "-5", "1.5"})
		g.emit("h.dv", hx(g.sheet()), hx(sq), g.istr(r.Intn(8)), g.istr(r.Intn(30)), hx(txt))
	} else if r.Bool() {
		g.emit("h.deldv", hx(g.sheet()), hx(sq))
	} else {
		g.emit("h.deldv", hx(g.sheet()))
	}
}

func (g *c05Gen) opCF() {
	r := g.rng
	a, b := g.rangeRef()
	if r.Chance(85) {
		v := r.Pick([]string{"5", "$A$1", "\"<txt>\"", "A1>\"&\"", "AND($A1<5,$B1<>\"<\")", "x<y", "&", "]]>", "10%"})
		g.emit("h.cf", hx(g.sheet()), a+":"+b, g.istr(r.Intn(14)), g.istr(r.Intn(20)), hx(v))
	} else {
		g.emit("h.uncf", hx(g.sheet()), a+":"+b)
	}
}

func (g *c05Gen) opName() {
	r := g.rng
	n := r.Pick([]string{"Amount", "_n1", "Print_Area", "a.b", "N<&>", "name with space", "A1", "x", "Überschrift", "_xlnm._FilterDatabase"})
	scope := ""
	if r.Chance(50) {
		scope = g.sheet()
	}
	if r.Chance(75) {
		g.emit("h.dname", hx(n), hx(r.Pick([]string{"Sheet1!$A$2:$D$5", "'sh 3'!$A$1", "\"<&>\"", "1<2", "#REF!", "Sheet1!$A:$A", ""})), hx(scope))
	} else {
		g.emit("h.deldname", hx(n), hx(scope))
	}
}

func (g *c05Gen) opTable() {
	r := g.rng
	switch r.Intn(6) {
	case 0, 1, 2:
		g.ntab++
		a, b := g.rangeRef()
		n := r.Pick([]string{"", "Table_" + g.istr(g.ntab), "T1", "t1", "bad name", "A1", "tbl<&>", "_t" + g.istr(g.ntab)})
		s := g.sheet()
		g.emit("h.table", hx(s), a+":"+b, hx(n), g.istr(r.Intn(12)))
		g.tables = append(g.tables, n)
		g.addObj("table", s, a)
	case 3:
		n := "Table1"
		if len(g.tables) > 0 && r.Chance(85) {
			n = g.tables[r.Intn(len(g.tables))]
		}
		g.emit("h.deltable", hx(n))
	default:
		a, b := g.rangeRef()
		g.emit("h.autofilter", hx(g.sheet()), a+":"+b, g.istr(r.Intn(3)))
	}
}

func (g *c05Gen) opDrawing() {
	r := g.rng
	s, c := g.sheet(), g.cell()
	switch r.Intn(16) {
	case 0, 1, 2:
		g.emit("h.pic", hx(s), c, g.istr(r.Intn(9)), g.istr(r.Intn(30)))
		g.addObj("pic", s, c)
	case 3:
		g.emit("h.picbytes", hx(s), c, g.istr(r.Intn(4)), g.istr(r.Intn(30)))
		g.addObj("pic", s, c)
	case 4, 5:
		ps, pc := g.pickObj("pic")
		g.emit("h.delpic", hx(ps), pc)
	case 6, 7:
		combo := -1
		if r.Chance(30) {
			combo = r.Intn(40)
		}
		g.emit("h.chart", hx(s), c, g.istr(r.Intn(40)), g.istr(combo))
		g.addObj("chart", s, c)
	case 8:
		ps, pc := g.pickObj("chart")
		g.emit("h.delchart", hx(ps), pc)
	case 9:
		g.emit("h.shape", hx(s), c, g.istr(r.Intn(30)), hx(g.payload()))
	case 10, 11:
		g.emit("h.comment", hx(s), c, hx(r.Pick([]string{"Author", "", "A<&>\"", "Excelize"})), hx(g.payload()))
		g.addObj("comment", s, c)
	case 12:
		ps, pc := g.pickObj("comment")
		g.emit("h.delcomment", hx(ps), pc)
	case 13, 14:
		g.emit("h.formctl", hx(s), c, g.istr(r.Intn(16)), hx(r.Pick([]string{"Button1_Click", "m<&>", "", "txt \"q\""})))
		g.addObj("form", s, c)
	case 15:
		if r.Bool() {
			ps, pc := g.pickObj("form")
			g.emit("h.delformctl", hx(ps), pc)
		} else if r.Bool() {
			g.emit("h.background", hx(s), g.istr(r.Intn(4)))
		} else {
			g.emit("h.hfimage", hx(s), g.istr(r.Intn(12)))
		}
	}
}

func (g *c05Gen) opAnalytic() {
	r := g.rng
	s := g.sheet()
	switch r.Intn(8) {
	case 0, 1:
		g.emit("h.sparkline", hx(s), g.cell(), hx(r.Pick([]string{"Sheet1!A1:E1", "A2:E2", "'sh 3'!B1:B9", "Missing!A1:A2", "<&>"})), g.istr(r.Intn(40)))
	case 2, 3, 4:
		g.emit("h.pivotdata", hx(s))
		n := "Pivot" + g.istr(r.Intn(3))
		tgt := g.sheet()
		g.emit("h.pivot", hx(s+"!A1:E8"), hx(tgt+"!"+r.Pick([]string{"G2:M34", "H10:N30", "G2:M34"})), hx(n), g.istr(r.Intn(6)))
		g.pivots = append(g.pivots, [2]string{tgt, n})
	case 5:
		if len(g.pivots) > 0 {
			p := g.pivots[r.Intn(len(g.pivots))]
			g.emit("h.delpivot", hx(p[0]), hx(p[1]))
		} else {
			g.emit("h.delpivot", hx(s), hx("Pivot0"))
		}
	case 6:
		// slicer on a table column: set up header cells and a table first
		g.ntab++
		tn := "SlT" + g.istr(g.ntab)
		g.emit("h.setrow", hx(s), "A1", hx("Month"), hx("Year"), hx("Type"))
		g.emit("h.setrow", hx(s), "A2", hx("Jan"), hx("2020"), hx("x"))
		g.emit("h.table", hx(s), "A1:C3", hx(tn), "0")
		g.tables = append(g.tables, tn)
		sn := r.Pick([]string{"Month", "Year", "Nope"})
		g.emit("h.slicer", hx(g.sheet()), hx(sn), g.cell(), hx(s), hx(tn), g.istr(r.Intn(6)))
		g.slicers = append(g.slicers, sn)
		if len(g.pivots) > 0 && r.Bool() {
			p := g.pivots[r.Intn(len(g.pivots))]
			g.emit("h.slicer", hx(g.sheet()), hx("Month"), g.cell(), hx(p[0]), hx(p[1]), g.istr(r.Intn(6)))
		}
	case 7:
		n := "Month"
		if len(g.slicers) > 0 {
			n = g.slicers[r.Intn(len(g.slicers))]
		}
		g.emit("h.delslicer", hx(n))
	}
}

func (g *c05Gen) opMisc() {
	r := g.rng
	s := g.sheet()
	k := g.istr(r.Intn(30))
	switch r.Intn(24) {
	case 0:
		g.emit("h.panes", hx(s), k)
	case 1:
		g.emit("h.sheetprops", hx(s), k)
	case 2:
		g.emit("h.sheetview", hx(s), k)
	case 3:
		g.emit("h.pagelayout", hx(s))
	case 4:
		g.emit("h.margins", hx(s))
	case 5:
		g.emit("h.headerfooter", hx(s), hx(r.Pick([]string{"&L<first>&R&\"Arial,Bold\"x", "", "plain"})))
	case 6:
		g.emit("h.protect", hx(s), k)
	case 7:
		g.emit("h.unprotect", hx(s))
	case 8:
		g.emit("h.protectwb")
	case 9:
		g.emit("h.unprotectwb")
	case 10:
		g.emit("h.wbprops", k)
	case 11:
		g.emit("h.calcprops")
	case 12:
		g.emit("h.docprops", hx(g.payload()))
	case 13:
		g.emit("h.appprops", hx(r.Pick([]string{"Co <&>", "", "plain"})))
	case 14:
		g.emit("h.pagebreak", hx(s), g.cell())
	case 15:
		g.emit("h.rmpagebreak", hx(s), g.cell())
	case 16:
		a, b := g.rangeRef()
		g.emit("h.dimension", hx(s), a+":"+b)
	case 17:
		a, b := g.rangeRef()
		g.emit("h.ignorederr", hx(s), a+":"+b, k)
	case 18:
		if r.Chance(30) {
			g.emit("h.vba")
		}
	case 19:
		g.emit("h.updatelinked")
	case 20, 21:
		g.emit("h.calc", hx(s), g.cell())
	default:
		g.emit("h.getrows", hx(s))
	}
}

func (g *c05Gen) opStream() {
	r := g.rng
	n := "Stream" + g.istr(len(g.streamed)+1)
	if r.Chance(25) {
		n = "Sheet1"
	} else {
		g.emit("h.newsheet", hx(n))
		g.sheets = append(g.sheets, n)
	}
	g.streamed[n] = true
	g.emit("h.stream.new", hx(n))
	if r.Chance(50) {
		g.emit("h.stream.colwidth", g.istr(r.Range(1, 3)), g.istr(r.Range(3, 6)), g.istr(r.Range(5, 60)))
	}
	if r.Chance(30) {
		g.emit("h.stream.colstyle", "2", "4", g.istr(r.Intn(20)))
	}
	if r.Chance(30) {
		g.emit("h.stream.panes")
	}
	row := 1
	nrows := r.Range(1, 14)
	for i := 0; i < nrows; i++ {
		toks := []string{"h.stream.row", g.istr(row), r.Pick([]string{"A", "A", "B", "C"})}
		for j, m := 0, r.Range(0, 6); j < m; j++ {
			toks = append(toks, hx(g.payload()))
		}
		g.emit(toks...)
		switch {
		case r.Chance(8):
			row -= r.Range(0, 2) // repeated / descending row: must be rejected
			if row < 1 {
				row = 1
			}
		case r.Chance(4):
			g.emit("h.stream.row", g.istr(row+1), "XFD", hx("a"), hx("b")) // overflows the last column
			row += 2
		default:
			row += r.Range(1, 3)
		}
	}
	if r.Chance(50) {
		g.emit("h.stream.merge", "A1", "B2")
		if r.Chance(40) {
			g.emit("h.stream.merge", "B2", "C3")
		}
	}
	if r.Chance(40) {
		g.ntab++
		g.emit("h.stream.table", "A1:C3", hx("StT"+g.istr(g.ntab)))
	}
	if r.Chance(20) {
		g.emit("h.stream.pagebreak", "A3")
	}
	if r.Chance(85) {
		g.emit("h.stream.flush")
	}
	if r.Chance(25) { // normal API on a streamed sheet afterwards
		g.emit("h.setstr", hx(n), "A1", hx("after-stream"))
	}
}

// c05MergeWitness is the reconnaissance case: overlapping merged ranges survive.
func c05MergeWitness() []string {
	s := hx("Sheet1")
	return []string{"h.new", "h.merge " + s + " C1 C3", "h.merge " + s + " A3 A4", "h.merge " + s + " A4 D4", "h.save"}
}

func c05FixtureSheets(name string) []string {
	switch name {
	case "Book1.xlsx":
		return []string{"Sheet1", "Sheet2"}
	case "CalcChain.xlsx":
		return []string{"Sheet1"}
	case "MergeCell.xlsx":
		return []string{"Sheet1"}
	case "SharedStrings.xlsx":
		return []string{"Sheet1"}
	}
	return []string{"Sheet1"}
}

// c05GenHistory generates one history of about n operations.
func c05GenHistory(rng *Rng, kind, n int) []string {
	g := &c05Gen{rng: rng, objs: map[string][]string{}, streamed: map[string]bool{}, sheets: []string{"Sheet1"}}
	kind %= c05Kinds
	// weights: cell sheet struct style merge dv cf name table drawing analytic misc
	weights := [][]int{
		{16, 8, 10, 6, 6, 6, 6, 5, 7, 14, 6, 10},
		{8, 26, 4, 2, 2, 2, 2, 3, 12, 26, 9, 4},
		{36, 4, 26, 8, 12, 0, 0, 2, 4, 2, 0, 6},
		{10, 4, 6, 6, 2, 22, 22, 14, 12, 0, 0, 2},
		{22, 10, 18, 4, 6, 5, 5, 4, 8, 12, 2, 4},
		{14, 6, 6, 8, 4, 2, 2, 2, 4, 6, 2, 4},
	}[kind]
	if kind == 4 && rng.Chance(55) {
		// a synthetic Excel-like package (c05_synth.go)
		variant, flags := c05SynthPick(rng)
		if data := c05Synth(variant, flags); data != nil {
			g.emit("h.openbytes", hx(string(data)))
			g.emit("h.save") // the untouched input must survive a plain round trip
			g.sheets = []string{"Sheet1", "Data"}
		} else {
			g.emit("h.new")
		}
	} else if kind == 4 {
		fx := rng.Pick([]string{"Book1.xlsx", "CalcChain.xlsx", "MergeCell.xlsx", "SharedStrings.xlsx", "Book1.xlsx"})
		g.emit("h.open", fx)
		g.sheets = c05FixtureSheets(fx)
	} else {
		g.emit("h.new")
	}
	total := 0
	for _, w := range weights {
		total += w
	}
	nextSave := rng.Range(6, 14)
	streamAt := -1
	if kind == 5 {
		streamAt = rng.Range(0, n/2)
	}
	for i := 0; i < n; i++ {
		if i == streamAt || (kind == 5 && rng.Chance(6)) {
			g.opStream()
		}
		x := rng.Intn(total)
		k := 0
		for ; k < len(weights); k++ {
			if x < weights[k] {
				break
			}
			x -= weights[k]
		}
		switch k {
		case 0:
			g.opCell()
		case 1:
			g.opSheet()
		case 2:
			g.opStruct()
		case 3:
			g.opStyle()
		case 4:
			g.opMerge()
		case 5:
			g.opDV()
		case 6:
			g.opCF()
		case 7:
			g.opName()
		case 8:
			g.opTable()
		case 9:
			g.opDrawing()
		case 10:
			g.opAnalytic()
		default:
			g.opMisc()
		}
		nextSave--
		if nextSave <= 0 {
			g.emit("h.save")
			if rng.Chance(35) {
				g.emit("h.reopen")
			}
			nextSave = rng.Range(6, 16)
		}
	}
	g.emit("h.save")
	return g.out
}
