//go:build verif_c05

package main

// C05 — synthetic "Excel-like" input packages. A base workbook is built with
// the library, written, and then rewritten as text with archive/zip (no
// excelize code in the rewriting) into the spellings other producers use and
// the library itself never writes:
//
//	sst      count > uniqueCount (count = referencing cells), uniqueCount absent, both absent
//	rows     `r` attributes omitted on rows and cells (dense block), `spans` present,
//	         empty rows dropped (gaps)
//	styles   count attributes that differ from the number of child elements, or absent
//	workbook sheetId / part number / r:id that disagree (sheets re-ordered)
//	names    defined names with localSheetId; several cells share one <si>
//
// Histories of the fixture-edit family open these packages and run the normal
// operations on them.

import (
	"fmt"
	"path/filepath"
	"regexp"
	"strconv"
	"strings"

	xl "github.com/xuri/excelize/v2"
)

const (
	c05SynSstCount = 1 << iota
	c05SynSstNoUnique
	c05SynSstNoCounts
	c05SynNoR
	c05SynSpans
	c05SynGaps
	c05SynStyleCounts
	c05SynStyleNoCounts
	c05SynSwapIDs
	c05SynStripDefaults // [Content_Types].xml lists only the Default extensions the package uses
	c05SynCalcChain     // xl/calcChain.xml listing every formula cell (as Excel writes it), with Override and workbook relationship
	c05SynAll           = 1<<iota - 1
)

var (
	c05ReSstTag    = regexp.MustCompile(`<sst [^>]*>`)
	c05ReCountAttr = regexp.MustCompile(` count="(\d+)"`)
	c05ReUnique    = regexp.MustCompile(` uniqueCount="\d+"`)
	c05ReRowR      = regexp.MustCompile(`<row r="\d+"`)
	c05ReCellR     = regexp.MustCompile(`<c r="[A-Z]+\d+"`)
	c05ReEmptyRow  = regexp.MustCompile(`<row r="\d+"></row>`)
	c05ReRowOpen   = regexp.MustCompile(`<row( r="\d+")?`)
	c05ReDefault   = regexp.MustCompile(`<Default Extension="([A-Za-z0-9]+)" ContentType="[^"]*"(></Default>|/>)`)
	c05ReStyleCnt  = regexp.MustCompile(`<(fonts|fills|borders|cellStyleXfs|cellXfs|cellStyles|dxfs|numFmts) count="(\d+)"`)
)

// formula cells of the base workbook (sheet, cell, formula); D6 of Sheet1 is set separately
var c05SynthFormulaCells = [][3]string{
	{"Sheet1", "D2", "A2&B2"}, {"Sheet1", "D3", "LEN(A3)"}, {"Sheet1", "B4", "A4+1"}, {"Sheet1", "C5", "SUM(A1:B4)"},
	{"Data", "C1", "LEN(A1)"}, {"Data", "C8", "B8&\"x\""},
}

// c05SynthBase builds the base workbook: a dense 4x6 block on Sheet1 whose
// strings repeat (several cells share one <si>), numbers, a formula, two
// styles, a second sheet with data after a gap of empty rows, a workbook and a
// sheet scoped defined name.
func c05SynthBase(variant int) []byte {
	f := xl.NewFile()
	defer f.Close()
	_, _ = f.NewSheet("Data")
	words := []string{"alpha", "beta", "alpha", "gamma <&>", "beta", "alpha"}
	for r := 1; r <= 6; r++ {
		for c := 1; c <= 4; c++ {
			cell, _ := xl.CoordinatesToCellName(c, r)
			switch (r + c + variant) % 3 {
			case 0:
				_ = f.SetCellInt("Sheet1", cell, int64(r*c))
			default:
				_ = f.SetCellStr("Sheet1", cell, words[(r*c+variant)%len(words)])
			}
		}
	}
	_ = f.SetCellFormula("Sheet1", "D6", "SUM(A1:C5)")
	for _, fc := range c05SynthFormulaCells {
		_ = f.SetCellFormula(fc[0], fc[1], fc[2])
	}
	st, _ := f.NewStyle(&xl.Style{Font: &xl.Font{Bold: true}, NumFmt: 2})
	_ = f.SetCellStyle("Sheet1", "A1", "D1", st)
	st2, _ := f.NewStyle(&xl.Style{Fill: xl.Fill{Type: "pattern", Pattern: 1, Color: []string{"FFFF00"}}})
	_ = f.SetCellStyle("Sheet1", "B2", "B3", st2)
	for r := 1; r <= 3; r++ {
		_ = f.SetCellStr("Data", "A"+strconv.Itoa(r), words[r%len(words)])
		_ = f.SetCellStr("Data", "B"+strconv.Itoa(r+6), words[(r+1)%len(words)])
	}
	// Sheet1 owns a drawing (one png picture) and a VML part (one comment); Data owns neither
	_ = f.AddPicture("Sheet1", "F1", filepath.Join(c05Repo(), "test", "images", "excel.png"), &xl.GraphicOptions{ScaleX: 0.3, ScaleY: 0.3})
	_ = f.AddComment("Sheet1", xl.Comment{Cell: "E1", Author: "Producer", Text: "existing comment"})
	_ = f.SetDefinedName(&xl.DefinedName{Name: "Total", RefersTo: "Sheet1!$D$6"})
	_ = f.SetDefinedName(&xl.DefinedName{Name: "Local", RefersTo: "Data!$A$1:$A$3", Scope: "Data"})
	buf, err := f.WriteToBuffer()
	if err != nil {
		return nil
	}
	return append([]byte(nil), buf.Bytes()...)
}

// c05Synth rewrites the base package according to the flag set.
func c05Synth(variant, flags int) []byte {
	data := c05SynthBase(variant)
	if data == nil {
		return nil
	}
	if flags&(c05SynSstCount|c05SynSstNoUnique|c05SynSstNoCounts) != 0 {
		data = c05RewriteZip(data, "xl/sharedStrings.xml", func(b []byte) []byte {
			s := string(b)
			tag := c05ReSstTag.FindString(s)
			nt := tag
			switch {
			case flags&c05SynSstNoCounts != 0:
				nt = c05ReUnique.ReplaceAllString(c05ReCountAttr.ReplaceAllString(nt, ""), "")
			default:
				if flags&c05SynSstCount != 0 {
					nt = c05ReCountAttr.ReplaceAllStringFunc(nt, func(m string) string {
						n, _ := strconv.Atoi(c05ReCountAttr.FindStringSubmatch(m)[1])
						return fmt.Sprintf(` count="%d"`, n+7+variant%5) // referencing cells, not items
					})
				}
				if flags&c05SynSstNoUnique != 0 {
					nt = c05ReUnique.ReplaceAllString(nt, "")
				}
			}
			return []byte(strings.Replace(s, tag, nt, 1))
		})
	}
	sheetRewrite := func(b []byte, dense bool) []byte {
		s := string(b)
		if flags&c05SynGaps != 0 {
			s = c05ReEmptyRow.ReplaceAllString(s, "")
		}
		if flags&c05SynSpans != 0 {
			s = c05ReRowOpen.ReplaceAllStringFunc(s, func(m string) string { return m + ` spans="1:4"` })
		}
		if flags&c05SynNoR != 0 && dense {
			s = c05ReRowR.ReplaceAllString(s, "<row")
			s = c05ReCellR.ReplaceAllString(s, "<c")
		}
		return []byte(s)
	}
	if flags&(c05SynGaps|c05SynSpans|c05SynNoR) != 0 {
		data = c05RewriteZip(data, "xl/worksheets/sheet1.xml", func(b []byte) []byte { return sheetRewrite(b, true) })
		data = c05RewriteZip(data, "xl/worksheets/sheet2.xml", func(b []byte) []byte { return sheetRewrite(b, false) })
	}
	if flags&(c05SynStyleCounts|c05SynStyleNoCounts) != 0 {
		data = c05RewriteZip(data, "xl/styles.xml", func(b []byte) []byte {
			return []byte(c05ReStyleCnt.ReplaceAllStringFunc(string(b), func(m string) string {
				sm := c05ReStyleCnt.FindStringSubmatch(m)
				if flags&c05SynStyleNoCounts != 0 {
					return "<" + sm[1]
				}
				n, _ := strconv.Atoi(sm[2])
				return fmt.Sprintf(`<%s count="%d"`, sm[1], n+3)
			}))
		})
	}
	if flags&c05SynSwapIDs != 0 {
		data = c05SwapSheetIDs(data)
	}
	if flags&c05SynCalcChain != 0 {
		// Sheet1 has sheetId 1, Data sheetId 2 (the swap rewrite is excluded with this flag)
		var cc strings.Builder
		cc.WriteString(`<?xml version="1.0" encoding="UTF-8" standalone="yes"?>` + "\n" + `<calcChain xmlns="http://schemas.openxmlformats.org/spreadsheetml/2006/main">`)
		cc.WriteString(`<c r="D6" i="1"/>`)
		for _, fc := range c05SynthFormulaCells {
			id := "1"
			if fc[0] == "Data" {
				id = "2"
			}
			cc.WriteString(`<c r="` + fc[1] + `" i="` + id + `"/>`)
		}
		cc.WriteString(`</calcChain>`)
		data = c05AddZipEntry(data, "xl/calcChain.xml", []byte(cc.String()))
		data = c05RewriteZip(data, "[Content_Types].xml", func(b []byte) []byte {
			return []byte(strings.Replace(string(b), "</Types>", `<Override PartName="/xl/calcChain.xml" ContentType="application/vnd.openxmlformats-officedocument.spreadsheetml.calcChain+xml"/></Types>`, 1))
		})
		data = c05RewriteZip(data, "xl/_rels/workbook.xml.rels", func(b []byte) []byte {
			return []byte(strings.Replace(string(b), "</Relationships>", `<Relationship Id="rId77" Type="http://schemas.openxmlformats.org/officeDocument/2006/relationships/calcChain" Target="calcChain.xml"/></Relationships>`, 1))
		})
	}
	if flags&c05SynStripDefaults != 0 {
		// another producer lists only what it uses: rels, xml, png (the picture), vml (the comment)
		data = c05RewriteZip(data, "[Content_Types].xml", func(b []byte) []byte {
			return []byte(c05ReDefault.ReplaceAllStringFunc(string(b), func(m string) string {
				switch c05ReDefault.FindStringSubmatch(m)[1] {
				case "rels", "xml", "png", "vml":
					return m
				}
				return ""
			}))
		})
	}
	return data
}

func c05SynthName(flags int) string {
	names := []string{"sst-count", "sst-nounique", "sst-nocounts", "no-r", "spans", "gaps", "style-counts", "style-nocounts", "swap-ids", "strip-defaults", "calcchain"}
	var out []string
	for i, n := range names {
		if flags&(1<<i) != 0 {
			out = append(out, n)
		}
	}
	if len(out) == 0 {
		return "plain"
	}
	return strings.Join(out, "+")
}

// c05SynthPick draws a flag set: one rewrite alone, a pair, or a dense mix.
func c05SynthPick(rng *Rng) (variant, flags int) {
	variant = rng.Intn(6)
	switch rng.Intn(4) {
	case 0:
		flags = 1 << rng.Intn(11)
	case 1:
		flags = 1<<rng.Intn(11) | 1<<rng.Intn(11)
	default:
		flags = rng.Intn(c05SynAll + 1)
	}
	if flags&c05SynSstNoCounts != 0 {
		flags &^= c05SynSstCount | c05SynSstNoUnique
	}
	if flags&c05SynStyleNoCounts != 0 {
		flags &^= c05SynStyleCounts
	}
	if flags&c05SynCalcChain != 0 {
		flags &^= c05SynSwapIDs // the chain names sheets by id
	}
	return
}

// c05SynthWitnesses: deterministic histories on synthetic fixtures (every rewrite alone, then
// all together), exercising the calls whose bookkeeping depends on what the input declares.
func c05SynthWitnesses() []c05Witness {
	s1, s2 := hx("Sheet1"), hx("Data")
	edits := []string{
		"h.setrich " + s1 + " B1 " + hx("rich <new>"),
		"h.setstr " + s1 + " A2 " + hx("fresh string"),
		"h.setstr " + s1 + " C3 " + hx("alpha"),
		"h.setrich " + s2 + " C1 " + hx("second"),
		"h.setval " + s2 + " A8 1 42",
		"h.newstyle 0",
		"h.setstyle " + s1 + " C2 D4 0",
		"h.newstyle 6",
		"h.setstyle " + s2 + " A1 B9 1",
		"h.comment " + s1 + " D2 " + hx("Au") + " " + hx("note"),
		"h.table " + s2 + " A1:B3 " + hx("SynT") + " 0",
		"h.dname " + hx("Other") + " " + hx("Sheet1!$A$1") + " " + s1,
		"h.insrows " + s1 + " 3 1",
		"h.save",
		"h.reopen",
		"h.setrich " + s1 + " A1 " + hx("after reopen"),
		"h.rmrow " + s2 + " 2",
		"h.newsheet " + hx("Added"),
		"h.setstr " + hx("Added") + " A1 " + hx("beta"),
		"h.save",
	}
	var ws []c05Witness
	all := []int{c05SynSstCount, c05SynSstNoUnique, c05SynSstNoCounts, c05SynNoR, c05SynSpans, c05SynGaps, c05SynStyleCounts, c05SynStyleNoCounts,
		c05SynSstCount | c05SynNoR | c05SynSpans | c05SynGaps | c05SynStyleCounts}
	for i, fl := range all {
		data := c05Synth(i, fl)
		if data == nil {
			continue
		}
		hist := append([]string{"h.openbytes " + hx(string(data)), "h.save"}, edits...)
		ws = append(ws, c05Witness{"synth:" + c05SynthName(fl), hist})
	}
	// pictures of every supported format, comments and form controls on a sheet that already owns a
	// drawing and a VML part and on one that owns neither; on the synthetic package whose content
	// types list only the extensions in use, and on test/Book1.xlsx (Default jpeg only, Sheet1 owns a drawing)
	media := func(a, b string) []string {
		var l []string
		// first only the sheet that already owns a drawing / VML part, and a save: nothing else
		// may register the Default extensions in between
		for i := range c05Images {
			col, _ := xl.ColumnNumberToName(8 + i)
			l = append(l, "h.pic "+a+" "+col+"2 "+strconv.Itoa(i)+" 0")
		}
		l = append(l, "h.picbytes "+a+" H20 1 5", "h.comment "+a+" G3 "+hx("Au")+" "+hx("c1"), "h.formctl "+a+" G5 1 "+hx("Click"), "h.chart "+a+" J12 0 -1", "h.save")
		for i := range c05Images {
			col, _ := xl.ColumnNumberToName(8 + i)
			l = append(l, "h.pic "+b+" "+col+"9 "+strconv.Itoa(i)+" 3")
		}
		l = append(l, "h.comment "+b+" G3 "+hx("Au")+" "+hx("c2"), "h.formctl "+b+" G5 4 "+hx("Check"), "h.shape "+b+" J12 0 "+hx("t"),
			"h.save", "h.reopen", "h.pic "+a+" A30 2 1", "h.delpic "+a+" H2", "h.save")
		return l
	}
	if data := c05Synth(2, c05SynStripDefaults); data != nil {
		ws = append(ws, c05Witness{"synth:strip-defaults-media", append([]string{"h.openbytes " + hx(string(data)), "h.save"}, media(s1, s2)...)})
	}
	ws = append(ws, c05Witness{"book1-media", append([]string{"h.open Book1.xlsx"}, media(s1, hx("Sheet2"))...)})
	// structural edits exactly at, before and after the rows / columns of chained formula cells
	if data := c05Synth(0, c05SynCalcChain); data != nil {
		open := "h.openbytes " + hx(string(data))
		for i, edits := range [][]string{
			{"h.insrows " + s1 + " 2 1", "h.save", "h.insrows " + s1 + " 7 2", "h.save", "h.insrows " + s1 + " 1 1", "h.save"},
			{"h.inscols " + s1 + " D 1", "h.save", "h.inscols " + s1 + " B 2", "h.save", "h.inscols " + s1 + " A 1", "h.save"},
			{"h.rmrow " + s1 + " 3", "h.save", "h.rmrow " + s1 + " 1", "h.save", "h.rmrow " + s1 + " 5", "h.save"},
			{"h.rmcol " + s1 + " D", "h.save", "h.rmcol " + s1 + " A", "h.save"},
			{"h.insrows " + s2 + " 1 1", "h.inscols " + s2 + " C 1", "h.save", "h.rmrow " + s2 + " 9", "h.rmcol " + s2 + " A", "h.save"},
			{"h.duprow " + s1 + " 2", "h.save", "h.duprowto " + s1 + " 3 1", "h.save", "h.setval " + s1 + " D2 1 5", "h.setstr " + s1 + " D4 " + hx("x"), "h.save",
				"h.setformula " + s1 + " A1 " + hx("1+1") + " 0 -", "h.save", "h.reopen", "h.insrows " + s1 + " 4 1", "h.save"},
		} {
			ws = append(ws, c05Witness{"synth:calcchain-edit-" + strconv.Itoa(i), append([]string{open, "h.save"}, edits...)})
		}
		// the cell setters on chained cells: empty formula, new formula, value; canonical and lower-case spelling
		ws = append(ws, c05Witness{"synth:calcchain-setters", []string{open, "h.setformula " + s1 + " D2 - 0 -", "h.setformula " + s1 + " C5 " + hx("A1*2") + " 0 -",
			"h.setval " + s1 + " B4 1 3", "h.setrich " + s2 + " C1 " + hx("r"), "h.save", "h.reopen", "h.setformula " + s2 + " C8 - 0 -", "h.setformula " + s1 + " A1 " + hx("D6+1") + " 0 -", "h.save"}})
		ws = append(ws, c05Witness{"synth:calcchain-setters-lowercase", []string{open, "h.setformula " + s1 + " d3 - 0 -", "h.setval " + s1 + " d6 1 3", "h.save"}})
		// every chained formula overwritten: the chain part goes away
		emptied := []string{open, "h.setval " + s1 + " D6 1 1"}
		for _, fc := range c05SynthFormulaCells {
			emptied = append(emptied, "h.setval "+hx(fc[0])+" "+fc[1]+" 1 7")
		}
		ws = append(ws, c05Witness{"synth:calcchain-emptied", append(emptied, "h.save")})
		// CopySheet over a worksheet that has chained formulas
		ws = append(ws, c05Witness{"synth:calcchain-copysheet", []string{open, "h.copysheet 1 0", "h.save"}})
		// a row edit that is rejected half-way (a data validation formula the adjuster cannot parse)
		ws = append(ws, c05Witness{"synth:calcchain-rejected-edit", []string{open, "h.dv " + s2 + " " + hx("C12:D13") + " 1 21 " + hx("</formula1>"), "h.duprow " + s2 + " 1", "h.save"}})
	}
	// CopySheet in a workbook whose sheet IDs and part numbers disagree
	if data := c05Synth(1, c05SynSwapIDs); data != nil {
		ws = append(ws, c05Witness{"synth:swap-ids-copysheet", []string{"h.openbytes " + hx(string(data)),
			"h.formctl " + s1 + " F12 7 " + hx("Button1_Click"), "h.comment " + s2 + " A1 " + hx("Au") + " " + hx("n"),
			"h.newsheet " + hx("Sheet10"), "h.copysheet 0 2", "h.save", "h.copysheet 1 0", "h.save"}})
	}
	return ws
}
