//go:build verif_c05

package main

// C05 — deterministic witness histories and the zip rewriting helper used to
// build fixture variants (no excelize code in the rewriting itself).

import (
	"archive/zip"
	"bytes"
	"io"
	"strings"

	xl "github.com/xuri/excelize/v2"
)

type c05Witness struct {
	name string
	hist []string
}

// c05RewriteZip copies a zip, transforming one entry.
func c05RewriteZip(data []byte, name string, fn func([]byte) []byte) []byte {
	zr, err := zip.NewReader(bytes.NewReader(data), int64(len(data)))
	if err != nil {
		return data
	}
	var out bytes.Buffer
	zw := zip.NewWriter(&out)
	for _, e := range zr.File {
		rc, err := e.Open()
		if err != nil {
			continue
		}
		b, _ := io.ReadAll(rc)
		rc.Close()
		if e.Name == name {
			b = fn(b)
		}
		w, _ := zw.Create(e.Name)
		w.Write(b)
	}
	zw.Close()
	return out.Bytes()
}

// c05AddZipEntry copies a zip and appends one entry.
func c05AddZipEntry(data []byte, name string, content []byte) []byte {
	zr, err := zip.NewReader(bytes.NewReader(data), int64(len(data)))
	if err != nil {
		return data
	}
	var out bytes.Buffer
	zw := zip.NewWriter(&out)
	for _, e := range zr.File {
		rc, err := e.Open()
		if err != nil {
			continue
		}
		b, _ := io.ReadAll(rc)
		rc.Close()
		w, _ := zw.Create(e.Name)
		w.Write(b)
	}
	w, _ := zw.Create(name)
	w.Write(content)
	zw.Close()
	return out.Bytes()
}

func c05Witnesses() []c05Witness {
	s1, s2 := hx("Sheet1"), hx("Sheet2")
	var ws []c05Witness
	// a workbook whose sheets were re-ordered in Excel: sheetId and part number disagree
	f := xl.NewFile()
	_, _ = f.NewSheet("Sheet2")
	_ = f.SetCellValue("Sheet1", "A1", "one")
	_ = f.SetCellValue("Sheet2", "A1", "two")
	if buf, err := f.WriteToBuffer(); err == nil {
		fx := hx(string(c05SwapSheetIDs(buf.Bytes())))
		ws = append(ws, c05Witness{"reordered-open-save", []string{"h.openbytes " + fx, "h.save"}})
		ws = append(ws, c05Witness{"reordered-delete-new", []string{"h.openbytes " + fx, "h.delsheet " + s1, "h.newsheet " + hx("New"), "h.save"}})
	}
	f.Close()
	ws = append(ws,
		c05Witness{"copysheet-comment", []string{"h.new", "h.comment " + s1 + " A1 " + hx("Au") + " " + hx("text"), "h.newsheet " + s2, "h.copysheet 0 1", "h.save"}},
		c05Witness{"copysheet-hyperlink", []string{"h.new", "h.link " + s1 + " A1 " + hx("https://example.com") + " 0", "h.newsheet " + s2, "h.copysheet 0 1", "h.save"}},
		c05Witness{"copysheet-saved-table", []string{"h.new", "h.table " + s1 + " A1:B3 " + hx("T1") + " 0", "h.comment " + s1 + " C1 " + hx("Au") + " " + hx("t"), "h.save", "h.reopen", "h.newsheet " + s2, "h.copysheet 0 1", "h.save"}},
		c05Witness{"deletesheet-with-parts", []string{"h.new", "h.newsheet " + s2, "h.table " + s2 + " A1:B3 " + hx("T1") + " 0", "h.pic " + s2 + " D1 0 0", "h.comment " + s2 + " C1 " + hx("Au") + " " + hx("t"), "h.delsheet " + s2, "h.save", "h.newsheet " + s2, "h.table " + s2 + " A1:B3 " + hx("T2") + " 0", "h.pic " + s2 + " D1 1 0", "h.save"}},
		c05Witness{"calcchain-delete-sheet", []string{"h.open CalcChain.xlsx", "h.newsheet " + s2, "h.delsheet " + s1, "h.save"}},
		c05Witness{"calcchain-overwrite", []string{"h.open CalcChain.xlsx", "h.setval " + s1 + " A1 1 5", "h.setval " + s1 + " B1 1 5", "h.setval " + s1 + " C1 1 5", "h.save"}},
		c05Witness{"cf-missing-dxf", []string{"h.new", "h.cf " + s1 + " D5:E8 10 11 " + hx("x<y"), "h.save"}},
		c05Witness{"formctl-markup", []string{"h.new", "h.formctl " + s1 + " H2 12 " + hx("m<&>"), "h.save"}},
		c05Witness{"duprowto-beyond", []string{"h.new", "h.setstr " + s1 + " A7 " + hx("x"), "h.duprowto " + s1 + " 2 18", "h.setval " + s1 + " B20 1 1", "h.save"}},
		c05Witness{"stream-overflow-row", []string{"h.new", "h.stream.new " + s1, "h.stream.row 5 XFD " + hx("a") + " " + hx("b"), "h.save"}},
		c05Witness{"shape-bad-cell", []string{"h.new", "h.shape " + s1 + " 1A 20 " + hx("t"), "h.save"}},
		c05Witness{"chart-bad-cell", []string{"h.new", "h.chart " + s1 + " ZZZZ1 37 6", "h.save"}},
		c05Witness{"pivot-on-chartsheet", []string{"h.new", "h.chartsheet " + hx("Chart1") + " " + s1 + " 13", "h.pivotdata " + s1, "h.pivot " + hx("Sheet1!A1:E8") + " " + hx("Chart1!G2:M34") + " " + hx("Pivot1") + " 3", "h.save"}},
		c05Witness{"table-removecol", []string{"h.new", "h.table " + s1 + " A1:C3 " + hx("T") + " 0", "h.rmcol " + s1 + " A", "h.save"}},
		c05Witness{"empty-entry-name", []string{"h.open Book1.xlsx", "h.table " + s2 + " J8:G6 " + hx("t1") + " 7", "h.copysheet 0 1", "h.formctl " + s2 + " D8 6 " + hx("txt"), "h.save"}},
		c05Witness{"comment-dollar-ref", []string{"h.new", "h.comment " + s1 + " $B$2 " + hx("Au") + " " + hx("t"), "h.save"}},
		c05Witness{"delslicer-dangling", []string{"h.new", "h.setrow " + s1 + " A1 " + hx("Month") + " " + hx("Year") + " " + hx("Type"), "h.table " + s1 + " A1:C3 " + hx("SlT1") + " 0", "h.slicer " + s1 + " " + hx("Month") + " C12 " + s1 + " " + hx("SlT1") + " 3", "h.delslicer " + hx("Month"), "h.save"}},
		c05Witness{"removerow-error-halfway", []string{"h.new", "h.newsheet " + hx("Stream1"), "h.stream.new " + hx("Stream1"), "h.stream.row 4 XFD " + hx("a") + " " + hx("b"), "h.stream.flush",
			"h.setformula " + s1 + " D14 " + hx("SUM(1,2)") + " 2 D14:D16", "h.rmrow " + s1 + " 13", "h.setstr " + s1 + " H13 " + hx("x"), "h.save"}},
		c05Witness{"background-missing-sheet", []string{"h.new", "h.background " + hx("Nope") + " 0", "h.save"}},
		c05Witness{"background-chartsheet", []string{"h.new", "h.chartsheet " + hx("Chart1") + " " + s1 + " 10", "h.background " + hx("Chart1") + " 1", "h.save"}},
		c05Witness{"copysheet-then-delformctl", []string{"h.new", "h.link " + s1 + " D8 " + hx("http://x/<y>") + " 0", "h.newsheet " + s2, "h.formctl " + s2 + " D2 5 " + hx("txt"), "h.copysheet 1 0", "h.delformctl " + s1 + " D2", "h.save"}},
		c05Witness{"last-sheet-delete", []string{"h.open Book1.xlsx", "h.delsheet " + s2, "h.chartsheet " + hx("Chart1") + " " + s1 + " 4", "h.delsheet " + s1, "h.save", "h.reopen", "h.delsheet " + hx("Chart1"), "h.save"}},
		c05Witness{"stream-then-deletesheet", []string{"h.new", "h.link " + s1 + " D16 " + hx("mailto:a@b.c") + " 0", "h.newsheet " + hx("Stream1"), "h.stream.new " + s1, "h.delsheet " + s1, "h.save"}},
		c05Witness{"formctl-badcell-delcomment", []string{"h.new", "h.formctl " + s1 + " XFE1 0 " + hx("m"), "h.delcomment " + s1 + " B15", "h.save"}},
		c05Witness{"pic-badcell-media", []string{"h.new", "h.pic " + s1 + " A-1 0 12", "h.save"}},
		c05Witness{"hfimage-shared-media-delpic", []string{"h.new", "h.hfimage " + s1 + " 5", "h.pic " + s1 + " D6 0 28", "h.delpic " + s1 + " D6", "h.save"}},
		c05Witness{"background-shared-media-delpic", []string{"h.new", "h.background " + s1 + " 1", "h.pic " + s1 + " A13 1 29", "h.delpic " + s1 + " A13", "h.save"}},
		// parts shared inside one sheet: the same image twice, two comments, two form controls, two charts; delete one
		c05Witness{"same-image-twice-delpic", []string{"h.new", "h.picbytes " + s1 + " A1 0 3", "h.picbytes " + s1 + " C1 0 3", "h.delpic " + s1 + " A1", "h.save",
			"h.pic " + s1 + " E5 0 0", "h.pic " + s1 + " G5 0 0", "h.newsheet " + s2, "h.pic " + s2 + " A1 0 0", "h.delpic " + s1 + " G5", "h.save", "h.delpic " + s1 + " E5", "h.delpic " + s1 + " C1", "h.save"}},
		c05Witness{"shared-vml-delete-one", []string{"h.new", "h.comment " + s1 + " A1 " + hx("Au") + " " + hx("c1"), "h.comment " + s1 + " B2 " + hx("Au") + " " + hx("c2"),
			"h.formctl " + s1 + " D4 1 " + hx("b1"), "h.formctl " + s1 + " D8 4 " + hx("b2"), "h.delcomment " + s1 + " A1", "h.delformctl " + s1 + " D4", "h.save",
			"h.delcomment " + s1 + " B2", "h.delformctl " + s1 + " D8", "h.save"}},
		c05Witness{"two-charts-delete-one", []string{"h.new", "h.chart " + s1 + " E1 0 -1", "h.chart " + s1 + " E20 2 5", "h.delchart " + s1 + " E1", "h.save", "h.delchart " + s1 + " E20", "h.save"}},
		// a worksheet spilled to a temp file at open (small UnzipXMLSizeLimit), rewritten with a StreamWriter
		c05Witness{"spilled-sheet-streamed", []string{"h.new", "h.setrow " + s1 + " A1 " + hx(strings.Repeat("x", 300)) + " " + hx(strings.Repeat("y", 300)), "h.setrow " + s1 + " A2 " + hx(strings.Repeat("z", 600)),
			"h.save", "h.reopenspill", "h.stream.new " + s1, "h.stream.row 1 A " + hx("a") + " " + hx("b"), "h.stream.flush", "h.save"}},
		c05Witness{"vba-write", []string{"h.new", "h.vba", "h.save"}},
		c05Witness{"rename-duplicate", []string{"h.new", "h.newsheet " + s2, "h.rensheet " + s1 + " " + s2, "h.save"}},
		c05Witness{"dv-markup", []string{"h.new", "h.dv " + s1 + " " + hx("A1:A3") + " 4 1 " + hx("AND(A1<5,B1>\"&\")"), "h.save"}},
		c05Witness{"media-renumber", []string{"h.new", "h.picbytes " + s1 + " A1 0 1", "h.picbytes " + s1 + " C1 0 2", "h.delpic " + s1 + " A1", "h.picbytes " + s1 + " E1 0 3", "h.save"}},
		c05Witness{"comment-delete-readd", []string{"h.new", "h.newsheet " + s2, "h.comment " + s1 + " A1 " + hx("Au") + " " + hx("t"), "h.comment " + s2 + " A1 " + hx("Au") + " " + hx("t"), "h.delcomment " + s1 + " A1", "h.save", "h.reopen", "h.comment " + s1 + " B2 " + hx("Au") + " " + hx("t2"), "h.save"}},
	)
	return ws
}
