//go:build verif_c06

package main

// C06 — row/column insertion, removal and duplication relocate content exactly.
//
// Transcript ops (see lean/XlModel/Drv/C06.lean and design.d/C06.md):
//   new k                        new workbook with sheets S1..Sk
//   api <call> ...               a public-API write that is not a structural edit (model: no-op, answers ok)
//   sheet i DUMP                 the internal state of sheet i (VerifC06Dump); loads the model's state
//   insrows i row n m | rmrow i row m | inscols i hexcol n m | rmcol i hexcol m
//                                structural edit; m=f: full dump after, m=t: tables only
//   others i                     dumps of all sheets but i
//
// This file: workbook wrapper, api ops, dump parser, the executable shift-rule
// spec (`spec=` flag) and the structural-op runner with its direct oracles.

import (
	"fmt"
	"sort"
	"strconv"
	"strings"

	xl "github.com/xuri/excelize/v2"
)

func init() { props["C06"] = runC06 }

const (
	c06TotalRows = 1048576
	c06MaxCols   = 16384
)

type c06Book struct {
	f      *xl.File
	k      int
	lines  []string // every op line of this scenario so far (the replay)
	styles []int
	dead   bool
}

func c06Sheet(i int) string { return "S" + strconv.Itoa(i+1) }

func c06New(r *Run, k int) *c06Book {
	f := xl.NewFile()
	_ = f.SetSheetName("Sheet1", "S1")
	for i := 1; i < k; i++ {
		_, _ = f.NewSheet(c06Sheet(i))
	}
	b := &c06Book{f: f, k: k}
	for _, st := range []*xl.Style{
		{Font: &xl.Font{Bold: true}},
		{Fill: xl.Fill{Type: "pattern", Color: []string{"FFFF00"}, Pattern: 1}},
		{NumFmt: 2},
	} {
		id, _ := f.NewStyle(st)
		b.styles = append(b.styles, id)
	}
	b.emit(r, fmt.Sprintf("new %d", k), "ok")
	return b
}

func (b *c06Book) emit(r *Run, op, res string) int {
	b.lines = append(b.lines, op)
	if r == nil {
		return 0
	}
	return r.Op(op, res)
}

func (b *c06Book) replayText() string { return strings.Join(b.lines, "\n") }

func (b *c06Book) dump(i int) string { return xl.VerifC06Dump(b.f, c06Sheet(i)) }

func (b *c06Book) allDumps() []string {
	out := make([]string, b.k)
	for i := 0; i < b.k; i++ {
		out[i] = b.dump(i)
	}
	return out
}

// sync emits `sheet i DUMP` for every sheet (loads the model state).
func (b *c06Book) sync(r *Run) {
	for i := 0; i < b.k; i++ {
		b.emit(r, fmt.Sprintf("sheet %d %s", i, b.dump(i)), "ok")
	}
}

func c06Safe(fn func() error) (st string) {
	defer func() {
		if p := recover(); p != nil {
			st = "PANIC"
		}
	}()
	if err := fn(); err != nil {
		return "ERR"
	}
	return "ok"
}

// api executes one public-API write; the words are the op line without the leading "api".
func (b *c06Book) apiExec(w []string) string {
	if len(w) < 2 {
		return "ERR"
	}
	i, _ := strconv.Atoi(w[1])
	sh := c06Sheet(i)
	f := b.f
	arg := func(k int) string {
		if k < len(w) {
			return w[k]
		}
		return ""
	}
	num := func(k int) int { n, _ := strconv.Atoi(arg(k)); return n }
	style := func(k int) int {
		n := num(k)
		if n >= 0 && n < len(b.styles) {
			return b.styles[n]
		}
		return 0
	}
	return c06Safe(func() error {
		switch w[0] {
		case "setint":
			return f.SetCellInt(sh, arg(2), int64(num(3)))
		case "setstr":
			return f.SetCellStr(sh, arg(2), unhx(arg(3)))
		case "setbool":
			return f.SetCellBool(sh, arg(2), arg(3) == "1")
		case "setf":
			return f.SetCellFormula(sh, arg(2), unhx(arg(3)))
		case "style":
			return f.SetCellStyle(sh, arg(2), arg(3), style(4))
		case "rowht":
			return f.SetRowHeight(sh, num(2), float64(num(3)))
		case "rowvis":
			return f.SetRowVisible(sh, num(2), arg(3) == "1")
		case "rowol":
			return f.SetRowOutlineLevel(sh, num(2), uint8(num(3)))
		case "rowstyle":
			return f.SetRowStyle(sh, num(2), num(3), style(4))
		case "colw":
			return f.SetColWidth(sh, arg(2), arg(3), float64(num(4)))
		case "colvis":
			return f.SetColVisible(sh, arg(2), arg(3) == "1")
		case "colol":
			return f.SetColOutlineLevel(sh, arg(2), uint8(num(3)))
		case "colstyle":
			return f.SetColStyle(sh, arg(2), style(3))
		case "merge":
			return f.MergeCell(sh, arg(2), arg(3))
		case "link":
			if arg(3) == "ext" {
				return f.SetCellHyperLink(sh, arg(2), "https://example.com/"+arg(2), "External")
			}
			return f.SetCellHyperLink(sh, arg(2), "S1!A1", "Location")
		case "dv":
			dv := xl.NewDataValidation(true)
			dv.Sqref = unhx(arg(2))
			if arg(3) == "list" {
				if err := dv.SetDropList([]string{"a", "b", "c"}); err != nil {
					return err
				}
			} else if err := dv.SetRange(1, 9, xl.DataValidationTypeWhole, xl.DataValidationOperatorBetween); err != nil {
				return err
			}
			return f.AddDataValidation(sh, dv)
		case "cf":
			fm := b.styles[0]
			return f.SetConditionalFormat(sh, unhx(arg(2)), []xl.ConditionalFormatOptions{
				{Type: "cell", Criteria: ">", Format: &fm, Value: arg(3)}})
		case "filter":
			return f.AutoFilter(sh, unhx(arg(2)), nil)
		case "table":
			return f.AddTable(sh, &xl.Table{Range: unhx(arg(2)), Name: arg(3)})
		}
		return fmt.Errorf("unknown api op")
	})
}

// api runs a write and records it when it succeeded.
func (b *c06Book) api(r *Run, w ...string) bool {
	if b.apiExec(w) != "ok" {
		if r != nil {
			r.Stat("api-rejected:" + w[0])
		}
		return false
	}
	b.emit(r, "api "+strings.Join(w, " "), "ok")
	if r != nil {
		r.Stat("api:" + w[0])
	}
	return true
}

/* ---------- dump parser ---------- */

type c06Rect struct{ x1, y1, x2, y2 int }

type c06CellD struct {
	c, r int
	s    string
	tok  string
}
type c06RowD struct {
	r     int
	h     string
	attr  string
	nc    int
	d     string
	cells []c06CellD
}
type c06ColD struct {
	min, max int
	tok      string
}
type c06SqD struct {
	rects []c06Rect
	bad   bool
	tok   string
}
type c06LinkD struct {
	c, r int
	bad  bool
	tok  string
}
type c06TblD struct {
	q    c06Rect
	bad  bool
	name string
}
type c06Dump struct {
	text    string
	words   []string
	n       int
	rd      string
	rows    []c06RowD
	cols    []c06ColD
	colsW   string
	merges  []c06Rect
	mBad    bool
	links   []c06LinkD
	dvs     []c06SqD
	cfs     []c06SqD
	hasFlt  bool
	flt     c06Rect
	fltBad  bool
	tables  []c06TblD
	tablesW string
}

func c06Inner(w string) string { return w[2 : len(w)-1] }

func c06SplitNE(s, sep string) []string {
	if s == "" {
		return nil
	}
	return strings.Split(s, sep)
}

func c06ParseRect(s string) (c06Rect, bool) {
	p := strings.Split(s, ".")
	if len(p) != 4 {
		return c06Rect{}, false
	}
	var v [4]int
	for i := range p {
		n, err := strconv.Atoi(p[i])
		if err != nil {
			return c06Rect{}, false
		}
		v[i] = n
	}
	return c06Rect{v[0], v[1], v[2], v[3]}, true
}

func c06ParseSq(s string) c06SqD {
	p := strings.SplitN(s, "/", 2)
	it := c06SqD{}
	if len(p) == 2 {
		it.tok = p[1]
	}
	for _, rs := range strings.Split(p[0], "+") {
		q, ok := c06ParseRect(rs)
		if !ok {
			it.bad = true
			continue
		}
		it.rects = append(it.rects, q)
	}
	return it
}

func c06Parse(text string) *c06Dump {
	d := &c06Dump{text: text, words: strings.Split(text, " ")}
	if len(d.words) != 9 {
		return d
	}
	nw := strings.Split(d.words[0][2:], "/")
	d.n, _ = strconv.Atoi(nw[0])
	if len(nw) > 1 {
		d.rd = nw[1]
	}
	for _, ri := range c06SplitNE(c06Inner(d.words[1]), ";") {
		p := strings.Split(ri, "/")
		if len(p) != 6 {
			continue
		}
		row := c06RowD{h: p[1], attr: p[2], d: p[4]}
		row.r, _ = strconv.Atoi(p[0])
		row.nc, _ = strconv.Atoi(p[3])
		for _, ci := range c06SplitNE(p[5], ",") {
			q := strings.Split(ci, "~")
			if len(q) != 3 {
				continue
			}
			c, rr, err := xl.CellNameToCoordinates(q[0])
			if err != nil {
				c, rr = -1, -1
			}
			row.cells = append(row.cells, c06CellD{c, rr, q[1], q[2]})
		}
		d.rows = append(d.rows, row)
	}
	d.colsW = d.words[2]
	for _, ci := range c06SplitNE(c06Inner(d.words[2]), ";") {
		p := strings.SplitN(ci, "/", 2)
		mm := strings.Split(p[0], "-")
		if len(p) != 2 || len(mm) != 2 {
			continue
		}
		a, _ := strconv.Atoi(mm[0])
		bb, _ := strconv.Atoi(mm[1])
		d.cols = append(d.cols, c06ColD{a, bb, p[1]})
	}
	for _, m := range c06SplitNE(c06Inner(d.words[3]), ";") {
		q, ok := c06ParseRect(m)
		if !ok {
			d.mBad = true
			continue
		}
		d.merges = append(d.merges, q)
	}
	for _, h := range c06SplitNE(c06Inner(d.words[4]), ";") {
		p := strings.SplitN(h, "/", 2)
		l := c06LinkD{}
		if len(p) == 2 {
			l.tok = p[1]
		}
		cr := strings.Split(p[0], ".")
		if len(cr) == 2 {
			var e1, e2 error
			l.c, e1 = strconv.Atoi(cr[0])
			l.r, e2 = strconv.Atoi(cr[1])
			l.bad = e1 != nil || e2 != nil
		} else {
			l.bad = true
		}
		d.links = append(d.links, l)
	}
	for _, s := range c06SplitNE(c06Inner(d.words[5]), ";") {
		d.dvs = append(d.dvs, c06ParseSq(s))
	}
	for _, s := range c06SplitNE(c06Inner(d.words[6]), ";") {
		d.cfs = append(d.cfs, c06ParseSq(s))
	}
	if a := c06Inner(d.words[7]); a != "" {
		d.hasFlt = true
		q, ok := c06ParseRect(a)
		d.flt, d.fltBad = q, !ok
	}
	d.tablesW = d.words[8]
	for _, t := range c06SplitNE(c06Inner(d.words[8]), ";") {
		p := strings.SplitN(t, "/", 2)
		tb := c06TblD{}
		if len(p) == 2 {
			tb.name = p[1]
		}
		q, ok := c06ParseRect(p[0])
		tb.q, tb.bad = q, !ok
		d.tables = append(d.tables, tb)
	}
	return d
}

// reloadable: the model can load this dump (dense, no broken refs)
func (d *c06Dump) reloadable() bool {
	if len(d.words) != 9 || d.rd != "1" || d.mBad || d.fltBad {
		return false
	}
	for _, r := range d.rows {
		if r.d != "1" {
			return false
		}
	}
	for _, l := range d.links {
		if l.bad {
			return false
		}
	}
	for _, s := range append(append([]c06SqD{}, d.dvs...), d.cfs...) {
		if s.bad {
			return false
		}
	}
	for _, t := range d.tables {
		if t.bad {
			return false
		}
	}
	return true
}

/* ---------- the shift rule (spec) ---------- */

type c06Op struct {
	kind  string // insrows rmrow inscols rmcol
	rows  bool
	ins   bool
	num   int
	k     int
	lower bool // column name not in canonical upper case
}

func (o c06Op) lim() int {
	if o.rows {
		return c06TotalRows
	}
	return c06MaxCols
}

// pos: new coordinate; ok=false when deleted
func (o c06Op) pos(p int) (int, bool) {
	if o.ins {
		if p < o.num {
			return p, true
		}
		return p + o.k, true
	}
	if p == o.num {
		return 0, false
	}
	if p < o.num {
		return p, true
	}
	return p - 1, true
}

func (o c06Op) iv(a, b int) (int, int, bool) {
	if o.ins {
		na, _ := o.pos(a)
		nb, _ := o.pos(b)
		return na, nb, true
	}
	if a == o.num && b == o.num {
		return 0, 0, false
	}
	na, nb := a, b
	if a > o.num {
		na = a - 1
	}
	if b >= o.num {
		nb = b - 1
	}
	return na, nb, true
}

func (o c06Op) rect(q c06Rect) (c06Rect, bool) {
	if o.rows {
		a, b, ok := o.iv(q.y1, q.y2)
		return c06Rect{q.x1, a, q.x2, b}, ok
	}
	a, b, ok := o.iv(q.x1, q.x2)
	return c06Rect{a, q.y1, b, q.y2}, ok
}

func (o c06Op) axis(q c06Rect) (int, int) {
	if o.rows {
		return q.y1, q.y2
	}
	return q.x1, q.x2
}

// relpos of the edit point relative to interval [a,b]
func (o c06Op) relpos(a, b int) string {
	if o.ins && b+o.k > o.lim() && o.num <= b {
		return "limit"
	}
	switch {
	case o.num < a:
		return "before"
	case o.num == a && a == b:
		return "single"
	case o.num == a:
		return "at-start"
	case o.num < b:
		return "inside"
	case o.num == b:
		return "at-end"
	default:
		return "after"
	}
}

func c06GridOf(d *c06Dump) map[[2]int]string {
	g := map[[2]int]string{}
	for _, r := range d.rows {
		for _, c := range r.cells {
			k := [2]int{c.c, c.r}
			if _, dup := g[k]; !dup {
				g[k] = c.s + "~" + c.tok
			}
		}
	}
	return g
}

func c06ListedDense(d *c06Dump) bool {
	if d.rd != "1" {
		return false
	}
	for _, r := range d.rows {
		if r.d != "1" {
			return false
		}
	}
	return true
}

func c06MapEq(a, b map[[2]int]string) bool {
	if len(a) != len(b) {
		return false
	}
	for k, v := range a {
		if w, ok := b[k]; !ok || w != v {
			return false
		}
	}
	return true
}

func c06ColTok(cols []c06ColD, c int) string {
	for _, x := range cols {
		if x.min <= c && c <= x.max {
			return x.tok
		}
	}
	return "-"
}

func c06SortRects(rs []c06Rect) []c06Rect {
	out := append([]c06Rect{}, rs...)
	sort.Slice(out, func(i, j int) bool {
		a, b := out[i], out[j]
		if a.y1 != b.y1 {
			return a.y1 < b.y1
		}
		if a.x1 != b.x1 {
			return a.x1 < b.x1
		}
		if a.y2 != b.y2 {
			return a.y2 < b.y2
		}
		return a.x2 < b.x2
	})
	return out
}

func c06RectsEq(a, b []c06Rect) bool {
	if len(a) != len(b) {
		return false
	}
	for i := range a {
		if a[i] != b[i] {
			return false
		}
	}
	return true
}

// c06Spec returns the failing components (in the fixed order) and, per component, a relpos label.
func c06Spec(tbl bool, o c06Op, st string, pre, post *c06Dump) ([]string, map[string]string) {
	rel := map[string]string{}
	var fails []string
	add := func(comp, rp string) {
		fails = append(fails, comp)
		rel[comp] = rp
	}
	if st != "ok" {
		if tbl {
			if pre.tablesW != post.tablesW {
				add("noop", "T")
			}
		} else if pre.text != post.text {
			ch := ""
			for i := 0; i < len(pre.words) && i < len(post.words); i++ {
				if pre.words[i] != post.words[i] {
					ch += string("nRCMHVFAT"[i])
				}
			}
			add("noop", ch)
		}
		return fails, rel
	}
	tableChk := func() {
		var exp []c06TblD
		first := ""
		for _, t := range pre.tables {
			if t.bad {
				exp = append(exp, t)
				continue
			}
			if !o.ins && o.rows && o.num == t.q.y1 {
				continue
			}
			q, ok := o.rect(t.q)
			if !ok || q.y2-q.y1 < 1 {
				continue
			}
			exp = append(exp, c06TblD{q: q, name: t.name})
		}
		okAll := len(exp) == len(post.tables)
		for i := 0; okAll && i < len(exp); i++ {
			if exp[i] != post.tables[i] {
				okAll = false
			}
		}
		if !okAll {
			for _, t := range pre.tables {
				a, b := o.axis(t.q)
				first = o.relpos(a, b)
				q, ok := o.rect(t.q)
				found := false
				for _, p := range post.tables {
					if ok && p.q == q && p.name == t.name {
						found = true
					}
				}
				if !found {
					break
				}
			}
			add("table", first)
		}
	}
	if tbl {
		tableChk()
		return fails, rel
	}
	// grid
	{
		exp := map[[2]int]string{}
		for k, v := range c06GridOf(pre) {
			if o.rows {
				if p, ok := o.pos(k[1]); ok {
					exp[[2]int{k[0], p}] = v
				}
			} else if p, ok := o.pos(k[0]); ok {
				exp[[2]int{p, k[1]}] = v
			}
		}
		if !c06ListedDense(post) || !c06MapEq(exp, c06GridOf(post)) {
			rp := "shift"
			if !c06ListedDense(post) {
				rp = "not-dense"
			}
			if o.lower {
				rp = "lowercase-name"
			}
			add("grid", rp)
		}
	}
	// rowattr
	{
		ign := pre.hasFlt && !post.hasFlt
		get := func(d *c06Dump) map[int]string {
			m := map[int]string{}
			for _, r := range d.rows {
				if ign {
					if r.attr != "-" {
						m[r.r] = r.attr
					}
				} else if r.h != "0" || r.attr != "-" {
					m[r.r] = r.h + "/" + r.attr
				}
			}
			return m
		}
		exp := map[int]string{}
		for k, v := range get(pre) {
			if o.rows {
				if p, ok := o.pos(k); ok {
					exp[p] = v
				}
			} else {
				exp[k] = v
			}
		}
		got := get(post)
		eq := len(exp) == len(got)
		for k, v := range exp {
			if got[k] != v {
				eq = false
			}
		}
		if !eq {
			add("rowattr", "shift")
		}
	}
	// colattr
	{
		ok := true
		if o.rows {
			ok = pre.colsW == post.colsW
		} else if len(pre.cols) > 0 || len(post.cols) > 0 {
			for c := 1; c <= c06MaxCols && ok; c++ {
				if o.ins {
					if c < o.num {
						ok = c06ColTok(post.cols, c) == c06ColTok(pre.cols, c)
					} else if c >= o.num+o.k {
						ok = c06ColTok(post.cols, c) == c06ColTok(pre.cols, c-o.k)
					}
				} else if c < o.num {
					ok = c06ColTok(post.cols, c) == c06ColTok(pre.cols, c)
				} else {
					w := "-"
					if c+1 <= c06MaxCols {
						w = c06ColTok(pre.cols, c+1)
					}
					ok = c06ColTok(post.cols, c) == w
				}
			}
		}
		if !ok {
			add("colattr", "shift")
		}
	}
	// merge
	{
		var exp []c06Rect
		for _, q := range pre.merges {
			if n, ok := o.rect(q); ok && !(n.x1 == n.x2 && n.y1 == n.y2) {
				exp = append(exp, n)
			}
		}
		if post.mBad || !c06RectsEq(c06SortRects(exp), c06SortRects(post.merges)) {
			rp := "other"
			for _, q := range pre.merges {
				n, ok := o.rect(q)
				found := !ok || (n.x1 == n.x2 && n.y1 == n.y2)
				for _, p := range post.merges {
					if p == n {
						found = true
					}
				}
				if !found {
					rp = o.relpos(o.axis(q))
					break
				}
			}
			add("merge", rp)
		}
	}
	// link
	{
		type lk struct {
			c, r int
			tok  string
		}
		var exp, got []lk
		bad := false
		for _, l := range pre.links {
			if l.bad {
				continue
			}
			if o.rows {
				if p, ok := o.pos(l.r); ok {
					exp = append(exp, lk{l.c, p, l.tok})
				}
			} else if p, ok := o.pos(l.c); ok {
				exp = append(exp, lk{p, l.r, l.tok})
			}
		}
		for _, l := range post.links {
			if l.bad {
				bad = true
				continue
			}
			got = append(got, lk{l.c, l.r, l.tok})
		}
		less := func(s []lk) func(i, j int) bool {
			return func(i, j int) bool {
				if s[i].r != s[j].r {
					return s[i].r < s[j].r
				}
				if s[i].c != s[j].c {
					return s[i].c < s[j].c
				}
				return s[i].tok < s[j].tok
			}
		}
		sort.Slice(exp, less(exp))
		sort.Slice(got, less(got))
		eq := !bad && len(exp) == len(got)
		for i := 0; eq && i < len(exp); i++ {
			eq = exp[i] == got[i]
		}
		if !eq {
			rp := "shift"
			if bad {
				rp = "limit"
			}
			add("link", rp)
		}
	}
	// dv / cf
	sq := func(comp string, pre, post []c06SqD) {
		var exp []c06SqD
		for _, it := range pre {
			var rs []c06Rect
			for _, q := range it.rects {
				n, ok := o.rect(q)
				if !ok {
					continue
				}
				a, b := o.axis(n)
				if a > o.lim() {
					continue
				}
				if b > o.lim() {
					if o.rows {
						n.y2 = o.lim()
					} else {
						n.x2 = o.lim()
					}
				}
				rs = append(rs, n)
			}
			if len(rs) > 0 {
				exp = append(exp, c06SqD{rects: rs, tok: it.tok})
			}
		}
		eq := len(exp) == len(post)
		for i := 0; eq && i < len(exp); i++ {
			eq = !post[i].bad && exp[i].tok == post[i].tok && c06RectsEq(exp[i].rects, post[i].rects)
		}
		if !eq {
			rp := "other"
		outer:
			for _, it := range pre {
				for _, q := range it.rects {
					n, ok := o.rect(q)
					found := !ok
					for _, p := range post {
						for _, pq := range p.rects {
							if pq == n {
								found = true
							}
						}
					}
					if !found {
						rp = o.relpos(o.axis(q))
						break outer
					}
				}
			}
			add(comp, rp)
		}
	}
	sq("dv", pre.dvs, post.dvs)
	sq("cf", pre.cfs, post.cfs)
	// filter
	{
		ok := true
		if !pre.hasFlt {
			ok = !post.hasFlt
		} else if pre.fltBad {
			ok = false
		} else {
			exp, has := o.rect(pre.flt)
			if !o.ins && o.rows && o.num == pre.flt.y1 {
				has = false
			}
			switch {
			case !has:
				ok = !post.hasFlt
			default:
				ok = post.hasFlt && !post.fltBad && post.flt == exp
			}
		}
		if !ok {
			add("filter", o.relpos(o.axis(pre.flt)))
		}
	}
	tableChk()
	return fails, rel
}

/* ---------- structural op runner ---------- */

func c06ParseOp(w []string) (c06Op, int, string, bool) {
	o := c06Op{kind: w[0]}
	if len(w) < 3 {
		return o, 0, "", false
	}
	i, err := strconv.Atoi(w[1])
	if err != nil {
		return o, 0, "", false
	}
	mode := w[len(w)-1]
	switch w[0] {
	case "insrows":
		if len(w) != 5 {
			return o, 0, "", false
		}
		o.rows, o.ins = true, true
		o.num, _ = strconv.Atoi(w[2])
		o.k, _ = strconv.Atoi(w[3])
	case "rmrow":
		if len(w) != 4 {
			return o, 0, "", false
		}
		o.rows = true
		o.num, _ = strconv.Atoi(w[2])
	case "inscols":
		if len(w) != 5 {
			return o, 0, "", false
		}
		o.ins = true
		name := unhx(w[2])
		o.num, _ = xl.ColumnNameToNumber(name)
		o.lower = name != strings.ToUpper(name)
		o.k, _ = strconv.Atoi(w[3])
	case "rmcol":
		if len(w) != 4 {
			return o, 0, "", false
		}
		name := unhx(w[2])
		o.num, _ = xl.ColumnNameToNumber(name)
		o.lower = name != strings.ToUpper(name)
	default:
		return o, 0, "", false
	}
	return o, i, mode, true
}

// structural runs one structural op line, records it, evaluates the spec flag and the
// rejected-noop / other-sheet oracles. Returns (status, post dump reloadable, dump changed).
func (b *c06Book) structural(r *Run, line string) (string, bool, bool) {
	w := strings.Fields(line)
	o, i, mode, ok := c06ParseOp(w)
	if !ok {
		b.emit(r, line, "bad-op")
		return "bad-op", true, false
	}
	sh := c06Sheet(i)
	if i < 0 || i >= b.k {
		st := c06Safe(func() error { return b.call(o, sh, w) })
		if st != "ok" {
			st = "ERR"
		}
		b.emit(r, line, st)
		r.Stat("op:" + o.kind + ":no-sheet")
		return st, true, false
	}
	preAll := b.allDumps()
	st := c06Safe(func() error { return b.call(o, sh, w) })
	postAll := b.allDumps()
	pre, post := c06Parse(preAll[i]), c06Parse(postAll[i])
	tbl := mode == "t"
	fails, rel := c06Spec(tbl, o, st, pre, post)
	flag := "ok"
	if len(fails) > 0 {
		flag = strings.Join(fails, "+")
	}
	out := postAll[i]
	if tbl {
		out = post.tablesW
	}
	ln := b.emit(r, line, st+" "+out+" spec="+flag)
	r.Stat("op:" + o.kind + ":" + st)
	changed := preAll[i] != postAll[i]
	limitRej := st != "ok" && c06LimitRejected(o, pre)
	r.Case(line+"|"+preAll[i], (st == "ok" && changed) || limitRej)
	if limitRej {
		r.Stat("rejected-by-limit:" + o.kind)
	}
	for _, comp := range fails {
		sig := o.kind + ":" + comp + ":" + rel[comp]
		if comp == "noop" {
			sig = o.kind + ":noop:rejected-after-mutation"
		}
		r.Fail(sig, fmt.Sprintf("%s on %s: component %s deviates from the shift rule (status %s)\n#   before: %s\n#   after:  %s",
			line, sh, comp, st, c06Trunc(preAll[i], 600), c06Trunc(postAll[i], 600)), ln, b.replayText())
	}
	// other sheets: unchanged by accepted and by rejected edits
	for j := 0; j < b.k; j++ {
		if j != i && preAll[j] != postAll[j] {
			sig := "othersheet:" + o.kind + ":accepted"
			if st != "ok" {
				sig = "rejected:" + o.kind + ":other-sheet-changed"
			}
			r.Fail(sig, fmt.Sprintf("%s on %s (status %s) changed sheet %s\n#   before: %s\n#   after:  %s", line, sh, st, c06Sheet(j),
				c06Trunc(preAll[j], 400), c06Trunc(postAll[j], 400)), 0, b.replayText())
		}
	}
	others := "-"
	var os []string
	for j := 0; j < b.k; j++ {
		if j != i {
			os = append(os, postAll[j])
		}
	}
	if len(os) > 0 {
		others = strings.Join(os, " || ")
	}
	b.emit(r, fmt.Sprintf("others %d", i), others)
	return st, post.reloadable(), changed
}

// duprow runs `duprow i row row2` (DuplicateRowTo), compares dump-for-dump with the model and checks that a
// rejected call changes nothing and that no other sheet changes.
func (b *c06Book) duprow(r *Run, line string) (string, bool, bool) {
	w := strings.Fields(line)
	if len(w) != 4 {
		b.emit(r, line, "bad-op")
		return "bad-op", true, false
	}
	i, e1 := strconv.Atoi(w[1])
	row, e2 := strconv.Atoi(w[2])
	row2, e3 := strconv.Atoi(w[3])
	if e1 != nil || e2 != nil || e3 != nil {
		b.emit(r, line, "bad-op")
		return "bad-op", true, false
	}
	sh := c06Sheet(i)
	if i < 0 || i >= b.k {
		c06Safe(func() error { return b.f.DuplicateRowTo(sh, row, row2) })
		b.emit(r, line, "ERR")
		return "ERR", true, false
	}
	preAll := b.allDumps()
	st := c06Safe(func() error { return b.f.DuplicateRowTo(sh, row, row2) })
	postAll := b.allDumps()
	ln := b.emit(r, line, st+" "+postAll[i])
	r.Stat("op:duprow:" + st)
	changed := preAll[i] != postAll[i]
	r.Case(line+"|"+preAll[i], st == "ok" && changed)
	if st != "ok" && changed {
		r.Fail("duprow:noop:rejected-after-mutation", fmt.Sprintf("%s rejected (%s) but the sheet changed\n#   before: %s\n#   after:  %s", line, st,
			c06Trunc(preAll[i], 600), c06Trunc(postAll[i], 600)), ln, b.replayText())
	}
	for j := 0; j < b.k; j++ {
		if j != i && preAll[j] != postAll[j] {
			r.Fail("othersheet:duprow", fmt.Sprintf("%s changed sheet %s", line, c06Sheet(j)), 0, b.replayText())
		}
	}
	others := "-"
	var os []string
	for j := 0; j < b.k; j++ {
		if j != i {
			os = append(os, postAll[j])
		}
	}
	if len(os) > 0 {
		others = strings.Join(os, " || ")
	}
	b.emit(r, fmt.Sprintf("others %d", i), others)
	return st, c06Parse(postAll[i]).reloadable(), changed
}

func c06Trunc(s string, n int) string {
	if len(s) > n {
		return s[:n] + "…"
	}
	return s
}

// was the rejection plausibly caused by a limit (content would pass the last row/column)?
func c06LimitRejected(o c06Op, pre *c06Dump) bool {
	if !o.ins || o.num < 1 || o.k < 1 {
		return false
	}
	if o.rows {
		return pre.n >= o.num && pre.n+o.k > c06TotalRows
	}
	for _, r := range pre.rows {
		if r.nc >= o.num && r.nc+o.k > c06MaxCols {
			return true
		}
	}
	return false
}

func (b *c06Book) call(o c06Op, sh string, w []string) error {
	switch o.kind {
	case "insrows":
		n, _ := strconv.Atoi(w[3])
		row, _ := strconv.Atoi(w[2])
		return b.f.InsertRows(sh, row, n)
	case "rmrow":
		row, _ := strconv.Atoi(w[2])
		return b.f.RemoveRow(sh, row)
	case "inscols":
		n, _ := strconv.Atoi(w[3])
		return b.f.InsertCols(sh, unhx(w[2]), n)
	case "rmcol":
		return b.f.RemoveCol(sh, unhx(w[2]))
	}
	return fmt.Errorf("bad op")
}
