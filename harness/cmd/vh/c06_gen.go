//go:build verif_c06

package main

// C06 generator, twin-workbook oracles (insert/remove identity, DuplicateRowTo,
// public-API observation) and replay.

import (
	"fmt"
	"os"
	"sort"
	"strconv"
	"strings"
	"time"

	xl "github.com/xuri/excelize/v2"
)

func c06Cell(c, r int) string {
	s, _ := xl.CoordinatesToCellName(c, r)
	return s
}

func c06Col(c int) string {
	s, _ := xl.ColumnNumberToName(c)
	return s
}

func c06Range(x1, y1, x2, y2 int) string { return c06Cell(x1, y1) + ":" + c06Cell(x2, y2) }

type c06Gen struct {
	r        *Run
	rng      *Rng
	farLeft  int
	thorough bool
}

/* ---------- population ---------- */

func (g *c06Gen) populate(b *c06Book, i int, tables bool, far bool) {
	r, rng := g.r, g.rng
	si := strconv.Itoa(i)
	nr, nc := rng.Range(2, 12), rng.Range(2, 8)
	nCells := rng.Range(1, 18)
	for k := 0; k < nCells; k++ {
		cell := c06Cell(rng.Range(1, nc), rng.Range(1, nr))
		switch rng.Intn(6) {
		case 0, 1:
			b.api(r, "setint", si, cell, strconv.Itoa(rng.Range(0, 999)))
		case 2:
			b.api(r, "setstr", si, cell, hx(rng.Pick([]string{"a", "b", "hello", "x y", "<&>", "é"})))
		case 3:
			b.api(r, "setbool", si, cell, strconv.Itoa(rng.Intn(2)))
		case 4:
			b.api(r, "setf", si, cell, hx(rng.Pick([]string{"1+2", "SUM(1,2)", "\"a\"&\"b\"", "PI()"})))
		case 5:
			b.api(r, "style", si, cell, cell, strconv.Itoa(rng.Intn(3)))
		}
	}
	isFar := far && g.farLeft > 0
	if isFar {
		g.farLeft--
		r.Stat("scenario:far")
		switch rng.Intn(4) {
		case 0:
			b.api(r, "setint", si, c06Cell(rng.Range(1, 3), c06TotalRows), "7")
		case 1:
			b.api(r, "setint", si, c06Cell(rng.Range(1, 3), c06TotalRows-rng.Range(1, 6)), "8")
		case 2:
			b.api(r, "setint", si, c06Cell(c06MaxCols, rng.Range(1, nr)), "9")
		default:
			b.api(r, "setint", si, c06Cell(c06MaxCols-rng.Range(1, 5), rng.Range(1, nr)), "10")
		}
	}
	for k := rng.Intn(4); k > 0; k-- {
		row := strconv.Itoa(rng.Range(1, nr+2))
		switch rng.Intn(4) {
		case 0:
			b.api(r, "rowht", si, row, strconv.Itoa(rng.Range(10, 60)))
		case 1:
			b.api(r, "rowvis", si, row, "0")
		case 2:
			b.api(r, "rowol", si, row, strconv.Itoa(rng.Range(1, 4)))
		default:
			if isFar {
				continue // a style on every cell of a million rows makes the dump explode
			}
			r2 := rng.Range(1, nr+2)
			r1 := rng.Range(1, r2)
			b.api(r, "rowstyle", si, strconv.Itoa(r1), strconv.Itoa(r2), strconv.Itoa(rng.Intn(3)))
		}
	}
	for k := rng.Intn(4); k > 0; k-- {
		c2 := rng.Range(1, nc+2)
		c1 := rng.Range(1, c2)
		if rng.Chance(50) {
			c1 = c2
		}
		if rng.Chance(4) {
			c2 = c06MaxCols
			c1 = c06MaxCols - rng.Intn(3)
		}
		rngName := c06Col(c1) + ":" + c06Col(c2)
		switch rng.Intn(4) {
		case 0:
			b.api(r, "colw", si, c06Col(c1), c06Col(c2), strconv.Itoa(rng.Range(5, 40)))
		case 1:
			b.api(r, "colvis", si, rngName, "0")
		case 2:
			b.api(r, "colol", si, c06Col(c1), strconv.Itoa(rng.Range(1, 4)))
		default:
			if isFar {
				continue
			}
			b.api(r, "colstyle", si, rngName, strconv.Itoa(rng.Intn(3)))
		}
	}
	rect := func() (int, int, int, int) {
		x1, y1 := rng.Range(1, nc), rng.Range(1, nr)
		x2, y2 := x1+rng.Intn(3), y1+rng.Intn(4)
		switch rng.Intn(4) {
		case 0:
			y2 = y1
		case 1:
			x2 = x1
		}
		return x1, y1, x2, y2
	}
	var merged [][4]int
	for k := rng.Intn(3); k > 0; k-- {
		x1, y1, x2, y2 := rect()
		if x1 == x2 && y1 == y2 {
			x2++
		}
		overlap := false
		for _, m := range merged {
			if x1 <= m[2] && m[0] <= x2 && y1 <= m[3] && m[1] <= y2 {
				overlap = true // overlapping merges are C03's subject (MergeCell fuses them)
			}
		}
		if overlap {
			continue
		}
		merged = append(merged, [4]int{x1, y1, x2, y2})
		b.api(r, "merge", si, c06Cell(x1, y1), c06Cell(x2, y2))
	}
	for k := rng.Intn(3); k > 0; k-- {
		c, rw := rng.Range(1, nc), rng.Range(1, nr)
		b.api(r, "link", si, c06Cell(c, rw), rng.Pick([]string{"ext", "loc"}))
		if rng.Chance(45) {
			// further links on the same row or column, stored next to each other in the hyperlink list
			sameRow := rng.Bool()
			for m := rng.Range(1, 2); m > 0; m-- {
				if sameRow {
					c += rng.Range(1, 2)
				} else {
					rw += rng.Range(1, 2)
				}
				b.api(r, "link", si, c06Cell(c, rw), rng.Pick([]string{"ext", "loc"}))
			}
			r.Stat("links:adjacent-same-row-or-col")
		}
	}
	sqref := func() string {
		var parts []string
		for k := rng.Range(1, 2); k > 0; k-- {
			x1, y1, x2, y2 := rect()
			if rng.Chance(4) {
				y2 = c06TotalRows
			}
			if rng.Chance(3) {
				x2 = c06MaxCols
			}
			if x1 == x2 && y1 == y2 && rng.Bool() {
				parts = append(parts, c06Cell(x1, y1))
			} else {
				parts = append(parts, c06Range(x1, y1, x2, y2))
			}
		}
		return strings.Join(parts, " ")
	}
	for k := rng.Intn(3); k > 0; k-- {
		b.api(r, "dv", si, hx(sqref()), rng.Pick([]string{"whole", "list"}))
	}
	for k := rng.Intn(3); k > 0; k-- {
		b.api(r, "cf", si, hx(sqref()), strconv.Itoa(rng.Range(1, 9)))
	}
	if tables {
		n := rng.Range(1, 2)
		x := rng.Range(1, 3)
		for k := 0; k < n; k++ {
			y1 := rng.Range(1, 4)
			w, h := rng.Range(1, 3), rng.Range(1, 4)
			b.api(r, "table", si, hx(c06Range(x, y1, x+w, y1+h)), fmt.Sprintf("T%d_%d", i, k))
			x += w + rng.Range(1, 3)
		}
	} else if rng.Chance(35) {
		x1, y1 := rng.Range(1, nc), rng.Range(1, nr)
		x2, y2 := x1+rng.Intn(4), y1+rng.Range(1, 5)
		if rng.Chance(15) {
			x2 = x1
		}
		b.api(r, "filter", si, hx(c06Range(x1, y1, x2, y2)))
	}
}

/* ---------- structural op choice ---------- */

type c06Lm struct {
	kind string
	a, b int
}

func c06Landmarks(d *c06Dump, rows bool) []c06Lm {
	var out []c06Lm
	ax := func(q c06Rect) (int, int) {
		if rows {
			return q.y1, q.y2
		}
		return q.x1, q.x2
	}
	for _, q := range d.merges {
		a, b := ax(q)
		out = append(out, c06Lm{"merge", a, b})
	}
	for _, it := range d.dvs {
		for _, q := range it.rects {
			a, b := ax(q)
			out = append(out, c06Lm{"dv", a, b})
		}
	}
	for _, it := range d.cfs {
		for _, q := range it.rects {
			a, b := ax(q)
			out = append(out, c06Lm{"cf", a, b})
		}
	}
	if d.hasFlt && !d.fltBad {
		a, b := ax(d.flt)
		out = append(out, c06Lm{"filter", a, b})
	}
	for _, t := range d.tables {
		a, b := ax(t.q)
		out = append(out, c06Lm{"table", a, b})
	}
	for _, l := range d.links {
		if rows {
			out = append(out, c06Lm{"link", l.r, l.r})
		} else {
			out = append(out, c06Lm{"link", l.c, l.c})
		}
	}
	lastR, lastC := 0, 0
	for _, r := range d.rows {
		if len(r.cells) > 0 && r.r > lastR {
			lastR = r.r
		}
		if r.nc > lastC {
			lastC = r.nc
		}
		if rows && (r.h != "0" || r.attr != "-") {
			out = append(out, c06Lm{"rowattr", r.r, r.r})
		}
	}
	if !rows {
		for _, c := range d.cols {
			out = append(out, c06Lm{"colattr", c.min, c.max})
		}
	}
	if rows {
		if lastR > 0 {
			out = append(out, c06Lm{"used", 1, lastR})
		}
		if d.n > 0 {
			out = append(out, c06Lm{"slots", 1, d.n})
		}
	} else if lastC > 0 {
		out = append(out, c06Lm{"used", 1, lastC})
	}
	return out
}

func (g *c06Gen) pickOp(b *c06Book, i int, tbl bool) string {
	rng := g.rng
	d := c06Parse(b.dump(i))
	kind := rng.Pick([]string{"insrows", "rmrow", "inscols", "rmcol"})
	rows := kind == "insrows" || kind == "rmrow"
	lim := c06MaxCols
	if rows {
		lim = c06TotalRows
	}
	lms := c06Landmarks(d, rows)
	num, where := 1, "none"
	if len(lms) > 0 && rng.Chance(85) {
		lm := lms[rng.Intn(len(lms))]
		rel := rng.Pick([]string{"before", "at-start", "inside", "at-end", "just-after", "after"})
		switch rel {
		case "before":
			num = lm.a - rng.Range(1, 2)
		case "at-start":
			num = lm.a
		case "inside":
			num = lm.a + 1
			if lm.b-lm.a >= 2 {
				num = rng.Range(lm.a+1, lm.b-1)
			}
		case "at-end":
			num = lm.b
		case "just-after":
			num = lm.b + 1
		default:
			num = lm.b + rng.Range(2, 5)
		}
		where = lm.kind + ":" + rel
	} else {
		num = rng.Pick2([]int{1, 2, 3, 30, lim - 1, lim, 5})
		where = "fixed"
	}
	if num < 1 {
		num = 1
	}
	if num > lim {
		num = lim
	}
	g.r.Stat("editpoint:" + where)
	mode := "f"
	if tbl {
		mode = "t"
	}
	n := rng.Range(1, 4)
	if rng.Chance(12) {
		// around the acceptance limit
		last := d.n
		if !rows {
			last = 0
			for _, r := range d.rows {
				if r.nc > last {
					last = r.nc
				}
			}
		}
		if last >= num {
			cand := lim - last + rng.Range(-1, 1)
			// the accepted side materialises the whole sheet: spend the far budget
			if cand >= 1 && (cand+last <= lim) && rows {
				if g.farLeft > 0 {
					g.farLeft--
					n = cand
					g.r.Stat("count:at-limit-accepted-side")
				}
			} else if cand >= 1 {
				n = cand
				g.r.Stat("count:at-limit")
			}
		}
	}
	name := c06Col(num)
	if !rows && rng.Chance(15) {
		name = strings.ToLower(name)
		g.r.Stat("colname:lowercase")
	}
	// malformed stream
	if rng.Chance(5) {
		g.r.Stat("malformed")
		switch rng.Intn(6) {
		case 0:
			i = b.k
		case 1:
			num = rng.Pick2([]int{0, -1})
			name = rng.Pick([]string{"", "1", "A1", "XFE", "AAAA", "$B"})
		case 2:
			n = rng.Pick2([]int{0, -1})
		case 3:
			n = rng.Pick2([]int{c06TotalRows, c06TotalRows + 1, c06MaxCols, c06MaxCols + 1})
		case 4:
			num = c06TotalRows
			name = "XFD"
		default:
			name = rng.Pick([]string{"xfd", "Xfe", "a", "ZZ"})
		}
	}
	switch kind {
	case "insrows":
		return fmt.Sprintf("insrows %d %d %d %s", i, num, n, mode)
	case "rmrow":
		return fmt.Sprintf("rmrow %d %d %s", i, num, mode)
	case "inscols":
		return fmt.Sprintf("inscols %d %s %d %s", i, hx(name), n, mode)
	}
	return fmt.Sprintf("rmcol %d %s %s", i, hx(name), mode)
}

/* ---------- twin-workbook oracles ---------- */

// rebuild a fresh workbook from the recorded op lines (api + structural), silently.
func c06Rebuild(lines []string) *c06Book {
	var b *c06Book
	for _, line := range lines {
		w := strings.Fields(line)
		if len(w) == 0 {
			continue
		}
		switch w[0] {
		case "new":
			k, _ := strconv.Atoi(w[1])
			b = c06New(nil, k)
		case "api":
			if b != nil {
				b.apiExec(w[1:])
			}
		case "insrows", "rmrow", "inscols", "rmcol":
			if b != nil {
				if o, i, _, ok := c06ParseOp(w); ok && i >= 0 && i < b.k {
					c06Safe(func() error { return b.call(o, c06Sheet(i), w) })
				}
			}
		case "duprow":
			if b != nil && len(w) == 4 {
				i, _ := strconv.Atoi(w[1])
				row, _ := strconv.Atoi(w[2])
				row2, _ := strconv.Atoi(w[3])
				if i >= 0 && i < b.k {
					c06Safe(func() error { return b.f.DuplicateRowTo(c06Sheet(i), row, row2) })
				}
			}
		}
	}
	return b
}

func c06DiffWords(a, b string, skipN bool) string {
	wa, wb := strings.Split(a, " "), strings.Split(b, " ")
	ch := ""
	for i := 0; i < len(wa) && i < len(wb); i++ {
		if i == 0 && skipN {
			continue
		}
		if wa[i] != wb[i] {
			ch += string("nRCMHVFAT"[i%9])
		}
	}
	return ch
}

// insert n then remove n times at the same point restores the sheet.
func (g *c06Gen) oracleInsRm(b *c06Book, i int) {
	rng := g.rng
	t := c06Rebuild(b.lines)
	if t == nil {
		return
	}
	defer t.f.Close()
	d := c06Parse(t.dump(i))
	if d.n > 100000 {
		return
	}
	rows := rng.Bool()
	lms := c06Landmarks(d, rows)
	num := rng.Range(1, 6)
	if len(lms) > 0 {
		lm := lms[rng.Intn(len(lms))]
		num = rng.Pick2([]int{lm.a - 1, lm.a, lm.a + 1, lm.b, lm.b + 1})
		if num < 1 {
			num = 1
		}
	}
	n := rng.Range(1, 3)
	g.insRmRun(b, t, d, i, rows, num, n)
}

// insRmRun: on the twin t (state d of sheet i): insert n at num, remove n times, compare.
func (g *c06Gen) insRmRun(b, t *c06Book, d *c06Dump, i int, rows bool, num, n int) {
	r := g.r
	before := t.allDumps()
	sh := c06Sheet(i)
	kind := "cols"
	var st string
	if rows {
		kind = "rows"
		st = c06Safe(func() error { return t.f.InsertRows(sh, num, n) })
		for k := 0; k < n && st == "ok"; k++ {
			st = c06Safe(func() error { return t.f.RemoveRow(sh, num) })
		}
	} else {
		name := c06Col(num)
		st = c06Safe(func() error { return t.f.InsertCols(sh, name, n) })
		for k := 0; k < n && st == "ok"; k++ {
			st = c06Safe(func() error { return t.f.RemoveCol(sh, name) })
		}
	}
	r.Stat("oracle:insrm:" + kind + ":" + st)
	if st != "ok" {
		return
	}
	after := t.allDumps()
	lim := c06MaxCols
	if rows {
		lim = c06TotalRows
	}
	for j := range before {
		ch := c06DiffWords(before[j], after[j], true)
		if ch == "" {
			continue
		}
		if j != i {
			r.Fail("insrm:"+kind+":other-sheet", fmt.Sprintf("insert %d %s at %d then remove on %s changed sheet %s", n, kind, num, sh, c06Sheet(j)), 0,
				b.replayText()+fmt.Sprintf("\noracle insrm %d %s %d %d", i, kind, num, n))
			continue
		}
		for _, letter := range ch {
			cause := "other"
			atLimit := func(q c06Rect) bool {
				_, hi := q.y1, q.y2
				if !rows {
					hi = q.x2
				}
				return hi+n > lim
			}
			switch letter {
			case 'V':
				for _, it := range d.dvs {
					for _, q := range it.rects {
						if atLimit(q) {
							cause = "range-at-limit"
						}
					}
				}
			case 'F':
				for _, it := range d.cfs {
					for _, q := range it.rects {
						if atLimit(q) {
							cause = "range-at-limit"
						}
					}
				}
			case 'C':
				for _, c := range d.cols {
					if !rows && c.max+n > lim {
						cause = "range-at-limit"
					}
				}
			case 'R':
				if len(d.tables) > 0 {
					continue // adjustTable rewrites header cells (setTableColumns); tables are compared in their own scenarios
				}
			}
			r.Fail("insrm:"+kind+":"+string(letter)+":"+cause, fmt.Sprintf("insert %d %s at %d then remove %d times on %s does not restore the sheet (dump word %c)\n#   before: %s\n#   after:  %s",
				n, kind, num, n, sh, letter, c06Trunc(before[j], 600), c06Trunc(after[j], 600)), 0,
				b.replayText()+fmt.Sprintf("\noracle insrm %d %s %d %d", i, kind, num, n))
		}
	}
}

// DuplicateRow / DuplicateRowTo, observed through the internal dump only (VerifC06Dump runs no
// getter, so the verdict does not depend on which getters ran before: some getters used to
// materialise row slots as a side effect and thereby masked a non-contiguous row slice).
func (g *c06Gen) oracleDup(b *c06Book, i int) {
	rng := g.rng
	t := c06Rebuild(b.lines)
	if t == nil {
		return
	}
	d := c06Parse(t.dump(i))
	t.f.Close()
	if d.n > 100000 || len(d.tables) > 0 {
		return
	}
	row := rng.Range(1, d.n+2)
	row2 := rng.Range(1, d.n+4)
	if rng.Chance(30) {
		row2 = row + 1
	}
	g.dupRun(b, i, row, row2, rng.Chance(30) && row2 == row+1)
}

func c06RowSig(r c06RowD) string {
	cs := make([]string, 0, len(r.cells))
	for _, c := range r.cells {
		cs = append(cs, fmt.Sprintf("%d~%s~%s", c.c, c.s, c.tok))
	}
	return fmt.Sprintf("%s/%s/%d/%s", r.h, r.attr, r.nc, strings.Join(cs, ","))
}

// dupRun: twin workbook from b's lines, DuplicateRowTo(row,row2) (or DuplicateRow when useDup), dump before/after.
func (g *c06Gen) dupRun(b *c06Book, i, row, row2 int, useDup bool) {
	r := g.r
	t := c06Rebuild(b.lines)
	if t == nil || i < 0 || i >= t.k {
		return
	}
	defer t.f.Close()
	sh := c06Sheet(i)
	before := t.allDumps()
	d := c06Parse(before[i])
	var st string
	if useDup {
		st = c06Safe(func() error { return t.f.DuplicateRow(sh, row) })
	} else {
		st = c06Safe(func() error { return t.f.DuplicateRowTo(sh, row, row2) })
	}
	after := t.allDumps()
	p := c06Parse(after[i])
	r.Stat("oracle:dup:" + st)
	switch {
	case row2 > d.n+1:
		r.Stat("oracle:dup:target-beyond-last-row")
	case row2 < row:
		r.Stat("oracle:dup:target-above-source")
	default:
		r.Stat("oracle:dup:target-below-source")
	}
	replay := b.replayText() + fmt.Sprintf("\noracle dup %d %d %d", i, row, row2)
	fail := func(what, detail string) {
		r.Fail("dup:"+what, fmt.Sprintf("DuplicateRowTo(%s,%d,%d): %s %s\n#   before: %s\n#   after:  %s", sh, row, row2, what, detail,
			c06Trunc(before[i], 600), c06Trunc(after[i], 600)), 0, replay)
	}
	for j := range before {
		if j != i && before[j] != after[j] {
			fail("other-sheet-changed", c06Sheet(j))
		}
	}
	if st != "ok" {
		if st == "PANIC" {
			fail("panic", "")
		} else if before[i] != after[i] {
			fail("rejected-changed", "")
		}
		return
	}
	if row2 < 1 || row2 == row {
		if before[i] != after[i] {
			fail("noop-call-changed", "")
		}
		return
	}
	if !c06ListedDense(p) {
		fail("not-dense", "the row slice is not contiguous (slot k must hold row k+1)")
		return
	}
	pre := map[int]string{}
	for _, x := range d.rows {
		pre[x.r] = c06RowSig(x)
	}
	exp := map[int]string{}
	for k, v := range pre {
		if k < row2 {
			exp[k] = v
		} else {
			exp[k+1] = v
		}
	}
	srcStored := row <= d.n
	if v, ok := pre[row]; ok {
		exp[row2] = v
	}
	got := map[int]string{}
	for _, x := range p.rows {
		got[x.r] = c06RowSig(x)
	}
	for k, v := range exp {
		if got[k] != v {
			what := "rows-not-shifted"
			if k == row2 {
				what = "copy-differs"
			}
			fail(what, fmt.Sprintf("(row %d: want %s got %s)", k, c06Trunc(v, 120), c06Trunc(got[k], 120)))
			return
		}
	}
	for k, v := range got {
		if _, ok := exp[k]; !ok {
			fail("unexpected-row", fmt.Sprintf("(row %d: %s)", k, c06Trunc(v, 120)))
			return
		}
	}
	if p.colsW != d.colsW {
		fail("cols-changed", "")
	}
	o := c06Op{kind: "insrows", rows: true, ins: true, num: row2, k: 1}
	// merges: shifted; single-row merges of the source row are repeated on the target row unless it lands strictly inside a merge
	{
		var expM []c06Rect
		inside := false
		for _, q := range d.merges {
			n, _ := o.rect(q)
			expM = append(expM, n)
			if n.y1 < row2 && row2 < n.y2 {
				inside = true
			}
		}
		if srcStored && !inside {
			for _, q := range d.merges {
				if q.y1 == q.y2 && q.y1 == row {
					expM = append(expM, c06Rect{q.x1, row2, q.x2, row2})
				}
			}
		}
		if p.mBad || !c06RectsEq(c06SortRects(expM), c06SortRects(p.merges)) {
			fail("merge", fmt.Sprintf("want %v got %v", c06SortRects(expM), c06SortRects(p.merges)))
		}
	}
	// sqrefs: shifted in place; items with single-row refs on the source row get a copy (those refs, on the target row) appended
	sq := func(comp string, pre, post []c06SqD) {
		var exp []c06SqD
		for _, it := range pre {
			var rs []c06Rect
			for _, q := range it.rects {
				n, _ := o.rect(q)
				if n.y1 > c06TotalRows {
					continue
				}
				if n.y2 > c06TotalRows {
					n.y2 = c06TotalRows
				}
				rs = append(rs, n)
			}
			if len(rs) > 0 {
				exp = append(exp, c06SqD{rects: rs, tok: it.tok})
			}
		}
		if srcStored {
			for _, it := range pre {
				var rs []c06Rect
				for _, q := range it.rects {
					if q.y1 == q.y2 && q.y1 == row {
						rs = append(rs, c06Rect{q.x1, row2, q.x2, row2})
					}
				}
				if len(rs) > 0 {
					exp = append(exp, c06SqD{rects: rs, tok: it.tok})
				}
			}
		}
		eq := len(exp) == len(post)
		for k := 0; eq && k < len(exp); k++ {
			eq = !post[k].bad && exp[k].tok == post[k].tok && c06RectsEq(exp[k].rects, post[k].rects)
		}
		if !eq {
			rel := "target-below-source"
			if row2 < row {
				rel = "target-above-source"
			}
			fail(comp+":"+rel, fmt.Sprintf("want %v got %v", exp, post))
		}
	}
	sq("dv", d.dvs, p.dvs)
	sq("cf", d.cfs, p.cfs)
}

// cells inside a merged range other than its top-left cell: the getters redirect them to the top-left cell
func c06Covered(f *xl.File, sh string) map[[2]int]bool {
	out := map[[2]int]bool{}
	ms, _ := f.GetMergeCells(sh)
	for _, m := range ms {
		x1, y1, e1 := xl.CellNameToCoordinates(m.GetStartAxis())
		x2, y2, e2 := xl.CellNameToCoordinates(m.GetEndAxis())
		if e1 != nil || e2 != nil || (x2-x1+1)*(y2-y1+1) > 20000 {
			continue
		}
		for x := x1; x <= x2; x++ {
			for y := y1; y <= y2; y++ {
				if x != x1 || y != y1 {
					out[[2]int{x, y}] = true
				}
			}
		}
	}
	return out
}

// public-API observation of an accepted structural edit on twins: the getters that observe the state
// before the edit run on one twin, the edit itself on a second twin on which no getter has run (a getter
// with a side effect on the row slots can therefore not mask or cause a deviation) (getters may have side effects).
func (g *c06Gen) oracleAPI(b *c06Book, line string) {
	r := g.r
	w := strings.Fields(line)
	o, i, mode, ok := c06ParseOp(w)
	if !ok || mode != "f" || i < 0 || i >= b.k {
		return
	}
	t := c06Rebuild(b.lines)
	if t == nil {
		return
	}
	defer t.f.Close()
	d := c06Parse(t.dump(i))
	if d.n > 5000 {
		return
	}
	sh := c06Sheet(i)
	nr, nc := d.n+2, 2
	for _, rr := range d.rows {
		if rr.nc+1 > nc {
			nc = rr.nc + 1
		}
	}
	if nc > 60 {
		return
	}
	k := 1
	if o.ins {
		k = o.k
		if k > 50 {
			return
		}
	}
	type obs struct {
		cell map[[2]int]string
		rowA map[int]string
		colA map[int]string
	}
	observe := func(f *xl.File, R, C int) obs {
		ob := obs{map[[2]int]string{}, map[int]string{}, map[int]string{}}
		cov := c06Covered(f, sh)
		for rr := 1; rr <= R; rr++ {
			for c := 1; c <= C; c++ {
				if cov[[2]int{c, rr}] {
					continue
				}
				cell := c06Cell(c, rr)
				v, _ := f.GetCellValue(sh, cell)
				fm, _ := f.GetCellFormula(sh, cell)
				st, _ := f.GetCellStyle(sh, cell)
				// GetCellStyle falls back to the row/column style for cells without one: only
				// cells with content are compared through the getters (styled empty cells are
				// covered by the dump-level comparison)
				if v != "" || fm != "" {
					ob.cell[[2]int{c, rr}] = fmt.Sprintf("%q/%q/%d", v, fm, st)
				}
			}
			h, _ := f.GetRowHeight(sh, rr)
			vis, _ := f.GetRowVisible(sh, rr)
			ol, _ := f.GetRowOutlineLevel(sh, rr)
			ob.rowA[rr] = fmt.Sprintf("%v/%v/%d", h, vis, ol)
		}
		for c := 1; c <= C; c++ {
			n := c06Col(c)
			wd, _ := f.GetColWidth(sh, n)
			vis, _ := f.GetColVisible(sh, n)
			ol, _ := f.GetColOutlineLevel(sh, n)
			st, _ := f.GetColStyle(sh, n)
			ob.colA[c] = fmt.Sprintf("%v/%v/%d/%d", wd, vis, ol, st)
		}
		return ob
	}
	pre := observe(t.f, nr, nc)
	hadFilter := d.hasFlt
	t2 := c06Rebuild(b.lines)
	if t2 == nil {
		return
	}
	defer t2.f.Close()
	if st := c06Safe(func() error { return t2.call(o, sh, w) }); st != "ok" {
		return
	}
	post := observe(t2.f, nr+k, nc+k)
	r.Stat("oracle:api-observation")
	replay := b.replayText() + "\n" + line
	exp := map[[2]int]string{}
	for key, v := range pre.cell {
		if o.rows {
			if p, ok := o.pos(key[1]); ok {
				exp[[2]int{key[0], p}] = v
			}
		} else if p, ok := o.pos(key[0]); ok {
			exp[[2]int{p, key[1]}] = v
		}
	}
	if !c06MapEq(exp, post.cell) {
		what := "cells"
		if o.lower {
			what = "cells:lowercase-name"
		}
		var ks []string
		for key, v := range exp {
			if post.cell[key] != v {
				ks = append(ks, fmt.Sprintf("%s want %s got %s", c06Cell(key[0], key[1]), v, post.cell[key]))
			}
		}
		for key, v := range post.cell {
			if _, ok := exp[key]; !ok {
				ks = append(ks, fmt.Sprintf("%s unexpected %s", c06Cell(key[0], key[1]), v))
			}
		}
		sort.Strings(ks)
		if len(ks) > 4 {
			ks = ks[:4]
		}
		r.Fail("api:"+o.kind+":"+what, fmt.Sprintf("%s: GetCellValue/Formula/Style after != shifted before: %s", line, strings.Join(ks, "; ")), 0, replay)
	}
	if o.rows && !hadFilter {
		for rr := 1; rr <= nr; rr++ {
			if p, ok := o.pos(rr); ok && pre.rowA[rr] != post.rowA[p] {
				r.Fail("api:"+o.kind+":rowattrs", fmt.Sprintf("%s: row %d attrs %s became %s at row %d", line, rr, pre.rowA[rr], post.rowA[p], p), 0, replay)
				break
			}
		}
	}
	if !o.rows {
		for c := 1; c <= nc; c++ {
			if p, ok := o.pos(c); ok && pre.colA[c] != post.colA[p] {
				r.Fail("api:"+o.kind+":colattrs", fmt.Sprintf("%s: column %d attrs %s became %s at column %d", line, c, pre.colA[c], post.colA[p], p), 0, replay)
				break
			}
		}
	}
}

/* ---------- scenarios ---------- */

func (g *c06Gen) scenario(idx int) {
	r, rng := g.r, g.rng
	k := rng.Range(1, 3)
	tables := rng.Chance(15)
	far := rng.Chance(10)
	b := c06New(r, k)
	defer b.f.Close()
	if tables {
		r.Stat("scenario:tables")
	} else {
		r.Stat("scenario:plain")
	}
	for i := 0; i < k; i++ {
		g.populate(b, i, tables, far && i == 0)
	}
	if rng.Chance(25) {
		g.oracleInsRm(b, rng.Intn(k))
	}
	if rng.Chance(25) {
		g.oracleDup(b, rng.Intn(k))
	}
	nOps := rng.Range(1, 6)
	for n := 0; n < nOps; n++ {
		if big := b.allDumps(); len(strings.Join(big, "")) > 300000 {
			r.Stat("scenario:ended-by-size")
			return
		}
		b.sync(r)
		i := rng.Intn(k)
		if !tables && rng.Chance(18) {
			d := c06Parse(b.dump(i))
			if d.n <= 100000 {
				row := rng.Range(1, d.n+2)
				row2 := rng.Range(0, d.n+4)
				if rng.Chance(30) {
					row2 = row + 1
				}
				if rng.Chance(4) {
					row = rng.Pick2([]int{0, -1})
				}
				g.dupRun(b, i, row, row2, false)
				st, reload, changed := b.duprow(r, fmt.Sprintf("duprow %d %d %d", i, row, row2))
				if !reload || (st != "ok" && changed) {
					r.Stat("scenario:ended-by-broken-state")
					return
				}
				continue
			}
		}
		line := g.pickOp(b, i, tables)
		if rng.Chance(30) {
			g.oracleAPI(b, line)
		}
		st, reload, changed := b.structural(r, line)
		if !reload || (st != "ok" && changed) {
			r.Stat("scenario:ended-by-broken-state")
			return
		}
		if rng.Chance(30) {
			// interleaved cell writes
			si := strconv.Itoa(rng.Intn(k))
			b.api(r, "setint", si, c06Cell(rng.Range(1, 6), rng.Range(1, 10)), strconv.Itoa(rng.Range(0, 99)))
		}
	}
}

// deterministic witnesses of the suspected defects (DESIGN section 6 and code reading)
func (g *c06Gen) witnesses() {
	r := g.r
	run := func(k int, setup [][]string, ops ...string) {
		b := c06New(r, k)
		defer b.f.Close()
		for _, s := range setup {
			b.api(r, s...)
		}
		for _, op := range ops {
			b.sync(r)
			st, reload, changed := b.structural(r, op)
			if !reload || (st != "ok" && changed) {
				return
			}
		}
	}
	r.Stat("witness")
	// (a) rejected InsertRows has already rewritten another sheet's formula
	run(2, [][]string{{"setint", "0", "A1048576", "1"}, {"setf", "1", "A1", hx("S1!A5+1")}}, "insrows 0 2 3 f")
	// (b) RemoveCol with a lower-case name
	abcd := [][]string{{"setstr", "0", "A1", hx("a")}, {"setstr", "0", "B1", hx("b")}, {"setstr", "0", "C1", hx("c")}, {"setstr", "0", "D1", hx("d")}}
	run(1, abcd, "rmcol 0 "+hx("b")+" f")
	run(1, abcd, "rmcol 0 "+hx("B")+" f")
	run(1, abcd, "inscols 0 "+hx("b")+" 2 f")
	// sqref at-start / single / limit
	run(1, [][]string{{"dv", "0", hx("A3:A5"), "whole"}}, "rmrow 0 3 f")
	run(1, [][]string{{"dv", "0", hx("A1:A5"), "whole"}, {"setint", "0", "A1", "1"}, {"setint", "0", "A2", "2"}}, "rmrow 0 1 f")
	run(1, [][]string{{"cf", "0", hx("B3:D5"), "3"}}, "rmcol 0 "+hx("B")+" f")
	run(1, [][]string{{"cf", "0", hx("A1:C5"), "3"}, {"setint", "0", "A1", "1"}, {"setint", "0", "B1", "2"}}, "rmcol 0 "+hx("A")+" f")
	run(1, [][]string{{"dv", "0", hx("A1048576"), "whole"}, {"setint", "0", "A7", "1"}}, "insrows 0 5 1 f")
	run(1, [][]string{{"dv", "0", hx("A1:A1048576"), "whole"}}, "insrows 0 5 1 f", "rmrow 0 5 f")
	// auto filter
	run(1, [][]string{{"filter", "0", hx("A3:C10")}, {"setint", "0", "A3", "1"}}, "rmcol 0 "+hx("A")+" f")
	run(1, [][]string{{"filter", "0", hx("B3:D10")}, {"setint", "0", "A3", "1"}}, "rmcol 0 "+hx("B")+" f")
	run(1, [][]string{{"filter", "0", hx("B3:B10")}}, "inscols 0 "+hx("B")+" 1 f")
	run(1, [][]string{{"filter", "0", hx("B3:D10")}, {"rowvis", "0", "5", "0"}}, "rmrow 0 3 f")
	// merge at the column limit (MergeCell materialises the cells, a merge at the last rows would list a million rows)
	run(1, [][]string{{"merge", "0", "XFC1", "XFD2"}, {"setint", "0", "A2", "1"}}, "inscols 0 "+hx("A")+" 1 f")
	// tables
	tb := [][]string{{"setint", "0", "B4", "1"}, {"table", "0", hx("B3:D6"), "T1"}}
	run(1, tb, "rmrow 0 2 t")
	run(1, tb, "rmrow 0 3 t")
	run(1, tb, "rmrow 0 4 t")
	run(1, tb, "rmcol 0 "+hx("B")+" t")
	run(1, tb, "insrows 0 3 2 t", "inscols 0 "+hx("C")+" 1 t")
	// open findings: deterministic witnesses
	run(1, [][]string{{"dv", "0", hx("XFD1"), "whole"}, {"setint", "0", "A1", "1"}}, "inscols 0 "+hx("A")+" 1 f")
	run(1, [][]string{{"link", "0", "XFD1", "ext"}, {"setint", "0", "A2", "1"}}, "inscols 0 "+hx("A")+" 1 f")
	run(1, [][]string{{"setint", "0", "A3", "1"}, {"table", "0", hx("A3:B5"), "TL"}}, "insrows 0 1 1048572 t")
	insrm := func(setup [][]string, rows bool, num, n int) {
		b := c06New(nil, 1)
		for _, s := range setup {
			b.api(nil, s...)
		}
		b.f.Close()
		t := c06Rebuild(b.lines)
		defer t.f.Close()
		g.insRmRun(b, t, c06Parse(t.dump(0)), 0, rows, num, n)
	}
	insrm([][]string{{"dv", "0", hx("A1:A1048576"), "whole"}}, true, 5, 1)
	insrm([][]string{{"cf", "0", hx("A1:A1048576"), "3"}}, true, 5, 1)
	insrm([][]string{{"dv", "0", hx("A1:XFD1"), "whole"}}, false, 3, 1)
	insrm([][]string{{"cf", "0", hx("A1:XFD1"), "3"}}, false, 3, 1)
	insrm([][]string{{"colw", "0", "XFC", "XFD", "20"}}, false, 3, 1)
	// DuplicateRowTo: target beyond the last row, just after it, above the source, source not stored
	{
		b := c06New(nil, 1)
		for _, st := range [][]string{{"setint", "0", "A2", "22"}, {"setint", "0", "A4", "44"}, {"rowht", "0", "4", "30"},
			{"merge", "0", "B4", "C4"}, {"dv", "0", hx("A4"), "whole"}, {"cf", "0", hx("A4:C4"), "3"}} {
			b.api(nil, st...)
		}
		b.f.Close()
		for _, rr := range [][2]int{{4, 8}, {4, 5}, {4, 6}, {4, 2}, {4, 1}, {2, 4}, {7, 2}, {1, 0}} {
			g.dupRun(b, 0, rr[0], rr[1], false)
		}
	}
	// several hyperlinks on the removed row / column, adjacent in the list
	links := [][]string{{"link", "0", "B3", "loc"}, {"link", "0", "D3", "ext"}, {"link", "0", "E3", "loc"}, {"link", "0", "B5", "ext"}, {"link", "0", "B6", "loc"}, {"setint", "0", "A1", "1"}}
	run(1, links, "rmrow 0 3 f")
	run(1, links, "rmcol 0 "+hx("B")+" f")
	// rejected InsertCols: content at XFD in a later row than content that would move first; a formula on a sheet visited earlier
	run(1, [][]string{{"setint", "0", "A1", "1"}, {"setint", "0", "C2", "2"}, {"setint", "0", "XFD3", "3"}, {"setint", "0", "B4", "4"}}, "inscols 0 "+hx("A")+" 1 f")
	run(2, [][]string{{"setf", "0", "A1", hx("S2!C1+1")}, {"setint", "1", "C1", "5"}, {"setint", "1", "XFD2", "3"}}, "inscols 1 "+hx("A")+" 1 f")
	run(2, [][]string{{"setint", "0", "A1048576", "1"}, {"setint", "0", "A3", "2"}, {"setf", "1", "A1", hx("S1!A5+1")}}, "insrows 0 2 3 f")
	// DuplicateRowTo in the transcript: merges / DV / CF on the source row, target above, below, beyond, inside a merge
	{
		setup := [][]string{{"setint", "0", "A2", "22"}, {"setint", "0", "A4", "44"}, {"setint", "0", "C4", "45"}, {"rowht", "0", "4", "30"},
			{"merge", "0", "B4", "D4"}, {"merge", "0", "F1", "F3"}, {"dv", "0", hx("A4"), "whole"}, {"cf", "0", hx("A4:C4"), "3"}, {"link", "0", "A4", "loc"}}
		for _, rr := range [][2]int{{4, 8}, {4, 5}, {4, 6}, {4, 2}, {4, 1}, {2, 4}, {7, 2}, {1, 0}, {0, 3}, {4, 4}} {
			b := c06New(r, 1)
			for _, st := range setup {
				b.api(r, st...)
			}
			b.sync(r)
			b.duprow(r, fmt.Sprintf("duprow 0 %d %d", rr[0], rr[1]))
			b.f.Close()
		}
	}
	// DuplicateRowTo (round 5, theorem duplicate_sq_copies_exact): distinct single-row conditional formats / data validations on the
	// source row AND on both adjacent rows, a two-row range across the source, two references in one sqref; target above (adjacent,
	// two above, row 1), below (adjacent, beyond); compared object by object (transcript dump + oracle o4)
	{
		setup := [][]string{{"setint", "0", "A3", "33"}, {"setint", "0", "A4", "44"}, {"setint", "0", "B5", "55"},
			{"cf", "0", hx("A3:B3"), "3"}, {"cf", "0", hx("A4:C4"), "4"}, {"cf", "0", hx("B5:D5"), "5"}, {"cf", "0", hx("E3:E4"), "6"},
			{"cf", "0", hx("F4 H4:I4 F5"), "7"}, {"cf", "0", hx("G4:G5"), "8"},
			{"dv", "0", hx("A3"), "whole"}, {"dv", "0", hx("B4:C4"), "list"}, {"dv", "0", hx("A5"), "whole"}, {"dv", "0", hx("D4:D5"), "list"}}
		pairs := [][2]int{{4, 3}, {4, 2}, {4, 1}, {4, 5}, {4, 6}, {4, 9}, {3, 1}, {5, 4}, {5, 3}, {3, 5}}
		o := c06New(nil, 1)
		for _, st := range setup {
			o.api(nil, st...)
		}
		o.f.Close()
		for _, rr := range pairs {
			g.dupRun(o, 0, rr[0], rr[1], false)
		}
		for _, rr := range pairs {
			b := c06New(r, 1)
			for _, st := range setup {
				b.api(r, st...)
			}
			b.sync(r)
			b.duprow(r, fmt.Sprintf("duprow 0 %d %d", rr[0], rr[1]))
			b.f.Close()
		}
	}
	// hyperlink at the limit
	run(1, [][]string{{"link", "0", "A1048576", "ext"}, {"setint", "0", "A2", "1"}}, "insrows 0 1 1 f")
}

func runC06(r *Run, rng *Rng, replay string) {
	r.Rule = "scenario = workbook of 1..3 sheets populated through the public API (cells of all types, styles, row/column attributes, merges, hyperlinks, data validations, conditional formats, auto filter, tables), then 1..6 structural edits at edit points drawn relative to the objects present; every edit is compared dump-for-dump with the Lean model and with the shift-rule spec. A case (one structural edit on one concrete pre-state) is non-trivial iff it was accepted and changed the worksheet, or was rejected by a row/column limit check; distinct by op text + pre-state dump"
	if replay != "" {
		c06Replay(r, replay)
		return
	}
	g := &c06Gen{r: r, rng: rng, thorough: r.Tier == "thorough"}
	n := 450
	g.farLeft = 14
	if g.thorough {
		n = 5000
		g.farLeft = 120
	}
	t0 := time.Now()
	g.witnesses()
	if os.Getenv("VH_C06_DEBUG") != "" {
		fmt.Fprintf(os.Stderr, "witnesses: %v\n", time.Since(t0))
	}
	for s := 0; s < n; s++ {
		t0 := time.Now()
		l0 := r.N
		g.scenario(s)
		if d := time.Since(t0); d > 2*time.Second && os.Getenv("VH_C06_DEBUG") != "" {
			fmt.Fprintf(os.Stderr, "scenario %d: %v lines %d..%d\n", s, d, l0+1, r.N)
		}
	}
	for _, s := range r.opsSample(10) {
		r.Sample(c06Trunc(s, 320))
	}
	r.Notes = append(r.Notes, fmt.Sprintf("%d random scenarios + deterministic witnesses; far budget left %d", n, g.farLeft))
}

func c06Replay(r *Run, path string) {
	var b *c06Book
	g := &c06Gen{r: r, rng: NewRng(1)}
	for _, line := range readLines(path) {
		line = strings.TrimSpace(line)
		if line == "" || strings.HasPrefix(line, "#") {
			continue
		}
		w := strings.Fields(line)
		switch w[0] {
		case "new":
			k, _ := strconv.Atoi(w[1])
			if b != nil {
				b.f.Close()
			}
			b = c06New(r, k)
		case "api":
			if b != nil {
				b.api(r, w[1:]...)
			}
		case "sheet":
			if b != nil && len(w) > 2 {
				i, _ := strconv.Atoi(w[1])
				if i >= 0 && i < b.k {
					b.emit(r, fmt.Sprintf("sheet %d %s", i, b.dump(i)), "ok")
				}
			}
		case "oracle":
			if b != nil && len(w) == 5 && w[1] == "dup" {
				i, _ := strconv.Atoi(w[2])
				row, _ := strconv.Atoi(w[3])
				row2, _ := strconv.Atoi(w[4])
				g.dupRun(b, i, row, row2, false)
				b.emit(r, line, "ok")
			}
			// oracle insrm <i> <rows|cols> <num> <n>: the insert/remove identity oracle on a twin workbook
			if b != nil && len(w) == 6 && w[1] == "insrm" {
				i, _ := strconv.Atoi(w[2])
				num, _ := strconv.Atoi(w[4])
				n, _ := strconv.Atoi(w[5])
				if t := c06Rebuild(b.lines); t != nil && i >= 0 && i < b.k {
					g.insRmRun(b, t, c06Parse(t.dump(i)), i, w[3] == "rows", num, n)
					t.f.Close()
				}
				b.emit(r, line, "ok")
			}
		case "others":
			// emitted by structural
		case "insrows", "rmrow", "inscols", "rmcol":
			if b != nil {
				b.structural(r, line)
			}
		case "duprow":
			if b != nil {
				b.duprow(r, line)
			}
		}
	}
	if b != nil {
		b.f.Close()
	}
}
