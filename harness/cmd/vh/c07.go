//go:build verif_c07

package main

// C07 — formula references keep denoting the same cells across structural edits.
//
// Transcript op (see lean/XlModel/Drv/C07.lean):
//   adj <mode> <kr> <dir> <num> <off> <sheet> <sheetN> <formula> <names> <tok>...
//     mode s|m (s = with the Spec's expected range-operand values, m = malformed stream, Impl only)
//     kr 0|1 keepRelative; dir r|c; sheet/sheetN/formula hex; names "-" or comma separated hex;
//     tok <type><subtype>:<hex value> as produced by github.com/xuri/efp
//   result: "ok <hex>" | "ERR <hex partial>"  then (mode s) " S=<hex,...>|deleted|grid"
//   esc <hex>  escapeSheetName
//
// The result comes either from the hooked adjustFormulaRef, or (workbook cases)
// from GetCellFormula / GetDefinedName after a real InsertRows/InsertCols/
// RemoveRow/RemoveCol. Direct oracles: (1) the rewritten text, re-tokenised,
// has the references demanded by the generator's own formula tree and every
// other token unchanged; (2) the text equals the tree's own rendering
// (verbatim clause); (3) CalcCellValue of every formula cell before vs after.

import (
	"fmt"
	"os"
	"strconv"
	"strings"
	"time"

	"github.com/xuri/efp"
	xl "github.com/xuri/excelize/v2"
)

func init() { props["C07"] = runC07 }

// ---------------------------------------------------------------- formula trees

type c07Ref struct {
	sheet          string // "" = no prefix
	forceQuote     bool   // quote the prefix although the name does not need it
	shape          int    // 0 cell, 1 range, 2 whole columns, 3 whole rows
	c1, r1, c2, r2 int
	ac1, ar1       bool
	ac2, ar2       bool
	lower          bool
}

type c07Node struct {
	kind string // ref name num text bool err bin un pct fn paren isect array
	ref  *c07Ref
	s    string
	kids []*c07Node
}

func c07ColName(n int, lower bool) string {
	s, _ := xl.ColumnNumberToName(n)
	if lower {
		return strings.ToLower(s)
	}
	return s
}

func c07D(b bool) string {
	if b {
		return "$"
	}
	return ""
}

// needs quotes in a formula (the generator's own rule, deliberately conservative:
// anything but ASCII letters/digits or non-ASCII letters, or a leading digit)
func c07NeedsQuote(name string) bool {
	if name == "" {
		return false
	}
	for _, r := range name {
		if !(r >= 'A' && r <= 'Z' || r >= 'a' && r <= 'z' || r >= '0' && r <= '9' || r >= 0x80) {
			return true
		}
	}
	// letters and digits only: Excel still wants quotes for a leading digit, a name that reads as a
	// cell reference, a boolean
	if name[0] >= '0' && name[0] <= '9' {
		return true
	}
	if _, _, err := xl.CellNameToCoordinates(name); err == nil {
		return true
	}
	return strings.EqualFold(name, "TRUE") || strings.EqualFold(name, "FALSE")
}

func c07Prefix(sheet string, quoted bool) string {
	if sheet == "" {
		return ""
	}
	if quoted {
		return "'" + strings.ReplaceAll(sheet, "'", "''") + "'!"
	}
	return sheet + "!"
}

func (r *c07Ref) cellText() string {
	switch r.shape {
	case 0:
		return c07D(r.ac1) + c07ColName(r.c1, r.lower) + c07D(r.ar1) + strconv.Itoa(r.r1)
	case 1:
		return c07D(r.ac1) + c07ColName(r.c1, r.lower) + c07D(r.ar1) + strconv.Itoa(r.r1) + ":" +
			c07D(r.ac2) + c07ColName(r.c2, r.lower) + c07D(r.ar2) + strconv.Itoa(r.r2)
	case 2:
		return c07D(r.ac1) + c07ColName(r.c1, r.lower) + ":" + c07D(r.ac2) + c07ColName(r.c2, r.lower)
	}
	return c07D(r.ar1) + strconv.Itoa(r.r1) + ":" + c07D(r.ar2) + strconv.Itoa(r.r2)
}

func (r *c07Ref) text() string {
	return c07Prefix(r.sheet, r.forceQuote || c07NeedsQuote(r.sheet)) + r.cellText()
}

// token value efp produces for this reference (prefix unquoted)
func (r *c07Ref) tokenValue() string {
	if r.sheet == "" {
		return r.cellText()
	}
	return r.sheet + "!" + r.cellText()
}

func (n *c07Node) render(b *strings.Builder) {
	switch n.kind {
	case "ref":
		b.WriteString(n.ref.text())
	case "name", "num", "bool", "err":
		b.WriteString(n.s)
	case "text":
		b.WriteString(`"` + strings.ReplaceAll(n.s, `"`, `""`) + `"`)
	case "bin":
		n.kids[0].render(b)
		b.WriteString(n.s)
		n.kids[1].render(b)
	case "isect":
		n.kids[0].render(b)
		b.WriteString(" ")
		n.kids[1].render(b)
	case "un":
		b.WriteString(n.s)
		n.kids[0].render(b)
	case "pct":
		n.kids[0].render(b)
		b.WriteString("%")
	case "paren":
		b.WriteString("(")
		n.kids[0].render(b)
		b.WriteString(")")
	case "fn":
		b.WriteString(n.s + "(")
		for i, k := range n.kids {
			if i > 0 {
				b.WriteString(",")
			}
			k.render(b)
		}
		b.WriteString(")")
	case "array", "raw":
		b.WriteString(n.s)
	case "flat":
		for _, k := range n.kids {
			k.render(b)
		}
	}
}

func (n *c07Node) String() string {
	var b strings.Builder
	n.render(&b)
	return b.String()
}

// leaves that efp turns into range operands, left to right
func (n *c07Node) operands(out *[]*c07Node) {
	if n.kind == "ref" || n.kind == "name" {
		*out = append(*out, n)
	}
	for _, k := range n.kids {
		k.operands(out)
	}
}

func (n *c07Node) has(kind string) bool {
	if n.kind == kind {
		return true
	}
	for _, k := range n.kids {
		if k.has(kind) {
			return true
		}
	}
	return false
}

// ---------------------------------------------------------------- the harness's own Spec

type c07Edit struct {
	rows     bool
	num, off int
}

func (e c07Edit) dir() string {
	if e.rows {
		return "r"
	}
	return "c"
}

// where index i goes; ok=false when deleted
func c07ShiftIdx(e c07Edit, i int) (int, bool) {
	if i < e.num {
		return i, true
	}
	if e.off >= 0 {
		return i + e.off, true
	}
	if i >= e.num-e.off {
		return i + e.off, true
	}
	return 0, false
}

// shifted copy of a reference; status "", "deleted", "grid"
func c07ShiftRef(r *c07Ref, e c07Edit, kr bool) (*c07Ref, string) {
	q := *r
	deleted := false
	mv := func(v *int, abs bool, isRow bool) {
		if isRow != e.rows || (kr && !abs) {
			return
		}
		n, ok := c07ShiftIdx(e, *v)
		if !ok {
			deleted = true
			return
		}
		*v = n
	}
	switch r.shape {
	case 0:
		mv(&q.c1, r.ac1, false)
		mv(&q.r1, r.ar1, true)
	case 1:
		mv(&q.c1, r.ac1, false)
		mv(&q.r1, r.ar1, true)
		mv(&q.c2, r.ac2, false)
		mv(&q.r2, r.ar2, true)
	case 2:
		mv(&q.c1, r.ac1, false)
		mv(&q.c2, r.ac2, false)
	case 3:
		mv(&q.r1, r.ar1, true)
		mv(&q.r2, r.ar2, true)
	}
	if deleted {
		return nil, "deleted"
	}
	okc := func(c int) bool { return c >= 1 && c <= 16384 }
	okr := func(x int) bool { return x >= 1 && x <= 1048576 }
	in := true
	switch r.shape {
	case 0:
		in = okc(q.c1) && okr(q.r1)
	case 1:
		in = okc(q.c1) && okr(q.r1) && okc(q.c2) && okr(q.r2)
	case 2:
		in = okc(q.c1) && okc(q.c2)
	case 3:
		in = okr(q.r1) && okr(q.r2)
	}
	if !in {
		return nil, "grid"
	}
	return &q, ""
}

// what the code does with an index, deleted or not (mirrors Spec.slideIdx)
func c07SlideIdx(e c07Edit, i int) int {
	if i < e.num {
		return i
	}
	if i+e.off < 1 {
		return 1
	}
	return i + e.off
}

// c07SlideOperands lists, for a tree with a deleted endpoint, the range-operand values the code is
// expected to produce (Spec.slideRef); nil when one of them leaves the grid.
func c07SlideOperands(t *c07Node, sheet, sheetN string, e c07Edit, kr bool) []string {
	var ops []*c07Node
	t.operands(&ops)
	var out []string
	for _, o := range ops {
		if o.kind != "ref" {
			out = append(out, o.s)
			continue
		}
		target := o.ref.sheet
		if target == "" {
			target = sheetN
		}
		q := *o.ref
		if target == sheet {
			mv := func(v *int, abs, isRow bool) {
				if isRow == e.rows && !(kr && !abs) {
					*v = c07SlideIdx(e, *v)
				}
			}
			switch q.shape {
			case 0:
				mv(&q.c1, q.ac1, false)
				mv(&q.r1, q.ar1, true)
			case 1:
				mv(&q.c1, q.ac1, false)
				mv(&q.r1, q.ar1, true)
				mv(&q.c2, q.ac2, false)
				mv(&q.r2, q.ar2, true)
			case 2:
				mv(&q.c1, q.ac1, false)
				mv(&q.c2, q.ac2, false)
			case 3:
				mv(&q.r1, q.ar1, true)
				mv(&q.r2, q.ar2, true)
			}
			okc := func(c int) bool { return c >= 1 && c <= 16384 }
			okr := func(x int) bool { return x >= 1 && x <= 1048576 }
			in := true
			switch q.shape {
			case 0:
				in = okc(q.c1) && okr(q.r1)
			case 1:
				in = okc(q.c1) && okr(q.r1) && okc(q.c2) && okr(q.r2)
			case 2:
				in = okc(q.c1) && okc(q.c2)
			case 3:
				in = okr(q.r1) && okr(q.r2)
			}
			if !in {
				return nil
			}
			q.lower = false
		}
		out = append(out, q.tokenValue())
	}
	return out
}

// shifted copy of a whole tree (only references to `sheet` move). status as above.
func c07ShiftTree(n *c07Node, sheet, sheetN string, e c07Edit, kr bool) (*c07Node, string) {
	m := *n
	status := ""
	if n.kind == "ref" {
		target := n.ref.sheet
		if target == "" {
			target = sheetN
		}
		if target == sheet {
			q, st := c07ShiftRef(n.ref, e, kr)
			if st != "" {
				return nil, st
			}
			m.ref = q
		}
		return &m, ""
	}
	m.kids = make([]*c07Node, len(n.kids))
	for i, k := range n.kids {
		kk, st := c07ShiftTree(k, sheet, sheetN, e, kr)
		if st == "deleted" {
			return nil, st
		}
		if st != "" {
			status = st
			kk = k
		}
		m.kids[i] = kk
	}
	if status != "" {
		return nil, status
	}
	return &m, ""
}

// ---------------------------------------------------------------- efp tokens on the wire

var c07TyCode = map[string]string{
	efp.TokenTypeOperand: "O", efp.TokenTypeFunction: "F", efp.TokenTypeSubexpression: "S",
	efp.TokenTypeArgument: "A", efp.TokenTypeOperatorPrefix: "P", efp.TokenTypeOperatorInfix: "I",
	efp.TokenTypeOperatorPostfix: "X", efp.TokenTypeWhitespace: "W", efp.TokenTypeUnknown: "U", efp.TokenTypeNoop: "N",
}

var c07SubCode = map[string]string{
	"": "-", efp.TokenSubTypeStart: "s", efp.TokenSubTypeStop: "e", efp.TokenSubTypeText: "t",
	efp.TokenSubTypeNumber: "n", efp.TokenSubTypeLogical: "l", efp.TokenSubTypeError: "r",
	efp.TokenSubTypeRange: "g", efp.TokenSubTypeMath: "m", efp.TokenSubTypeConcatenation: "c",
	efp.TokenSubTypeIntersection: "i", efp.TokenSubTypeUnion: "u",
}

func c07Tokens(formula string) []efp.Token {
	ps := efp.ExcelParser()
	return ps.Parse(formula)
}

func c07TokWire(ts []efp.Token) string {
	var b strings.Builder
	for _, t := range ts {
		b.WriteString(" " + c07TyCode[t.TType] + c07SubCode[t.TSubType] + ":" + hx(t.TValue))
	}
	return b.String()
}

func c07IsRange(t efp.Token) bool {
	return t.TType == efp.TokenTypeOperand && t.TSubType == efp.TokenSubTypeRange
}

// ---------------------------------------------------------------- one case

type c07Case struct {
	sheet, sheetN string
	kr            bool
	e             c07Edit
	tree          *c07Node // nil for the malformed stream
	formula       string
	names         []string // defined names in scope
	how           string   // "hook" | "InsertRows" ...
	noOp          bool     // no transcript line (the text is not produced by adjustFormulaRef alone)
	derived       string   // shared formula child: what getSharedFormula derives from the rewritten master
	masterGone    bool     // shared formula child whose master cell was removed by the edit
	note          string   // scenario description put in front of the replay (workbook cases)
}

func c07NamesField(names []string) string {
	if len(names) == 0 {
		return "-"
	}
	hs := make([]string, len(names))
	for i, n := range names {
		hs[i] = hx(n)
	}
	return strings.Join(hs, ",")
}

func (c *c07Case) opLine(mode string) string {
	kr := "0"
	if c.kr {
		kr = "1"
	}
	return fmt.Sprintf("adj %s %s %s %d %d %s %s %s %s%s", mode, kr, c.e.dir(), c.e.num, c.e.off,
		hx(c.sheet), hx(c.sheetN), hx(c.formula), c07NamesField(c.names), c07TokWire(c07Tokens(c.formula)))
}

// the canonical form of a prefix under escapeSheetName's observable rule, used
// only to *classify* a verbatim deviation (never to accept one)
func c07Requote(n *c07Node) *c07Node {
	m := *n
	if n.kind == "ref" {
		q := *n.ref
		q.forceQuote = false
		m.ref = &q
	}
	m.kids = make([]*c07Node, len(n.kids))
	for i, k := range n.kids {
		m.kids[i] = c07Requote(k)
	}
	return &m
}

// c07Check emits the transcript line for one (case, implementation result) and evaluates the
// text-level oracles. got/gotErr is what the implementation produced.
func c07Check(r *Run, c *c07Case, got string, gotErr bool) {
	res := "ok " + hx(got)
	if gotErr {
		res = "ERR " + hx(got)
	}
	if c.tree == nil {
		r.Op(c.opLine("m"), res)
		r.Case("m:"+c.opLine("m"), !gotErr && got != c.formula)
		r.Stat("malformed:" + map[bool]string{true: "err", false: "ok"}[gotErr])
		return
	}
	var ops []*c07Node
	c.tree.operands(&ops)
	toks := c07Tokens(c.formula)
	var rng []efp.Token
	for _, t := range toks {
		if c07IsRange(t) {
			rng = append(rng, t)
		}
	}
	opl := c.opLine("s")
	replay := opl
	if c.note != "" {
		replay = "# " + c.note + "\n" + replay
	}
	// sanity of the generator: efp sees exactly the tree's operand leaves
	if len(rng) != len(ops) {
		r.Fail("gen:efp-tree-mismatch", fmt.Sprintf("formula %q: efp yields %d range operands, the tree has %d", c.formula, len(rng), len(ops)), 0, replay)
		return
	}
	for i := range rng {
		want := ops[i].s
		if ops[i].kind == "ref" {
			want = ops[i].ref.tokenValue()
		}
		if rng[i].TValue != want {
			r.Fail("gen:efp-tree-mismatch", fmt.Sprintf("formula %q: efp operand %d = %q, the tree says %q", c.formula, i, rng[i].TValue, want), 0, replay)
			return
		}
	}
	shifted, status := c07ShiftTree(c.tree, c.sheet, c.sheetN, c.e, c.kr)
	var want, wantSpec []string
	if status == "" {
		var sops []*c07Node
		shifted.operands(&sops)
		for _, o := range sops {
			if o.kind != "ref" {
				want, wantSpec = append(want, o.s), append(wantSpec, o.s)
				continue
			}
			want = append(want, o.ref.tokenValue())
			// the Lean Spec re-renders (canonical upper case) exactly the references aimed at the edited sheet
			q := *o.ref
			target := q.sheet
			if target == "" {
				target = c.sheetN
			}
			if target == c.sheet {
				q.lower = false
			}
			wantSpec = append(wantSpec, q.tokenValue())
		}
	}
	specField := c07SpecField(status, wantSpec)
	var slide []string
	if status == "deleted" {
		if slide = c07SlideOperands(c.tree, c.sheet, c.sheetN, c.e, c.kr); slide != nil {
			hs := make([]string, len(slide))
			for i, w := range slide {
				hs[i] = hx(w)
			}
			specField = "S=deleted:" + strings.Join(hs, ",")
		}
	}
	ln := 0
	if !c.noOp {
		ln = r.Op(opl, res+" "+specField)
	}
	nontrivial := status == "" && !gotErr && got != c.formula
	r.Case(c.how+":"+opl, nontrivial)
	r.Stat("case:" + c.how)
	switch {
	case status == "deleted":
		r.Stat("spec:endpoint-deleted")
		// inside the excluded region the property demands nothing; the model's description of what the
		// code does there (Spec.slideRef, theorem operand_rewrite_total) is compared with the code
		if slide != nil && !c.noOp {
			r.Stat("spec:endpoint-deleted:slide-checked")
			gt := c07Tokens(got)
			k, bad := 0, gotErr
			for _, t := range gt {
				if c07IsRange(t) {
					if k >= len(slide) || !c07SameRef(t.TValue, slide[k]) {
						bad = true
					}
					k++
				}
			}
			if bad || k != len(slide) {
				r.Fail("slide:mismatch", fmt.Sprintf("%s: formula %q, edit of %q %+v (an endpoint is deleted): got %q, the model of the code's sliding predicts operands %q", c.how, c.formula, c.sheet, c.e, got, slide), ln, replay)
			}
		}
		return
	case status == "grid":
		r.Stat("spec:leaves-grid")
		if !gotErr {
			r.Fail("grid:no-error", fmt.Sprintf("%s: formula %q edit %+v: a reference leaves the grid but no error was returned: %q", c.how, c.formula, c.e, got), ln, replay)
		}
		return
	}
	r.Stat("spec:moved-or-same")
	if gotErr {
		r.Fail("denote:error", fmt.Sprintf("%s: formula %q (sheet %q, formula on %q, edit %+v): error although every reference stays in the grid; partial %q", c.how, c.formula, c.sheet, c.sheetN, c.e, got), ln, replay)
		return
	}
	// oracle 1: same cells. Re-tokenise the result; range operands must be the demanded ones,
	// everything else must be the original token.
	gt := c07Tokens(got)
	bad := ""
	if len(gt) != len(toks) {
		bad = fmt.Sprintf("token count %d -> %d", len(toks), len(gt))
	} else {
		k := 0
		for i := range toks {
			if c07IsRange(toks[i]) {
				if !c07IsRange(gt[i]) || !c07SameRef(gt[i].TValue, want[k]) {
					bad = fmt.Sprintf("operand %d is %q, the property demands %q", k, gt[i].TValue, want[k])
					break
				}
				k++
			} else if gt[i] != toks[i] {
				bad = fmt.Sprintf("token %d %v became %v", i, toks[i], gt[i])
				break
			}
		}
	}
	exp := shifted.String()
	if bad != "" {
		r.Fail("denote:"+c07Classify(c, got, exp), fmt.Sprintf("%s: formula %q on sheet %q, edit of %q %+v keepRelative=%v -> %q: %s (expected %q)", c.how, c.formula, c.sheetN, c.sheet, c.e, c.kr, got, bad, exp), ln, replay)
		return
	}
	// oracle 2: verbatim text (markers, prefixes, quoting, literals, function names)
	if !c07SameText(got, exp) {
		r.Fail("verbatim:"+c07Classify(c, got, exp), fmt.Sprintf("%s: formula %q on sheet %q, edit of %q %+v -> %q, verbatim rendering of the relocated tree is %q", c.how, c.formula, c.sheetN, c.sheet, c.e, got, exp), ln, replay)
	}
}

// The Spec field of the transcript line.
func c07SpecField(status string, want []string) string {
	if status != "" {
		return "S=" + status
	}
	hs := make([]string, len(want))
	for i, w := range want {
		hs[i] = hx(w)
	}
	return "S=" + strings.Join(hs, ",")
}

func c07SameRef(a, b string) bool {
	ia, ib := strings.LastIndex(a, "!"), strings.LastIndex(b, "!")
	if ia != ib {
		return false
	}
	if ia >= 0 && a[:ia] != b[:ib] {
		return false
	}
	return strings.EqualFold(a[ia+1:], b[ib+1:])
}

// text equality up to the case of column letters inside references that were relocated
// (ColumnNumberToName emits upper case; Excel itself normalises case). Comparison is done on
// the token level for range operands and exactly for everything else, so here: exact match
// after upper-casing reference operands on both sides.
func c07SameText(got, exp string) bool {
	if got == exp {
		return true
	}
	return c07UpperRefs(got) == c07UpperRefs(exp)
}

func c07UpperRefs(s string) string {
	// upper-case only the cell part of range operands; prefixes, text and names stay
	var b strings.Builder
	i := 0
	for i < len(s) {
		ch := s[i]
		switch {
		case ch == '"':
			j := i + 1
			for j < len(s) {
				if s[j] == '"' {
					if j+1 < len(s) && s[j+1] == '"' {
						j += 2
						continue
					}
					break
				}
				j++
			}
			if j >= len(s) {
				j = len(s) - 1
			}
			b.WriteString(s[i : j+1])
			i = j + 1
		case ch == '\'':
			j := i + 1
			for j < len(s) {
				if s[j] == '\'' {
					if j+1 < len(s) && s[j+1] == '\'' {
						j += 2
						continue
					}
					break
				}
				j++
			}
			if j >= len(s) {
				j = len(s) - 1
			}
			b.WriteString(s[i : j+1])
			i = j + 1
		default:
			// a run of reference characters: upper-case it when it is not followed by '(' or '!'
			j := i
			for j < len(s) && (s[j] == '$' || s[j] == ':' || s[j] >= '0' && s[j] <= '9' || s[j] >= 'a' && s[j] <= 'z' || s[j] >= 'A' && s[j] <= 'Z' || s[j] == '_' || s[j] == '.' || s[j] >= 0x80) {
				j++
			}
			if j == i {
				b.WriteByte(ch)
				i++
				continue
			}
			run := s[i:j]
			if j < len(s) && (s[j] == '(' || s[j] == '!') || !c07LooksRef(run) {
				b.WriteString(run)
			} else {
				b.WriteString(strings.ToUpper(run))
			}
			i = j
		}
	}
	return b.String()
}

func c07LooksRef(s string) bool {
	for _, part := range strings.Split(s, ":") {
		p := strings.TrimPrefix(part, "$")
		k := 0
		for k < len(p) && (p[k] >= 'a' && p[k] <= 'z' || p[k] >= 'A' && p[k] <= 'Z') {
			k++
		}
		if k > 3 {
			return false
		}
		p = strings.TrimPrefix(p[k:], "$")
		for _, ch := range p {
			if ch < '0' || ch > '9' {
				return false
			}
		}
	}
	return true
}

// classify a deviation by its shape (signature component). Never used to accept one.
func c07Classify(c *c07Case, got, exp string) string {
	if c.tree == nil {
		return "other"
	}
	if c.masterGone && got == "" {
		return "shared-master-removed"
	}
	if c.derived != "" && c07SameText(got, c.derived) {
		return "shared-child-derived-from-master"
	}
	if c07SameText(got, c07Requote(mustShift(c)).String()) {
		return "sheet-prefix-requoted"
	}
	if c.tree.has("isect") && strings.ReplaceAll(c07UpperRefs(exp), " ", "") == c07UpperRefs(got) {
		return "intersection-operator-dropped"
	}
	if c.tree.has("array") && strings.Contains(got, "ARRAYROW(") {
		return "array-constant-rewritten"
	}
	var ops []*c07Node
	c.tree.operands(&ops)
	for _, o := range ops {
		if o.kind == "ref" && strings.Contains(o.ref.sheet, "!") {
			return "sheet-name-with-bang"
		}
	}
	return "other"
}

func mustShift(c *c07Case) *c07Node {
	t, st := c07ShiftTree(c.tree, c.sheet, c.sheetN, c.e, c.kr)
	if st != "" {
		return c.tree
	}
	return t
}

// ---------------------------------------------------------------- generator

var c07Sheets = []string{"Sheet1", "Data2", "My Sheet", "O'Brien", "Sheet_3", "2024", "Büro", "FY24", "2024's", "1st Qtr '24", "Büro's", "a_b's", "FY'24", "7'x"}

var c07Cols = []int{1, 2, 3, 4, 5, 8, 25, 26, 27, 28, 52, 53, 702, 703, 704, 16383, 16384}
var c07Rows = []int{1, 2, 3, 4, 5, 9, 10, 11, 12, 99, 100, 101, 1048575, 1048576}

type c07Gen struct {
	rng      *Rng
	small    bool     // coordinates inside the data block of the workbook (evaluation cases)
	sheets   []string // sheets that may appear as prefixes
	names    []string // defined names that may appear as leaves
	evalOnly bool     // restrict to what CalcCellValue evaluates deterministically
}

func (g *c07Gen) col() int {
	if g.small {
		return g.rng.Range(1, 8)
	}
	if g.rng.Chance(55) {
		return g.rng.Range(1, 12)
	}
	return c07Cols[g.rng.Intn(len(c07Cols))]
}

func (g *c07Gen) row() int {
	if g.small {
		return g.rng.Range(1, 12)
	}
	if g.rng.Chance(55) {
		return g.rng.Range(1, 14)
	}
	return c07Rows[g.rng.Intn(len(c07Rows))]
}

func (g *c07Gen) ref() *c07Ref {
	r := &c07Ref{}
	k := g.rng.Intn(100)
	switch {
	case k < 45:
		r.shape = 0
	case k < 80:
		r.shape = 1
	case k < 90:
		r.shape = 2
	default:
		r.shape = 3
	}
	r.c1, r.r1, r.c2, r.r2 = g.col(), g.row(), g.col(), g.row()
	if r.shape != 0 && g.rng.Chance(85) { // mostly normalised ranges, sometimes reversed
		if r.c2 < r.c1 {
			r.c1, r.c2 = r.c2, r.c1
		}
		if r.r2 < r.r1 {
			r.r1, r.r2 = r.r2, r.r1
		}
	}
	if g.evalOnly && r.shape > 1 { // whole rows/columns take CalcCellValue seconds each: text-checked only
		r.shape = 1
	}
	if g.evalOnly && r.shape != 0 { // normalised, modest size
		if r.c2 < r.c1 {
			r.c1, r.c2 = r.c2, r.c1
		}
		if r.r2 < r.r1 {
			r.r1, r.r2 = r.r2, r.r1
		}
	}
	r.ac1, r.ar1, r.ac2, r.ar2 = g.rng.Bool(), g.rng.Bool(), g.rng.Bool(), g.rng.Bool()
	if g.rng.Chance(45) && len(g.sheets) > 0 {
		r.sheet = g.sheets[g.rng.Intn(len(g.sheets))]
		r.forceQuote = g.rng.Chance(30)
	}
	r.lower = !g.evalOnly && g.rng.Chance(6)
	return r
}

var c07Funcs = []string{"SUM", "MAX", "MIN", "COUNT", "AVERAGE", "IF", "ABS", "LOG10", "ATAN2", "sum", "T.TEST", "_xlfn.XLOOKUP", "SUMIF", "INDEX"}
var c07EvalFuncs = []string{"SUM", "MAX", "MIN", "COUNT", "AVERAGE", "ABS", "IF"}
var c07Texts = []string{"A1", "x", "", "a\"b", "Sheet1!B2", "$C$3:D4", "'q'", "1:2", " A1 ", "SUM(A1)", "é"}
var c07BinOps = []string{"+", "-", "*", "/", "^", "&", "=", "<>", "<", ">", "<=", ">="}

func (g *c07Gen) leaf() *c07Node {
	k := g.rng.Intn(100)
	switch {
	case k < 62:
		return &c07Node{kind: "ref", ref: g.ref()}
	case k < 74:
		return &c07Node{kind: "num", s: g.rng.Pick([]string{"1", "2", "10", "0.5", "3.25", "100", "1E+3", "7"})}
	case k < 88:
		return &c07Node{kind: "text", s: g.rng.Pick(c07Texts)}
	case k < 92:
		return &c07Node{kind: "bool", s: g.rng.Pick([]string{"TRUE", "FALSE"})}
	case k < 96 && len(g.names) > 0:
		return &c07Node{kind: "name", s: g.rng.Pick(g.names)}
	case k < 98 && !g.evalOnly:
		return &c07Node{kind: "err", s: g.rng.Pick([]string{"#REF!", "#N/A", "#DIV/0!", "#VALUE!"})}
	}
	return &c07Node{kind: "ref", ref: g.ref()}
}

func (g *c07Gen) rangeArg() *c07Node {
	r := g.ref()
	if r.shape == 0 && g.rng.Chance(60) {
		r.shape = 1
		if r.c2 < r.c1 {
			r.c1, r.c2 = r.c2, r.c1
		}
		if r.r2 < r.r1 {
			r.r1, r.r2 = r.r2, r.r1
		}
	}
	return &c07Node{kind: "ref", ref: r}
}

func (g *c07Gen) tree(depth int) *c07Node {
	if depth <= 0 || g.rng.Chance(25) {
		return g.leaf()
	}
	k := g.rng.Intn(100)
	switch {
	case k < 38:
		op := g.rng.Pick(c07BinOps)
		if g.evalOnly {
			op = g.rng.Pick([]string{"+", "-", "*", "&", "=", "<", ">", "<>"})
		}
		return &c07Node{kind: "bin", s: op, kids: []*c07Node{g.tree(depth - 1), g.tree(depth - 1)}}
	case k < 72:
		fn := g.rng.Pick(c07Funcs)
		if g.evalOnly {
			fn = g.rng.Pick(c07EvalFuncs)
		}
		n := &c07Node{kind: "fn", s: fn}
		if fn == "IF" {
			cond := &c07Node{kind: "bin", s: g.rng.Pick([]string{">", "<", "="}), kids: []*c07Node{g.tree(depth - 1), g.leaf()}}
			n.kids = []*c07Node{cond, g.tree(depth - 1), g.tree(depth - 1)}
			return n
		}
		if fn == "ABS" || fn == "LOG10" {
			n.kids = []*c07Node{g.tree(depth - 1)}
			return n
		}
		for i, cnt := 0, g.rng.Range(1, 3); i < cnt; i++ {
			if g.rng.Chance(70) {
				n.kids = append(n.kids, g.rangeArg())
			} else {
				n.kids = append(n.kids, g.tree(depth-1))
			}
		}
		return n
	case k < 80:
		return &c07Node{kind: "paren", kids: []*c07Node{g.tree(depth - 1)}}
	case k < 86:
		return &c07Node{kind: "un", s: "-", kids: []*c07Node{g.leaf()}}
	case k < 90:
		return &c07Node{kind: "pct", kids: []*c07Node{&c07Node{kind: "ref", ref: g.ref()}}}
	case k < 95 && !g.evalOnly:
		return &c07Node{kind: "fn", s: "SUM", kids: []*c07Node{&c07Node{kind: "isect", kids: []*c07Node{g.rangeArg(), g.rangeArg()}}}}
	case k < 97 && !g.evalOnly:
		return &c07Node{kind: "fn", s: "SUM", kids: []*c07Node{&c07Node{kind: "array", s: g.rng.Pick([]string{"{1,2;3,4}", "{1,2,3}", "{\"a\";\"b\"}"})}}}
	}
	return g.leaf()
}

// edits positioned relative to the endpoints of the tree's references
func (g *c07Gen) edit(t *c07Node) c07Edit {
	var ops []*c07Node
	t.operands(&ops)
	e := c07Edit{rows: g.rng.Bool()}
	var anchors []int
	for _, o := range ops {
		if o.kind != "ref" {
			continue
		}
		if e.rows {
			if o.ref.shape != 2 {
				anchors = append(anchors, o.ref.r1)
				if o.ref.shape != 0 {
					anchors = append(anchors, o.ref.r2)
				}
			}
		} else if o.ref.shape != 3 {
			anchors = append(anchors, o.ref.c1)
			if o.ref.shape != 0 {
				anchors = append(anchors, o.ref.c2)
			}
		}
	}
	if len(anchors) > 0 && g.rng.Chance(80) {
		a := anchors[g.rng.Intn(len(anchors))]
		e.num = a + g.rng.Pick2([]int{-2, -1, 0, 0, 1, 1, 2})
	} else {
		e.num = g.rng.Range(1, 15)
	}
	if e.num < 1 {
		e.num = 1
	}
	if g.rng.Chance(60) {
		e.off = g.rng.Pick2([]int{1, 1, 1, 2, 3, 5, 26, 100})
	} else {
		e.off = -1
	}
	return e
}

// ---------------------------------------------------------------- runners

func c07NamesInScope(f *xl.File, sheet string) []string {
	var out []string
	for _, d := range f.GetDefinedName() {
		if d.Scope == "Workbook" || d.Scope == sheet {
			out = append(out, d.Name)
		}
	}
	return out
}

func c07Hook(f *xl.File, c *c07Case) (got string, isErr bool) {
	defer func() {
		if p := recover(); p != nil {
			got, isErr = "PANIC", true
		}
	}()
	s, err := xl.VerifC07AdjustFormulaRef(f, c.sheet, c.sheetN, c.formula, c.kr, c.e.rows, c.e.num, c.e.off)
	return s, err != nil
}

func c07NewFile() *xl.File {
	f := xl.NewFile()
	for _, s := range c07Sheets[1:] {
		if _, err := f.NewSheet(s); err != nil {
			must(err)
		}
	}
	must(f.SetDefinedName(&xl.DefinedName{Name: "TaxRate", RefersTo: "Sheet1!$B$2", Scope: "Workbook"}))
	must(f.SetDefinedName(&xl.DefinedName{Name: "Block", RefersTo: "Sheet1!$A$1:$C$5", Scope: "Workbook"}))
	must(f.SetDefinedName(&xl.DefinedName{Name: "Local9", RefersTo: "Data2!$A$1", Scope: "Data2"}))
	return f
}

func c07RunHooked(r *Run, f *xl.File, c *c07Case) {
	c.how = "hook"
	c.names = c07NamesInScope(f, c.sheet)
	got, isErr := c07Hook(f, c)
	c07Check(r, c, got, isErr)
}

// deterministic witnesses: known deviations and the shapes of TestAdjustFormula
func c07Witnesses(r *Run, f *xl.File) {
	ref := func(sheet string, fq bool, shape, c1, r1, c2, r2 int) *c07Node {
		return &c07Node{kind: "ref", ref: &c07Ref{sheet: sheet, forceQuote: fq, shape: shape, c1: c1, r1: r1, c2: c2, r2: r2}}
	}
	sum := func(k ...*c07Node) *c07Node { return &c07Node{kind: "fn", s: "SUM", kids: k} }
	ws := []struct {
		t      *c07Node
		sheetN string
		e      c07Edit
	}{
		{sum(&c07Node{kind: "isect", kids: []*c07Node{ref("", false, 1, 1, 3, 1, 5), ref("", false, 1, 1, 4, 2, 4)}}), "Sheet1", c07Edit{true, 3, 1}},
		{&c07Node{kind: "bin", s: "+", kids: []*c07Node{ref("Sheet1", true, 0, 1, 1, 0, 0), &c07Node{kind: "num", s: "1"}}}, "Data2", c07Edit{false, 1, 2}},
		{&c07Node{kind: "bin", s: "+", kids: []*c07Node{ref("Sheet_3", false, 0, 1, 1, 0, 0), ref("", false, 0, 1, 3, 0, 0)}}, "Sheet1", c07Edit{true, 3, 1}},
		{&c07Node{kind: "bin", s: "+", kids: []*c07Node{sum(&c07Node{kind: "array", s: "{1,2;3,4}"}), ref("", false, 0, 1, 3, 0, 0)}}, "Sheet1", c07Edit{true, 3, 1}},
		{ref("a!b", false, 0, 1, 3, 0, 0), "Sheet1", c07Edit{false, 1, 2}},
		{ref("2024", false, 0, 2, 2, 0, 0), "Sheet1", c07Edit{true, 1, 1}},
		{ref("FY24", false, 0, 2, 2, 0, 0), "Sheet1", c07Edit{true, 1, 1}},
		{ref("true", false, 1, 2, 2, 3, 4), "Sheet1", c07Edit{false, 1, 1}},
		{sum(ref("", false, 1, 1, 1, 1, 10)), "Sheet1", c07Edit{true, 5, -1}},
		{sum(ref("", false, 1, 1, 3, 1, 5)), "Sheet1", c07Edit{true, 3, -1}},
		{ref("", false, 0, 16384, 3, 0, 0), "Sheet1", c07Edit{false, 1, 1}},
		{ref("", false, 0, 1, 1048576, 0, 0), "Sheet1", c07Edit{true, 1, 1}},
	}
	for _, w := range ws {
		for _, sheet := range []string{"Sheet1", "a!b"} {
			if sheet == "a!b" && !strings.Contains(w.t.String(), "a!b") {
				continue
			}
			c := &c07Case{sheet: sheet, sheetN: w.sheetN, e: w.e, tree: w.t, formula: w.t.String()}
			c07RunHooked(r, f, c)
		}
	}
}

// systematic sweep: every reference shape x every $ combination x edit kinds x positions
// relative to each endpoint x prefix / formula-sheet variants x keepRelative
func c07Sweep(r *Run, f *xl.File, rng *Rng, thorough bool) {
	type pv struct {
		prefix, sheetN string
		fq            bool
	}
	variants := []pv{{"", "Sheet1", false}, {"", "Data2", false}, {"Sheet1", "Data2", false}, {"Sheet1", "Sheet1", true},
		{"My Sheet", "Sheet1", false}, {"O'Brien", "Sheet1", false}, {"Data2", "Sheet1", false}, {"Sheet1", "", false}}
	coords := [][4]int{{2, 3, 4, 6}, {26, 9, 27, 10}, {702, 99, 703, 100}, {16383, 1048575, 16384, 1048576}, {1, 1, 1, 1}, {4, 6, 2, 3}}
	if !thorough {
		coords = coords[:4]
	}
	for shape := 0; shape < 4; shape++ {
		nmask := 4
		if shape == 1 {
			nmask = 16
		}
		for mask := 0; mask < nmask; mask++ {
			for ci, co := range coords {
				for _, rows := range []bool{true, false} {
					if shape == 2 && rows && ci > 0 || shape == 3 && !rows && ci > 0 {
						continue
					}
					a, b := co[0], co[2]
					if rows {
						a, b = co[1], co[3]
					}
					var nums []int
					for _, n := range []int{1, a - 1, a, a + 1, b - 1, b, b + 1, b + 2} {
						if n >= 1 {
							nums = append(nums, n)
						}
					}
					for _, num := range nums {
						for _, off := range []int{1, 3, -1} {
							for vi, v := range variants {
								if !thorough && ci > 0 && vi > 2 && vi != 7 {
									continue
								}
								rf := &c07Ref{sheet: v.prefix, forceQuote: v.fq, shape: shape, c1: co[0], r1: co[1], c2: co[2], r2: co[3]}
								switch shape {
								case 0:
									rf.ac1, rf.ar1 = mask&1 != 0, mask&2 != 0
								case 1:
									rf.ac1, rf.ar1, rf.ac2, rf.ar2 = mask&1 != 0, mask&2 != 0, mask&4 != 0, mask&8 != 0
								case 2:
									rf.ac1, rf.ac2 = mask&1 != 0, mask&2 != 0
								case 3:
									rf.ar1, rf.ar2 = mask&1 != 0, mask&2 != 0
								}
								t := &c07Node{kind: "ref", ref: rf}
								c := &c07Case{sheet: "Sheet1", sheetN: v.sheetN, kr: v.sheetN == "", e: c07Edit{rows, num, off}, tree: t, formula: t.String()}
								c07RunHooked(r, f, c)
							}
						}
					}
				}
			}
		}
	}
	// all columns (thorough) / a stride (quick): X5 under a column insert at and after X
	step := 7
	if thorough {
		step = 1
	}
	for col := 1; col <= 16384; col += step {
		rf := &c07Ref{shape: 0, c1: col, r1: 5, ac1: col%2 == 0}
		t := &c07Node{kind: "ref", ref: rf}
		num := col
		if col%3 == 0 {
			num = col + 1
		}
		off := 1
		if col%5 == 0 && col > 1 {
			off, num = -1, col-1
		}
		c := &c07Case{sheet: "Sheet1", sheetN: "Sheet1", e: c07Edit{false, num, off}, tree: t, formula: t.String()}
		c07RunHooked(r, f, c)
	}
	r.Stat("sweep:done")
}

func c07Random(r *Run, f *xl.File, rng *Rng, n int) {
	g := &c07Gen{rng: rng, sheets: c07Sheets, names: []string{"TaxRate", "Block"}}
	for i := 0; i < n; i++ {
		t := g.tree(rng.Range(1, 4))
		formula := t.String()
		for k := 0; k < 4; k++ {
			c := &c07Case{tree: t, formula: formula, e: g.edit(t)}
			c.sheet = c07Sheets[0]
			if rng.Chance(30) {
				c.sheet = rng.Pick(c07Sheets)
			}
			c.sheetN = c.sheet
			if rng.Chance(40) {
				c.sheetN = rng.Pick(c07Sheets)
			}
			if rng.Chance(8) {
				c.kr, c.sheetN = true, ""
			}
			c07RunHooked(r, f, c)
		}
	}
}

var c07Malformed = []string{
	"A3 B3", "Sheet1!#REF!+A3", "#REF!+A3", "Rate1+A3", "Sheet1!A3:Sheet1!B4", "[1]Sheet1!A3", "A3:B4:C5", "SUM(A3 : B4)",
	"A3.5", "A3#", "@A3", "A3:A", "Tbl[Col]", "'a!b'!A3", "+A3", "=A3", " A3 ", "A3+", "SUM(A3", "SUM(A3))", "A03", "$A$03",
	"A3B4", "A$$3", "$$A3", "XFE1", "XFD1", "A1048577", "A99999999999999999999", "ZZZZZZZZZZZZZZ1", "!A3", "Sheet1!", "$", ":", "A:", ":3",
	"é3", "A3é", "SUM(Table1)", "A3:XFD3", "$XFD$1048576", "a1:b2", "Sheet1!a1", "1E+5+A3", "\"unterminated", "'unterminated", "{1,2", "A3}",
}

func c07RandMalformed(rng *Rng) string {
	const alpha = "AAB19$$::!! '\"(),+#[]{}ab0. %XFD"
	n := rng.Range(1, 12)
	var b strings.Builder
	for i := 0; i < n; i++ {
		if rng.Chance(25) {
			b.WriteString(rng.Pick([]string{"A1", "$B$2", "Sheet1!", "'My Sheet'!", "SUM(", "A:A", "1:1", "XFD1048576", "#REF!", "Data2!C3"}))
		} else {
			b.WriteByte(alpha[rng.Intn(len(alpha))])
		}
	}
	return b.String()
}

func c07MalformedStream(r *Run, f *xl.File, rng *Rng, n int) {
	run := func(s string) {
		for _, e := range []c07Edit{{true, 3, 1}, {true, 3, -1}, {false, 1, 2}, {false, 2, -1}} {
			c := &c07Case{sheet: "Sheet1", sheetN: "Sheet1", e: e, formula: s}
			if rng.Chance(15) {
				c.sheetN = "Data2"
			}
			if rng.Chance(10) {
				c.kr, c.sheetN = true, ""
			}
			c07RunHooked(r, f, c)
		}
	}
	for _, s := range c07Malformed {
		run(s)
	}
	for i := 0; i < n; i++ {
		run(c07RandMalformed(rng))
	}
}

// ---------------------------------------------------------------- real workbook: edit, read back, evaluate

type c07Cell struct {
	sheet      string
	col, row   int
	tree       *c07Node
	formula    string
	val        string
	valErr     bool
	noEval     bool
}

func c07Name(col, row int) string {
	s, err := xl.CoordinatesToCellName(col, row)
	must(err)
	return s
}

func c07Workbook(r *Run, rng *Rng, idx int) {
	sheets := []string{"Sheet1", "Data2", "My Sheet", "O'Brien", "2024's"}
	f := xl.NewFile()
	defer f.Close()
	for _, s := range sheets[1:] {
		_, err := f.NewSheet(s)
		must(err)
	}
	// data block A1:H12 on every sheet, distinct small integers
	for si, s := range sheets {
		for c := 1; c <= 8; c++ {
			for ro := 1; ro <= 12; ro++ {
				must(f.SetCellValue(s, c07Name(c, ro), (si+1)*1000+c*20+ro))
			}
		}
	}
	edited := sheets[rng.Intn(len(sheets))]
	if rng.Chance(50) {
		edited = "Sheet1"
	}
	// defined names, in workbook order: names that cannot be relocated by a column resp. row insert
	// (they already reach the last column / row) stand BEFORE names that can and that formulas use
	pfxE := c07Prefix(edited, c07NeedsQuote(edited))
	must(f.SetDefinedName(&xl.DefinedName{Name: "WideRow", RefersTo: pfxE + "$A$1:$XFD$1", Scope: "Workbook"}))
	must(f.SetDefinedName(&xl.DefinedName{Name: "TaxRate", RefersTo: pfxE + "$B$2", Scope: "Workbook"}))
	must(f.SetDefinedName(&xl.DefinedName{Name: "TallCol", RefersTo: pfxE + "$A$1:$A$1048576", Scope: "Workbook"}))
	must(f.SetDefinedName(&xl.DefinedName{Name: "Block", RefersTo: pfxE + "$A$3:$C$5", Scope: "Workbook"}))
	e := c07Edit{rows: rng.Bool()}
	if rng.Chance(80) {
		if e.rows {
			e.num = rng.Range(1, 14)
		} else {
			e.num = rng.Range(1, 10)
		}
	} else {
		e.num = rng.Range(15, 32)
	}
	e.off = -1
	if rng.Chance(55) {
		e.off = rng.Range(1, 3)
	}
	// the deleted row/column carries no data (so that "same result" is meaningful for ranges spanning it)
	if e.off < 0 {
		for c := 1; c <= 8; c++ {
			for ro := 1; ro <= 12; ro++ {
				if e.rows && ro == e.num || !e.rows && c == e.num {
					must(f.SetCellValue(edited, c07Name(c, ro), nil))
				}
			}
		}
	}
	g := &c07Gen{rng: rng, small: true, sheets: sheets, names: []string{"TaxRate", "Block"}, evalOnly: true}
	var cells []*c07Cell
	for _, s := range sheets {
		n := 6
		if s == edited {
			n = 12
		}
		for i := 0; i < n; i++ {
			t := g.tree(rng.Range(1, 3))
			cl := &c07Cell{sheet: s, col: 10 + i%4, row: 20 + i/4*2 + rng.Intn(2), tree: t, formula: t.String()}
			must(f.SetCellFormula(s, c07Name(cl.col, cl.row), cl.formula))
			cells = append(cells, cl)
		}
		// whole-row / whole-column references: rewritten text is checked, the value is not (cost)
		gw := &c07Gen{rng: rng, small: true, sheets: sheets}
		for i := 0; i < 3; i++ {
			rf := gw.ref()
			rf.shape = 2 + rng.Intn(2)
			t := &c07Node{kind: "fn", s: "SUM", kids: []*c07Node{{kind: "ref", ref: rf}}}
			cl := &c07Cell{sheet: s, col: 15 + i, row: 21 + rng.Intn(3), tree: t, formula: t.String(), noEval: true}
			must(f.SetCellFormula(s, c07Name(cl.col, cl.row), cl.formula))
			cells = append(cells, cl)
		}
	}
	// twin formulas: the SAME text on every sheet including the edited one (cells here, data-validation
	// rules in c07SpecialPlace): one with unqualified references only (means something different on
	// every sheet), one qualified with the edited sheet's name (means the same everywhere)
	var twins []*c07Node
	for k, gt := range []*c07Gen{{rng: rng, small: true, evalOnly: true}, {rng: rng, small: true, evalOnly: true, sheets: []string{edited}}} {
		var t *c07Node
		for try := 0; try < 50; try++ {
			t = gt.tree(rng.Range(1, 2))
			var ops []*c07Node
			t.operands(&ops)
			qualified := false
			for _, o := range ops {
				if o.kind == "ref" && o.ref.sheet != "" {
					qualified = true
				}
			}
			if len(ops) > 0 && (k == 0 || qualified) {
				break
			}
		}
		twins = append(twins, t)
		for _, s := range sheets {
			cl := &c07Cell{sheet: s, col: 14, row: 28 + k, tree: t, formula: t.String()}
			must(f.SetCellFormula(s, c07Name(cl.col, cl.row), cl.formula))
			cells = append(cells, cl)
		}
	}
	sp := c07SpecialPlace(r, f, rng, sheets, edited, idx, twins)
	calc := func(s, cell string) (v string, isErr bool) {
		defer func() {
			if p := recover(); p != nil {
				v, isErr = fmt.Sprintf("PANIC %v", p), true
			}
		}()
		v, err := f.CalcCellValue(s, cell)
		return v, err != nil
	}
	for _, cl := range cells {
		if !cl.noEval {
			cl.val, cl.valErr = calc(cl.sheet, c07Name(cl.col, cl.row))
		}
	}
	namesBefore := map[string]string{}
	var nameOrder []string
	for _, d := range f.GetDefinedName() {
		namesBefore[d.Name] = d.RefersTo
		nameOrder = append(nameOrder, d.Name)
	}
	scopeBefore := c07NamesInScope(f, edited)
	var err error
	how := ""
	switch {
	case e.rows && e.off > 0:
		how, err = "InsertRows", f.InsertRows(edited, e.num, e.off)
	case e.rows:
		how, err = "RemoveRow", f.RemoveRow(edited, e.num)
	case e.off > 0:
		how, err = "InsertCols", f.InsertCols(edited, c07ColName(e.num, false), e.off)
	default:
		how, err = "RemoveCol", f.RemoveCol(edited, c07ColName(e.num, false))
	}
	desc := fmt.Sprintf("workbook %d: %s(%q, %d, %d)", idx, how, edited, e.num, e.off)
	if err != nil {
		r.Fail("workbook:edit-error", desc+": "+err.Error(), 0, "# "+desc)
		return
	}
	r.Stat("workbook:" + how)
	for _, cl := range cells {
		col, row := cl.col, cl.row
		if cl.sheet == edited {
			var ok bool
			if e.rows {
				row, ok = c07ShiftIdx(e, row)
			} else {
				col, ok = c07ShiftIdx(e, col)
			}
			if !ok {
				r.Stat("workbook:formula-cell-deleted")
				continue
			}
		}
		name := c07Name(col, row)
		got, gerr := f.GetCellFormula(cl.sheet, name)
		c := &c07Case{sheet: edited, sheetN: cl.sheet, e: e, tree: cl.tree, formula: cl.formula, how: how, names: c07NamesInScope(f, edited)}
		c07Check(r, c, got, gerr != nil)
		// oracle 3: same value
		_, status := c07ShiftTree(cl.tree, edited, cl.sheet, e, false)
		usesName := cl.tree.has("name")
		if status != "" || cl.noEval {
			continue
		}
		v, verr := calc(cl.sheet, name)
		r.Stat("workbook:evaluated")
		if v != cl.val || verr != cl.valErr {
			if usesName && c07NameTouched(namesBefore, cl.tree, edited, e) {
				r.Stat("workbook:name-endpoint-deleted")
				continue
			}
			sig := "value:changed"
			r.Fail(sig, fmt.Sprintf("%s: %s!%s formula %q evaluated to %q (err=%v) before and, as %q at %s, to %q (err=%v) after", desc, cl.sheet, c07Name(cl.col, cl.row), cl.formula, cl.val, cl.valErr, got, name, v, verr), 0,
				"# "+desc+"\n"+c.opLine("s"))
		}
	}
	// defined names are rewritten with keepRelative. Transcript op `dn`: the whole list in workbook order
	// against Impl.adjustDefinedNames (a name whose rewrite fails keeps its text; the others are rewritten)
	{
		after := f.GetDefinedName()
		if len(after) == len(nameOrder) {
			var b strings.Builder
			fmt.Fprintf(&b, "dn %s %d %d %s %s", e.dir(), e.num, e.off, hx(edited), c07NamesField(scopeBefore))
			res := make([]string, len(after))
			for i, d := range after {
				orig := namesBefore[nameOrder[i]]
				b.WriteString(" | " + hx(orig) + c07TokWire(c07Tokens(orig)))
				res[i] = hx(d.RefersTo)
			}
			r.Op(b.String(), strings.Join(res, ","))
		}
	}
	for _, d := range f.GetDefinedName() {
		orig := namesBefore[d.Name]
		toks := c07Tokens(orig)
		if len(toks) != 1 {
			continue
		}
		t := c07ParseSimpleRef(orig)
		if t == nil {
			continue
		}
		c := &c07Case{sheet: edited, sheetN: "", kr: true, e: e, tree: t, formula: orig, how: how + ":definedName", names: c07NamesInScope(f, edited)}
		_, status := c07ShiftTree(t, edited, "", e, true)
		if status != "" {
			r.Stat("workbook:name-" + status)
		}
		if status == "grid" {
			// the reference cannot be relocated (it would leave the grid): adjustDefinedNames keeps the old
			// text of THIS name and goes on with the next one
			if d.RefersTo != orig {
				r.Fail("definedName:unadjustable-changed", fmt.Sprintf("%s: defined name %s = %q cannot be relocated but became %q", desc, d.Name, orig, d.RefersTo), 0, "# "+desc+"\n"+c.opLine("s"))
			}
			continue
		}
		c.note = fmt.Sprintf("%s; defined name %s (names in workbook order: %s)", desc, d.Name, strings.Join(nameOrder, ", "))
		c07Check(r, c, d.RefersTo, false)
	}
	c07SpecialCheck(r, f, sp, edited, e, how, desc)
}

// does the formula use a defined name one of whose endpoints is deleted by the edit? (then its value
// may legitimately change)
func c07NameTouched(before map[string]string, tree *c07Node, edited string, e c07Edit) bool {
	var ops []*c07Node
	tree.operands(&ops)
	for _, o := range ops {
		if o.kind != "name" {
			continue
		}
		if t := c07ParseSimpleRef(before[o.s]); t != nil {
			if _, st := c07ShiftTree(t, edited, "", e, true); st == "deleted" {
				return true
			}
		}
	}
	return false
}

// parse the defined-name texts this harness writes: [prefix!]$A$1[:$B$2]
func c07ParseSimpleRef(s string) *c07Node {
	rf := &c07Ref{}
	cell := s
	if i := strings.LastIndex(s, "!"); i >= 0 {
		p := s[:i]
		cell = s[i+1:]
		if strings.HasPrefix(p, "'") && strings.HasSuffix(p, "'") && len(p) >= 2 {
			p = strings.ReplaceAll(p[1:len(p)-1], "''", "'")
			rf.forceQuote = !c07NeedsQuote(p)
		}
		rf.sheet = p
	}
	parts := strings.Split(cell, ":")
	one := func(t string) (int, int, bool) {
		if strings.Count(t, "$") != 2 {
			return 0, 0, false
		}
		c, ro, err := xl.CellNameToCoordinates(strings.ReplaceAll(t, "$", ""))
		return c, ro, err == nil
	}
	var ok bool
	switch len(parts) {
	case 1:
		rf.shape = 0
		rf.c1, rf.r1, ok = one(parts[0])
		rf.ac1, rf.ar1 = true, true
	case 2:
		rf.shape = 1
		var ok2 bool
		rf.c1, rf.r1, ok = one(parts[0])
		rf.c2, rf.r2, ok2 = one(parts[1])
		ok = ok && ok2
		rf.ac1, rf.ar1, rf.ac2, rf.ar2 = true, true, true, true
	}
	if !ok {
		return nil
	}
	return &c07Node{kind: "ref", ref: rf}
}

// ---------------------------------------------------------------- entry

func c07Replay(r *Run, path string) {
	f := c07NewFile()
	defer f.Close()
	for _, line := range readLines(path) {
		w := strings.Fields(line)
		if len(w) == 0 || strings.HasPrefix(line, "#") {
			continue
		}
		switch w[0] {
		case "adj":
			if len(w) < 10 {
				continue
			}
			num, _ := strconv.Atoi(w[4])
			off, _ := strconv.Atoi(w[5])
			c := &c07Case{sheet: unhx(w[6]), sheetN: unhx(w[7]), kr: w[2] == "1", e: c07Edit{w[3] == "r", num, off}, formula: unhx(w[8]), how: "hook"}
			// names: register those of the line that the default file lacks
			if w[9] != "-" {
				for _, h := range strings.Split(w[9], ",") {
					c.names = append(c.names, unhx(h))
				}
			}
			got, isErr := c07Hook(f, c)
			res := "ok " + hx(got)
			if isErr {
				res = "ERR " + hx(got)
			}
			// replay re-executes the implementation and reports what it does now; the
			// spec field is recomputed by the Lean driver only
			fmt.Fprintf(os.Stderr, "replay: %q sheet=%q sheetN=%q edit=%+v kr=%v -> %s %q\n", c.formula, c.sheet, c.sheetN, c.e, c.kr, res[:3], got)
			r.Op(c.opLine("m"), res)
			r.Case("replay:"+line, true)
		case "esc":
			if len(w) == 2 {
				r.Op(line, hx(xl.VerifC07EscapeSheetName(unhx(w[1]))))
			}
		}
	}
}

func runC07(r *Run, rng *Rng, replay string) {
	r.Rule = "a case is non-trivial when every reference stays in the grid with no endpoint deleted, the implementation returned no error and the rewritten formula differs from the original (at least one reference actually moved)"
	if replay != "" {
		c07Replay(r, replay)
		return
	}
	thorough := r.Tier == "thorough"
	f := c07NewFile()
	defer f.Close()
	for _, s := range append([]string{"", "A1", "Sheet 1", "a'b", "''", "x!y", "Sheet_1", "S.1", "1", "Büro", "A-B"}, c07Sheets...) {
		r.Op("esc "+hx(s), hx(xl.VerifC07EscapeSheetName(s)))
	}
	c07Witnesses(r, f)
	c07Sweep(r, f, rng, thorough)
	nRandom, nMal, nWb := 2500, 600, 60
	if thorough {
		nRandom, nMal, nWb = 40000, 8000, 800
	}
	c07Random(r, f, rng, nRandom)
	c07MalformedStream(r, f, rng, nMal)
	c07SharedWitness(r)
	c07RangeOrder(r, rng, thorough)
	c07SharedText(r, rng, thorough)
	for i := 0; i < nWb; i++ {
		t0 := time.Now()
		c07Workbook(r, rng, i)
		if d := time.Since(t0); d > 2*time.Second {
			r.Notes = append(r.Notes, fmt.Sprintf("workbook %d took %v", i, d))
			fmt.Fprintf(os.Stderr, "c07: workbook %d took %v\n", i, d)
		}
	}
	r.Samples = r.opsSample(10)
}

// c07RangeOrder ties Spec.refCells (the row-major enumeration the range/aggregate theorems speak
// about) to calc.go's range resolution: every cell (col,row) of a block holds the text "col.row";
// TEXTJOIN(",",FALSE,<reference>) evaluated by the real CalcCellValue lists the cells in the order
// rangeResolver puts them into the argument matrix. Transcript op: cells <hex reference>.
func c07RangeOrder(r *Run, rng *Rng, thorough bool) {
	f := xl.NewFile()
	defer f.Close()
	for c := 1; c <= 9; c++ {
		for ro := 1; ro <= 13; ro++ {
			must(f.SetCellValue("Sheet1", c07Name(c, ro), fmt.Sprintf("%d.%d", c, ro)))
		}
	}
	run := func(rf *c07Ref) {
		text := rf.cellText()
		must(f.SetCellFormula("Sheet1", "M20", "TEXTJOIN(\",\",FALSE,"+text+")"))
		v, err := f.CalcCellValue("Sheet1", "M20")
		res := v
		if err != nil {
			res = "ERR"
		}
		r.Op("cells "+hx(text), res)
		r.Case("cells:"+text, rf.shape == 1)
		r.Stat("cells:evaluated")
	}
	n := 150
	if thorough {
		n = 1500
	}
	// all small rectangles at one corner, then random ones (normalised and reversed corners, $ flags)
	for c2 := 1; c2 <= 4; c2++ {
		for r2 := 1; r2 <= 4; r2++ {
			run(&c07Ref{shape: 1, c1: 2, r1: 3, c2: 2 + c2 - 1, r2: 3 + r2 - 1})
		}
	}
	for i := 0; i < n; i++ {
		rf := &c07Ref{shape: rng.Intn(2), c1: rng.Range(1, 9), r1: rng.Range(1, 13), c2: rng.Range(1, 9), r2: rng.Range(1, 13)}
		rf.ac1, rf.ar1, rf.ac2, rf.ar2 = rng.Bool(), rng.Bool(), rng.Bool(), rng.Bool()
		run(rf)
	}
}

// c07SharedText ties Impl.parseSharedFormula / shiftCell to the real code through the public API: a
// shared formula is set on J10 with a range that surrounds it, and GetCellFormula of a cell of that
// range returns the text derived for the offset (dCol,dRow) — negative offsets included. Transcript op:
// shf <dCol> <dRow> <tok>...
func c07SharedText(r *Run, rng *Rng, thorough bool) {
	sharedT, ref := xl.STCellFormulaTypeShared, "F6:N14"
	g := &c07Gen{rng: rng, sheets: []string{"Sheet1", "Data2"}, names: []string{"TaxRate"}}
	n := 250
	if thorough {
		n = 3000
	}
	fixed := []string{"A1", "$A$1", "A$1", "$A1", "A1:B2", "$A1:B$2", "A:B", "$A:B", "1:2", "$1:2", "C3:D", "XFD1048576", "XFA1048570:XFD1048576",
		"SUM(A1:A3)*\"a\"\"b\"", "A1 B2", "Sheet1!A1", "Sheet1!A1:B2", "TaxRate", "A1:B2:C3", "a1", "A01", "-A1%", "B2+{1,2;3,4}"}
	for i := 0; i < n+len(fixed); i++ {
		var formula string
		if i < len(fixed) {
			formula = fixed[i]
		} else {
			formula = g.tree(rng.Range(1, 3)).String()
		}
		f := xl.NewFile()
		if err := f.SetCellFormula("Sheet1", "J10", formula, xl.FormulaOpts{Type: &sharedT, Ref: &ref}); err != nil {
			f.Close()
			continue
		}
		for k := 0; k < 3; k++ {
			dc, dr := rng.Range(-4, 4), rng.Range(-4, 4)
			if i < len(fixed) && k == 0 {
				dc, dr = 2, 3
			}
			if dc == 0 && dr == 0 {
				continue
			}
			got, err := f.GetCellFormula("Sheet1", c07Name(10+dc, 10+dr))
			if err != nil {
				continue
			}
			r.Op(fmt.Sprintf("shf %d %d%s", dc, dr, c07TokWire(c07Tokens(formula))), hx(got))
			r.Case("shf:"+formula+fmt.Sprint(dc, dr), got != formula)
			r.Stat("shf:derived")
		}
		f.Close()
	}
}
