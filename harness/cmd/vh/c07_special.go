//go:build verif_c07

package main

// C07, real-workbook oracle, part 2: formulas that are not plain cell formulas.
//
//   * array formulas (SetCellFormula with Type=array, Ref=range) on the edited sheet and on other
//     sheets, operands on the edited sheet: the visible text of the master cell (F.Content), the
//     hidden per-cell transformed text (xlsxC.f, read through the hook VerifC07CellF — this is what
//     CalcCellValue evaluates) of every cell of the range, and CalcCellValue of every cell;
//   * shared formulas (Type=shared): GetCellFormula and CalcCellValue of every cell of the range;
//   * F.Ref of array/shared masters: must move with its own sheet only;
//   * data-validation formulas (list source, formula1/formula2, plain and XML-escaped), read back
//     with GetDataValidations, and the validation's own Sqref.
//
// Texts produced by the library (hidden array text, shared children) have no generator tree; they
// are turned into a flat tree by tokenising them (c07FlatTree), which is accepted only if it
// renders back to exactly the same text.

import (
	"archive/zip"
	"bytes"
	"fmt"
	"io"
	"regexp"
	"strconv"
	"strings"

	"github.com/xuri/efp"
	xl "github.com/xuri/excelize/v2"
)

var (
	c07ReCell = regexp.MustCompile(`^(\$?)([A-Z]{1,3})(\$?)([1-9][0-9]*)$`)
	c07ReCol  = regexp.MustCompile(`^(\$?)([A-Z]{1,3})$`)
	c07ReRow  = regexp.MustCompile(`^(\$?)([1-9][0-9]*)$`)
)

// c07ParseRefToken parses a canonical range-operand token value; nil when it is not one.
func c07ParseRefToken(tv string) *c07Ref {
	rf := &c07Ref{}
	cell := tv
	if i := strings.LastIndex(tv, "!"); i >= 0 {
		rf.sheet, cell = tv[:i], tv[i+1:]
		if rf.sheet == "" {
			return nil
		}
	}
	col := func(s string) int {
		n, err := xl.ColumnNameToNumber(s)
		if err != nil {
			return 0
		}
		return n
	}
	parts := strings.Split(cell, ":")
	switch len(parts) {
	case 1:
		m := c07ReCell.FindStringSubmatch(parts[0])
		if m == nil {
			return nil
		}
		rf.shape, rf.ac1, rf.c1, rf.ar1 = 0, m[1] != "", col(m[2]), m[3] != ""
		rf.r1, _ = strconv.Atoi(m[4])
	case 2:
		a, b := c07ReCell.FindStringSubmatch(parts[0]), c07ReCell.FindStringSubmatch(parts[1])
		ca, cb := c07ReCol.FindStringSubmatch(parts[0]), c07ReCol.FindStringSubmatch(parts[1])
		ra, rb := c07ReRow.FindStringSubmatch(parts[0]), c07ReRow.FindStringSubmatch(parts[1])
		switch {
		case a != nil && b != nil:
			rf.shape = 1
			rf.ac1, rf.c1, rf.ar1 = a[1] != "", col(a[2]), a[3] != ""
			rf.r1, _ = strconv.Atoi(a[4])
			rf.ac2, rf.c2, rf.ar2 = b[1] != "", col(b[2]), b[3] != ""
			rf.r2, _ = strconv.Atoi(b[4])
		case ca != nil && cb != nil:
			rf.shape, rf.ac1, rf.c1, rf.ac2, rf.c2 = 2, ca[1] != "", col(ca[2]), cb[1] != "", col(cb[2])
		case ra != nil && rb != nil:
			rf.shape, rf.ar1, rf.ar2 = 3, ra[1] != "", rb[1] != ""
			rf.r1, _ = strconv.Atoi(ra[2])
			rf.r2, _ = strconv.Atoi(rb[2])
		default:
			return nil
		}
	default:
		return nil
	}
	if (rf.shape != 3 && (rf.c1 < 1 || rf.shape != 0 && rf.c2 < 1)) || rf.r1 > 1048576 || rf.r2 > 1048576 {
		return nil
	}
	return rf
}

// c07FlatTree turns a formula text into a one-level tree (references, names, raw pieces). nil when
// the text has a token efp cannot classify or when the tree does not render back to the same text.
func c07FlatTree(text string) *c07Node {
	n := &c07Node{kind: "flat"}
	for _, t := range c07Tokens(text) {
		raw := func(s string) { n.kids = append(n.kids, &c07Node{kind: "raw", s: s}) }
		start := t.TSubType == efp.TokenSubTypeStart
		stop := t.TSubType == efp.TokenSubTypeStop
		group := t.TType == efp.TokenTypeFunction || t.TType == efp.TokenTypeSubexpression
		switch {
		case t.TType == efp.TokenTypeUnknown:
			return nil
		case c07IsRange(t):
			if rf := c07ParseRefToken(t.TValue); rf != nil {
				n.kids = append(n.kids, &c07Node{kind: "ref", ref: rf})
			} else {
				n.kids = append(n.kids, &c07Node{kind: "name", s: t.TValue})
			}
		case group && start:
			raw(t.TValue + "(")
		case group && stop:
			raw(t.TValue + ")")
		case t.TType == efp.TokenTypeOperand && t.TSubType == efp.TokenSubTypeText:
			raw(`"` + strings.ReplaceAll(t.TValue, `"`, `""`) + `"`)
		case t.TType == efp.TokenTypeOperatorInfix && t.TSubType == efp.TokenSubTypeIntersection:
			raw(" ")
		default:
			raw(t.TValue)
		}
	}
	if n.String() != text {
		return nil
	}
	return n
}

// c07DeriveShared mirrors getSharedFormula/shiftCell: the text a shared-formula child at offset
// (dCol,dRow) from its master gets from the master's text (only unprefixed references move, each
// cell part by its own `$` flags). Used only to *classify* a deviation.
func c07DeriveShared(master string, dCol, dRow int) string {
	t := c07FlatTree(master)
	if t == nil {
		return ""
	}
	for _, k := range t.kids {
		if k.kind != "ref" || k.ref.shape > 1 {
			continue
		}
		q := *k.ref
		mv := func(c, r *int, ac, ar bool) {
			if !ac {
				*c += dCol
			}
			if !ar {
				*r += dRow
			}
		}
		// shiftCell splits the token at ":" and fails to read a part that carries a sheet prefix:
		// with a prefix the first part stays, the second part of a range still moves
		if q.sheet == "" {
			mv(&q.c1, &q.r1, q.ac1, q.ar1)
		}
		if q.shape == 1 {
			mv(&q.c2, &q.r2, q.ac2, q.ar2)
		}
		if q.c1 < 1 || q.r1 < 1 || q.shape == 1 && (q.c2 < 1 || q.r2 < 1) {
			return ""
		}
		k.ref = &q
	}
	return t.String()
}

type c07Obs struct {
	sheet      string
	col, row   int
	kind       string // arrayCell | sharedChild
	text       string // the text that is evaluated, before the edit
	val        string
	valErr     bool
	mcol, mrow int // master cell
}

type c07Master struct {
	sheet    string
	col, row int
	kind     string // array | shared
	ref      [4]int // F.Ref before the edit
	tree     *c07Node
	formula  string
}

type c07DV struct {
	sheet  string
	idx    int
	count  int // validations on the sheet before the edit
	trees  [2]*c07Node
	before [2]string
	raw    [2]string // the XML content as stored (possibly escaped)
	sqref  [4]int
}

type c07Special struct {
	obs     []*c07Obs
	masters []*c07Master
	dvs     []*c07DV
}

func c07Calc(f *xl.File, s, cell string) (v string, isErr bool) {
	defer func() {
		if p := recover(); p != nil {
			v, isErr = fmt.Sprintf("PANIC %v", p), true
		}
	}()
	v, err := f.CalcCellValue(s, cell)
	return v, err != nil
}

func c07RangeName(q [4]int) string {
	return c07Name(q[0], q[1]) + ":" + c07Name(q[2], q[3])
}

// where a rectangle goes when its own sheet is edited; ok=false when an endpoint is deleted
func c07ShiftRect(e c07Edit, q [4]int) ([4]int, bool) {
	var ok1, ok2 bool
	if e.rows {
		q[1], ok1 = c07ShiftIdx(e, q[1])
		q[3], ok2 = c07ShiftIdx(e, q[3])
	} else {
		q[0], ok1 = c07ShiftIdx(e, q[0])
		q[2], ok2 = c07ShiftIdx(e, q[2])
	}
	return q, ok1 && ok2
}

func c07ShiftCellPos(e c07Edit, onEdited bool, col, row int) (int, int, bool) {
	if !onEdited {
		return col, row, true
	}
	ok := true
	if e.rows {
		row, ok = c07ShiftIdx(e, row)
	} else {
		col, ok = c07ShiftIdx(e, col)
	}
	return col, row, ok
}

func c07SpecialPlace(r *Run, f *xl.File, rng *Rng, sheets []string, edited string, idx int, twins []*c07Node) *c07Special {
	sp := &c07Special{}
	pfxOK := !c07NeedsQuote(edited) // library-produced texts carry unquoted prefixes
	holders := []string{edited}
	for _, s := range sheets {
		if s != edited && len(holders) < 3 && pfxOK {
			holders = append(holders, s)
		}
	}
	arrayT, sharedT := xl.STCellFormulaTypeArray, xl.STCellFormulaTypeShared
	flags := func(rf *c07Ref) { rf.ac1, rf.ar1, rf.ac2, rf.ar2 = rng.Bool(), rng.Bool(), rng.Bool(), rng.Bool() }
	for _, s := range holders {
		prefix := func() string {
			if s == edited {
				if pfxOK && rng.Chance(30) {
					return edited
				}
				return ""
			}
			if rng.Chance(85) {
				return edited
			}
			return ""
		}
		// ---- array formulas
		for k := 0; k < 2; k++ {
			dims := [][2]int{{2, 1}, {3, 1}, {1, 2}, {1, 3}, {2, 2}}[rng.Intn(5)]
			h, w := dims[0], dims[1]
			rect := func() *c07Ref {
				rf := &c07Ref{sheet: prefix(), shape: 1}
				rf.c1, rf.r1 = rng.Range(1, 9-w), rng.Range(1, 13-h)
				rf.c2, rf.r2 = rf.c1+w-1, rf.r1+h-1
				flags(rf)
				return rf
			}
			x := &c07Node{kind: "ref", ref: rect()}
			var y *c07Node
			switch rng.Intn(4) {
			case 0:
				y = &c07Node{kind: "num", s: rng.Pick([]string{"2", "10", "0.5"})}
			case 1:
				rf := &c07Ref{sheet: prefix(), shape: 0, c1: rng.Range(1, 8), r1: rng.Range(1, 12)}
				flags(rf)
				y = &c07Node{kind: "ref", ref: rf}
			default:
				y = &c07Node{kind: "ref", ref: rect()}
			}
			t := &c07Node{kind: "bin", s: rng.Pick([]string{"+", "-", "*"}), kids: []*c07Node{x, y}}
			if rng.Chance(25) {
				t = &c07Node{kind: "bin", s: "+", kids: []*c07Node{t, {kind: "fn", s: "SUM", kids: []*c07Node{{kind: "ref", ref: rect()}}}}}
			}
			m := &c07Master{sheet: s, col: 20 + 3*k, row: 30 + rng.Intn(2), kind: "array", tree: t, formula: t.String()}
			m.ref = [4]int{m.col, m.row, m.col + w - 1, m.row + h - 1}
			ref := c07RangeName(m.ref)
			if err := f.SetCellFormula(s, c07Name(m.col, m.row), m.formula, xl.FormulaOpts{Type: &arrayT, Ref: &ref}); err != nil {
				r.Stat("special:array-set-error")
				continue
			}
			sp.masters = append(sp.masters, m)
			for c := m.ref[0]; c <= m.ref[2]; c++ {
				for ro := m.ref[1]; ro <= m.ref[3]; ro++ {
					hidden, _, _, _, found, _ := xl.VerifC07CellF(f, s, c07Name(c, ro))
					if !found || hidden == "" {
						r.Stat("special:array-cell-without-hidden-text")
						continue
					}
					sp.obs = append(sp.obs, &c07Obs{sheet: s, col: c, row: ro, kind: "arrayCell", text: hidden, mcol: m.col, mrow: m.row})
				}
			}
		}
		// ---- one shared formula
		{
			g := &c07Gen{rng: rng, small: true, evalOnly: true}
			if s != edited || pfxOK {
				g.sheets = []string{edited}
			}
			t := g.tree(rng.Range(1, 2))
			m := &c07Master{sheet: s, col: 27, row: 30 + rng.Intn(2), kind: "shared", tree: t, formula: t.String()}
			m.ref = [4]int{m.col, m.row, m.col, m.row + 3}
			if rng.Chance(35) {
				m.ref = [4]int{m.col, m.row, m.col + 2, m.row}
			}
			ref := c07RangeName(m.ref)
			if err := f.SetCellFormula(s, c07Name(m.col, m.row), m.formula, xl.FormulaOpts{Type: &sharedT, Ref: &ref}); err != nil {
				r.Stat("special:shared-set-error")
			} else {
				sp.masters = append(sp.masters, m)
				for c := m.ref[0]; c <= m.ref[2]; c++ {
					for ro := m.ref[1]; ro <= m.ref[3]; ro++ {
						txt, err := f.GetCellFormula(s, c07Name(c, ro))
						if err != nil || txt == "" {
							r.Stat("special:shared-child-without-text")
							continue
						}
						sp.obs = append(sp.obs, &c07Obs{sheet: s, col: c, row: ro, kind: "sharedChild", text: txt, mcol: m.col, mrow: m.row})
					}
				}
			}
		}
	}
	// ---- data validations: on the edited sheet and two other sheets (generator trees, so quoted
	// prefixes are fine). Per sheet: a list source; a two-formula rule (formula1 XML-escaped half of the
	// time); a two-formula rule holding the workbook's twin formula texts. The operator of the
	// two-formula rules cycles through every value including the ABSENT attribute (Excel omits
	// operator="between"), on the edited sheet and on other sheets.
	ops := []string{"", "between", "notBetween", "equal", "notEqual", "greaterThan", "lessThan", "greaterThanOrEqual", "lessThanOrEqual"}
	dvHolders := []string{edited}
	for _, s := range sheets {
		if s != edited && len(dvHolders) < 3 {
			dvHolders = append(dvHolders, s)
		}
	}
	for hi, s := range dvHolders {
		dref := func(shape int) *c07Node {
			rf := &c07Ref{shape: shape, c1: rng.Range(1, 6), r1: rng.Range(1, 9)}
			rf.c2, rf.r2 = rf.c1+rng.Intn(2), rf.r1+rng.Range(1, 3)
			flags(rf)
			if s != edited || rng.Chance(40) {
				rf.sheet = edited
				rf.forceQuote = rng.Chance(20)
			}
			if s != edited && rng.Chance(15) {
				rf.sheet = ""
			}
			return &c07Node{kind: "ref", ref: rf}
		}
		before, _ := f.GetDataValidations(s)
		base := len(before)
		var mine []*c07DV
		add := func(d *c07DV, dv *xl.DataValidation) {
			dv.Sqref = c07RangeName(d.sqref)
			if err := f.AddDataValidation(s, dv); err != nil {
				r.Stat("special:dv-set-error")
				return
			}
			d.idx = base + len(mine)
			mine = append(mine, d)
		}
		// list source
		d1 := &c07DV{sheet: s, sqref: [4]int{19, 40, 19, 42}}
		d1.trees[0] = dref(1)
		dv1 := xl.NewDataValidation(true)
		dv1.SetSqrefDropList(d1.trees[0].String())
		d1.raw = [2]string{d1.trees[0].String(), ""}
		add(d1, dv1)
		// formula1 / formula2 with an explicit, another or an absent operator
		d2 := &c07DV{sheet: s, sqref: [4]int{21, 40, 22, 41}}
		d2.trees[0] = &c07Node{kind: "bin", s: rng.Pick([]string{">", "<", "&", "+"}), kids: []*c07Node{dref(0), dref(0)}}
		d2.trees[1] = &c07Node{kind: "fn", s: "MAX", kids: []*c07Node{dref(1)}}
		f1 := d2.trees[0].String()
		if rng.Chance(50) {
			f1 = strings.NewReplacer("&", "&amp;", "<", "&lt;", ">", "&gt;").Replace(f1)
		}
		op2 := ops[(idx*2+hi)%len(ops)]
		d2.raw = [2]string{f1, d2.trees[1].String()}
		add(d2, &xl.DataValidation{AllowBlank: true, Type: "whole", Operator: op2, Formula1: f1, Formula2: d2.trees[1].String()})
		r.Stat("special:dv-operator:" + map[bool]string{true: "edited", false: "other"}[s == edited] + ":" + map[bool]string{true: "absent", false: op2}[op2 == ""])
		// the twin formula texts of this workbook (identical text on several sheets)
		if len(twins) == 2 {
			d3 := &c07DV{sheet: s, sqref: [4]int{24, 40, 24, 41}}
			d3.trees[0], d3.trees[1] = twins[0], twins[1]
			op3 := ops[(idx*2+hi+4)%len(ops)]
			d3.raw = [2]string{twins[0].String(), twins[1].String()}
			add(d3, &xl.DataValidation{AllowBlank: true, Type: "decimal", Operator: op3, Formula1: twins[0].String(), Formula2: twins[1].String()})
			r.Stat("special:dv-operator:" + map[bool]string{true: "edited", false: "other"}[s == edited] + ":" + map[bool]string{true: "absent", false: op3}[op3 == ""])
		}
		got, _ := f.GetDataValidations(s)
		if len(got) != base+len(mine) {
			r.Stat("special:dv-count-mismatch")
			continue
		}
		for _, d := range mine {
			d.before = [2]string{got[d.idx].Formula1, got[d.idx].Formula2}
			d.count = len(got)
			sp.dvs = append(sp.dvs, d)
		}
	}
	for _, o := range sp.obs {
		o.val, o.valErr = c07Calc(f, o.sheet, c07Name(o.col, o.row))
	}
	return sp
}

func c07FailCount(r *Run) map[string]int {
	m := map[string]int{}
	for k, v := range r.Stats {
		if strings.HasPrefix(k, "oracle_fail:") {
			m[k] = v
		}
	}
	return m
}

// c07CheckSig runs c07Check and returns the signature of the failure it recorded ("" = none).
func c07CheckSig(r *Run, c *c07Case, got string, gotErr bool) string {
	before := c07FailCount(r)
	c07Check(r, c, got, gotErr)
	for k, v := range r.Stats {
		if strings.HasPrefix(k, "oracle_fail:") && v > before[k] {
			return strings.TrimPrefix(k, "oracle_fail:")
		}
	}
	return ""
}

func c07SpecialCheck(r *Run, f *xl.File, sp *c07Special, edited string, e c07Edit, how, desc string) {
	names := c07NamesInScope(f, edited)
	// ---- masters: visible text of array masters, F.Ref of both kinds
	for _, m := range sp.masters {
		col, row, ok := c07ShiftCellPos(e, m.sheet == edited, m.col, m.row)
		if !ok {
			r.Stat("special:master-deleted")
			continue
		}
		cell := c07Name(col, row)
		if m.kind == "array" {
			got, gerr := f.GetCellFormula(m.sheet, cell)
			c := &c07Case{sheet: edited, sheetN: m.sheet, e: e, tree: m.tree, formula: m.formula, how: how + ":arrayMaster", names: names}
			c07Check(r, c, got, gerr != nil)
		}
		_, typAfter, refAfter, _, found, _ := xl.VerifC07CellF(f, m.sheet, cell)
		want, wok := m.ref, true
		if m.sheet == edited {
			want, wok = c07ShiftRect(e, m.ref)
		}
		if found && m.kind == "shared" {
			// repaired behaviour: shared formulas (of every sheet) are expanded into ordinary ones
			r.Stat("special:shared-expanded-checked")
			if typAfter != "" || refAfter != "" {
				r.Fail("fref:shared-not-expanded", fmt.Sprintf("%s: shared formula %s!%s is still shared after the edit (t=%q ref=%q)", desc, m.sheet, c07Name(m.col, m.row), typAfter, refAfter), 0,
					fmt.Sprintf("# %s\n# shared formula %q at %s!%s Ref %s", desc, m.formula, m.sheet, c07Name(m.col, m.row), c07RangeName(m.ref)))
			}
			continue
		}
		if !found || !wok {
			r.Stat("special:fref-endpoint-deleted")
			continue
		}
		r.Stat("special:fref-checked")
		if refAfter != c07RangeName(want) {
			sig := "fref:not-moved-with-own-sheet"
			if m.sheet != edited {
				sig = "fref:moved-with-another-sheet"
			}
			r.Fail(sig, fmt.Sprintf("%s: %s formula on %s!%s: F.Ref %s became %q, expected %s", desc, m.kind, m.sheet, c07Name(m.col, m.row), c07RangeName(m.ref), refAfter, c07RangeName(want)), 0,
				fmt.Sprintf("# %s\n# %s formula %q at %s!%s Ref %s", desc, m.kind, m.formula, m.sheet, c07Name(m.col, m.row), c07RangeName(m.ref)))
		}
	}
	// ---- every cell of the array / shared ranges: evaluated text and value
	for _, o := range sp.obs {
		col, row, ok := c07ShiftCellPos(e, o.sheet == edited, o.col, o.row)
		if !ok {
			r.Stat("special:formula-cell-deleted")
			continue
		}
		cell := c07Name(col, row)
		tree := c07FlatTree(o.text)
		if tree == nil {
			r.Stat("special:text-not-flat:" + o.kind)
			continue
		}
		c := &c07Case{sheet: edited, sheetN: o.sheet, e: e, tree: tree, formula: o.text, how: how + ":" + o.kind, names: names,
			note: fmt.Sprintf("%s; %s %s!%s of the formula at %s!%s (the line below replays only the text rewrite of this cell's formula)", desc, o.kind, o.sheet, c07Name(o.col, o.row), o.sheet, c07Name(o.mcol, o.mrow))}
		var got string
		var gerr error
		if o.kind == "arrayCell" {
			var found bool
			got, _, _, _, found, gerr = xl.VerifC07CellF(f, o.sheet, cell)
			if !found {
				got = ""
			}
		} else {
			// since the repair every cell of a shared range is an ordinary formula rewritten by
			// adjustFormulaRef: its before/after texts go to the transcript like any other formula
			got, gerr = f.GetCellFormula(o.sheet, cell)
			mc, mr, mok := c07ShiftCellPos(e, o.sheet == edited, o.mcol, o.mrow)
			if !mok {
				c.masterGone = true
			} else if mt, err := f.GetCellFormula(o.sheet, c07Name(mc, mr)); err == nil {
				c.derived = c07DeriveShared(mt, col-mc, row-mr)
			}
		}
		sig := c07CheckSig(r, c, got, gerr != nil)
		r.Stat("special:" + o.kind)
		_, status := c07ShiftTree(tree, edited, o.sheet, e, false)
		if status != "" {
			continue
		}
		if strings.Contains(sig, "shared-") {
			r.Stat("special:value-skipped-known-shared-deviation")
			continue
		}
		v, verr := c07Calc(f, o.sheet, cell)
		r.Stat("special:evaluated:" + o.kind)
		if v != o.val || verr != o.valErr {
			r.Fail("value:changed", fmt.Sprintf("%s: %s %s!%s evaluates %q: %q (err=%v) before and, as %q at %s, %q (err=%v) after", desc, o.kind, o.sheet, c07Name(o.col, o.row), o.text, o.val, o.valErr, got, cell, v, verr), 0,
				"# "+desc+"\n# "+o.kind+" of the formula at "+o.sheet+"!"+c07Name(o.mcol, o.mrow)+"\n"+c.opLine("s"))
		}
	}
	// ---- data validations
	for _, d := range sp.dvs {
		after, err := f.GetDataValidations(d.sheet)
		if err != nil || len(after) != d.count {
			// a validation whose whole Sqref was deleted is dropped: positions no longer correspond
			r.Stat("special:dv-dropped-with-its-sqref")
			continue
		}
		a := after[d.idx]
		for k, got := range []string{a.Formula1, a.Formula2} {
			if d.trees[k] == nil {
				continue
			}
			if d.before[k] != d.trees[k].String() {
				r.Stat("special:dv-readback-differs-from-tree")
				continue
			}
			c := &c07Case{sheet: edited, sheetN: d.sheet, e: e, tree: d.trees[k], formula: d.before[k], how: how + ":dataValidation", names: names}
			c07Check(r, c, got, false)
		}
		want, wok := d.sqref, true
		if d.sheet == edited {
			want, wok = c07ShiftRect(e, d.sqref)
		}
		if wok {
			ws := c07RangeName(want)
			if want[0] == want[2] && want[1] == want[3] {
				ws = c07Name(want[0], want[1])
			}
			if a.Sqref != ws && a.Sqref != c07RangeName(want) {
				r.Fail("dv:sqref", fmt.Sprintf("%s: data validation on %s: Sqref %s became %q, expected %s", desc, d.sheet, c07RangeName(d.sqref), a.Sqref, ws), 0, "# "+desc)
			}
		}
	}
	// ---- the stored (XML-escaped) text of the data-validation formulas: read from the saved package
	// and compared with Impl.adjustDV (unescape -> adjustFormulaRef -> escape); transcript op dvw
	if len(sp.dvs) > 0 {
		raws := c07RawDVFormulas(f)
		for _, d := range sp.dvs {
			after, ok := raws[d.sheet]
			if !ok || len(after) != d.count {
				r.Stat("special:dv-raw-unavailable")
				continue
			}
			for k := 0; k < 2; k++ {
				if d.raw[k] == "" {
					continue
				}
				unesc := strings.NewReplacer("&amp;", "&", "&lt;", "<", "&gt;", ">").Replace(d.raw[k])
				r.Op(fmt.Sprintf("dvw %s %d %d %s %s %s %s%s", e.dir(), e.num, e.off, hx(edited), hx(d.sheet), hx(d.raw[k]),
					c07NamesField(names), c07TokWire(c07Tokens(unesc))), "ok "+hx(after[d.idx][k]))
				r.Stat("special:dv-raw-checked")
			}
		}
	}
}

var (
	c07ReDV = regexp.MustCompile(`(?s)<dataValidation\b[^>]*?(/>|>(.*?)</dataValidation>)`)
	c07ReF1 = regexp.MustCompile(`(?s)<formula1>(.*?)</formula1>`)
	c07ReF2 = regexp.MustCompile(`(?s)<formula2>(.*?)</formula2>`)
)

// c07RawDVFormulas saves the workbook to memory and extracts, per sheet, the raw content of
// <formula1>/<formula2> of every <dataValidation> in document order.
func c07RawDVFormulas(f *xl.File) map[string][][2]string {
	out := map[string][][2]string{}
	buf, err := f.WriteToBuffer()
	if err != nil {
		return out
	}
	zr, err := zip.NewReader(bytes.NewReader(buf.Bytes()), int64(buf.Len()))
	if err != nil {
		return out
	}
	for id, name := range f.GetSheetMap() {
		for _, zf := range zr.File {
			if zf.Name != fmt.Sprintf("xl/worksheets/sheet%d.xml", id) {
				continue
			}
			rc, err := zf.Open()
			if err != nil {
				continue
			}
			data, _ := io.ReadAll(rc)
			rc.Close()
			var list [][2]string
			for _, m := range c07ReDV.FindAllStringSubmatch(string(data), -1) {
				var p [2]string
				if g := c07ReF1.FindStringSubmatch(m[2]); g != nil {
					p[0] = g[1]
				}
				if g := c07ReF2.FindStringSubmatch(m[2]); g != nil {
					p[1] = g[1]
				}
				list = append(list, p)
			}
			out[name] = list
		}
	}
	return out
}

// c07SharedWitness reproduces, on every run, the open finding about shared formulas: children are
// derived from the master at read time, so a child whose own references straddle the edit point
// differently from the master's is not relocated (and a child loses its formula when the master's
// row is removed).
func c07SharedWitness(r *Run) {
	for _, w := range []struct {
		e   c07Edit
		how string
	}{{c07Edit{true, 5, 1}, "InsertRows"}, {c07Edit{true, 20, -1}, "RemoveRow"}} {
		f := xl.NewFile()
		for c := 1; c <= 4; c++ {
			for ro := 1; ro <= 12; ro++ {
				must(f.SetCellValue("Sheet1", c07Name(c, ro), c*100+ro))
			}
		}
		sharedT, ref := xl.STCellFormulaTypeShared, "J20:J27"
		must(f.SetCellFormula("Sheet1", "J20", "B1*2", xl.FormulaOpts{Type: &sharedT, Ref: &ref}))
		sp := &c07Special{}
		for ro := 20; ro <= 27; ro++ {
			txt, _ := f.GetCellFormula("Sheet1", c07Name(10, ro))
			o := &c07Obs{sheet: "Sheet1", col: 10, row: ro, kind: "sharedChild", text: txt, mcol: 10, mrow: 20}
			o.val, o.valErr = c07Calc(f, "Sheet1", c07Name(10, ro))
			sp.obs = append(sp.obs, o)
		}
		var err error
		if w.e.off > 0 {
			err = f.InsertRows("Sheet1", w.e.num, w.e.off)
		} else {
			err = f.RemoveRow("Sheet1", w.e.num)
		}
		must(err)
		c07SpecialCheck(r, f, sp, "Sheet1", w.e, w.how, fmt.Sprintf("shared-formula witness: J20:J27 = B1*2 shared, %s(Sheet1, %d)", w.how, w.e.num))
		f.Close()
	}
}
