//go:build verif_c08

package main

// C08 — formula evaluator: operator, reference and coercion semantics.
//
// Transcript ops (see lean/XlModel/Drv/C08.lean):
//   reset                                   new workbook
//   cell <key> b | n <bits> | s <hex> | t <0|1> | f <tokens> | <tree>
//   ev <tokens> | <tree> [| tol <bits>]     main formula (Sheet1!Z9)
//   evt <tokens> | F:<formula hex>          malformed / free-form formula: machine only
//
// <tokens> are produced by the real efp tokenizer from the formula text the
// harness renders from <tree>; the Lean driver checks that its own `render`
// of the tree yields exactly these tokens, runs the model of the shunting-yard
// machine on them (Impl), the structural evaluator and the Excel reference
// evaluator (Spec) on the tree. The Go side prints the raw evaluator result
// (hook VerifC08Calc) and the result of the harness's own independent
// reference evaluator.
//
// Direct oracle (independent of the Lean model): CalcCellValue(RawCellValue)
// must equal the reference evaluator's value (numbers to 1e-12 relative, text,
// booleans and error codes exactly). A failing case gets the signature of the
// first operator/operand-kind combination (post-order) known to deviate.

import (
	"encoding/hex"
	"fmt"
	"math"
	"strconv"
	"strings"

	"github.com/xuri/efp"
	xl "github.com/xuri/excelize/v2"
)

func init() { props["C08"] = runC08 }

// ---------------------------------------------------------------- trees

type c08Node struct {
	ArgN  []int    // for G: number of cells of each range argument (nil = one argument)
	Keys  []string // for G: the cells of the range arguments, row-major, in argument order
	Kind  string // N X L R G neg pct par bin
	S     string // literal text / key
	Spell string // for R: spelling in the formula
	Op    string // for bin
	A, B  *c08Node
}

var c08Ops = []string{"pow", "mul", "div", "add", "sub", "cat", "eq", "ne", "lt", "le", "gt", "ge"}
var c08Sym = map[string]string{"pow": "^", "mul": "*", "div": "/", "add": "+", "sub": "-", "cat": "&", "eq": "=", "ne": "<>", "lt": "<", "le": "<=", "gt": ">", "ge": ">="}
var c08Lvl = map[string]int{"pow": 5, "mul": 4, "div": 4, "add": 3, "sub": 3, "cat": 2, "eq": 1, "ne": 1, "lt": 1, "le": 1, "gt": 1, "ge": 1}

func (n *c08Node) level() int {
	switch n.Kind {
	case "neg":
		return 6
	case "pct":
		return 7
	case "bin":
		return c08Lvl[n.Op]
	}
	return 8
}

// c08Render: formula text with the minimal parentheses Excel's precedence needs.
func c08Render(n *c08Node, p int, sp bool) string {
	wrap := func(need bool, s string) string {
		if need {
			return "(" + s + ")"
		}
		return s
	}
	switch n.Kind {
	case "N", "L":
		return n.S
	case "X":
		return `"` + strings.ReplaceAll(n.S, `"`, `""`) + `"`
	case "R":
		return n.Spell
	case "G":
		return n.Op + "(" + n.Spell + ")"
	case "D":
		return n.S
	case "neg":
		return wrap(6 < p, "-"+c08Render(n.A, 6, sp))
	case "pct":
		return wrap(7 < p, c08Render(n.A, 7, sp)+"%")
	case "par":
		return "(" + c08Render(n.A, 1, sp) + ")"
	case "bin":
		l := c08Lvl[n.Op]
		mid := c08Sym[n.Op]
		if sp {
			mid = " " + mid + " "
		}
		return wrap(l < p, c08Render(n.A, l, sp)+mid+c08Render(n.B, l+1, sp))
	}
	return "?"
}

func c08TreeEnc(n *c08Node, sb *strings.Builder) {
	if sb.Len() > 0 {
		sb.WriteByte(' ')
	}
	switch n.Kind {
	case "N", "X", "L":
		sb.WriteString(n.Kind + ":" + hx(n.S))
	case "R":
		sb.WriteString("R:" + hx(n.S) + ":" + hx(n.Spell))
	case "D":
		sb.WriteString("D:" + hx(n.S) + ":" + hx(n.Spell))
	case "G":
		sb.WriteString("G:" + n.Op + ":" + hx(n.Spell) + ":" + hx(strings.Join(n.Keys, ",")))
		if len(n.ArgN) > 1 {
			var sz []string
			for _, k := range n.ArgN {
				sz = append(sz, strconv.Itoa(k))
			}
			sb.WriteString(":" + hx(strings.Join(sz, ",")))
		}
	case "neg", "pct", "par":
		sb.WriteString(n.Kind)
		c08TreeEnc(n.A, sb)
	case "bin":
		sb.WriteString("b:" + n.Op)
		c08TreeEnc(n.A, sb)
		c08TreeEnc(n.B, sb)
	}
}

func c08TreeDec(w []string) (*c08Node, []string, bool) {
	if len(w) == 0 {
		return nil, nil, false
	}
	h, rest := w[0], w[1:]
	switch h {
	case "neg", "pct", "par":
		a, r, ok := c08TreeDec(rest)
		return &c08Node{Kind: h, A: a}, r, ok
	}
	parts := strings.Split(h, ":")
	if len(parts) < 2 {
		return nil, nil, false
	}
	switch parts[0] {
	case "b":
		a, r1, ok1 := c08TreeDec(rest)
		if !ok1 {
			return nil, nil, false
		}
		b, r2, ok2 := c08TreeDec(r1)
		return &c08Node{Kind: "bin", Op: parts[1], A: a, B: b}, r2, ok2 && c08Sym[parts[1]] != ""
	case "N", "X", "L":
		return &c08Node{Kind: parts[0], S: c08unhx(parts[1])}, rest, true
	case "D":
		if len(parts) < 3 {
			return nil, nil, false
		}
		return &c08Node{Kind: "D", S: c08unhx(parts[1]), Spell: c08unhx(parts[2])}, rest, true
	case "G":
		if len(parts) < 4 {
			return nil, nil, false
		}
		g := &c08Node{Kind: "G", Op: parts[1], Spell: c08unhx(parts[2]), Keys: strings.Split(c08unhx(parts[3]), ",")}
		if len(parts) > 4 {
			for _, x := range strings.Split(c08unhx(parts[4]), ",") {
				k, _ := strconv.Atoi(x)
				g.ArgN = append(g.ArgN, k)
			}
		}
		return g, rest, true
	case "R":
		sp := ""
		if len(parts) > 2 {
			sp = c08unhx(parts[2])
		}
		return &c08Node{Kind: "R", S: c08unhx(parts[1]), Spell: sp}, rest, true
	}
	return nil, nil, false
}

func c08unhx(s string) string {
	if s == "-" {
		return ""
	}
	b, err := hex.DecodeString(s)
	if err != nil {
		return ""
	}
	return string(b)
}

// c08Unquote: the TValue efp produces for a reference with a quoted sheet name
func c08Unquote(sp string) string {
	if strings.HasPrefix(sp, "'") {
		if i := strings.LastIndex(sp, "'!"); i > 0 {
			return strings.ReplaceAll(sp[1:i], "''", "'") + sp[i+1:]
		}
	}
	return sp
}

func c08Refs(n *c08Node, m map[string]string) {
	if n == nil {
		return
	}
	if n.Kind == "R" {
		m[n.Spell] = n.S
	}
	if n.Kind == "D" {
		m[n.S] = "@D:" + n.Spell // a defined name used on that sheet: the model does the lookup
	}
	c08Refs(n.A, m)
	c08Refs(n.B, m)
}

// c08Tokens: real efp tokenisation of the formula, encoded for the protocol.
func c08Tokens(formula string, spell map[string]string) (string, int) {
	ps := efp.ExcelParser()
	toks := ps.Parse(formula)
	var out []string
	for _, t := range toks {
		switch {
		case t.TType == efp.TokenTypeOperand && t.TSubType == efp.TokenSubTypeNumber:
			out = append(out, "n:"+hx(t.TValue))
		case t.TType == efp.TokenTypeOperand && t.TSubType == efp.TokenSubTypeText:
			out = append(out, "x:"+hx(t.TValue))
		case t.TType == efp.TokenTypeOperand && t.TSubType == efp.TokenSubTypeLogical:
			out = append(out, "l:"+hx(t.TValue))
		case t.TType == efp.TokenTypeOperand && t.TSubType == efp.TokenSubTypeRange:
			k, ok := spell[t.TValue]
			if !ok {
				k = "?" + t.TValue // unknown reference: the model's env has no such key
			}
			if strings.HasPrefix(k, "@RR:") { // a cell reference: the model resolves the spelling (parseReference)
				out = append(out, "rr:"+hx(t.TValue)+":"+hx(k[4:]))
				continue
			}
			if strings.HasPrefix(k, "@GR:") { // a range argument of a call, resolved by the model
				out = append(out, "gr:"+hx(t.TValue)+":"+hx(k[4:]))
				continue
			}
			if strings.HasPrefix(k, "@G:") { // a range argument of a call: its cells
				out = append(out, "g:"+hx(k[3:]))
				continue
			}
			if strings.HasPrefix(k, "@DG:") { // a defined range name as a call argument
				out = append(out, "dg:"+hx(t.TValue)+":"+hx(k[4:]))
				continue
			}
			if strings.HasPrefix(k, "@D:") {
				out = append(out, "d:"+hx(t.TValue)+":"+hx(k[3:]))
				continue
			}
			out = append(out, "r:"+hx(k))
		case t.TType == efp.TokenTypeOperatorInfix:
			out = append(out, "i:"+hx(t.TValue))
		case t.TType == efp.TokenTypeOperatorPrefix:
			out = append(out, "p:"+hx(t.TValue))
		case t.TType == efp.TokenTypeOperatorPostfix:
			out = append(out, "q:"+hx(t.TValue))
		case t.TType == efp.TokenTypeFunction && t.TSubType == efp.TokenSubTypeStart:
			out = append(out, "fs:"+hx(t.TValue))
		case t.TType == efp.TokenTypeFunction && t.TSubType == efp.TokenSubTypeStop:
			out = append(out, "fe")
		case t.TType == efp.TokenTypeArgument:
			out = append(out, "as")
		case t.TType == efp.TokenTypeSubexpression && t.TSubType == efp.TokenSubTypeStart:
			out = append(out, "(")
		case t.TType == efp.TokenTypeSubexpression && t.TSubType == efp.TokenSubTypeStop:
			out = append(out, ")")
		default:
			out = append(out, "o")
		}
	}
	return strings.Join(out, " "), len(toks)
}

// ---------------------------------------------------------------- reference evaluator (Excel semantics)

type c08Val struct {
	K string // num text bool blank err
	N float64
	S string // text / error code
	B bool
}

func c08Num(x float64) c08Val {
	if math.IsNaN(x) || math.IsInf(x, 0) {
		return c08Val{K: "err", S: "#NUM!"}
	}
	return c08Val{K: "num", N: x}
}
func c08Err(c string) c08Val { return c08Val{K: "err", S: c} }

// c08ParseNum: decimal grammar of numeric text (the same grammar strconv accepts for
// plain decimal / exponent spellings; no inf/nan/hex here).
func c08ParseNum(s string) (float64, bool) {
	if s == "" {
		return 0, false
	}
	for _, ch := range s {
		if !(ch >= '0' && ch <= '9' || ch == '.' || ch == '+' || ch == '-' || ch == 'e' || ch == 'E') {
			return 0, false
		}
	}
	x, err := strconv.ParseFloat(s, 64)
	return x, err == nil
}

func c08ToNum(v c08Val) (float64, string) {
	switch v.K {
	case "num":
		return v.N, ""
	case "bool":
		if v.B {
			return 1, ""
		}
		return 0, ""
	case "blank":
		return 0, ""
	case "text":
		if x, ok := c08ParseNum(v.S); ok {
			return x, ""
		}
		return 0, "#VALUE!"
	}
	return 0, v.S
}

// c08General: Excel's General number -> text, 15 significant digits.
func c08General(x float64) string {
	if x == 0 {
		return "0"
	}
	if math.IsInf(x, 0) || math.IsNaN(x) {
		return fmt.Sprintf("%g", x)
	}
	e := strconv.FormatFloat(math.Abs(x), 'e', 14, 64) // d.dddddddddddddde±XX
	mant, exps, _ := strings.Cut(e, "e")
	ex, _ := strconv.Atoi(exps)
	digits := strings.TrimRight(strings.Replace(mant, ".", "", 1), "0")
	sign := ""
	if x < 0 {
		sign = "-"
	}
	if ex < -9 || ex >= 15 {
		s := digits[:1]
		if len(digits) > 1 {
			s += "." + digits[1:]
		}
		es := "+"
		if ex < 0 {
			es, ex = "-", -ex
		}
		return fmt.Sprintf("%s%sE%s%02d", sign, s, es, ex)
	}
	if ex >= 0 {
		for len(digits) < ex+1 {
			digits += "0"
		}
		ip, fp := digits[:ex+1], digits[ex+1:]
		if fp == "" {
			return sign + ip
		}
		return sign + ip + "." + fp
	}
	return sign + "0." + strings.Repeat("0", -ex-1) + digits
}

func c08ToText(v c08Val) (string, string) {
	switch v.K {
	case "num":
		return c08General(v.N), ""
	case "bool":
		if v.B {
			return "TRUE", ""
		}
		return "FALSE", ""
	case "blank":
		return "", ""
	case "text":
		return v.S, ""
	}
	return "", v.S
}

func c08Upper(s string) string {
	b := []byte(s)
	for i, c := range b {
		if c >= 'a' && c <= 'z' {
			b[i] = c - 32
		}
	}
	return string(b)
}

func c08Cmp(a, b c08Val) int {
	on := func(x, y float64) int {
		if x < y {
			return -1
		}
		if x == y {
			return 0
		}
		return 1
	}
	ob := func(x, y bool) int {
		if x == y {
			return 0
		}
		if y {
			return -1
		}
		return 1
	}
	ot := func(s, t string) int { return strings.Compare(c08Upper(s), c08Upper(t)) }
	rank := map[string]int{"num": 1, "text": 2, "bool": 3}
	switch {
	case a.K == "blank" && b.K == "blank":
		return 0
	case a.K == "blank":
		switch b.K {
		case "num":
			return on(0, b.N)
		case "text":
			return ot("", b.S)
		default:
			return ob(false, b.B)
		}
	case b.K == "blank":
		return -c08Cmp(b, a)
	case a.K == b.K:
		switch a.K {
		case "num":
			return on(a.N, b.N)
		case "text":
			return ot(a.S, b.S)
		default:
			return ob(a.B, b.B)
		}
	case rank[a.K] < rank[b.K]:
		return -1
	}
	return 1
}

func c08Bin(op string, a, b c08Val) c08Val {
	// error values among the operands propagate (left first) before any coercion is attempted
	if a.K == "err" {
		return a
	}
	if b.K == "err" {
		return b
	}
	switch op {
	case "add", "sub", "mul", "div", "pow":
		x, e := c08ToNum(a)
		if e != "" {
			return c08Err(e)
		}
		y, e := c08ToNum(b)
		if e != "" {
			return c08Err(e)
		}
		switch op {
		case "add":
			return c08Num(x + y)
		case "sub":
			return c08Num(x - y)
		case "mul":
			return c08Num(x * y)
		case "div":
			if y == 0 {
				return c08Err("#DIV/0!")
			}
			return c08Num(x / y)
		default:
			if x == 0 && y == 0 {
				return c08Err("#NUM!")
			}
			if x == 0 && y < 0 {
				return c08Err("#DIV/0!")
			}
			return c08Num(math.Pow(x, y))
		}
	case "cat":
		s, e := c08ToText(a)
		if e != "" {
			return c08Err(e)
		}
		t, e := c08ToText(b)
		if e != "" {
			return c08Err(e)
		}
		return c08Val{K: "text", S: s + t}
	}
	if a.K == "err" {
		return a
	}
	if b.K == "err" {
		return b
	}
	c := c08Cmp(a, b)
	var r bool
	switch op {
	case "eq":
		r = c == 0
	case "ne":
		r = c != 0
	case "lt":
		r = c < 0
	case "le":
		r = c <= 0
	case "gt":
		r = c > 0
	case "ge":
		r = c >= 0
	}
	return c08Val{K: "bool", B: r}
}

type c08Eval struct {
	names   func(name, cur string) ([]string, bool) // reference resolver for defined names
	agg     func(n *c08Node) c08Val // value of an aggregate leaf (Spec or clean-tree prediction)
	taint   map[string]string
	env     map[string]c08Val
	class   string // first deviation class met in post-order
	inexact bool   // math.Pow with an exponent for which Go and libm may differ in the last bit
}

func (ev *c08Eval) dev(c string) {
	if ev.class == "" && c != "" {
		ev.class = c
	}
}

func c08IsNumericText(v c08Val) bool {
	if v.K != "text" {
		return false
	}
	_, ok := c08ParseNum(v.S)
	return ok
}

func (ev *c08Eval) eval(n *c08Node) c08Val {
	switch n.Kind {
	case "N":
		x, err := strconv.ParseFloat(n.S, 64)
		if err != nil {
			return c08Err("#VALUE!")
		}
		return c08Val{K: "num", N: x}
	case "X":
		return c08Val{K: "text", S: n.S}
	case "L":
		return c08Val{K: "bool", B: strings.EqualFold(n.S, "TRUE")}
	case "R":
		v, ok := ev.env[n.S]
		if !ok {
			return c08Err("#NAME?")
		}
		if v.K == "err" {
			ev.dev("ref:error-not-propagated")
		}
		if ev.taint != nil {
			ev.dev(ev.taint[n.S]) // the referenced formula cell itself deviates
		}
		return v
	case "par":
		return ev.eval(n.A)
	case "G":
		return ev.agg(n)
	case "D":
		if ev.names != nil {
			if keys, ok := ev.names(n.S, n.Spell); ok && len(keys) == 1 {
				if v, ok := ev.env[keys[0]]; ok {
					return v
				}
				return c08Val{K: "blank"}
			}
		}
		return c08Err("#NAME?")
	case "neg":
		a := ev.eval(n.A)
		if n.A.Kind == "neg" {
			// a is -(inner); the machine cancels the two prefix minus tokens without coercing
			inner := ev.peek(n.A.A)
			if inner.K != "num" || (inner.N == 0 && math.Signbit(inner.N)) {
				ev.dev("neg:double-cancel") // (--x also keeps a negative zero that 0-(0-x) would normalise)
			}
		}
		if c08EmptyText(a) { // unary minus coerces through ToNumber since the second fix window
			ev.dev("emptytext-as-zero")
		}
		x, e := c08ToNum(a)
		if e != "" {
			return c08Err(e)
		}
		if r := 0 - x; math.IsNaN(r) || math.IsInf(r, 0) {
			ev.dev("numerr-swallowed")
		}
		return c08Num(0 - x)
	case "pct":
		a := ev.eval(n.A)
		if c08EmptyText(a) { // postfix % coerces through ToNumber since the second fix window
			ev.dev("emptytext-as-zero")
		}
		x, e := c08ToNum(a)
		if e != "" {
			return c08Err(e)
		}
		return c08Num(x / 100)
	case "bin":
		a := ev.eval(n.A)
		b := ev.eval(n.B)
		ev.classify(n.Op, a, b)
		if n.Op == "pow" && !c08ExactExp(n.B, b) {
			ev.inexact = true
		}
		r := c08Bin(n.Op, a, b)
		return r
	}
	return c08Err("#VALUE!")
}

// c08ExactExp: is the exponent one for which Go's math.Pow is reproduced bit for bit by the
// driver (integer or ±0.5, given by an operator-free subtree so that both sides see the same value)?
func c08ExactExp(n *c08Node, v c08Val) bool {
	for n.Kind == "par" || n.Kind == "neg" {
		n = n.A
	}
	if n.Kind == "bin" || n.Kind == "pct" {
		return false
	}
	y, e := c08ToNum(v)
	return e != "" || y == math.Trunc(y) || math.Abs(y) == 0.5
}

// peek evaluates without recording deviations
func (ev *c08Eval) peek(n *c08Node) c08Val {
	e2 := &c08Eval{env: ev.env, taint: ev.taint, agg: ev.agg, names: ev.names}
	return e2.eval(n)
}

func c08EmptyText(v c08Val) bool { return v.K == "text" && v.S == "" }

// classify names the known deviation class of (op, operand kinds), if any.
func (ev *c08Eval) classify(op string, a, b c08Val) {
	switch op {
	case "add", "sub", "mul", "div", "pow":
		if c08EmptyText(a) || c08EmptyText(b) {
			ev.dev("emptytext-as-zero")
		}
		x, e1 := c08ToNum(a)
		y, e2 := c08ToNum(b)
		if e1 == "" && e2 == "" {
			var r float64
			switch op {
			case "add":
				r = x + y
			case "sub":
				r = x - y
			case "mul":
				r = x * y
			case "div":
				if y == 0 {
					return
				}
				r = x / y
			case "pow":
				if x == 0 && y <= 0 {
					return // #NUM! / #DIV/0! on both sides since the second fix window
				}
				r = math.Pow(x, y)
			}
			if math.IsNaN(r) || math.IsInf(r, 0) {
				// excelize keeps a NaN / overflowing result as a #NUM! *value* on the operand stack:
				// evaluation goes on and the error of a later subexpression is reported instead
				ev.dev("numerr-swallowed")
			}
		}
	case "cat":
		for _, v := range []c08Val{a, b} {
			if v.K == "num" && fmt.Sprintf("%g", v.N) != c08General(v.N) {
				ev.dev("concat:number-format")
			}
		}
	default:
		if a.K == "err" || b.K == "err" {
			return
		}
		ka, kb := a.K, b.K
		has := func(k string) bool { return ka == k || kb == k }
		switch {
		case c08EmptyText(a) || c08EmptyText(b):
			if !(c08EmptyText(a) && c08EmptyText(b)) && !(has("blank")) {
				ev.dev("emptytext-as-zero")
			}
		case ka == "text" && kb == "text":
			// (= and <> are typed and case-insensitive since the fix-window repair of calcEq/calcNEq)
		case has("bool") && !(ka == "bool" && kb == "bool"):
			// typed order since the fix-window repair; what is left: a blank operand is turned into
			// the number 0 first, so blank vs FALSE compares as number < logical instead of equal
			o, bv := a, b
			if ka == "bool" {
				o, bv = b, a
			}
			if o.K == "blank" && !bv.B {
				ev.dev("cmp:bool-as-number")
			}
		case has("num") && has("text") || has("blank") && has("text"):
			// a number never equals text (fixed: eq:number-text); ±0 are equal (fixed: eq:negzero)
		}
	}
}

// ---------------------------------------------------------------- workbook state and execution

const c08Main = "Z9"

type c08State struct {
	defs      []c08Def // defined names in creation order (defined-name stream)
	mainSheet string   // sheet holding the main formula ("" = Sheet1)
	lastRaw string
	wide    bool // a formula cell lies beyond column J or row 10 (formula-precedent stream)
	impl  map[string]string // raw (hook) image of every cell as the evaluator sees it
	taint map[string]string
	f     *xl.File
	env   map[string]c08Val
	lines []string // cell lines of the current workbook (for replays)
	names map[string]bool
}

func c08NewState() *c08State {
	f := xl.NewFile()
	f.NewSheet("Sheet2")
	f.NewSheet("Sheet3")
	f.NewSheet("My Data") // a sheet whose name must be quoted in formulas
	return &c08State{f: f, env: map[string]c08Val{}, names: map[string]bool{}, taint: map[string]string{}, impl: map[string]string{}}
}

func c08Bits(x float64) string { return fmt.Sprintf("%016x", math.Float64bits(x)) }

func c08SplitKey(key string) (string, string) {
	sh, cell, ok := strings.Cut(key, "!")
	if !ok {
		return "Sheet1", key
	}
	return sh, cell
}

var c08Codes = map[string]bool{"#DIV/0!": true, "#NAME?": true, "#N/A": true, "#NUM!": true, "#VALUE!": true, "#REF!": true, "#NULL!": true}

// c08Raw: canonical image of the raw evaluator result (hook), comparable with the model.
func c08Raw(f *xl.File, sheet, cell string) (res string) {
	defer func() {
		if p := recover(); p != nil {
			res = "PANIC"
		}
	}()
	a, err := f.VerifC08Calc(sheet, cell)
	if err != nil {
		m := err.Error()
		switch {
		case c08Codes[m]:
			return "err " + hx(m)
		case strings.HasPrefix(m, "strconv.ParseFloat"):
			return "err parse"
		case m == xl.ErrInvalidFormula.Error():
			return "err invalid"
		}
		return "err other:" + hx(m)
	}
	switch a.Type {
	case 1:
		if a.Boolean {
			if a.Number == 0 {
				return "bool 0"
			}
			return "bool 1"
		}
		return "num " + c08Bits(a.Number)
	case 2:
		return "str " + hx(a.String)
	case 5:
		return "errv " + hx(a.Error)
	case 6:
		return "empty"
	}
	return fmt.Sprintf("type%d", a.Type)
}

// c08Out: for a numeric raw result, the string the public CalcCellValue(RawCellValue) returns —
// the model renders the number itself (15 significant digits rule) and must produce this text
func c08Out(raw, res, errs string, tol bool) string {
	if tol || errs != "" || !strings.HasPrefix(raw, "num ") {
		return ""
	}
	return " out=" + hx(res)
}

func c08SpecStr(v c08Val) string {
	switch v.K {
	case "num":
		return "num " + c08Bits(v.N)
	case "text":
		return "str " + hx(v.S)
	case "bool":
		if v.B {
			return "bool 1"
		}
		return "bool 0"
	case "blank":
		return "blank"
	}
	return "err " + v.S
}

func c08Top(v c08Val) c08Val {
	if v.K == "blank" {
		return c08Val{K: "num", N: 0}
	}
	return v
}

// c08Public: CalcCellValue through the public API.
func c08Public(f *xl.File, sheet, cell string) (res string, errs string, panicked bool) {
	defer func() {
		if p := recover(); p != nil {
			panicked = true
		}
	}()
	r, err := f.CalcCellValue(sheet, cell, xl.Options{RawCellValue: true})
	if err != nil {
		return r, err.Error(), false
	}
	return r, "", false
}

func c08Close(a, b float64) bool {
	if a == b {
		return true
	}
	m := math.Max(math.Abs(a), math.Abs(b))
	return math.Abs(a-b) <= 1e-12*m
}

// c08Agree: does the public result agree with the reference value? second result: error-code mismatch only.
func c08Agree(spec c08Val, res, errs string, panicked bool) (bool, bool) {
	if panicked {
		return false, false
	}
	switch spec.K {
	case "err":
		if errs == "" && !c08Codes[res] {
			return false, false
		}
		code := errs
		if errs == "" {
			code = res
		}
		return true, code != spec.S
	case "num":
		if errs != "" {
			return false, false
		}
		x, err := strconv.ParseFloat(res, 64)
		if err != nil || math.IsInf(x, 0) || math.IsNaN(x) {
			return false, false
		}
		return c08Close(x, spec.N), false
	case "text":
		return errs == "" && res == spec.S, false
	case "bool":
		return errs == "" && res == map[bool]string{true: "TRUE", false: "FALSE"}[spec.B], false
	}
	return false, false
}

// exec one formula (main or formula cell); returns the reference value.
func (st *c08State) formula(r *Run, opname, key string, tree *c08Node, spaced bool) c08Val {
	sheet, cell := st.main(), c08Main
	if key != "" {
		sheet, cell = c08SplitKey(key)
	}
	text := c08Render(tree, 1, spaced)
	spell := map[string]string{}
	c08Refs(tree, spell)
	for sp, k := range spell {
		// spellings that are not defined names are resolved by the model, not by the harness;
		// efp hands the evaluator the spelling without the quotes of a quoted sheet name
		if !strings.HasPrefix(k, "@") && !st.names[sp] {
			delete(spell, sp)
			spell[c08Unquote(sp)] = "@RR:" + sheet
		}
	}
	toks, _ := c08Tokens(text, spell)
	var tb strings.Builder
	c08TreeEnc(tree, &tb)
	must(st.f.SetCellFormula(sheet, cell, text))
	raw := c08Raw(st.f, sheet, cell)
	st.lastRaw = raw
	ev := &c08Eval{env: st.env, taint: st.taint, names: st.resolveName}
	spec := c08Top(ev.eval(tree))
	res, errs, pan := c08Public(st.f, sheet, cell)
	op := opname + " " + toks + " | " + tb.String()
	if key != "" {
		op = "cell " + hx(key) + " f " + toks + " | " + tb.String()
	}
	specS := c08SpecStr(spec)
	noLine := false
	if ev.inexact {
		if key != "" || spec.K != "num" || !strings.HasPrefix(raw, "num ") {
			// (a formula cell with an inexact power would hand a 1-ulp difference on to later lines)
			r.Stat("skipped:inexact-pow-nonnumeric (oracle only)")
			if key != "" {
				// still define the cell for later references, but exactly as a blank on both sides
				must(st.f.SetCellFormula(sheet, cell, ""))
				return c08Val{K: "skip"}
			}
			noLine = true
		} else {
			op += " | tol " + strings.TrimPrefix(raw, "num ")
			specS = "num~ ok"
			r.Stat("tolerance-compared")
		}
	}
	ln := 0
	if !noLine {
		ln = r.Op(op, raw+c08Out(raw, res, errs, ev.inexact)+" render=ok tree=ok S="+specS)
	}
	if key != "" {
		st.lines = append(st.lines, op)
	}
	nontrivial := tree.Kind == "bin" || tree.Kind == "neg" || tree.Kind == "pct" || tree.Kind == "par"
	r.Case(text+"|"+strings.Join(st.lines, ";"), nontrivial)
	r.Stat("result:" + spec.K)
	ok, codeDiff := c08Agree(spec, res, errs, pan)
	replay := "reset\n" + strings.Join(st.lines, "\n")
	if key == "" {
		replay += "\n" + op
	}
	if !ok {
		sig := ev.class
		if sig == "" {
			sig = "unexplained"
			bare := tree
			for bare.Kind == "par" {
				bare = bare.A
			}
			if spec.K == "num" && bare.Kind == "R" && st.env[bare.S].K == "blank" {
				sig = "top:blank-ref"
			}
		}
		if key != "" {
			st.taint[key] = sig
		}
		if sig == "unexplained" && c08HasKind(tree, "D") {
			sig = "defname:resolution"
		}
		if sig == "unexplained" && st.wide && c08HasKind(tree, "R") {
			sig = "ref:formula-precedent"
		}
		what := fmt.Sprintf("=%s: CalcCellValue gives %q err=%q, Excel semantics give %s", text, res, errs, c08Show(spec))
		if c08HasKind(tree, "D") {
			what = fmt.Sprintf("on %s, names %s: %s", st.main(), st.showDefs(), what)
		}
		r.Fail(sig, what, ln, replay)
	} else if codeDiff {
		if key != "" {
			st.taint[key] = "ref:error-not-propagated"
		}
		sig := "errcode:other"
		if strings.HasPrefix(errs, "strconv.ParseFloat") {
			sig = "errcode:parse-message"
		}
		if ev.class != "" {
			sig = ev.class
		}
		r.Fail(sig, fmt.Sprintf("=%s: error reported as %q, Excel's error code is %s", text, errs+res, spec.S), ln, replay)
	} else {
		r.Stat("oracle:agree")
	}
	if ev.class != "" {
		r.Stat("deviant:" + ev.class)
		if key != "" {
			// the cell's rendered value may agree while its kind differs (text "-2" vs number -2)
			st.taint[key] = ev.class
		}
	}
	return spec
}

func c08Show(v c08Val) string {
	switch v.K {
	case "num":
		return strconv.FormatFloat(v.N, 'g', -1, 64)
	case "text":
		return strconv.Quote(v.S)
	case "bool":
		return map[bool]string{true: "TRUE", false: "FALSE"}[v.B]
	case "err":
		return v.S
	}
	return v.K
}

func (st *c08State) setCell(r *Run, key, kind, payload string) {
	sheet, cell := c08SplitKey(key)
	line := "cell " + hx(key) + " " + kind
	switch kind {
	case "b":
		st.env[key] = c08Val{K: "blank"}
		st.impl[key] = "empty"
	case "n":
		u, _ := strconv.ParseUint(payload, 16, 64)
		x := math.Float64frombits(u)
		must(st.f.SetCellValue(sheet, cell, x))
		st.env[key] = c08Val{K: "num", N: x}
		st.impl[key] = "num " + payload
		line += " " + payload
	case "s":
		must(st.f.SetCellValue(sheet, cell, payload))
		st.env[key] = c08Val{K: "text", S: payload}
		st.impl[key] = "str " + hx(payload)
		line += " " + hx(payload)
	case "t":
		must(st.f.SetCellValue(sheet, cell, payload == "1"))
		st.env[key] = c08Val{K: "bool", B: payload == "1"}
		st.impl[key] = "bool " + payload
		line += " " + payload
	}
	r.Op(line, "ok")
	st.lines = append(st.lines, line)
	// a workbook-level defined name for every cell
	name := "n" + strings.ReplaceAll(sheet, "Sheet", "s") + cell
	if !st.names[name] && !strings.Contains(sheet, " ") {
		st.names[name] = true
		must(st.f.SetDefinedName(&xl.DefinedName{Name: name, RefersTo: sheet + "!$" + cell[:1] + "$" + cell[1:]}))
	}
}

func (st *c08State) setFormulaCell(r *Run, key string, tree *c08Node) {
	if _, cn := c08SplitKey(key); true {
		if c, w, err := xl.CellNameToCoordinates(cn); err == nil && (c > 10 || w > 10) {
			st.wide = true
		}
	}
	v := st.formula(r, "", key, tree, false)
	st.impl[key] = st.lastRaw
	if v.K == "skip" {
		st.impl[key] = "empty"
		v = c08Val{K: "blank"}
		line := "cell " + hx(key) + " b"
		r.Op(line, "ok")
		st.lines = append(st.lines, line)
	}
	st.env[key] = v
	sheet, cell := c08SplitKey(key)
	name := "n" + strings.ReplaceAll(sheet, "Sheet", "s") + cell
	if !st.names[name] && !strings.Contains(sheet, " ") {
		st.names[name] = true
		must(st.f.SetDefinedName(&xl.DefinedName{Name: name, RefersTo: sheet + "!$" + cell[:1] + "$" + cell[1:]}))
	}
}

// free-form formula text: the token machine only
func (st *c08State) rawFormula(r *Run, text string) {
	spell := map[string]string{}
	for k := range st.env {
		sh, c := c08SplitKey(k)
		if sh == "Sheet1" {
			spell[c] = k
		}
		spell[k] = k
	}
	toks, n := c08Tokens(text, spell)
	if n == 0 {
		r.Stat("raw:no-tokens")
		return
	}
	padded := " " + toks + " "
	if strings.Contains(padded, " o ") || strings.Contains(toks, "r:"+hx("?")[:2]) ||
		strings.Contains(padded, " fs:") || strings.Contains(padded, " fe ") || strings.Contains(padded, " as ") {
		r.Stat("raw:outside-core")
		return
	}
	must(st.f.SetCellFormula("Sheet1", c08Main, text))
	raw := c08Raw(st.f, "Sheet1", c08Main)
	r.Op("evt "+toks+" | F:"+hx(text), raw)
	r.Case("raw:"+text, true)
	r.Stat("raw:" + strings.SplitN(raw, " ", 2)[0])
	// totality of the public entry point on malformed input: error or value, never a crash
	_, _, pan := c08Public(st.f, "Sheet1", c08Main)
	if pan {
		r.Stat("raw:panic")
	}
}


// ---------------------------------------------------------------- aggregates over ranges (direct oracle only)

var c08AggFns = []string{"SUM", "AVERAGE", "COUNT", "COUNTA", "MIN", "MAX", "PRODUCT"}

// c08AggSpec: Excel's fold over the cells of a range: text, booleans and blanks are ignored
// (COUNTA counts every non-empty cell), an error cell propagates (except for COUNT/COUNTA).
func c08AggSpec(fn string, cells []c08Val) c08Val {
	var nums []float64
	nonEmpty := 0
	for _, v := range cells {
		switch v.K {
		case "num":
			nums = append(nums, v.N)
			nonEmpty++
		case "text", "bool":
			nonEmpty++
		case "err":
			nonEmpty++
			if fn != "COUNT" && fn != "COUNTA" {
				return v
			}
		}
	}
	switch fn {
	case "COUNT":
		return c08Num(float64(len(nums)))
	case "COUNTA":
		return c08Num(float64(nonEmpty))
	case "SUM":
		t := 0.0
		for _, x := range nums {
			t += x
		}
		return c08Num(t)
	case "AVERAGE":
		if len(nums) == 0 {
			return c08Err("#DIV/0!")
		}
		t := 0.0
		for _, x := range nums {
			t += x
		}
		return c08Num(t / float64(len(nums)))
	case "PRODUCT":
		if len(nums) == 0 {
			return c08Num(0)
		}
		t := 1.0
		for _, x := range nums {
			t *= x
		}
		return c08Num(t)
	}
	if len(nums) == 0 {
		return c08Num(0)
	}
	m := nums[0]
	for _, x := range nums[1:] {
		if fn == "MIN" && x < m || fn == "MAX" && x > m {
			m = x
		}
	}
	return c08Num(m)
}

func c08ShowCells(cs []c08Val) string {
	var out []string
	for _, c := range cs {
		out = append(out, c08Show(c))
	}
	return "[" + strings.Join(out, " ") + "]"
}

// ---------------------------------------------------------------- generator

var c08NumLits = []string{"0", "1", "2", "3", "4", "5", "10", "0.5", "2.5", "100", "1000000", "1E+2", ".5", "1234567.5", "0.1", "0.2", "7", "12", "0.25", "1E+15", "123456789012345678", "99999", "1e3"}
var c08TextLits = []string{"a", "A", "abc", "ABC", "B", "b", "", "3", "1e3", "TRUE", "x\"y", "é", "0", "-2", "2.5", "Z", "a b"}
var c08CellNums = []float64{0, 1, -1, 2, 3, 5, 10, 0.5, 2.5, -0.25, 100, 1e6, 1234567.5, 0.1, 1e-5, 1e15, 1.2345678901234568e17, -7, 42, 0.3}
var c08CellNumText = []string{"7", "3.5", "-2", "1e3", "007", "0", "12"}
var c08CellText = []string{"abc", "ABC", "a", "B", "x y", "TRUE", "é", "zz"}

type c08Gen struct {
	rng  *Rng
	keys []string // referable cells
}

func (g *c08Gen) spelling(key string) string {
	sh, c := c08SplitKey(key)
	abs := "$" + c[:1] + "$" + c[1:]
	name := "n" + strings.ReplaceAll(sh, "Sheet", "s") + c
	if sh == "Sheet1" {
		switch g.rng.Intn(8) {
		case 0:
			return abs
		case 1:
			return []string{"Sheet1!", "SHEET1!", "'Sheet1'!", "sheet1!"}[g.rng.Intn(4)] + c
		case 2:
			return name
		case 3:
			return strings.ToLower(c)
		case 4:
			return c[:1] + "$" + c[1:]
		}
		return c
	}
	if strings.Contains(sh, " ") { // quoted sheet name, any case
		q := "'" + sh + "'"
		switch g.rng.Intn(4) {
		case 0:
			return "'" + strings.ToLower(sh) + "'!" + abs
		case 1:
			return "'" + strings.ToUpper(sh) + "'!" + strings.ToLower(c)
		}
		return q + "!" + c
	}
	switch g.rng.Intn(7) {
	case 0:
		return sh + "!" + abs
	case 1:
		return name
	case 2:
		return strings.ToUpper(sh) + "!" + strings.ToLower(c)
	case 3:
		return "'" + sh + "'!" + c
	case 4:
		return strings.ToLower(sh) + "!" + c[:1] + "$" + c[1:]
	}
	return sh + "!" + c
}

func (g *c08Gen) leaf() *c08Node {
	switch k := g.rng.Intn(10); {
	case k < 3:
		return &c08Node{Kind: "N", S: g.rng.Pick(c08NumLits)}
	case k < 5:
		return &c08Node{Kind: "X", S: g.rng.Pick(c08TextLits)}
	case k < 6:
		return &c08Node{Kind: "L", S: g.rng.Pick([]string{"TRUE", "FALSE"})}
	default:
		if len(g.keys) == 0 {
			return &c08Node{Kind: "N", S: "1"}
		}
		key := g.rng.Pick(g.keys)
		return &c08Node{Kind: "R", S: key, Spell: g.spelling(key)}
	}
}

func (g *c08Gen) tree(depth int) *c08Node {
	if depth <= 0 || g.rng.Chance(12) {
		return g.leaf()
	}
	switch k := g.rng.Intn(20); {
	case k < 2:
		return &c08Node{Kind: "neg", A: g.tree(depth - 1)}
	case k < 3:
		return &c08Node{Kind: "pct", A: g.tree(depth - 1)}
	case k < 5:
		return &c08Node{Kind: "par", A: g.tree(depth - 1)}
	}
	op := g.rng.Pick(c08Ops)
	n := &c08Node{Kind: "bin", Op: op, A: g.tree(depth - 1)}
	if op == "pow" && g.rng.Chance(85) {
		e := g.rng.Pick([]string{"0", "1", "2", "3", "-1", "-2", "0.5", "-0.5", "1.5"})
		if strings.HasPrefix(e, "-") {
			n.B = &c08Node{Kind: "neg", A: &c08Node{Kind: "N", S: e[1:]}}
		} else {
			n.B = &c08Node{Kind: "N", S: e}
		}
	} else {
		n.B = g.tree(depth - 1)
	}
	return n
}

// a workbook: value cells of every kind, then formula cells over earlier cells
func (g *c08Gen) workbook(r *Run, nformula int) *c08State {
	st := c08NewState()
	r.Op("reset", "ok")
	g.keys = nil
	cells := []string{"Sheet1!A1", "Sheet1!A2", "Sheet1!A3", "Sheet1!A4", "Sheet1!A5", "Sheet1!A6", "Sheet1!A7", "Sheet1!A8", "Sheet2!A1", "Sheet2!B2", "Sheet2!C3", "My Data!A1", "My Data!B2"}
	for i, key := range cells {
		kind := i % 5
		if i >= 5 {
			kind = g.rng.Intn(5)
		}
		switch kind {
		case 0:
			st.setCell(r, key, "n", c08Bits(c08CellNums[g.rng.Intn(len(c08CellNums))]))
		case 1:
			st.setCell(r, key, "s", g.rng.Pick(c08CellNumText))
		case 2:
			st.setCell(r, key, "s", g.rng.Pick(c08CellText))
		case 3:
			st.setCell(r, key, "t", g.rng.Pick([]string{"0", "1"}))
		case 4:
			st.setCell(r, key, "b", "")
		}
		r.Stat("cellkind:" + []string{"number", "numeric-text", "text", "bool", "blank"}[kind])
		g.keys = append(g.keys, key)
	}
	for i := 0; i < nformula; i++ {
		key := fmt.Sprintf("Sheet1!B%d", i+1)
		st.setFormulaCell(r, key, g.tree(1+g.rng.Intn(2)))
		r.Stat("cellkind:formula")
		g.keys = append(g.keys, key)
	}
	return st
}

// fixed workbook used by the deterministic witnesses and the exhaustive sweeps
func c08FixedWorkbook(r *Run) *c08State {
	st := c08NewState()
	r.Op("reset", "ok")
	st.setCell(r, "Sheet1!A1", "n", c08Bits(5))
	st.setCell(r, "Sheet1!A2", "s", "7")
	st.setCell(r, "Sheet1!A3", "s", "abc")
	st.setCell(r, "Sheet1!A4", "t", "1")
	st.setCell(r, "Sheet1!A5", "b", "")
	st.setCell(r, "Sheet1!A6", "n", c08Bits(0))
	st.setCell(r, "Sheet2!A1", "n", c08Bits(2.5))
	lit := func(k, s string) *c08Node { return &c08Node{Kind: k, S: s} }
	st.setFormulaCell(r, "Sheet1!B1", &c08Node{Kind: "bin", Op: "div", A: lit("N", "1"), B: lit("N", "0")})
	st.setFormulaCell(r, "Sheet1!B2", &c08Node{Kind: "bin", Op: "mul", A: &c08Node{Kind: "R", S: "Sheet1!A1", Spell: "A1"}, B: lit("N", "2")})
	return st
}

func c08Ref(key, spell string) *c08Node { return &c08Node{Kind: "R", S: key, Spell: spell} }
func c08Lit(k, s string) *c08Node    { return &c08Node{Kind: k, S: s} }
func c08B(op string, a, b *c08Node) *c08Node {
	return &c08Node{Kind: "bin", Op: op, A: a, B: b}
}
func c08U(k string, a *c08Node) *c08Node { return &c08Node{Kind: k, A: a} }

// deterministic witnesses of every open finding (DESIGN.md section 6 and those found by this check)
func c08Witnesses() []*c08Node {
	N, X, L := func(s string) *c08Node { return c08Lit("N", s) }, func(s string) *c08Node { return c08Lit("X", s) }, func(s string) *c08Node { return c08Lit("L", s) }
	return []*c08Node{
		c08B("eq", N("1"), X("1")),                              // 1="1"
		c08B("eq", X("a"), X("A")),                              // "a"="A"
		c08B("gt", L("TRUE"), N("5")),                           // TRUE>5
		c08U("neg", X("a")),                                     // -"a"
		c08B("lt", X("a"), X("B")),                              // "a"<"B"
		c08U("neg", c08U("neg", L("TRUE"))),                     // --TRUE
		c08U("pct", X("5")),                                     // "5"%
		c08B("add", X(""), N("1")),                              // ""+1
		c08B("add", c08Ref("Sheet1!B1", "B1"), N("1")),          // B1 is =1/0
		c08B("cat", N("1000000"), X("")),                        // 1000000&""
		c08B("eq", c08B("mul", N("0"), c08U("neg", N("1"))), N("0")), // 0*-1=0
		c08B("pow", N("0"), N("0")),                             // 0^0
		c08B("mul", N("1E+200"), N("1E+200")),                   // overflow
		c08U("neg", c08U("par", c08B("pow", c08U("par", c08U("neg", N("8"))), c08U("par", c08B("div", N("1"), N("3")))))), // -((-8)^(1/3))
		c08B("add", N("1"), X("a")),                             // error code lost
		c08B("div", c08U("par", c08B("pow", c08U("par", c08U("neg", N("8"))), N("0.5"))), c08U("par", c08B("div", N("1"), N("0")))), // ((-8)^0.5)/(1/0): #NUM! first
		c08B("add", c08Ref("?Nope!A1", "Nope!A1"), N("1")),      // a sheet that does not exist: #NAME? on both sides
		c08B("add", c08Ref("Sheet2!A1", "'SHEET2'!$a$1"), N("1")), // quoted, upper-case sheet, lower-case absolute cell
		c08Ref("Sheet1!A5", "A5"),                               // =A5 (blank)
		c08B("eq", c08Ref("Sheet1!A5", "A5"), L("FALSE")),       // blank=FALSE
	}
}

func c08Operand(kind int) *c08Node {
	switch kind {
	case 0:
		return c08Lit("N", "2")
	case 1:
		return c08Lit("X", "abc")
	case 2:
		return c08Lit("L", "TRUE")
	case 3:
		return c08Ref("Sheet1!A5", "A5") // blank
	case 4:
		return c08Lit("X", "3") // numeric text
	case 5:
		return c08Ref("Sheet1!A1", "$A$1") // number cell
	case 6:
		return c08Lit("X", "")
	case 7:
		return c08Lit("N", "0")
	case 8:
		return c08Lit("X", "ABC")
	case 9:
		return c08Lit("L", "FALSE")
	case 10:
		return c08Ref("Sheet1!A2", "A2") // numeric text cell
	default:
		return c08Ref("Sheet1!A4", "ns1A4") // bool cell through a defined name
	}
}

func c08Mix(x uint64) uint64 {
	x += 0x632BE59BD9B4E019
	x = (x ^ (x >> 30)) * 0xBF58476D1CE4E5B9
	x = (x ^ (x >> 27)) * 0x94D049BB133111EB
	return x ^ (x >> 31)
}

func runC08(r *Run, rng *Rng, replay string) {
	r.Rule = "a case is one formula evaluated on one workbook; non-trivial = the formula has at least one operator or parenthesis (not a bare literal/reference); distinct = distinct (formula text, workbook contents)"
	if replay != "" {
		c08Replay(r, replay)
		return
	}
	// common.go's NewRng(seed) makes the stream of seed k+1 the stream of seed k shifted by one
	// draw; re-seed through a mixing function so that different seeds explore different cases
	rng = NewRng(c08Mix(r.Seed))
	g := &c08Gen{rng: rng}
	// 1. deterministic witnesses
	st := c08FixedWorkbook(r)
	for _, w := range c08Witnesses() {
		st.formula(r, "ev", "", w, false)
		r.Stat("stream:witness")
	}
	// 2. exhaustive: every operator x every ordered pair of operand kinds (12 kinds), plus unary forms
	for _, op := range c08Ops {
		for i := 0; i < 12; i++ {
			for j := 0; j < 12; j++ {
				st.formula(r, "ev", "", c08B(op, c08Operand(i), c08Operand(j)), false)
				r.Stat("stream:depth1")
			}
		}
	}
	for i := 0; i < 12; i++ {
		for _, u := range []string{"neg", "pct", "par"} {
			st.formula(r, "ev", "", c08U(u, c08Operand(i)), false)
			st.formula(r, "ev", "", c08U("neg", c08U(u, c08Operand(i))), false)
			st.formula(r, "ev", "", c08U("pct", c08U(u, c08Operand(i))), false)
			r.Stat("stream:unary")
		}
	}
	// 3. exhaustive depth 2: all operator pairs, both shapes, operand kinds
	nk := 4
	if r.Tier == "thorough" {
		nk = 6
	}
	for _, o1 := range c08Ops {
		for _, o2 := range c08Ops {
			for a := 0; a < nk; a++ {
				for b := 0; b < nk; b++ {
					for c := 0; c < nk; c++ {
						st.formula(r, "ev", "", c08B(o2, c08B(o1, c08Operand(a), c08Operand(b)), c08Operand(c)), false)
						st.formula(r, "ev", "", c08B(o1, c08Operand(a), c08B(o2, c08Operand(b), c08Operand(c))), false)
						r.Stat("stream:depth2")
					}
				}
			}
		}
	}
	r.Exhaust = true
	// 4. random trees over random workbooks
	nwb, per, maxd := 40, 100, 6
	if r.Tier == "thorough" {
		nwb, per, maxd = 400, 200, 10
	}
	for w := 0; w < nwb; w++ {
		st := g.workbook(r, 4)
		for i := 0; i < per; i++ {
			d := 1 + rng.Intn(maxd)
			t := g.tree(d)
			st.formula(r, "ev", "", t, rng.Chance(15))
			r.Stat(fmt.Sprintf("stream:random depth<=%d", d))
		}
		// 5. malformed / free-form stream on the same workbook
		pieces := []string{"1", "2", "\"a\"", "TRUE", "A1", "A5", "+", "-", "*", "/", "^", "&", "=", "<", ">", "<=", "<>", "%", "(", ")", " ", "-", "("}
		for i := 0; i < per/4; i++ {
			var sb strings.Builder
			for k, n := 0, 1+rng.Intn(7); k < n; k++ {
				sb.WriteString(rng.Pick(pieces))
			}
			st.rawFormula(r, sb.String())
			r.Stat("stream:malformed")
		}
	}
	// 5b. defined names at workbook / sheet scope in every creation order (own workbooks)
	c08DnStream(r, rng)
	// 6. aggregates over generated ranges (own workbooks)
	c08AggStream(r, rng)
	// 7. formula cells as precedents over wide coordinates (own workbooks)
	c08FpStream(r, rng)
	r.Samples = r.opsSample(10)
}

func c08Replay(r *Run, path string) {
	var st *c08State
	for _, line := range readLines(path) {
		line = strings.TrimSpace(line)
		if line == "" || strings.HasPrefix(line, "#") {
			continue
		}
		w := strings.Fields(line)
		if st == nil && w[0] != "reset" {
			st = c08NewState()
			r.Op("reset", "ok")
		}
		treeOf := func(ws []string) *c08Node {
			for i, x := range ws {
				if x == "|" {
					rest := ws[i+1:]
					for j, y := range rest {
						if y == "|" {
							rest = rest[:j]
							break
						}
					}
					t, _, ok := c08TreeDec(rest)
					if ok {
						return t
					}
					return nil
				}
			}
			return nil
		}
		switch w[0] {
		case "reset":
			st = c08NewState()
			r.Op("reset", "ok")
		case "cell":
			if len(w) < 3 {
				continue
			}
			key := c08unhx(w[1])
			switch w[2] {
			case "b":
				st.setCell(r, key, "b", "")
			case "n", "t":
				if len(w) > 3 {
					st.setCell(r, key, w[2], w[3])
				}
			case "s":
				if len(w) > 3 {
					st.setCell(r, key, "s", c08unhx(w[3]))
				}
			case "f":
				if t := treeOf(w); t != nil {
					st.setFormulaCell(r, key, t)
				}
			}
		case "ev":
			if t := treeOf(w); t != nil {
				if c08HasKind(t, "G") {
					st.aggFormula(r, t)
				} else {
					st.formula(r, "ev", "", t, false)
				}
			}
		case "main":
			if len(w) > 1 {
				st.setMain(r, c08unhx(w[1]))
			}
		case "defname":
			if len(w) > 3 {
				st.defineName(r, c08unhx(w[1]), c08unhx(w[2]), strings.Split(c08unhx(w[3]), ","))
			}
		case "agg", "evx":
			if t := treeOf(w); t != nil {
				st.aggFormula(r, t)
			}
		case "evt":
			for _, x := range w {
				if strings.HasPrefix(x, "F:") {
					st.rawFormula(r, c08unhx(x[2:]))
				}
			}
		}
	}
}
