//go:build verif_c08

package main

// C08 — aggregate clause: SUM, AVERAGE, COUNT, COUNTA, MIN, MAX, PRODUCT over
// ranges. Generated stream: random workbooks whose cells are drawn from all
// kinds (negative / positive numbers, zeros, numeric text, text, booleans,
// blanks, formula cells with number / text / boolean / error results), random
// 1-D and 2-D ranges (same sheet, other sheet, defined name, `$` forms,
// single-cell ranges, one or two range arguments), plain and nested inside
// operator expressions.
//
//   agg <FN> <key>… | <tree>     one aggregate over the listed cells (row-major, argument order):
//                                Go raw result vs the Lean fold (Impl) and Excel's fold (Spec)
//   evx | <tree>                 aggregate(s) inside an operator expression: direct oracle only
//
// Expected values come from the harness's own reference fold (Excel's rules).
// A deviation is attributed to a known finding only when the implementation's
// result is *exactly* the value the known clean-tree behaviour predicts
// (c08AggShadow) and the content class that explains it is present; anything
// else gets an `…:unpredicted` / `…:unexplained` signature and is a violation.

import (
	"fmt"
	"math"
	"sort"
	"strconv"
	"strings"

	xl "github.com/xuri/excelize/v2"
)

type c08ICell struct {
	K string // num bool str errv empty
	N float64
	S string
}

func c08ParseImage(img string) c08ICell {
	w := strings.Fields(img)
	if len(w) == 0 {
		return c08ICell{K: "empty"}
	}
	switch w[0] {
	case "num":
		u, _ := strconv.ParseUint(w[1], 16, 64)
		return c08ICell{K: "num", N: math.Float64frombits(u)}
	case "bool":
		if w[1] == "1" {
			return c08ICell{K: "bool", N: 1}
		}
		return c08ICell{K: "bool", N: 0}
	case "str":
		return c08ICell{K: "str", S: c08unhx(w[1])}
	case "errv":
		return c08ICell{K: "errv"}
	}
	return c08ICell{K: "empty"} // a formula cell whose evaluation fails is an empty argument
}

// c08AggShadow: what the unchanged tree computes for FN over the matrix elements (known
// behaviour, including the known deviations); result in the raw-image format of c08Raw.
func c08AggShadow(fn string, cells []c08ICell) string {
	num := func(x float64) string {
		if math.IsNaN(x) {
			return "errv " + hx("#NUM!")
		}
		return "num " + c08Bits(x)
	}
	switch fn {
	case "SUM":
		s := 0.0
		for _, c := range cells {
			switch c.K {
			case "num", "bool":
				s += c.N
			case "str":
				// ToNumber: text such as "inf" or "NaN" parses but is #NUM! and skipped
				if x, err := strconv.ParseFloat(c.S, 64); err == nil && !math.IsNaN(x) && !math.IsInf(x, 0) {
					s += x
				}
			default:
				s += 0
			}
		}
		return num(s)
	case "AVERAGE":
		n, s := 0.0, 0.0
		for _, c := range cells {
			switch c.K {
			case "num":
				s += c.N
				n++
			case "str":
				if c.S == "TRUE" || c.S == "FALSE" {
					continue
				}
				if x, err := strconv.ParseFloat(c.S, 64); err == nil && !math.IsNaN(x) && !math.IsInf(x, 0) {
					s += x
					n++
				}
			}
		}
		if n == 0 {
			return "err " + hx("#DIV/0!")
		}
		return num(s / n)
	case "COUNT":
		n := 0
		for _, c := range cells {
			if c.K == "num" || c.K == "bool" {
				n++
			}
		}
		return num(float64(n))
	case "COUNTA":
		n := 0
		for _, c := range cells {
			if c.K == "num" || c.K == "bool" || c.K == "str" && c.S != "" {
				n++
			}
		}
		return num(float64(n))
	case "MAX":
		m := -math.MaxFloat64
		for _, c := range cells {
			if c.K == "num" && c.N > m {
				m = c.N
			}
		}
		if m == -math.MaxFloat64 {
			m = 0
		}
		return num(m)
	case "MIN":
		m := math.MaxFloat64
		for _, c := range cells {
			if c.K == "num" && c.N < m {
				m = c.N
			}
		}
		if m == math.MaxFloat64 {
			m = 0
		}
		return num(m)
	case "PRODUCT":
		p := 1.0
		for _, c := range cells {
			if c.K == "num" || c.K == "bool" {
				p *= c.N
			}
		}
		return num(p)
	}
	return "?"
}

func c08ImageVal(img string) c08Val {
	w := strings.Fields(img)
	switch w[0] {
	case "num":
		u, _ := strconv.ParseUint(w[1], 16, 64)
		return c08Val{K: "num", N: math.Float64frombits(u)}
	case "err", "errv":
		if len(w) > 1 {
			return c08Err(c08unhx(w[1]))
		}
	}
	return c08Err("#VALUE!")
}

// c08AggSig: the value-class specific signature explaining why FN over these cells deviates on
// the unchanged tree ("" = no known deviation applies to this content).
func c08AggSig(fn string, impl []c08ICell, spec []c08Val) string {
	has := map[string]bool{}
	nums := 0
	for i, c := range impl {
		sv := spec[i]
		switch {
		case sv.K == "err":
			has["err"] = true
		case c.K == "str" && c.S == "" && sv.K != "blank":
			has["empty-string-result"] = true
		case c.K == "str":
			if x, err := strconv.ParseFloat(c.S, 64); err == nil && !math.IsNaN(x) && !math.IsInf(x, 0) {
				has["numeric-text"] = true
			}
		case c.K == "bool" && c.N == 1:
			has["bool-true"] = true
		case c.K == "bool":
			has["bool-false"] = true
		case c.K == "num":
			nums++
		}
	}
	if has["err"] {
		switch fn {
		case "COUNT":
		case "COUNTA":
			return "agg:COUNTA:error-cell-not-counted"
		default:
			return "agg:range-error-not-propagated"
		}
	}
	var cls []string
	switch fn {
	case "SUM":
		for _, k := range []string{"numeric-text", "bool-true"} {
			if has[k] {
				cls = append(cls, k)
			}
		}
	case "AVERAGE":
		if has["numeric-text"] {
			cls = append(cls, "numeric-text")
		}
	case "COUNT":
		if has["bool-true"] || has["bool-false"] {
			cls = append(cls, "bool")
		}
	case "COUNTA":
		if has["empty-string-result"] {
			cls = append(cls, "empty-string-result")
		}
	case "PRODUCT":
		if nums == 0 {
			cls = append(cls, "no-numbers")
		} else if has["bool-false"] {
			cls = append(cls, "bool-false")
		}
	}
	if len(cls) == 0 {
		return ""
	}
	return "agg:" + fn + ":" + strings.Join(cls, "+")
}

func (st *c08State) aggCells(n *c08Node) ([]c08ICell, []c08Val) {
	var impl []c08ICell
	var spec []c08Val
	for _, k := range n.Keys {
		v, ok := st.env[k]
		if !ok {
			v = c08Val{K: "blank"}
		}
		spec = append(spec, v)
		impl = append(impl, c08ParseImage(st.impl[k]))
	}
	return impl, spec
}

func c08AggLeaves(n *c08Node, out *[]*c08Node) {
	if n == nil {
		return
	}
	if n.Kind == "G" {
		*out = append(*out, n)
	}
	c08AggLeaves(n.A, out)
	c08AggLeaves(n.B, out)
}

// aggFormula evaluates one formula containing aggregate leaves.
func (st *c08State) aggFormula(r *Run, tree *c08Node) {
	text := c08Render(tree, 1, false)
	var leaves []*c08Node
	c08AggLeaves(tree, &leaves)
	for _, lf := range leaves {
		for _, arg := range strings.Split(lf.Spell, ",") {
			p := strings.Split(arg, "_")
			if len(p) == 4 && p[0] == "rg" && !st.names[arg] {
				st.names[arg] = true
				c1, r1, _ := xl.CellNameToCoordinates(p[2])
				c2, r2, _ := xl.CellNameToCoordinates(p[3])
				aa, _ := xl.CoordinatesToCellName(c1, r1, true)
				ba, _ := xl.CoordinatesToCellName(c2, r2, true)
				must(st.f.SetDefinedName(&xl.DefinedName{Name: arg, RefersTo: p[1] + "!" + aa + ":" + ba}))
			}
		}
	}
	must(st.f.SetCellFormula(st.main(), c08Main, text))
	raw := c08Raw(st.f, st.main(), c08Main)
	res, errs, pan := c08Public(st.f, st.main(), c08Main)
	sig, leafDesc := "", ""
	shadow := map[*c08Node]string{}
	for _, lf := range leaves {
		impl, spec := st.aggCells(lf)
		shadow[lf] = c08AggShadow(lf.Op, impl)
		sv := c08AggSpec(lf.Op, spec)
		okLeaf, _ := c08LeafSame(shadow[lf], sv)
		if !okLeaf && sig == "" {
			sig = c08AggSig(lf.Op, impl, spec)
			if sig == "" {
				sig = "agg:" + lf.Op + ":unexplained"
			}
		}
		if leafDesc == "" {
			leafDesc = lf.Op + "(" + lf.Spell + ") over " + c08ShowCells(spec)
		}
		r.Stat("agg:fn:" + lf.Op)
		r.Stat(fmt.Sprintf("agg:cells<=%d", 4*((len(lf.Keys)+3)/4)))
	}
	evS := &c08Eval{env: st.env, taint: st.taint, names: st.resolveName, agg: func(n *c08Node) c08Val {
		_, spec := st.aggCells(n)
		return c08AggSpec(n.Op, spec)
	}}
	want := c08Top(evS.eval(tree))
	evP := &c08Eval{env: st.env, taint: st.taint, names: st.resolveName, agg: func(n *c08Node) c08Val { return c08ImageVal(shadow[n]) }}
	pred := c08Top(evP.eval(tree))
	var tb strings.Builder
	c08TreeEnc(tree, &tb)
	ln := 0
	op := "evx | " + tb.String()
	if tree.Kind == "G" {
		var ks []string
		for _, k := range tree.Keys {
			ks = append(ks, hx(k))
		}
		if st.isDefName(tree.Spell) { // a defined range name: the model does the lookup
			ks = []string{"d:" + hx(tree.Spell) + ":" + hx(st.main())}
		} else if !strings.Contains(tree.Spell, "rg_") { // spelled ranges: the model resolves them (parseReference)
			ks = nil
			for _, a := range strings.Split(tree.Spell, ",") {
				ks = append(ks, "gr:"+hx(c08Unquote(a))+":"+hx(st.main()))
			}
		}
		op = "agg " + tree.Op + " " + strings.Join(ks, " ") + " | " + tb.String()
		ln = r.Op(op, raw+c08Out(raw, res, errs, false)+" S="+c08SpecStr(c08AggSpec(tree.Op, func() []c08Val { _, s := st.aggCells(tree); return s }())))
		r.Stat("stream:aggregate plain (transcript + oracle)")
	} else {
		// an aggregate call inside an operator expression: the token machine with its in-function
		// branch (function start, range arguments, separators, evalInfixExpFunc) in the transcript
		spell := map[string]string{}
		c08Refs(tree, spell)
		for _, lf := range leaves {
			args := strings.Split(lf.Spell, ",")
			sizes := lf.ArgN
			if len(sizes) != len(args) {
				sizes = []int{len(lf.Keys)}
			}
			off := 0
			for i, a := range args {
				if i >= len(sizes) {
					break
				}
				switch {
				case st.isDefName(a):
					spell[a] = "@DG:" + st.main()
				case strings.HasPrefix(a, "rg_"): // self-describing workbook-level name of the aggregate generator
					spell[a] = "@G:" + strings.Join(lf.Keys[off:off+sizes[i]], ",")
				default: // a spelled range: the model resolves it (parseReference)
					spell[c08Unquote(a)] = "@GR:" + st.main()
				}
				off += sizes[i]
			}
		}
		toks, _ := c08Tokens(text, spell)
		op = "ev " + toks + " | " + tb.String()
		ln = r.Op(op, raw+c08Out(raw, res, errs, false)+" render=ok tree=ok S="+c08SpecStr(want))
		r.Stat("stream:aggregate nested in operators (transcript + oracle)")
	}
	r.Case("agg:"+text+"|"+strings.Join(st.lines, ";"), true)
	replay := "reset\n" + strings.Join(st.lines, "\n") + "\n" + op
	ok, _ := c08Agree(want, res, errs, pan)
	if ok {
		r.Stat("oracle:agree")
		return
	}
	// a deviation: attributable only if it is exactly the known clean-tree behaviour
	predicted, _ := c08Agree(pred, res, errs, pan)
	if tree.Kind == "G" && raw != shadow[tree] {
		predicted = false
	}
	switch {
	case sig == "" && evS.class != "":
		sig = evS.class // an operator-level deviation around a correct aggregate
	case sig == "":
		sig = "agg:" + leaves[0].Op + ":unexplained"
		if len(leaves) > 1 {
			sig = "agg:nested:unexplained"
		}
	case !predicted:
		sig += ":unpredicted"
	}
	if st.wide && len(st.defs) == 0 && strings.Contains(sig, ":unexplained") {
		sig = "ref:formula-precedent"
	}
	if len(st.defs) > 0 && strings.HasSuffix(sig, ":unexplained") {
		sig = "defname:resolution"
		leafDesc = "on " + st.main() + ", names " + st.showDefs() + "; " + leafDesc
	}
	r.Fail(sig, fmt.Sprintf("=%s [%s]: CalcCellValue gives %q err=%q, Excel's rules give %s (known behaviour would give %s)",
		text, leafDesc, res, errs, c08Show(want), c08Show(pred)), ln, replay)
}

// does the shadow image denote the same value as the reference value?
func c08LeafSame(img string, sv c08Val) (bool, bool) {
	v := c08ImageVal(img)
	if v.K != sv.K {
		return false, false
	}
	if v.K == "num" {
		return c08Close(v.N, sv.N), false
	}
	return v.S == sv.S, false
}

// ---------------------------------------------------------------- generator

type c08AggGen struct {
	rng   *Rng
	st    *c08State
	names int
}

var c08AggText = []string{"abc", "x y", "zz", "TRUE", "n/a", "inf", "NaN", "-Infinity", "Inf"}

func (g *c08AggGen) number(profile int) float64 {
	neg := []float64{-1, -2.5, -3, -10, -0.5, -100, -7.25, -42}
	pos := []float64{1, 2.5, 3, 10, 0.5, 100, 7.25, 42}
	switch profile {
	case 0:
		return neg[g.rng.Intn(len(neg))]
	case 1:
		return pos[g.rng.Intn(len(pos))]
	case 2:
		return 0
	}
	switch g.rng.Intn(5) {
	case 0:
		return 0
	case 1, 2:
		return neg[g.rng.Intn(len(neg))]
	}
	return pos[g.rng.Intn(len(pos))]
}

func (g *c08AggGen) numText(profile int) string {
	x := g.number(profile)
	if g.rng.Chance(20) {
		return []string{"1e3", "007", "-1e1", "0"}[g.rng.Intn(4)]
	}
	return strconv.FormatFloat(x, 'f', -1, 64)
}

func c08NumLit(x float64) *c08Node {
	if x < 0 || (x == 0 && math.Signbit(x)) {
		return c08U("neg", c08Lit("N", strconv.FormatFloat(-x, 'f', -1, 64)))
	}
	return c08Lit("N", strconv.FormatFloat(x, 'f', -1, 64))
}

// formula cell templates: number, text, boolean, numeric text, empty text, #DIV/0!, #NUM! value
func (g *c08AggGen) formulaTree(profile int) (*c08Node, string) {
	switch g.rng.Intn(9) {
	case 8:
		return c08B("mul", c08Lit("N", "1E+200"), c08Lit("N", "1E+200")), "formula:overflow-error-value"
	case 0:
		return c08B("div", c08Lit("N", "1"), c08Lit("N", "0")), "formula:error"
	case 1:
		return c08B("pow", c08U("par", c08U("neg", c08Lit("N", "8"))), c08Lit("N", "0.5")), "formula:num-error-value"
	case 2:
		return c08B("cat", c08Lit("X", "x"), c08Lit("X", "y")), "formula:text"
	case 3:
		return c08B("eq", c08Lit("N", "1"), c08Lit("N", g.rng.Pick([]string{"1", "2"}))), "formula:bool"
	case 4:
		return c08B("cat", c08Lit("X", g.numText(profile)), c08Lit("X", "")), "formula:numeric-text"
	case 5:
		return c08B("cat", c08Lit("X", ""), c08Lit("X", "")), "formula:empty-text"
	}
	return c08B("mul", c08NumLit(g.number(profile)), c08Lit("N", "2")), "formula:number"
}

var c08AggSheets = []struct {
	name       string
	cols, rows int
}{{"Sheet1", 4, 6}, {"Sheet2", 3, 4}}

// workbook: every cell of both grids gets a `cell` line
func (g *c08AggGen) workbook(r *Run) {
	st := c08NewState()
	g.st = st
	g.names = 0
	r.Op("reset", "ok")
	profile := g.rng.Intn(5)  // 0 all negative, 1 all positive, 2 zeros only, 3/4 mixed
	density := g.rng.Intn(4)  // 0: numbers and blanks only … 3: many non-numbers
	noNumbers := g.rng.Chance(8)
	r.Stat("agg:profile:" + []string{"all-negative", "all-positive", "zeros", "mixed", "mixed"}[profile])
	for _, sh := range c08AggSheets {
		for row := 1; row <= sh.rows; row++ {
			for col := 1; col <= sh.cols; col++ {
				name, _ := xl.CoordinatesToCellName(col, row)
				key := sh.name + "!" + name
				kind := 0
				if g.rng.Intn(10) < 2+2*density {
					kind = 1 + g.rng.Intn(6)
				}
				if noNumbers && kind == 0 {
					kind = 1 + g.rng.Intn(5)
				}
				switch kind {
				case 0:
					st.setCell(r, key, "n", c08Bits(g.number(profile)))
					r.Stat("agg:cell:number")
				case 1:
					st.setCell(r, key, "b", "")
					r.Stat("agg:cell:blank")
				case 2:
					st.setCell(r, key, "s", g.numText(profile))
					r.Stat("agg:cell:numeric-text")
				case 3:
					st.setCell(r, key, "s", g.rng.Pick(c08AggText))
					r.Stat("agg:cell:text")
				case 4:
					st.setCell(r, key, "t", g.rng.Pick([]string{"0", "1"}))
					r.Stat("agg:cell:bool")
				case 5:
					st.setCell(r, key, "b", "")
					r.Stat("agg:cell:blank")
				default:
					t, what := g.formulaTree(profile)
					if noNumbers && what == "formula:number" {
						t, what = c08B("cat", c08Lit("X", "x"), c08Lit("X", "y")), "formula:text"
					}
					st.setFormulaCell(r, key, t)
					r.Stat("agg:cell:" + what)
				}
			}
		}
	}
}

// a random rectangle and its spelling
func (g *c08AggGen) rangeArg(r *Run) (string, []string) {
	sh := c08AggSheets[0]
	if g.rng.Chance(30) {
		sh = c08AggSheets[1]
	}
	var c1, c2, r1, r2 int
	switch g.rng.Intn(6) {
	case 0: // single cell
		c1, r1 = 1+g.rng.Intn(sh.cols), 1+g.rng.Intn(sh.rows)
		c2, r2 = c1, r1
		r.Stat("agg:range:single-cell")
	case 1: // column segment
		c1 = 1 + g.rng.Intn(sh.cols)
		c2 = c1
		r1, r2 = 1+g.rng.Intn(sh.rows), 1+g.rng.Intn(sh.rows)
		r.Stat("agg:range:1-D column")
	case 2: // row segment
		r1 = 1 + g.rng.Intn(sh.rows)
		r2 = r1
		c1, c2 = 1+g.rng.Intn(sh.cols), 1+g.rng.Intn(sh.cols)
		r.Stat("agg:range:1-D row")
	default:
		c1, c2 = 1+g.rng.Intn(sh.cols), 1+g.rng.Intn(sh.cols)
		r1, r2 = 1+g.rng.Intn(sh.rows), 1+g.rng.Intn(sh.rows)
		r.Stat("agg:range:2-D")
	}
	if c1 > c2 {
		c1, c2 = c2, c1
	}
	if r1 > r2 {
		r1, r2 = r2, r1
	}
	var keys []string
	for row := r1; row <= r2; row++ {
		for col := c1; col <= c2; col++ {
			n, _ := xl.CoordinatesToCellName(col, row)
			keys = append(keys, sh.name+"!"+n)
		}
	}
	a, _ := xl.CoordinatesToCellName(c1, r1)
	b, _ := xl.CoordinatesToCellName(c2, r2)
	aa, _ := xl.CoordinatesToCellName(c1, r1, true)
	ba, _ := xl.CoordinatesToCellName(c2, r2, true)
	mode := g.rng.Intn(6)
	if sh.name != "Sheet1" && mode < 2 {
		mode = 2 + g.rng.Intn(2)
	}
	switch mode {
	case 0:
		r.Stat("agg:spelling:relative")
		return a + ":" + b, keys
	case 1:
		r.Stat("agg:spelling:absolute")
		return aa + ":" + ba, keys
	case 2, 3:
		r.Stat("agg:spelling:sheet-qualified")
		return sh.name + "!" + a + ":" + b, keys
	case 4:
		r.Stat("agg:spelling:sheet-qualified")
		return sh.name + "!" + aa + ":" + ba, keys
	}
	_, _ = aa, ba
	r.Stat("agg:spelling:defined-name")
	return "rg_" + sh.name + "_" + a + "_" + b, keys // defined on demand by aggFormula (self-describing, replayable)
}

func (g *c08AggGen) leaf(r *Run, fn string) *c08Node {
	sp, keys := g.rangeArg(r)
	if g.rng.Chance(15) {
		sp2, k2 := g.rangeArg(r)
		n1 := len(keys)
		sp, keys = sp+","+sp2, append(keys, k2...)
		r.Stat("agg:args:2")
		return &c08Node{Kind: "G", Op: fn, Spell: sp, Keys: keys, ArgN: []int{n1, len(k2)}}
	}
	r.Stat("agg:args:1")
	return &c08Node{Kind: "G", Op: fn, Spell: sp, Keys: keys}
}

// aggregates nested inside operator expressions (operators on numbers only)
func (g *c08AggGen) nested(r *Run) *c08Node {
	f := g.leaf(r, g.rng.Pick(c08AggFns))
	f2 := g.leaf(r, g.rng.Pick(c08AggFns))
	n := func(s string) *c08Node { return c08Lit("N", s) }
	switch g.rng.Intn(10) {
	case 0:
		return c08B("add", c08B("mul", c08U("neg", f), n("2")), n("1")) // -F*2+1
	case 1:
		return c08B("lt", f, n("0")) // F<0
	case 2:
		return c08B("add", f, n("1"))
	case 3:
		return c08B("add", n("1"), f)
	case 4:
		return c08B("mul", f, f2)
	case 5:
		return c08B("mul", c08U("par", c08B("add", f, n("1"))), n("2"))
	case 6:
		return c08B("sub", f, f2)
	case 7:
		return c08B("ge", f, f2)
	case 8:
		return c08B("div", f, n("4"))
	}
	return c08B("add", c08B("mul", n("2"), f), f2)
}

// deterministic witnesses of every known aggregate deviation
func c08AggWitnesses(r *Run) {
	st := c08NewState()
	r.Op("reset", "ok")
	st.setCell(r, "Sheet1!A1", "n", c08Bits(5))
	st.setCell(r, "Sheet1!A2", "s", "7")
	st.setCell(r, "Sheet1!A3", "s", "abc")
	st.setCell(r, "Sheet1!A4", "t", "1")
	st.setCell(r, "Sheet1!A5", "b", "")
	st.setCell(r, "Sheet1!A6", "n", c08Bits(0))
	st.setCell(r, "Sheet1!A7", "t", "0")
	st.setCell(r, "Sheet1!A8", "n", c08Bits(-3))
	st.setFormulaCell(r, "Sheet1!B1", c08B("div", c08Lit("N", "1"), c08Lit("N", "0")))
	st.setFormulaCell(r, "Sheet1!B2", c08B("mul", c08Lit("N", "5"), c08Lit("N", "2")))
	st.setFormulaCell(r, "Sheet1!B3", c08B("cat", c08Lit("X", ""), c08Lit("X", "")))
	st.setCell(r, "Sheet1!B4", "n", c08Bits(2))
	rg := func(fn, sp string, cells ...string) *c08Node {
		var keys []string
		for _, c := range cells {
			keys = append(keys, "Sheet1!"+c)
		}
		return &c08Node{Kind: "G", Op: fn, Spell: sp, Keys: keys}
	}
	for _, w := range []*c08Node{
		rg("SUM", "A1:A2", "A1", "A2"),                   // numeric text counted
		rg("SUM", "A4:A6", "A4", "A5", "A6"),             // TRUE counted
		rg("SUM", "A1:A4", "A1", "A2", "A3", "A4"),       // both
		rg("AVERAGE", "A1:A2", "A1", "A2"),               // numeric text counted
		rg("COUNT", "A4:A6", "A4", "A5", "A6"),           // boolean counted
		rg("COUNTA", "B3:B4", "B3", "B4"),                // ="" result not counted
		rg("COUNTA", "B1:B2", "B1", "B2"),                // error cell not counted
		rg("PRODUCT", "A3:A3", "A3"),                     // no numbers -> 1
		rg("PRODUCT", "A7:A8", "A7", "A8"),               // FALSE multiplies by 0
		rg("SUM", "B1:B2", "B1", "B2"),                   // error not propagated
		rg("MAX", "A1:A8", "A1", "A2", "A3", "A4", "A5", "A6", "A7", "A8"),
		rg("MIN", "A2:A8", "A2", "A3", "A4", "A5", "A6", "A7", "A8"),
		{Kind: "G", Op: "MAX", Spell: "A2:A3,A8:A8", Keys: []string{"Sheet1!A2", "Sheet1!A3", "Sheet1!A8"}, ArgN: []int{2, 1}}, // all numbers negative next to text: -3
	} {
		st.aggFormula(r, w)
		r.Stat("stream:aggregate witness")
	}
	st.aggFormula(r, c08B("add", c08B("mul", c08U("neg", &c08Node{Kind: "G", Op: "MAX", Spell: "A2:A3,A8:A8", Keys: []string{"Sheet1!A2", "Sheet1!A3", "Sheet1!A8"}, ArgN: []int{2, 1}}), c08Lit("N", "2")), c08Lit("N", "1")))
}

func c08AggStream(r *Run, rng *Rng) {
	c08AggWitnesses(r)
	g := &c08AggGen{rng: rng}
	nwb, per := 60, 40
	if r.Tier == "thorough" {
		nwb, per = 400, 60
	}
	for w := 0; w < nwb; w++ {
		g.workbook(r)
		for i := 0; i < per; i++ {
			if rng.Chance(25) {
				g.st.aggFormula(r, g.nested(r))
			} else {
				g.st.aggFormula(r, g.leaf(r, c08AggFns[(i+w)%len(c08AggFns)]))
			}
		}
	}
}

func c08SortedKeys(m map[string]bool) []string {
	var ks []string
	for k := range m {
		ks = append(ks, k)
	}
	sort.Strings(ks)
	return ks
}
