//go:build verif_c08

package main

// C08 — "references resolve … through defined names": defined-name sub-generator.
//
//   defname <name> <scope> <keys>   one SetDefinedName, in creation order (scope "Workbook" or a sheet;
//                                   keys = comma-joined cells the name refers to, row-major)
//   main <sheet>                    the sheet holding the following main formulas
//   ev … d:<name>:<sheet> … | … D:<name>:<sheet> …     a name used as an operand on that sheet
//   agg <FN> d:<name>:<sheet> | …                      a range name inside an aggregate
//
// The Lean driver performs the lookup itself (Impl = the two-slot scan of getDefinedNameRefTo
// over the definitions in creation order, Spec = Excel's shadowing rule); the Go side evaluates
// the real formula on the real sheet. Expected values come from the harness's own resolver:
// a name scoped to the formula's sheet shadows the workbook-scoped one, a name scoped to
// another sheet is not visible (#NAME?).

import (
	"fmt"
	"strings"

	xl "github.com/xuri/excelize/v2"
)

type c08Def struct {
	Name, Scope string
	Keys        []string
}

func (st *c08State) main() string {
	if st.mainSheet == "" {
		return "Sheet1"
	}
	return st.mainSheet
}

// the reference resolver (Excel's rule)
func (st *c08State) resolveName(name, cur string) ([]string, bool) {
	var wb *c08Def
	for i := range st.defs {
		d := &st.defs[i]
		if d.Name != name {
			continue
		}
		if d.Scope == cur {
			return d.Keys, true
		}
		if d.Scope == "Workbook" && wb == nil {
			wb = d
		}
	}
	if wb != nil {
		return wb.Keys, true
	}
	return nil, false
}

func (st *c08State) isDefName(s string) bool {
	for _, d := range st.defs {
		if d.Name == s {
			return true
		}
	}
	return false
}

func (st *c08State) setMain(r *Run, sheet string) {
	st.mainSheet = sheet
	line := "main " + hx(sheet)
	r.Op(line, "ok")
	// only the last `main` line matters for a replay
	for i, l := range st.lines {
		if strings.HasPrefix(l, "main ") {
			st.lines = append(st.lines[:i], st.lines[i+1:]...)
			break
		}
	}
	st.lines = append(st.lines, line)
}

// defineName: keys are the cells of one rectangle on one sheet, row-major
func (st *c08State) defineName(r *Run, name, scope string, keys []string) {
	sh, a := c08SplitKey(keys[0])
	_, b := c08SplitKey(keys[len(keys)-1])
	c1, r1, _ := xl.CellNameToCoordinates(a)
	c2, r2, _ := xl.CellNameToCoordinates(b)
	aa, _ := xl.CoordinatesToCellName(c1, r1, true)
	ba, _ := xl.CoordinatesToCellName(c2, r2, true)
	ref := sh + "!" + aa
	if len(keys) > 1 {
		ref += ":" + ba
	}
	dn := &xl.DefinedName{Name: name, RefersTo: ref}
	if scope != "Workbook" {
		dn.Scope = scope
	}
	must(st.f.SetDefinedName(dn))
	st.defs = append(st.defs, c08Def{name, scope, keys})
	line := "defname " + hx(name) + " " + hx(scope) + " " + hx(strings.Join(keys, ","))
	r.Op(line, "ok")
	st.lines = append(st.lines, line)
	r.Stat("defname:scope:" + map[bool]string{true: "workbook", false: "sheet"}[scope == "Workbook"])
}

func (st *c08State) showDefs() string {
	var out []string
	for _, d := range st.defs {
		out = append(out, d.Name+"@"+d.Scope+"->"+d.Keys[0]+map[bool]string{true: "…", false: ""}[len(d.Keys) > 1])
	}
	return "[" + strings.Join(out, " ") + "]"
}

func c08HasKind(n *c08Node, k string) bool {
	if n == nil {
		return false
	}
	return n.Kind == k || c08HasKind(n.A, k) || c08HasKind(n.B, k)
}

var c08DnSheets = []string{"Sheet1", "Sheet2", "Sheet3"}

// 3x3 numbers on each of three sheets, all distinct
func c08DnWorkbook(r *Run) *c08State {
	st := c08NewState()
	r.Op("reset", "ok")
	for i, sh := range c08DnSheets {
		for row := 1; row <= 3; row++ {
			for col := 1; col <= 3; col++ {
				n, _ := xl.CoordinatesToCellName(col, row)
				st.setCell(r, sh+"!"+n, "n", c08Bits(float64((i+1)*100+row*10+col)))
			}
		}
	}
	return st
}

func c08Rect(sheet string, c1, r1, c2, r2 int) []string {
	var keys []string
	for row := r1; row <= r2; row++ {
		for col := c1; col <= c2; col++ {
			n, _ := xl.CoordinatesToCellName(col, row)
			keys = append(keys, sheet+"!"+n)
		}
	}
	return keys
}

func c08Perms(xs []string) [][]string {
	if len(xs) <= 1 {
		return [][]string{append([]string{}, xs...)}
	}
	var out [][]string
	for i := range xs {
		rest := append(append([]string{}, xs[:i]...), xs[i+1:]...)
		for _, p := range c08Perms(rest) {
			out = append(out, append([]string{xs[i]}, p...))
		}
	}
	return out
}

// formulas using a scalar name and a range name on the current main sheet
func (st *c08State) dnFormulas(r *Run, scalar, rng string, rnd *Rng) {
	cur := st.main()
	D := func(n string) *c08Node { return &c08Node{Kind: "D", S: n, Spell: cur} }
	num := func(s string) *c08Node { return c08Lit("N", s) }
	forms := []*c08Node{
		D(scalar),
		c08B("add", c08B("mul", D(scalar), num("2")), num("1")),
		c08B("sub", c08Ref("Sheet1!A1", "Sheet1!A1"), D(scalar)),
		c08B("lt", D(scalar), num("250")),
		c08U("neg", D(scalar)),
	}
	for i, f := range forms {
		if rnd != nil && i > 0 && !rnd.Chance(50) {
			continue
		}
		st.formula(r, "ev", "", f, false)
		r.Stat("stream:defined-name operand")
	}
	if keys, ok := st.resolveName(rng, cur); ok {
		for i, fn := range []string{"SUM", "MAX", "COUNT", "AVERAGE", "MIN", "PRODUCT", "COUNTA"} {
			if rnd != nil && !rnd.Chance(40) || rnd == nil && i > 2 {
				continue
			}
			g := &c08Node{Kind: "G", Op: fn, Spell: rng, Keys: keys}
			st.aggFormula(r, g)
			r.Stat("stream:defined-name in aggregate")
		}
		if _, ok := st.resolveName(scalar, cur); ok {
			g := &c08Node{Kind: "G", Op: "MAX", Spell: rng, Keys: keys}
			st.aggFormula(r, c08B("sub", g, D(scalar))) // MAX(items)-rate, oracle only
			r.Stat("stream:defined-name in aggregate")
		}
	}
}

func c08DnStream(r *Run, rng *Rng) {
	scopes := []string{"Workbook", "Sheet1", "Sheet2", "Sheet3"}
	scalarTarget := map[string][]string{
		"Workbook": c08Rect("Sheet1", 1, 1, 1, 1), "Sheet1": c08Rect("Sheet2", 2, 2, 2, 2),
		"Sheet2": c08Rect("Sheet3", 3, 3, 3, 3), "Sheet3": c08Rect("Sheet1", 3, 1, 3, 1)}
	rangeTarget := map[string][]string{
		"Workbook": c08Rect("Sheet1", 1, 1, 1, 3), "Sheet1": c08Rect("Sheet2", 1, 1, 2, 2),
		"Sheet2": c08Rect("Sheet3", 2, 1, 2, 3), "Sheet3": c08Rect("Sheet2", 3, 1, 3, 3)}
	// A. every non-empty set of scopes for the same name, in every creation order,
	//    used from every sheet
	for mask := 1; mask < 16; mask++ {
		var set []string
		for i, s := range scopes {
			if mask&(1<<i) != 0 {
				set = append(set, s)
			}
		}
		for _, order := range c08Perms(set) {
			st := c08DnWorkbook(r)
			for _, sc := range order {
				st.defineName(r, "rate", sc, scalarTarget[sc])
				st.defineName(r, "items", sc, rangeTarget[sc])
			}
			for _, sh := range c08DnSheets {
				st.setMain(r, sh)
				st.dnFormulas(r, "rate", "items", nil)
			}
			r.Stat(fmt.Sprintf("defname:same-name-at-%d-scopes", len(order)))
		}
	}
	// B. random: four names, random scopes, interleaved creation order, random targets
	nwb := 25
	if r.Tier == "thorough" {
		nwb = 200
	}
	for w := 0; w < nwb; w++ {
		st := c08DnWorkbook(r)
		type def struct {
			name, scope string
			keys        []string
		}
		var defs []def
		for _, name := range []string{"rate", "base_x", "items", "vals2"} {
			isRange := name == "items" || name == "vals2"
			for _, sc := range scopes {
				if !rng.Chance(45) {
					continue
				}
				sh := rng.Pick(c08DnSheets)
				c1, r1 := 1+rng.Intn(3), 1+rng.Intn(3)
				c2, r2 := c1, r1
				if isRange {
					c2, r2 = c1+rng.Intn(4-c1), r1+rng.Intn(4-r1)
				}
				defs = append(defs, def{name, sc, c08Rect(sh, c1, r1, c2, r2)})
			}
		}
		for i := len(defs) - 1; i > 0; i-- { // creation order: random interleaving
			j := rng.Intn(i + 1)
			defs[i], defs[j] = defs[j], defs[i]
		}
		for _, d := range defs {
			st.defineName(r, d.name, d.scope, d.keys)
		}
		for _, sh := range c08DnSheets {
			st.setMain(r, sh)
			st.dnFormulas(r, rng.Pick([]string{"rate", "base_x"}), rng.Pick([]string{"items", "vals2"}), rng)
		}
	}
}
