//go:build verif_c08

package main

// C08 — formula-precedent stream (added after the seeded change C08-g-1 was MISSED: the
// per-evaluation memo of formula-cell results in calc.go — ctx.entry / ctx.iterations /
// ctx.iterationsCache in CalcCellValue and cellResolver — got the key `sheet!<colNumber><row>`
// without a separator, so two FORMULA cells whose column-number and row digits concatenate
// equally (A11/K1, A12/K2, B12/U2, A111/K11/DG1) shared one entry; the earlier streams had
// formula precedents only in B1..B4 and constants elsewhere).
//
// Workbooks whose precedents are FORMULA cells with pairwise distinct values spread over
// columns A..ZZ and rows 1..300 — deliberately including every pair / triple whose
// Itoa(col)+Itoa(row) strings collide, the same cell names on two sheets, and a precedent
// colliding with the entry cell Z9 — referenced in ONE evaluation directly (`p-q`, `q-p`, `p&q`,
// every spelling), transitively (chains of formula cells) and through ranges / aggregates.
// Everything goes through the existing ops (`cell … f`, `ev`, `agg`): Go's raw result is compared
// with the Lean model bit for bit, the public CalcCellValue result with the reference evaluator.

import (
	"fmt"
	"strconv"

	xl "github.com/xuri/excelize/v2"
)

const c08FpMaxCol, c08FpMaxRow = 702, 300

// all (col,row) within the stream's grid whose decimal strings concatenate like those of (col,row)
func c08FpSplits(col, row int) [][2]int {
	s := strconv.Itoa(col) + strconv.Itoa(row)
	var out [][2]int
	for i := 1; i < len(s); i++ {
		if s[0] == '0' || s[i] == '0' {
			continue
		}
		c, _ := strconv.Atoi(s[:i])
		w, _ := strconv.Atoi(s[i:])
		if c == 26 && w == 9 { // Z9 is the cell of the main formula
			continue
		}
		if c >= 1 && c <= c08FpMaxCol && w >= 1 && w <= c08FpMaxRow {
			out = append(out, [2]int{c, w})
		}
	}
	return out
}

type c08FpBook struct {
	st    *c08State
	n     int // formula cells so far (their values are pairwise distinct)
	chain int
}

func c08FpNew(r *Run) *c08FpBook {
	r.Op("reset", "ok")
	return &c08FpBook{st: c08NewState()}
}

// a formula cell with a value no other cell of the workbook has
func (b *c08FpBook) cell(r *Run, sheet string, col, row int) string {
	name, _ := xl.CoordinatesToCellName(col, row)
	key := sheet + "!" + name
	if _, ok := b.st.env[key]; ok {
		return key
	}
	b.n++
	var t *c08Node
	switch b.n % 3 {
	case 0:
		t = c08B("add", c08Lit("N", strconv.Itoa(1000+17*b.n)), c08Lit("N", "3"))
	case 1:
		t = c08B("mul", c08Lit("N", strconv.Itoa(1000+17*b.n+3)), c08Lit("N", "1"))
	default:
		t = c08B("sub", c08Lit("N", strconv.Itoa(1000+17*b.n+10)), c08Lit("N", "7"))
	}
	b.st.setFormulaCell(r, key, t)
	r.Stat("fp:cell:formula precedent")
	if col > 26 {
		r.Stat("fp:cell:column beyond Z")
	}
	if row > 100 {
		r.Stat("fp:cell:row beyond 100")
	}
	return key
}

func c08FpSpell(key string, mode int) string {
	sh, cell := c08SplitKey(key)
	c, w, _ := xl.CellNameToCoordinates(cell)
	abs, _ := xl.CoordinatesToCellName(c, w, true)
	if sh != "Sheet1" {
		if mode%2 == 0 {
			return sh + "!" + cell
		}
		return sh + "!" + abs
	}
	switch mode % 4 {
	case 0:
		return cell
	case 1:
		return abs
	case 2:
		return "Sheet1!" + cell
	}
	return "sheet1!" + abs
}

// every way one evaluation can resolve the formula cells p and q
func (b *c08FpBook) pair(r *Run, p, q string, mode int) {
	st := b.st
	P := func() *c08Node { return c08Ref(p, c08FpSpell(p, mode)) }
	Q := func() *c08Node { return c08Ref(q, c08FpSpell(q, mode+1)) }
	// direct
	for _, t := range []*c08Node{
		c08B("sub", P(), Q()), c08B("sub", Q(), P()), c08B("cat", P(), Q()),
		c08B("add", c08B("mul", Q(), c08Lit("N", "2")), P()), c08B("lt", P(), Q()),
	} {
		st.formula(r, "ev", "", t, false)
		r.Stat("fp:form:direct")
	}
	// transitive: X1 = p*1, X2 = X1+q, main = X2-q (= p) and X1-q
	b.chain++
	x1 := fmt.Sprintf("Sheet1!%c%d", 'C'+rune(b.chain%6), 2+b.chain%7)
	x2 := fmt.Sprintf("Sheet1!%c%d", 'C'+rune((b.chain+1)%6), 2+(b.chain+3)%7)
	if x1 != x2 {
		st.setFormulaCell(r, x1, c08B("mul", P(), c08Lit("N", "1")))
		st.setFormulaCell(r, x2, c08B("add", c08Ref(x1, c08FpSpell(x1, 0)), Q()))
		st.formula(r, "ev", "", c08B("sub", c08Ref(x2, c08FpSpell(x2, mode)), Q()), false)
		st.formula(r, "ev", "", c08B("sub", c08Ref(x1, c08FpSpell(x1, mode)), Q()), false)
		r.Stat("fp:form:transitive")
	}
	// through ranges: two one-cell range arguments, and the bounding rectangle when it is small
	shp, cp := c08SplitKey(p)
	shq, cq := c08SplitKey(q)
	pre := ""
	if shp != "Sheet1" {
		pre = shp + "!"
	}
	if shp == shq {
		for i, fn := range []string{"SUM", "MAX", "MIN", "AVERAGE", "COUNT", "PRODUCT"} {
			if (i+mode)%2 == 0 || fn == "SUM" {
				two := &c08Node{Kind: "G", Op: fn, Spell: pre + cp + ":" + cp + "," + pre + cq + ":" + cq, Keys: []string{p, q}, ArgN: []int{1, 1}}
				st.aggFormula(r, two)
				r.Stat("fp:form:range arguments")
			}
		}
		c1, r1, _ := xl.CellNameToCoordinates(cp)
		c2, r2, _ := xl.CellNameToCoordinates(cq)
		if c1 > c2 {
			c1, c2 = c2, c1
		}
		if r1 > r2 {
			r1, r2 = r2, r1
		}
		if (c2-c1+1)*(r2-r1+1) <= 400 {
			a, _ := xl.CoordinatesToCellName(c1, r1)
			z, _ := xl.CoordinatesToCellName(c2, r2)
			keys := c08Rect(shp, c1, r1, c2, r2)
			for _, fn := range []string{"SUM", "MAX", "COUNT"} {
				st.aggFormula(r, &c08Node{Kind: "G", Op: fn, Spell: pre + a + ":" + z, Keys: keys})
			}
			st.aggFormula(r, c08B("sub", &c08Node{Kind: "G", Op: "SUM", Spell: pre + a + ":" + z, Keys: keys}, P()))
			r.Stat("fp:form:bounding range")
		}
	}
}

func (b *c08FpBook) group(r *Run, sheet string, coords [][2]int, mode int) {
	var keys []string
	for _, c := range coords {
		keys = append(keys, b.cell(r, sheet, c[0], c[1]))
	}
	for i := range keys {
		for j := i + 1; j < len(keys); j++ {
			b.pair(r, keys[i], keys[j], mode+i+j)
		}
	}
	r.Stat(fmt.Sprintf("fp:group:%d colliding cells", len(keys)))
}

func c08FpStream(r *Run, rng *Rng) {
	// 1. deterministic: the small colliding pairs and triples, same names on Sheet2, entry collision
	b := c08FpNew(r)
	for i, g := range [][][2]int{
		{{1, 11}, {11, 1}},             // A11 / K1
		{{1, 12}, {11, 2}},             // A12 / K2
		{{2, 12}, {21, 2}},             // B12 / U2
		{{1, 111}, {11, 11}, {111, 1}}, // A111 / K11 / DG1
	} {
		b.group(r, "Sheet1", g, i)
	}
	b.group(r, "Sheet2", [][2]int{{1, 11}, {11, 1}}, 0)
	// the same cell name on two sheets
	b.pair(r, "Sheet1!A11", "Sheet2!A11", 0)
	b.pair(r, "Sheet2!K1", "Sheet1!K1", 1)
	r.Stat("fp:group:same name on two sheets")
	// a precedent whose digits collide with those of the entry cell Z9 (26,9): B69 (2,69)
	k := b.cell(r, "Sheet1", 2, 69)
	b.st.formula(r, "ev", "", c08B("mul", c08Ref(k, "B69"), c08Lit("N", "2")), false)
	b.st.formula(r, "ev", "", c08B("sub", c08Ref(k, "$B$69"), c08Ref("Sheet1!A11", "A11")), false)
	r.Stat("fp:group:entry cell collision")
	b = c08FpNew(r)
	for i, g := range [][][2]int{
		{{27, 1}, {2, 71}},              // AA1 / B71
		{{702, 1}, {70, 21}, {7, 21}},   // ZZ1 / BR21 (and G21: no collision, a control)
		{{1, 210}, {12, 10}, {121, 0 + 1}}, // A210 / L10 (and DQ1: control)
		{{26, 10}, {261, 300}},          // controls at the far corner
		{{10, 300}, {103, 1}},
	} {
		b.group(r, "Sheet1", g, i)
	}
	// 2. random coordinates over A..ZZ x 1..300 with all their collision partners
	nb, per := 8, 5
	if r.Tier == "thorough" {
		nb, per = 60, 6
	}
	for w := 0; w < nb; w++ {
		b := c08FpNew(r)
		sheet := "Sheet1"
		if w%4 == 3 {
			sheet = "Sheet2"
		}
		for i := 0; i < per; i++ {
			var col, row int
			switch rng.Intn(4) {
			case 0: // small column, row 11..300
				col, row = 1+rng.Intn(9), 11+rng.Intn(c08FpMaxRow-10)
			case 1: // two-digit column
				col, row = 10+rng.Intn(90), 1+rng.Intn(c08FpMaxRow)
			case 2: // three-digit column
				col, row = 100+rng.Intn(c08FpMaxCol-99), 1+rng.Intn(99)
			default:
				col, row = 1+rng.Intn(c08FpMaxCol), 11+rng.Intn(c08FpMaxRow-10)
			}
			if col == 26 && row == 9 {
				row = 19
			}
			g := c08FpSplits(col, row)
			if len(g) < 2 {
				g = append(g, [2]int{1 + rng.Intn(c08FpMaxCol), 11 + rng.Intn(c08FpMaxRow-10)})
				r.Stat("fp:random:no partner (control pair)")
			} else {
				r.Stat("fp:random:colliding")
			}
			if len(g) > 3 {
				g = g[:3]
			}
			b.group(r, sheet, g, rng.Intn(4))
		}
	}
}
